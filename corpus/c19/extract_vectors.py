#!/usr/bin/env python3
"""One-off extractor: copies the BIP324 vector tables out of the btcd test
sources into JSON so that later edits of /repo cannot move the oracle.
usage: extract_vectors.py /repo  (writes next to this script)"""
import json, os, re, sys

repo = sys.argv[1] if len(sys.argv) > 1 else "/repo"
here = os.path.dirname(os.path.abspath(__file__))

def table(src, func):
    """returns the list of {field: value} of the `tests := []struct{..}{ ... }` literal in func"""
    i = src.index("func " + func + "(")
    i = src.index("}{\n", i) + 3
    out, cur, depth, lst = [], None, 0, None
    for line in src[i:].split("\n"):
        s = line.strip()
        if depth == 0 and s == "}":
            break
        if s == "{" and depth == 0:
            cur, depth = {}, 1
            continue
        if depth == 1 and s in ("},", "}"):
            out.append(cur); cur = None; depth = 0
            continue
        if depth == 1:
            m = re.match(r'^(\w+):\s*(.*?),?$', s)
            if not m:
                raise SystemExit("cannot parse: " + s[:80])
            k, v = m.group(1), m.group(2)
            if v.startswith("[]string{"):
                if v.endswith("}"):
                    cur[k] = json.loads("[" + v[len("[]string{"):-1] + "]")
                else:
                    lst = []; cur[k] = lst; depth = 2
            elif v.startswith('"'):
                cur[k] = json.loads(v)
            elif v in ("true", "false"):
                cur[k] = v == "true"
            else:
                cur[k] = int(v)
            continue
        if depth == 2:
            if s in ("},", "}"):
                depth = 1
            else:
                lst.append(json.loads(s.rstrip(",")))
    return out

tsrc = open(os.path.join(repo, "v2transport/transport_test.go")).read()
esrc = open(os.path.join(repo, "btcec/ellswift/ellswift_test.go")).read()
for name, rows in (("packet_encoding.json", table(tsrc, "TestPacketEncodingVectors")),
                   ("xswiftec.json", table(esrc, "TestXSwiftECVectors")),
                   ("xswiftec_inv.json", table(esrc, "TestXSwiftECInvVectors"))):
    with open(os.path.join(here, name), "w") as f:
        json.dump(rows, f, indent=1)
        f.write("\n")
    print(name, len(rows))
