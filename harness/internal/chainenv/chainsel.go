package chainenv

import (
	"fmt"
	"math/big"
)

// Sel is the sequential reference model of chain selection. It is driven with
// the same operations as the real chain and yields, after every step, the set
// of tips the property allows.
//
// Eligible chains ("all of whose blocks have been delivered and are valid"):
// a node is eligible when it and all its ancestors have arrived (block data
// accepted, directly or by orphan resolution), are valid by construction
// (generator label) and are not manually invalidated.
type Sel struct {
	T *Tree
	// Arrived: block data of a chain-valid node is stored in the node's index.
	Arrived map[*Node]bool
	// StoredInvalid: a connect-invalid block with valid ancestry is stored
	// (btcd stores side-chain blocks before validating them).
	StoredInvalid map[*Node]bool
	// Orphan: block is waiting in the orphan pool.
	Orphan map[*Node]bool
	// HeaderKnown: header accepted through header delivery (no data yet).
	HeaderKnown map[*Node]bool
	// Manual: manually invalidated nodes.
	Manual map[*Node]bool
	// Cleared: nodes that were reconsidered while not being the manually invalidated block
	// themselves (an ancestor or a descendant is): btcd then clears the invalid-ancestor marks
	// of the node's subtree although a block on the path stays invalidated; what a later header
	// delivery on such a path returns is open.
	Cleared map[*Node]bool
	// Murky: nodes with invalid ancestry (or delivered under a manually
	// invalidated ancestor) whose storage status the property leaves open.
	Murky map[*Node]bool
	// Tip is the current model tip.
	Tip *Node
	// Ties counts steps where more than one tip was allowed.
	Ties int
	// Reorgs counts tip moves that were not plain extensions.
	Reorgs int

	manualOrphanDrained bool
}

// NewSel returns the model for a tree with only genesis arrived.
func NewSel(t *Tree) *Sel {
	s := &Sel{T: t, Arrived: map[*Node]bool{t.Genesis: true}, StoredInvalid: map[*Node]bool{}, Orphan: map[*Node]bool{},
		HeaderKnown: map[*Node]bool{}, Manual: map[*Node]bool{}, Cleared: map[*Node]bool{}, Murky: map[*Node]bool{}, Tip: t.Genesis}
	return s
}

// ancestryValid: every proper ancestor is valid by label.
func ancestryValid(n *Node) bool { return n.Parent == nil || n.Parent.ChainValid }

// ManualOnPath reports whether n or an ancestor is manually invalidated.
func (s *Sel) ManualOnPath(n *Node) bool {
	for it := n; it != nil; it = it.Parent {
		if s.Manual[it] {
			return true
		}
	}
	return false
}

func (s *Sel) clearedOnPath(n *Node) bool {
	for it := n; it != nil; it = it.Parent {
		if s.Cleared[it] {
			return true
		}
	}
	return false
}

// ManualRelated reports whether n, an ancestor or a descendant of n is
// manually invalidated. Nested manual invalidations are outside the domain:
// the property does not say whether reconsidering an ancestor also
// reconsiders a separately invalidated descendant (Bitcoin Core does, btcd
// does not), so histories never nest them.
func (s *Sel) ManualRelated(n *Node) bool {
	if s.ManualOnPath(n) {
		return true
	}
	for m := range s.Manual {
		if n.IsAncestorOf(m) {
			return true
		}
	}
	return false
}

// Eligible reports whether the chain ending in n may be the active chain.
func (s *Sel) Eligible(n *Node) bool {
	if !n.ChainValid {
		return false
	}
	for it := n; it != nil; it = it.Parent {
		if !s.Arrived[it] || s.Manual[it] {
			return false
		}
	}
	return true
}

// Allowed returns the set of tips the property allows now: the eligible nodes
// of maximal cumulative work, reduced to the current tip alone when it is
// among them (ties go to the chain that became active first).
func (s *Sel) Allowed() []*Node {
	var best []*Node
	var max *big.Int
	for _, n := range s.T.Nodes {
		if !s.Eligible(n) {
			continue
		}
		switch c := cmpWork(n.WorkSum, max); {
		case c > 0:
			max, best = n.WorkSum, []*Node{n}
		case c == 0:
			best = append(best, n)
		}
	}
	for _, n := range best {
		if n == s.Tip {
			return []*Node{n}
		}
	}
	return best
}

func cmpWork(a, b *big.Int) int {
	if b == nil {
		return 1
	}
	return a.Cmp(b)
}

// Outcome describes what the model expects of one delivery call.
type Outcome struct {
	// MustError / MustSucceed: the call must (not) return an error. Both
	// false = the property leaves the return value open.
	MustError   bool
	MustSucceed bool
	// IsOrphan: the call must report the block as an orphan.
	IsOrphan bool
	// Drained lists the orphans resolved by this call, in model order.
	Drained []*Node
	// Why explains the expectation.
	Why string
}

// DeliverBlock advances the model for one ProcessBlock call.
func (s *Sel) DeliverBlock(n *Node) Outcome {
	switch {
	case s.Arrived[n] || s.StoredInvalid[n] || s.Orphan[n]:
		return Outcome{MustError: true, Why: "duplicate block"}
	case s.Murky[n]:
		return Outcome{Why: "storage status open (invalid ancestry)"}
	case n.Self == InvalidSanity:
		return Outcome{MustError: true, Why: "context-free invalid: " + n.Rule}
	}
	if !ancestryValid(n) {
		// A descendant of an invalid block: may be stored, orphaned or
		// refused depending on what the node already knows.
		s.Murky[n] = true
		return Outcome{Why: "descendant of an invalid block"}
	}
	if !s.Arrived[n.Parent] {
		if s.Murky[n.Parent] {
			s.Murky[n] = true
			return Outcome{Why: "parent storage status open"}
		}
		s.Orphan[n] = true
		return Outcome{MustSucceed: true, IsOrphan: true, Why: "parent data unknown"}
	}
	if s.Manual[n] {
		// its header was invalidated by hand before the block data arrived: the block is
		// refused and not stored (it can be delivered again after a reconsider)
		return Outcome{MustError: true, Why: "block whose header was invalidated by hand"}
	}
	if s.ManualOnPath(n.Parent) {
		s.Murky[n] = true
		return Outcome{Why: "delivered under a manually invalidated ancestor"}
	}
	out := Outcome{}
	s.accept(n, &out, true)
	s.moveTip()
	return out
}

// accept processes a block whose parent has arrived and whose ancestry is valid.
func (s *Sel) accept(n *Node, out *Outcome, first bool) {
	allValid := true
	switch n.Self {
	case InvalidContext, InvalidSanity:
		allValid = false
		if first {
			out.MustError, out.Why = true, "context invalid: "+n.Rule
		}
	case InvalidConnect:
		allValid = false
		s.StoredInvalid[n] = true
		if first {
			// extends the tip or would out-work it => the failed connect is
			// reported; a side chain with no more work is stored silently.
			if n.Parent == s.Tip || n.WorkSum.Cmp(s.Tip.WorkSum) > 0 {
				out.MustError, out.Why = true, "connect invalid: "+n.Rule
			} else {
				out.MustSucceed, out.Why = true, "connect-invalid block stored on a side chain without validation"
			}
		}
		// orphans below it are descendants of an invalid block; when some were
		// waiting, draining them may attempt (and fail) a reorganisation through
		// n, whose rule error the call then reports: return value open
		waiting := false
		for _, c := range n.Children {
			if s.Orphan[c] || s.Murky[c] {
				waiting = true // delivered earlier: sits in the node's orphan pool
			}
		}
		if (s.murkOrphansBelow(n) > 0 || waiting) && first {
			out.MustSucceed, out.MustError = false, false
			out.Why = "connect-invalid block with waiting orphans (return value open)"
		}
	case Valid:
		s.Arrived[n] = true
		delete(s.HeaderKnown, n)
		// drain orphans that waited for n (the order in which the orphans of
		// one call are processed is not fixed by the property: the tip is
		// only decided once the call is over, see DeliverBlock)
		for _, c := range n.Children {
			if s.Orphan[c] {
				if s.Manual[c] {
					// an orphan whose header was invalidated by hand while it waited: the node
					// refuses it when its parent arrives (and reports that rule error); what
					// happens to it and to the orphans below it is open
					delete(s.Orphan, c)
					s.Murky[c] = true
					s.murkOrphansBelow(c)
					s.manualOrphanDrained = true
					continue
				}
				delete(s.Orphan, c)
				out.Drained = append(out.Drained, c)
				sub := Outcome{}
				s.accept(c, &sub, false)
				out.Drained = append(out.Drained, sub.Drained...)
			}
		}
	}
	if first && s.manualOrphanDrained {
		allValid = false
		s.manualOrphanDrained = false
	}
	if first {
		for _, d := range out.Drained {
			if d.Self != Valid {
				allValid = false
			}
		}
		if n.Self == Valid {
			if allValid {
				out.MustSucceed, out.Why = true, "valid block with valid ancestry"
			} else {
				out.Why = "valid block, but an invalid orphan was drained (return value open)"
			}
		}
	}
}

func (s *Sel) murkOrphansBelow(n *Node) int {
	k := 0
	for _, c := range n.Children {
		if s.Orphan[c] {
			delete(s.Orphan, c)
			s.Murky[c] = true
			k += 1 + s.murkOrphansBelow(c)
		}
	}
	return k
}

// moveTip keeps the model tip inside the allowed set; when several tips are
// allowed the tip is left undecided until Observe tells which one was taken.
func (s *Sel) moveTip() {
	al := s.Allowed()
	if len(al) == 1 && al[0] != s.Tip {
		if al[0].Parent != s.Tip {
			s.Reorgs++
		}
		s.Tip = al[0]
	}
}

// Observe is called with the tip the implementation reports at a quiescent
// point. It returns an error when that tip is not allowed; when several tips
// were allowed it adopts the observed one.
func (s *Sel) Observe(tip *Node) error {
	al := s.Allowed()
	for _, a := range al {
		if a == tip {
			if len(al) > 1 {
				s.Ties++
			}
			if tip != s.Tip {
				if tip.Parent != s.Tip {
					s.Reorgs++
				}
				s.Tip = tip
			}
			return nil
		}
	}
	desc := ""
	for _, a := range al {
		desc += fmt.Sprintf(" node%d(h=%d,work=%s)", a.Idx, a.Height, a.WorkSum)
	}
	td := "unknown block"
	if tip != nil {
		td = fmt.Sprintf("node%d(h=%d,work=%s,chainValid=%v,eligible=%v)", tip.Idx, tip.Height, tip.WorkSum, tip.ChainValid, s.Eligible(tip))
	}
	return fmt.Errorf("active tip is %s; the most-work fully-valid delivered chain(s) end in:%s", td, desc)
}

// DeliverHeader advances the model for one ProcessBlockHeader call. It
// returns whether the header must be accepted (true), must be refused
// (false) or is open (nil).
func (s *Sel) DeliverHeader(n *Node) *bool {
	yes, no := true, false
	if s.StoredInvalid[n] || s.Murky[n] {
		return nil
	}
	if s.Arrived[n] || s.HeaderKnown[n] {
		if s.ManualOnPath(n) {
			if s.clearedOnPath(n) {
				return nil
			}
			return &no
		}
		return &yes
	}
	if s.Murky[n] || s.StoredInvalid[n] {
		return nil
	}
	if !ancestryValid(n) {
		s.Murky[n] = true
		return nil
	}
	p := n.Parent
	if !(s.Arrived[p] || s.HeaderKnown[p]) {
		if s.Murky[p] || s.StoredInvalid[p] {
			s.Murky[n] = true
			return nil
		}
		return &no // orphan headers are refused
	}
	if s.ManualOnPath(p) {
		s.Murky[n] = true
		return nil
	}
	if n.HeaderInvalid() {
		return &no
	}
	if !s.Orphan[n] {
		s.HeaderKnown[n] = true
	} else {
		// header of a block that waits in the orphan pool
		s.HeaderKnown[n] = true
	}
	return &yes
}

// HeaderInvalid reports whether the header alone is invalid in its context.
func (n *Node) HeaderInvalid() bool {
	switch n.Rule {
	case "high-hash", "time-too-old", "bad-bits":
		return true
	}
	return false
}

// Invalidate advances the model for InvalidateBlock(n).
func (s *Sel) Invalidate(n *Node) {
	s.Manual[n] = true
	s.moveTipAfterManual()
}

// Reconsider advances the model for ReconsiderBlock(n).
func (s *Sel) Reconsider(n *Node) {
	if !s.Manual[n] {
		s.Cleared[n] = true
	}
	delete(s.Manual, n)
	s.moveTipAfterManual()
}

func (s *Sel) moveTipAfterManual() {
	al := s.Allowed()
	if len(al) == 1 && al[0] != s.Tip {
		s.Reorgs++
		s.Tip = al[0]
	}
	// with several allowed tips the (now stale) tip stays until Observe
	// adopts the implementation's choice
}

// InIndex reports whether the implementation must know the node (block data
// or header), used for the chain-tips view.
func (s *Sel) InIndex(n *Node) bool { return s.Arrived[n] || s.HeaderKnown[n] || s.StoredInvalid[n] }

// ActivePath returns genesis..Tip.
func (s *Sel) ActivePath() []*Node { return s.Tip.Path() }

// ChainValidHeader reports whether the headers of n and all its ancestors
// are valid (block-level defects such as a bad merkle root do not count).
func (n *Node) ChainValidHeader() bool {
	for it := n; it != nil; it = it.Parent {
		if it.HeaderInvalid() {
			return false
		}
	}
	return true
}


// ResolvedArrived records that the implementation turned out to have stored a
// block whose storage status the model had left open (Murky). Orphans that
// were waiting for it are processed by the implementation in the same call;
// with an open parent their own status is open as well, so they become Murky
// (callers resolve them next: nodes are visited in creation order, children
// after parents).
func (s *Sel) ResolvedArrived(n *Node) {
	delete(s.Murky, n)
	s.Arrived[n] = true
	for _, c := range n.Children {
		if s.Orphan[c] {
			delete(s.Orphan, c)
			s.Murky[c] = true
		}
	}
}
