package chainenv

import (
	"fmt"

	"github.com/btcsuite/btcd/wire/v2"
	"pgregory.net/rapid"
)

// TreeCfg steers GenTree.
type TreeCfg struct {
	Families   []Family
	MinBlocks  int
	MaxBlocks  int
	MaxInvalid int  // number of deliberately invalid blocks (0..MaxInvalid drawn)
	Txs        bool // generate spending transactions
	Maturity   []uint16
	ForkProb   int // percent of blocks that fork off a non-leaf
	NoUtxo     bool
	// BigSteps mixes timestamp steps of minutes into the usual 1-3 s so that
	// median times differ between branches by more than a 512-second unit.
	BigSteps bool
	// OddScripts lets generated transactions create outputs whose scripts sit
	// on the boundaries of the persisted formats (special compressed forms,
	// size-prefix widths, the 10000-byte maximum) - spendable ones included.
	OddScripts bool
}

// GenTree draws a block tree.
func GenTree(t *rapid.T, cfg TreeCfg) *Tree {
	fam := rapid.SampledFrom(cfg.Families).Draw(t, "family")
	mats := cfg.Maturity
	if len(mats) == 0 {
		mats = []uint16{1, 2, 3, 5}
	}
	mat := rapid.SampledFrom(mats).Draw(t, "maturity")
	tr := NewTree(fam, NewParams(fam, mat))
	tr.NoUtxo = cfg.NoUtxo
	tr.OddScripts = cfg.OddScripts
	n := rapid.IntRange(cfg.MinBlocks, cfg.MaxBlocks).Draw(t, "blocks")
	invalidLeft := 0
	if cfg.MaxInvalid > 0 {
		invalidLeft = rapid.IntRange(0, cfg.MaxInvalid).Draw(t, "invalidBlocks")
	}
	forkProb := cfg.ForkProb
	if forkProb == 0 {
		forkProb = 25
	}
	if forkProb < 0 {
		forkProb = 0 // never fork: a linear chain
	}
	// retarget families: half of the trees follow a pacing plan by height that brings the difficulty near the
	// limit, lets it fall back to exactly the limit (clamp) through an interval of long gaps that ENDS on a
	// normally timed block at the harder target, and continues with normally timed blocks
	var pacePlan []byte
	if (fam == FamRetarget || fam == FamRetarget94) && rapid.Bool().Draw(t, "pacePlan") {
		// (worked out on the model: the interval 12..15 runs at a target within a factor 4/3 of the limit, is
		// slow and ends on a normally timed block; block 16 retargets to exactly the limit; 17 is normally timed)
		pacePlan = []byte("TTTTTSSTTTTTTSST")
		if n < 19 {
			n = 19
		}
		if forkProb > 10 {
			forkProb = 10
		}
	}
	for i := 0; i < n; i++ {
		var parent *Node
		// leaves of the tree so far
		if rapid.IntRange(0, 99).Draw(t, "fork") < forkProb && len(tr.Nodes) > 1 {
			parent = tr.Nodes[rapid.IntRange(0, len(tr.Nodes)-1).Draw(t, "parent")]
		} else {
			var leaves []*Node
			for _, nd := range tr.Nodes {
				if len(nd.Children) == 0 {
					leaves = append(leaves, nd)
				}
			}
			// bias towards the most recently created leaf so that chains grow long
			if rapid.IntRange(0, 2).Draw(t, "recent") > 0 {
				parent = leaves[len(leaves)-1]
			} else {
				parent = leaves[rapid.IntRange(0, len(leaves)-1).Draw(t, "leaf")]
			}
		}
		opt := BlockOpt{}
		switch fam {
		case FamWork:
			opt.Hard = rapid.IntRange(0, 3).Draw(t, "hard") == 0
		case FamRetarget, FamRetarget94:
			// fast blocks (difficulty rises, lower clamp), on-target blocks, minimum-difficulty
			// blocks (more than 20 s after the parent) and long gaps (upper clamp)
			pace := rapid.IntRange(0, 5).Draw(t, "pace")
			if pacePlan != nil {
				switch pacePlan[int(parent.Height+1)%len(pacePlan)] {
				case 'F':
					pace = 0
				case 'T':
					pace = 2
				case 'S':
					pace = 5
				}
			}
			switch pace {
			case 0, 1:
				opt.TimeDelta = int64(rapid.IntRange(1, 3).Draw(t, "dt"))
			case 2:
				opt.TimeDelta = int64(rapid.IntRange(8, 20).Draw(t, "dt"))
			case 3, 4:
				opt.TimeDelta = int64(rapid.IntRange(21, 45).Draw(t, "dt"))
			default:
				opt.TimeDelta = rapid.SampledFrom([]int64{100, 160, 161, 400}).Draw(t, "dt")
			}
		default:
			opt.TimeDelta = int64(rapid.IntRange(1, 3).Draw(t, "dt"))
			if cfg.BigSteps && rapid.IntRange(0, 2).Draw(t, "bigStep") == 0 {
				opt.TimeDelta = rapid.SampledFrom([]int64{200, 512, 600, 1100, 1500}).Draw(t, "bigDt")
			}
		}
		if fam == FamNoBIP34 {
			// duplicate-able coinbase: mostly when the earlier copy is fully
			// spent (legal re-creation of the txid), sometimes while it is
			// still unspent (BIP30 violation)
			_, unspent := parent.Utxo[wire.OutPoint{Hash: tr.DupCoinbaseHash(parent.Height + 1), Index: 0}]
			p := 5
			if unspent {
				p = 1
				if invalidLeft == 0 {
					p = 0
				}
			}
			if rapid.IntRange(0, 5).Draw(t, "dupcb") < p {
				opt.DupCoinbase = true
			}
		}
		if cfg.Txs && parent.ChainValid {
			opt.Txs = GenTxs(t, tr, parent, rapid.IntRange(0, 3).Draw(t, "ntx"))
		}
		if invalidLeft > 0 && rapid.IntRange(0, 5).Draw(t, "break") == 0 {
			invalidLeft--
			rule := rapid.SampledFrom([]string{"bad-merkle", "high-hash", "time-too-old", "bad-bits", "coinbase-overpay", "double-spend", "spent-input", "non-final-coinbase"}).Draw(t, "rule")
			switch rule {
			case "double-spend", "spent-input":
				if tx := badSpend(t, tr, parent, rule, opt.Txs); tx != nil {
					opt.Txs = append(opt.Txs, tx)
				} else {
					opt.Break = "coinbase-overpay"
				}
			default:
				opt.Break = rule
			}
		}
		nd := tr.Extend(parent, opt)
		if opt.DupCoinbase {
			nd.Tags = append(nd.Tags, "dup-coinbase")
		}
	}
	return tr
}

// GenTxs draws up to k transactions spending OP_TRUE outputs available after
// parent (and outputs of earlier transactions of the same block).
func GenTxs(t *rapid.T, tr *Tree, parent *Node, k int) []*wire.MsgTx {
	if k == 0 {
		return nil
	}
	u := parent.Utxo.clone()
	height := parent.Height + 1
	var txs []*wire.MsgTx
	for i := 0; i < k; i++ {
		sp := Spendable(u, height, int32(tr.Params.CoinbaseMaturity))
		if len(sp) == 0 {
			break
		}
		if tr.Family == FamNoBIP34 && i == 0 {
			// bias: spend the duplicate-able coinbase output first so that its
			// txid can legally be re-created
			dh := tr.DupCoinbaseHash(height)
			for j, op := range sp {
				if op.Hash == dh && rapid.IntRange(0, 3).Draw(t, "spendDup") != 0 {
					sp[0], sp[j] = sp[j], sp[0]
					tx := SpendTx(1, []wire.OutPoint{sp[0]}, []*wire.TxOut{{Value: u[sp[0]].Value, PkScript: OpTrue}}, 0, 0xffffffff)
					ApplyTx(u, tx, height, false)
					txs = append(txs, tx)
					sp = nil
					break
				}
			}
			if sp == nil {
				continue
			}
		}
		nin := rapid.IntRange(1, min(3, len(sp))).Draw(t, "nin")
		// choose nin distinct outpoints
		var ins []wire.OutPoint
		var total int64
		for j := 0; j < nin; j++ {
			idx := rapid.IntRange(0, len(sp)-1).Draw(t, "in")
			ins = append(ins, sp[idx])
			total += u[sp[idx]].Value
			sp = append(sp[:idx:idx], sp[idx+1:]...)
		}
		nout := rapid.IntRange(1, 3).Draw(t, "nout")
		fee := int64(rapid.IntRange(0, 1000).Draw(t, "fee"))
		if fee > total {
			fee = 0
		}
		rest := total - fee
		var outs []*wire.TxOut
		for j := 0; j < nout; j++ {
			v := rest / int64(nout-j)
			rest -= v
			script := OpTrue
			if rapid.IntRange(0, 9).Draw(t, "opret") == 0 {
				script = []byte{0x6a, 0x01, byte(i)} // provably unspendable
			} else if tr.OddScripts && rapid.IntRange(0, 5).Draw(t, "odd") == 0 {
				script = oddScript(t)
			}
			outs = append(outs, &wire.TxOut{Value: v, PkScript: script})
		}
		tx := SpendTx(1, ins, outs, 0, 0xffffffff)
		if _, ok := ApplyTx(u, tx, height, false); !ok {
			panic("GenTxs: generated a transaction with a missing input")
		}
		txs = append(txs, tx)
	}
	return txs
}

// badSpend builds a transaction that makes the block connect-invalid: a second
// spend of an outpoint already spent in this block ("double-spend") or a spend
// of an outpoint that an ancestor already spent ("spent-input").
func badSpend(t *rapid.T, tr *Tree, parent *Node, rule string, sameBlock []*wire.MsgTx) *wire.MsgTx {
	if !parent.ChainValid {
		return nil
	}
	switch rule {
	case "double-spend":
		if len(sameBlock) == 0 {
			return nil
		}
		victim := sameBlock[rapid.IntRange(0, len(sameBlock)-1).Draw(t, "victim")]
		op := victim.TxIn[0].PreviousOutPoint
		return SpendTx(1, []wire.OutPoint{op}, []*wire.TxOut{{Value: 1, PkScript: OpTrue}}, 0, 0xffffffff)
	case "spent-input":
		// an outpoint spent by some ancestor block
		for it := parent; it != nil && it.Parent != nil; it = it.Parent {
			for _, tx := range it.Msg.Transactions[1:] {
				op := tx.TxIn[0].PreviousOutPoint
				if _, still := parent.Utxo[op]; !still {
					return SpendTx(1, []wire.OutPoint{op}, []*wire.TxOut{{Value: 1, PkScript: OpTrue}}, 0, 0xffffffff)
				}
			}
		}
	}
	return nil
}

// Step is one operation of a delivery history.
type Step struct {
	Kind string // block, header, invalidate, reconsider
	Node *Node
}

func (s Step) String() string { return fmt.Sprintf("%s(node%d)", s.Kind, s.Node.Idx) }

// SeqCfg steers GenSequence.
type SeqCfg struct {
	Headers    bool // include header-only deliveries
	Manual     bool // include invalidate / reconsider
	OutOfOrder int  // percent of picks that ignore tree order
	Duplicates int  // percent chance to re-deliver something
	ExtraSteps int  // upper bound on steps beyond one per node
}

// GenSequence draws a delivery history over all non-genesis nodes of the tree.
func GenSequence(t *rapid.T, tr *Tree, cfg SeqCfg) []Step {
	nodes := tr.Nodes[1:]
	delivered := map[*Node]bool{}
	var steps []Step
	pending := append([]*Node(nil), nodes...)
	for len(pending) > 0 {
		var idx int
		if rapid.IntRange(0, 99).Draw(t, "ooo") < cfg.OutOfOrder {
			idx = rapid.IntRange(0, len(pending)-1).Draw(t, "pick")
		} else {
			// first pending node whose parent has been delivered (tree order)
			idx = 0
			for i, nd := range pending {
				if nd.Parent.Parent == nil || delivered[nd.Parent] {
					idx = i
					break
				}
			}
		}
		nd := pending[idx]
		pending = append(pending[:idx:idx], pending[idx+1:]...)
		if cfg.Headers && rapid.IntRange(0, 3).Draw(t, "hdrFirst") == 0 {
			steps = append(steps, Step{"header", nd})
			// the block itself follows later (or never)
			if rapid.IntRange(0, 4).Draw(t, "hdrOnly") != 0 {
				steps = append(steps, Step{"block", nd})
				delivered[nd] = true
			}
		} else {
			steps = append(steps, Step{"block", nd})
			delivered[nd] = true
		}
		if cfg.Duplicates > 0 && rapid.IntRange(0, 99).Draw(t, "dup") < cfg.Duplicates && len(steps) > 0 {
			prev := steps[rapid.IntRange(0, len(steps)-1).Draw(t, "dupOf")]
			kind := "block"
			if cfg.Headers && rapid.Bool().Draw(t, "dupHdr") {
				kind = "header"
			}
			steps = append(steps, Step{kind, prev.Node})
			if kind == "block" {
				delivered[prev.Node] = true
			}
		}
		if cfg.Manual && rapid.IntRange(0, 7).Draw(t, "manual") == 0 {
			var cands []*Node
			for _, x := range nodes {
				if delivered[x] {
					cands = append(cands, x)
				}
			}
			if len(cands) > 0 {
				x := cands[rapid.IntRange(0, len(cands)-1).Draw(t, "manualNode")]
				kind := rapid.SampledFrom([]string{"invalidate", "invalidate", "reconsider"}).Draw(t, "manualKind")
				steps = append(steps, Step{kind, x})
			}
		}
	}
	if cfg.Manual {
		// a tail of reconsiders/invalidates after everything was delivered
		k := rapid.IntRange(0, cfg.ExtraSteps).Draw(t, "tail")
		for i := 0; i < k; i++ {
			x := nodes[rapid.IntRange(0, len(nodes)-1).Draw(t, "tailNode")]
			kind := rapid.SampledFrom([]string{"invalidate", "reconsider", "reconsider"}).Draw(t, "tailKind")
			steps = append(steps, Step{kind, x})
		}
	}
	return steps
}


// oddScript draws an output script on a boundary of the persisted formats.
func oddScript(t *rapid.T) []byte {
	g := []byte{0x79, 0xbe, 0x66, 0x7e, 0xf9, 0xdc, 0xbb, 0xac, 0x55, 0xa0, 0x62, 0x95, 0xce, 0x87, 0x0b, 0x07, 0x02, 0x9b, 0xfc, 0xdb, 0x2d, 0xce, 0x28, 0xd9, 0x59, 0xf2, 0x81, 0x5b, 0x16, 0xf8, 0x17, 0x98}
	gy := []byte{0x48, 0x3a, 0xda, 0x77, 0x26, 0xa3, 0xc4, 0x65, 0x5d, 0xa4, 0xfb, 0xfc, 0x0e, 0x11, 0x08, 0xa8, 0xfd, 0x17, 0xb4, 0x48, 0xa6, 0x85, 0x54, 0x19, 0x9c, 0x47, 0xd0, 0x8f, 0xfb, 0x10, 0xd4, 0xb8}
	h20 := rapid.SliceOfN(rapid.Byte(), 20, 20).Draw(t, "h20")
	switch rapid.IntRange(0, 11).Draw(t, "oddKind") {
	case 10:
		// a script that does not parse (a push without its data): never stored, like OP_RETURN outputs
		return rapid.SampledFrom([][]byte{{0x4c}, {0x05, 0x01}, {0x51, 0x4d, 0xff}, {0x4e, 0x01, 0x00, 0x00}, {0x4c, 0x02, 0x01}, {0x51, 0x4b}}).Draw(t, "unparseable")
	case 11:
		return append([]byte{0x6a}, h20[:rapid.IntRange(0, 20).Draw(t, "opReturnLen")]...) // OP_RETURN with or without (unframed) data
	case 0:
		return append(append([]byte{0x76, 0xa9, 0x14}, h20...), 0x88, 0xac) // P2PKH form
	case 1:
		return append(append([]byte{0xa9, 0x14}, h20...), 0x87) // P2SH form
	case 2:
		return append(append([]byte{0x21, 0x02}, g...), 0xac) // P2PK, compressed, on the curve
	case 3:
		x := rapid.SliceOfN(rapid.Byte(), 32, 32).Draw(t, "x32")
		return append(append([]byte{0x21, byte(2 + rapid.IntRange(0, 1).Draw(t, "par"))}, x...), 0xac) // P2PK form, arbitrary x
	case 4:
		return append(append(append([]byte{0x41, 0x04}, g...), gy...), 0xac) // P2PK, uncompressed, on the curve
	case 5:
		if rapid.Bool().Draw(t, "hybrid") {
			// hybrid encoding (06/07 by the parity of y) of a point on the curve: valid for
			// consensus, not one of the compressible special forms
			return append(append(append([]byte{0x41, 0x06 + gy[31]&1}, g...), gy...), 0xac)
		}
		y := append([]byte{}, gy...)
		y[31] ^= 1
		return append(append(append([]byte{0x41, 0x04}, g...), y...), 0xac) // P2PK form, uncompressed, off the curve
	case 6:
		return []byte{} // empty script
	case 7:
		return PaddedSpendableScript(rapid.SampledFrom([]int{10001, 10002}).Draw(t, "tooBig")) // never enters the UTXO set
	case 8:
		return PaddedSpendableScript(rapid.SampledFrom([]int{9999, 10000}).Draw(t, "maxLen"))
	}
	return PaddedSpendableScript(rapid.SampledFrom([]int{100, 121, 122, 127, 128, 129, 253, 254, 600}).Draw(t, "len"))
}

// PaddedSpendableScript returns an anyone-can-spend script of exactly n >= 100
// bytes: pushes of zero bytes that are dropped again, then OP_TRUE.
func PaddedSpendableScript(n int) []byte {
	if n < 100 {
		panic("PaddedSpendableScript: n < 100")
	}
	s := make([]byte, 0, n)
	r := n - 1
	for r > 0 {
		switch {
		case r == 1:
			s = append(s, 0x61) // OP_NOP
			r--
		case r <= 77:
			s = append(s, byte(r-2))
			s = append(s, make([]byte, r-2)...)
			s = append(s, 0x75) // OP_DROP
			r = 0
		default:
			c := r
			if c > 524 {
				c = 524
			}
			l := c - 4
			s = append(s, 0x4d, byte(l), byte(l>>8)) // OP_PUSHDATA2
			s = append(s, make([]byte, l)...)
			s = append(s, 0x75)
			r -= c
		}
	}
	return append(s, 0x51)
}

// IsAnyoneCanSpend recognises the scripts the generators can spend with an
// empty signature script.
func IsAnyoneCanSpend(s []byte) bool {
	if len(s) == 1 && s[0] == 0x51 {
		return true
	}
	return len(s) >= 100 && len(s) <= 10000 && s[0] == 0x4d && s[len(s)-1] == 0x51
}
