// Package chainenv is the shared chain environment of the history-based
// checks (C01-C04, C10, C12, C14, C17): synthetic parameter families, a fake
// clock, a block-tree builder with its own UTXO bookkeeping (the model), a
// sequential reference model of chain selection, and a wrapper around a real
// blockchain.BlockChain on a scratch ffldb.
package chainenv

import (
	"fmt"
	"math/big"
	"time"

	"github.com/btcsuite/btcd/chaincfg/v2"
	"github.com/btcsuite/btcd/chainhash/v2"
	"github.com/btcsuite/btcd/wire/v2"
)

// T0 is the timestamp of the first generated block. It is after the BIP16
// switch time (1333238400): with segwit active and P2SH inactive every script
// check fails in btcd ("P2SH must be enabled to do witness verification"); no
// real network has that combination, so it is excluded by construction.
const T0 = 1500000000

// Family names a synthetic parameter family.
type Family string

const (
	// FamFlat: regtest rules, everything active from height 1, small
	// coinbase maturity, no retargeting (all blocks carry equal work).
	FamFlat Family = "flat"
	// FamNoBIP34: like Flat but BIP34 never activates, so coinbases with
	// identical txids are legal once the earlier one is fully spent (BIP30).
	FamNoBIP34 Family = "nobip34"
	// FamGates: like Flat, but the BIP34/BIP66/BIP65 version gates switch on
	// at heights 4/6/8 and the subsidy halves every 5 blocks.
	FamGates Family = "gates"
	// FamWork: testnet-style minimum-difficulty rule with a genesis that is
	// 16x harder than the limit and no retarget within reach: each block
	// chooses (by its timestamp) between 1 and 16 units of work, so the
	// longest chain is not necessarily the most-work chain.
	FamWork Family = "work"
	// FamRetarget: testnet3-style rules (minimum-difficulty exception, no
	// BIP94) with a retarget every 4 blocks (10 s spacing, adjustment factor
	// 4) and a genesis 16x harder than the limit, so that retarget heights,
	// the clamp and the exception all occur within a few blocks.
	FamRetarget Family = "retarget"
	// FamRetarget94: the same with the BIP94 (testnet4) retarget base.
	FamRetarget94 Family = "retarget94"
)

// WorkHardBits / WorkEasyBits are the two difficulties of FamWork.
const (
	WorkEasyBits = 0x207fffff
	WorkHardBits = 0x2007ffff
	workSpacing  = 10 // seconds
)

var bigOne = big.NewInt(1)

// NewParams returns a fresh copy of the parameters of a family. maturity is
// the coinbase maturity (1..100).
func NewParams(f Family, maturity uint16) *chaincfg.Params {
	p := chaincfg.RegressionNetParams // copy
	p.Name = fmt.Sprintf("verif-%s-m%d", f, maturity)
	p.CoinbaseMaturity = maturity
	p.Checkpoints = nil
	switch f {
	case FamFlat:
	case FamNoBIP34:
		p.BIP0034Height = 1 << 30
	case FamGates:
		p.BIP0034Height, p.BIP0066Height, p.BIP0065Height = 4, 6, 8
		p.SubsidyReductionInterval = 5
	case FamWork:
		p.PoWNoRetargeting = false
		p.ReduceMinDifficulty = true
		p.TargetTimePerBlock = workSpacing * time.Second
		p.TargetTimespan = workSpacing * 100000 * time.Second // retarget every 100000 blocks: out of reach
		p.MinDiffReductionTime = 2 * workSpacing * time.Second
		gen := *p.GenesisBlock
		gen.Header.Bits = WorkHardBits
		gen.Header.Timestamp = time.Unix(T0-1000, 0)
		// the genesis block is never validated; give it a valid PoW anyway
		for n := uint32(0); ; n++ {
			gen.Header.Nonce = n
			h := gen.Header.BlockHash()
			if hashToBig(&h).Cmp(compactToBig(WorkHardBits)) <= 0 {
				break
			}
		}
		p.GenesisBlock = &gen
		h := gen.Header.BlockHash()
		p.GenesisHash = &h
	case FamRetarget, FamRetarget94:
		p.PoWNoRetargeting = false
		p.ReduceMinDifficulty = true
		p.EnforceBIP94 = f == FamRetarget94
		p.TargetTimePerBlock = workSpacing * time.Second
		p.TargetTimespan = 4 * workSpacing * time.Second
		p.RetargetAdjustmentFactor = 4
		p.MinDiffReductionTime = 2 * workSpacing * time.Second
		gen := *p.GenesisBlock
		gen.Header.Bits = WorkHardBits
		gen.Header.Timestamp = time.Unix(T0-1000, 0)
		for n := uint32(0); ; n++ {
			gen.Header.Nonce = n
			h := gen.Header.BlockHash()
			if hashToBig(&h).Cmp(compactToBig(WorkHardBits)) <= 0 {
				break
			}
		}
		p.GenesisBlock = &gen
		h := gen.Header.BlockHash()
		p.GenesisHash = &h
	default:
		panic("unknown family " + string(f))
	}
	return &p
}

// compactToBig / hashToBig / calcWork: tiny local re-statements of the
// protocol arithmetic (the model must not call the code under test).
func compactToBig(c uint32) *big.Int {
	m := big.NewInt(int64(c & 0x007fffff))
	e := uint(c >> 24)
	if e <= 3 {
		m.Rsh(m, 8*(3-e))
	} else {
		m.Lsh(m, 8*(e-3))
	}
	if c&0x00800000 != 0 {
		m.Neg(m)
	}
	return m
}

// bigToCompact is the inverse used for retargeted targets (positive values).
func bigToCompact(n *big.Int) uint32 {
	if n.Sign() == 0 {
		return 0
	}
	size := uint((n.BitLen() + 7) / 8)
	var m uint32
	if size <= 3 {
		m = uint32(n.Uint64() << (8 * (3 - size)))
	} else {
		m = uint32(new(big.Int).Rsh(n, 8*(size-3)).Uint64())
	}
	if m&0x00800000 != 0 {
		m >>= 8
		size++
	}
	return uint32(size)<<24 | m
}

func hashToBig(h *chainhash.Hash) *big.Int {
	var b [32]byte
	for i := 0; i < 32; i++ {
		b[i] = h[31-i]
	}
	return new(big.Int).SetBytes(b[:])
}

// CalcWork = floor(2^256/(target+1)).
func CalcWork(bits uint32) *big.Int {
	t := compactToBig(bits)
	if t.Sign() <= 0 {
		return new(big.Int)
	}
	return new(big.Int).Div(new(big.Int).Lsh(bigOne, 256), t.Add(t, bigOne))
}

// FakeClock is a MedianTimeSource with a settable time.
type FakeClock struct{ Now time.Time }

func (c *FakeClock) AdjustedTime() time.Time         { return c.Now }
func (c *FakeClock) AddTimeSample(string, time.Time) {}
func (c *FakeClock) Offset() time.Duration           { return 0 }

var _ = wire.MainNet
