package chainenv

import (
	"fmt"
	"os"
	"time"

	"github.com/btcsuite/btcd/blockchain"
	"github.com/btcsuite/btcd/btcutil/v2"
	"github.com/btcsuite/btcd/chaincfg/v2"
	"github.com/btcsuite/btcd/chainhash/v2"
	"github.com/btcsuite/btcd/database"
	"github.com/btcsuite/btcd/database/ffldb"
	"github.com/btcsuite/btcd/txscript/v2"

	"verif/internal/scratch"
)

// Notif is one recorded chain notification.
type Notif struct {
	Type blockchain.NotificationType
	Hash chainhash.Hash
}

// EnvOpt configures a chain instance.
type EnvOpt struct {
	UtxoCacheMaxSize uint64
	Prune            uint64
	SigCache         *txscript.SigCache
	HashCache        *txscript.HashCache
	IndexManager     blockchain.IndexManager
	// Dir reuses an existing database directory (re-open) instead of
	// creating a fresh one.
	Dir string
	// WrapDB, when set, wraps the database handed to the chain (fault and
	// crash injection). Env.RawDB stays the real ffldb handle.
	WrapDB func(database.DB) database.DB
	// Checkpoints are caller-defined checkpoints (blockchain.Config.Checkpoints).
	Checkpoints []chaincfg.Checkpoint
	// BlockFileSize, when non-zero, is the maximum block file size of the
	// database (small values force file roll-over and make pruning reachable).
	BlockFileSize uint32
}

// Env is a real BlockChain on a scratch ffldb plus the recorded notifications.
type Env struct {
	Params *chaincfg.Params
	Opt    EnvOpt
	Dir    string
	DB     database.DB // what the chain uses (possibly wrapped)
	RawDB  database.DB // the ffldb handle
	Chain  *blockchain.BlockChain
	Clock  *FakeClock
	Notifs []Notif
}

// NewEnv creates (or re-opens, when opt.Dir is set) the database and chain.
func NewEnv(p *chaincfg.Params, opt EnvOpt) (*Env, error) {
	e := &Env{Params: p, Opt: opt, Clock: &FakeClock{Now: time.Unix(T0+100000000, 0)}}
	var err error
	if opt.Dir != "" {
		e.Dir = opt.Dir
		e.DB, err = database.Open("ffldb", e.Dir, p.Net)
	} else {
		e.Dir = scratch.Dir("chain")
		e.DB, err = database.Create("ffldb", e.Dir, p.Net)
	}
	if err != nil {
		return nil, fmt.Errorf("open db: %w", err)
	}
	e.RawDB = e.DB
	if opt.BlockFileSize != 0 {
		ffldb.VerifSetMaxBlockFileSize(e.RawDB, opt.BlockFileSize)
	}
	if opt.WrapDB != nil {
		e.DB = opt.WrapDB(e.RawDB)
	}
	if err := e.newChain(); err != nil {
		e.DB.Close()
		return nil, err
	}
	return e, nil
}

func (e *Env) newChain() error {
	ch, err := blockchain.New(&blockchain.Config{
		DB: e.DB, ChainParams: e.Params, TimeSource: e.Clock,
		UtxoCacheMaxSize: e.Opt.UtxoCacheMaxSize, Prune: e.Opt.Prune,
		SigCache: e.Opt.SigCache, HashCache: e.Opt.HashCache, IndexManager: e.Opt.IndexManager,
		Checkpoints: e.Opt.Checkpoints,
	})
	if err != nil {
		return fmt.Errorf("blockchain.New: %w", err)
	}
	e.Chain = ch
	ch.Subscribe(func(n *blockchain.Notification) {
		if b, ok := n.Data.(*btcutil.Block); ok {
			e.Notifs = append(e.Notifs, Notif{n.Type, *b.Hash()})
		}
	})
	return nil
}

// Reopen closes the database cleanly (after flushing the UTXO cache as btcd's
// shutdown path does when flush is true) and opens it again with a new chain
// object, i.e. an empty cache.
func (e *Env) Reopen(flush bool) error {
	if flush {
		if err := e.Chain.FlushUtxoCache(blockchain.FlushRequired); err != nil {
			return fmt.Errorf("flush on shutdown: %w", err)
		}
	}
	if err := e.RawDB.Close(); err != nil {
		return fmt.Errorf("db close: %w", err)
	}
	db, err := database.Open("ffldb", e.Dir, e.Params.Net)
	if err != nil {
		return fmt.Errorf("db reopen: %w", err)
	}
	e.DB, e.RawDB = db, db
	if e.Opt.BlockFileSize != 0 {
		ffldb.VerifSetMaxBlockFileSize(db, e.Opt.BlockFileSize)
	}
	if e.Opt.WrapDB != nil {
		e.DB = e.Opt.WrapDB(db)
	}
	e.Notifs = nil
	return e.newChain()
}

// Close closes the database and removes the directory.
func (e *Env) Close() {
	if e.RawDB != nil {
		e.RawDB.Close()
	}
	os.RemoveAll(e.Dir)
}

// CloseKeep closes the database but keeps the directory.
func (e *Env) CloseKeep() {
	if e.RawDB != nil {
		e.RawDB.Close()
		e.RawDB, e.DB = nil, nil
	}
}

// Deliver hands the block of a node to ProcessBlock.
func (e *Env) Deliver(n *Node) (mainChain, orphan bool, err error) {
	return e.Chain.ProcessBlock(n.Block(), blockchain.BFNone)
}

// DeliverHeaderOpt hands the header to ProcessBlockHeader with the given checkpoint handling.
func (e *Env) DeliverHeaderOpt(n *Node, skipCheckpoint bool) (bool, error) {
	h := n.Msg.Header
	return e.Chain.ProcessBlockHeader(&h, blockchain.BFNone, skipCheckpoint)
}

// DeliverHeader hands only the header of a node to ProcessBlockHeader.
func (e *Env) DeliverHeader(n *Node) (bool, error) {
	h := n.Msg.Header
	return e.Chain.ProcessBlockHeader(&h, blockchain.BFNone, false)
}
