package chainenv

import (
	"bytes"
	"fmt"
	"sort"

	"github.com/btcsuite/btcd/btcutil/v2"
	"github.com/btcsuite/btcd/chainhash/v2"
	"github.com/btcsuite/btcd/database"
	"github.com/btcsuite/btcd/wire/v2"
)

// Universe returns, in canonical order, every outpoint created by any
// transaction of any block of the tree (spendable or not).
func (t *Tree) Universe() []wire.OutPoint {
	seen := map[wire.OutPoint]bool{}
	var out []wire.OutPoint
	for _, n := range t.Nodes[1:] {
		for _, tx := range n.Msg.Transactions {
			h := tx.TxHash()
			for i := range tx.TxOut {
				op := wire.OutPoint{Hash: h, Index: uint32(i)}
				if !seen[op] {
					seen[op] = true
					out = append(out, op)
				}
			}
		}
	}
	sort.Slice(out, func(i, j int) bool {
		if c := bytes.Compare(out[i].Hash[:], out[j].Hash[:]); c != 0 {
			return c < 0
		}
		return out[i].Index < out[j].Index
	})
	return out
}

// CheckUtxo compares what the chain reports for every outpoint of the
// universe with the model UTXO set of the tip (the fold of the active chain).
func CheckUtxo(e *Env, tip *Node, universe []wire.OutPoint) error {
	for _, op := range universe {
		entry, err := e.Chain.FetchUtxoEntry(op)
		if err != nil {
			return fmt.Errorf("FetchUtxoEntry(%v): %v", op, err)
		}
		coin, ok := tip.Utxo[op]
		if !ok {
			if entry != nil && !entry.IsSpent() {
				return fmt.Errorf("outpoint %v is reported unspent (amount %d, height %d) but is not in the fold of the active chain ending in node%d",
					op, entry.Amount(), entry.BlockHeight(), tip.Idx)
			}
			continue
		}
		if entry == nil || entry.IsSpent() {
			return fmt.Errorf("outpoint %v (amount %d, created at height %d) is unspent in the fold of the active chain ending in node%d but reported missing/spent",
				op, coin.Value, coin.Height, tip.Idx)
		}
		if entry.Amount() != coin.Value || !bytes.Equal(entry.PkScript(), coin.PkScript) ||
			entry.BlockHeight() != coin.Height || entry.IsCoinBase() != coin.Coinbase {
			return fmt.Errorf("outpoint %v: reported (amount %d, script %x, height %d, coinbase %v), fold has (amount %d, script %x, height %d, coinbase %v)",
				op, entry.Amount(), entry.PkScript(), entry.BlockHeight(), entry.IsCoinBase(), coin.Value, coin.PkScript, coin.Height, coin.Coinbase)
		}
	}
	return nil
}

// CheckUtxoView compares FetchUtxoView(tx) with the model for one transaction.
func CheckUtxoView(e *Env, tip *Node, tx *wire.MsgTx) error {
	view, err := e.Chain.FetchUtxoView(btcutil.NewTx(tx))
	if err != nil {
		return fmt.Errorf("FetchUtxoView: %v", err)
	}
	var ops []wire.OutPoint
	for _, ti := range tx.TxIn {
		ops = append(ops, ti.PreviousOutPoint)
	}
	h := tx.TxHash()
	for i := range tx.TxOut {
		ops = append(ops, wire.OutPoint{Hash: h, Index: uint32(i)})
	}
	for _, op := range ops {
		entry := view.LookupEntry(op)
		coin, ok := tip.Utxo[op]
		if ok != (entry != nil && !entry.IsSpent()) {
			return fmt.Errorf("FetchUtxoView: outpoint %v unspent=%v, fold says %v", op, entry != nil && !entry.IsSpent(), ok)
		}
		if ok && (entry.Amount() != coin.Value || !bytes.Equal(entry.PkScript(), coin.PkScript) || entry.BlockHeight() != coin.Height || entry.IsCoinBase() != coin.Coinbase) {
			return fmt.Errorf("FetchUtxoView: outpoint %v differs from the fold", op)
		}
	}
	return nil
}

// CheckSpendJournals compares the spend journal of every block of the active
// chain with the model (coins spent, in transaction and input order).
func CheckSpendJournals(e *Env, tip *Node) error {
	for _, n := range tip.Path()[1:] {
		stxos, err := e.Chain.FetchSpendJournal(n.Block())
		if err != nil {
			return fmt.Errorf("FetchSpendJournal(node%d): %v", n.Idx, err)
		}
		if len(stxos) != len(n.Spent) {
			return fmt.Errorf("spend journal of node%d has %d entries, the block spends %d outputs", n.Idx, len(stxos), len(n.Spent))
		}
		for i, s := range stxos {
			c := n.Spent[i]
			if s.Amount != c.Value || !bytes.Equal(s.PkScript, c.PkScript) || s.Height != c.Height || s.IsCoinBase != c.Coinbase {
				return fmt.Errorf("spend journal of node%d entry %d = (amount %d, script %x, height %d, coinbase %v), model (amount %d, script %x, height %d, coinbase %v)",
					n.Idx, i, s.Amount, s.PkScript, s.Height, s.IsCoinBase, c.Value, c.PkScript, c.Height, c.Coinbase)
			}
		}
	}
	return nil
}

// vlq decodes btcd's documented MSB base-128 VLQ (with the +1 offset per
// continuation byte). Independent re-statement of the format comment.
func vlq(b []byte) (uint64, int) {
	var n uint64
	for i, c := range b {
		n = (n << 7) | uint64(c&0x7f)
		if c&0x80 == 0 {
			return n, i + 1
		}
		n++
	}
	return n, len(b)
}

// RawUtxoKeys reads the persisted utxo bucket through the database API and
// returns the outpoints found (decoded from the documented key format:
// <hash><VLQ index>) with their raw values.
func RawUtxoKeys(db database.DB) (map[wire.OutPoint][]byte, error) {
	out := map[wire.OutPoint][]byte{}
	err := db.View(func(tx database.Tx) error {
		b := tx.Metadata().Bucket([]byte("utxosetv2"))
		if b == nil {
			return fmt.Errorf("utxo bucket missing")
		}
		return b.ForEach(func(k, v []byte) error {
			if len(k) < chainhash.HashSize+1 {
				return fmt.Errorf("short utxo key %x", k)
			}
			var op wire.OutPoint
			copy(op.Hash[:], k[:32])
			idx, used := vlq(k[32:])
			if used != len(k)-32 {
				return fmt.Errorf("trailing bytes in utxo key %x", k)
			}
			op.Index = uint32(idx)
			out[op] = append([]byte(nil), v...)
			return nil
		})
	})
	return out, err
}

// CheckPersisted compares the set of persisted utxo entries with the model
// (only meaningful right after a required flush).
func CheckPersisted(e *Env, tip *Node) (map[wire.OutPoint][]byte, error) {
	raw, err := RawUtxoKeys(e.DB)
	if err != nil {
		return nil, err
	}
	for op := range raw {
		if _, ok := tip.Utxo[op]; !ok {
			return raw, fmt.Errorf("persisted utxo set contains %v which is not in the fold of the active chain ending in node%d (stale entry)", op, tip.Idx)
		}
	}
	for op := range tip.Utxo {
		if _, ok := raw[op]; !ok {
			return raw, fmt.Errorf("persisted utxo set misses %v of the fold of the active chain ending in node%d", op, tip.Idx)
		}
	}
	return raw, nil
}
