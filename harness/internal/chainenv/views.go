package chainenv

import (
	"bytes"
	"fmt"

	"github.com/btcsuite/btcd/blockchain"
	"github.com/btcsuite/btcd/chainhash/v2"
)

// CheckTip compares the best snapshot with the model and lets the model adopt
// the observed tip when the property allows several.
func CheckTip(e *Env, s *Sel) error {
	snap := e.Chain.BestSnapshot()
	tip := s.T.ByHash[snap.Hash]
	if err := s.Observe(tip); err != nil {
		return err
	}
	return nil
}

// CheckViews compares every view of the active chain with the model tip
// (which must have been synchronised by CheckTip) and with each other.
func CheckViews(e *Env, s *Sel) error {
	ch := e.Chain
	snap := ch.BestSnapshot()
	tip := s.Tip
	if snap.Hash != tip.Hash {
		return fmt.Errorf("snapshot hash %v != model tip node%d", snap.Hash, tip.Idx)
	}
	if snap.Height != tip.Height {
		return fmt.Errorf("snapshot height %d, model %d", snap.Height, tip.Height)
	}
	if snap.Bits != tip.Msg.Header.Bits {
		return fmt.Errorf("snapshot bits %#x, model %#x", snap.Bits, tip.Msg.Header.Bits)
	}
	if snap.TotalTxns != tip.TotalTxns {
		return fmt.Errorf("snapshot TotalTxns %d, fold of the active chain %d", snap.TotalTxns, tip.TotalTxns)
	}
	if snap.NumTxns != uint64(len(tip.Msg.Transactions)) {
		return fmt.Errorf("snapshot NumTxns %d, tip block has %d", snap.NumTxns, len(tip.Msg.Transactions))
	}
	if snap.MedianTime.Unix() != tip.MTP() {
		return fmt.Errorf("snapshot MedianTime %d, model MTP %d", snap.MedianTime.Unix(), tip.MTP())
	}
	if snap.BlockSize != uint64(tip.Msg.SerializeSize()) {
		return fmt.Errorf("snapshot BlockSize %d, tip block size %d", snap.BlockSize, tip.Msg.SerializeSize())
	}
	path := tip.Path()
	// height -> hash, for every height in [-1, tip+1]
	for h := int32(-1); h <= tip.Height+1; h++ {
		got, err := ch.BlockHashByHeight(h)
		if h < 0 || h > tip.Height {
			if err == nil {
				return fmt.Errorf("BlockHashByHeight(%d) = %v beyond the active chain (tip height %d)", h, got, tip.Height)
			}
			continue
		}
		if err != nil {
			return fmt.Errorf("BlockHashByHeight(%d): %v", h, err)
		}
		if *got != path[h].Hash {
			return fmt.Errorf("BlockHashByHeight(%d) = %v, model active chain has node%d %v", h, got, path[h].Idx, path[h].Hash)
		}
	}
	// hash -> height / membership, for every node of the tree
	onPath := map[*Node]bool{}
	for _, n := range path {
		onPath[n] = true
	}
	for _, n := range s.T.Nodes {
		h := n.Hash
		in := ch.MainChainHasBlock(&h)
		if in != onPath[n] {
			return fmt.Errorf("MainChainHasBlock(node%d) = %v, model %v", n.Idx, in, onPath[n])
		}
		ht, err := ch.BlockHeightByHash(&h)
		if onPath[n] {
			if err != nil || ht != n.Height {
				return fmt.Errorf("BlockHeightByHash(node%d) = %d, %v; model height %d", n.Idx, ht, err, n.Height)
			}
		} else if err == nil {
			return fmt.Errorf("BlockHeightByHash(node%d off the active chain) = %d without error", n.Idx, ht)
		}
	}
	// block bytes by height and by hash for the tip and a few ancestors
	for _, n := range []*Node{tip, path[len(path)/2], path[0]} {
		var want bytes.Buffer
		n.Msg.Serialize(&want)
		b1, err := ch.BlockByHeight(n.Height)
		if err != nil {
			return fmt.Errorf("BlockByHeight(%d): %v", n.Height, err)
		}
		got1, _ := b1.Bytes()
		if !bytes.Equal(got1, want.Bytes()) {
			return fmt.Errorf("BlockByHeight(%d) bytes differ from the delivered block node%d", n.Height, n.Idx)
		}
		h := n.Hash
		b2, err := ch.BlockByHash(&h)
		if err != nil {
			return fmt.Errorf("BlockByHash(node%d): %v", n.Idx, err)
		}
		got2, _ := b2.Bytes()
		if !bytes.Equal(got2, want.Bytes()) {
			return fmt.Errorf("BlockByHash(node%d) bytes differ from the delivered block", n.Idx)
		}
	}
	return CheckChainTips(e, s)
}

// CheckChainTips validates the ChainTips view.
func CheckChainTips(e *Env, s *Sel) error {
	tips := e.Chain.ChainTips()
	tip := s.Tip
	active := 0
	seen := map[chainhash.Hash]bool{}
	for _, ct := range tips {
		n := s.T.ByHash[ct.BlockHash]
		if n == nil {
			return fmt.Errorf("ChainTips reports unknown block %v", ct.BlockHash)
		}
		if seen[ct.BlockHash] {
			return fmt.Errorf("ChainTips reports node%d twice", n.Idx)
		}
		seen[ct.BlockHash] = true
		if ct.Height != n.Height {
			return fmt.Errorf("ChainTips: node%d height %d, model %d", n.Idx, ct.Height, n.Height)
		}
		// branch length = distance to the fork point with the active chain
		fork := n
		for !fork.IsAncestorOf(tip) {
			fork = fork.Parent
		}
		if ct.BranchLen != n.Height-fork.Height {
			return fmt.Errorf("ChainTips: node%d branch length %d, model %d", n.Idx, ct.BranchLen, n.Height-fork.Height)
		}
		switch ct.Status {
		case blockchain.StatusActive:
			active++
			if n != tip {
				return fmt.Errorf("ChainTips: node%d reported active, model tip is node%d", n.Idx, tip.Idx)
			}
		case blockchain.StatusInvalid:
			// only branches that really contain an invalid or invalidated block
			if n.ChainValid && !s.ManualOnPath(n) {
				return fmt.Errorf("ChainTips: node%d reported invalid but its whole branch is valid and not invalidated", n.Idx)
			}
		case blockchain.StatusValidFork:
			if n == tip {
				return fmt.Errorf("ChainTips: the active tip node%d is reported as valid-fork", n.Idx)
			}
		}
		// a tip must not have a child the implementation certainly knows
		for _, c := range n.Children {
			if n == tip {
				break // the active tip is always reported
			}
			if s.InIndex(c) {
				return fmt.Errorf("ChainTips: node%d reported as tip but its child node%d is known", n.Idx, c.Idx)
			}
		}
	}
	if active != 1 {
		return fmt.Errorf("ChainTips reports %d active tips", active)
	}
	// every leaf of the certainly-known tree must be reported
	for _, n := range s.T.Nodes {
		if !s.InIndex(n) {
			continue
		}
		leaf := true
		for _, c := range n.Children {
			if s.InIndex(c) || s.Murky[c] {
				leaf = false
			}
		}
		if leaf && !seen[n.Hash] {
			return fmt.Errorf("ChainTips misses the known leaf node%d (height %d)", n.Idx, n.Height)
		}
	}
	return nil
}

// NotifFold replays the connected/disconnected notification stream recorded
// since the chain object was created, starting from 'start', and checks that
// every connect extends and every disconnect pops the then-current tip. It
// returns the resulting tip.
func NotifFold(e *Env, t *Tree, start *Node) (*Node, error) {
	cur := start
	for i, nf := range e.Notifs {
		n := t.ByHash[nf.Hash]
		switch nf.Type {
		case blockchain.NTBlockConnected:
			if n == nil || n.Parent != cur {
				return nil, fmt.Errorf("notification %d: connected %v does not extend the then-current tip node%d", i, nf.Hash, cur.Idx)
			}
			cur = n
		case blockchain.NTBlockDisconnected:
			if n != cur {
				return nil, fmt.Errorf("notification %d: disconnected %v is not the then-current tip node%d", i, nf.Hash, cur.Idx)
			}
			cur = n.Parent
		}
	}
	return cur, nil
}
