package chainenv

import (
	"crypto/sha256"
	"encoding/binary"
	"fmt"
	"math/big"
	"sort"
	"time"

	"github.com/btcsuite/btcd/btcutil/v2"
	"github.com/btcsuite/btcd/chaincfg/v2"
	"github.com/btcsuite/btcd/chainhash/v2"
	"github.com/btcsuite/btcd/wire/v2"
)

// OpTrue is the anyone-can-spend script used for most generated outputs.
var OpTrue = []byte{0x51}

// Coin is one unspent output in the model.
type Coin struct {
	Value    int64
	PkScript []byte
	Height   int32
	Coinbase bool
}

// UtxoSet is the model UTXO set (treated as immutable once attached to a node).
type UtxoSet map[wire.OutPoint]Coin

func (u UtxoSet) clone() UtxoSet {
	c := make(UtxoSet, len(u)+8)
	for k, v := range u {
		c[k] = v
	}
	return c
}

// SortedOutpoints returns the keys in a canonical order (generators must not
// depend on map iteration order).
func (u UtxoSet) SortedOutpoints() []wire.OutPoint {
	ks := make([]wire.OutPoint, 0, len(u))
	for k := range u {
		ks = append(ks, k)
	}
	sort.Slice(ks, func(i, j int) bool {
		if c := bytesCompare(ks[i].Hash[:], ks[j].Hash[:]); c != 0 {
			return c < 0
		}
		return ks[i].Index < ks[j].Index
	})
	return ks
}

func bytesCompare(a, b []byte) int {
	for i := range a {
		if a[i] != b[i] {
			if a[i] < b[i] {
				return -1
			}
			return 1
		}
	}
	return 0
}

// Validity labels a block by construction.
type Validity int

const (
	Valid          Validity = iota
	InvalidSanity           // context-free invalid: rejected by ProcessBlock before it is stored
	InvalidContext          // invalid in the context of its parent (header/context rules): rejected before it is stored
	InvalidConnect          // only detected when connected (stored first on side chains)
)

func (v Validity) String() string {
	return [...]string{"valid", "invalid-sanity", "invalid-context", "invalid-connect"}[v]
}

// Node is one block of the generated tree together with the model state after it.
type Node struct {
	Idx      int
	Parent   *Node
	Children []*Node
	Msg      *wire.MsgBlock
	Hash     chainhash.Hash
	Height   int32
	Work     *big.Int // own work
	WorkSum  *big.Int // cumulative work including this block
	Self     Validity // validity of this block given valid ancestors
	Rule     string   // which rule an invalid block breaks
	// ChainValid: this block and all its ancestors are valid.
	ChainValid bool
	// Utxo is the model UTXO set after this block (nil unless ChainValid).
	Utxo UtxoSet
	// Spent is the model spend journal of this block: the coins spent by
	// its non-coinbase inputs, in transaction and input order.
	Spent []Coin
	// TotalTxns is the number of transactions from genesis to this block.
	TotalTxns uint64
	// Tags records generator events (for non-triviality classification).
	Tags []string
	fees int64
}

// Block returns a fresh btcutil.Block (ProcessBlock caches heights in it).
func (n *Node) Block() *btcutil.Block { return btcutil.NewBlock(n.Msg) }

// Time returns the header timestamp in seconds.
func (n *Node) Time() int64 { return n.Msg.Header.Timestamp.Unix() }

// MTP is the median time past at this node (model: element n/2 of the
// sorted last <=11 timestamps).
func (n *Node) MTP() int64 {
	ts := make([]int64, 0, 11)
	for it := n; it != nil && len(ts) < 11; it = it.Parent {
		ts = append(ts, it.Time())
	}
	sort.Slice(ts, func(i, j int) bool { return ts[i] < ts[j] })
	return ts[len(ts)/2]
}

// IsAncestorOf reports whether n is an ancestor of (or equal to) o.
func (n *Node) IsAncestorOf(o *Node) bool {
	for o != nil && o.Height > n.Height {
		o = o.Parent
	}
	return o == n
}

// Ancestor returns the ancestor at the given height (nil if out of range).
func (n *Node) Ancestor(h int32) *Node {
	if h < 0 || h > n.Height {
		return nil
	}
	for n.Height > h {
		n = n.Parent
	}
	return n
}

// Path returns genesis..n.
func (n *Node) Path() []*Node {
	p := make([]*Node, n.Height+1)
	for it := n; it != nil; it = it.Parent {
		p[it.Height] = it
	}
	return p
}

// Tree is a generated block tree over one parameter set.
type Tree struct {
	Params  *chaincfg.Params
	Family  Family
	Genesis *Node
	Nodes   []*Node
	ByHash  map[chainhash.Hash]*Node
	// NoUtxo switches the UTXO bookkeeping off (coinbase-only trees of many
	// blocks for index/header checks).
	NoUtxo bool
	// OddScripts: see TreeCfg.
	OddScripts bool
	nonce      uint64
}

// NewTree creates a tree holding only the genesis block of the parameters.
func NewTree(f Family, p *chaincfg.Params) *Tree {
	g := &Node{Msg: p.GenesisBlock, Hash: *p.GenesisHash, Height: 0, Self: Valid, ChainValid: true,
		Utxo: UtxoSet{}, TotalTxns: uint64(len(p.GenesisBlock.Transactions))}
	g.Work = CalcWork(p.GenesisBlock.Header.Bits)
	g.WorkSum = new(big.Int).Set(g.Work)
	t := &Tree{Params: p, Family: f, Genesis: g, ByHash: map[chainhash.Hash]*Node{}}
	t.Nodes = []*Node{g}
	t.ByHash[g.Hash] = g
	return t
}

// BlockOpt describes the block to build on a parent.
type BlockOpt struct {
	// TimeDelta is added to the parent's timestamp (default 1; the first
	// block after genesis is placed at T0 regardless).
	TimeDelta int64
	// Hard selects the hard difficulty in FamWork (needs TimeDelta <= 20).
	Hard bool
	// Txs are the non-coinbase transactions, in order.
	Txs []*wire.MsgTx
	// DupCoinbase builds a coinbase identical to every other DupCoinbase
	// coinbase with the same value (legal only without BIP34).
	DupCoinbase bool
	// CoinbaseOuts overrides the coinbase outputs (default: one OP_TRUE
	// output paying subsidy+fees).
	CoinbaseOuts []*wire.TxOut
	// CoinbaseValueDelta is added to the single default coinbase output.
	CoinbaseValueDelta int64
	// Version overrides the header version (default 0x20000000).
	Version int32
	// Break names a rule to violate (see breakers in this file); "" = valid.
	Break string
	// AbsTime, when non-zero, is the block timestamp (overrides TimeDelta).
	AbsTime int64
	// CoinbaseScriptSuffix is appended to the coinbase signature script
	// after the height push and extra nonce; CoinbaseScript, when non-nil,
	// replaces the whole signature script.
	CoinbaseScriptSuffix []byte
	CoinbaseScript       []byte
	// ExtraCoinbaseOuts are appended after the default paying output.
	ExtraCoinbaseOuts []*wire.TxOut
	// PayScript overrides the script of the default coinbase output.
	PayScript []byte
	// ForceCommitment adds a witness commitment even without witness data.
	ForceCommitment bool
	// NoCommitment suppresses the witness commitment.
	NoCommitment bool
	// Mutate is applied to the finished block (before the proof of work is
	// solved). A mutated block must be labelled with Label/Rule; the model
	// state after it is only kept when Label is Valid.
	Mutate func(msg *wire.MsgBlock)
	Label  Validity
	Rule   string
}

// Subsidy is the model block subsidy.
func Subsidy(height int32, p *chaincfg.Params) int64 {
	if p.SubsidyReductionInterval == 0 {
		return 50e8
	}
	h := int64(height) / int64(p.SubsidyReductionInterval)
	if h >= 64 {
		return 0
	}
	return int64(50e8) >> uint(h)
}

// scriptNumPush returns the minimal script push of a non-negative height as
// BIP34 requires (OP_0 / OP_1..OP_16 are NOT used by BIP34: heights 1..16
// are pushed as one data byte... btcd accepts the small-int opcodes too; the
// builder uses the data-push form for heights > 16 and OP_N for 1..16 as
// Bitcoin Core's miner does).
func scriptNumPush(v int64) []byte {
	if v == 0 {
		return []byte{0x00}
	}
	if v >= 1 && v <= 16 {
		return []byte{byte(0x50 + v)}
	}
	var b []byte
	for x := v; x > 0; x >>= 8 {
		b = append(b, byte(x))
	}
	if b[len(b)-1]&0x80 != 0 {
		b = append(b, 0)
	}
	return append([]byte{byte(len(b))}, b...)
}

// IsUnspendable is the model's rule for outputs that never enter the UTXO set.
func IsUnspendable(pk []byte) bool {
	return (len(pk) > 0 && pk[0] == 0x6a) || len(pk) > 10000 || !scriptParses(pk)
}

// scriptParses: every push of the script has its data (txscript.IsUnspendable documents that a
// script which fails to parse is treated like a provably unspendable one and never stored).
func scriptParses(pk []byte) bool {
	for i := 0; i < len(pk); {
		op := pk[i]
		i++
		n := 0
		switch {
		case op >= 0x01 && op <= 0x4b:
			n = int(op)
		case op == 0x4c:
			if i+1 > len(pk) {
				return false
			}
			n = int(pk[i])
			i++
		case op == 0x4d:
			if i+2 > len(pk) {
				return false
			}
			n = int(pk[i]) | int(pk[i+1])<<8
			i += 2
		case op == 0x4e:
			if i+4 > len(pk) {
				return false
			}
			n = int(pk[i]) | int(pk[i+1])<<8 | int(pk[i+2])<<16 | int(pk[i+3])<<24
			i += 4
		}
		if n < 0 || i+n > len(pk) {
			return false
		}
		i += n
	}
	return true
}

// TxFee computes the fee of tx against a UTXO set (panics if an input is missing).
func TxFee(tx *wire.MsgTx, u UtxoSet) int64 {
	var in, out int64
	for _, ti := range tx.TxIn {
		c, ok := u[ti.PreviousOutPoint]
		if !ok {
			panic(fmt.Sprintf("TxFee: missing input %v", ti.PreviousOutPoint))
		}
		in += c.Value
	}
	for _, o := range tx.TxOut {
		out += o.Value
	}
	return in - out
}

// ApplyTx spends the inputs and adds the outputs of tx to u (in place) and
// returns the spent coins in input order. ok=false when an input is missing.
func ApplyTx(u UtxoSet, tx *wire.MsgTx, height int32, coinbase bool) ([]Coin, bool) {
	var spent []Coin
	if !coinbase {
		for _, ti := range tx.TxIn {
			c, ok := u[ti.PreviousOutPoint]
			if !ok {
				return nil, false
			}
			spent = append(spent, c)
			delete(u, ti.PreviousOutPoint)
		}
	}
	h := tx.TxHash()
	for i, o := range tx.TxOut {
		if IsUnspendable(o.PkScript) {
			continue
		}
		u[wire.OutPoint{Hash: h, Index: uint32(i)}] = Coin{Value: o.Value, PkScript: o.PkScript, Height: height, Coinbase: coinbase}
	}
	return spent, true
}

// merkleRoot is the model's txid merkle root (duplicate-last rule).
// MerkleRoot is the model's txid merkle root.
func MerkleRoot(txs []*wire.MsgTx) chainhash.Hash { return merkleRoot(txs) }

// WitnessCommitmentScript returns the coinbase output script committing to
// the witness merkle root of txs (coinbase wtxid = zero) with the nonce.
func WitnessCommitmentScript(txs []*wire.MsgTx, nonce []byte) []byte {
	level := make([][32]byte, len(txs))
	for i, tx := range txs {
		if i > 0 {
			level[i] = tx.WitnessHash()
		}
	}
	for len(level) > 1 {
		if len(level)%2 == 1 {
			level = append(level, level[len(level)-1])
		}
		next := make([][32]byte, len(level)/2)
		for i := range next {
			var buf [64]byte
			copy(buf[:32], level[2*i][:])
			copy(buf[32:], level[2*i+1][:])
			a := sha256.Sum256(buf[:])
			next[i] = sha256.Sum256(a[:])
		}
		level = next
	}
	var pre [64]byte
	copy(pre[:32], level[0][:])
	copy(pre[32:], nonce)
	a := sha256.Sum256(pre[:])
	c := sha256.Sum256(a[:])
	return append([]byte{0x6a, 0x24, 0xaa, 0x21, 0xa9, 0xed}, c[:]...)
}

func merkleRoot(txs []*wire.MsgTx) chainhash.Hash {
	level := make([][32]byte, len(txs))
	for i, tx := range txs {
		level[i] = tx.TxHash()
	}
	for len(level) > 1 {
		if len(level)%2 == 1 {
			level = append(level, level[len(level)-1])
		}
		next := make([][32]byte, len(level)/2)
		for i := range next {
			var buf [64]byte
			copy(buf[:32], level[2*i][:])
			copy(buf[32:], level[2*i+1][:])
			a := sha256.Sum256(buf[:])
			next[i] = sha256.Sum256(a[:])
		}
		level = next
	}
	if len(level) == 0 {
		return chainhash.Hash{}
	}
	return level[0]
}

// requiredBits is the model's next-required-difficulty (GetNextWorkRequired
// as specified for Bitcoin and its test networks).
func (t *Tree) requiredBits(parent *Node, ts int64) uint32 {
	p := t.Params
	if p.PoWNoRetargeting {
		return p.PowLimitBits
	}
	iv := int32(p.TargetTimespan / p.TargetTimePerBlock)
	if (parent.Height+1)%iv != 0 {
		if !p.ReduceMinDifficulty {
			return parent.Msg.Header.Bits
		}
		if ts > parent.Time()+int64(p.MinDiffReductionTime/time.Second) {
			return p.PowLimitBits
		}
		it := parent
		for it.Parent != nil && it.Height%iv != 0 && it.Msg.Header.Bits == p.PowLimitBits {
			it = it.Parent
		}
		return it.Msg.Header.Bits
	}
	// retarget height: the time the closing period took, clamped to [timespan/f, timespan*f]
	first := parent.Ancestor(parent.Height - (iv - 1))
	span := int64(p.TargetTimespan / time.Second)
	actual := parent.Time() - first.Time()
	if lo := span / p.RetargetAdjustmentFactor; actual < lo {
		actual = lo
	}
	if hi := span * p.RetargetAdjustmentFactor; actual > hi {
		actual = hi
	}
	old := compactToBig(parent.Msg.Header.Bits)
	if p.EnforceBIP94 {
		old = compactToBig(first.Msg.Header.Bits)
	}
	nt := new(big.Int).Mul(old, big.NewInt(actual))
	nt.Quo(nt, big.NewInt(span))
	if nt.Cmp(p.PowLimit) > 0 {
		nt.Set(p.PowLimit)
	}
	return bigToCompact(nt)
}

// RequiredBits exposes the model's required difficulty for a block on parent
// with timestamp ts.
func (t *Tree) RequiredBits(parent *Node, ts int64) uint32 { return t.requiredBits(parent, ts) }

// AltBits lists difficulty values that plausible WRONG rules would ask for at
// this position (the parent's bits, the minimum difficulty, the retarget
// computed from the other end of the period); values equal to the required
// bits are left out.
func (t *Tree) AltBits(parent *Node, ts int64) []uint32 {
	req := t.requiredBits(parent, ts)
	alts := []uint32{parent.Msg.Header.Bits, t.Params.PowLimitBits}
	if !t.Params.PoWNoRetargeting {
		cp := *t.Params
		cp.EnforceBIP94 = !cp.EnforceBIP94
		alts = append(alts, (&Tree{Params: &cp}).requiredBits(parent, ts))
		// the rule of a non-retarget height applied at a retarget height and vice versa
		iv := int32(cp.TargetTimespan / cp.TargetTimePerBlock)
		if (parent.Height+1)%iv == 0 && parent.Parent != nil {
			cp2 := *t.Params
			cp2.TargetTimespan *= 1 << 20 // no retarget in reach: plain min-difficulty rule
			alts = append(alts, (&Tree{Params: &cp2}).requiredBits(parent, ts))
		}
	}
	var out []uint32
	for _, a := range alts {
		dup := a == req
		for _, o := range out {
			dup = dup || o == a
		}
		if !dup {
			out = append(out, a)
		}
	}
	return out
}

// Solve finds a nonce (and if needed bumps the coinbase-independent
// timestamp-free extra field: only the nonce is touched) such that the hash
// meets the target. wantFail asks for a hash ABOVE the target instead.
func Solve(h *wire.BlockHeader, wantFail bool) { SolveFrom(h, wantFail, 0) }

// SolveFrom is Solve starting the nonce search at start.
func SolveFrom(h *wire.BlockHeader, wantFail bool, start uint32) {
	target := compactToBig(h.Bits)
	if target.Sign() <= 0 {
		return // no hash can meet a zero or negative target
	}
	for n := start; ; n++ {
		h.Nonce = n
		hash := h.BlockHash()
		ok := hashToBig(&hash).Cmp(target) <= 0
		if ok != wantFail {
			return
		}
	}
}

// Extend builds a block on parent, computes the model state after it and adds
// it to the tree. Invalid blocks (opt.Break) are labelled, and their
// descendants are labelled chain-invalid.
func (t *Tree) Extend(parent *Node, opt BlockOpt) *Node {
	p := t.Params
	height := parent.Height + 1
	ts := parent.Time() + 1
	if opt.TimeDelta != 0 {
		ts = parent.Time() + opt.TimeDelta
	}
	if parent.Parent == nil && ts < T0 {
		ts = T0
	}
	if opt.AbsTime != 0 {
		ts = opt.AbsTime
	}
	if t.Family == FamWork && opt.TimeDelta == 0 && opt.AbsTime == 0 {
		if opt.Hard {
			ts = parent.Time() + 1
		} else {
			ts = parent.Time() + 2*workSpacing + 1
		}
	}
	// model state: start from the parent's UTXO set (if the parent chain is valid)
	var u UtxoSet
	if parent.ChainValid && !t.NoUtxo {
		u = parent.Utxo.clone()
	}
	var fees int64
	var spentAll []Coin
	connectOK := parent.ChainValid
	connectRule := ""
	if u != nil {
		for _, tx := range opt.Txs {
			// fee must be computed before the inputs are removed
			var in int64
			ok := true
			for _, ti := range tx.TxIn {
				c, has := u[ti.PreviousOutPoint]
				if !has {
					ok, connectRule = false, "missing-input"
					break
				}
				if c.Coinbase && height-c.Height < int32(p.CoinbaseMaturity) {
					ok, connectRule = false, "immature-coinbase-spend"
					break
				}
				in += c.Value
			}
			var out int64
			for _, o := range tx.TxOut {
				out += o.Value
			}
			if ok && in < out {
				ok, connectRule = false, "spend-too-high"
			}
			if !ok {
				connectOK = false
				break
			}
			fees += in - out
			sp, _ := ApplyTx(u, tx, height, false)
			spentAll = append(spentAll, sp...)
		}
	}
	// coinbase
	cb := wire.NewMsgTx(1)
	var script []byte
	if opt.DupCoinbase {
		script = []byte{0x00, 0x00} // fixed: identical txid for equal outputs
	} else {
		script = scriptNumPush(int64(height))
		t.nonce++
		var en [8]byte
		binary.LittleEndian.PutUint64(en[:], t.nonce)
		script = append(script, 0x08)
		script = append(script, en[:]...)
	}
	script = append(script, opt.CoinbaseScriptSuffix...)
	if opt.CoinbaseScript != nil {
		script = opt.CoinbaseScript
	}
	cb.AddTxIn(&wire.TxIn{PreviousOutPoint: wire.OutPoint{Index: 0xffffffff}, SignatureScript: script, Sequence: 0xffffffff})
	if opt.CoinbaseOuts != nil {
		for _, o := range opt.CoinbaseOuts {
			cb.AddTxOut(o)
		}
	} else {
		v := Subsidy(height, p) + fees + opt.CoinbaseValueDelta
		if opt.DupCoinbase {
			// identical coinbases need identical outputs: claim the subsidy only
			v = Subsidy(height, p) + opt.CoinbaseValueDelta
		}
		ps := OpTrue
		if opt.PayScript != nil {
			ps = opt.PayScript
		}
		cb.AddTxOut(&wire.TxOut{Value: v, PkScript: ps})
	}
	for _, o := range opt.ExtraCoinbaseOuts {
		cb.AddTxOut(o)
	}
	txs := append([]*wire.MsgTx{cb}, opt.Txs...)
	hasWitness := false
	for _, tx := range opt.Txs {
		if tx.HasWitness() {
			hasWitness = true
		}
	}
	if (hasWitness || opt.ForceCommitment) && !opt.NoCommitment {
		nonce := make([]byte, 32)
		cb.TxIn[0].Witness = wire.TxWitness{nonce}
		cb.AddTxOut(&wire.TxOut{Value: 0, PkScript: WitnessCommitmentScript(txs, nonce)})
	}
	ver := opt.Version
	if ver == 0 {
		ver = 0x20000000
	}
	msg := &wire.MsgBlock{Header: wire.BlockHeader{Version: ver, PrevBlock: parent.Hash, Timestamp: time.Unix(ts, 0)}, Transactions: txs}
	msg.Header.Bits = t.requiredBits(parent, ts)
	msg.Header.MerkleRoot = merkleRoot(txs)

	n := &Node{Idx: len(t.Nodes), Parent: parent, Msg: msg, Height: height, Self: Valid, fees: fees}
	wantFail := false
	if opt.Break != "" {
		wantFail = t.applyBreak(n, opt.Break)
	}
	if opt.Mutate != nil {
		opt.Mutate(msg)
		n.Self, n.Rule = opt.Label, opt.Rule
	} else if opt.Rule != "" && opt.Break == "" {
		n.Self, n.Rule = opt.Label, opt.Rule
	}
	Solve(&msg.Header, wantFail)
	n.Hash = msg.Header.BlockHash()
	for t.ByHash[n.Hash] != nil { // identical sibling (duplicate coinbase, same time): take another nonce
		SolveFrom(&msg.Header, wantFail, msg.Header.Nonce+1)
		n.Hash = msg.Header.BlockHash()
	}
	n.Work = CalcWork(msg.Header.Bits)
	n.WorkSum = new(big.Int).Add(parent.WorkSum, n.Work)
	n.TotalTxns = parent.TotalTxns + uint64(len(txs))
	n.ChainValid = parent.ChainValid && n.Self == Valid && connectOK
	if !connectOK && n.Self == Valid && parent.ChainValid {
		n.Self, n.Rule = InvalidConnect, connectRule
	}
	if n.ChainValid && !t.NoUtxo {
		// BIP30 in the model: a transaction may not overwrite an unspent output
		for _, tx := range txs {
			h := tx.TxHash()
			for i := range tx.TxOut {
				if _, exists := parent.Utxo[wire.OutPoint{Hash: h, Index: uint32(i)}]; exists {
					n.ChainValid = false
					n.Self, n.Rule = InvalidConnect, "bip30-overwrite"
				}
			}
		}
	}
	if n.ChainValid && !t.NoUtxo {
		ApplyTx(u, cb, height, true)
		n.Utxo = u
		n.Spent = spentAll
	}
	parent.Children = append(parent.Children, n)
	t.Nodes = append(t.Nodes, n)
	if old, dup := t.ByHash[n.Hash]; dup {
		panic(fmt.Sprintf("duplicate block hash in tree: node %d and %d", old.Idx, n.Idx))
	}
	t.ByHash[n.Hash] = n
	return n
}

// applyBreak mutates the block so that it violates exactly one rule and
// labels the node. It returns true when the PoW must fail.
func (t *Tree) applyBreak(n *Node, rule string) bool {
	msg := n.Msg
	n.Rule = rule
	switch rule {
	case "bad-merkle":
		msg.Header.MerkleRoot[0] ^= 1
		n.Self = InvalidSanity
	case "high-hash":
		n.Self = InvalidSanity
		return true
	case "time-too-old": // timestamp == MTP of the parent
		msg.Header.Timestamp = time.Unix(n.Parent.MTP(), 0)
		msg.Header.Bits = t.requiredBits(n.Parent, n.Parent.MTP())
		n.Self = InvalidContext
	case "bad-bits":
		msg.Header.Bits ^= 0x00000100
		n.Self = InvalidContext
		if compactToBig(msg.Header.Bits).Cmp(t.Params.PowLimit) > 0 {
			n.Self = InvalidSanity
		}
	case "coinbase-overpay":
		// one satoshi more than subsidy + fees (a duplicate-able coinbase
		// claims less than it may, so "+1" alone would still be valid)
		msg.Transactions[0].TxOut[0].Value = Subsidy(n.Height, t.Params) + n.fees + 1
		msg.Header.MerkleRoot = merkleRoot(msg.Transactions)
		n.Self = InvalidConnect
	case "non-final-coinbase":
		// a rule on the block BODY that depends on the block's position: every transaction, the
		// coinbase included, must be final at the block's height (lock time = height + 10, sequence
		// not final). The witness commitment does not cover the coinbase, so it stays right.
		cb := msg.Transactions[0]
		cb.TxIn[0].Sequence = 0
		cb.LockTime = uint32(n.Height) + 10
		msg.Header.MerkleRoot = merkleRoot(msg.Transactions)
		n.Self = InvalidContext
	default:
		panic("unknown break rule " + rule)
	}
	return false
}

// SpendTx builds a transaction spending the given outpoints (which must carry
// OP_TRUE scripts: empty signature scripts) into the given outputs.
func SpendTx(version int32, ins []wire.OutPoint, outs []*wire.TxOut, lockTime uint32, sequence uint32) *wire.MsgTx {
	tx := wire.NewMsgTx(version)
	for _, op := range ins {
		tx.AddTxIn(&wire.TxIn{PreviousOutPoint: op, Sequence: sequence})
	}
	for _, o := range outs {
		tx.AddTxOut(o)
	}
	tx.LockTime = lockTime
	return tx
}

// Spendable lists, in canonical order, the outpoints of u that a block at
// the given height may spend with an empty signature script: OP_TRUE outputs
// that are not immature coinbases.
func Spendable(u UtxoSet, height int32, maturity int32) []wire.OutPoint {
	var out []wire.OutPoint
	for _, op := range u.SortedOutpoints() {
		c := u[op]
		if !IsAnyoneCanSpend(c.PkScript) {
			continue
		}
		if c.Coinbase && height-c.Height < maturity {
			continue
		}
		out = append(out, op)
	}
	return out
}

// Describe renders the tree for failure messages.
func (t *Tree) Describe() string {
	s := fmt.Sprintf("family=%s maturity=%d;", t.Family, t.Params.CoinbaseMaturity)
	for _, n := range t.Nodes[1:] {
		s += fmt.Sprintf(" node%d<-node%d(h%d,w%s,txs%d", n.Idx, n.Parent.Idx, n.Height, new(big.Int).Div(n.WorkSum, CalcWork(0x207fffff)), len(n.Msg.Transactions))
		if n.Self != Valid {
			s += "," + n.Self.String() + ":" + n.Rule
		}
		for _, tg := range n.Tags {
			s += "," + tg
		}
		s += ")"
	}
	return s
}

// DupCoinbaseHash returns the txid shared by all DupCoinbase coinbases that
// claim the subsidy of the given height.
func (t *Tree) DupCoinbaseHash(height int32) chainhash.Hash {
	cb := wire.NewMsgTx(1)
	cb.AddTxIn(&wire.TxIn{PreviousOutPoint: wire.OutPoint{Index: 0xffffffff}, SignatureScript: []byte{0x00, 0x00}, Sequence: 0xffffffff})
	cb.AddTxOut(&wire.TxOut{Value: Subsidy(height, t.Params), PkScript: OpTrue})
	return cb.TxHash()
}
