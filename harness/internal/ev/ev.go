// Package ev is the evidence recorder shared by all checks.
//
// Every sub-check (one rapid property, fuzz target or enumeration) owns a Rec.
// The property function calls Case once per generated case with
//   - whether the case is non-trivial by the sub-check's stated rule,
//   - a class label (histogram),
//   - a 64-bit hash of the canonical case (distinct counting),
//   - a lazily evaluated sample.
//
// TestMain calls ev.Main(m) which flushes everything into $VERIF_STATS_OUT
// (JSON) and $VERIF_STATS_OUT.hashes (binary little-endian uint64, capped).
// The /verif/run driver merges the files of all shards into the evidence file.
package ev

import (
	"bufio"
	"encoding/binary"
	"encoding/json"
	"fmt"
	"hash/fnv"
	"os"
	"sort"
	"strconv"
	"strings"
	"sync"
	"testing"
)

const (
	maxHashes  = 400000 // cap on remembered distinct hashes per sub-check per process
	maxSamples = 6
)

// Rec is the recorder of one sub-check.
type Rec struct {
	mu          sync.Mutex
	Prop        string `json:"prop"`
	Name        string `json:"name"`
	Rule        string `json:"rule"`
	Required    []string
	evaluations int64
	nontrivial  int64
	hashes      map[uint64]struct{}
	capped      bool
	classes     map[string]int64
	samples     []any
	sampleSeen  map[string]int
	known       map[string]int64
	excluded    int64
	exhaustive  bool
	extra       map[string]any
}

var (
	regMu sync.Mutex
	recs  []*Rec
)

// New registers a sub-check recorder. rule states the generator and the
// non-triviality predicate; required lists class labels that a healthy
// generator must produce.
func New(prop, name, rule string, required ...string) *Rec {
	r := &Rec{Prop: prop, Name: name, Rule: rule, Required: required,
		hashes: map[uint64]struct{}{}, classes: map[string]int64{},
		sampleSeen: map[string]int{}, known: map[string]int64{}, extra: map[string]any{}}
	regMu.Lock()
	recs = append(recs, r)
	regMu.Unlock()
	return r
}

// Hash returns the FNV-1a 64 hash of the concatenation of parts.
func Hash(parts ...[]byte) uint64 {
	h := fnv.New64a()
	var l [4]byte
	for _, p := range parts {
		binary.LittleEndian.PutUint32(l[:], uint32(len(p)))
		h.Write(l[:])
		h.Write(p)
	}
	return h.Sum64()
}

// HashS hashes a string.
func HashS(s string) uint64 { return Hash([]byte(s)) }

// Case records one generated case.
func (r *Rec) Case(nontrivial bool, class string, hash uint64, sample func() any) {
	r.mu.Lock()
	defer r.mu.Unlock()
	r.evaluations++
	if class != "" {
		r.classes[class]++
	}
	if !nontrivial {
		return
	}
	r.nontrivial++
	if _, ok := r.hashes[hash]; !ok {
		if len(r.hashes) < maxHashes {
			r.hashes[hash] = struct{}{}
		} else {
			r.capped = true
		}
		// keep a couple of samples per class, bounded overall
		if sample != nil && len(r.samples) < maxSamples && r.sampleSeen[class] < 2 {
			r.sampleSeen[class]++
			r.samples = append(r.samples, sample())
		}
	}
}

// Count adds to a class without counting an evaluation (secondary labels).
func (r *Rec) Count(class string, n int64) {
	r.mu.Lock()
	r.classes[class] += n
	r.mu.Unlock()
}

// Eval counts n evaluations without classification (bulk enumerations);
// nontrivialDistinct of them are distinct and non-trivial by construction
// (an enumeration visits every value once).
func (r *Rec) Bulk(n, nontrivialDistinct int64) {
	r.mu.Lock()
	r.evaluations += n
	r.nontrivial += nontrivialDistinct
	r.extra["bulk_distinct"] = asInt(r.extra["bulk_distinct"]) + nontrivialDistinct
	r.mu.Unlock()
}

func asInt(v any) int64 {
	if v == nil {
		return 0
	}
	return v.(int64)
}

// Sample appends a sample unconditionally (bounded).
func (r *Rec) Sample(s any) {
	r.mu.Lock()
	if len(r.samples) < maxSamples+4 {
		r.samples = append(r.samples, s)
	}
	r.mu.Unlock()
}

// Set stores an extra key in the sub-check's evidence.
func (r *Rec) Set(k string, v any) {
	r.mu.Lock()
	r.extra[k] = v
	r.mu.Unlock()
}

// Exhaustive marks that the sub-check enumerated its finite domain.
func (r *Rec) Exhaustive() { r.mu.Lock(); r.exhaustive = true; r.mu.Unlock() }

// Excluded counts a generated case that was dropped by construction because
// it is a listed known finding.
func (r *Rec) Excluded() { r.mu.Lock(); r.excluded++; r.mu.Unlock() }

// ---------------------------------------------------------------------------
// known findings

type finding struct {
	Property  string `json:"property"`
	Signature string `json:"signature"`
	Status    string `json:"status"` // "known" or "fixed"
	What      string `json:"what"`
}

var (
	kfOnce sync.Once
	kf     map[string]finding
	kfSeen sync.Map
)

func loadKF() {
	kf = map[string]finding{}
	path := os.Getenv("VERIF_KNOWN_FINDINGS")
	if path == "" {
		path = "/verif/known_findings.jsonl"
	}
	f, err := os.Open(path)
	if err != nil {
		return
	}
	defer f.Close()
	sc := bufio.NewScanner(f)
	sc.Buffer(make([]byte, 1<<20), 1<<20)
	for sc.Scan() {
		line := strings.TrimSpace(sc.Text())
		if line == "" || strings.HasPrefix(line, "#") {
			continue
		}
		var fd finding
		if json.Unmarshal([]byte(line), &fd) == nil && fd.Status == "known" {
			kf[fd.Property+"/"+fd.Signature] = fd
		}
	}
}

// Known reports whether (prop, signature) is a listed, unrepaired finding.
// When it is, the KNOWN-FINDING line is printed once per process and the
// occurrence is counted; the caller then skips the case. When it is not
// listed the caller must fail the test: the violation is new.
func (r *Rec) Known(signature, observed string) bool {
	kfOnce.Do(loadKF)
	fd, ok := kf[r.Prop+"/"+signature]
	if !ok {
		return false
	}
	r.mu.Lock()
	r.known[signature]++
	r.mu.Unlock()
	if _, dup := kfSeen.LoadOrStore(r.Prop+"/"+signature, true); !dup {
		fmt.Printf("KNOWN-FINDING: property=%s %s [%s] observed: %s\n", r.Prop, fd.What, signature, observed)
	}
	return true
}

// IsKnown only queries the list (no line, no count) so that generators can
// exclude a listed signature by construction.
func IsKnown(prop, signature string) bool {
	kfOnce.Do(loadKF)
	_, ok := kf[prop+"/"+signature]
	return ok
}

// ---------------------------------------------------------------------------
// configuration helpers

// Tier returns "quick" or "thorough".
func Tier() string {
	if os.Getenv("VERIF_TIER") == "thorough" {
		return "thorough"
	}
	return "quick"
}

// Thorough reports whether the thorough tier is running.
func Thorough() bool { return Tier() == "thorough" }

// Scale returns q in the quick tier and t in the thorough tier.
func Scale(q, t int) int {
	if Thorough() {
		return t
	}
	return q
}

// Shard returns (index, count) of this process among the shards of a run.
func Shard() (int, int) {
	i, _ := strconv.Atoi(os.Getenv("VERIF_SHARD"))
	n, _ := strconv.Atoi(os.Getenv("VERIF_SHARDS"))
	if n <= 0 {
		n = 1
	}
	return i, n
}

// ---------------------------------------------------------------------------
// output

type subOut struct {
	Prop        string           `json:"prop"`
	Name        string           `json:"name"`
	Rule        string           `json:"rule"`
	Required    []string         `json:"required,omitempty"`
	Evaluations int64            `json:"evaluations"`
	Nontrivial  int64            `json:"nontrivial"`
	Distinct    int64            `json:"distinct"`
	Capped      bool             `json:"capped"`
	Classes     map[string]int64 `json:"classes"`
	Samples     []any            `json:"samples"`
	Known       map[string]int64 `json:"known,omitempty"`
	Excluded    int64            `json:"excluded"`
	Exhaustive  bool             `json:"exhaustive"`
	Extra       map[string]any   `json:"extra,omitempty"`
}

// Flush writes the stats of all recorders.
func Flush() {
	out := os.Getenv("VERIF_STATS_OUT")
	if out == "" {
		return
	}
	regMu.Lock()
	defer regMu.Unlock()
	var subs []subOut
	// several processes may flush to the same path (the workers of a native fuzz job): each writes its
	// own temporary file and renames it, so that a reader never sees a torn file
	tmpSuffix := fmt.Sprintf(".tmp-%d", os.Getpid())
	hf, err := os.Create(out + ".hashes" + tmpSuffix)
	if err != nil {
		fmt.Fprintln(os.Stderr, "ev: ", err)
		return
	}
	bw := bufio.NewWriter(hf)
	for i, r := range recs {
		r.mu.Lock()
		if r.evaluations == 0 {
			r.mu.Unlock()
			continue
		}
		s := subOut{Prop: r.Prop, Name: r.Name, Rule: r.Rule, Required: r.Required,
			Evaluations: r.evaluations, Nontrivial: r.nontrivial,
			Distinct: int64(len(r.hashes)) + asInt(r.extra["bulk_distinct"]), Capped: r.capped,
			Classes: r.classes, Samples: r.samples, Known: r.known, Excluded: r.excluded,
			Exhaustive: r.exhaustive, Extra: r.extra}
		subs = append(subs, s)
		keys := make([]uint64, 0, len(r.hashes))
		for h := range r.hashes {
			keys = append(keys, h)
		}
		sort.Slice(keys, func(a, b int) bool { return keys[a] < keys[b] })
		var hdr [12]byte
		binary.LittleEndian.PutUint32(hdr[:4], uint32(i))
		binary.LittleEndian.PutUint64(hdr[4:], uint64(len(keys)))
		// sub-check is identified by name hash so that shards agree
		binary.LittleEndian.PutUint32(hdr[:4], uint32(HashS(r.Name)))
		bw.Write(hdr[:])
		var b [8]byte
		for _, k := range keys {
			binary.LittleEndian.PutUint64(b[:], k)
			bw.Write(b[:])
		}
		r.mu.Unlock()
	}
	bw.Flush()
	hf.Close()
	os.Rename(out+".hashes"+tmpSuffix, out+".hashes")
	js, err := json.MarshalIndent(subs, "", " ")
	if err != nil {
		// a sample that cannot be marshalled must not lose the counts
		for i := range subs {
			subs[i].Samples = []any{fmt.Sprintf("%v", subs[i].Samples)}
		}
		js, _ = json.MarshalIndent(subs, "", " ")
	}
	if os.WriteFile(out+tmpSuffix, js, 0o644) == nil {
		os.Rename(out+tmpSuffix, out)
	}
}

// Main is the TestMain body of every check package.
func Main(m *testing.M) {
	code := m.Run()
	Flush()
	os.Exit(code)
}
