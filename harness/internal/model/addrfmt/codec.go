// Package addrfmt is the independent reference for property C16: Base58 /
// Base58Check (Bitcoin wiki "Base58Check encoding"), Bech32 / Bech32m and the
// segwit address rules (BIP173, BIP350), standard output-script templates
// (BIPs 13/16/141/341, Bitcoin Core "Solver"), WIF, BIP32 key derivation and
// serialisation and the BIP341 script-tree commitments. It is written from the
// specification texts and shares no code with btcd; point arithmetic comes from
// verif/internal/model/secp, hashes from the Go standard library and
// golang.org/x/crypto/ripemd160.
package addrfmt

import (
	"crypto/sha256"
	"errors"
	"math/big"
	"strings"

	"golang.org/x/crypto/ripemd160"
)

// ---------------------------------------------------------------------------
// hashes

// DSHA256 is SHA256(SHA256(b)).
func DSHA256(b []byte) []byte {
	a := sha256.Sum256(b)
	c := sha256.Sum256(a[:])
	return c[:]
}

// Hash160 is RIPEMD160(SHA256(b)).
func Hash160(b []byte) []byte {
	a := sha256.Sum256(b)
	h := ripemd160.New()
	h.Write(a[:])
	return h.Sum(nil)
}

// ---------------------------------------------------------------------------
// Base58 (Bitcoin wiki)

// B58Alphabet is the Bitcoin base58 code string.
const B58Alphabet = "123456789ABCDEFGHJKLMNPQRSTUVWXYZabcdefghijkmnopqrstuvwxyz"

var (
	big58  = big.NewInt(58)
	b58idx = func() (t [256]int) {
		for i := range t {
			t[i] = -1
		}
		for i := 0; i < len(B58Alphabet); i++ {
			t[B58Alphabet[i]] = i
		}
		return
	}()
)

// Base58Encode: treat the bytes as a big-endian integer, emit base-58 digits,
// and represent every leading zero byte by one '1'.
func Base58Encode(b []byte) string {
	x := new(big.Int).SetBytes(b)
	var out []byte
	rem := new(big.Int)
	for x.Sign() > 0 {
		x.QuoRem(x, big58, rem)
		out = append(out, B58Alphabet[rem.Int64()])
	}
	for _, c := range b {
		if c != 0 {
			break
		}
		out = append(out, B58Alphabet[0])
	}
	for i, j := 0, len(out)-1; i < j; i, j = i+1, j-1 {
		out[i], out[j] = out[j], out[i]
	}
	return string(out)
}

// Base58Decode is the inverse of Base58Encode; ok=false when a character is
// outside the alphabet. The empty string decodes to no bytes.
func Base58Decode(s string) ([]byte, bool) {
	x := new(big.Int)
	for i := 0; i < len(s); i++ {
		d := b58idx[s[i]]
		if d < 0 {
			return nil, false
		}
		x.Mul(x, big58)
		x.Add(x, big.NewInt(int64(d)))
	}
	zeros := 0
	for zeros < len(s) && s[zeros] == B58Alphabet[0] {
		zeros++
	}
	body := x.Bytes()
	out := make([]byte, zeros+len(body))
	copy(out[zeros:], body)
	return out, true
}

// Base58CheckEncodeRaw appends the first four bytes of the double SHA256 of
// data and base58-encodes the result (data already contains the version
// prefix, which may be longer than one byte as for BIP32).
func Base58CheckEncodeRaw(data []byte) string {
	b := append(append([]byte{}, data...), DSHA256(data)[:4]...)
	return Base58Encode(b)
}

// Base58CheckEncode is version byte || payload with checksum.
func Base58CheckEncode(version byte, payload []byte) string {
	return Base58CheckEncodeRaw(append([]byte{version}, payload...))
}

// Errors of the decoders.
var (
	ErrB58Char     = errors.New("base58: character outside the alphabet")
	ErrB58Short    = errors.New("base58check: shorter than a checksum")
	ErrB58Checksum = errors.New("base58check: checksum mismatch")
)

// Base58CheckDecodeRaw returns the data in front of a valid checksum.
func Base58CheckDecodeRaw(s string) ([]byte, error) {
	b, ok := Base58Decode(s)
	if !ok {
		return nil, ErrB58Char
	}
	if len(b) < 4 {
		return nil, ErrB58Short
	}
	data, sum := b[:len(b)-4], b[len(b)-4:]
	if string(DSHA256(data)[:4]) != string(sum) {
		return nil, ErrB58Checksum
	}
	return data, nil
}

// ---------------------------------------------------------------------------
// Bech32 / Bech32m (BIP173, BIP350)

// Bech32Charset maps 5-bit values to characters.
const Bech32Charset = "qpzry9x8gf2tvdw0s3jn54khce6mua7l"

// Checksum constants.
const (
	Bech32Const  uint32 = 1
	Bech32mConst uint32 = 0x2bc830a3
)

var bech32Gen = [5]uint32{0x3b6a57b2, 0x26508e6d, 0x1ea119fa, 0x3d4233dd, 0x2a1462b3}

// Polymod is bech32_polymod of BIP173.
func Polymod(values []byte) uint32 {
	chk := uint32(1)
	for _, v := range values {
		top := chk >> 25
		chk = (chk&0x1ffffff)<<5 ^ uint32(v)
		for i := 0; i < 5; i++ {
			if (top>>uint(i))&1 == 1 {
				chk ^= bech32Gen[i]
			}
		}
	}
	return chk
}

// HRPExpand is bech32_hrp_expand.
func HRPExpand(hrp string) []byte {
	out := make([]byte, 0, 2*len(hrp)+1)
	for i := 0; i < len(hrp); i++ {
		out = append(out, hrp[i]>>5)
	}
	out = append(out, 0)
	for i := 0; i < len(hrp); i++ {
		out = append(out, hrp[i]&31)
	}
	return out
}

// Bech32Checksum returns the six checksum values for (hrp, data) under the
// given constant.
func Bech32Checksum(hrp string, data []byte, constant uint32) []byte {
	v := append(HRPExpand(hrp), data...)
	v = append(v, 0, 0, 0, 0, 0, 0)
	pm := Polymod(v) ^ constant
	out := make([]byte, 6)
	for i := 0; i < 6; i++ {
		out[i] = byte(pm>>uint(5*(5-i))) & 31
	}
	return out
}

// Bech32EncodeRaw builds hrp || '1' || data || checksum without any validity
// checks on lengths (used to build hostile strings too). hrp must already be
// lower case; every data value must be < 32.
func Bech32EncodeRaw(hrp string, data []byte, constant uint32) string {
	var sb strings.Builder
	sb.WriteString(hrp)
	sb.WriteByte('1')
	for _, d := range append(append([]byte{}, data...), Bech32Checksum(hrp, data, constant)...) {
		sb.WriteByte(Bech32Charset[d&31])
	}
	return sb.String()
}

// Errors of Bech32Decode.
var (
	ErrBechLen      = errors.New("bech32: overall length")
	ErrBechChar     = errors.New("bech32: character out of range")
	ErrBechCase     = errors.New("bech32: mixed case")
	ErrBechSep      = errors.New("bech32: separator position")
	ErrBechData     = errors.New("bech32: data character outside the charset")
	ErrBechChecksum = errors.New("bech32: checksum")
)

// Bech32Decode is bech32_decode of BIP350: it returns the lower-case HRP, the
// data values without the checksum and the constant the checksum verifies
// under (Bech32Const or Bech32mConst). limit90 applies the 90-character rule.
func Bech32Decode(s string, limit90 bool) (hrp string, data []byte, constant uint32, err error) {
	hasLower, hasUpper := false, false
	for i := 0; i < len(s); i++ {
		c := s[i]
		if c < 33 || c > 126 {
			return "", nil, 0, ErrBechChar
		}
		if c >= 'a' && c <= 'z' {
			hasLower = true
		}
		if c >= 'A' && c <= 'Z' {
			hasUpper = true
		}
	}
	if hasLower && hasUpper {
		return "", nil, 0, ErrBechCase
	}
	s = strings.ToLower(s)
	pos := strings.LastIndexByte(s, '1')
	if pos < 1 || pos+7 > len(s) {
		return "", nil, 0, ErrBechSep
	}
	if limit90 && len(s) > 90 {
		return "", nil, 0, ErrBechLen
	}
	hrp = s[:pos]
	vals := make([]byte, 0, len(s)-pos-1)
	for i := pos + 1; i < len(s); i++ {
		d := strings.IndexByte(Bech32Charset, s[i])
		if d < 0 {
			return "", nil, 0, ErrBechData
		}
		vals = append(vals, byte(d))
	}
	pm := Polymod(append(HRPExpand(hrp), vals...))
	if pm != Bech32Const && pm != Bech32mConst {
		return "", nil, 0, ErrBechChecksum
	}
	return hrp, vals[:len(vals)-6], pm, nil
}

// ConvertBits is convertbits of BIP173. ok=false for an input value that does
// not fit frombits, and (without padding) for a remainder of frombits or more
// bits or non-zero remainder bits.
func ConvertBits(data []byte, frombits, tobits uint, pad bool) ([]byte, bool) {
	acc, bits := uint32(0), uint(0)
	maxv := uint32(1)<<tobits - 1
	maxAcc := uint32(1)<<(frombits+tobits-1) - 1
	var ret []byte
	for _, v := range data {
		if uint32(v)>>frombits != 0 {
			return nil, false
		}
		acc = (acc<<frombits | uint32(v)) & maxAcc
		bits += frombits
		for bits >= tobits {
			bits -= tobits
			ret = append(ret, byte(acc>>bits&maxv))
		}
	}
	if pad {
		if bits > 0 {
			ret = append(ret, byte(acc<<(tobits-bits)&maxv))
		}
	} else if bits >= frombits || acc<<(tobits-bits)&maxv != 0 {
		return nil, false
	}
	return ret, true
}

// Errors of SegwitDecode.
var (
	ErrSegNoVersion = errors.New("segwit: empty data part")
	ErrSegVersion   = errors.New("segwit: witness version > 16")
	ErrSegPadding   = errors.New("segwit: invalid padding")
	ErrSegLen       = errors.New("segwit: program length outside 2..40")
	ErrSegV0Len     = errors.New("segwit: v0 program must be 20 or 32 bytes")
	ErrSegConst     = errors.New("segwit: wrong checksum constant for the witness version")
)

// SegwitConst is the constant a witness version must be encoded with.
func SegwitConst(version byte) uint32 {
	if version == 0 {
		return Bech32Const
	}
	return Bech32mConst
}

// SegwitProgramLegal reports the BIP141/BIP173 rules on (version, length).
func SegwitProgramLegal(version byte, n int) bool {
	if version > 16 || n < 2 || n > 40 {
		return false
	}
	if version == 0 && n != 20 && n != 32 {
		return false
	}
	return true
}

// SegwitEncodeUnchecked encodes any (hrp, version value, program) with any
// constant; the result is a valid address only when the inputs are legal.
func SegwitEncodeUnchecked(hrp string, version byte, prog []byte, constant uint32) string {
	d, _ := ConvertBits(prog, 8, 5, true)
	return Bech32EncodeRaw(hrp, append([]byte{version}, d...), constant)
}

// SegwitEncode is the BIP350 encoder; it fails for illegal input and for a
// result longer than 90 characters.
func SegwitEncode(hrp string, version byte, prog []byte) (string, error) {
	if !SegwitProgramLegal(version, len(prog)) {
		return "", ErrSegLen
	}
	s := SegwitEncodeUnchecked(hrp, version, prog, SegwitConst(version))
	if _, _, _, err := SegwitDecode(s); err != nil {
		return "", err
	}
	return s, nil
}

// SegwitDecode is decode() of BIP350 without the comparison against an
// expected HRP (the caller matches the returned lower-case HRP against the
// networks it knows).
func SegwitDecode(s string) (hrp string, version byte, prog []byte, err error) {
	hrp, data, constant, err := Bech32Decode(s, true)
	if err != nil {
		return "", 0, nil, err
	}
	if len(data) < 1 {
		return "", 0, nil, ErrSegNoVersion
	}
	if data[0] > 16 {
		return "", 0, nil, ErrSegVersion
	}
	prog, ok := ConvertBits(data[1:], 5, 8, false)
	if !ok {
		return "", 0, nil, ErrSegPadding
	}
	if len(prog) < 2 || len(prog) > 40 {
		return "", 0, nil, ErrSegLen
	}
	if data[0] == 0 && len(prog) != 20 && len(prog) != 32 {
		return "", 0, nil, ErrSegV0Len
	}
	if constant != SegwitConst(data[0]) {
		return "", 0, nil, ErrSegConst
	}
	return hrp, data[0], prog, nil
}

// ---------------------------------------------------------------------------
// WIF (Bitcoin wiki "Wallet import format")

// WIFEncode is Base58Check(netID, key32 [|| 0x01]).
func WIFEncode(netID byte, key32 []byte, compressed bool) string {
	p := append([]byte{}, key32...)
	if compressed {
		p = append(p, 0x01)
	}
	return Base58CheckEncode(netID, p)
}

// WIFDecode accepts exactly 1+32(+1) bytes under a valid checksum, the
// optional suffix being 0x01, and a key in [1, n-1].
func WIFDecode(s string) (netID byte, key32 []byte, compressed bool, err error) {
	d, err := Base58CheckDecodeRaw(s)
	if err != nil {
		return 0, nil, false, err
	}
	switch {
	case len(d) == 33:
	case len(d) == 34 && d[33] == 0x01:
		compressed = true
	default:
		return 0, nil, false, errors.New("wif: wrong length or compression marker")
	}
	k := new(big.Int).SetBytes(d[1:33])
	if k.Sign() == 0 || k.Cmp(curveN) >= 0 {
		return 0, nil, false, errors.New("wif: key outside [1, n-1]")
	}
	return d[0], d[1:33], compressed, nil
}
