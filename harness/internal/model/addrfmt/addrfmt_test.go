package addrfmt

import (
	"math/big"
	"testing"

	"verif/internal/model/secp"
)

func TestSelfCheck(t *testing.T) {
	if err := SelfCheck(); err != nil {
		t.Fatalf("VERIF-INFRA: %v", err)
	}
}

func BenchmarkBaseMul(b *testing.B) {
	k := curveN
	for i := 0; i < b.N; i++ {
		BaseMul(k)
	}
}

func BenchmarkBaseMulReal(b *testing.B) {
	k, _ := new(big.Int).SetString("0c28fca386c7a227600b2fe50b7cae11ec86d3bf1fbe471be89827e19d72aa1d", 16)
	BaseMul(k)
	b.ResetTimer()
	for i := 0; i < b.N; i++ {
		BaseMul(k)
	}
}

func TestBaseMulRandom(t *testing.T) {
	// deterministic pseudo-random scalars (hash chain), compared with the plain model
	k := new(big.Int).SetInt64(7)
	for i := 0; i < 40; i++ {
		k.SetBytes(DSHA256(k.Bytes()))
		if !secp.Equal(BaseMul(k), secp.BaseMul(k)) {
			t.Fatalf("VERIF-INFRA: BaseMul(%x)", k)
		}
	}
}
