package addrfmt

import (
	"bytes"
	"encoding/hex"
	"encoding/json"
	"fmt"
	"math/big"
	"os"
	"path/filepath"
	"strings"

	"verif/internal/model/secp"
)

// CorpusDir returns $VERIF_CORPUS/c16 (default /verif/corpus/c16).
func CorpusDir() string {
	base := os.Getenv("VERIF_CORPUS")
	if base == "" {
		base = "/verif/corpus"
	}
	return filepath.Join(base, "c16")
}

// BIP32Vector is one line of the BIP32 test vectors.
type BIP32Vector struct {
	Name string   `json:"name"`
	Seed string   `json:"seed"`
	Net  string   `json:"net"`
	Path []uint32 `json:"path"`
	XPub string   `json:"xpub"`
	XPrv string   `json:"xprv"`
}

// LoadBIP32Vectors reads the copied vectors.
func LoadBIP32Vectors() ([]BIP32Vector, error) {
	raw, err := os.ReadFile(filepath.Join(CorpusDir(), "bip32_vectors.json"))
	if err != nil {
		return nil, err
	}
	var f struct {
		Vectors []BIP32Vector `json:"vectors"`
	}
	if err := json.Unmarshal(raw, &f); err != nil {
		return nil, err
	}
	if len(f.Vectors) < 14 {
		return nil, fmt.Errorf("only %d BIP32 vectors", len(f.Vectors))
	}
	return f.Vectors, nil
}

type formatVectors struct {
	SegwitValid []struct {
		Addr string `json:"addr"`
		SPK  string `json:"spk"`
	} `json:"segwit_valid"`
	SegwitInvalid []string `json:"segwit_invalid"`
	Bech32Valid   []struct {
		S     string `json:"s"`
		Const uint32 `json:"const"`
	} `json:"bech32_valid"`
	Base58Check []struct {
		Version byte   `json:"version"`
		Payload string `json:"payload"`
		S       string `json:"s"`
	} `json:"base58check"`
	WIF []struct {
		Key        string `json:"key"`
		Net        byte   `json:"net"`
		Compressed bool   `json:"compressed"`
		S          string `json:"s"`
	} `json:"wif"`
	BIP341 []struct {
		Internal    string `json:"internal"`
		LeafVersion byte   `json:"leaf_version"`
		Script      string `json:"script"`
		Root        string `json:"root"`
		Tweak       string `json:"tweak"`
		Output      string `json:"output"`
		Addr        string `json:"addr"`
		Control     string `json:"control"`
	} `json:"bip341"`
}

func mustHex(s string) []byte {
	b, err := hex.DecodeString(s)
	if err != nil {
		panic(err)
	}
	return b
}

// SelfCheck calibrates every part of the model against specification
// vectors. A non-nil error is a harness defect (VERIF-INFRA), never a
// violation.
func SelfCheck() error {
	if !secp.SelfCheck() {
		return fmt.Errorf("secp model self check failed")
	}
	// table-driven k*G against the plain double-and-add of the secp model
	for _, ks := range []string{"1", "2", "255", "256", "65537",
		"fffffffffffffffffffffffffffffffebaaedce6af48a03bbfd25e8cd0364140",
		"7fffffffffffffffffffffffffffffff5d576e7357a4501ddfe92f46681b20a0",
		"0c28fca386c7a227600b2fe50b7cae11ec86d3bf1fbe471be89827e19d72aa1d"} {
		k, _ := new(big.Int).SetString(ks, 16)
		if !secp.Equal(BaseMul(k), secp.BaseMul(k)) {
			return fmt.Errorf("BaseMul(%s) disagrees with secp.BaseMul", ks)
		}
	}
	raw, err := os.ReadFile(filepath.Join(CorpusDir(), "format_vectors.json"))
	if err != nil {
		return err
	}
	var fv formatVectors
	if err := json.Unmarshal(raw, &fv); err != nil {
		return err
	}
	if len(fv.SegwitValid) < 8 || len(fv.SegwitInvalid) < 14 || len(fv.Bech32Valid) < 8 || len(fv.BIP341) < 2 || len(fv.WIF) < 2 {
		return fmt.Errorf("format_vectors.json is incomplete")
	}
	for _, v := range fv.SegwitValid {
		hrp, ver, prog, err := SegwitDecode(v.Addr)
		if err != nil {
			return fmt.Errorf("valid segwit vector %q rejected: %v", v.Addr, err)
		}
		if hrp != "bc" && hrp != "tb" {
			return fmt.Errorf("vector %q hrp %q", v.Addr, hrp)
		}
		if !bytes.Equal(ScriptWitness(ver, prog), mustHex(v.SPK)) {
			return fmt.Errorf("vector %q decodes to script %x, want %s", v.Addr, ScriptWitness(ver, prog), v.SPK)
		}
		re, err := SegwitEncode(hrp, ver, prog)
		if err != nil || re != strings.ToLower(v.Addr) {
			return fmt.Errorf("vector %q re-encodes to %q (%v)", v.Addr, re, err)
		}
	}
	for _, s := range fv.SegwitInvalid {
		if hrp, _, _, err := SegwitDecode(s); err == nil && (hrp == "bc" || hrp == "tb") {
			return fmt.Errorf("invalid segwit vector %q accepted", s)
		}
	}
	for _, v := range fv.Bech32Valid {
		hrp, data, c, err := Bech32Decode(v.S, true)
		if err != nil || c != v.Const {
			return fmt.Errorf("bech32 vector %q: const %#x err %v", v.S, c, err)
		}
		if Bech32EncodeRaw(hrp, data, c) != strings.ToLower(v.S) {
			return fmt.Errorf("bech32 vector %q does not re-encode", v.S)
		}
	}
	for _, v := range fv.Base58Check {
		if got := Base58CheckEncode(v.Version, mustHex(v.Payload)); got != v.S {
			return fmt.Errorf("base58check vector: got %q want %q", got, v.S)
		}
		d, err := Base58CheckDecodeRaw(v.S)
		if err != nil || d[0] != v.Version || !bytes.Equal(d[1:], mustHex(v.Payload)) {
			return fmt.Errorf("base58check vector %q does not decode", v.S)
		}
	}
	for _, v := range fv.WIF {
		if got := WIFEncode(v.Net, mustHex(v.Key), v.Compressed); got != v.S {
			return fmt.Errorf("WIF vector: got %q want %q", got, v.S)
		}
		n, k, c, err := WIFDecode(v.S)
		if err != nil || n != v.Net || c != v.Compressed || !bytes.Equal(k, mustHex(v.Key)) {
			return fmt.Errorf("WIF vector %q does not decode (%v)", v.S, err)
		}
	}
	for _, v := range fv.BIP341 {
		root := mustHex(v.Root)
		if v.Script != "" {
			lh := TapLeafHash(v.LeafVersion, mustHex(v.Script))
			if !bytes.Equal(lh[:], root) {
				return fmt.Errorf("bip341 vector: leaf hash %x want %s", lh, v.Root)
			}
		}
		t, ok := TapTweak(mustHex(v.Internal), root)
		if !ok || !bytes.Equal(secp.Bytes32(t), mustHex(v.Tweak)) {
			return fmt.Errorf("bip341 vector: tweak %x want %s", secp.Bytes32(t), v.Tweak)
		}
		q, parity, ok := OutputKey(mustHex(v.Internal), root)
		if !ok || !bytes.Equal(q, mustHex(v.Output)) {
			return fmt.Errorf("bip341 vector: output key %x want %s", q, v.Output)
		}
		a, err := SegwitEncode("bc", 1, q)
		if err != nil || a != v.Addr {
			return fmt.Errorf("bip341 vector: address %q want %q", a, v.Addr)
		}
		if v.Control != "" {
			cb := ControlBlock(v.LeafVersion, parity, mustHex(v.Internal), nil)
			if !bytes.Equal(cb, mustHex(v.Control)) {
				return fmt.Errorf("bip341 vector: control block %x want %s", cb, v.Control)
			}
			if !VerifyScriptPath(q, cb, mustHex(v.Script)) {
				return fmt.Errorf("bip341 vector: script path does not verify")
			}
		}
	}
	// BIP32 vectors 1-3
	vecs, err := LoadBIP32Vectors()
	if err != nil {
		return err
	}
	for _, v := range vecs {
		n := MainNet
		if v.Net != "mainnet" {
			n = TestNet3
		}
		k, err := Master(mustHex(v.Seed), n.HDPriv)
		if err != nil {
			return fmt.Errorf("bip32 %s: %v", v.Name, err)
		}
		for _, i := range v.Path {
			if k, err = k.CKDpriv(i); err != nil {
				return fmt.Errorf("bip32 %s: %v", v.Name, err)
			}
		}
		if k.String() != v.XPrv || k.Neuter(n.HDPub).String() != v.XPub {
			return fmt.Errorf("bip32 %s: model derives\n %s\n %s\nwant\n %s\n %s", v.Name, k.String(), k.Neuter(n.HDPub).String(), v.XPrv, v.XPub)
		}
		// public derivation of the last step, where it is not hardened
		if len(v.Path) > 0 && v.Path[len(v.Path)-1] < HardenedStart {
			p, _ := Master(mustHex(v.Seed), n.HDPriv)
			for _, i := range v.Path[:len(v.Path)-1] {
				p, _ = p.CKDpriv(i)
			}
			c, err := p.Neuter(n.HDPub).CKDpub(v.Path[len(v.Path)-1])
			if err != nil || c.String() != v.XPub {
				return fmt.Errorf("bip32 %s: CKDpub gives %v %v", v.Name, c, err)
			}
		}
		for _, s := range []string{v.XPrv, v.XPub} {
			pk, err := ParseXKey(s)
			if err != nil || pk.String() != s {
				return fmt.Errorf("bip32 %s: parse/serialise of %s failed: %v", v.Name, s, err)
			}
		}
	}
	return nil
}
