package addrfmt

import (
	"bytes"
	"math/big"

	"verif/internal/model/secp"
)

// CompactSize is Bitcoin's variable-length integer.
func CompactSize(n uint64) []byte {
	switch {
	case n < 253:
		return []byte{byte(n)}
	case n <= 0xffff:
		return []byte{253, byte(n), byte(n >> 8)}
	case n <= 0xffffffff:
		return []byte{254, byte(n), byte(n >> 8), byte(n >> 16), byte(n >> 24)}
	}
	b := []byte{255}
	for i := 0; i < 8; i++ {
		b = append(b, byte(n>>(8*uint(i))))
	}
	return b
}

// TapLeafHash is hash_TapLeaf(v || compact_size(len(script)) || script).
func TapLeafHash(leafVersion byte, script []byte) [32]byte {
	var out [32]byte
	copy(out[:], secp.TaggedHash("TapLeaf", []byte{leafVersion}, CompactSize(uint64(len(script))), script))
	return out
}

// TapBranchHash is hash_TapBranch over the two children in lexicographic order.
func TapBranchHash(a, b [32]byte) [32]byte {
	if bytes.Compare(a[:], b[:]) > 0 {
		a, b = b, a
	}
	var out [32]byte
	copy(out[:], secp.TaggedHash("TapBranch", a[:], b[:]))
	return out
}

// TapLeaf is a (version, script) pair.
type TapLeaf struct {
	Version byte
	Script  []byte
}

// TapTree is a binary script tree: a leaf (Leaf != nil) or a branch.
type TapTree struct {
	Leaf *TapLeaf
	L, R *TapTree
}

// Hash is the node's merkle hash.
func (t *TapTree) Hash() [32]byte {
	if t.Leaf != nil {
		return TapLeafHash(t.Leaf.Version, t.Leaf.Script)
	}
	return TapBranchHash(t.L.Hash(), t.R.Hash())
}

// LeafPath is a leaf together with its merkle path (sibling hashes from the
// leaf's sibling up to the root's children).
type LeafPath struct {
	Leaf TapLeaf
	Path [][32]byte
}

// Paths lists every leaf (left-to-right) with its merkle path.
func (t *TapTree) Paths() []LeafPath {
	if t.Leaf != nil {
		return []LeafPath{{Leaf: *t.Leaf}}
	}
	lh, rh := t.L.Hash(), t.R.Hash()
	var out []LeafPath
	for _, p := range t.L.Paths() {
		p.Path = append(append([][32]byte{}, p.Path...), rh)
		out = append(out, p)
	}
	for _, p := range t.R.Paths() {
		p.Path = append(append([][32]byte{}, p.Path...), lh)
		out = append(out, p)
	}
	return out
}

// NumLeaves counts leaves.
func (t *TapTree) NumLeaves() int {
	if t.Leaf != nil {
		return 1
	}
	return t.L.NumLeaves() + t.R.NumLeaves()
}

// TapTweak is int(hash_TapTweak(x(P) || root)); ok=false when it is >= n.
func TapTweak(internalX []byte, root []byte) (*big.Int, bool) {
	t := new(big.Int).SetBytes(secp.TaggedHash("TapTweak", internalX, root))
	return t, t.Cmp(curveN) < 0
}

// OutputKey is taproot_tweak_pubkey: Q = lift_x(x) + t*G; it returns x(Q) and
// the parity of y(Q). root may be empty (key-path-only output).
func OutputKey(internalX []byte, root []byte) (q32 []byte, parity byte, ok bool) {
	t, ok := TapTweak(internalX, root)
	if !ok {
		return nil, 0, false
	}
	P, ok := secp.LiftX(new(big.Int).SetBytes(internalX))
	if !ok {
		return nil, 0, false
	}
	Q := secp.Add(P, BaseMul(t))
	if Q.Inf {
		return nil, 0, false
	}
	return secp.Bytes32(Q.X), byte(Q.Y.Bit(0)), true
}

// TweakPrivKey is taproot_tweak_seckey.
func TweakPrivKey(d *big.Int, root []byte) (*big.Int, bool) {
	P := BaseMul(d)
	dd := new(big.Int).Set(d)
	if P.Y.Bit(0) == 1 {
		dd.Sub(curveN, d)
	}
	t, ok := TapTweak(secp.Bytes32(P.X), root)
	if !ok {
		return nil, false
	}
	dd.Add(dd, t)
	dd.Mod(dd, curveN)
	return dd, true
}

// ControlBlock serialises (leaf version | parity) || internal key || path.
func ControlBlock(leafVersion, parity byte, internalX []byte, path [][32]byte) []byte {
	b := []byte{leafVersion&0xfe | parity&1}
	b = append(b, internalX...)
	for _, p := range path {
		b = append(b, p[:]...)
	}
	return b
}

// VerifyScriptPath is the BIP341 script-path commitment rule for output key
// q32, control block c and leaf script.
func VerifyScriptPath(q32, c, script []byte) bool {
	if len(c) < 33 || len(c) > 33+32*128 || (len(c)-33)%32 != 0 {
		return false
	}
	k := TapLeafHash(c[0]&0xfe, script)
	for off := 33; off < len(c); off += 32 {
		var e [32]byte
		copy(e[:], c[off:off+32])
		k = TapBranchHash(k, e)
	}
	got, parity, ok := OutputKey(c[1:33], k[:])
	if !ok {
		return false
	}
	return bytes.Equal(got, q32) && parity == c[0]&1
}
