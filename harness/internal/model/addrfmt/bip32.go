package addrfmt

import (
	"crypto/hmac"
	"crypto/sha512"
	"encoding/binary"
	"errors"
	"math/big"
	"sync"

	"verif/internal/model/secp"
)

var curveN = secp.N

// ---------------------------------------------------------------------------
// k*G with a byte-window table built from the secp model's affine Add (the
// model's generic double-and-add costs ~380 modular inversions per
// multiplication; BIP32 paths need many of them).

var (
	tblOnce sync.Once
	tbl     [32][256]secp.Point // tbl[j][w] = w * 256^j * G
)

func buildTable() {
	base := secp.G()
	for j := 0; j < 32; j++ {
		tbl[j][0] = secp.Infinity()
		acc := secp.Infinity()
		for w := 1; w < 256; w++ {
			acc = secp.Add(acc, base)
			tbl[j][w] = acc
		}
		base = secp.Add(acc, base) // 256 * base
	}
}

// BaseMul returns k*G (k reduced mod n). The (at most 32) table points are
// summed in Jacobian coordinates with mixed additions and converted back with
// one inversion; the exceptional cases of the addition formula (equal or
// opposite operands) fall back to the plain affine sum. Every result is
// checked to lie on the curve.
func BaseMul(k *big.Int) secp.Point {
	tblOnce.Do(buildTable)
	kb := secp.Bytes32(new(big.Int).Mod(k, curveN))
	var pts []secp.Point
	for j := 0; j < 32; j++ {
		if w := kb[31-j]; w != 0 {
			pts = append(pts, tbl[j][w])
		}
	}
	if len(pts) == 0 {
		return secp.Infinity()
	}
	if r, ok := jacobianSum(pts); ok {
		if !secp.OnCurve(r.X, r.Y) {
			panic("VERIF-INFRA: addrfmt.BaseMul produced a point off the curve")
		}
		return r
	}
	r := secp.Infinity()
	for _, p := range pts {
		r = secp.Add(r, p)
	}
	return r
}

func jacobianSum(pts []secp.Point) (secp.Point, bool) {
	p := secp.P
	mul := func(a, b *big.Int) *big.Int { r := new(big.Int).Mul(a, b); return r.Mod(r, p) }
	sub := func(a, b *big.Int) *big.Int { r := new(big.Int).Sub(a, b); return r.Mod(r, p) }
	X, Y, Z := new(big.Int).Set(pts[0].X), new(big.Int).Set(pts[0].Y), big.NewInt(1)
	for _, q := range pts[1:] {
		zz := mul(Z, Z)
		u2 := mul(q.X, zz)
		s2 := mul(q.Y, mul(Z, zz))
		h := sub(u2, X)
		if h.Sign() == 0 {
			return secp.Point{}, false // doubling or cancellation: let the affine code decide
		}
		r := sub(s2, Y)
		hh := mul(h, h)
		hhh := mul(h, hh)
		v := mul(X, hh)
		x3 := sub(sub(mul(r, r), hhh), new(big.Int).Lsh(v, 1))
		y3 := sub(mul(r, sub(v, x3)), mul(Y, hhh))
		X, Y, Z = x3, y3, mul(Z, h)
	}
	zi := new(big.Int).ModInverse(Z, p)
	if zi == nil {
		return secp.Point{}, false
	}
	zi2 := mul(zi, zi)
	return secp.Point{X: mul(X, zi2), Y: mul(Y, mul(zi, zi2))}, true
}

// ---------------------------------------------------------------------------
// BIP32

// HardenedStart is 2^31.
const HardenedStart = uint32(0x80000000)

// XKey is an extended key. Priv is nil for an extended public key.
type XKey struct {
	Version   [4]byte
	Depth     byte
	ParentFP  [4]byte
	ChildNum  uint32
	ChainCode [32]byte
	Priv      *big.Int
	Pub       secp.Point
}

// Errors.
var (
	ErrSeedLen        = errors.New("bip32: seed must be 128..512 bits")
	ErrInvalidKey     = errors.New("bip32: derived key invalid (IL >= n or result 0 / infinity)")
	ErrHardenedPublic = errors.New("bip32: hardened child of a public key")
	ErrDepth          = errors.New("bip32: depth would exceed 255")
	ErrXKeyFormat     = errors.New("bip32: malformed serialization")
)

func hmac512(key, data []byte) (il, ir []byte) {
	m := hmac.New(sha512.New, key)
	m.Write(data)
	i := m.Sum(nil)
	return i[:32], i[32:]
}

// Master is "Master key generation" of BIP32.
func Master(seed []byte, privVersion [4]byte) (*XKey, error) {
	if len(seed) < 16 || len(seed) > 64 {
		return nil, ErrSeedLen
	}
	il, ir := hmac512([]byte("Bitcoin seed"), seed)
	k := new(big.Int).SetBytes(il)
	if k.Sign() == 0 || k.Cmp(curveN) >= 0 {
		return nil, ErrInvalidKey
	}
	x := &XKey{Version: privVersion, Priv: k, Pub: BaseMul(k)}
	copy(x.ChainCode[:], ir)
	return x, nil
}

// SerP is the compressed SEC1 encoding of the key's public point.
func (k *XKey) SerP() []byte { return secp.SerializeCompressed(k.Pub) }

// Fingerprint is the first 32 bits of HASH160(serP(K)).
func (k *XKey) Fingerprint() (fp [4]byte) {
	copy(fp[:], Hash160(k.SerP())[:4])
	return
}

func ser32(i uint32) []byte {
	var b [4]byte
	binary.BigEndian.PutUint32(b[:], i)
	return b[:]
}

// CKDpriv derives private child i from a private parent.
func (k *XKey) CKDpriv(i uint32) (*XKey, error) {
	if k.Priv == nil {
		return nil, errors.New("bip32: CKDpriv on a public key")
	}
	if k.Depth == 255 {
		return nil, ErrDepth
	}
	var data []byte
	if i >= HardenedStart {
		data = append([]byte{0x00}, secp.Bytes32(k.Priv)...)
	} else {
		data = k.SerP()
	}
	data = append(data, ser32(i)...)
	il, ir := hmac512(k.ChainCode[:], data)
	ilN := new(big.Int).SetBytes(il)
	if ilN.Cmp(curveN) >= 0 {
		return nil, ErrInvalidKey
	}
	ki := new(big.Int).Add(ilN, k.Priv)
	ki.Mod(ki, curveN)
	if ki.Sign() == 0 {
		return nil, ErrInvalidKey
	}
	c := &XKey{Version: k.Version, Depth: k.Depth + 1, ParentFP: k.Fingerprint(), ChildNum: i, Priv: ki, Pub: BaseMul(ki)}
	copy(c.ChainCode[:], ir)
	return c, nil
}

// CKDpub derives public child i from a public (or neutered) parent.
func (k *XKey) CKDpub(i uint32) (*XKey, error) {
	if i >= HardenedStart {
		return nil, ErrHardenedPublic
	}
	if k.Depth == 255 {
		return nil, ErrDepth
	}
	data := append(k.SerP(), ser32(i)...)
	il, ir := hmac512(k.ChainCode[:], data)
	ilN := new(big.Int).SetBytes(il)
	if ilN.Cmp(curveN) >= 0 {
		return nil, ErrInvalidKey
	}
	ki := secp.Add(BaseMul(ilN), k.Pub)
	if ki.Inf {
		return nil, ErrInvalidKey
	}
	c := &XKey{Version: k.Version, Depth: k.Depth + 1, ParentFP: k.Fingerprint(), ChildNum: i, Pub: ki}
	copy(c.ChainCode[:], ir)
	return c, nil
}

// Neuter is N((k, c)) = (K, c) with the public version bytes.
func (k *XKey) Neuter(pubVersion [4]byte) *XKey {
	c := *k
	c.Priv = nil
	c.Version = pubVersion
	return &c
}

// Bytes is the 78-byte serialization.
func (k *XKey) Bytes() []byte {
	b := make([]byte, 0, 78)
	b = append(b, k.Version[:]...)
	b = append(b, k.Depth)
	b = append(b, k.ParentFP[:]...)
	b = append(b, ser32(k.ChildNum)...)
	b = append(b, k.ChainCode[:]...)
	if k.Priv != nil {
		b = append(b, 0x00)
		b = append(b, secp.Bytes32(k.Priv)...)
	} else {
		b = append(b, k.SerP()...)
	}
	return b
}

// String is the Base58Check form of Bytes.
func (k *XKey) String() string { return Base58CheckEncodeRaw(k.Bytes()) }

// ParseXKeyBytes decodes a 78-byte serialization. The key material must be
// 0x00 || k with k in [1, n-1], or a compressed point on the curve.
func ParseXKeyBytes(d []byte) (*XKey, error) {
	if len(d) != 78 {
		return nil, ErrXKeyFormat
	}
	k := &XKey{Depth: d[4], ChildNum: binary.BigEndian.Uint32(d[9:13])}
	copy(k.Version[:], d[0:4])
	copy(k.ParentFP[:], d[5:9])
	copy(k.ChainCode[:], d[13:45])
	kd := d[45:78]
	if kd[0] == 0x00 {
		p := new(big.Int).SetBytes(kd[1:])
		if p.Sign() == 0 || p.Cmp(curveN) >= 0 {
			return nil, ErrInvalidKey
		}
		k.Priv = p
		k.Pub = BaseMul(p)
		return k, nil
	}
	pt, _, ok := secp.ParsePubKey(kd)
	if !ok {
		return nil, ErrInvalidKey
	}
	k.Pub = pt
	return k, nil
}

// ParseXKey decodes the Base58Check string form.
func ParseXKey(s string) (*XKey, error) {
	d, err := Base58CheckDecodeRaw(s)
	if err != nil {
		return nil, err
	}
	return ParseXKeyBytes(d)
}
