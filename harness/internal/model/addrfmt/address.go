package addrfmt

import (
	"encoding/hex"
	"errors"

	"verif/internal/model/secp"
)

// Net is the address-relevant part of a network definition.
type Net struct {
	Name   string
	P2PKH  byte    // base58 version of pay-to-pubkey-hash addresses
	P2SH   byte    // base58 version of pay-to-script-hash addresses
	WIF    byte    // base58 version of private keys
	HRP    string  // bech32 human-readable part (lower case)
	HDPriv [4]byte // BIP32 version of extended private keys
	HDPub  [4]byte // BIP32 version of extended public keys
}

// Well-known networks. Values are those of Bitcoin Core's chainparams.cpp
// (base58Prefixes, bech32_hrp) for main/test/signet/regtest and of the btcd
// documentation for its private "simnet".
var (
	MainNet  = Net{"mainnet", 0x00, 0x05, 0x80, "bc", [4]byte{0x04, 0x88, 0xad, 0xe4}, [4]byte{0x04, 0x88, 0xb2, 0x1e}}
	TestNet3 = Net{"testnet3", 0x6f, 0xc4, 0xef, "tb", [4]byte{0x04, 0x35, 0x83, 0x94}, [4]byte{0x04, 0x35, 0x87, 0xcf}}
	TestNet4 = Net{"testnet4", 0x6f, 0xc4, 0xef, "tb", [4]byte{0x04, 0x35, 0x83, 0x94}, [4]byte{0x04, 0x35, 0x87, 0xcf}}
	SigNet   = Net{"signet", 0x6f, 0xc4, 0xef, "tb", [4]byte{0x04, 0x35, 0x83, 0x94}, [4]byte{0x04, 0x35, 0x87, 0xcf}}
	RegTest  = Net{"regtest", 0x6f, 0xc4, 0xef, "bcrt", [4]byte{0x04, 0x35, 0x83, 0x94}, [4]byte{0x04, 0x35, 0x87, 0xcf}}
	SimNet   = Net{"simnet", 0x3f, 0x7b, 0x64, "sb", [4]byte{0x04, 0x20, 0xb9, 0x00}, [4]byte{0x04, 0x20, 0xbd, 0x3a}}
)

// Kind enumerates the address kinds.
type Kind int

const (
	KindNone Kind = iota
	KindP2PKH
	KindP2SH
	KindPubKey
	KindSegwit
)

func (k Kind) String() string {
	return [...]string{"none", "p2pkh", "p2sh", "pubkey", "segwit"}[k]
}

// Decoded is the meaning of an address string.
type Decoded struct {
	Kind    Kind
	Payload []byte // hash160, witness program, or the SEC1 public key as given
	Version byte   // base58 version byte or witness version
	HRP     string // segwit only
	Point   secp.Point
	PubFmt  byte // pubkey only: first byte of the encoding
}

// Errors of DecodeAddress.
var (
	ErrAddrCollision = errors.New("address: version byte is both P2PKH and P2SH for the network")
	ErrAddrForeign   = errors.New("address: version byte / HRP of no accepted network")
	ErrAddrFormat    = errors.New("address: not a valid encoding")
)

// DecodeAddress is the reference meaning of an address string in the context
// of a default network and the set of HRPs of all known networks:
//
//  1. a valid BIP350 segwit address whose HRP belongs to a known network is a
//     segwit destination of that network;
//  2. the hex encoding of a valid SEC1 public key (33 or 65 bytes) is a
//     pay-to-pubkey destination on the default network;
//  3. a Base58Check string of 1+20 bytes whose version byte is the default
//     network's P2PKH (or P2SH) version is that kind of address (ambiguous when
//     the network uses the same byte for both);
//  4. anything else is not an address.
func DecodeAddress(s string, def Net, knownHRPs map[string]bool) (Decoded, error) {
	if hrp, ver, prog, err := SegwitDecode(s); err == nil {
		if knownHRPs[hrp] {
			return Decoded{Kind: KindSegwit, Payload: prog, Version: ver, HRP: hrp}, nil
		}
		// a segwit address of an unknown network is not an address here;
		// the other forms are still tried (the forms are disjoint in
		// practice: a string would have to satisfy two checksums).
	}
	if len(s) == 66 || len(s) == 130 {
		if raw, err := hex.DecodeString(s); err == nil {
			if pt, f, ok := secp.ParsePubKey(raw); ok {
				return Decoded{Kind: KindPubKey, Payload: raw, Version: def.P2PKH, Point: pt, PubFmt: f}, nil
			}
			return Decoded{}, ErrAddrFormat
		}
	}
	d, err := Base58CheckDecodeRaw(s)
	if err != nil {
		return Decoded{}, err
	}
	if len(d) != 21 {
		return Decoded{}, ErrAddrFormat
	}
	isPKH, isSH := d[0] == def.P2PKH, d[0] == def.P2SH
	switch {
	case isPKH && isSH:
		return Decoded{}, ErrAddrCollision
	case isPKH:
		return Decoded{Kind: KindP2PKH, Payload: d[1:], Version: d[0]}, nil
	case isSH:
		return Decoded{Kind: KindP2SH, Payload: d[1:], Version: d[0]}, nil
	}
	return Decoded{}, ErrAddrForeign
}

// ---------------------------------------------------------------------------
// output script templates

// Opcodes used by the templates.
const (
	opDup         = 0x76
	opHash160     = 0xa9
	opEqual       = 0x87
	opEqualVerify = 0x88
	opCheckSig    = 0xac
)

// ScriptP2PKH is OP_DUP OP_HASH160 <20> OP_EQUALVERIFY OP_CHECKSIG.
func ScriptP2PKH(h20 []byte) []byte {
	s := []byte{opDup, opHash160, 20}
	s = append(s, h20...)
	return append(s, opEqualVerify, opCheckSig)
}

// ScriptP2SH is OP_HASH160 <20> OP_EQUAL (BIP16).
func ScriptP2SH(h20 []byte) []byte {
	s := []byte{opHash160, 20}
	s = append(s, h20...)
	return append(s, opEqual)
}

// ScriptP2PK is <pubkey> OP_CHECKSIG.
func ScriptP2PK(pub []byte) []byte {
	s := []byte{byte(len(pub))}
	s = append(s, pub...)
	return append(s, opCheckSig)
}

// ScriptWitness is the BIP141 witness program: OP_n <program>, OP_0 = 0x00,
// OP_1..OP_16 = 0x51..0x60, program pushed with a direct push (2..40 bytes).
func ScriptWitness(version byte, prog []byte) []byte {
	op := byte(0)
	if version > 0 {
		op = 0x50 + version
	}
	s := []byte{op, byte(len(prog))}
	return append(s, prog...)
}

// PushData is the minimal direct / PUSHDATA1 / PUSHDATA2 push of data (used
// to build signature scripts).
func PushData(d []byte) []byte {
	switch {
	case len(d) <= 75:
		return append([]byte{byte(len(d))}, d...)
	case len(d) <= 255:
		return append([]byte{0x4c, byte(len(d))}, d...)
	default:
		return append([]byte{0x4d, byte(len(d)), byte(len(d) >> 8)}, d...)
	}
}
