package secp

import (
	"encoding/hex"
	"math/big"
	"testing"
)

func TestSelf(t *testing.T) {
	if !SelfCheck() {
		t.Fatal("selfcheck")
	}
	// BIP340 test vector 0: sk=3, aux=0, msg=0
	sk := Bytes32(big.NewInt(3))
	sig, ok := SignSchnorr(sk, make([]byte, 32), make([]byte, 32))
	if !ok {
		t.Fatal("sign")
	}
	want := "E907831F80848D1069A5371B402410364BDF1C5F8307B0084C55F1CE2DCA821525F66A4A85EA8B71E482A74F382D2CE5EBEEE8FDB2172F477DF4900D310536C0"
	if got := hex.EncodeToString(sig); got != hexLower(want) {
		t.Fatalf("BIP340 vector 0: got %s", got)
	}
	pk, _ := hex.DecodeString("F9308A019258C31049344F85F89D5229B531C845836F99B08601F113BCE036F9")
	if !VerifySchnorr(pk, make([]byte, 32), sig) {
		t.Fatal("verify")
	}
	// ECDSA sign/verify round trip
	d := big.NewInt(12345)
	r, s, ok := SignECDSA(d, pk, big.NewInt(777))
	if !ok || !VerifyECDSA(BaseMul(d), pk, r, s) {
		t.Fatal("ecdsa")
	}
}

func hexLower(s string) string {
	b, _ := hex.DecodeString(s)
	return hex.EncodeToString(b)
}
