package secp

import (
	"math/big"
	"sync"
)

// Fixed-base multiplication with a table of 2^i*G (i = 0..255): k*G is the sum
// of the table entries at the set bits of k (about 128 affine additions
// instead of 256 doublings plus 128 additions). Same affine arithmetic as
// secp.go; FastSelfCheck compares it with the plain double-and-add BaseMul.

var (
	gPowOnce sync.Once
	gPow     [256]Point
)

func initGPow() {
	p := G()
	for i := 0; i < 256; i++ {
		gPow[i] = p
		p = Double(p)
	}
}

// BaseMulFast returns k*G (k reduced mod n first); it equals BaseMul(k).
func BaseMulFast(k *big.Int) Point {
	gPowOnce.Do(initGPow)
	kk := new(big.Int).Mod(k, N)
	r := Infinity()
	for i := 0; i < kk.BitLen(); i++ {
		if kk.Bit(i) == 1 {
			r = Add(r, gPow[i])
		}
	}
	return r
}

// FastSelfCheck compares BaseMulFast with BaseMul on boundary and mixed
// scalars.
func FastSelfCheck() bool {
	ks := []*big.Int{big.NewInt(0), big.NewInt(1), big.NewInt(2), big.NewInt(3), big.NewInt(0xffff),
		new(big.Int).Sub(N, big.NewInt(1)), new(big.Int).Sub(N, big.NewInt(2)), new(big.Int).Set(N), new(big.Int).Add(N, big.NewInt(5)),
		new(big.Int).Set(HalfN), new(big.Int).Set(P), new(big.Int).Lsh(big.NewInt(1), 255),
		new(big.Int).SetBytes(TaggedHash("fast", []byte{1})), new(big.Int).SetBytes(TaggedHash("fast", []byte{2}))}
	for _, k := range ks {
		if !Equal(BaseMulFast(k), BaseMul(k)) {
			return false
		}
	}
	return true
}
