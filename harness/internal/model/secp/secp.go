// Package secp is an independent, deliberately simple reference implementation
// of secp256k1 over math/big (affine coordinates, no constant-time concerns):
// point arithmetic, ECDSA verify/sign, BIP340 Schnorr sign/verify, public-key
// parsing in every SEC1 format, x-only lifting and ECDH. It shares no code
// with btcec / decred secp256k1. Written from SEC1/SEC2 and BIP340.
package secp

import (
	"crypto/sha256"
	"math/big"
)

var (
	P, _  = new(big.Int).SetString("FFFFFFFFFFFFFFFFFFFFFFFFFFFFFFFFFFFFFFFFFFFFFFFFFFFFFFFEFFFFFC2F", 16)
	N, _  = new(big.Int).SetString("FFFFFFFFFFFFFFFFFFFFFFFFFFFFFFFEBAAEDCE6AF48A03BBFD25E8CD0364141", 16)
	Gx, _ = new(big.Int).SetString("79BE667EF9DCBBAC55A06295CE870B07029BFCDB2DCE28D959F2815B16F81798", 16)
	Gy, _ = new(big.Int).SetString("483ADA7726A3C4655DA4FBFC0E1108A8FD17B448A68554199C47D08FFB10D4B8", 16)
	seven = big.NewInt(7)
	two   = big.NewInt(2)
	three = big.NewInt(3)
	// HalfN = floor(N/2): low-S bound
	HalfN = new(big.Int).Rsh(N, 1)
)

// Point is an affine point; Inf marks the point at infinity.
type Point struct {
	X, Y *big.Int
	Inf  bool
}

// Infinity returns the identity.
func Infinity() Point { return Point{Inf: true} }

// G returns the generator.
func G() Point { return Point{X: new(big.Int).Set(Gx), Y: new(big.Int).Set(Gy)} }

func mod(a *big.Int) *big.Int { return a.Mod(a, P) }

// OnCurve reports y^2 = x^3 + 7 (mod p) with 0 <= x,y < p.
func OnCurve(x, y *big.Int) bool {
	if x.Sign() < 0 || y.Sign() < 0 || x.Cmp(P) >= 0 || y.Cmp(P) >= 0 {
		return false
	}
	l := new(big.Int).Mul(y, y)
	mod(l)
	r := new(big.Int).Mul(x, x)
	r.Mul(r, x)
	r.Add(r, seven)
	mod(r)
	return l.Cmp(r) == 0
}

// Add returns a+b.
func Add(a, b Point) Point {
	if a.Inf {
		return b
	}
	if b.Inf {
		return a
	}
	if a.X.Cmp(b.X) == 0 {
		if a.Y.Cmp(b.Y) != 0 || a.Y.Sign() == 0 {
			return Infinity()
		}
		return Double(a)
	}
	// lambda = (by-ay)/(bx-ax)
	num := new(big.Int).Sub(b.Y, a.Y)
	den := new(big.Int).Sub(b.X, a.X)
	den.Mod(den, P)
	den.ModInverse(den, P)
	lam := num.Mul(num, den)
	mod(lam)
	x := new(big.Int).Mul(lam, lam)
	x.Sub(x, a.X)
	x.Sub(x, b.X)
	mod(x)
	y := new(big.Int).Sub(a.X, x)
	y.Mul(y, lam)
	y.Sub(y, a.Y)
	mod(y)
	return Point{X: x, Y: y}
}

// Double returns 2a.
func Double(a Point) Point {
	if a.Inf || a.Y.Sign() == 0 {
		return Infinity()
	}
	num := new(big.Int).Mul(a.X, a.X)
	num.Mul(num, three)
	den := new(big.Int).Mul(a.Y, two)
	den.ModInverse(den, P)
	lam := num.Mul(num, den)
	mod(lam)
	x := new(big.Int).Mul(lam, lam)
	x.Sub(x, new(big.Int).Mul(a.X, two))
	mod(x)
	y := new(big.Int).Sub(a.X, x)
	y.Mul(y, lam)
	y.Sub(y, a.Y)
	mod(y)
	return Point{X: x, Y: y}
}

// Neg returns -a.
func Neg(a Point) Point {
	if a.Inf {
		return a
	}
	y := new(big.Int).Sub(P, a.Y)
	y.Mod(y, P)
	return Point{X: new(big.Int).Set(a.X), Y: y}
}

// Mul returns k*a for any integer k >= 0 (k is reduced mod n first).
func Mul(k *big.Int, a Point) Point {
	kk := new(big.Int).Mod(k, N)
	r := Infinity()
	for i := kk.BitLen() - 1; i >= 0; i-- {
		r = Double(r)
		if kk.Bit(i) == 1 {
			r = Add(r, a)
		}
	}
	return r
}

// BaseMul returns k*G.
func BaseMul(k *big.Int) Point { return Mul(k, G()) }

// Equal compares two points.
func Equal(a, b Point) bool {
	if a.Inf || b.Inf {
		return a.Inf == b.Inf
	}
	return a.X.Cmp(b.X) == 0 && a.Y.Cmp(b.Y) == 0
}

// Sqrt returns a square root of a mod p if one exists (p = 3 mod 4).
func Sqrt(a *big.Int) (*big.Int, bool) {
	e := new(big.Int).Add(P, big.NewInt(1))
	e.Rsh(e, 2)
	r := new(big.Int).Exp(new(big.Int).Mod(a, P), e, P)
	chk := new(big.Int).Mul(r, r)
	mod(chk)
	if chk.Cmp(new(big.Int).Mod(a, P)) != 0 {
		return nil, false
	}
	return r, true
}

// LiftX returns the point with the given x and even y (BIP340 lift_x); fails
// for x >= p or x not on the curve.
func LiftX(x *big.Int) (Point, bool) {
	if x.Sign() < 0 || x.Cmp(P) >= 0 {
		return Point{}, false
	}
	c := new(big.Int).Mul(x, x)
	c.Mul(c, x)
	c.Add(c, seven)
	mod(c)
	y, ok := Sqrt(c)
	if !ok {
		return Point{}, false
	}
	if y.Bit(0) == 1 {
		y.Sub(P, y)
	}
	return Point{X: new(big.Int).Set(x), Y: y}, true
}

// ParsePubKey decodes a SEC1 public key: 33-byte compressed (02/03), 65-byte
// uncompressed (04) or 65-byte hybrid (06/07, parity must match). It returns
// the format byte. Coordinates >= p and points off the curve are rejected.
func ParsePubKey(b []byte) (Point, byte, bool) {
	switch {
	case len(b) == 33 && (b[0] == 2 || b[0] == 3):
		x := new(big.Int).SetBytes(b[1:])
		pt, ok := LiftX(x)
		if !ok {
			return Point{}, 0, false
		}
		if b[0] == 3 {
			pt = Neg(pt)
		}
		return pt, b[0], true
	case len(b) == 65 && (b[0] == 4 || b[0] == 6 || b[0] == 7):
		x := new(big.Int).SetBytes(b[1:33])
		y := new(big.Int).SetBytes(b[33:])
		if !OnCurve(x, y) {
			return Point{}, 0, false
		}
		if b[0] != 4 && uint(b[0]&1) != y.Bit(0) {
			return Point{}, 0, false
		}
		return Point{X: x, Y: y}, b[0], true
	}
	return Point{}, 0, false
}

// Bytes32 returns the 32-byte big-endian encoding.
func Bytes32(v *big.Int) []byte {
	out := make([]byte, 32)
	v.FillBytes(out)
	return out
}

// SerializeCompressed / SerializeUncompressed encode a finite point.
func SerializeCompressed(p Point) []byte {
	out := make([]byte, 33)
	out[0] = 2 + byte(p.Y.Bit(0))
	p.X.FillBytes(out[1:])
	return out
}

func SerializeUncompressed(p Point) []byte {
	out := make([]byte, 65)
	out[0] = 4
	p.X.FillBytes(out[1:33])
	p.Y.FillBytes(out[33:])
	return out
}

// VerifyECDSA decides the ECDSA equation for (r,s) on the message hash
// (interpreted as a 256-bit big-endian integer, as Bitcoin does) under Q.
// r and s must be in [1, n-1].
func VerifyECDSA(q Point, hash []byte, r, s *big.Int) bool {
	if q.Inf || r.Sign() <= 0 || s.Sign() <= 0 || r.Cmp(N) >= 0 || s.Cmp(N) >= 0 {
		return false
	}
	e := hashToInt(hash)
	w := new(big.Int).ModInverse(s, N)
	u1 := new(big.Int).Mul(e, w)
	u1.Mod(u1, N)
	u2 := new(big.Int).Mul(r, w)
	u2.Mod(u2, N)
	pt := Add(BaseMul(u1), Mul(u2, q))
	if pt.Inf {
		return false
	}
	v := new(big.Int).Mod(pt.X, N)
	return v.Cmp(r) == 0
}

func hashToInt(hash []byte) *big.Int {
	// SEC1 4.1.3: take the leftmost 256 bits.
	if len(hash) > 32 {
		hash = hash[:32]
	}
	return new(big.Int).SetBytes(hash)
}

// SignECDSA signs with the explicit nonce k (1 <= k < n); it returns ok=false
// when r or s would be zero. The result is normalised to low S.
func SignECDSA(d *big.Int, hash []byte, k *big.Int) (r, s *big.Int, ok bool) {
	R := BaseMul(k)
	if R.Inf {
		return nil, nil, false
	}
	r = new(big.Int).Mod(R.X, N)
	if r.Sign() == 0 {
		return nil, nil, false
	}
	e := hashToInt(hash)
	s = new(big.Int).Mul(r, d)
	s.Add(s, e)
	s.Mul(s, new(big.Int).ModInverse(k, N))
	s.Mod(s, N)
	if s.Sign() == 0 {
		return nil, nil, false
	}
	if s.Cmp(HalfN) > 0 {
		s.Sub(N, s)
	}
	return r, s, true
}

// TaggedHash is BIP340's tagged hash.
func TaggedHash(tag string, msgs ...[]byte) []byte {
	th := sha256.Sum256([]byte(tag))
	h := sha256.New()
	h.Write(th[:])
	h.Write(th[:])
	for _, m := range msgs {
		h.Write(m)
	}
	return h.Sum(nil)
}

// VerifySchnorr is BIP340 Verify(pk, m, sig) for a 32-byte x-only key, any
// message and a 64-byte signature.
func VerifySchnorr(pk32, msg, sig64 []byte) bool {
	if len(pk32) != 32 || len(sig64) != 64 {
		return false
	}
	Pp, ok := LiftX(new(big.Int).SetBytes(pk32))
	if !ok {
		return false
	}
	r := new(big.Int).SetBytes(sig64[:32])
	s := new(big.Int).SetBytes(sig64[32:])
	if r.Cmp(P) >= 0 || s.Cmp(N) >= 0 {
		return false
	}
	e := new(big.Int).SetBytes(TaggedHash("BIP0340/challenge", sig64[:32], pk32, msg))
	e.Mod(e, N)
	R := Add(BaseMul(s), Mul(new(big.Int).Sub(N, e), Pp))
	if R.Inf || R.Y.Bit(0) == 1 || R.X.Cmp(r) != 0 {
		return false
	}
	return true
}

// SignSchnorr is BIP340 Sign(sk, m, aux) (default signing). ok=false for an
// invalid secret key or a zero nonce.
func SignSchnorr(sk32, msg, aux32 []byte) ([]byte, bool) {
	d0 := new(big.Int).SetBytes(sk32)
	if d0.Sign() == 0 || d0.Cmp(N) >= 0 {
		return nil, false
	}
	Pp := BaseMul(d0)
	d := new(big.Int).Set(d0)
	if Pp.Y.Bit(0) == 1 {
		d.Sub(N, d0)
	}
	t := Bytes32(d)
	ah := TaggedHash("BIP0340/aux", aux32)
	for i := range t {
		t[i] ^= ah[i]
	}
	px := Bytes32(Pp.X)
	k0 := new(big.Int).SetBytes(TaggedHash("BIP0340/nonce", t, px, msg))
	k0.Mod(k0, N)
	if k0.Sign() == 0 {
		return nil, false
	}
	R := BaseMul(k0)
	k := new(big.Int).Set(k0)
	if R.Y.Bit(0) == 1 {
		k.Sub(N, k0)
	}
	rx := Bytes32(R.X)
	e := new(big.Int).SetBytes(TaggedHash("BIP0340/challenge", rx, px, msg))
	e.Mod(e, N)
	s := new(big.Int).Mul(e, d)
	s.Add(s, k)
	s.Mod(s, N)
	sig := append(rx, Bytes32(s)...)
	return sig, true
}

// ECDHX returns the x coordinate of d*Q.
func ECDHX(d *big.Int, q Point) *big.Int {
	return Mul(d, q).X
}

// SelfCheck verifies the curve constants (G on the curve, n*G = infinity,
// (n-1)*G = -G).
func SelfCheck() bool {
	if !OnCurve(Gx, Gy) {
		return false
	}
	if !Mul(new(big.Int).Sub(N, big.NewInt(1)), G()).X.IsInt64() && !Equal(Mul(new(big.Int).Sub(N, big.NewInt(1)), G()), Neg(G())) {
		return false
	}
	// Mul reduces k mod n, so test n*G through (n-1)*G + G
	return Add(Mul(new(big.Int).Sub(N, big.NewInt(1)), G()), G()).Inf
}
