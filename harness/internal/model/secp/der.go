package secp

import "math/big"

// This file adds the ECDSA signature *encoding* references: the BIP66 strict
// DER predicate, a structural decoder of the TLV layout, a DER encoder and
// SEC1 4.1.6 public-key recovery. Written from BIP66 and SEC1; shares no code
// with btcec.

// bip66 is a literal transcription of BIP66's IsValidSignatureEncoding, which
// is defined on <DER signature> || <1-byte hash type>.
func bip66(sig []byte) bool {
	// Format: 0x30 [total-length] 0x02 [R-length] [R] 0x02 [S-length] [S] [sighash]
	if len(sig) < 9 {
		return false
	}
	if len(sig) > 73 {
		return false
	}
	// A signature is of type 0x30 (compound).
	if sig[0] != 0x30 {
		return false
	}
	// Make sure the length covers the entire signature.
	if int(sig[1]) != len(sig)-3 {
		return false
	}
	// Extract the length of the R element.
	lenR := int(sig[3])
	// Make sure the length of the S element is still inside the signature.
	if 5+lenR >= len(sig) {
		return false
	}
	// Extract the length of the S element.
	lenS := int(sig[5+lenR])
	// Verify that the length of the signature matches the sum of the length
	// of the elements.
	if lenR+lenS+7 != len(sig) {
		return false
	}
	// Check whether the R element is an integer.
	if sig[2] != 0x02 {
		return false
	}
	// Zero-length integers are not allowed for R.
	if lenR == 0 {
		return false
	}
	// Negative numbers are not allowed for R.
	if sig[4]&0x80 != 0 {
		return false
	}
	// Null bytes at the start of R are not allowed, unless R would otherwise
	// be interpreted as a negative number.
	if lenR > 1 && sig[4] == 0x00 && sig[5]&0x80 == 0 {
		return false
	}
	// Check whether the S element is an integer.
	if sig[lenR+4] != 0x02 {
		return false
	}
	// Zero-length integers are not allowed for S.
	if lenS == 0 {
		return false
	}
	// Negative numbers are not allowed for S.
	if sig[lenR+6]&0x80 != 0 {
		return false
	}
	// Null bytes at the start of S are not allowed, unless S would otherwise
	// be interpreted as a negative number.
	if lenS > 1 && sig[lenR+6] == 0x00 && sig[lenR+7]&0x80 == 0 {
		return false
	}
	return true
}

// IsStrictDER is the BIP66 predicate for a signature WITHOUT the trailing
// hash-type byte (the predicate is evaluated on sig || 0x01).
func IsStrictDER(sig []byte) bool {
	b := make([]byte, 0, len(sig)+1)
	b = append(b, sig...)
	b = append(b, 0x01)
	return bip66(b)
}

// ParseStrictDER returns (r, s) of a strictly encoded signature with
// 0 < r,s < n; ok=false otherwise.
func ParseStrictDER(sig []byte) (r, s *big.Int, ok bool) {
	if !IsStrictDER(sig) {
		return nil, nil, false
	}
	lenR := int(sig[3])
	lenS := int(sig[5+lenR])
	r = new(big.Int).SetBytes(sig[4 : 4+lenR])
	s = new(big.Int).SetBytes(sig[6+lenR : 6+lenR+lenS])
	if r.Sign() == 0 || s.Sign() == 0 || r.Cmp(N) >= 0 || s.Cmp(N) >= 0 {
		return nil, nil, false
	}
	return r, s, true
}

// ParseTLV decodes the plain short-form layout
//
//	0x30 L 0x02 rlen R 0x02 slen S  [anything after L+2 bytes is ignored]
//
// reading R and S as unsigned big-endian integers of any padding. It checks
// structure only (no canonical-padding rules, no range). This is the layout a
// lenient ("BER-ish") reader of Bitcoin signatures understands.
func ParseTLV(sig []byte) (r, s *big.Int, ok bool) {
	if len(sig) < 8 || sig[0] != 0x30 {
		return nil, nil, false
	}
	l := int(sig[1])
	if l+2 > len(sig) {
		return nil, nil, false
	}
	body := sig[:l+2]
	if len(body) < 8 || body[2] != 0x02 {
		return nil, nil, false
	}
	rlen := int(body[3])
	if rlen < 1 || 4+rlen+3 > len(body) {
		return nil, nil, false
	}
	if body[4+rlen] != 0x02 {
		return nil, nil, false
	}
	slen := int(body[5+rlen])
	if slen < 1 || 6+rlen+slen != len(body) {
		return nil, nil, false
	}
	r = new(big.Int).SetBytes(body[4 : 4+rlen])
	s = new(big.Int).SetBytes(body[6+rlen:])
	return r, s, true
}

// derInt is the minimal two's-complement-positive DER encoding of v >= 0.
func derInt(v *big.Int) []byte {
	b := v.Bytes()
	if len(b) == 0 {
		b = []byte{0}
	}
	if b[0]&0x80 != 0 {
		b = append([]byte{0}, b...)
	}
	return b
}

// EncodeDER returns the canonical DER encoding of (r, s).
func EncodeDER(r, s *big.Int) []byte {
	rb, sb := derInt(r), derInt(s)
	out := []byte{0x30, byte(4 + len(rb) + len(sb)), 0x02, byte(len(rb))}
	out = append(out, rb...)
	out = append(out, 0x02, byte(len(sb)))
	out = append(out, sb...)
	return out
}

// RecoverECDSA is SEC1 4.1.6 public key recovery for one candidate: recid bit
// 0 is the parity of R.y, bit 1 says R.x = r + n. ok=false when no such point
// exists, r or s are out of [1, n-1], or the result is the point at infinity.
func RecoverECDSA(hash []byte, r, s *big.Int, recid int) (Point, bool) {
	if r.Sign() <= 0 || s.Sign() <= 0 || r.Cmp(N) >= 0 || s.Cmp(N) >= 0 || recid < 0 || recid > 3 {
		return Point{}, false
	}
	x := new(big.Int).Set(r)
	if recid&2 != 0 {
		x.Add(x, N)
		if x.Cmp(P) >= 0 {
			return Point{}, false
		}
	}
	R, ok := LiftX(x)
	if !ok {
		return Point{}, false
	}
	if uint(recid&1) != R.Y.Bit(0) {
		R = Neg(R)
	}
	// Q = r^-1 (s*R - e*G)
	e := hashToInt(hash)
	rinv := new(big.Int).ModInverse(r, N)
	u1 := new(big.Int).Mul(e, rinv)
	u1.Neg(u1)
	u1.Mod(u1, N)
	u2 := new(big.Int).Mul(s, rinv)
	u2.Mod(u2, N)
	q := Add(BaseMul(u1), Mul(u2, R))
	if q.Inf {
		return Point{}, false
	}
	return q, true
}
