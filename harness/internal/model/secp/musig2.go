package secp

import (
	"bytes"
	"errors"
	"math/big"
	"sort"
)

// This file is a reference implementation of BIP327 (MuSig2): KeySort,
// KeyAgg, ApplyTweak, NonceAgg, the session values, Sign,
// PartialSigVerify and PartialSigAgg, written from the BIP's pseudocode over
// the affine arithmetic of secp.go. It shares no code with btcec/musig2.

// MusigTweak is one element of a tweak chain.
type MusigTweak struct {
	Tweak []byte // 32 bytes
	XOnly bool
}

// MusigKeyAggCtx is BIP327's keyagg_ctx (Q, gacc, tacc).
type MusigKeyAggCtx struct {
	Q    Point
	Gacc *big.Int
	Tacc *big.Int
}

var (
	ErrMusigPubKey    = errors.New("invalid_contribution: pubkey")
	ErrMusigPubNonce  = errors.New("invalid_contribution: pubnonce")
	ErrMusigAggNonce  = errors.New("invalid_contribution: aggnonce")
	ErrMusigPSig      = errors.New("invalid_contribution: psig")
	ErrMusigTweak     = errors.New("value: the tweak must be less than n")
	ErrMusigInfinity  = errors.New("value: the result of tweaking cannot be infinity")
	ErrMusigAggInf    = errors.New("value: aggregate key is infinity")
	ErrMusigNotSigner = errors.New("value: the signer's pubkey must be included in the list of pubkeys")
	ErrMusigSecNonce  = errors.New("value: secnonce value is out of range")
	ErrMusigSecKey    = errors.New("value: secret key out of range or does not match secnonce")
	ErrMusigLength    = errors.New("value: wrong length")
)

// CPoint is BIP327 cpoint: a 33-byte compressed encoding (02/03) of a finite
// point.
func CPoint(b []byte) (Point, bool) {
	if len(b) != 33 || (b[0] != 2 && b[0] != 3) {
		return Point{}, false
	}
	pt, _, ok := ParsePubKey(b)
	return pt, ok
}

// CPointExt is BIP327 cpoint_ext: 33 zero bytes encode infinity.
func CPointExt(b []byte) (Point, bool) {
	if len(b) == 33 && bytes.Equal(b, make([]byte, 33)) {
		return Infinity(), true
	}
	return CPoint(b)
}

// CBytesExt is BIP327 cbytes_ext.
func CBytesExt(p Point) []byte {
	if p.Inf {
		return make([]byte, 33)
	}
	return SerializeCompressed(p)
}

// HasEvenY reports whether the finite point has an even y coordinate.
func HasEvenY(p Point) bool { return p.Y.Bit(0) == 0 }

// MusigKeySort is BIP327 KeySort (lexicographic order of the 33-byte keys).
func MusigKeySort(pks [][]byte) [][]byte {
	out := make([][]byte, len(pks))
	copy(out, pks)
	sort.SliceStable(out, func(i, j int) bool { return bytes.Compare(out[i], out[j]) < 0 })
	return out
}

func musigHashKeys(pks [][]byte) []byte {
	return TaggedHash("KeyAgg list", pks...)
}

func musigSecondKey(pks [][]byte) []byte {
	for _, pk := range pks {
		if !bytes.Equal(pk, pks[0]) {
			return pk
		}
	}
	return make([]byte, 33)
}

// MusigKeyAggCoeff is KeyAggCoeffInternal(pk_1..u, pk', GetSecondKey(pk_1..u)).
func MusigKeyAggCoeff(pks [][]byte, pk []byte) *big.Int {
	if bytes.Equal(pk, musigSecondKey(pks)) {
		return big.NewInt(1)
	}
	l := musigHashKeys(pks)
	a := new(big.Int).SetBytes(TaggedHash("KeyAgg coefficient", l, pk))
	return a.Mod(a, N)
}

// MusigKeyAgg is BIP327 KeyAgg on the keys in the given order.
func MusigKeyAgg(pks [][]byte) (MusigKeyAggCtx, error) {
	if len(pks) == 0 {
		return MusigKeyAggCtx{}, ErrMusigLength
	}
	q := Infinity()
	for _, pk := range pks {
		pt, ok := CPoint(pk)
		if !ok {
			return MusigKeyAggCtx{}, ErrMusigPubKey
		}
		q = Add(q, Mul(MusigKeyAggCoeff(pks, pk), pt))
	}
	if q.Inf {
		return MusigKeyAggCtx{}, ErrMusigAggInf
	}
	return MusigKeyAggCtx{Q: q, Gacc: big.NewInt(1), Tacc: big.NewInt(0)}, nil
}

// ApplyTweak is BIP327 ApplyTweak.
func (c MusigKeyAggCtx) ApplyTweak(tweak []byte, xonly bool) (MusigKeyAggCtx, error) {
	if len(tweak) != 32 {
		return MusigKeyAggCtx{}, ErrMusigLength
	}
	g := big.NewInt(1)
	if xonly && !HasEvenY(c.Q) {
		g = new(big.Int).Sub(N, big.NewInt(1))
	}
	t := new(big.Int).SetBytes(tweak)
	if t.Cmp(N) >= 0 {
		return MusigKeyAggCtx{}, ErrMusigTweak
	}
	// g*Q with g in {1, n-1} is Q or -Q.
	gq := c.Q
	if g.Cmp(big.NewInt(1)) != 0 {
		gq = Neg(c.Q)
	}
	q := Add(gq, BaseMulFast(t))
	if q.Inf {
		return MusigKeyAggCtx{}, ErrMusigInfinity
	}
	gacc := new(big.Int).Mul(g, c.Gacc)
	gacc.Mod(gacc, N)
	tacc := new(big.Int).Mul(g, c.Tacc)
	tacc.Add(tacc, t)
	tacc.Mod(tacc, N)
	return MusigKeyAggCtx{Q: q, Gacc: gacc, Tacc: tacc}, nil
}

// MusigKeyAggTweaked is KeyAgg followed by the tweak chain.
func MusigKeyAggTweaked(pks [][]byte, tweaks []MusigTweak) (MusigKeyAggCtx, error) {
	c, err := MusigKeyAgg(pks)
	if err != nil {
		return c, err
	}
	for _, tw := range tweaks {
		if c, err = c.ApplyTweak(tw.Tweak, tw.XOnly); err != nil {
			return c, err
		}
	}
	return c, nil
}

// MusigNonceAgg is BIP327 NonceAgg over 66-byte public nonces.
func MusigNonceAgg(pubnonces [][]byte) ([]byte, error) {
	var out []byte
	for j := 0; j < 2; j++ {
		r := Infinity()
		for _, pn := range pubnonces {
			if len(pn) != 66 {
				return nil, ErrMusigPubNonce
			}
			pt, ok := CPoint(pn[j*33 : (j+1)*33])
			if !ok {
				return nil, ErrMusigPubNonce
			}
			r = Add(r, pt)
		}
		out = append(out, CBytesExt(r)...)
	}
	return out, nil
}

// MusigSession is BIP327's session_ctx.
type MusigSession struct {
	AggNonce []byte // 66 bytes
	PKs      [][]byte
	Tweaks   []MusigTweak
	Msg      []byte
}

// MusigValues are the results of GetSessionValues.
type MusigValues struct {
	Ctx  MusigKeyAggCtx
	B    *big.Int
	R    Point
	E    *big.Int
	QPar *big.Int // g: 1 if has_even_y(Q) else n-1
	// NonceInf records that R1 + b*R2 was the point at infinity and R = G was
	// substituted (BIP327 "Dealing with Infinity in Nonce Aggregation"): the
	// aggregate signature of such a session is not a valid BIP340 signature.
	NonceInf bool
}

// Values is BIP327 GetSessionValues.
func (s MusigSession) Values() (MusigValues, error) {
	c, err := MusigKeyAggTweaked(s.PKs, s.Tweaks)
	if err != nil {
		return MusigValues{}, err
	}
	return s.ValuesFrom(c)
}

// ValuesFrom is Values with the key aggregation context already computed
// (c must be MusigKeyAggTweaked(s.PKs, s.Tweaks)).
func (s MusigSession) ValuesFrom(c MusigKeyAggCtx) (MusigValues, error) {
	if len(s.AggNonce) != 66 {
		return MusigValues{}, ErrMusigAggNonce
	}
	qx := Bytes32(c.Q.X)
	b := new(big.Int).SetBytes(TaggedHash("MuSig/noncecoef", s.AggNonce, qx, s.Msg))
	b.Mod(b, N)
	r1, ok1 := CPointExt(s.AggNonce[:33])
	r2, ok2 := CPointExt(s.AggNonce[33:])
	if !ok1 || !ok2 {
		return MusigValues{}, ErrMusigAggNonce
	}
	r := Add(r1, Mul(b, r2))
	nonceInf := r.Inf
	if nonceInf {
		r = G()
	}
	e := new(big.Int).SetBytes(TaggedHash("BIP0340/challenge", Bytes32(r.X), qx, s.Msg))
	e.Mod(e, N)
	g := big.NewInt(1)
	if !HasEvenY(c.Q) {
		g = new(big.Int).Sub(N, big.NewInt(1))
	}
	return MusigValues{Ctx: c, B: b, R: r, E: e, QPar: g, NonceInf: nonceInf}, nil
}

func (s MusigSession) signerCoeff(pk []byte) (*big.Int, error) {
	for _, k := range s.PKs {
		if bytes.Equal(k, pk) {
			return MusigKeyAggCoeff(s.PKs, pk), nil
		}
	}
	return nil, ErrMusigNotSigner
}

// MusigPartialSigVerify is BIP327 PartialSigVerifyInternal: psig is the
// 32-byte partial signature, pubnonce the signer's 66-byte public nonce, pk
// the signer's 33-byte key. An error means an invalid contribution / argument
// (the BIP raises), false means the equation does not hold.
func MusigPartialSigVerify(psig, pubnonce, pk []byte, s MusigSession) (bool, error) {
	v, err := s.Values()
	if err != nil {
		return false, err
	}
	return MusigPartialSigVerifyWith(v, psig, pubnonce, pk, s)
}

// MusigPartialSigVerifyWith is MusigPartialSigVerify with the session values
// already computed (v must be s.Values()).
func MusigPartialSigVerifyWith(v MusigValues, psig, pubnonce, pk []byte, s MusigSession) (bool, error) {
	if len(psig) != 32 {
		return false, ErrMusigPSig
	}
	sv := new(big.Int).SetBytes(psig)
	if sv.Cmp(N) >= 0 {
		return false, nil
	}
	if len(pubnonce) != 66 {
		return false, ErrMusigPubNonce
	}
	rs1, ok1 := CPoint(pubnonce[:33])
	rs2, ok2 := CPoint(pubnonce[33:])
	if !ok1 || !ok2 {
		return false, ErrMusigPubNonce
	}
	re := Add(rs1, Mul(v.B, rs2))
	if !HasEvenY(v.R) {
		re = Neg(re)
	}
	pt, ok := CPoint(pk)
	if !ok {
		return false, ErrMusigPubKey
	}
	a, err := s.signerCoeff(pk)
	if err != nil {
		return false, err
	}
	gp := new(big.Int).Mul(v.QPar, v.Ctx.Gacc)
	gp.Mod(gp, N)
	k := new(big.Int).Mul(v.E, a)
	k.Mul(k, gp)
	k.Mod(k, N)
	return Equal(BaseMulFast(sv), Add(re, Mul(k, pt))), nil
}

// MusigPartialSign is BIP327 Sign (without the final self-verification).
func MusigPartialSign(secnonce, sk []byte, s MusigSession) ([]byte, error) {
	v, err := s.Values()
	if err != nil {
		return nil, err
	}
	if len(secnonce) != 97 || len(sk) != 32 {
		return nil, ErrMusigLength
	}
	k1 := new(big.Int).SetBytes(secnonce[:32])
	k2 := new(big.Int).SetBytes(secnonce[32:64])
	if k1.Sign() == 0 || k1.Cmp(N) >= 0 || k2.Sign() == 0 || k2.Cmp(N) >= 0 {
		return nil, ErrMusigSecNonce
	}
	if !HasEvenY(v.R) {
		k1.Sub(N, k1)
		k2.Sub(N, k2)
	}
	d := new(big.Int).SetBytes(sk)
	if d.Sign() == 0 || d.Cmp(N) >= 0 {
		return nil, ErrMusigSecKey
	}
	pk := SerializeCompressed(BaseMulFast(d))
	if !bytes.Equal(pk, secnonce[64:]) {
		return nil, ErrMusigSecKey
	}
	a, err := s.signerCoeff(pk)
	if err != nil {
		return nil, err
	}
	dd := new(big.Int).Mul(v.QPar, v.Ctx.Gacc)
	dd.Mul(dd, d)
	dd.Mod(dd, N)
	sv := new(big.Int).Mul(v.E, a)
	sv.Mul(sv, dd)
	sv.Add(sv, k1)
	sv.Add(sv, new(big.Int).Mul(v.B, k2))
	sv.Mod(sv, N)
	return Bytes32(sv), nil
}

// MusigPartialSigAgg is BIP327 PartialSigAgg; the result is a 64-byte BIP340
// signature.
func MusigPartialSigAgg(psigs [][]byte, s MusigSession) ([]byte, error) {
	v, err := s.Values()
	if err != nil {
		return nil, err
	}
	return MusigPartialSigAggWith(v, psigs)
}

// MusigPartialSigAggWith is MusigPartialSigAgg with precomputed session values.
func MusigPartialSigAggWith(v MusigValues, psigs [][]byte) ([]byte, error) {
	sum := new(big.Int)
	for _, ps := range psigs {
		if len(ps) != 32 {
			return nil, ErrMusigPSig
		}
		x := new(big.Int).SetBytes(ps)
		if x.Cmp(N) >= 0 {
			return nil, ErrMusigPSig
		}
		sum.Add(sum, x)
	}
	t := new(big.Int).Mul(v.E, v.QPar)
	t.Mul(t, v.Ctx.Tacc)
	sum.Add(sum, t)
	sum.Mod(sum, N)
	return append(Bytes32(v.R.X), Bytes32(sum)...), nil
}
