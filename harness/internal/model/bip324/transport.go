package bip324

import (
	"bytes"
	"encoding/binary"
	"errors"
	"fmt"
	"io"
	"math/big"
)

const (
	// MaxGarbageLen is the largest amount of garbage a peer may send.
	MaxGarbageLen = 4095
	// GarbageTermLen is the length of a garbage terminator.
	GarbageTermLen = 16
	// MaxContentsLen is the largest packet contents length (3-byte length field).
	MaxContentsLen = 1<<24 - 1
	// LengthFieldLen, HeaderLen and Expansion describe the packet layout.
	LengthFieldLen = 3
	HeaderLen      = 1
	Expansion      = 16
	// IgnoreBit is the header bit that marks a decoy packet.
	IgnoreBit = 0x80
)

// Keys is the output of BIP324's key schedule.
type Keys struct {
	SessionID                                      [32]byte
	InitiatorL, InitiatorP, ResponderL, ResponderP [32]byte
	InitiatorGT, ResponderGT                       [GarbageTermLen]byte
}

// Magic returns the 4 network magic bytes as they appear on the wire
// (little-endian encoding of the uint32 network identifier).
func Magic(net uint32) [4]byte {
	var m [4]byte
	binary.LittleEndian.PutUint32(m[:], net)
	return m
}

// DeriveKeys runs HKDF-SHA256 with salt "bitcoin_v2_shared_secret" || magic.
func DeriveKeys(secret [32]byte, magic [4]byte) Keys {
	salt := append([]byte("bitcoin_v2_shared_secret"), magic[:]...)
	prk := HKDFExtract(salt, secret[:])
	var k Keys
	k.SessionID = HKDFExpand32(prk, "session_id")
	k.InitiatorL = HKDFExpand32(prk, "initiator_L")
	k.InitiatorP = HKDFExpand32(prk, "initiator_P")
	k.ResponderL = HKDFExpand32(prk, "responder_L")
	k.ResponderP = HKDFExpand32(prk, "responder_P")
	gt := HKDFExpand32(prk, "garbage_terminators")
	copy(k.InitiatorGT[:], gt[:16])
	copy(k.ResponderGT[:], gt[16:])
	return k
}

// Session is one side's cipher state after the key exchange.
type Session struct {
	Keys           Keys
	Initiating     bool
	SendL, RecvL   *FSChaCha20
	SendP, RecvP   *FSChaCha20Poly1305
	SendGT, RecvGT [GarbageTermLen]byte
}

// NewSession instantiates the four ciphers for the given role.
func NewSession(secret [32]byte, initiating bool, magic [4]byte) *Session {
	k := DeriveKeys(secret, magic)
	s := &Session{Keys: k, Initiating: initiating}
	if initiating {
		s.SendL, s.SendP = NewFSChaCha20(k.InitiatorL), NewFSChaCha20Poly1305(k.InitiatorP)
		s.RecvL, s.RecvP = NewFSChaCha20(k.ResponderL), NewFSChaCha20Poly1305(k.ResponderP)
		s.SendGT, s.RecvGT = k.InitiatorGT, k.ResponderGT
	} else {
		s.SendL, s.SendP = NewFSChaCha20(k.ResponderL), NewFSChaCha20Poly1305(k.ResponderP)
		s.RecvL, s.RecvP = NewFSChaCha20(k.InitiatorL), NewFSChaCha20Poly1305(k.InitiatorP)
		s.SendGT, s.RecvGT = k.ResponderGT, k.InitiatorGT
	}
	return s
}

// EncPacket is BIP324's v2_enc_packet.
func (s *Session) EncPacket(contents, aad []byte, ignore bool) []byte {
	if len(contents) > MaxContentsLen {
		panic("bip324 model: contents too long")
	}
	plain := make([]byte, 0, HeaderLen+len(contents))
	hdr := byte(0)
	if ignore {
		hdr = IgnoreBit
	}
	plain = append(plain, hdr)
	plain = append(plain, contents...)
	body := s.SendP.Encrypt(aad, plain)
	var l [4]byte
	binary.LittleEndian.PutUint32(l[:], uint32(len(contents)))
	out := s.SendL.Crypt(l[:LengthFieldLen])
	return append(out, body...)
}

// DecPacket reads exactly one packet (decoy or not) from r.
func (s *Session) DecPacket(r io.Reader, aad []byte) (contents []byte, ignore bool, err error) {
	var encLen [LengthFieldLen]byte
	if _, err = io.ReadFull(r, encLen[:]); err != nil {
		return nil, false, err
	}
	l := s.RecvL.Crypt(encLen[:])
	n := int(l[0]) | int(l[1])<<8 | int(l[2])<<16
	body := make([]byte, HeaderLen+n+Expansion)
	if _, err = io.ReadFull(r, body); err != nil {
		return nil, false, err
	}
	plain, err := s.RecvP.Decrypt(aad, body)
	if err != nil {
		return nil, false, err
	}
	return plain[HeaderLen:], plain[0]&IgnoreBit != 0, nil
}

// ReceivePacket is BIP324's v2_receive_packet: it skips decoys; aad applies to
// the first packet read only.
func (s *Session) ReceivePacket(r io.Reader, aad []byte) (contents []byte, decoys int, err error) {
	for {
		c, ign, err := s.DecPacket(r, aad)
		if err != nil {
			return nil, decoys, err
		}
		aad = nil
		if !ign {
			return c, decoys, nil
		}
		decoys++
	}
}

// V1Prefix is the first 16 bytes of a v1 version message.
func V1Prefix(magic [4]byte) []byte {
	return append(append([]byte(nil), magic[:]...), []byte("version\x00\x00\x00\x00\x00")...)
}

// ErrV1 signals that the stream starts with a v1 version message header.
var ErrV1 = errors.New("bip324 model: peer speaks the v1 protocol")

// ErrNoTerminator signals that no garbage terminator was seen in 4095+16 bytes.
var ErrNoTerminator = errors.New("bip324 model: garbage terminator not received")

// Endpoint is one party of a BIP324 connection. The caller moves the bytes:
// the methods return what has to be sent and consume what was received.
type Endpoint struct {
	Initiating bool
	Magic      [4]byte
	Priv       *big.Int
	Ours       [64]byte
	Garbage    []byte // garbage we send
	Theirs     [64]byte
	Secret     [32]byte
	S          *Session
}

// NewEndpoint creates a party with a fixed key pair and garbage.
func NewEndpoint(initiating bool, magic [4]byte, priv *big.Int, ours [64]byte, garbage []byte) *Endpoint {
	if len(garbage) > MaxGarbageLen {
		panic("bip324 model: too much garbage")
	}
	return &Endpoint{Initiating: initiating, Magic: magic, Priv: priv, Ours: ours, Garbage: garbage}
}

// Hello is the first flight: ellswift key || garbage.
func (e *Endpoint) Hello() []byte {
	return append(append([]byte(nil), e.Ours[:]...), e.Garbage...)
}

// ReadKey is the receiving half of the key exchange. An initiator reads 64
// bytes. A responder compares byte by byte with the v1 prefix first
// (respond_v2_handshake) and returns ErrV1 on a full match.
func (e *Endpoint) ReadKey(r io.Reader) error {
	var k [64]byte
	n := 0
	if !e.Initiating {
		v1 := V1Prefix(e.Magic)
		for n < len(v1) {
			if _, err := io.ReadFull(r, k[n:n+1]); err != nil {
				return err
			}
			n++
			if k[n-1] != v1[n-1] {
				break
			}
			if n == len(v1) {
				return ErrV1
			}
		}
	}
	if _, err := io.ReadFull(r, k[n:]); err != nil {
		return err
	}
	if !e.Initiating && bytes.Equal(k[4:16], V1Prefix(e.Magic)[4:16]) {
		return errors.New("bip324 model: v1 peer of another network")
	}
	e.SetTheirKey(k)
	return nil
}

// SetTheirKey performs the ECDH and initialises the session.
func (e *Endpoint) SetTheirKey(k [64]byte) {
	e.Theirs = k
	e.Secret = V2ECDH(e.Priv, e.Theirs, e.Ours, e.Initiating)
	e.S = NewSession(e.Secret, e.Initiating, e.Magic)
}

// Finish is the second flight of complete_handshake: garbage terminator,
// decoy packets (any contents), version packet. The sent garbage is the AAD of
// the first packet only. The pieces are returned separately so that a test
// can tamper with them.
func (e *Endpoint) Finish(decoys [][]byte, version []byte) (pieces [][]byte) {
	pieces = append(pieces, append([]byte(nil), e.S.SendGT[:]...))
	aad := e.Garbage
	for _, d := range decoys {
		pieces = append(pieces, e.S.EncPacket(d, aad, true))
		aad = nil
	}
	pieces = append(pieces, e.S.EncPacket(version, aad, false))
	return pieces
}

// ReceiveHandshake is the receiving half of complete_handshake: scan for the
// peer's garbage terminator (at most 4095 garbage bytes + 16), then receive
// packets authenticated with the garbage until the first non-decoy one (the
// version packet, whose contents are ignored by a real endpoint). The decoys'
// contents are returned for inspection.
func (s *Session) ReceiveHandshake(r io.Reader) (garbage []byte, decoys [][]byte, version []byte, err error) {
	buf := make([]byte, GarbageTermLen, GarbageTermLen+MaxGarbageLen)
	if _, err = io.ReadFull(r, buf); err != nil {
		return nil, nil, nil, err
	}
	for {
		if bytes.Equal(buf[len(buf)-GarbageTermLen:], s.RecvGT[:]) {
			garbage = buf[:len(buf)-GarbageTermLen]
			break
		}
		if len(buf) == GarbageTermLen+MaxGarbageLen {
			return nil, nil, nil, ErrNoTerminator
		}
		var b [1]byte
		if _, err = io.ReadFull(r, b[:]); err != nil {
			return nil, nil, nil, err
		}
		buf = append(buf, b[0])
	}
	aad := garbage
	for {
		c, ign, err := s.DecPacket(r, aad)
		if err != nil {
			return garbage, decoys, nil, fmt.Errorf("handshake packet %d: %w", len(decoys), err)
		}
		aad = nil
		if !ign {
			return garbage, decoys, c, nil
		}
		decoys = append(decoys, c)
	}
}

// ReceiveHandshake runs the session's ReceiveHandshake.
func (e *Endpoint) ReceiveHandshake(r io.Reader) (garbage []byte, decoys [][]byte, version []byte, err error) {
	return e.S.ReceiveHandshake(r)
}
