// Package bip324 is an independent reference endpoint for the BIP324 v2
// encrypted transport, written from the BIP text: ElligatorSwift encoding and
// decoding over math/big, the x-only ECDH tagged hash, the HKDF-SHA256 key
// schedule, the forward-secure ChaCha20 length cipher and ChaCha20-Poly1305
// packet cipher (rekey interval 224), packet framing and the handshake for
// both roles. It shares no code with btcd's v2transport / ellswift packages.
// Primitives taken from elsewhere: SHA-256 and HMAC (standard library) and
// curve arithmetic from the sibling reference model secp. ChaCha20, Poly1305
// and the RFC 8439 AEAD are implemented here from the RFC (calibrated on its
// vectors), so that nothing is shared with the golang.org/x/crypto code btcd
// builds on.
package bip324

import (
	"crypto/sha256"
	"encoding/binary"
	"math/big"

	"verif/internal/model/secp"
)

var (
	p = secp.P
	// MinusThreeSqrt is c = sqrt(-3) mod p as given in BIP324.
	MinusThreeSqrt, _ = new(big.Int).SetString("0a2d2ba93507f1df233770c2a797962cc61f6d15da14ecd47d8d27ae1cd5f852", 16)

	one   = big.NewInt(1)
	two   = big.NewInt(2)
	three = big.NewInt(3)
	four  = big.NewInt(4)
	seven = big.NewInt(7)
)

// ---- field helpers (all results fully reduced into [0, p-1]) ----

func fmod(a *big.Int) *big.Int { return new(big.Int).Mod(a, p) }
func fadd(a, b *big.Int) *big.Int {
	return fmod(new(big.Int).Add(a, b))
}
func fsub(a, b *big.Int) *big.Int {
	return fmod(new(big.Int).Sub(a, b))
}
func fmul(a, b *big.Int) *big.Int {
	return fmod(new(big.Int).Mul(a, b))
}
func fneg(a *big.Int) *big.Int { return fmod(new(big.Int).Neg(a)) }

// finv is the field inverse; the inverse of 0 is defined as 0 (a^(p-2)).
func finv(a *big.Int) *big.Int {
	a = fmod(a)
	if a.Sign() == 0 {
		return new(big.Int)
	}
	return new(big.Int).ModInverse(a, p)
}
func fdiv(a, b *big.Int) *big.Int { return fmul(a, finv(b)) }

// fsqrt returns a^((p+1)/4) if that is a square root of a, as BIP324's sqrt().
func fsqrt(a *big.Int) (*big.Int, bool) { return secp.Sqrt(fmod(a)) }

// g(x) = x^3 + 7
func curveRHS(x *big.Int) *big.Int {
	return fadd(fmul(fmul(x, x), x), seven)
}

// IsValidX reports whether x (reduced mod p) is the x coordinate of a curve point.
func IsValidX(x *big.Int) bool {
	_, ok := fsqrt(curveRHS(fmod(x)))
	return ok
}

// XSwiftEC is BIP324's XSwiftEC(u, t): any two integers (reduced mod p first)
// map to the x coordinate of a curve point.
func XSwiftEC(u, t *big.Int) *big.Int {
	x, _, _ := XSwiftECTrace(u, t)
	return x
}

// XSwiftECTrace is XSwiftEC that also reports which of the three candidates
// was returned (0, 1, 2) and whether step 3 doubled t.
func XSwiftECTrace(u, t *big.Int) (x *big.Int, candidate int, doubled bool) {
	u, t = fmod(u), fmod(t)
	if u.Sign() == 0 {
		u = big.NewInt(1)
	}
	if t.Sign() == 0 {
		t = big.NewInt(1)
	}
	gu := curveRHS(u)
	if fadd(gu, fmul(t, t)).Sign() == 0 {
		t = fmul(two, t)
		doubled = true
	}
	X := fdiv(fsub(gu, fmul(t, t)), fmul(two, t))
	Y := fdiv(fadd(X, t), fmul(MinusThreeSqrt, u))
	xOverY := fdiv(X, Y)
	half := finv(two)
	cands := []*big.Int{
		fadd(u, fmul(four, fmul(Y, Y))),
		fmul(fsub(fneg(xOverY), u), half),
		fmul(fsub(xOverY, u), half),
	}
	for i, x := range cands {
		if IsValidX(x) {
			return x, i, doubled
		}
	}
	panic("bip324 model: XSwiftEC found no valid x (impossible by the SwiftEC theorem)")
}

// XSwiftECInv is BIP324's XSwiftECInv(x, u, case): it returns t such that
// XSwiftEC(u, t) = x, or nil ("None") when this case has no solution. x must
// be a valid x coordinate; u must be non-zero mod p.
func XSwiftECInv(x, u *big.Int, c int) *big.Int {
	x, u = fmod(x), fmod(u)
	var v, s *big.Int
	if c&2 == 0 {
		if IsValidX(fsub(fneg(x), u)) {
			return nil
		}
		v = x
		den := fadd(fadd(fmul(u, u), fmul(u, v)), fmul(v, v))
		s = fneg(fdiv(curveRHS(u), den))
	} else {
		s = fsub(x, u)
		if s.Sign() == 0 {
			return nil
		}
		// r = sqrt(-s(4(u^3+7) + 3 s u^2))
		inner := fadd(fmul(four, curveRHS(u)), fmul(three, fmul(s, fmul(u, u))))
		r, ok := fsqrt(fmul(fneg(s), inner))
		if !ok {
			return nil
		}
		if c&1 == 1 && r.Sign() == 0 {
			return nil
		}
		v = fmul(fsub(fdiv(r, s), u), finv(two))
	}
	w, ok := fsqrt(s)
	if !ok {
		return nil
	}
	half := finv(two)
	switch c & 5 {
	case 0:
		return fmul(fneg(w), fadd(fmul(fmul(u, fsub(one, MinusThreeSqrt)), half), v))
	case 1:
		return fmul(w, fadd(fmul(fmul(u, fadd(one, MinusThreeSqrt)), half), v))
	case 4:
		return fmul(w, fadd(fmul(fmul(u, fsub(one, MinusThreeSqrt)), half), v))
	default: // 5
		return fmul(fneg(w), fadd(fmul(fmul(u, fadd(one, MinusThreeSqrt)), half), v))
	}
}

// Entropy is a deterministic byte source (SHA-256 in counter mode over a seed)
// standing in for the random choices the BIP leaves to the implementation.
type Entropy struct {
	seed []byte
	ctr  uint64
	buf  []byte
}

// NewEntropy returns a source determined by seed.
func NewEntropy(seed []byte) *Entropy { return &Entropy{seed: append([]byte(nil), seed...)} }

// Read fills b.
func (e *Entropy) Read(b []byte) {
	for i := range b {
		if len(e.buf) == 0 {
			var c [8]byte
			binary.LittleEndian.PutUint64(c[:], e.ctr)
			e.ctr++
			h := sha256.New()
			h.Write([]byte("verif/bip324/entropy"))
			h.Write(e.seed)
			h.Write(c[:])
			e.buf = h.Sum(nil)
		}
		b[i] = e.buf[0]
		e.buf = e.buf[1:]
	}
}

// Bytes returns n fresh bytes.
func (e *Entropy) Bytes(n int) []byte {
	b := make([]byte, n)
	e.Read(b)
	return b
}

// XElligatorSwift is BIP324's XElligatorSwift(x): loop over random non-zero u
// and random case until XSwiftECInv succeeds. The branch that produced the
// result is returned for evidence.
func XElligatorSwift(x *big.Int, ent *Entropy) (u, t *big.Int, branch int) {
	for {
		u = fmod(new(big.Int).SetBytes(ent.Bytes(32)))
		if u.Sign() == 0 {
			continue
		}
		c := int(ent.Bytes(1)[0] & 7)
		if t = XSwiftECInv(x, u, c); t != nil {
			return u, t, c
		}
	}
}

// EllswiftEncodeX returns a 64-byte ElligatorSwift encoding of the valid x
// coordinate x.
func EllswiftEncodeX(x *big.Int, ent *Entropy) (enc [64]byte, branch int) {
	u, t, br := XElligatorSwift(x, ent)
	u.FillBytes(enc[:32])
	t.FillBytes(enc[32:])
	return enc, br
}

// EllswiftCreate returns the 64-byte ElligatorSwift encoding of priv*G.
func EllswiftCreate(priv *big.Int, ent *Entropy) (enc [64]byte, branch int) {
	return EllswiftEncodeX(secp.BaseMul(priv).X, ent)
}

// EllswiftDecode returns the x coordinate encoded by 64 arbitrary bytes.
func EllswiftDecode(enc [64]byte) *big.Int {
	return XSwiftEC(new(big.Int).SetBytes(enc[:32]), new(big.Int).SetBytes(enc[32:]))
}

// EllswiftECDHXOnly is bytes(x(priv * lift_x(XSwiftEC(u, t)))).
func EllswiftECDHXOnly(theirs [64]byte, priv *big.Int) [32]byte {
	x := EllswiftDecode(theirs)
	pt, ok := secp.LiftX(x)
	if !ok {
		panic("bip324 model: decoded x is not on the curve")
	}
	sh := secp.Mul(priv, pt)
	var out [32]byte
	if sh.Inf {
		panic("bip324 model: ECDH with a private key that is 0 mod n")
	}
	sh.X.FillBytes(out[:])
	return out
}

// V2ECDH is BIP324's v2_ecdh: the tagged hash "bip324_ellswift_xonly_ecdh"
// over initiator encoding || responder encoding || shared x.
func V2ECDH(priv *big.Int, theirs, ours [64]byte, initiating bool) [32]byte {
	x := EllswiftECDHXOnly(theirs, priv)
	a, b := ours, theirs
	if !initiating {
		a, b = theirs, ours
	}
	tag := sha256.Sum256([]byte("bip324_ellswift_xonly_ecdh"))
	h := sha256.New()
	h.Write(tag[:])
	h.Write(tag[:])
	h.Write(a[:])
	h.Write(b[:])
	h.Write(x[:])
	var out [32]byte
	copy(out[:], h.Sum(nil))
	return out
}
