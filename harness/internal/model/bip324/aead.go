package bip324

import (
	"encoding/binary"
	"math/big"
)

// The RFC 8439 AEAD (ChaCha20-Poly1305) written out from the RFC so that the
// harness module needs no direct dependency on golang.org/x/crypto (which
// btcd itself uses). Calibrated on the RFC 8439 2.8.2 vector and, through the
// packet layer, on the BIP324 packet-encoding vectors.

// chacha20XOR xors src with the keystream starting at the given block counter.
func chacha20XOR(key *[32]byte, nonce *[12]byte, counter uint32, src []byte) []byte {
	dst := make([]byte, len(src))
	off := 0
	for ; off+64 <= len(src); off += 64 {
		b := chacha20Block(key, nonce, counter)
		counter++
		for i := 0; i < 64; i += 8 {
			v := binary.LittleEndian.Uint64(src[off+i:]) ^ binary.LittleEndian.Uint64(b[i:])
			binary.LittleEndian.PutUint64(dst[off+i:], v)
		}
	}
	if off < len(src) {
		b := chacha20Block(key, nonce, counter)
		for i := 0; off+i < len(src); i++ {
			dst[off+i] = src[off+i] ^ b[i]
		}
	}
	return dst
}

var (
	poly1305P = new(big.Int).Sub(new(big.Int).Lsh(big.NewInt(1), 130), big.NewInt(5))
	twoTo128  = new(big.Int).Lsh(big.NewInt(1), 128)
	mask26    = uint64(0x3ffffff)
)

// poly1305State accumulates the polynomial with five 26-bit limbs (the
// textbook "donna" layout); the final reduction is done with math/big.
type poly1305State struct {
	r, s [5]uint64 // r limbs and 5*r limbs
	h    [5]uint64
	pad  *big.Int
	buf  []byte
}

func le32(b []byte) uint64 { return uint64(binary.LittleEndian.Uint32(b)) }

func newPoly1305(key []byte) *poly1305State {
	st := &poly1305State{}
	st.r[0] = le32(key[0:]) & 0x3ffffff
	st.r[1] = (le32(key[3:]) >> 2) & 0x3ffff03
	st.r[2] = (le32(key[6:]) >> 4) & 0x3ffc0ff
	st.r[3] = (le32(key[9:]) >> 6) & 0x3f03fff
	st.r[4] = (le32(key[12:]) >> 8) & 0x00fffff
	for i := range st.r {
		st.s[i] = st.r[i] * 5
	}
	st.pad = leToBig(key[16:32])
	return st
}

func leToBig(b []byte) *big.Int {
	be := make([]byte, len(b))
	for i := range b {
		be[len(b)-1-i] = b[i]
	}
	return new(big.Int).SetBytes(be)
}

// block absorbs one 16-byte block; hibit is 1<<24 for full blocks and 0 for
// the padded final block (which carries its own 0x01 byte).
func (st *poly1305State) block(m []byte, hibit uint64) {
	h, r, s := &st.h, &st.r, &st.s
	h[0] += le32(m[0:]) & mask26
	h[1] += (le32(m[3:]) >> 2) & mask26
	h[2] += (le32(m[6:]) >> 4) & mask26
	h[3] += (le32(m[9:]) >> 6) & mask26
	h[4] += (le32(m[12:]) >> 8) | hibit

	d0 := h[0]*r[0] + h[1]*s[4] + h[2]*s[3] + h[3]*s[2] + h[4]*s[1]
	d1 := h[0]*r[1] + h[1]*r[0] + h[2]*s[4] + h[3]*s[3] + h[4]*s[2]
	d2 := h[0]*r[2] + h[1]*r[1] + h[2]*r[0] + h[3]*s[4] + h[4]*s[3]
	d3 := h[0]*r[3] + h[1]*r[2] + h[2]*r[1] + h[3]*r[0] + h[4]*s[4]
	d4 := h[0]*r[4] + h[1]*r[3] + h[2]*r[2] + h[3]*r[1] + h[4]*r[0]

	c := d0 >> 26
	h[0] = d0 & mask26
	d1 += c
	c = d1 >> 26
	h[1] = d1 & mask26
	d2 += c
	c = d2 >> 26
	h[2] = d2 & mask26
	d3 += c
	c = d3 >> 26
	h[3] = d3 & mask26
	d4 += c
	c = d4 >> 26
	h[4] = d4 & mask26
	h[0] += c * 5
	c = h[0] >> 26
	h[0] &= mask26
	h[1] += c
}

func (st *poly1305State) write(b []byte) {
	if len(st.buf) > 0 {
		n := 16 - len(st.buf)
		if n > len(b) {
			n = len(b)
		}
		st.buf = append(st.buf, b[:n]...)
		b = b[n:]
		if len(st.buf) < 16 {
			return
		}
		st.block(st.buf, 1<<24)
		st.buf = st.buf[:0]
	}
	for len(b) >= 16 {
		st.block(b[:16], 1<<24)
		b = b[16:]
	}
	st.buf = append(st.buf, b...)
}

func (st *poly1305State) sum() [16]byte {
	if len(st.buf) > 0 {
		var last [16]byte
		copy(last[:], st.buf)
		last[len(st.buf)] = 1
		st.block(last[:], 0)
		st.buf = st.buf[:0]
	}
	acc := new(big.Int)
	for i := 4; i >= 0; i-- {
		acc.Lsh(acc, 26)
		acc.Add(acc, new(big.Int).SetUint64(st.h[i]))
	}
	acc.Mod(acc, poly1305P)
	acc.Add(acc, st.pad)
	acc.Mod(acc, twoTo128)
	var be, out [16]byte
	acc.FillBytes(be[:])
	for i := range be {
		out[i] = be[15-i]
	}
	return out
}

func aeadTag(key *[32]byte, nonce *[12]byte, aad, ct []byte) [16]byte {
	otk := chacha20Block(key, nonce, 0)
	st := newPoly1305(otk[:32])
	var zero [16]byte
	st.write(aad)
	if r := len(aad) % 16; r != 0 {
		st.write(zero[:16-r])
	}
	st.write(ct)
	if r := len(ct) % 16; r != 0 {
		st.write(zero[:16-r])
	}
	var lens [16]byte
	binary.LittleEndian.PutUint64(lens[:8], uint64(len(aad)))
	binary.LittleEndian.PutUint64(lens[8:], uint64(len(ct)))
	st.write(lens[:])
	return st.sum()
}

// aeadSeal is AEAD_CHACHA20_POLY1305 encryption (RFC 8439 section 2.8).
func aeadSeal(key *[32]byte, nonce *[12]byte, aad, plaintext []byte) []byte {
	ct := chacha20XOR(key, nonce, 1, plaintext)
	tag := aeadTag(key, nonce, aad, ct)
	return append(ct, tag[:]...)
}

// aeadOpen is the matching decryption; ok=false when the tag does not verify.
func aeadOpen(key *[32]byte, nonce *[12]byte, aad, sealed []byte) ([]byte, bool) {
	if len(sealed) < 16 {
		return nil, false
	}
	ct, tag := sealed[:len(sealed)-16], sealed[len(sealed)-16:]
	want := aeadTag(key, nonce, aad, ct)
	diff := byte(0)
	for i := range want {
		diff |= want[i] ^ tag[i]
	}
	if diff != 0 {
		return nil, false
	}
	return chacha20XOR(key, nonce, 1, ct), true
}
