package bip324

import (
	"crypto/hmac"
	"crypto/sha256"
	"encoding/binary"
	"errors"
	"math/bits"
)

// RekeyInterval is BIP324's REKEY_INTERVAL.
const RekeyInterval = 224

// ---- HKDF-SHA256 (RFC 5869), output length 32 only ----

func hmacSHA256(key []byte, parts ...[]byte) []byte {
	m := hmac.New(sha256.New, key)
	for _, x := range parts {
		m.Write(x)
	}
	return m.Sum(nil)
}

// HKDFExtract is PRK = HMAC(salt, ikm).
func HKDFExtract(salt, ikm []byte) []byte { return hmacSHA256(salt, ikm) }

// HKDFExpand32 is the first 32 bytes of OKM: T(1) = HMAC(PRK, info || 0x01).
func HKDFExpand32(prk []byte, info string) [32]byte {
	var out [32]byte
	copy(out[:], hmacSHA256(prk, []byte(info), []byte{1}))
	return out
}

// ---- ChaCha20 block function, RFC 8439 section 2.3 ----

func quarter(a, b, c, d uint32) (uint32, uint32, uint32, uint32) {
	a += b
	d ^= a
	d = bits.RotateLeft32(d, 16)
	c += d
	b ^= c
	b = bits.RotateLeft32(b, 12)
	a += b
	d ^= a
	d = bits.RotateLeft32(d, 8)
	c += d
	b ^= c
	b = bits.RotateLeft32(b, 7)
	return a, b, c, d
}

// chacha20Block returns the 64-byte keystream block for (key, nonce, counter).
func chacha20Block(key *[32]byte, nonce *[12]byte, counter uint32) [64]byte {
	var s [16]uint32
	s[0], s[1], s[2], s[3] = 0x61707865, 0x3320646e, 0x79622d32, 0x6b206574
	for i := 0; i < 8; i++ {
		s[4+i] = binary.LittleEndian.Uint32(key[4*i:])
	}
	s[12] = counter
	for i := 0; i < 3; i++ {
		s[13+i] = binary.LittleEndian.Uint32(nonce[4*i:])
	}
	w := s
	for i := 0; i < 10; i++ {
		w[0], w[4], w[8], w[12] = quarter(w[0], w[4], w[8], w[12])
		w[1], w[5], w[9], w[13] = quarter(w[1], w[5], w[9], w[13])
		w[2], w[6], w[10], w[14] = quarter(w[2], w[6], w[10], w[14])
		w[3], w[7], w[11], w[15] = quarter(w[3], w[7], w[11], w[15])
		w[0], w[5], w[10], w[15] = quarter(w[0], w[5], w[10], w[15])
		w[1], w[6], w[11], w[12] = quarter(w[1], w[6], w[11], w[12])
		w[2], w[7], w[8], w[13] = quarter(w[2], w[7], w[8], w[13])
		w[3], w[4], w[9], w[14] = quarter(w[3], w[4], w[9], w[14])
	}
	var out [64]byte
	for i := range w {
		binary.LittleEndian.PutUint32(out[4*i:], w[i]+s[i])
	}
	return out
}

// FSChaCha20 is BIP324's forward-secure stream cipher for the 3-byte length
// field: one continuous ChaCha20 keystream per key (nonce = 4 zero bytes ||
// LE64(number of rekeys)), and after every 224 chunks the next 32 keystream
// bytes become the new key, the block counter restarts at 0 and the unused
// keystream is dropped.
type FSChaCha20 struct {
	key      [32]byte
	blockCtr uint32
	chunkCtr uint64
	ks       []byte
}

// NewFSChaCha20 starts the cipher with the given key.
func NewFSChaCha20(key [32]byte) *FSChaCha20 { return &FSChaCha20{key: key} }

func (f *FSChaCha20) keystream(n int) []byte {
	for len(f.ks) < n {
		var nonce [12]byte
		binary.LittleEndian.PutUint64(nonce[4:], f.chunkCtr/RekeyInterval)
		b := chacha20Block(&f.key, &nonce, f.blockCtr)
		f.blockCtr++
		f.ks = append(f.ks, b[:]...)
	}
	out := f.ks[:n:n]
	f.ks = f.ks[n:]
	return out
}

// Crypt encrypts or decrypts one chunk.
func (f *FSChaCha20) Crypt(chunk []byte) []byte {
	ks := f.keystream(len(chunk))
	out := make([]byte, len(chunk))
	for i := range chunk {
		out[i] = chunk[i] ^ ks[i]
	}
	if (f.chunkCtr+1)%RekeyInterval == 0 {
		copy(f.key[:], f.keystream(32))
		f.blockCtr = 0
		f.ks = nil
	}
	f.chunkCtr++
	return out
}

// Clone copies the cipher state.
func (f *FSChaCha20) Clone() *FSChaCha20 {
	c := *f
	c.ks = append([]byte(nil), f.ks...)
	return &c
}

// ErrAuth is returned when a packet fails authentication.
var ErrAuth = errors.New("bip324 model: AEAD authentication failed")

// FSChaCha20Poly1305 is BIP324's forward-secure AEAD: nonce = LE32(packet
// counter mod 224) || LE64(packet counter div 224); after every 224th message
// the key is replaced by the first 32 bytes of the encryption of 32 zero bytes
// under nonce ff ff ff ff || LE64(rekey number) with empty AAD.
type FSChaCha20Poly1305 struct {
	key       [32]byte
	packetCtr uint64
}

// NewFSChaCha20Poly1305 starts the AEAD with the given key.
func NewFSChaCha20Poly1305(key [32]byte) *FSChaCha20Poly1305 {
	return &FSChaCha20Poly1305{key: key}
}

// Counter returns the number of messages processed so far.
func (f *FSChaCha20Poly1305) Counter() uint64 { return f.packetCtr }

func (f *FSChaCha20Poly1305) crypt(aad, text []byte, decrypt bool) ([]byte, error) {
	var nonce [12]byte
	binary.LittleEndian.PutUint32(nonce[:4], uint32(f.packetCtr%RekeyInterval))
	binary.LittleEndian.PutUint64(nonce[4:], f.packetCtr/RekeyInterval)
	var out []byte
	if decrypt {
		var ok bool
		out, ok = aeadOpen(&f.key, &nonce, aad, text)
		if !ok {
			return nil, ErrAuth
		}
	} else {
		out = aeadSeal(&f.key, &nonce, aad, text)
	}
	if (f.packetCtr+1)%RekeyInterval == 0 {
		var rk [12]byte
		rk[0], rk[1], rk[2], rk[3] = 0xff, 0xff, 0xff, 0xff
		copy(rk[4:], nonce[4:])
		nk := aeadSeal(&f.key, &rk, nil, make([]byte, 32))
		copy(f.key[:], nk[:32])
	}
	f.packetCtr++
	return out, nil
}

// Encrypt seals plaintext with aad.
func (f *FSChaCha20Poly1305) Encrypt(aad, plaintext []byte) []byte {
	out, _ := f.crypt(aad, plaintext, false)
	return out
}

// Decrypt opens ciphertext with aad; the state does not advance on failure.
func (f *FSChaCha20Poly1305) Decrypt(aad, ciphertext []byte) ([]byte, error) {
	return f.crypt(aad, ciphertext, true)
}

// Clone copies the cipher state.
func (f *FSChaCha20Poly1305) Clone() *FSChaCha20Poly1305 { c := *f; return &c }
