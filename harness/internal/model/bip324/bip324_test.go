package bip324

import (
	"math/big"
	"os"
	"testing"
)

func corpus() string {
	if d := os.Getenv("VERIF_CORPUS"); d != "" {
		return d + "/c19"
	}
	return "/verif/corpus/c19"
}

func TestSelfCheck(t *testing.T) {
	if err := SelfCheck(corpus(), true); err != nil {
		t.Fatalf("VERIF-INFRA: %v", err)
	}
}

func BenchmarkHandshakeModel(b *testing.B) {
	ent := NewEntropy([]byte("bench"))
	for i := 0; i < b.N; i++ {
		pa := new(big.Int).SetBytes(ent.Bytes(32))
		pb := new(big.Int).SetBytes(ent.Bytes(32))
		ea, _ := EllswiftCreate(pa, ent)
		eb, _ := EllswiftCreate(pb, ent)
		s1 := V2ECDH(pa, eb, ea, true)
		s2 := V2ECDH(pb, ea, eb, false)
		if s1 != s2 {
			b.Fatal("ecdh mismatch")
		}
	}
}
