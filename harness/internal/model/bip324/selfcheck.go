package bip324

import (
	"bytes"
	"encoding/hex"
	"encoding/json"
	"fmt"
	"math/big"
	"os"
	"path/filepath"

	"verif/internal/model/secp"
)

type packetVector struct {
	InIdx                 int    `json:"inIdx"`
	InPrivOurs            string `json:"inPrivOurs"`
	InEllswiftOurs        string `json:"inEllswiftOurs"`
	InEllswiftTheirs      string `json:"inEllswiftTheirs"`
	InInitiating          bool   `json:"inInitiating"`
	InContents            string `json:"inContents"`
	InMultiply            int    `json:"inMultiply"`
	InAad                 string `json:"inAad"`
	InIgnore              bool   `json:"inIgnore"`
	MidXOurs              string `json:"midXOurs"`
	MidXTheirs            string `json:"midXTheirs"`
	MidXShared            string `json:"midXShared"`
	MidSharedSecret       string `json:"midSharedSecret"`
	MidInitiatorL         string `json:"midInitiatorL"`
	MidInitiatorP         string `json:"midInitiatorP"`
	MidResponderL         string `json:"midResponderL"`
	MidResponderP         string `json:"midResponderP"`
	MidSendGarbageTerm    string `json:"midSendGarbageTerm"`
	MidRecvGarbageTerm    string `json:"midRecvGarbageTerm"`
	OutSessionID          string `json:"outSessionID"`
	OutCiphertext         string `json:"outCiphertext"`
	OutCiphertextEndsWith string `json:"outCiphertextEndsWith"`
}

type decodeVector struct {
	Ellswift  string `json:"ellswift"`
	ExpectedX string `json:"expectedX"`
}

type invVector struct {
	U     string   `json:"u"`
	X     string   `json:"x"`
	Cases []string `json:"cases"`
}

func unhex(s string) []byte {
	b, err := hex.DecodeString(s)
	if err != nil {
		panic("bip324 selfcheck: bad hex in corpus: " + err.Error())
	}
	return b
}

func load(dir, name string, v any) error {
	b, err := os.ReadFile(filepath.Join(dir, name))
	if err != nil {
		return err
	}
	return json.Unmarshal(b, v)
}

// SelfCheck replays the official BIP324 vectors (copied into corpusDir from
// the specification's test-vector tables) through the model. A non-nil error
// means the oracle itself is broken. With full=false the two multi-megabyte
// packet vectors are checked up to the key schedule only (their ciphertext
// costs ~100 MB of allocations; one process per run does the full replay).
func SelfCheck(corpusDir string, full bool) (err error) {
	defer func() {
		if r := recover(); r != nil {
			err = fmt.Errorf("panic in model: %v", r)
		}
	}()
	if !secp.SelfCheck() {
		return fmt.Errorf("secp constants self-check failed")
	}
	if c2 := fmul(MinusThreeSqrt, MinusThreeSqrt); c2.Cmp(fneg(three)) != 0 {
		return fmt.Errorf("c^2 != -3")
	}
	// RFC 8439 section 2.3.2 block function vector
	{
		var key [32]byte
		for i := range key {
			key[i] = byte(i)
		}
		nonce := [12]byte{0, 0, 0, 9, 0, 0, 0, 0x4a, 0, 0, 0, 0}
		b := chacha20Block(&key, &nonce, 1)
		want := unhex("10f1e7e4d13b5915500fdd1fa32071c4c7d1f4c733c068030422aa9ac3d46c4ed2826446079faa0914c2d705d98b02a2b5129cd1de164eb9cbd083e8a2503c4e")
		if !bytes.Equal(b[:], want) {
			return fmt.Errorf("chacha20 block function disagrees with RFC 8439 2.3.2")
		}
	}
	// RFC 8439 section 2.8.2 AEAD vector (tag covers the whole ciphertext)
	{
		var key [32]byte
		for i := range key {
			key[i] = 0x80 + byte(i)
		}
		nonce := [12]byte{7, 0, 0, 0, 0x40, 0x41, 0x42, 0x43, 0x44, 0x45, 0x46, 0x47}
		aad := unhex("50515253c0c1c2c3c4c5c6c7")
		pt := []byte("Ladies and Gentlemen of the class of '99: If I could offer you only one tip for the future, sunscreen would be it.")
		sealed := aeadSeal(&key, &nonce, aad, pt)
		if hex.EncodeToString(sealed[:16]) != "d31a8d34648e60db7b86afbc53ef7ec2" || hex.EncodeToString(sealed[len(pt):]) != "1ae10b594f09e26a7e902ecbd0600691" {
			return fmt.Errorf("AEAD disagrees with RFC 8439 2.8.2: %x", sealed)
		}
		back, ok := aeadOpen(&key, &nonce, aad, sealed)
		if !ok || !bytes.Equal(back, pt) {
			return fmt.Errorf("AEAD open does not invert seal")
		}
		sealed[3] ^= 1
		if _, ok := aeadOpen(&key, &nonce, aad, sealed); ok {
			return fmt.Errorf("AEAD open accepts a modified ciphertext")
		}
	}
	// RFC 5869 test case 1 (first 32 bytes of OKM)
	{
		ikm := bytes.Repeat([]byte{0x0b}, 22)
		salt := unhex("000102030405060708090a0b0c")
		prk := HKDFExtract(salt, ikm)
		if hex.EncodeToString(prk) != "077709362c2e32df0ddc3f0dc47bba6390b6c73bb50f9c3122ec844ad7c2b3e5" {
			return fmt.Errorf("HKDF-Extract disagrees with RFC 5869 A.1")
		}
		okm := HKDFExpand32(prk, string(unhex("f0f1f2f3f4f5f6f7f8f9")))
		if hex.EncodeToString(okm[:]) != "3cb25f25faacd57a90434f64d0362f2a2d2d0a90cf1a5a4c5db02d56ecc4c5bf" {
			return fmt.Errorf("HKDF-Expand disagrees with RFC 5869 A.1")
		}
	}

	var dec []decodeVector
	if err := load(corpusDir, "xswiftec.json", &dec); err != nil {
		return err
	}
	if len(dec) < 70 {
		return fmt.Errorf("xswiftec.json: only %d vectors", len(dec))
	}
	for i, v := range dec {
		var e [64]byte
		copy(e[:], unhex(v.Ellswift))
		if got := hex.EncodeToString(secp.Bytes32(EllswiftDecode(e))); got != v.ExpectedX {
			return fmt.Errorf("xswiftec vector %d: model %s, vector %s", i, got, v.ExpectedX)
		}
	}

	var inv []invVector
	if err := load(corpusDir, "xswiftec_inv.json", &inv); err != nil {
		return err
	}
	if len(inv) < 30 {
		return fmt.Errorf("xswiftec_inv.json: only %d vectors", len(inv))
	}
	for i, v := range inv {
		u, x := new(big.Int).SetBytes(unhex(v.U)), new(big.Int).SetBytes(unhex(v.X))
		if len(v.Cases) != 8 {
			return fmt.Errorf("xswiftec_inv vector %d: %d cases", i, len(v.Cases))
		}
		for c, want := range v.Cases {
			t := XSwiftECInv(x, u, c)
			got := ""
			if t != nil {
				got = hex.EncodeToString(secp.Bytes32(t))
				if XSwiftEC(u, t).Cmp(x) != 0 {
					return fmt.Errorf("xswiftec_inv vector %d case %d: does not decode back", i, c)
				}
			}
			if got != want {
				return fmt.Errorf("xswiftec_inv vector %d case %d: model %q, vector %q", i, c, got, want)
			}
		}
	}

	var pv []packetVector
	if err := load(corpusDir, "packet_encoding.json", &pv); err != nil {
		return err
	}
	if len(pv) < 7 {
		return fmt.Errorf("packet_encoding.json: only %d vectors", len(pv))
	}
	mainnet := [4]byte{0xf9, 0xbe, 0xb4, 0xd9}
	for i, v := range pv {
		priv := new(big.Int).SetBytes(unhex(v.InPrivOurs))
		var ours, theirs [64]byte
		copy(ours[:], unhex(v.InEllswiftOurs))
		copy(theirs[:], unhex(v.InEllswiftTheirs))
		chk := func(what, got, want string) error {
			if got != want {
				return fmt.Errorf("packet vector %d (%s): model %s, vector %s", i, what, got, want)
			}
			return nil
		}
		hx := func(b []byte) string { return hex.EncodeToString(b) }
		if err := chk("x ours from priv", hx(secp.Bytes32(secp.BaseMul(priv).X)), v.MidXOurs); err != nil {
			return err
		}
		if err := chk("x ours decoded", hx(secp.Bytes32(EllswiftDecode(ours))), v.MidXOurs); err != nil {
			return err
		}
		if err := chk("x theirs", hx(secp.Bytes32(EllswiftDecode(theirs))), v.MidXTheirs); err != nil {
			return err
		}
		xs := EllswiftECDHXOnly(theirs, priv)
		if err := chk("x shared", hx(xs[:]), v.MidXShared); err != nil {
			return err
		}
		secret := V2ECDH(priv, theirs, ours, v.InInitiating)
		if err := chk("shared secret", hx(secret[:]), v.MidSharedSecret); err != nil {
			return err
		}
		s := NewSession(secret, v.InInitiating, mainnet)
		for _, c := range [][2]string{
			{hx(s.Keys.InitiatorL[:]), v.MidInitiatorL}, {hx(s.Keys.InitiatorP[:]), v.MidInitiatorP},
			{hx(s.Keys.ResponderL[:]), v.MidResponderL}, {hx(s.Keys.ResponderP[:]), v.MidResponderP},
			{hx(s.SendGT[:]), v.MidSendGarbageTerm}, {hx(s.RecvGT[:]), v.MidRecvGarbageTerm},
			{hx(s.Keys.SessionID[:]), v.OutSessionID},
		} {
			if err := chk("key schedule", c[0], c[1]); err != nil {
				return err
			}
		}
		if v.InMultiply > 1 && !full {
			continue
		}
		contents := bytes.Repeat(unhex(v.InContents), v.InMultiply)
		aad := unhex(v.InAad)
		// the receiving peer of these packets (skipped for the multi-megabyte
		// vectors, whose point is the sender's ciphertext)
		var peer *Session
		if len(contents) < 1<<20 {
			peer = NewSession(secret, !v.InInitiating, mainnet)
		}
		for k := 0; k < v.InIdx; k++ {
			filler := s.EncPacket(nil, nil, false)
			if peer != nil {
				c, ign, err := peer.DecPacket(bytes.NewReader(filler), nil)
				if err != nil || ign || len(c) != 0 {
					return fmt.Errorf("packet vector %d: model receiver failed on filler packet %d: %v", i, k, err)
				}
			}
		}
		ct := s.EncPacket(contents, aad, v.InIgnore)
		if v.OutCiphertext != "" {
			if err := chk("ciphertext", hx(ct), v.OutCiphertext); err != nil {
				return err
			}
		}
		if v.OutCiphertextEndsWith != "" {
			tail := unhex(v.OutCiphertextEndsWith)
			if len(ct) < len(tail) || !bytes.Equal(ct[len(ct)-len(tail):], tail) {
				return fmt.Errorf("packet vector %d: ciphertext tail %x, vector %s", i, ct[len(ct)-len(tail):], v.OutCiphertextEndsWith)
			}
		}
		if peer != nil {
			c, ign, err := peer.DecPacket(bytes.NewReader(ct), aad)
			if err != nil || ign != v.InIgnore || !bytes.Equal(c, contents) {
				return fmt.Errorf("packet vector %d: model receiver does not invert the sender: %v", i, err)
			}
		}
	}
	return nil
}
