// Package kvmodel is the reference model of the database.DB contract
// (github.com/btcsuite/btcd/database/interface.go) used by check C05.
//
// It is written from the interface documentation only and shares no code with
// ffldb: a store is a tree of buckets (ordered maps from byte-string names to
// either a value or a nested bucket) plus a map from block hash to the stored
// block bytes.  A transaction works on a private deep copy of the committed
// state taken at Begin (that copy IS the snapshot); Commit of a writable
// transaction replaces the committed state, Rollback discards the copy.
//
// Where the documentation lists several error conditions that can hold at the
// same time without ranking them, the model returns the set of admissible
// codes.
package kvmodel

import (
	"bytes"
	"crypto/sha256"
	"sort"
)

// Code is a class of outcome of an operation.
type Code uint32

const (
	OK Code = 1 << iota
	TxClosed
	TxNotWritable
	BucketNotFound
	BucketExists
	BucketNameRequired
	KeyRequired
	IncompatibleValue
	BlockNotFound
	BlockExists
	BlockRegionInvalid
	DbNotOpen
	Other // any error that is not one of the above
)

var codeNames = []struct {
	c Code
	n string
}{{OK, "nil"}, {TxClosed, "ErrTxClosed"}, {TxNotWritable, "ErrTxNotWritable"}, {BucketNotFound, "ErrBucketNotFound"},
	{BucketExists, "ErrBucketExists"}, {BucketNameRequired, "ErrBucketNameRequired"}, {KeyRequired, "ErrKeyRequired"},
	{IncompatibleValue, "ErrIncompatibleValue"}, {BlockNotFound, "ErrBlockNotFound"}, {BlockExists, "ErrBlockExists"},
	{BlockRegionInvalid, "ErrBlockRegionInvalid"}, {DbNotOpen, "ErrDbNotOpen"}, {Other, "other-error"}}

// String lists the codes of a set.
func (c Code) String() string {
	s := ""
	for _, e := range codeNames {
		if c&e.c != 0 {
			if s != "" {
				s += "|"
			}
			s += e.n
		}
	}
	if s == "" {
		return "none"
	}
	return s
}

// Has reports whether set c admits the single code x.
func (c Code) Has(x Code) bool { return c&x != 0 }

// Hash is a block hash (double SHA-256 of the 80 byte header).
type Hash [32]byte

// BlockHash computes the hash under which a serialized block is stored.
func BlockHash(raw []byte) Hash {
	h := sha256.Sum256(raw[:80])
	return sha256.Sum256(h[:])
}

// Bucket is an ordered map; a name is bound to a value or to a nested bucket.
type Bucket struct {
	Keys map[string][]byte
	Subs map[string]*Bucket
}

func newBucket() *Bucket { return &Bucket{Keys: map[string][]byte{}, Subs: map[string]*Bucket{}} }

func (b *Bucket) clone() *Bucket {
	n := newBucket()
	for k, v := range b.Keys {
		n.Keys[k] = v // values are never mutated in place
	}
	for k, s := range b.Subs {
		n.Subs[k] = s.clone()
	}
	return n
}

// SortedKeys returns the names of the key/value pairs in byte order.
func (b *Bucket) SortedKeys() []string {
	out := make([]string, 0, len(b.Keys))
	for k := range b.Keys {
		out = append(out, k)
	}
	sort.Strings(out) // Go string comparison is byte-wise
	return out
}

// SortedSubs returns the names of the nested buckets in byte order.
func (b *Bucket) SortedSubs() []string {
	out := make([]string, 0, len(b.Subs))
	for k := range b.Subs {
		out = append(out, k)
	}
	sort.Strings(out)
	return out
}

// Equal compares two bucket trees.
func (b *Bucket) Equal(o *Bucket) bool {
	if len(b.Keys) != len(o.Keys) || len(b.Subs) != len(o.Subs) {
		return false
	}
	for k, v := range b.Keys {
		ov, ok := o.Keys[k]
		if !ok || !bytes.Equal(v, ov) {
			return false
		}
	}
	for k, s := range b.Subs {
		os, ok := o.Subs[k]
		if !ok || !s.Equal(os) {
			return false
		}
	}
	return true
}

// State is one version of the whole store.
type State struct {
	Root   *Bucket
	Blocks map[Hash][]byte
	Order  []Hash // hashes in the order they were stored (only those still present)
	Pruned bool   // a committed PruneBlocks removed at least one block
}

// NewState returns the state of a freshly created database.
func NewState() *State { return &State{Root: newBucket(), Blocks: map[Hash][]byte{}} }

// Clone returns a deep copy.
func (s *State) Clone() *State {
	n := &State{Root: s.Root.clone(), Blocks: make(map[Hash][]byte, len(s.Blocks)), Pruned: s.Pruned}
	for h, b := range s.Blocks {
		n.Blocks[h] = b
	}
	n.Order = append([]Hash(nil), s.Order...)
	return n
}

// Equal compares two states (bucket tree and block map).
func (s *State) Equal(o *State) bool {
	if !s.Root.Equal(o.Root) || len(s.Blocks) != len(o.Blocks) {
		return false
	}
	for h, b := range s.Blocks {
		ob, ok := o.Blocks[h]
		if !ok || !bytes.Equal(b, ob) {
			return false
		}
	}
	return true
}

// DB is the model of one database handle.
type DB struct {
	Committed *State
	Closed    bool
	Commits   int // number of successful writable commits
}

// NewDB models database.Create.
func NewDB() *DB { return &DB{Committed: NewState()} }

// Tx is the model of a transaction.
type Tx struct {
	db       *DB
	Writable bool
	Closed   bool
	S        *State        // private working copy == snapshot + own changes
	Pending  map[Hash]bool // blocks stored by this transaction
	Dirty    bool          // the transaction changed something
	Touched  map[string]bool
	Created  map[string]bool // paths in which this transaction created a nested bucket
	BornAt   int             // db.Commits at Begin
}

// Begin models DB.Begin.  The caller must not open a second writable
// transaction while one is open (the real call would block).
func (d *DB) Begin(writable bool) (*Tx, Code) {
	if d.Closed {
		return nil, DbNotOpen
	}
	return &Tx{db: d, Writable: writable, S: d.Committed.Clone(), Pending: map[Hash]bool{},
		Touched: map[string]bool{}, Created: map[string]bool{}, BornAt: d.Commits}, OK
}

// Commit models Tx.Commit on an unmanaged transaction.
func (t *Tx) Commit() Code {
	if t.Closed {
		return TxClosed
	}
	t.Closed = true
	if !t.Writable {
		return TxNotWritable
	}
	t.db.Committed = t.S
	t.db.Commits++
	return OK
}

// Rollback models Tx.Rollback on an unmanaged transaction.
func (t *Tx) Rollback() Code {
	if t.Closed {
		return TxClosed
	}
	t.Closed = true
	return OK
}

// Outlived returns the number of commits that happened since Begin.
func (t *Tx) Outlived() int { return t.db.Commits - t.BornAt }

func pathKey(path []string) string {
	s := ""
	for _, p := range path {
		s += "/" + p
	}
	return s
}

// Bucket resolves a path of nested bucket names from the metadata root;
// nil when some component is not a bucket (or the transaction is closed).
func (t *Tx) Bucket(path []string) *Bucket {
	if t.Closed {
		return nil
	}
	b := t.S.Root
	for _, p := range path {
		nb, ok := b.Subs[p]
		if !ok {
			return nil
		}
		b = nb
	}
	return b
}

// CreateBucket models Bucket.CreateBucket in the bucket at path (which must
// exist).  ifNotExists selects CreateBucketIfNotExists.
func (t *Tx) CreateBucket(path []string, name string, ifNotExists bool) Code {
	if t.Closed {
		return TxClosed
	}
	b := t.Bucket(path)
	var c Code
	if !t.Writable {
		c |= TxNotWritable
	}
	if len(name) == 0 {
		c |= BucketNameRequired
	}
	if _, ok := b.Subs[name]; ok && !ifNotExists {
		c |= BucketExists
	}
	if c != 0 {
		return c
	}
	if _, ok := b.Subs[name]; ok {
		return OK
	}
	b.Subs[name] = newBucket()
	t.Dirty = true
	t.Touched[pathKey(path)] = true
	t.Created[pathKey(path)] = true
	return OK
}

// DeleteBucket models Bucket.DeleteBucket.
func (t *Tx) DeleteBucket(path []string, name string) Code {
	if t.Closed {
		return TxClosed
	}
	b := t.Bucket(path)
	var c Code
	if !t.Writable {
		c |= TxNotWritable
	}
	if _, ok := b.Subs[name]; !ok {
		c |= BucketNotFound
	}
	if c != 0 {
		return c
	}
	delete(b.Subs, name)
	t.Dirty = true
	return OK
}

// Put models Bucket.Put.  A nil value is stored as the empty value ("An empty
// slice is returned for keys that exist but have no value assigned").
func (t *Tx) Put(path []string, key string, val []byte) Code {
	if t.Closed {
		return TxClosed
	}
	b := t.Bucket(path)
	var c Code
	if !t.Writable {
		c |= TxNotWritable
	}
	if len(key) == 0 {
		c |= KeyRequired
	}
	if _, ok := b.Subs[key]; ok {
		c |= IncompatibleValue
	}
	if c != 0 {
		return c
	}
	b.Keys[key] = append([]byte{}, val...)
	t.Dirty = true
	t.Touched[pathKey(path)] = true
	return OK
}

// Get models Bucket.Get: nil when the key is absent (or names a bucket).
func (t *Tx) Get(path []string, key string) []byte {
	b := t.Bucket(path)
	if b == nil {
		return nil
	}
	v, ok := b.Keys[key]
	if !ok {
		return nil
	}
	return v
}

// Delete models Bucket.Delete.
func (t *Tx) Delete(path []string, key string) Code {
	if t.Closed {
		return TxClosed
	}
	b := t.Bucket(path)
	var c Code
	if !t.Writable {
		c |= TxNotWritable
	}
	if len(key) == 0 {
		c |= KeyRequired
	}
	if _, ok := b.Subs[key]; ok {
		c |= IncompatibleValue
	}
	if c != 0 {
		return c
	}
	if _, ok := b.Keys[key]; ok {
		delete(b.Keys, key)
		t.Dirty = true
	}
	return OK
}

// CreatedBucketIn reports whether this transaction created a nested bucket
// directly under path (used only to delimit a known-finding input class).
func (t *Tx) CreatedBucketIn(path []string) bool { return t.Created[pathKey(path)] }

// PathTouched reports whether this transaction added or overwrote an entry of
// the bucket at path (used only to delimit a known-finding input class).
func (t *Tx) PathTouched(path []string) bool { return t.Touched[pathKey(path)] }

// ---------------------------------------------------------------------------
// cursors

// Entry is one position of a cursor: a key/value pair or a nested bucket.
type Entry struct {
	Name     string
	Value    []byte // nil for a nested bucket
	IsBucket bool
}

// Entries returns the cursor sequence of a bucket.  interface.go does not
// order pairs against nested buckets; the model lists the pairs (byte order)
// before the nested buckets (byte order).
func (b *Bucket) Entries() []Entry {
	var out []Entry
	for _, k := range b.SortedKeys() {
		out = append(out, Entry{Name: k, Value: b.Keys[k]})
	}
	for _, k := range b.SortedSubs() {
		out = append(out, Entry{Name: k, IsBucket: true})
	}
	return out
}

func entryLess(aBucket bool, a string, bBucket bool, b string) bool {
	if aBucket != bBucket {
		return !aBucket
	}
	return a < b
}

// Cursor is the model of a database.Cursor.
type Cursor struct {
	tx   *Tx
	Path []string
	// position
	Positioned bool // false: new or exhausted
	Name       string
	IsBucket   bool
	Deleted    bool // the entry under the cursor was removed by Cursor.Delete
	Forward    bool // direction of the last movement
	Stale      bool // the bucket was modified other than by Cursor.Delete: must be repositioned
	Reseeked   bool // Cursor.Delete or a modification happened since the cursor was created (see known finding)
}

// NewCursor models Bucket.Cursor for the bucket at path.
func (t *Tx) NewCursor(path []string) *Cursor {
	return &Cursor{tx: t, Path: append([]string(nil), path...)}
}

func (c *Cursor) entries() []Entry {
	b := c.tx.Bucket(c.Path)
	if b == nil {
		return nil
	}
	return b.Entries()
}

func (c *Cursor) set(e *Entry, forward bool) bool {
	c.Deleted = false
	c.Stale = false
	c.Forward = forward
	if e == nil {
		c.Positioned = false
		return false
	}
	c.Positioned, c.Name, c.IsBucket = true, e.Name, e.IsBucket
	return true
}

// First models Cursor.First.
func (c *Cursor) First() bool {
	if c.tx.Closed {
		return false
	}
	es := c.entries()
	if len(es) == 0 {
		return c.set(nil, true)
	}
	return c.set(&es[0], true)
}

// Last models Cursor.Last.
func (c *Cursor) Last() bool {
	if c.tx.Closed {
		return false
	}
	es := c.entries()
	if len(es) == 0 {
		return c.set(nil, false)
	}
	return c.set(&es[len(es)-1], false)
}

// Seek models Cursor.Seek: first pair with key >= seek, else the first nested
// bucket (every nested bucket sorts after every pair in the model's order).
func (c *Cursor) Seek(seek string) bool {
	if c.tx.Closed {
		return false
	}
	es := c.entries()
	for i := range es {
		if es[i].IsBucket || es[i].Name >= seek {
			return c.set(&es[i], true)
		}
	}
	return c.set(nil, true)
}

// Next models Cursor.Next.
func (c *Cursor) Next() bool {
	if c.tx.Closed || !c.Positioned {
		return false
	}
	es := c.entries()
	for i := range es {
		if entryLess(c.IsBucket, c.Name, es[i].IsBucket, es[i].Name) {
			return c.set(&es[i], true)
		}
	}
	return c.set(nil, true)
}

// Prev models Cursor.Prev.
func (c *Cursor) Prev() bool {
	if c.tx.Closed || !c.Positioned {
		return false
	}
	es := c.entries()
	for i := len(es) - 1; i >= 0; i-- {
		if entryLess(es[i].IsBucket, es[i].Name, c.IsBucket, c.Name) {
			return c.set(&es[i], false)
		}
	}
	return c.set(nil, false)
}

// Current returns the entry under the cursor (nil when not positioned or
// when it was deleted through the cursor).
func (c *Cursor) Current() *Entry {
	if c.tx.Closed || !c.Positioned || c.Deleted {
		return nil
	}
	b := c.tx.Bucket(c.Path)
	if b == nil {
		return nil
	}
	if c.IsBucket {
		if _, ok := b.Subs[c.Name]; ok {
			return &Entry{Name: c.Name, IsBucket: true}
		}
		return nil
	}
	if v, ok := b.Keys[c.Name]; ok {
		return &Entry{Name: c.Name, Value: v}
	}
	return nil
}

// Delete models Cursor.Delete for a positioned cursor.
func (c *Cursor) Delete() Code {
	if c.tx.Closed {
		return TxClosed
	}
	var code Code
	if !c.tx.Writable {
		code |= TxNotWritable
	}
	if c.Positioned && c.IsBucket {
		code |= IncompatibleValue
	}
	if code != 0 {
		return code
	}
	b := c.tx.Bucket(c.Path)
	delete(b.Keys, c.Name)
	c.tx.Dirty = true
	c.Deleted = true
	c.Reseeked = true
	return OK
}

// ---------------------------------------------------------------------------
// blocks

// StoreBlock models Tx.StoreBlock for serialized block bytes.
func (t *Tx) StoreBlock(raw []byte) Code {
	if t.Closed {
		return TxClosed
	}
	var c Code
	if !t.Writable {
		c |= TxNotWritable
	}
	h := BlockHash(raw)
	if _, ok := t.S.Blocks[h]; ok {
		c |= BlockExists
	}
	if c != 0 {
		return c
	}
	t.S.Blocks[h] = raw
	t.S.Order = append(t.S.Order, h)
	t.Pending[h] = true
	t.Dirty = true
	return OK
}

// HasBlock models Tx.HasBlock.
func (t *Tx) HasBlock(h Hash) (bool, Code) {
	if t.Closed {
		return false, TxClosed
	}
	_, ok := t.S.Blocks[h]
	return ok, OK
}

// FetchBlock models Tx.FetchBlock.
func (t *Tx) FetchBlock(h Hash) ([]byte, Code) {
	if t.Closed {
		return nil, TxClosed
	}
	b, ok := t.S.Blocks[h]
	if !ok {
		return nil, BlockNotFound
	}
	return b, OK
}

// FetchBlockHeader models Tx.FetchBlockHeader.
func (t *Tx) FetchBlockHeader(h Hash) ([]byte, Code) {
	b, c := t.FetchBlock(h)
	if c != OK {
		return nil, c
	}
	return b[:80], OK
}

// Region is a block region request.
type Region struct {
	Hash     Hash
	Off, Len uint32
}

// FetchBlockRegion models Tx.FetchBlockRegion.
func (t *Tx) FetchBlockRegion(r Region) ([]byte, Code) {
	if t.Closed {
		return nil, TxClosed
	}
	b, ok := t.S.Blocks[r.Hash]
	if !ok {
		return nil, BlockNotFound
	}
	end := uint64(r.Off) + uint64(r.Len)
	if end > uint64(len(b)) {
		return nil, BlockRegionInvalid
	}
	return b[r.Off:end], OK
}

// FetchBlockRegions models Tx.FetchBlockRegions: when several requests are
// bad, any of their codes is admissible.
func (t *Tx) FetchBlockRegions(rs []Region) ([][]byte, Code) {
	if t.Closed {
		return nil, TxClosed
	}
	var bad Code
	out := make([][]byte, len(rs))
	for i, r := range rs {
		b, c := t.FetchBlockRegion(r)
		if c != OK {
			bad |= c
		}
		out[i] = b
	}
	if bad != 0 {
		return nil, bad
	}
	return out, OK
}

// PrunePre returns the error set of PruneBlocks determined by the contract
// (0 when the call is allowed to proceed).
func (t *Tx) PrunePre() Code {
	if t.Closed {
		return TxClosed
	}
	if !t.Writable {
		return TxNotWritable
	}
	return 0
}

// PruneCheck validates the hashes reported by a successful PruneBlocks: each
// must be a distinct block that was committed before this transaction and is
// still present.  It returns "" or a description of the inconsistency.
func (t *Tx) PruneCheck(deleted []Hash) string {
	seen := map[Hash]bool{}
	for _, h := range deleted {
		if seen[h] {
			return "hash reported twice"
		}
		seen[h] = true
		if _, ok := t.S.Blocks[h]; !ok {
			return "reported hash is not a stored block"
		}
		if t.Pending[h] {
			return "reported hash is a block pending in the same transaction"
		}
	}
	return ""
}

// PruneApply removes the reported blocks.
func (t *Tx) PruneApply(deleted []Hash) {
	if len(deleted) == 0 {
		return
	}
	del := map[Hash]bool{}
	for _, h := range deleted {
		del[h] = true
		delete(t.S.Blocks, h)
	}
	var no []Hash
	for _, h := range t.S.Order {
		if !del[h] {
			no = append(no, h)
		}
	}
	t.S.Order = no
	t.S.Pruned = true
	t.Dirty = true
}

// IsOldestPrefix reports whether deleted is exactly the first len(deleted)
// committed blocks in storage order (evidence class, not asserted).
func (t *Tx) IsOldestPrefix(deleted []Hash) bool {
	del := map[Hash]bool{}
	for _, h := range deleted {
		del[h] = true
	}
	n := 0
	for _, h := range t.S.Order {
		if t.Pending[h] {
			continue
		}
		if n < len(deleted) {
			if !del[h] {
				return false
			}
			n++
		}
	}
	return n == len(deleted)
}
