package filterfmt

import (
	"bytes"
	"crypto/sha256"
	"encoding/binary"
	"math/bits"
	"sort"
)

// BIP158 "basic" filter parameters.
const (
	BasicP = 19
	BasicM = 784931
)

// mulHi is the high 64 bits of the 128-bit product a*b.
func mulHi(a, b uint64) uint64 {
	hi, _ := bits.Mul64(a, b)
	return hi
}

// HashToRange is BIP158's hash_to_range: (siphash(k, item) * F) >> 64 with a
// 64x64->128 bit multiplication.
func HashToRange(key [16]byte, item []byte, f uint64) uint64 {
	k0, k1 := SipKey(key)
	return mulHi(SipHash24(k0, k1, item), f)
}

// HashedSet is BIP158's hashed_set_construct followed by the sort: every item
// (a multiset: duplicates are kept, N = len(items)) mapped to [0, N*M).
func HashedSet(key [16]byte, m uint64, items [][]byte) []uint64 {
	n := uint64(len(items))
	f := n * m
	out := make([]uint64, len(items))
	k0, k1 := SipKey(key)
	for i, it := range items {
		out[i] = mulHi(SipHash24(k0, k1, it), f)
	}
	sort.Slice(out, func(a, b int) bool { return out[a] < out[b] })
	return out
}

// bitWriter writes a big-endian bit stream (the first bit written is the most
// significant bit of the first byte); the last byte is padded with zero bits.
type bitWriter struct {
	buf  []byte
	free uint // unused low bits in the last byte
}

func (w *bitWriter) bit(b uint64) {
	if w.free == 0 {
		w.buf = append(w.buf, 0)
		w.free = 8
	}
	w.free--
	if b&1 != 0 {
		w.buf[len(w.buf)-1] |= 1 << w.free
	}
}

// ones writes n one-bits.
func (w *bitWriter) ones(n uint64) {
	for n > 0 && w.free != 0 {
		w.bit(1)
		n--
	}
	for n >= 8 {
		w.buf = append(w.buf, 0xff)
		n -= 8
	}
	for ; n > 0; n-- {
		w.bit(1)
	}
}

// GolombEncode is BIP158's golomb_encode applied to the differences of a
// sorted list: quotient (delta >> P) in unary (that many 1 bits and a 0 bit),
// then the low P bits of delta, most significant bit first.
func GolombEncode(p uint, sorted []uint64) []byte {
	var w bitWriter
	var last uint64
	for _, v := range sorted {
		d := v - last
		last = v
		w.ones(d >> p)
		w.bit(0)
		for i := int(p) - 1; i >= 0; i-- {
			w.bit(d >> uint(i))
		}
	}
	return w.buf
}

// bitReader reads a big-endian bit stream.
type bitReader struct {
	buf []byte
	pos uint64 // bit position
}

func (r *bitReader) bit() (uint64, bool) {
	if r.pos >= uint64(len(r.buf))*8 {
		return 0, false
	}
	b := (r.buf[r.pos>>3] >> (7 - r.pos&7)) & 1
	r.pos++
	return uint64(b), true
}

// GolombDecode decodes at most max values (the running sums of the decoded
// deltas) from a Golomb-Rice coded stream and stops at the first value that is
// not completely present. Arithmetic is modulo 2^64 like every 64-bit decoder.
func GolombDecode(p uint, data []byte, max uint64) []uint64 {
	r := bitReader{buf: data}
	var out []uint64
	var sum uint64
	for uint64(len(out)) < max {
		var q uint64
		for {
			b, ok := r.bit()
			if !ok {
				return out
			}
			if b == 0 {
				break
			}
			q++
		}
		var rem uint64
		for i := uint(0); i < p; i++ {
			b, ok := r.bit()
			if !ok {
				return out
			}
			rem = rem<<1 | b
		}
		sum += q<<p + rem
		out = append(out, sum)
	}
	return out
}

// CompactSize is Bitcoin's variable length integer.
func CompactSize(n uint64) []byte {
	switch {
	case n < 0xfd:
		return []byte{byte(n)}
	case n <= 0xffff:
		return []byte{0xfd, byte(n), byte(n >> 8)}
	case n <= 0xffffffff:
		b := []byte{0xfe, 0, 0, 0, 0}
		binary.LittleEndian.PutUint32(b[1:], uint32(n))
		return b
	}
	b := make([]byte, 9)
	b[0] = 0xff
	binary.LittleEndian.PutUint64(b[1:], n)
	return b
}

// ReadCompactSize parses a canonical CompactSize; ok is false when the input
// is too short or the encoding is not minimal.
func ReadCompactSize(b []byte) (n uint64, size int, ok bool) {
	if len(b) == 0 {
		return 0, 0, false
	}
	switch b[0] {
	case 0xfd:
		if len(b) < 3 {
			return 0, 0, false
		}
		n = uint64(binary.LittleEndian.Uint16(b[1:]))
		return n, 3, n >= 0xfd
	case 0xfe:
		if len(b) < 5 {
			return 0, 0, false
		}
		n = uint64(binary.LittleEndian.Uint32(b[1:]))
		return n, 5, n > 0xffff
	case 0xff:
		if len(b) < 9 {
			return 0, 0, false
		}
		n = binary.LittleEndian.Uint64(b[1:])
		return n, 9, n > 0xffffffff
	}
	return uint64(b[0]), 1, true
}

// GCS is the reference view of one Golomb-coded set.
type GCS struct {
	Key    [16]byte
	P      uint
	M      uint64
	N      uint64
	Values []uint64 // sorted, with duplicates
	Raw    []byte   // Golomb-Rice stream without N (BIP158 "filter" minus the CompactSize prefix)
	set    map[uint64]struct{}
}

// BuildGCS constructs the set for a multiset of items (N = len(items)).
func BuildGCS(key [16]byte, p uint, m uint64, items [][]byte) *GCS {
	g := &GCS{Key: key, P: p, M: m, N: uint64(len(items))}
	g.Values = HashedSet(key, m, items)
	g.Raw = GolombEncode(p, g.Values)
	g.index()
	return g
}

// DecodeGCS is the reference reading of (N, P, M, raw): the first N completely
// present values of the stream (fewer when the stream is short).
func DecodeGCS(key [16]byte, p uint, m uint64, n uint64, raw []byte) *GCS {
	g := &GCS{Key: key, P: p, M: m, N: n, Raw: raw}
	g.Values = GolombDecode(p, raw, n)
	g.index()
	return g
}

func (g *GCS) index() {
	g.set = make(map[uint64]struct{}, len(g.Values))
	for _, v := range g.Values {
		g.set[v] = struct{}{}
	}
}

// F is the range N*M (modulo 2^64, callers keep it below).
func (g *GCS) F() uint64 { return g.N * g.M }

// Term maps a query item into the filter's range.
func (g *GCS) Term(item []byte) uint64 { return HashToRange(g.Key, item, g.F()) }

// HasValue reports membership of a range value.
func (g *GCS) HasValue(v uint64) bool { _, ok := g.set[v]; return ok }

// Match is BIP158's gcs_match for one item.
func (g *GCS) Match(item []byte) bool {
	if g.N == 0 {
		return false
	}
	return g.HasValue(g.Term(item))
}

// MatchAny is the OR of Match over a batch.
func (g *GCS) MatchAny(items [][]byte) bool {
	for _, it := range items {
		if g.Match(it) {
			return true
		}
	}
	return false
}

// NBytes is the BIP158 serialisation: CompactSize(N) || stream.
func (g *GCS) NBytes() []byte { return append(CompactSize(g.N), g.Raw...) }

// PBytes is P (one byte) || stream.
func (g *GCS) PBytes() []byte { return append([]byte{byte(g.P)}, g.Raw...) }

// NPBytes is CompactSize(N) || P || stream.
func (g *GCS) NPBytes() []byte {
	return append(append(CompactSize(g.N), byte(g.P)), g.Raw...)
}

// DSHA256 is SHA256(SHA256(b)).
func DSHA256(b []byte) [32]byte {
	h := sha256.Sum256(b)
	return sha256.Sum256(h[:])
}

// FilterHash is BIP157's filter hash: double-SHA256 of the serialised filter
// (including the CompactSize N).
func FilterHash(nbytes []byte) [32]byte { return DSHA256(nbytes) }

// FilterHeader is BIP157's filter header: double-SHA256(filterHash || prevHeader).
func FilterHeader(filterHash, prev [32]byte) [32]byte {
	var b [64]byte
	copy(b[:32], filterHash[:])
	copy(b[32:], prev[:])
	return DSHA256(b[:])
}

// BasicElements is the BIP158 basic filter element set: the scriptPubKey of
// every output except those that are empty or begin with OP_RETURN (0x6a), and
// every spent previous output script except empty ones ("any nil items MUST
// NOT be included"); duplicates collapse. The result is sorted bytewise so
// that it is canonical.
func BasicElements(outScripts, prevScripts [][]byte) [][]byte {
	seen := map[string]struct{}{}
	var out [][]byte
	add := func(s []byte) {
		if _, dup := seen[string(s)]; dup {
			return
		}
		seen[string(s)] = struct{}{}
		out = append(out, append([]byte(nil), s...))
	}
	for _, s := range outScripts {
		if len(s) == 0 || s[0] == 0x6a {
			continue
		}
		add(s)
	}
	for _, s := range prevScripts {
		if len(s) == 0 {
			continue
		}
		add(s)
	}
	sort.Slice(out, func(a, b int) bool { return bytes.Compare(out[a], out[b]) < 0 })
	return out
}

// BasicKey is the SipHash key of a block's basic filter: the first 16 bytes of
// the block hash (internal byte order, i.e. as hashed).
func BasicKey(blockHash [32]byte) (k [16]byte) {
	copy(k[:], blockHash[:16])
	return
}
