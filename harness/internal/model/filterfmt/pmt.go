package filterfmt

import (
	"encoding/binary"
	"errors"
	"fmt"
)

// MerkleRoot is Bitcoin's transaction merkle root: pair up hashes level by
// level, duplicating the last one of an odd level.
func MerkleRoot(txids [][32]byte) [32]byte {
	if len(txids) == 0 {
		return [32]byte{}
	}
	level := append([][32]byte(nil), txids...)
	for len(level) > 1 {
		if len(level)%2 == 1 {
			level = append(level, level[len(level)-1])
		}
		next := make([][32]byte, len(level)/2)
		for i := range next {
			next[i] = hashPair(level[2*i], level[2*i+1])
		}
		level = next
	}
	return level[0]
}

func hashPair(l, r [32]byte) [32]byte {
	var b [64]byte
	copy(b[:32], l[:])
	copy(b[32:], r[:])
	return DSHA256(b[:])
}

// Header is an 80-byte block header.
type Header struct {
	Version    int32
	PrevBlock  [32]byte
	MerkleRoot [32]byte
	Time       uint32
	Bits       uint32
	Nonce      uint32
}

// Serialize is the 80-byte wire form.
func (h *Header) Serialize() []byte {
	b := make([]byte, 80)
	binary.LittleEndian.PutUint32(b[0:], uint32(h.Version))
	copy(b[4:], h.PrevBlock[:])
	copy(b[36:], h.MerkleRoot[:])
	binary.LittleEndian.PutUint32(b[68:], h.Time)
	binary.LittleEndian.PutUint32(b[72:], h.Bits)
	binary.LittleEndian.PutUint32(b[76:], h.Nonce)
	return b
}

// Hash is the block hash (internal byte order).
func (h *Header) Hash() [32]byte { return DSHA256(h.Serialize()) }

// PMTResult is what a BIP37 partial merkle tree proves.
type PMTResult struct {
	Root      [32]byte
	Matches   [][32]byte
	Positions []uint32
	// NonZeroPadding: a padding bit of the last flag byte is set.
	NonZeroPadding bool
	BitsUsed       int
}

// VerifyPMT is the BIP37 partial-merkle-tree parsing algorithm ("Partial
// Merkle branch format"; CPartialMerkleTree::ExtractMatches): the tree over
// nTx leaves is traversed depth first; each node consumes one flag bit; a node
// whose bit is 0, or a leaf, consumes one hash; a leaf whose bit is 1 is a
// matched transaction; the right child of a node without a right sibling is a
// copy of the left one. The proof is rejected when hashes or flag bits are
// left over (beyond the zero padding of the last flag byte), when it runs out
// of either, or when both children of a node have the same hash
// (CVE-2012-2459 guard).
func VerifyPMT(nTx uint32, hashes [][32]byte, flags []byte) (*PMTResult, error) {
	if nTx == 0 {
		return nil, errors.New("no transactions")
	}
	if uint64(len(hashes)) > uint64(nTx) {
		return nil, errors.New("more hashes than transactions")
	}
	nBits := len(flags) * 8
	if nBits < len(hashes) {
		return nil, errors.New("fewer flag bits than hashes")
	}
	width := func(height uint) uint32 {
		return uint32((uint64(nTx) + (uint64(1) << height) - 1) >> height)
	}
	height := uint(0)
	for width(height) > 1 {
		height++
	}
	res := &PMTResult{}
	bitPos, hashPos := 0, 0
	var walk func(h uint, pos uint32) ([32]byte, error)
	walk = func(h uint, pos uint32) ([32]byte, error) {
		if bitPos >= nBits {
			return [32]byte{}, errors.New("ran out of flag bits")
		}
		parent := flags[bitPos/8]>>(uint(bitPos)%8)&1 == 1
		bitPos++
		if h == 0 || !parent {
			if hashPos >= len(hashes) {
				return [32]byte{}, errors.New("ran out of hashes")
			}
			hv := hashes[hashPos]
			hashPos++
			if h == 0 && parent {
				res.Matches = append(res.Matches, hv)
				res.Positions = append(res.Positions, pos)
			}
			return hv, nil
		}
		left, err := walk(h-1, pos*2)
		if err != nil {
			return left, err
		}
		right := left
		if pos*2+1 < width(h-1) {
			right, err = walk(h-1, pos*2+1)
			if err != nil {
				return right, err
			}
			if right == left {
				return right, errors.New("identical left and right children")
			}
		}
		return hashPair(left, right), nil
	}
	root, err := walk(height, 0)
	if err != nil {
		return nil, err
	}
	if (bitPos+7)/8 != len(flags) {
		return nil, fmt.Errorf("unused flag bytes: %d bits used of %d bytes", bitPos, len(flags))
	}
	for i := bitPos; i < nBits; i++ {
		if flags[i/8]>>(uint(i)%8)&1 != 0 {
			res.NonZeroPadding = true // not forbidden by BIP37; reported only
		}
	}
	if hashPos != len(hashes) {
		return nil, fmt.Errorf("unused hashes: %d of %d consumed", hashPos, len(hashes))
	}
	res.Root = root
	res.BitsUsed = bitPos
	return res, nil
}
