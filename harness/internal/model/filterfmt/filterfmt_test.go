package filterfmt

import "testing"

func TestSelfCheck(t *testing.T) {
	if err := SelfCheck(); err != nil {
		t.Fatalf("VERIF-INFRA: %v", err)
	}
}
