package filterfmt

import (
	"bytes"
	"encoding/hex"
	"fmt"
	"math/big"
)

func mustHex(s string) []byte {
	b, err := hex.DecodeString(s)
	if err != nil {
		panic(err)
	}
	return b
}

func rev32(b []byte) (out [32]byte) {
	for i := 0; i < 32; i++ {
		out[i] = b[31-i]
	}
	return
}

// SelfCheck calibrates the reference on published vectors: the SipHash paper's
// Appendix A example and Bitcoin Core's SipHash vectors, the BIP158 testnet
// genesis filter and BIP157 header, MurmurHash3 and bloom filter vectors from
// Bitcoin Core's test-suite (quoted by BIP37 implementations), block 170's
// merkle root, and hand-computed Golomb-Rice / partial-merkle-tree examples.
// A non-nil error means the harness is broken (exit 2), not btcd.
func SelfCheck() error {
	// --- SipHash-2-4
	k0, k1 := uint64(0x0706050403020100), uint64(0x0f0e0d0c0b0a0908)
	msg := make([]byte, 16)
	for i := range msg {
		msg[i] = byte(i)
	}
	for _, v := range []struct {
		n    int
		want uint64
	}{{0, 0x726fdb47dd0e0e31}, {1, 0x74f839c593dc67fd}, {8, 0x93f5f5799a932462}, {15, 0xa129ca6149be45e5}, {16, 0x3f2acc7f57c29bdb}} {
		if got := SipHash24(k0, k1, msg[:v.n]); got != v.want {
			return fmt.Errorf("SipHash-2-4 vector len %d: got %#x want %#x", v.n, got, v.want)
		}
	}
	var key16 [16]byte
	copy(key16[:], msg)
	if a, b := SipKey(key16); a != k0 || b != k1 {
		return fmt.Errorf("SipKey split wrong")
	}

	// --- hash to range equals the 128-bit product shifted by 64 (math/big)
	for _, c := range [][2]uint64{{0xffffffffffffffff, 0xffffffffffffffff}, {0x8000000000000001, 784931 * 7000}, {12345678901234567, 1 << 51}, {1, 1}} {
		p := new(big.Int).Mul(new(big.Int).SetUint64(c[0]), new(big.Int).SetUint64(c[1]))
		p.Rsh(p, 64)
		// find an item-independent check: reuse the multiply directly
		hi := mulHi(c[0], c[1])
		if hi != p.Uint64() {
			return fmt.Errorf("mulHi(%#x,%#x) = %#x want %#x", c[0], c[1], hi, p.Uint64())
		}
	}

	// --- Golomb-Rice, by hand: P=2, values 1,5,5,12 -> deltas 1,4,0,7
	//   1 -> 0 01 ; 4 -> 10 00 ; 0 -> 0 00 ; 7 -> 10 11  => 0011 0000 0010 1100
	if got := GolombEncode(2, []uint64{1, 5, 5, 12}); !bytes.Equal(got, []byte{0x30, 0x2c}) {
		return fmt.Errorf("Golomb hand vector: got %x", got)
	}
	if got := GolombDecode(2, []byte{0x30, 0x2c}, 4); len(got) != 4 || got[0] != 1 || got[1] != 5 || got[2] != 5 || got[3] != 12 {
		return fmt.Errorf("Golomb decode hand vector: got %v", got)
	}
	if got := GolombDecode(2, []byte{0x30}, 4); len(got) != 2 {
		return fmt.Errorf("Golomb decode of a truncated stream: got %v", got)
	}

	// --- BIP158 test vector (testnet-19.json, height 0): the genesis block's
	// only element is its coinbase output script.
	genesisScript := mustHex("4104678afdb0fe5548271967f1a67130b7105cd6a828e03909a67962e0ea1f61deb649f6bc3f4cef38c4f35504e51ec112de5c384df7ba0b8d578a4c702b6bf11d5fac")
	blockHash := rev32(mustHex("000000000933ea01ad0ee984209779baaec3ced90fa3f408719526f8d77f4943"))
	els := BasicElements([][]byte{genesisScript}, nil)
	g := BuildGCS(BasicKey(blockHash), BasicP, BasicM, els)
	if !bytes.Equal(g.NBytes(), mustHex("019dfca8")) {
		return fmt.Errorf("BIP158 genesis filter: got %x want 019dfca8", g.NBytes())
	}
	hdr := FilterHeader(FilterHash(g.NBytes()), [32]byte{})
	if hdr != rev32(mustHex("21584579b7eb08997773e5aeff3a7f932700042d0ed2a6129012b7d7ae81b750")) {
		return fmt.Errorf("BIP157 genesis filter header: got %x", hdr)
	}
	if !g.Match(genesisScript) || g.Match([]byte("not in the filter")) {
		return fmt.Errorf("reference match on the genesis filter")
	}
	// testnet header of the same block must hash to the block hash
	th := Header{Version: 1, MerkleRoot: rev32(mustHex("4a5e1e4baab89f3a32518a88c31bc87f618f76673e2cc77ab2127b7afdeda33b")),
		Time: 1296688602, Bits: 0x1d00ffff, Nonce: 414098458}
	if th.Hash() != blockHash {
		return fmt.Errorf("header serialisation: testnet genesis hashes to %x", th.Hash())
	}

	// --- CompactSize
	for _, c := range []struct {
		n uint64
		h string
	}{{0, "00"}, {252, "fc"}, {253, "fdfd00"}, {65535, "fdffff"}, {65536, "fe00000100"}, {1 << 32, "ff0000000001000000"}} {
		if !bytes.Equal(CompactSize(c.n), mustHex(c.h)) {
			return fmt.Errorf("CompactSize(%d) = %x", c.n, CompactSize(c.n))
		}
		if n, sz, ok := ReadCompactSize(mustHex(c.h)); !ok || n != c.n || sz != len(c.h)/2 {
			return fmt.Errorf("ReadCompactSize(%s)", c.h)
		}
	}

	// --- MurmurHash3 (Bitcoin Core hash_tests.cpp)
	for _, v := range []struct {
		want, seed uint32
		data       string
	}{{0x00000000, 0x00000000, ""}, {0x6a396f08, 0xFBA4C795, ""}, {0x81f16f39, 0xffffffff, ""},
		{0x514e28b7, 0, "00"}, {0xea3f0b17, 0xFBA4C795, "00"}, {0xfd6cf10d, 0, "ff"},
		{0x16c6b7ab, 0, "0011"}, {0x8eb51c3d, 0, "001122"}, {0xb4471bf8, 0, "00112233"},
		{0xe2301fa8, 0, "0011223344"}, {0xfc2e4a15, 0, "001122334455"}, {0xb074502c, 0, "00112233445566"},
		{0x8034d2a0, 0, "0011223344556677"}, {0xb4698def, 0, "001122334455667788"}} {
		if got := Murmur3(v.seed, mustHex(v.data)); got != v.want {
			return fmt.Errorf("Murmur3(%#x,%s) = %#x want %#x", v.seed, v.data, got, v.want)
		}
	}

	// --- bloom filter vectors (Bitcoin Core bloom_tests.cpp:
	// bloom_create_insert_serialize and ..._with_tweak): 3 elements, fp 0.01
	for _, v := range []struct {
		tweak uint32
		bits  string
	}{{0, "614e9b"}, {2147483649, "ce4299"}} {
		lo, hi := BloomBytesRange(3, 0.01)
		if lo != 3 || hi != 3 {
			return fmt.Errorf("BloomBytesRange(3,0.01) = %d..%d want 3", lo, hi)
		}
		klo, khi := BloomFuncsRange(3, 3)
		if klo != 5 || khi != 5 {
			return fmt.Errorf("BloomFuncsRange(3,3) = %d..%d want 5", klo, khi)
		}
		b := NewBloom(make([]byte, 3), 5, v.tweak, UpdateAll)
		a1 := mustHex("99108ad8ed9bb6274d3980bab5a85c048f0950c8")
		b.Add(a1)
		if !b.Contains(a1) || b.Contains(mustHex("19108ad8ed9bb6274d3980bab5a85c048f0950c8")) {
			return fmt.Errorf("bloom vector: membership after the first insert")
		}
		b.Add(mustHex("b5a2c786d9ef4658287ced5914b37a1b4aa32eee"))
		b.Add(mustHex("b9300670b4c5366e95b2699e8b18bc75e5f729c5"))
		if !bytes.Equal(b.Bits, mustHex(v.bits)) {
			return fmt.Errorf("bloom vector tweak %d: bits %x want %s", v.tweak, b.Bits, v.bits)
		}
	}

	// --- merkle root of mainnet block 170 (two transactions)
	t0 := rev32(mustHex("b1fea52486ce0c62bb442b530a3f0132b826c74e473d1f2c220bfa78111c5082"))
	t1 := rev32(mustHex("f4184fc596403b9d638783cf57adfe4c75c605f6356fbc91338530e9831e9e16"))
	if MerkleRoot([][32]byte{t0, t1}) != rev32(mustHex("7dac2c5666815c17a3b36427de37bb9d2e2c5ccec3f8633eb91a4205cb4c10ff")) {
		return fmt.Errorf("merkle root of block 170: got %x", MerkleRoot([][32]byte{t0, t1}))
	}

	// --- partial merkle tree, by hand: 3 leaves, leaf 1 matched.
	// depth-first bits: root=1, node(1,0)=1, leaf0=0, leaf1=1, node(1,1)=0 -> 0b01011 = 0x0b
	var l [3][32]byte
	for i := range l {
		l[i] = DSHA256([]byte{byte(i)})
	}
	right := hashPair(l[2], l[2])
	res, err := VerifyPMT(3, [][32]byte{l[0], l[1], right}, []byte{0x0b})
	if err != nil || res.Root != MerkleRoot(l[:]) || len(res.Matches) != 1 || res.Matches[0] != l[1] || res.Positions[0] != 1 {
		return fmt.Errorf("partial merkle tree hand vector: %v %+v", err, res)
	}
	if _, err := VerifyPMT(3, [][32]byte{l[0], l[1], right, l[2]}, []byte{0x0b}); err == nil {
		return fmt.Errorf("partial merkle tree with an unused hash accepted")
	}
	if _, err := VerifyPMT(3, [][32]byte{l[0], l[1], right}, []byte{0x0b, 0x00}); err == nil {
		return fmt.Errorf("partial merkle tree with an unused flag byte accepted")
	}
	if _, err := VerifyPMT(3, [][32]byte{l[0], l[1]}, []byte{0x0b}); err == nil {
		return fmt.Errorf("partial merkle tree with a missing hash accepted")
	}

	// --- scripts
	pk := append([]byte{2}, bytes.Repeat([]byte{0x11}, 32)...)
	p2pk := append(append([]byte{33}, pk...), 0xac)
	ms := append([]byte{0x51, 33}, pk...)
	ms = append(ms, 33)
	ms = append(ms, append([]byte{3}, bytes.Repeat([]byte{0x22}, 32)...)...)
	ms = append(ms, 0x52, 0xae)
	p2pkh := append(append([]byte{0x76, 0xa9, 20}, bytes.Repeat([]byte{7}, 20)...), 0x88, 0xac)
	if !IsPayToPubKey(p2pk) || IsPayToPubKey(p2pkh) || !IsBareMultisig(ms) || IsBareMultisig(p2pk) || IsBareMultisig(p2pkh) {
		return fmt.Errorf("script template predicates")
	}
	if p, ok := ScriptPushes(ms); !ok || len(p) != 2 || !bytes.Equal(p[0], pk) {
		return fmt.Errorf("ScriptPushes(multisig)")
	}
	if p, ok := ScriptPushes([]byte{0x01, 0xaa, 0x4c, 0x02, 0xbb, 0xcc, 0x00, 0x05, 0x01}); ok || len(p) != 3 || len(p[2]) != 0 {
		return fmt.Errorf("ScriptPushes(truncated) = %x %v", p, ok)
	}
	return nil
}
