// Package filterfmt is the independent reference for property C20: BIP158
// Golomb-coded sets (SipHash-2-4, hash-to-range, Golomb-Rice coding), BIP157
// filter hashes/headers, BIP37 bloom filters (MurmurHash3, sizing formulas,
// transaction relevance with update flags) and the BIP37 partial-merkle-tree
// verifier.
//
// Everything here is written from the specifications (the SipHash paper,
// BIPs 37/157/158, Bitcoin Core's documented behaviour where a BIP is silent).
// It shares no code with btcd: only the Go standard library is imported.
package filterfmt

import (
	"encoding/binary"
	"math/bits"
)

// SipHash24 is SipHash-2-4 (Aumasson & Bernstein, "SipHash: a fast
// short-input PRF", section 2) with the 128-bit key k = k0 || k1 given as two
// little-endian 64-bit words, returning the 64-bit tag.
func SipHash24(k0, k1 uint64, m []byte) uint64 {
	// initialisation: "somepseudorandomlygeneratedbytes"
	v0 := k0 ^ 0x736f6d6570736575
	v1 := k1 ^ 0x646f72616e646f6d
	v2 := k0 ^ 0x6c7967656e657261
	v3 := k1 ^ 0x7465646279746573

	round := func() {
		v0 += v1
		v2 += v3
		v1 = bits.RotateLeft64(v1, 13)
		v3 = bits.RotateLeft64(v3, 16)
		v1 ^= v0
		v3 ^= v2
		v0 = bits.RotateLeft64(v0, 32)
		v2 += v1
		v0 += v3
		v1 = bits.RotateLeft64(v1, 17)
		v3 = bits.RotateLeft64(v3, 21)
		v1 ^= v2
		v3 ^= v0
		v2 = bits.RotateLeft64(v2, 32)
	}

	// compression: the message is parsed into w = ceil((b+1)/8) 64-bit
	// little-endian words, the last of which carries b mod 256 in its top byte.
	n := len(m)
	i := 0
	for ; i+8 <= n; i += 8 {
		w := binary.LittleEndian.Uint64(m[i:])
		v3 ^= w
		round()
		round()
		v0 ^= w
	}
	last := uint64(n&0xff) << 56
	for j := 0; i+j < n; j++ {
		last |= uint64(m[i+j]) << (8 * uint(j))
	}
	v3 ^= last
	round()
	round()
	v0 ^= last

	// finalisation
	v2 ^= 0xff
	round()
	round()
	round()
	round()
	return v0 ^ v1 ^ v2 ^ v3
}

// SipKey splits a 16-byte key into the two little-endian words of the paper.
func SipKey(key [16]byte) (k0, k1 uint64) {
	return binary.LittleEndian.Uint64(key[0:8]), binary.LittleEndian.Uint64(key[8:16])
}
