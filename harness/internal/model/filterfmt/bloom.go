package filterfmt

import (
	"encoding/binary"
	"math"
	"math/bits"
)

// BIP37 limits and update flags.
const (
	MaxBloomBytes = 36000
	MaxBloomFuncs = 50

	UpdateNone         = 0
	UpdateAll          = 1
	UpdateP2PubkeyOnly = 2
)

// Murmur3 is MurmurHash3_x86_32 (Appleby's reference algorithm, as BIP37
// names it).
func Murmur3(seed uint32, data []byte) uint32 {
	const c1, c2 = 0xcc9e2d51, 0x1b873593
	h := seed
	n := len(data)
	for i := 0; i+4 <= n; i += 4 {
		k := uint32(data[i]) | uint32(data[i+1])<<8 | uint32(data[i+2])<<16 | uint32(data[i+3])<<24
		k *= c1
		k = bits.RotateLeft32(k, 15)
		k *= c2
		h ^= k
		h = bits.RotateLeft32(h, 13)
		h = h*5 + 0xe6546b64
	}
	tail := data[n&^3:]
	var k uint32
	for i := len(tail) - 1; i >= 0; i-- {
		k = k<<8 | uint32(tail[i])
	}
	if len(tail) > 0 {
		k *= c1
		k = bits.RotateLeft32(k, 15)
		k *= c2
		h ^= k
	}
	h ^= uint32(n)
	h ^= h >> 16
	h *= 0x85ebca6b
	h ^= h >> 13
	h *= 0xc2b2ae35
	h ^= h >> 16
	return h
}

// BloomBytesRange evaluates BIP37's sizing formulas
//
//	bytes = min(-1/ln(2)^2 * N * ln(P), 36000*8) / 8        (integer truncation)
//	funcs = min(bytes*8 / N * ln(2), 50)
//
// Floating point evaluation order is not fixed by the BIP, so each result is
// returned as the closed interval of integers obtained when the real value is
// perturbed by a few ulps (the interval is a single value unless the real
// value sits on an integer).
func BloomBytesRange(n uint32, fp float64) (lo, hi uint32) {
	x := -1 / (math.Ln2 * math.Ln2) * float64(n) * math.Log(fp)
	f := func(v float64) uint32 {
		if !(v > 0) {
			return 0
		}
		if v > MaxBloomBytes*8 {
			v = MaxBloomBytes * 8
		}
		return uint32(v) / 8
	}
	return f(x * (1 - 4e-15)), f(x * (1 + 4e-15))
}

// BloomFuncsRange: see BloomBytesRange; nBytes is the actual size in bytes.
func BloomFuncsRange(nBytes, n uint32) (lo, hi uint32) {
	if n == 0 {
		return 0, 0 // undefined by the formula; callers do not assert
	}
	y := float64(nBytes) * 8 / float64(n) * math.Ln2
	f := func(v float64) uint32 {
		if !(v > 0) {
			return 0
		}
		if v > MaxBloomFuncs {
			v = MaxBloomFuncs
		}
		return uint32(v)
	}
	return f(y * (1 - 4e-15)), f(y * (1 + 4e-15))
}

// Bloom is the reference BIP37 filter.
type Bloom struct {
	Bits  []byte
	K     uint32
	Tweak uint32
	Flags uint8
}

// NewBloom copies the given bit field.
func NewBloom(bitsField []byte, k, tweak uint32, flags uint8) *Bloom {
	return &Bloom{Bits: append([]byte(nil), bitsField...), K: k, Tweak: tweak, Flags: flags}
}

// bitIndex: hash function i uses seed i*0xFBA4C795 + nTweak, the bit is the
// hash modulo the number of bits.
func (b *Bloom) bitIndex(i uint32, data []byte) uint32 {
	return Murmur3(i*0xFBA4C795+b.Tweak, data) % (uint32(len(b.Bits)) * 8)
}

// Add sets the K bits of data ("vData[nIndex >> 3] |= (1 << (7 & nIndex))").
func (b *Bloom) Add(data []byte) {
	if len(b.Bits) == 0 {
		return
	}
	for i := uint32(0); i < b.K; i++ {
		idx := b.bitIndex(i, data)
		b.Bits[idx>>3] |= 1 << (idx & 7)
	}
}

// Contains: all K bits are set (vacuously true for K = 0). A zero-size filter
// is Bitcoin Core's "match-all" filter; the property under test makes no claim
// about it and the callers do not assert on it.
func (b *Bloom) Contains(data []byte) bool {
	if len(b.Bits) == 0 {
		return true
	}
	for i := uint32(0); i < b.K; i++ {
		idx := b.bitIndex(i, data)
		if b.Bits[idx>>3]&(1<<(idx&7)) == 0 {
			return false
		}
	}
	return true
}

// OutPointBytes is the serialised COutPoint: 32-byte txid || LE32 index.
func OutPointBytes(txid [32]byte, index uint32) []byte {
	b := make([]byte, 36)
	copy(b, txid[:])
	binary.LittleEndian.PutUint32(b[32:], index)
	return b
}

// ---------------------------------------------------------------------------
// scripts

// ScriptPushes parses a script and returns the data of every push operation
// (opcodes 0x00..0x4e; OP_0 pushes the empty vector) in order. ok is false if
// a push runs past the end of the script; the pushes before that point are
// still returned.
func ScriptPushes(s []byte) (pushes [][]byte, ok bool) {
	i := 0
	for i < len(s) {
		op := s[i]
		i++
		var n int
		switch {
		case op == 0x00:
			pushes = append(pushes, []byte{})
			continue
		case op <= 0x4b:
			n = int(op)
		case op == 0x4c:
			if i+1 > len(s) {
				return pushes, false
			}
			n = int(s[i])
			i++
		case op == 0x4d:
			if i+2 > len(s) {
				return pushes, false
			}
			n = int(binary.LittleEndian.Uint16(s[i:]))
			i += 2
		case op == 0x4e:
			if i+4 > len(s) {
				return pushes, false
			}
			n64 := uint64(binary.LittleEndian.Uint32(s[i:]))
			i += 4
			if n64 > uint64(len(s)-i) {
				return pushes, false
			}
			n = int(n64)
		default:
			continue
		}
		if n > len(s)-i {
			return pushes, false
		}
		pushes = append(pushes, s[i:i+n])
		i += n
	}
	return pushes, true
}

func validPubKey(k []byte) bool {
	switch len(k) {
	case 33:
		return k[0] == 2 || k[0] == 3
	case 65:
		return k[0] == 4
	}
	return false
}

// IsPayToPubKey: <33- or 65-byte public key> OP_CHECKSIG.
func IsPayToPubKey(s []byte) bool {
	if len(s) == 35 && s[0] == 33 && s[34] == 0xac {
		return validPubKey(s[1:34])
	}
	if len(s) == 67 && s[0] == 65 && s[66] == 0xac {
		return validPubKey(s[1:66])
	}
	return false
}

// IsBareMultisig: OP_m <pubkey>... OP_n OP_CHECKMULTISIG with 1 <= m <= n <= 16
// and direct pushes of well-formed public keys.
func IsBareMultisig(s []byte) bool {
	if len(s) < 3 || s[len(s)-1] != 0xae {
		return false
	}
	m := int(s[0]) - 0x50
	if m < 1 || m > 16 {
		return false
	}
	i, keys := 1, 0
	for i < len(s) && (s[i] == 33 || s[i] == 65) {
		n := int(s[i])
		if i+1+n > len(s) || !validPubKey(s[i+1:i+1+n]) {
			return false
		}
		i += 1 + n
		keys++
	}
	if i != len(s)-2 {
		return false
	}
	n := int(s[i]) - 0x50
	return n >= 1 && n <= 16 && n == keys && m <= n
}

// ---------------------------------------------------------------------------
// transactions

// TxIn / TxOut / Tx carry exactly what BIP37 looks at.
type TxIn struct {
	PrevHash  [32]byte
	PrevIndex uint32
	SigScript []byte
	Sequence  uint32
}

type TxOut struct {
	Value    int64
	PkScript []byte
}

type Tx struct {
	Version  int32
	In       []TxIn
	Out      []TxOut
	LockTime uint32
}

// Serialize is the original (non-witness) transaction serialisation.
func (t *Tx) Serialize() []byte {
	var b []byte
	var u4 [4]byte
	var u8 [8]byte
	binary.LittleEndian.PutUint32(u4[:], uint32(t.Version))
	b = append(b, u4[:]...)
	b = append(b, CompactSize(uint64(len(t.In)))...)
	for _, in := range t.In {
		b = append(b, in.PrevHash[:]...)
		binary.LittleEndian.PutUint32(u4[:], in.PrevIndex)
		b = append(b, u4[:]...)
		b = append(b, CompactSize(uint64(len(in.SigScript)))...)
		b = append(b, in.SigScript...)
		binary.LittleEndian.PutUint32(u4[:], in.Sequence)
		b = append(b, u4[:]...)
	}
	b = append(b, CompactSize(uint64(len(t.Out)))...)
	for _, o := range t.Out {
		binary.LittleEndian.PutUint64(u8[:], uint64(o.Value))
		b = append(b, u8[:]...)
		b = append(b, CompactSize(uint64(len(o.PkScript)))...)
		b = append(b, o.PkScript...)
	}
	binary.LittleEndian.PutUint32(u4[:], t.LockTime)
	return append(b, u4[:]...)
}

// TxID is the double-SHA256 of the non-witness serialisation.
func (t *Tx) TxID() [32]byte { return DSHA256(t.Serialize()) }

// Relevance is the outcome of the BIP37 relevance test of one transaction.
type Relevance struct {
	Match bool
	// Ambiguous: the verdict or the update depends on whether zero-length
	// pushes (OP_0) are "data elements"; BIP37 does not say (Bitcoin Core skips
	// them). The filter state is then unspecified too.
	Ambiguous bool
	// Unparseable: some script has a push running past its end; BIP37 does not
	// say what is tested then (Bitcoin Core tests the pushes before it).
	Unparseable bool
	Reason      string   // first reason of the match
	Added       []uint32 // output indices whose outpoint was inserted
}

// RelevantAndUpdate is BIP37's filter matching algorithm ("Filter matching
// algorithm" section; CBloomFilter::IsRelevantAndUpdate):
//
//  1. test the txid;
//  2. for each output, test each data element of the output script; if one
//     matches, the outpoint is inserted according to the update flag
//     (ALL: always; P2PUBKEY_ONLY: only for pay-to-pubkey / multisig scripts);
//  3. for each input, test the serialised previous outpoint;
//  4. for each input, test each data element of the input script.
//
// Steps 3 and 4 cannot change the filter, so their order is irrelevant to the
// verdict. Zero-length pushes are not tested (Core); if testing them could
// change the verdict or the update the result is flagged Ambiguous.
func (b *Bloom) RelevantAndUpdate(t *Tx) Relevance {
	var r Relevance
	if len(b.Bits) == 0 {
		r.Match, r.Reason = true, "empty-filter-matches-all"
		return r
	}
	txid := t.TxID()
	// evaluated at the time of each zero-length push: inserts change the answer
	emptyHits := func() bool { return b.Contains(nil) }
	ambOut, ambIn := false, false
	if b.Contains(txid[:]) {
		r.Match, r.Reason = true, "txid"
	}
	for i, o := range t.Out {
		pushes, ok := ScriptPushes(o.PkScript)
		if !ok {
			r.Unparseable = true
		}
		for _, d := range pushes {
			if len(d) == 0 {
				if emptyHits() {
					ambOut = true
				}
				continue
			}
			if !b.Contains(d) {
				continue
			}
			if !r.Match {
				r.Match, r.Reason = true, "output-push"
			}
			switch b.Flags {
			case UpdateAll:
				b.Add(OutPointBytes(txid, uint32(i)))
				r.Added = append(r.Added, uint32(i))
			case UpdateP2PubkeyOnly:
				if IsPayToPubKey(o.PkScript) || IsBareMultisig(o.PkScript) {
					b.Add(OutPointBytes(txid, uint32(i)))
					r.Added = append(r.Added, uint32(i))
				}
			}
			break
		}
	}
	for _, in := range t.In {
		pushes, ok := ScriptPushes(in.SigScript)
		if !ok {
			r.Unparseable = true
		}
		if r.Match && r.Reason != "prev-outpoint" && r.Reason != "input-push" {
			continue // matched before the inputs: they are not looked at
		}
		if b.Contains(OutPointBytes(in.PrevHash, in.PrevIndex)) && !r.Match {
			r.Match, r.Reason = true, "prev-outpoint"
		}
		for _, d := range pushes {
			if len(d) == 0 {
				if emptyHits() {
					ambIn = true
				}
				continue
			}
			if b.Contains(d) && !r.Match {
				r.Match, r.Reason = true, "input-push"
			}
		}
	}
	// An empty push among the outputs could have changed the update (and the
	// verdict); one among the inputs only the verdict.
	r.Ambiguous = (ambOut && (b.Flags != UpdateNone || !r.Match)) || (ambIn && !r.Match)
	return r
}
