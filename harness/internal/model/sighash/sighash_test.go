package sighash

import (
	"bytes"
	"encoding/hex"
	"testing"
)

func h(s string) []byte {
	b, err := hex.DecodeString(s)
	if err != nil {
		panic(err)
	}
	return b
}

// The FindAndDelete cases of Bitcoin Core's script_tests.cpp
// (script_FindAndDelete).
func TestFindAndDelete(t *testing.T) {
	cases := []struct {
		s, d, want string
		n          int
	}{
		{"5152", "", "5152", 0},
		{"515253", "52", "5153", 1},
		{"5153535353", "53", "51", 4},
		{"0302ff03", "0302ff03", "", 1},
		{"0302ff030302ff03", "0302ff03", "", 2},
		{"0302ff030302ff03", "02", "0302ff030302ff03", 0},
		{"0302ff030302ff03", "ff", "0302ff030302ff03", 0},
		{"0302ff030302ff03", "03", "02ff0302ff03", 2},
		{"02feed5169", "feed51", "02feed5169", 0},
		{"02feed5169", "02feed51", "69", 1},
		{"516902feed5169", "feed51", "516902feed5169", 0},
		{"516902feed5169", "02feed51", "516969", 1},
		{"00005151", "0051", "0051", 1},
		{"000051005151", "0051", "0051", 2},
		{"0003feed", "03feed", "00", 1},
		{"0003feed", "00", "03feed", 1},
	}
	for _, c := range cases {
		got, n := FindAndDelete(h(c.s), h(c.d))
		if n != c.n || !bytes.Equal(got, h(c.want)) {
			t.Errorf("FindAndDelete(%s, %s) = %x, %d; want %s, %d", c.s, c.d, got, n, c.want, c.n)
		}
	}
}

func TestScriptCodeSerializer(t *testing.T) {
	cases := []struct{ s, want string }{
		{"", "00"},
		{"ab", "00"},
		{"51ab52", "025152"},
		{"abab51abab", "0151"},
		{"02abab", "0302abab"},       // 0xab inside push data stays
		{"4c02ababab", "044c02abab"}, // PUSHDATA1 then a separator
		{"51ab05aa", "035105"},       // malformed tail: Core stops where the tokenizer stopped
	}
	for _, c := range cases {
		if got := serializeScriptCode(h(c.s)); !bytes.Equal(got, h(c.want)) {
			t.Errorf("serializeScriptCode(%s) = %x, want %s", c.s, got, c.want)
		}
	}
}

func TestParseRoundTrip(t *testing.T) {
	raw := h("0100000002fff7f7881a8099afa6940d42d1e7f6362bec38171ea3edf433541db4e4ad969f0000000000eeffffffef51e1b804cc89d182d279655c3aa89e815b1b309fe287d9b2b55d57b90ec68a0100000000ffffffff02202cb206000000001976a9148280b37df378db99f66f85c95a783a76ac7a6d5988ac9093510d000000001976a9143bde42dbee7e4dbe6a21b2d50ce2f0167faa815988ac11000000")
	tx, err := ParseTx(raw)
	if err != nil {
		t.Fatal(err)
	}
	if !bytes.Equal(tx.SerializeNoWitness(), raw) {
		t.Fatalf("round trip differs")
	}
	if len(tx.In) != 2 || len(tx.Out) != 2 || tx.LockTime != 0x11 {
		t.Fatalf("parsed %+v", tx)
	}
}
