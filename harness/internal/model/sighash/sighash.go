// Package sighash is an independent reference of the three Bitcoin
// transaction digest algorithms, written from the specifications:
//
//   - the original ("legacy") SignatureHash of Bitcoin Core
//     (script/interpreter.cpp, CTransactionSignatureSerializer), including the
//     SIGHASH_SINGLE out-of-range digest "one", OP_CODESEPARATOR removal in the
//     script code serializer and FindAndDelete,
//   - BIP143 (segwit version 0),
//   - BIP341 / BIP342 (taproot key path and tapscript).
//
// It shares no code with btcd: it has its own transaction type, its own
// serializer and parser and only uses crypto/sha256 from the standard library.
package sighash

import (
	"crypto/sha256"
	"encoding/binary"
	"errors"
	"fmt"
)

// ---------------------------------------------------------------------------
// transaction data

// TxIn is one transaction input.
type TxIn struct {
	PrevHash  [32]byte // as serialized (internal byte order)
	PrevIndex uint32
	ScriptSig []byte
	Sequence  uint32
	Witness   [][]byte
}

// TxOut is one transaction output (also used for spent outputs).
type TxOut struct {
	Value    int64
	PkScript []byte
}

// Tx is a transaction.
type Tx struct {
	Version  int32
	In       []TxIn
	Out      []TxOut
	LockTime uint32
}

// Hash type constants.
const (
	All          = 1
	None         = 2
	Single       = 3
	AnyoneCanPay = 0x80

	OpCodeSeparator = 0xab
	OpPushData1     = 0x4c
	OpPushData2     = 0x4d
	OpPushData4     = 0x4e
)

// Clone returns a deep copy.
func (t *Tx) Clone() *Tx {
	c := &Tx{Version: t.Version, LockTime: t.LockTime}
	c.In = make([]TxIn, len(t.In))
	for i, in := range t.In {
		c.In[i] = in
		c.In[i].ScriptSig = append([]byte(nil), in.ScriptSig...)
		if in.Witness != nil {
			c.In[i].Witness = make([][]byte, len(in.Witness))
			for j, w := range in.Witness {
				c.In[i].Witness[j] = append([]byte{}, w...)
			}
		}
	}
	c.Out = make([]TxOut, len(t.Out))
	for i, o := range t.Out {
		c.Out[i] = TxOut{Value: o.Value, PkScript: append([]byte(nil), o.PkScript...)}
	}
	return c
}

// ---------------------------------------------------------------------------
// primitive serializers

func le32(v uint32) []byte {
	var b [4]byte
	binary.LittleEndian.PutUint32(b[:], v)
	return b[:]
}

func le64(v uint64) []byte {
	var b [8]byte
	binary.LittleEndian.PutUint64(b[:], v)
	return b[:]
}

// CompactSize encodes n as Bitcoin's variable length integer.
func CompactSize(n uint64) []byte {
	switch {
	case n < 0xfd:
		return []byte{byte(n)}
	case n <= 0xffff:
		return []byte{0xfd, byte(n), byte(n >> 8)}
	case n <= 0xffffffff:
		return append([]byte{0xfe}, le32(uint32(n))...)
	}
	return append([]byte{0xff}, le64(n)...)
}

func varBytes(b []byte) []byte {
	return append(CompactSize(uint64(len(b))), b...)
}

func serOutPoint(in *TxIn) []byte {
	out := make([]byte, 0, 36)
	out = append(out, in.PrevHash[:]...)
	return append(out, le32(in.PrevIndex)...)
}

func serTxOut(o *TxOut) []byte {
	out := append([]byte{}, le64(uint64(o.Value))...)
	return append(out, varBytes(o.PkScript)...)
}

func sha(b []byte) []byte {
	h := sha256.Sum256(b)
	return h[:]
}

func dsha(b []byte) []byte {
	return sha(sha(b))
}

// TaggedHash is BIP340's tagged hash.
func TaggedHash(tag string, msg ...[]byte) [32]byte {
	th := sha256.Sum256([]byte(tag))
	h := sha256.New()
	h.Write(th[:])
	h.Write(th[:])
	for _, m := range msg {
		h.Write(m)
	}
	var out [32]byte
	copy(out[:], h.Sum(nil))
	return out
}

// SerializeNoWitness is the original transaction serialization (the txid
// preimage).
func (t *Tx) SerializeNoWitness() []byte {
	var b []byte
	b = append(b, le32(uint32(t.Version))...)
	b = append(b, CompactSize(uint64(len(t.In)))...)
	for i := range t.In {
		b = append(b, serOutPoint(&t.In[i])...)
		b = append(b, varBytes(t.In[i].ScriptSig)...)
		b = append(b, le32(t.In[i].Sequence)...)
	}
	b = append(b, CompactSize(uint64(len(t.Out)))...)
	for i := range t.Out {
		b = append(b, serTxOut(&t.Out[i])...)
	}
	return append(b, le32(t.LockTime)...)
}

// ---------------------------------------------------------------------------
// parser (for the official vectors)

type reader struct {
	b   []byte
	err error
}

func (r *reader) take(n int) []byte {
	if r.err != nil {
		return nil
	}
	if n < 0 || len(r.b) < n {
		r.err = errors.New("short read")
		return nil
	}
	v := r.b[:n]
	r.b = r.b[n:]
	return v
}

func (r *reader) u32() uint32 {
	v := r.take(4)
	if v == nil {
		return 0
	}
	return binary.LittleEndian.Uint32(v)
}

func (r *reader) u64() uint64 {
	v := r.take(8)
	if v == nil {
		return 0
	}
	return binary.LittleEndian.Uint64(v)
}

func (r *reader) compact() uint64 {
	v := r.take(1)
	if v == nil {
		return 0
	}
	switch v[0] {
	case 0xfd:
		w := r.take(2)
		if w == nil {
			return 0
		}
		return uint64(binary.LittleEndian.Uint16(w))
	case 0xfe:
		return uint64(r.u32())
	case 0xff:
		return r.u64()
	}
	return uint64(v[0])
}

func (r *reader) varBytes() []byte {
	n := r.compact()
	if n > uint64(len(r.b)) {
		r.err = errors.New("short read")
		return nil
	}
	return append([]byte{}, r.take(int(n))...)
}

// ParseTx decodes a transaction in either the original or the BIP144
// (marker 0x00, flag 0x01) encoding.
func ParseTx(raw []byte) (*Tx, error) {
	r := &reader{b: raw}
	t := &Tx{}
	t.Version = int32(r.u32())
	witness := false
	if len(r.b) >= 2 && r.b[0] == 0 && r.b[1] == 1 {
		witness = true
		r.take(2)
	}
	nin := r.compact()
	if nin > uint64(len(r.b)) {
		return nil, errors.New("input count")
	}
	for i := uint64(0); i < nin && r.err == nil; i++ {
		var in TxIn
		copy(in.PrevHash[:], r.take(32))
		in.PrevIndex = r.u32()
		in.ScriptSig = r.varBytes()
		in.Sequence = r.u32()
		t.In = append(t.In, in)
	}
	nout := r.compact()
	if nout > uint64(len(r.b)) {
		return nil, errors.New("output count")
	}
	for i := uint64(0); i < nout && r.err == nil; i++ {
		var o TxOut
		o.Value = int64(r.u64())
		o.PkScript = r.varBytes()
		t.Out = append(t.Out, o)
	}
	if witness {
		for i := range t.In {
			n := r.compact()
			if n > uint64(len(r.b)) {
				return nil, errors.New("witness count")
			}
			t.In[i].Witness = [][]byte{}
			for j := uint64(0); j < n && r.err == nil; j++ {
				t.In[i].Witness = append(t.In[i].Witness, r.varBytes())
			}
		}
	}
	t.LockTime = r.u32()
	if r.err != nil {
		return nil, r.err
	}
	if len(r.b) != 0 {
		return nil, fmt.Errorf("%d trailing bytes", len(r.b))
	}
	return t, nil
}

// ---------------------------------------------------------------------------
// script tokenizer (Bitcoin Core's GetScriptOp)

// Op is one decoded script operation.
type Op struct {
	Code  byte
	Data  []byte
	Start int // byte offset of the opcode
	End   int // byte offset just past the operation
}

// nextOp decodes the operation at pc. On failure it returns the position up to
// which Core's GetScriptOp has advanced its iterator (past the opcode and the
// length bytes it managed to read), which is what the legacy script code
// serializer observes.
func nextOp(s []byte, pc int) (op Op, next int, ok bool) {
	if pc >= len(s) {
		return Op{}, pc, false
	}
	op.Start = pc
	code := s[pc]
	pc++
	op.Code = code
	if code <= OpPushData4 {
		var n uint64
		switch {
		case code < OpPushData1:
			n = uint64(code)
		case code == OpPushData1:
			if len(s)-pc < 1 {
				return op, pc, false
			}
			n = uint64(s[pc])
			pc++
		case code == OpPushData2:
			if len(s)-pc < 2 {
				return op, pc, false
			}
			n = uint64(binary.LittleEndian.Uint16(s[pc:]))
			pc += 2
		default:
			if len(s)-pc < 4 {
				return op, pc, false
			}
			n = uint64(binary.LittleEndian.Uint32(s[pc:]))
			pc += 4
		}
		if uint64(len(s)-pc) < n {
			return op, pc, false
		}
		op.Data = s[pc : pc+int(n)]
		pc += int(n)
	}
	op.End = pc
	return op, pc, true
}

// Parse tokenizes a script. ok is false when the script has a malformed
// (truncated) push; the operations decoded up to that point are returned.
func Parse(s []byte) (ops []Op, ok bool) {
	pc := 0
	for pc < len(s) {
		op, next, good := nextOp(s, pc)
		if !good {
			return ops, false
		}
		ops = append(ops, op)
		pc = next
	}
	return ops, true
}

// Push returns the canonical push of data as `CScript() << data` builds it
// (direct push below 0x4c, then PUSHDATA1/2/4; no OP_N folding).
func Push(data []byte) []byte {
	n := len(data)
	var out []byte
	switch {
	case n < OpPushData1:
		out = []byte{byte(n)}
	case n <= 0xff:
		out = []byte{OpPushData1, byte(n)}
	case n <= 0xffff:
		out = []byte{OpPushData2, byte(n), byte(n >> 8)}
	default:
		out = append([]byte{OpPushData4}, le32(uint32(n))...)
	}
	return append(out, data...)
}

// FindAndDelete is Bitcoin Core's FindAndDelete: every occurrence of pattern
// that starts at an operation boundary of script is removed. It returns the
// new script and the number of removals.
func FindAndDelete(script, pattern []byte) ([]byte, int) {
	if len(pattern) == 0 {
		return script, 0
	}
	var result []byte
	found := 0
	pc, pc2 := 0, 0
	for {
		result = append(result, script[pc2:pc]...)
		for len(script)-pc >= len(pattern) && string(script[pc:pc+len(pattern)]) == string(pattern) {
			pc += len(pattern)
			found++
		}
		pc2 = pc
		_, next, ok := nextOp(script, pc)
		pc = next
		if !ok {
			break
		}
	}
	if found == 0 {
		return script, 0
	}
	result = append(result, script[pc2:]...)
	return result, found
}

// serializeScriptCode is CTransactionSignatureSerializer::SerializeScriptCode:
// the script code with every OP_CODESEPARATOR operation dropped, prefixed with
// the compact size of (len - number of separators). A malformed tail stops
// the scan; like Core, the bytes up to the point the tokenizer reached are
// written and the rest is not (the length prefix still counts them).
func serializeScriptCode(s []byte) []byte {
	nsep := 0
	pc := 0
	for {
		op, next, ok := nextOp(s, pc)
		pc = next
		if !ok {
			break
		}
		if op.Code == OpCodeSeparator {
			nsep++
		}
	}
	out := CompactSize(uint64(len(s) - nsep))
	begin := 0
	pc = 0
	for {
		op, next, ok := nextOp(s, pc)
		pc = next
		if !ok {
			break
		}
		if op.Code == OpCodeSeparator {
			out = append(out, s[begin:pc-1]...)
			begin = pc
		}
	}
	if begin != len(s) {
		out = append(out, s[begin:pc]...)
	}
	return out
}

// ---------------------------------------------------------------------------
// legacy digest

// One is the digest returned for SIGHASH_SINGLE without a matching output:
// the 256-bit integer 1 in little-endian byte order.
var One = [32]byte{1}

// Legacy is SignatureHash(scriptCode, tx, idx, hashType, SIGVERSION_BASE).
// The caller applies FindAndDelete and selects the part after the last
// executed OP_CODESEPARATOR; remaining separators are dropped here.
// idx must be a valid input index.
func Legacy(scriptCode []byte, tx *Tx, idx int, hashType uint32) [32]byte {
	if idx < 0 || idx >= len(tx.In) {
		panic("sighash.Legacy: input index out of range")
	}
	base := hashType & 0x1f
	acp := hashType&AnyoneCanPay != 0
	if base == Single && idx >= len(tx.Out) {
		return One
	}
	var b []byte
	b = append(b, le32(uint32(tx.Version))...)
	// inputs
	if acp {
		b = append(b, CompactSize(1)...)
	} else {
		b = append(b, CompactSize(uint64(len(tx.In)))...)
	}
	for i := range tx.In {
		if acp && i != idx {
			continue
		}
		b = append(b, serOutPoint(&tx.In[i])...)
		if i == idx {
			b = append(b, serializeScriptCode(scriptCode)...)
		} else {
			b = append(b, CompactSize(0)...)
		}
		if i != idx && (base == Single || base == None) {
			b = append(b, le32(0)...)
		} else {
			b = append(b, le32(tx.In[i].Sequence)...)
		}
	}
	// outputs
	switch base {
	case None:
		b = append(b, CompactSize(0)...)
	case Single:
		b = append(b, CompactSize(uint64(idx+1))...)
		for i := 0; i <= idx; i++ {
			if i == idx {
				b = append(b, serTxOut(&tx.Out[i])...)
			} else {
				// CTxOut(): nValue = -1, empty script
				b = append(b, le64(0xffffffffffffffff)...)
				b = append(b, CompactSize(0)...)
			}
		}
	default:
		b = append(b, CompactSize(uint64(len(tx.Out)))...)
		for i := range tx.Out {
			b = append(b, serTxOut(&tx.Out[i])...)
		}
	}
	b = append(b, le32(tx.LockTime)...)
	b = append(b, le32(hashType)...)
	var out [32]byte
	copy(out[:], dsha(b))
	return out
}

// ---------------------------------------------------------------------------
// BIP143

// WitnessV0Preimage returns the BIP143 preimage (before double SHA256).
func WitnessV0Preimage(scriptCode []byte, tx *Tx, idx int, hashType uint32, amount int64) []byte {
	if idx < 0 || idx >= len(tx.In) {
		panic("sighash.WitnessV0: input index out of range")
	}
	base := hashType & 0x1f
	acp := hashType&AnyoneCanPay != 0
	zero := make([]byte, 32)

	hashPrevouts, hashSequence, hashOutputs := zero, zero, zero
	if !acp {
		var p []byte
		for i := range tx.In {
			p = append(p, serOutPoint(&tx.In[i])...)
		}
		hashPrevouts = dsha(p)
	}
	if !acp && base != Single && base != None {
		var p []byte
		for i := range tx.In {
			p = append(p, le32(tx.In[i].Sequence)...)
		}
		hashSequence = dsha(p)
	}
	if base != Single && base != None {
		var p []byte
		for i := range tx.Out {
			p = append(p, serTxOut(&tx.Out[i])...)
		}
		hashOutputs = dsha(p)
	} else if base == Single && idx < len(tx.Out) {
		hashOutputs = dsha(serTxOut(&tx.Out[idx]))
	}

	var b []byte
	b = append(b, le32(uint32(tx.Version))...)
	b = append(b, hashPrevouts...)
	b = append(b, hashSequence...)
	b = append(b, serOutPoint(&tx.In[idx])...)
	b = append(b, varBytes(scriptCode)...)
	b = append(b, le64(uint64(amount))...)
	b = append(b, le32(tx.In[idx].Sequence)...)
	b = append(b, hashOutputs...)
	b = append(b, le32(tx.LockTime)...)
	b = append(b, le32(hashType)...)
	return b
}

// WitnessV0 is the BIP143 digest. scriptCode is the BIP143 script code: for
// P2WPKH 76 a9 14 <20-byte key hash> 88 ac, for P2WSH the witness script after
// the last executed OP_CODESEPARATOR (nothing is removed from it).
func WitnessV0(scriptCode []byte, tx *Tx, idx int, hashType uint32, amount int64) [32]byte {
	var out [32]byte
	copy(out[:], dsha(WitnessV0Preimage(scriptCode, tx, idx, hashType, amount)))
	return out
}

// P2PKHScript returns DUP HASH160 <h> EQUALVERIFY CHECKSIG.
func P2PKHScript(h20 []byte) []byte {
	s := []byte{0x76, 0xa9, 0x14}
	s = append(s, h20...)
	return append(s, 0x88, 0xac)
}

// ---------------------------------------------------------------------------
// BIP341 / BIP342

// TapscriptExt is the BIP342 message extension (ext_flag 1).
type TapscriptExt struct {
	LeafHash   [32]byte
	CodeSepPos uint32 // 0xffffffff when no OP_CODESEPARATOR was executed
}

// NoCodeSep is the codesep_pos value when none was executed.
const NoCodeSep = 0xffffffff

// TapLeafHash is tagged_hash("TapLeaf", version || compact_size(len) || script).
func TapLeafHash(leafVersion byte, script []byte) [32]byte {
	return TaggedHash("TapLeaf", []byte{leafVersion}, varBytes(script))
}

// TapBranchHash is tagged_hash("TapBranch", sorted(a, b)).
func TapBranchHash(a, b [32]byte) [32]byte {
	if string(a[:]) > string(b[:]) {
		a, b = b, a
	}
	return TaggedHash("TapBranch", a[:], b[:])
}

// ErrHashType and ErrNoOutput are the two failure modes of the BIP341 digest.
var (
	ErrHashType = errors.New("invalid taproot hash_type")
	ErrNoOutput = errors.New("SIGHASH_SINGLE without corresponding output")
)

// ValidTaprootHashType reports membership in {0,1,2,3,0x81,0x82,0x83}.
func ValidTaprootHashType(h uint32) bool {
	switch h {
	case 0, 1, 2, 3, 0x81, 0x82, 0x83:
		return true
	}
	return false
}

// TaprootMsg returns the BIP341 SigMsg prefixed with the epoch byte 0x00
// (that is, the tagged-hash input). spent lists the outputs spent by every
// input, in input order. annex is nil when absent, otherwise the full annex
// item including the 0x50 prefix. ext is nil for key path spends.
func TaprootMsg(tx *Tx, idx int, hashType uint32, spent []TxOut, annex []byte, ext *TapscriptExt) ([]byte, error) {
	if idx < 0 || idx >= len(tx.In) {
		panic("sighash.Taproot: input index out of range")
	}
	if len(spent) != len(tx.In) {
		panic("sighash.Taproot: need one spent output per input")
	}
	if !ValidTaprootHashType(hashType) {
		return nil, ErrHashType
	}
	ht := byte(hashType)
	outType := ht & 3
	if ht == 0 {
		outType = All
	}
	acp := ht&0x80 != 0

	b := []byte{0x00, ht}
	b = append(b, le32(uint32(tx.Version))...)
	b = append(b, le32(tx.LockTime)...)
	if !acp {
		var po, am, sp, sq []byte
		for i := range tx.In {
			po = append(po, serOutPoint(&tx.In[i])...)
			am = append(am, le64(uint64(spent[i].Value))...)
			sp = append(sp, varBytes(spent[i].PkScript)...)
			sq = append(sq, le32(tx.In[i].Sequence)...)
		}
		b = append(b, sha(po)...)
		b = append(b, sha(am)...)
		b = append(b, sha(sp)...)
		b = append(b, sha(sq)...)
	}
	if outType != None && outType != Single {
		var o []byte
		for i := range tx.Out {
			o = append(o, serTxOut(&tx.Out[i])...)
		}
		b = append(b, sha(o)...)
	}
	spendType := byte(0)
	if ext != nil {
		spendType = 2
	}
	if annex != nil {
		spendType |= 1
	}
	b = append(b, spendType)
	if acp {
		b = append(b, serOutPoint(&tx.In[idx])...)
		b = append(b, le64(uint64(spent[idx].Value))...)
		b = append(b, varBytes(spent[idx].PkScript)...)
		b = append(b, le32(tx.In[idx].Sequence)...)
	} else {
		b = append(b, le32(uint32(idx))...)
	}
	if annex != nil {
		b = append(b, sha(varBytes(annex))...)
	}
	if outType == Single {
		if idx >= len(tx.Out) {
			return nil, ErrNoOutput
		}
		b = append(b, sha(serTxOut(&tx.Out[idx]))...)
	}
	if ext != nil {
		b = append(b, ext.LeafHash[:]...)
		b = append(b, 0x00) // key_version
		b = append(b, le32(ext.CodeSepPos)...)
	}
	return b, nil
}

// Taproot is the BIP341 signature digest hash_TapSighash(0x00 || SigMsg).
func Taproot(tx *Tx, idx int, hashType uint32, spent []TxOut, annex []byte, ext *TapscriptExt) ([32]byte, error) {
	msg, err := TaprootMsg(tx, idx, hashType, spent, annex, ext)
	if err != nil {
		return [32]byte{}, err
	}
	return TaggedHash("TapSighash", msg), nil
}
