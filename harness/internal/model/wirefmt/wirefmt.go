// Package wirefmt is an independent byte-layout encoder for the Bitcoin P2P
// protocol, written from the protocol documentation (the "Protocol
// documentation" wiki page / developer reference) and BIPs 31, 35, 37, 61,
// 130, 133, 144, 152(n/a), 155, 157, 339. It shares no code with btcd's wire
// package: wire/chainhash types are used only as plain data carriers (their
// exported fields are read, none of their methods that encode, size or hash
// anything are called).
//
// Everything is appended to an Enc, which also records where every
// count/length CompactSize integer was written (Marks) so that a harness can
// replace such an integer by a hostile claim.
package wirefmt

import (
	"crypto/sha256"
	"encoding/binary"
	"net"
	"time"

	"github.com/btcsuite/btcd/chainhash/v2"
	"github.com/btcsuite/btcd/wire/v2"
)

// Protocol versions at which a layout or message set changes.
const (
	PverMultiAddr   = 209   // addr may carry more than one entry
	PverAddrTime    = 31402 // addr entries are prefixed with a timestamp
	PverBIP31       = 60000 // ping has a nonce / pong exists for versions ABOVE this
	PverBIP35       = 60002 // mempool
	PverBIP37       = 70001 // filterload/filteradd/filterclear/merkleblock, version.relay
	PverBIP61       = 70002 // reject
	PverSendHeaders = 70012 // BIP130
	PverFeeFilter   = 70013 // BIP133
	PverAddrV2      = 70016 // BIP155 sendaddrv2, BIP339 wtxidrelay
)

// Protocol limits (documentation / Bitcoin Core net_processing constants /
// the BIPs). Limits that exist only in btcd are listed in the check, not here.
const (
	MaxInv            = 50000 // MAX_INV_SZ
	MaxHeaders        = 2000  // MAX_HEADERS_RESULTS
	MaxAddr           = 1000  // MAX_ADDR_TO_SEND
	MaxFilterBytes    = 36000 // BIP37
	MaxFilterHashFunc = 50    // BIP37
	MaxFilterAdd      = 520   // BIP37 (MAX_SCRIPT_ELEMENT_SIZE)
	MaxUserAgent      = 256   // MAX_SUBVERSION_LENGTH
	MaxCFHeaders      = 2000  // BIP157
	MaxAddrV2Bytes    = 512   // BIP155
	CommandLen        = 12
	HeaderLen         = 24
)

// BIP155 network ids.
const (
	NetIPv4  = 1
	NetIPv6  = 2
	NetTorV2 = 3
	NetTorV3 = 4
	NetI2P   = 5
	NetCJDNS = 6
)

// AddrV2Len gives the mandated address length of every BIP155 network id.
var AddrV2Len = map[byte]int{NetIPv4: 4, NetIPv6: 16, NetTorV2: 10, NetTorV3: 32, NetI2P: 32, NetCJDNS: 16}

// Mark locates one count/length CompactSize integer in an encoding.
type Mark struct {
	Off, Len int
	Kind     string // e.g. "inv.count", "tx.in.script"
	Val      uint64
}

// Enc is an append-only encoder.
type Enc struct {
	B     []byte
	Marks []Mark
}

func (e *Enc) U8(v byte)      { e.B = append(e.B, v) }
func (e *Enc) U16BE(v uint16) { e.B = append(e.B, byte(v>>8), byte(v)) }
func (e *Enc) U32(v uint32)   { e.B = binary.LittleEndian.AppendUint32(e.B, v) }
func (e *Enc) U64(v uint64)   { e.B = binary.LittleEndian.AppendUint64(e.B, v) }
func (e *Enc) Bytes(b []byte) { e.B = append(e.B, b...) }
func (e *Enc) Bool(v bool) {
	if v {
		e.U8(1)
	} else {
		e.U8(0)
	}
}

// AppendVarInt appends the CompactSize encoding of v: <0xfd one byte; <=0xffff
// 0xfd + 2 bytes LE; <=0xffffffff 0xfe + 4 bytes LE; else 0xff + 8 bytes LE.
func AppendVarInt(b []byte, v uint64) []byte {
	switch {
	case v < 0xfd:
		return append(b, byte(v))
	case v <= 0xffff:
		return append(b, 0xfd, byte(v), byte(v>>8))
	case v <= 0xffffffff:
		return binary.LittleEndian.AppendUint32(append(b, 0xfe), uint32(v))
	}
	return binary.LittleEndian.AppendUint64(append(b, 0xff), v)
}

// VarIntLen is the length of the canonical CompactSize encoding of v.
func VarIntLen(v uint64) int { return len(AppendVarInt(nil, v)) }

// NonCanonicalVarInts returns every over-long CompactSize encoding of v.
func NonCanonicalVarInts(v uint64) [][]byte {
	var out [][]byte
	if v < 0xfd {
		out = append(out, []byte{0xfd, byte(v), 0})
	}
	if v <= 0xffff {
		out = append(out, binary.LittleEndian.AppendUint32([]byte{0xfe}, uint32(v)))
	}
	if v <= 0xffffffff {
		out = append(out, binary.LittleEndian.AppendUint64([]byte{0xff}, v))
	}
	return out
}

// Count appends a marked CompactSize integer.
func (e *Enc) Count(kind string, v uint64) {
	off := len(e.B)
	e.B = AppendVarInt(e.B, v)
	e.Marks = append(e.Marks, Mark{Off: off, Len: len(e.B) - off, Kind: kind, Val: v})
}

// VarInt appends an unmarked CompactSize integer (a value, not a count).
func (e *Enc) VarInt(v uint64) { e.B = AppendVarInt(e.B, v) }

// VarBytes appends a length-prefixed byte string.
func (e *Enc) VarBytes(kind string, b []byte) {
	e.Count(kind, uint64(len(b)))
	e.B = append(e.B, b...)
}

// DSHA256 is SHA256(SHA256(b)).
func DSHA256(b []byte) [32]byte {
	h := sha256.Sum256(b)
	return sha256.Sum256(h[:])
}

// Message frames a payload: magic (uint32 LE), command (12 bytes, NUL padded),
// payload length (uint32 LE), checksum (first 4 bytes of DSHA256(payload)).
func Message(magic uint32, command string, payload []byte) []byte {
	b := make([]byte, 0, HeaderLen+len(payload))
	b = binary.LittleEndian.AppendUint32(b, magic)
	var cmd [CommandLen]byte
	copy(cmd[:], command)
	b = append(b, cmd[:]...)
	b = binary.LittleEndian.AppendUint32(b, uint32(len(payload)))
	sum := DSHA256(payload)
	b = append(b, sum[:4]...)
	return append(b, payload...)
}

// ---------------------------------------------------------------------------
// transactions, headers, blocks

// HasWitness reports whether any input carries a non-empty witness stack.
func HasWitness(tx *wire.MsgTx) bool {
	for _, in := range tx.TxIn {
		if len(in.Witness) > 0 {
			return true
		}
	}
	return false
}

// Tx appends a transaction. With witness=true the BIP144 layout (marker 0x00,
// flag 0x01, witness stacks after the outputs) is used iff the transaction
// has at least one non-empty witness; otherwise the original layout.
func (e *Enc) Tx(tx *wire.MsgTx, witness bool) {
	ext := witness && HasWitness(tx)
	e.U32(uint32(tx.Version))
	if ext {
		e.U8(0x00)
		e.U8(0x01)
	}
	e.Count("tx.incount", uint64(len(tx.TxIn)))
	for _, in := range tx.TxIn {
		e.Bytes(in.PreviousOutPoint.Hash[:])
		e.U32(in.PreviousOutPoint.Index)
		e.VarBytes("tx.in.script", in.SignatureScript)
		e.U32(in.Sequence)
	}
	e.Count("tx.outcount", uint64(len(tx.TxOut)))
	for _, out := range tx.TxOut {
		e.U64(uint64(out.Value))
		e.VarBytes("tx.out.script", out.PkScript)
	}
	if ext {
		for _, in := range tx.TxIn {
			e.Count("tx.witcount", uint64(len(in.Witness)))
			for _, item := range in.Witness {
				e.VarBytes("tx.wititem", item)
			}
		}
	}
	e.U32(tx.LockTime)
}

// TxBytes returns the serialization of tx.
func TxBytes(tx *wire.MsgTx, witness bool) []byte {
	var e Enc
	e.Tx(tx, witness)
	return e.B
}

// TxID is the double SHA256 of the original (witness-less) layout.
func TxID(tx *wire.MsgTx) chainhash.Hash { return DSHA256(TxBytes(tx, false)) }

// WTxID is the double SHA256 of the BIP144 layout (equal to the txid for a
// transaction without witness data).
func WTxID(tx *wire.MsgTx) chainhash.Hash { return DSHA256(TxBytes(tx, true)) }

// Time32 is the uint32 unix time of t.
func Time32(t time.Time) uint32 { return uint32(t.Unix()) }

// Header appends the 80 byte block header.
func (e *Enc) Header(h *wire.BlockHeader) {
	e.U32(uint32(h.Version))
	e.Bytes(h.PrevBlock[:])
	e.Bytes(h.MerkleRoot[:])
	e.U32(Time32(h.Timestamp))
	e.U32(h.Bits)
	e.U32(h.Nonce)
}

// HeaderBytes returns the 80 byte header.
func HeaderBytes(h *wire.BlockHeader) []byte {
	var e Enc
	e.Header(h)
	return e.B
}

// BlockID is the double SHA256 of the 80 byte header.
func BlockID(h *wire.BlockHeader) chainhash.Hash { return DSHA256(HeaderBytes(h)) }

// Block appends header, transaction count and transactions.
func (e *Enc) Block(b *wire.MsgBlock, witness bool) {
	e.Header(&b.Header)
	e.Count("block.txcount", uint64(len(b.Transactions)))
	for _, tx := range b.Transactions {
		e.Tx(tx, witness)
	}
}

// BlockBytes returns the serialization of b.
func BlockBytes(b *wire.MsgBlock, witness bool) []byte {
	var e Enc
	e.Block(b, witness)
	return e.B
}

// ---------------------------------------------------------------------------
// network addresses

// IP16 maps an IP to the 16 byte on-wire form: IPv6 as is, IPv4 as
// ::ffff:a.b.c.d, absent as all zero.
func IP16(ip net.IP) [16]byte {
	var out [16]byte
	switch len(ip) {
	case 4:
		out[10], out[11] = 0xff, 0xff
		copy(out[12:], ip)
	case 16:
		copy(out[:], ip)
	}
	return out
}

// NetAddr appends a net_addr: [time uint32] services uint64, 16 byte IP,
// port in NETWORK byte order.
func (e *Enc) NetAddr(na *wire.NetAddress, withTime bool) {
	if withTime {
		e.U32(Time32(na.Timestamp))
	}
	e.U64(uint64(na.Services))
	ip := IP16(na.IP)
	e.Bytes(ip[:])
	e.U16BE(na.Port)
}

// AddrV2 is one BIP155 entry as plain data.
type AddrV2 struct {
	Time     uint32
	Services uint64
	NetID    byte
	Addr     []byte
	Port     uint16
}

// AddrV2 appends a BIP155 entry: time uint32, services CompactSize, network id
// uint8, address as length-prefixed bytes, port big endian.
func (e *Enc) AddrV2(a AddrV2) {
	e.U32(a.Time)
	e.VarInt(a.Services)
	e.U8(a.NetID)
	e.VarBytes("addrv2.addrlen", a.Addr)
	e.U16BE(a.Port)
}

// AddrV2FromBytes states which BIP155 entry a raw address of the given length
// denotes: 4 bytes IPv4; 16 bytes IPv6 except the OnionCat range
// fd87:d87e:eb43::/48 (TORV2, last 10 bytes) and IPv4-mapped ::ffff:0:0/96
// (IPv4, last 4 bytes), which BIP155 forbids inside the IPV6 network id;
// 10 bytes TORV2; 32 bytes TORV3.
func AddrV2FromBytes(ts time.Time, services uint64, addr []byte, port uint16) (AddrV2, bool) {
	a := AddrV2{Time: Time32(ts), Services: services, Port: port}
	switch len(addr) {
	case 4:
		a.NetID, a.Addr = NetIPv4, addr
	case 16:
		switch {
		case addr[0] == 0xfd && addr[1] == 0x87 && addr[2] == 0xd8 && addr[3] == 0x7e && addr[4] == 0xeb && addr[5] == 0x43:
			a.NetID, a.Addr = NetTorV2, addr[6:]
		case isV4Mapped(addr):
			a.NetID, a.Addr = NetIPv4, addr[12:]
		default:
			a.NetID, a.Addr = NetIPv6, addr
		}
	case 10:
		a.NetID, a.Addr = NetTorV2, addr
	case 32:
		a.NetID, a.Addr = NetTorV3, addr
	default:
		return a, false
	}
	return a, true
}

func isV4Mapped(a []byte) bool {
	for i := 0; i < 10; i++ {
		if a[i] != 0 {
			return false
		}
	}
	return a[10] == 0xff && a[11] == 0xff
}

// ---------------------------------------------------------------------------
// messages

func (e *Enc) invList(list []*wire.InvVect) {
	e.Count("inv.count", uint64(len(list)))
	for _, iv := range list {
		e.U32(uint32(iv.Type))
		e.Bytes(iv.Hash[:])
	}
}

func (e *Enc) locator(version uint32, hashes []*chainhash.Hash, stop *chainhash.Hash) {
	e.U32(version)
	e.Count("locator.count", uint64(len(hashes)))
	for _, h := range hashes {
		e.Bytes(h[:])
	}
	e.Bytes(stop[:])
}

// Payload encodes the payload of msg for protocol version pver. witness
// selects BIP144 for transactions. v2 must list the entries of a *MsgAddrV2
// (its address types are opaque). The second result is false when the
// protocol does not define the message (or this value of it: a count or
// length above the protocol limit) at pver; the bytes are produced anyway
// (they are what a non-conforming peer would send).
func Payload(msg wire.Message, pver uint32, witness bool, v2 []AddrV2) (*Enc, bool) {
	e := &Enc{}
	ok := true
	switch m := msg.(type) {
	case *wire.MsgVersion:
		if len(m.UserAgent) > MaxUserAgent {
			ok = false
		}
		e.U32(uint32(m.ProtocolVersion))
		e.U64(uint64(m.Services))
		e.U64(uint64(m.Timestamp.Unix()))
		e.NetAddr(&m.AddrYou, false)
		// fields below exist for version >= 106
		e.NetAddr(&m.AddrMe, false)
		e.U64(m.Nonce)
		e.VarBytes("version.useragent", []byte(m.UserAgent))
		e.U32(uint32(m.LastBlock))
		if pver >= PverBIP37 {
			e.Bool(!m.DisableRelayTx)
		}
	case *wire.MsgVerAck, *wire.MsgGetAddr:
	case *wire.MsgSendAddrV2, *wire.MsgWTxIdRelay:
		if pver < PverAddrV2 {
			ok = false
		}
	case *wire.MsgSendHeaders:
		if pver < PverSendHeaders {
			ok = false
		}
	case *wire.MsgMemPool:
		if pver < PverBIP35 {
			ok = false
		}
	case *wire.MsgFilterClear:
		if pver < PverBIP37 {
			ok = false
		}
	case *wire.MsgAddr:
		if len(m.AddrList) > MaxAddr || (pver < PverMultiAddr && len(m.AddrList) > 1) {
			ok = false
		}
		e.Count("addr.count", uint64(len(m.AddrList)))
		for _, na := range m.AddrList {
			e.NetAddr(na, pver >= PverAddrTime)
		}
	case *wire.MsgAddrV2:
		if len(v2) > MaxAddr {
			ok = false
		}
		e.Count("addrv2.count", uint64(len(v2)))
		for _, a := range v2 {
			e.AddrV2(a)
		}
	case *wire.MsgInv:
		if len(m.InvList) > MaxInv {
			ok = false
		}
		e.invList(m.InvList)
	case *wire.MsgGetData:
		if len(m.InvList) > MaxInv {
			ok = false
		}
		e.invList(m.InvList)
	case *wire.MsgNotFound:
		if len(m.InvList) > MaxInv {
			ok = false
		}
		e.invList(m.InvList)
	case *wire.MsgGetBlocks:
		e.locator(m.ProtocolVersion, m.BlockLocatorHashes, &m.HashStop)
	case *wire.MsgGetHeaders:
		e.locator(m.ProtocolVersion, m.BlockLocatorHashes, &m.HashStop)
	case *wire.MsgHeaders:
		if len(m.Headers) > MaxHeaders {
			ok = false
		}
		e.Count("headers.count", uint64(len(m.Headers)))
		for _, h := range m.Headers {
			e.Header(h)
			e.Count("headers.txcount", 0) // block header followed by a zero tx count
		}
	case *wire.MsgBlock:
		e.Block(m, witness)
	case *wire.MsgTx:
		e.Tx(m, witness)
	case *wire.MsgPing:
		if pver > PverBIP31 {
			e.U64(m.Nonce)
		}
	case *wire.MsgPong:
		if pver <= PverBIP31 {
			ok = false
		}
		e.U64(m.Nonce)
	case *wire.MsgFilterLoad:
		if pver < PverBIP37 || len(m.Filter) > MaxFilterBytes || m.HashFuncs > MaxFilterHashFunc {
			ok = false
		}
		e.VarBytes("filterload.filter", m.Filter)
		e.U32(m.HashFuncs)
		e.U32(m.Tweak)
		e.U8(byte(m.Flags))
	case *wire.MsgFilterAdd:
		if pver < PverBIP37 || len(m.Data) > MaxFilterAdd {
			ok = false
		}
		e.VarBytes("filteradd.data", m.Data)
	case *wire.MsgMerkleBlock:
		if pver < PverBIP37 {
			ok = false
		}
		e.Header(&m.Header)
		e.U32(m.Transactions)
		e.Count("merkleblock.hashcount", uint64(len(m.Hashes)))
		for _, h := range m.Hashes {
			e.Bytes(h[:])
		}
		e.VarBytes("merkleblock.flags", m.Flags)
	case *wire.MsgReject:
		if pver < PverBIP61 {
			ok = false
		}
		e.VarBytes("reject.cmd", []byte(m.Cmd))
		e.U8(byte(m.Code))
		e.VarBytes("reject.reason", []byte(m.Reason))
		// BIP61: the optional data field is the 32 byte hash of the
		// rejected object for replies to tx and block messages.
		if m.Cmd == "block" || m.Cmd == "tx" {
			e.Bytes(m.Hash[:])
		}
	case *wire.MsgFeeFilter:
		if pver < PverFeeFilter {
			ok = false
		}
		e.U64(uint64(m.MinFee))
	case *wire.MsgGetCFilters:
		e.U8(byte(m.FilterType))
		e.U32(m.StartHeight)
		e.Bytes(m.StopHash[:])
	case *wire.MsgGetCFHeaders:
		e.U8(byte(m.FilterType))
		e.U32(m.StartHeight)
		e.Bytes(m.StopHash[:])
	case *wire.MsgGetCFCheckpt:
		e.U8(byte(m.FilterType))
		e.Bytes(m.StopHash[:])
	case *wire.MsgCFilter:
		e.U8(byte(m.FilterType))
		e.Bytes(m.BlockHash[:])
		e.VarBytes("cfilter.data", m.Data)
	case *wire.MsgCFHeaders:
		if len(m.FilterHashes) > MaxCFHeaders {
			ok = false
		}
		e.U8(byte(m.FilterType))
		e.Bytes(m.StopHash[:])
		e.Bytes(m.PrevFilterHeader[:])
		e.Count("cfheaders.count", uint64(len(m.FilterHashes)))
		for _, h := range m.FilterHashes {
			e.Bytes(h[:])
		}
	case *wire.MsgCFCheckpt:
		e.U8(byte(m.FilterType))
		e.Bytes(m.StopHash[:])
		e.Count("cfcheckpt.count", uint64(len(m.FilterHeaders)))
		for _, h := range m.FilterHeaders {
			e.Bytes(h[:])
		}
	default:
		ok = false
	}
	return e, ok
}

// ---------------------------------------------------------------------------
// small independent parsers used to name the decoders' documented tolerances

// VersionShape describes how a version payload relates to the full layout.
type VersionShape struct {
	OK        bool   // the mandatory part (46 bytes) is present
	EndsAt    string // "addr_recv","addr_from","nonce","user_agent","start_height","relay","other"
	RelayByte int    // -1 when absent
}

// ParseVersionShape walks the field boundaries of a version payload (addresses
// without timestamps, i.e. the layout of every protocol version).
func ParseVersionShape(p []byte) VersionShape {
	s := VersionShape{RelayByte: -1, EndsAt: "other"}
	off := 4 + 8 + 8 + 26
	if len(p) < off {
		return s
	}
	s.OK = true
	if len(p) == off {
		s.EndsAt = "addr_recv"
		return s
	}
	off += 26
	if len(p) == off {
		s.EndsAt = "addr_from"
		return s
	}
	if len(p) < off {
		return s
	}
	off += 8
	if len(p) == off {
		s.EndsAt = "nonce"
		return s
	}
	if len(p) < off {
		return s
	}
	n, l, ok := ReadVarInt(p[off:])
	if !ok || n > uint64(len(p)) {
		return s
	}
	off += l + int(n)
	if len(p) == off {
		s.EndsAt = "user_agent"
		return s
	}
	if len(p) < off {
		return s
	}
	off += 4
	if len(p) == off {
		s.EndsAt = "start_height"
		return s
	}
	if len(p) < off {
		return s
	}
	if len(p) == off+1 {
		s.EndsAt = "relay"
		s.RelayByte = int(p[off])
	}
	return s
}

// ReadVarInt parses a canonical CompactSize integer.
func ReadVarInt(b []byte) (v uint64, n int, ok bool) {
	if len(b) == 0 {
		return 0, 0, false
	}
	switch b[0] {
	case 0xfd:
		if len(b) < 3 {
			return 0, 0, false
		}
		v = uint64(binary.LittleEndian.Uint16(b[1:]))
		return v, 3, v >= 0xfd
	case 0xfe:
		if len(b) < 5 {
			return 0, 0, false
		}
		v = uint64(binary.LittleEndian.Uint32(b[1:]))
		return v, 5, v > 0xffff
	case 0xff:
		if len(b) < 9 {
			return 0, 0, false
		}
		v = binary.LittleEndian.Uint64(b[1:])
		return v, 9, v > 0xffffffff
	}
	return uint64(b[0]), 1, true
}

// ParseAddrV2 parses an addrv2 payload strictly by BIP155 framing (any network
// id, any address length up to 512) and returns the entries, or false if the
// payload is not a well-framed list that ends exactly at the end.
func ParseAddrV2(p []byte) ([]AddrV2, bool) {
	cnt, n, ok := ReadVarInt(p)
	if !ok || cnt > MaxAddr {
		return nil, false
	}
	p = p[n:]
	var out []AddrV2
	for i := uint64(0); i < cnt; i++ {
		if len(p) < 4 {
			return nil, false
		}
		a := AddrV2{Time: binary.LittleEndian.Uint32(p)}
		p = p[4:]
		sv, n, ok := ReadVarInt(p)
		if !ok {
			return nil, false
		}
		a.Services = sv
		p = p[n:]
		if len(p) < 1 {
			return nil, false
		}
		a.NetID = p[0]
		p = p[1:]
		l, n, ok := ReadVarInt(p)
		if !ok || l > MaxAddrV2Bytes {
			return nil, false
		}
		p = p[n:]
		if uint64(len(p)) < l+2 {
			return nil, false
		}
		a.Addr = append([]byte(nil), p[:l]...)
		p = p[l:]
		a.Port = uint16(p[0])<<8 | uint16(p[1])
		p = p[2:]
		out = append(out, a)
	}
	return out, len(p) == 0
}

// AddrV2Relayable reports whether BIP155 lets an entry be stored and
// forwarded as is by a node that implements networks 1..4: known id with the
// mandated length, and no IPv4/TORV2 address embedded in the IPV6 id.
func AddrV2Relayable(a AddrV2) bool {
	if a.NetID < NetIPv4 || a.NetID > NetTorV3 || len(a.Addr) != AddrV2Len[a.NetID] {
		return false
	}
	if a.NetID == NetIPv6 {
		if _, ok := AddrV2FromBytes(time.Time{}, 0, a.Addr, 0); ok {
			x, _ := AddrV2FromBytes(time.Time{}, 0, a.Addr, 0)
			return x.NetID == NetIPv6
		}
	}
	return true
}

// ---------------------------------------------------------------------------
// strict independent parser for transactions and blocks (used to calibrate
// the encoder against real chain data without going through btcd's decoder)

type rd struct {
	b   []byte
	bad bool
}

func (r *rd) take(n uint64) []byte {
	if r.bad || uint64(len(r.b)) < n {
		r.bad = true
		return make([]byte, 0)
	}
	out := r.b[:n]
	r.b = r.b[n:]
	return out
}
func (r *rd) u32() uint32 {
	b := r.take(4)
	if r.bad {
		return 0
	}
	return binary.LittleEndian.Uint32(b)
}
func (r *rd) u64() uint64 {
	b := r.take(8)
	if r.bad {
		return 0
	}
	return binary.LittleEndian.Uint64(b)
}
func (r *rd) varint() uint64 {
	v, n, ok := ReadVarInt(r.b)
	if !ok {
		r.bad = true
		return 0
	}
	r.b = r.b[n:]
	return v
}
func (r *rd) varbytes() []byte {
	n := r.varint()
	return append([]byte(nil), r.take(n)...)
}

func (r *rd) tx(allowWitness bool) *wire.MsgTx {
	tx := &wire.MsgTx{Version: int32(r.u32())}
	nin := r.varint()
	ext := false
	if nin == 0 && allowWitness {
		if flag := r.take(1); r.bad || flag[0] != 1 {
			r.bad = true
			return tx
		}
		ext = true
		nin = r.varint()
	}
	for i := uint64(0); i < nin && !r.bad; i++ {
		in := &wire.TxIn{}
		copy(in.PreviousOutPoint.Hash[:], r.take(32))
		in.PreviousOutPoint.Index = r.u32()
		in.SignatureScript = r.varbytes()
		in.Sequence = r.u32()
		tx.TxIn = append(tx.TxIn, in)
	}
	nout := r.varint()
	for i := uint64(0); i < nout && !r.bad; i++ {
		out := &wire.TxOut{Value: int64(r.u64())}
		out.PkScript = r.varbytes()
		tx.TxOut = append(tx.TxOut, out)
	}
	if ext {
		for _, in := range tx.TxIn {
			n := r.varint()
			for j := uint64(0); j < n && !r.bad; j++ {
				in.Witness = append(in.Witness, r.varbytes())
			}
		}
		if !HasWitness(tx) {
			r.bad = true
		}
	}
	tx.LockTime = r.u32()
	return tx
}

// ParseTx parses exactly one transaction occupying all of b.
func ParseTx(b []byte, allowWitness bool) (*wire.MsgTx, bool) {
	r := &rd{b: b}
	tx := r.tx(allowWitness)
	return tx, !r.bad && len(r.b) == 0
}

// ParseBlock parses exactly one block occupying all of b.
func ParseBlock(b []byte, allowWitness bool) (*wire.MsgBlock, bool) {
	r := &rd{b: b}
	blk := &wire.MsgBlock{}
	blk.Header.Version = int32(r.u32())
	copy(blk.Header.PrevBlock[:], r.take(32))
	copy(blk.Header.MerkleRoot[:], r.take(32))
	blk.Header.Timestamp = time.Unix(int64(r.u32()), 0)
	blk.Header.Bits = r.u32()
	blk.Header.Nonce = r.u32()
	n := r.varint()
	for i := uint64(0); i < n && !r.bad; i++ {
		blk.Transactions = append(blk.Transactions, r.tx(allowWitness))
	}
	return blk, !r.bad && len(r.b) == 0
}

// MerkleRoot is the Bitcoin merkle root of the given leaves (last element
// duplicated on odd levels).
func MerkleRoot(leaves []chainhash.Hash) chainhash.Hash {
	if len(leaves) == 0 {
		return chainhash.Hash{}
	}
	level := append([]chainhash.Hash(nil), leaves...)
	for len(level) > 1 {
		if len(level)%2 == 1 {
			level = append(level, level[len(level)-1])
		}
		next := make([]chainhash.Hash, 0, len(level)/2)
		for i := 0; i < len(level); i += 2 {
			var cat [64]byte
			copy(cat[:32], level[i][:])
			copy(cat[32:], level[i+1][:])
			next = append(next, DSHA256(cat[:]))
		}
		level = next
	}
	return level[0]
}
