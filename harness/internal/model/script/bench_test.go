package script

import (
	"math/big"
	"testing"

	"verif/internal/model/secp"
)

func BenchmarkSecpBaseMul(b *testing.B) {
	k := new(big.Int).SetBytes(sha256s([]byte("k")))
	for i := 0; i < b.N; i++ {
		secp.BaseMul(k)
	}
}
func BenchmarkFastBaseMul(b *testing.B) {
	k := new(big.Int).SetBytes(sha256s([]byte("k")))
	FastBaseMul(k)
	for i := 0; i < b.N; i++ {
		FastBaseMul(k)
	}
}
func BenchmarkLadder(b *testing.B) {
	k := new(big.Int).SetBytes(sha256s([]byte("k")))
	p := FastBaseMul(big.NewInt(12345))
	for i := 0; i < b.N; i++ {
		kk := new(big.Int).Mod(k, secp.N)
		acc := jacInf()
		for i := kk.BitLen() - 1; i >= 0; i-- {
			acc = acc.dbl()
			if kk.Bit(i) == 1 {
				acc = acc.addAff(affFrom(p))
			}
		}
		acc.toAff()
	}
}
