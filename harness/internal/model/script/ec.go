package script

import (
	"encoding/binary"
	"math/big"
	"math/bits"
	"sync"

	"verif/internal/model/secp"
)

// Faster scalar multiplication for the model: GF(p) on four 64-bit limbs,
// Jacobian coordinates, 4-bit fixed windows (a precomputed table for G). The
// affine math/big implementation in verif/internal/model/secp stays the
// reference: the calibration cross-checks this file against it on edge and
// pseudo-random inputs (CrossCheckEC), and the verification equations below
// are the textbook ECDSA / BIP340 ones. Nothing here comes from btcec.

// fe is an element of GF(p), p = 2^256 - 2^32 - 977, as four little-endian
// 64-bit limbs, always fully reduced.
type fe [4]uint64

const (
	pC = 0x1000003D1 // 2^256 - p
	p0 = 0xFFFFFFFEFFFFFC2F
	mx = 0xFFFFFFFFFFFFFFFF
)

func feFromBig(b *big.Int) fe {
	var buf [32]byte
	new(big.Int).Mod(b, secp.P).FillBytes(buf[:])
	var r fe
	for i := 0; i < 4; i++ {
		r[i] = binary.BigEndian.Uint64(buf[24-8*i:])
	}
	return r
}

func (a fe) big() *big.Int {
	var buf [32]byte
	for i := 0; i < 4; i++ {
		binary.BigEndian.PutUint64(buf[24-8*i:], a[i])
	}
	return new(big.Int).SetBytes(buf[:])
}

func (a fe) isZero() bool { return a[0]|a[1]|a[2]|a[3] == 0 }
func (a fe) isOdd() bool  { return a[0]&1 == 1 }

func feNorm(a fe) fe {
	if a[3] == mx && a[2] == mx && a[1] == mx && a[0] >= p0 {
		var c uint64
		a[0], c = bits.Add64(a[0], pC, 0)
		a[1], c = bits.Add64(a[1], 0, c)
		a[2], c = bits.Add64(a[2], 0, c)
		a[3], _ = bits.Add64(a[3], 0, c)
	}
	return a
}

func feAdd(a, b fe) fe {
	var r fe
	var c uint64
	r[0], c = bits.Add64(a[0], b[0], 0)
	r[1], c = bits.Add64(a[1], b[1], c)
	r[2], c = bits.Add64(a[2], b[2], c)
	r[3], c = bits.Add64(a[3], b[3], c)
	if c != 0 {
		r[0], c = bits.Add64(r[0], pC, 0)
		r[1], c = bits.Add64(r[1], 0, c)
		r[2], c = bits.Add64(r[2], 0, c)
		r[3], _ = bits.Add64(r[3], 0, c)
	}
	return feNorm(r)
}

func feSub(a, b fe) fe {
	var r fe
	var bw uint64
	r[0], bw = bits.Sub64(a[0], b[0], 0)
	r[1], bw = bits.Sub64(a[1], b[1], bw)
	r[2], bw = bits.Sub64(a[2], b[2], bw)
	r[3], bw = bits.Sub64(a[3], b[3], bw)
	if bw != 0 {
		r[0], bw = bits.Sub64(r[0], pC, 0)
		r[1], bw = bits.Sub64(r[1], 0, bw)
		r[2], bw = bits.Sub64(r[2], 0, bw)
		r[3], _ = bits.Sub64(r[3], 0, bw)
	}
	return r
}

func feMul(a, b fe) fe {
	var t [8]uint64
	for i := 0; i < 4; i++ {
		var carry uint64
		for j := 0; j < 4; j++ {
			hi, lo := bits.Mul64(a[i], b[j])
			var c uint64
			lo, c = bits.Add64(lo, carry, 0)
			hi += c
			t[i+j], c = bits.Add64(t[i+j], lo, 0)
			hi += c
			carry = hi
		}
		t[i+4] = carry
	}
	// fold the high half: 2^256 = pC (mod p)
	var r [5]uint64
	var carry uint64
	for i := 0; i < 4; i++ {
		hi, lo := bits.Mul64(t[4+i], pC)
		var c uint64
		lo, c = bits.Add64(lo, carry, 0)
		hi += c
		r[i], c = bits.Add64(t[i], lo, 0)
		hi += c
		carry = hi
	}
	r[4] = carry
	hi, lo := bits.Mul64(r[4], pC)
	var c uint64
	r[0], c = bits.Add64(r[0], lo, 0)
	r[1], c = bits.Add64(r[1], hi, c)
	r[2], c = bits.Add64(r[2], 0, c)
	r[3], c = bits.Add64(r[3], 0, c)
	if c != 0 {
		r[0], c = bits.Add64(r[0], pC, 0)
		r[1], c = bits.Add64(r[1], 0, c)
		r[2], c = bits.Add64(r[2], 0, c)
		r[3], _ = bits.Add64(r[3], 0, c)
	}
	return feNorm(fe{r[0], r[1], r[2], r[3]})
}

func feSqr(a fe) fe { return feMul(a, a) }
func feDbl(a fe) fe { return feAdd(a, a) }
func feInv(a fe) fe { return feFromBig(new(big.Int).ModInverse(a.big(), secp.P)) }
func feOne() fe     { return fe{1, 0, 0, 0} }

type jac struct{ x, y, z fe } // z == 0: infinity

type aff struct {
	x, y fe
	inf  bool
}

func jacInf() jac { return jac{fe{}, feOne(), fe{}} }

func affFrom(p secp.Point) aff {
	if p.Inf {
		return aff{inf: true}
	}
	return aff{x: feFromBig(p.X), y: feFromBig(p.Y)}
}

func (a aff) point() secp.Point {
	if a.inf {
		return secp.Infinity()
	}
	return secp.Point{X: a.x.big(), Y: a.y.big()}
}

func (p jac) toAff() aff {
	if p.z.isZero() {
		return aff{inf: true}
	}
	zi := feInv(p.z)
	zi2 := feSqr(zi)
	return aff{x: feMul(p.x, zi2), y: feMul(p.y, feMul(zi2, zi))}
}

// dbl: dbl-2009-l for a = 0.
func (p jac) dbl() jac {
	if p.z.isZero() || p.y.isZero() {
		return jacInf()
	}
	a := feSqr(p.x)
	b := feSqr(p.y)
	c := feSqr(b)
	d := feDbl(feSub(feSub(feSqr(feAdd(p.x, b)), a), c))
	e := feAdd(feDbl(a), a)
	f := feSqr(e)
	x3 := feSub(f, feDbl(d))
	c8 := feDbl(feDbl(feDbl(c)))
	y3 := feSub(feMul(e, feSub(d, x3)), c8)
	z3 := feDbl(feMul(p.y, p.z))
	return jac{x3, y3, z3}
}

// addAff: madd-2007-bl.
func (p jac) addAff(q aff) jac {
	if q.inf {
		return p
	}
	if p.z.isZero() {
		return jac{q.x, q.y, feOne()}
	}
	z1z1 := feSqr(p.z)
	u2 := feMul(q.x, z1z1)
	s2 := feMul(q.y, feMul(p.z, z1z1))
	h := feSub(u2, p.x)
	r := feSub(s2, p.y)
	if h.isZero() {
		if r.isZero() {
			return p.dbl()
		}
		return jacInf()
	}
	r = feDbl(r)
	hh := feSqr(h)
	i := feDbl(feDbl(hh))
	j := feMul(h, i)
	v := feMul(p.x, i)
	x3 := feSub(feSub(feSqr(r), j), feDbl(v))
	y3 := feSub(feMul(r, feSub(v, x3)), feDbl(feMul(p.y, j)))
	z3 := feSub(feSub(feSqr(feAdd(p.z, h)), z1z1), hh)
	return jac{x3, y3, z3}
}

// smallTable: d*P for d in 1..15 (affine).
func smallTable(p aff) (t [15]aff) {
	acc := jac{p.x, p.y, feOne()}
	t[0] = p
	for d := 2; d <= 15; d++ {
		acc = acc.addAff(p)
		t[d-1] = acc.toAff()
	}
	return t
}

// gTable[w][d-1] = d * 16^w * G.
var (
	gTable [64][15]aff
	gOnce  sync.Once
)

func initG() {
	base := affFrom(secp.G())
	for w := 0; w < 64; w++ {
		gTable[w] = smallTable(base)
		b := jac{base.x, base.y, feOne()}
		for k := 0; k < 4; k++ {
			b = b.dbl()
		}
		base = b.toAff()
	}
}

func scalarBytes(k *big.Int) [32]byte {
	var buf [32]byte
	new(big.Int).Mod(k, secp.N).FillBytes(buf[:])
	return buf
}

// FastBaseMul returns k*G.
func FastBaseMul(k *big.Int) secp.Point {
	gOnce.Do(initG)
	bs := scalarBytes(k)
	acc := jacInf()
	for i := 0; i < 32; i++ {
		b := bs[31-i]
		if lo := int(b & 0x0f); lo != 0 {
			acc = acc.addAff(gTable[2*i][lo-1])
		}
		if hi := int(b >> 4); hi != 0 {
			acc = acc.addAff(gTable[2*i+1][hi-1])
		}
	}
	return acc.toAff().point()
}

// fastMul returns k*p (4-bit fixed window, left to right).
func fastMul(k *big.Int, p secp.Point) secp.Point {
	if p.Inf {
		return p
	}
	t := smallTable(affFrom(p))
	bs := scalarBytes(k)
	acc := jacInf()
	for i := 0; i < 32; i++ {
		for _, d := range [2]int{int(bs[i] >> 4), int(bs[i] & 0x0f)} {
			acc = acc.dbl().dbl().dbl().dbl()
			if d != 0 {
				acc = acc.addAff(t[d-1])
			}
		}
	}
	return acc.toAff().point()
}

func fastAdd(a, b secp.Point) secp.Point {
	if a.Inf {
		return b
	}
	pa := affFrom(a)
	return jac{pa.x, pa.y, feOne()}.addAff(affFrom(b)).toAff().point()
}

// fastVerifyECDSA: r, s in [1, n-1]; R = (e/s)G + (r/s)Q; valid iff R.x mod n == r.
func fastVerifyECDSA(q secp.Point, hash []byte, r, s *big.Int) bool {
	if q.Inf || r.Sign() <= 0 || s.Sign() <= 0 || r.Cmp(secp.N) >= 0 || s.Cmp(secp.N) >= 0 {
		return false
	}
	e := new(big.Int).SetBytes(hash)
	w := new(big.Int).ModInverse(s, secp.N)
	u1 := new(big.Int).Mul(e, w)
	u1.Mod(u1, secp.N)
	u2 := new(big.Int).Mul(r, w)
	u2.Mod(u2, secp.N)
	pt := fastAdd(FastBaseMul(u1), fastMul(u2, q))
	if pt.Inf {
		return false
	}
	return new(big.Int).Mod(pt.X, secp.N).Cmp(r) == 0
}

// fastVerifySchnorr is BIP340 verification.
func fastVerifySchnorr(pk32, msg, sig64 []byte) bool {
	if len(pk32) != 32 || len(sig64) != 64 {
		return false
	}
	P, ok := secp.LiftX(new(big.Int).SetBytes(pk32))
	if !ok {
		return false
	}
	r := new(big.Int).SetBytes(sig64[:32])
	s := new(big.Int).SetBytes(sig64[32:])
	if r.Cmp(secp.P) >= 0 || s.Cmp(secp.N) >= 0 {
		return false
	}
	e := new(big.Int).SetBytes(secp.TaggedHash("BIP0340/challenge", sig64[:32], pk32, msg))
	e.Mod(e, secp.N)
	R := fastAdd(FastBaseMul(s), fastMul(new(big.Int).Sub(secp.N, e), P))
	if R.Inf || R.Y.Bit(0) == 1 || R.X.Cmp(r) != 0 {
		return false
	}
	return true
}

// fastSignECDSA: low-S ECDSA with explicit nonce.
func fastSignECDSA(d *big.Int, hash []byte, k *big.Int) (r, s *big.Int, ok bool) {
	R := FastBaseMul(k)
	if R.Inf {
		return nil, nil, false
	}
	r = new(big.Int).Mod(R.X, secp.N)
	if r.Sign() == 0 {
		return nil, nil, false
	}
	e := new(big.Int).SetBytes(hash)
	s = new(big.Int).Mul(r, d)
	s.Add(s, e)
	s.Mul(s, new(big.Int).ModInverse(k, secp.N))
	s.Mod(s, secp.N)
	if s.Sign() == 0 {
		return nil, nil, false
	}
	if s.Cmp(secp.HalfN) > 0 {
		s.Sub(secp.N, s)
	}
	return r, s, true
}

// fastSignSchnorr is BIP340 default signing with a zero aux value.
func fastSignSchnorr(d0 *big.Int, pub secp.Point, msg []byte) []byte {
	return fastSignSchnorrAux(d0, pub, msg, make([]byte, 32))
}

func fastSignSchnorrAux(d0 *big.Int, pub secp.Point, msg, aux []byte) []byte {
	d := new(big.Int).Set(d0)
	if pub.Y.Bit(0) == 1 {
		d.Sub(secp.N, d0)
	}
	t := secp.Bytes32(d)
	ah := secp.TaggedHash("BIP0340/aux", aux)
	for i := range t {
		t[i] ^= ah[i]
	}
	px := secp.Bytes32(pub.X)
	k0 := new(big.Int).SetBytes(secp.TaggedHash("BIP0340/nonce", t, px, msg))
	k0.Mod(k0, secp.N)
	if k0.Sign() == 0 {
		panic("zero nonce")
	}
	R := FastBaseMul(k0)
	k := new(big.Int).Set(k0)
	if R.Y.Bit(0) == 1 {
		k.Sub(secp.N, k0)
	}
	rx := secp.Bytes32(R.X)
	e := new(big.Int).SetBytes(secp.TaggedHash("BIP0340/challenge", rx, px, msg))
	e.Mod(e, secp.N)
	s := new(big.Int).Mul(e, d)
	s.Add(s, k)
	s.Mod(s, secp.N)
	return append(rx, secp.Bytes32(s)...)
}

// CrossCheckEC compares the fast arithmetic with the affine reference in
// package secp on n pseudo-random inputs derived from seed; it returns a
// description of the first difference or "".
func CrossCheckEC(n int) string {
	// field arithmetic against math/big, on edge values and pseudo-random ones
	edge := []*big.Int{big.NewInt(0), big.NewInt(1), big.NewInt(2), new(big.Int).Sub(secp.P, big.NewInt(1)),
		new(big.Int).Sub(secp.P, big.NewInt(2)), new(big.Int).SetUint64(pC), new(big.Int).SetUint64(pC - 1),
		new(big.Int).Lsh(big.NewInt(1), 255), new(big.Int).Sub(new(big.Int).Lsh(big.NewInt(1), 256), big.NewInt(1)),
		new(big.Int).Lsh(big.NewInt(1), 128), new(big.Int).Sub(new(big.Int).Lsh(big.NewInt(1), 192), big.NewInt(1))}
	for i := 0; i < 4*n; i++ {
		edge = append(edge, new(big.Int).SetBytes(sha256s([]byte{byte(i), byte(i >> 8), 'f'})))
	}
	for i, a := range edge {
		for _, b := range []*big.Int{edge[(i*7+3)%len(edge)], edge[(i+1)%len(edge)], a} {
			am, bm := new(big.Int).Mod(a, secp.P), new(big.Int).Mod(b, secp.P)
			want := new(big.Int).Mul(am, bm)
			want.Mod(want, secp.P)
			if feMul(feFromBig(a), feFromBig(b)).big().Cmp(want) != 0 {
				return "feMul differs from math/big"
			}
			want = new(big.Int).Add(am, bm)
			want.Mod(want, secp.P)
			if feAdd(feFromBig(a), feFromBig(b)).big().Cmp(want) != 0 {
				return "feAdd differs from math/big"
			}
			want = new(big.Int).Sub(am, bm)
			want.Mod(want, secp.P)
			if feSub(feFromBig(a), feFromBig(b)).big().Cmp(want) != 0 {
				return "feSub differs from math/big"
			}
		}
	}
	// small multiples and group-order edge scalars
	for _, k := range []*big.Int{big.NewInt(0), big.NewInt(1), big.NewInt(2), big.NewInt(15), big.NewInt(16), big.NewInt(17),
		new(big.Int).Sub(secp.N, big.NewInt(1)), new(big.Int).Sub(secp.N, big.NewInt(2)), secp.HalfN} {
		if !secp.Equal(FastBaseMul(k), secp.BaseMul(k)) {
			return "FastBaseMul differs from secp.BaseMul on an edge scalar"
		}
		q := secp.BaseMul(big.NewInt(7))
		if !secp.Equal(fastMul(k, q), secp.Mul(k, q)) {
			return "fastMul differs from secp.Mul on an edge scalar"
		}
	}
	g := secp.G()
	if !secp.Equal(fastAdd(g, g), secp.Double(g)) || !fastAdd(g, secp.Neg(g)).Inf || !secp.Equal(fastAdd(secp.Infinity(), g), g) {
		return "fastAdd special cases"
	}
	for i := 0; i < n; i++ {
		k := NewKey([]byte{byte(i), byte(i >> 8), 'x'})
		if !secp.Equal(k.Pub, secp.BaseMul(k.D)) {
			return "FastBaseMul differs from secp.BaseMul"
		}
		msg := sha256s([]byte{byte(i), 'm'})
		sc := new(big.Int).SetBytes(sha256s([]byte{byte(i), 's'}))
		if !secp.Equal(fastMul(sc, k.Pub), secp.Mul(sc, k.Pub)) || !secp.Equal(fastMul(sc, k.Pub), secp.Mul(sc, k.Pub)) {
			return "fastMul differs from secp.Mul"
		}
		// ECDSA: sign fast, verify with both; then corrupt
		nonce := new(big.Int).SetBytes(sha256s([]byte{byte(i), 'n'}))
		nonce.Mod(nonce, secp.N)
		r, s, ok := fastSignECDSA(k.D, msg, nonce)
		r2, s2, ok2 := secp.SignECDSA(k.D, msg, nonce)
		if ok != ok2 || (ok && (r.Cmp(r2) != 0 || s.Cmp(s2) != 0)) {
			return "fastSignECDSA differs from secp.SignECDSA"
		}
		if ok {
			for _, variant := range []int{0, 1, 2} {
				rr, ss, mm := new(big.Int).Set(r), new(big.Int).Set(s), msg
				switch variant {
				case 1:
					ss.Add(ss, big.NewInt(1))
				case 2:
					mm = sha256s(msg)
				}
				if fastVerifyECDSA(k.Pub, mm, rr, ss) != secp.VerifyECDSA(k.Pub, mm, rr, ss) ||
					fastVerifyECDSA(k.Pub, mm, rr, ss) != (variant == 0) {
					return "fastVerifyECDSA differs from secp.VerifyECDSA"
				}
			}
		}
		sig := fastSignSchnorr(k.D, k.Pub, msg)
		sig2, _ := secp.SignSchnorr(secp.Bytes32(k.D), msg, make([]byte, 32))
		if string(sig) != string(sig2) {
			return "fastSignSchnorr differs from secp.SignSchnorr"
		}
		for _, variant := range []int{0, 1, 2} {
			sg, mm := append([]byte{}, sig...), msg
			switch variant {
			case 1:
				sg[40] ^= 1
			case 2:
				mm = sha256s(msg)
			}
			if fastVerifySchnorr(k.XOnly(), mm, sg) != secp.VerifySchnorr(k.XOnly(), mm, sg) ||
				fastVerifySchnorr(k.XOnly(), mm, sg) != (variant == 0) {
				return "fastVerifySchnorr differs from secp.VerifySchnorr"
			}
		}
	}
	return ""
}
