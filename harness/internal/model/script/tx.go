package script

import (
	"encoding/binary"
	"errors"
)

// Serialize returns the transaction serialization, with or without the
// BIP144 witness extension.
func (tx *Tx) Serialize(withWitness bool) []byte {
	hasWit := false
	if withWitness {
		for i := range tx.In {
			if len(tx.In[i].Witness) != 0 {
				hasWit = true
			}
		}
	}
	var b []byte
	b = le32(b, tx.Version)
	if hasWit {
		b = append(b, 0, 1)
	}
	b = compactSize(b, uint64(len(tx.In)))
	for i := range tx.In {
		b = serOutPoint(b, &tx.In[i])
		b = compactSize(b, uint64(len(tx.In[i].ScriptSig)))
		b = append(b, tx.In[i].ScriptSig...)
		b = le32(b, tx.In[i].Sequence)
	}
	b = compactSize(b, uint64(len(tx.Out)))
	for i := range tx.Out {
		b = serTxOut(b, &tx.Out[i])
	}
	if hasWit {
		for i := range tx.In {
			b = compactSize(b, uint64(len(tx.In[i].Witness)))
			for _, it := range tx.In[i].Witness {
				b = compactSize(b, uint64(len(it)))
				b = append(b, it...)
			}
		}
	}
	return le32(b, tx.LockTime)
}

// TxID is the double SHA256 of the serialization without witness, in
// internal byte order.
func (tx *Tx) TxID() [32]byte {
	var h [32]byte
	copy(h[:], sha256d(tx.Serialize(false)))
	return h
}

type rd struct {
	b   []byte
	pos int
	err error
}

func (r *rd) take(n int) []byte {
	if r.err != nil {
		return nil
	}
	if n < 0 || len(r.b)-r.pos < n {
		r.err = errors.New("short read")
		return nil
	}
	v := r.b[r.pos : r.pos+n]
	r.pos += n
	return v
}

func (r *rd) u8() byte {
	v := r.take(1)
	if v == nil {
		return 0
	}
	return v[0]
}

func (r *rd) u32() uint32 {
	v := r.take(4)
	if v == nil {
		return 0
	}
	return binary.LittleEndian.Uint32(v)
}

func (r *rd) u64() uint64 {
	v := r.take(8)
	if v == nil {
		return 0
	}
	return binary.LittleEndian.Uint64(v)
}

func (r *rd) cs() uint64 {
	switch f := r.u8(); f {
	case 253:
		v := r.take(2)
		if v == nil {
			return 0
		}
		return uint64(binary.LittleEndian.Uint16(v))
	case 254:
		return uint64(r.u32())
	case 255:
		return r.u64()
	default:
		return uint64(f)
	}
}

func (r *rd) bytesN() []byte {
	n := r.cs()
	if n > uint64(len(r.b)) {
		r.err = errors.New("length")
		return nil
	}
	return append([]byte{}, r.take(int(n))...)
}

// ParseTxOut decodes one serialized TxOut.
func ParseTxOut(b []byte) (TxOut, error) {
	r := &rd{b: b}
	o := TxOut{Value: int64(r.u64())}
	o.PkScript = r.bytesN()
	if r.err == nil && r.pos != len(b) {
		r.err = errors.New("trailing bytes")
	}
	return o, r.err
}

// ParseTx decodes a transaction (BIP144 aware), as Core's
// UnserializeTransaction does with witness allowed.
func ParseTx(b []byte) (*Tx, error) {
	r := &rd{b: b}
	tx := &Tx{Version: r.u32()}
	readIns := func() {
		n := r.cs()
		if n > uint64(len(b)) {
			r.err = errors.New("count")
			return
		}
		tx.In = make([]TxIn, n)
		for i := range tx.In {
			copy(tx.In[i].PrevHash[:], r.take(32))
			tx.In[i].PrevIndex = r.u32()
			tx.In[i].ScriptSig = r.bytesN()
			tx.In[i].Sequence = r.u32()
		}
	}
	readOuts := func() {
		n := r.cs()
		if n > uint64(len(b)) {
			r.err = errors.New("count")
			return
		}
		tx.Out = make([]TxOut, n)
		for i := range tx.Out {
			tx.Out[i].Value = int64(r.u64())
			tx.Out[i].PkScript = r.bytesN()
		}
	}
	readIns()
	flags := byte(0)
	if r.err == nil && len(tx.In) == 0 {
		flags = r.u8()
		if flags != 0 {
			readIns()
			readOuts()
		}
	} else {
		readOuts()
	}
	if flags&1 != 0 {
		flags ^= 1
		for i := range tx.In {
			n := r.cs()
			if n > uint64(len(b)) {
				r.err = errors.New("count")
				break
			}
			tx.In[i].Witness = make([][]byte, n)
			for j := range tx.In[i].Witness {
				tx.In[i].Witness[j] = r.bytesN()
			}
		}
	}
	if flags != 0 && r.err == nil {
		r.err = errors.New("unknown optional data")
	}
	tx.LockTime = r.u32()
	if r.err == nil && r.pos != len(b) {
		r.err = errors.New("trailing bytes")
	}
	return tx, r.err
}
