// Package script is an independent reference implementation of Bitcoin's
// script verification (VerifyScript / EvalScript / VerifyWitnessProgram of
// Bitcoin Core's interpreter.cpp, BIPs 16, 62-as-flags, 65, 66, 68, 112, 141,
// 143, 147, 341, 342 and pay-to-anchor). It is written from those semantics and
// shares no code with btcd's txscript. Elliptic-curve work is delegated to the
// math/big model in verif/internal/model/secp.
//
// The package is the oracle of check C06; it is calibrated on the Bitcoin
// Core JSON vectors (see calib_test.go).
package script

import "fmt"

// Flags mirrors btcd's txscript.ScriptFlags one-to-one (same order, hence the
// same bit values; the check asserts the correspondence name by name).
type Flags uint32

const (
	P2SH                               Flags = 1 << iota // ScriptBip16
	NullDummy                                            // ScriptStrictMultiSig
	DiscourageUpgradableNops                             // ScriptDiscourageUpgradableNops
	CheckLockTimeVerify                                  // ScriptVerifyCheckLockTimeVerify
	CheckSequenceVerify                                  // ScriptVerifyCheckSequenceVerify
	CleanStack                                           // ScriptVerifyCleanStack
	DERSig                                               // ScriptVerifyDERSignatures
	LowS                                                 // ScriptVerifyLowS
	MinimalData                                          // ScriptVerifyMinimalData
	NullFail                                             // ScriptVerifyNullFail
	SigPushOnly                                          // ScriptVerifySigPushOnly
	StrictEnc                                            // ScriptVerifyStrictEncoding
	Witness                                              // ScriptVerifyWitness
	DiscourageUpgradableWitnessProgram                   // ScriptVerifyDiscourageUpgradeableWitnessProgram
	MinimalIf                                            // ScriptVerifyMinimalIf
	WitnessPubKeyType                                    // ScriptVerifyWitnessPubKeyType
	Taproot                                              // ScriptVerifyTaproot
	DiscourageUpgradableTaprootVersion                   // ScriptVerifyDiscourageUpgradeableTaprootVersion
	DiscourageOpSuccess                                  // ScriptVerifyDiscourageOpSuccess
	DiscourageUpgradablePubkeyType                       // ScriptVerifyDiscourageUpgradeablePubkeyType
	ConstScriptCode                                      // ScriptVerifyConstScriptCode
)

// FlagNames maps the names used in Bitcoin Core's JSON vectors to flags.
var FlagNames = map[string]Flags{
	"P2SH":                                  P2SH,
	"NULLDUMMY":                             NullDummy,
	"DISCOURAGE_UPGRADABLE_NOPS":            DiscourageUpgradableNops,
	"CHECKLOCKTIMEVERIFY":                   CheckLockTimeVerify,
	"CHECKSEQUENCEVERIFY":                   CheckSequenceVerify,
	"CLEANSTACK":                            CleanStack,
	"DERSIG":                                DERSig,
	"LOW_S":                                 LowS,
	"MINIMALDATA":                           MinimalData,
	"NULLFAIL":                              NullFail,
	"SIGPUSHONLY":                           SigPushOnly,
	"STRICTENC":                             StrictEnc,
	"WITNESS":                               Witness,
	"DISCOURAGE_UPGRADABLE_WITNESS_PROGRAM": DiscourageUpgradableWitnessProgram,
	"MINIMALIF":                             MinimalIf,
	"WITNESS_PUBKEYTYPE":                    WitnessPubKeyType,
	"TAPROOT":                               Taproot,
	"DISCOURAGE_UPGRADABLE_TAPROOT_VERSION": DiscourageUpgradableTaprootVersion,
	"DISCOURAGE_OP_SUCCESS":                 DiscourageOpSuccess,
	"DISCOURAGE_UPGRADABLE_PUBKEYTYPE":      DiscourageUpgradablePubkeyType,
	"CONST_SCRIPTCODE":                      ConstScriptCode,
}

func (f Flags) String() string {
	s := ""
	for _, n := range flagOrder {
		if f&FlagNames[n] != 0 {
			if s != "" {
				s += ","
			}
			s += n
		}
	}
	if s == "" {
		return "NONE"
	}
	return s
}

var flagOrder = []string{"P2SH", "NULLDUMMY", "DISCOURAGE_UPGRADABLE_NOPS", "CHECKLOCKTIMEVERIFY",
	"CHECKSEQUENCEVERIFY", "CLEANSTACK", "DERSIG", "LOW_S", "MINIMALDATA", "NULLFAIL", "SIGPUSHONLY",
	"STRICTENC", "WITNESS", "DISCOURAGE_UPGRADABLE_WITNESS_PROGRAM", "MINIMALIF", "WITNESS_PUBKEYTYPE",
	"TAPROOT", "DISCOURAGE_UPGRADABLE_TAPROOT_VERSION", "DISCOURAGE_OP_SUCCESS",
	"DISCOURAGE_UPGRADABLE_PUBKEYTYPE", "CONST_SCRIPTCODE"}

// Limits (consensus).
const (
	MaxScriptElementSize = 520
	MaxOpsPerScript      = 201
	MaxPubKeysPerMulti   = 20
	MaxScriptSize        = 10000
	MaxStackSize         = 1000
	LockTimeThreshold    = 500000000

	SequenceFinal           = 0xffffffff
	SequenceDisableFlag     = 1 << 31
	SequenceTypeFlag        = 1 << 22
	SequenceMask            = 0x0000ffff
	ValidationWeightOffset  = 50
	ValidationWeightPerSig  = 50
	TaprootControlBaseSize  = 33
	TaprootControlNodeSize  = 32
	TaprootControlMaxNodes  = 128
	TaprootLeafMask         = 0xfe
	TaprootLeafTapscript    = 0xc0
	AnnexTag                = 0x50
	SigHashDefault          = 0
	SigHashAll              = 1
	SigHashNone             = 2
	SigHashSingle           = 3
	SigHashAnyoneCanPay     = 0x80
	witnessV0ScriptHashSize = 32
	witnessV0KeyHashSize    = 20
	witnessV1TaprootSize    = 32
)

// Err is a script error in Bitcoin Core's vocabulary (ScriptError).
type Err string

const (
	OK                                    Err = "OK"
	ErrUnknown                            Err = "UNKNOWN_ERROR"
	ErrEvalFalse                          Err = "EVAL_FALSE"
	ErrOpReturn                           Err = "OP_RETURN"
	ErrScriptSize                         Err = "SCRIPT_SIZE"
	ErrPushSize                           Err = "PUSH_SIZE"
	ErrOpCount                            Err = "OP_COUNT"
	ErrStackSize                          Err = "STACK_SIZE"
	ErrSigCount                           Err = "SIG_COUNT"
	ErrPubkeyCount                        Err = "PUBKEY_COUNT"
	ErrVerify                             Err = "VERIFY"
	ErrEqualVerify                        Err = "EQUALVERIFY"
	ErrCheckMultiSigVerify                Err = "CHECKMULTISIGVERIFY"
	ErrCheckSigVerify                     Err = "CHECKSIGVERIFY"
	ErrNumEqualVerify                     Err = "NUMEQUALVERIFY"
	ErrBadOpcode                          Err = "BAD_OPCODE"
	ErrDisabledOpcode                     Err = "DISABLED_OPCODE"
	ErrInvalidStackOperation              Err = "INVALID_STACK_OPERATION"
	ErrInvalidAltstackOperation           Err = "INVALID_ALTSTACK_OPERATION"
	ErrUnbalancedConditional              Err = "UNBALANCED_CONDITIONAL"
	ErrNegativeLockTime                   Err = "NEGATIVE_LOCKTIME"
	ErrUnsatisfiedLockTime                Err = "UNSATISFIED_LOCKTIME"
	ErrSigHashType                        Err = "SIG_HASHTYPE"
	ErrSigDER                             Err = "SIG_DER"
	ErrMinimalData                        Err = "MINIMALDATA"
	ErrSigPushOnly                        Err = "SIG_PUSHONLY"
	ErrSigHighS                           Err = "SIG_HIGH_S"
	ErrSigNullDummy                       Err = "SIG_NULLDUMMY"
	ErrPubkeyType                         Err = "PUBKEYTYPE"
	ErrCleanStack                         Err = "CLEANSTACK"
	ErrMinimalIf                          Err = "MINIMALIF"
	ErrSigNullFail                        Err = "NULLFAIL"
	ErrDiscourageUpgradableNops           Err = "DISCOURAGE_UPGRADABLE_NOPS"
	ErrDiscourageUpgradableWitnessProgram Err = "DISCOURAGE_UPGRADABLE_WITNESS_PROGRAM"
	ErrDiscourageUpgradableTaprootVersion Err = "DISCOURAGE_UPGRADABLE_TAPROOT_VERSION"
	ErrDiscourageOpSuccess                Err = "DISCOURAGE_OP_SUCCESS"
	ErrDiscourageUpgradablePubkeyType     Err = "DISCOURAGE_UPGRADABLE_PUBKEYTYPE"
	ErrWitnessProgramWrongLength          Err = "WITNESS_PROGRAM_WRONG_LENGTH"
	ErrWitnessProgramWitnessEmpty         Err = "WITNESS_PROGRAM_WITNESS_EMPTY"
	ErrWitnessProgramMismatch             Err = "WITNESS_PROGRAM_MISMATCH"
	ErrWitnessMalleated                   Err = "WITNESS_MALLEATED"
	ErrWitnessMalleatedP2SH               Err = "WITNESS_MALLEATED_P2SH"
	ErrWitnessUnexpected                  Err = "WITNESS_UNEXPECTED"
	ErrWitnessPubkeyType                  Err = "WITNESS_PUBKEYTYPE"
	ErrSchnorrSigSize                     Err = "SCHNORR_SIG_SIZE"
	ErrSchnorrSigHashType                 Err = "SCHNORR_SIG_HASHTYPE"
	ErrSchnorrSig                         Err = "SCHNORR_SIG"
	ErrTaprootWrongControlSize            Err = "TAPROOT_WRONG_CONTROL_SIZE"
	ErrTapscriptValidationWeight          Err = "TAPSCRIPT_VALIDATION_WEIGHT"
	ErrTapscriptCheckMultiSig             Err = "TAPSCRIPT_CHECKMULTISIG"
	ErrTapscriptMinimalIf                 Err = "TAPSCRIPT_MINIMALIF"
	ErrTapscriptEmptyPubkey               Err = "TAPSCRIPT_EMPTY_PUBKEY"
	ErrOpCodeSeparator                    Err = "OP_CODESEPARATOR"
	ErrSigFindAndDelete                   Err = "SIG_FINDANDDELETE"
	// ErrScriptNum is Core's UNKNOWN_ERROR raised by a scriptnum_error
	// exception (overflow or non-minimal number); kept apart for diagnostics.
	ErrScriptNum Err = "SCRIPTNUM"
)

// Stage says in which phase of VerifyScript the verdict was reached.
type Stage string

const (
	StageNone       Stage = "ok"
	StagePre        Stage = "precheck"     // SIGPUSHONLY
	StageSigScript  Stage = "scriptSig"    // evaluation of the signature script
	StagePkScript   Stage = "scriptPubKey" // evaluation of the previous output script (incl. final truth test)
	StageRedeem     Stage = "redeem"       // P2SH push-only test and redeem script
	StageWitProgram Stage = "witprog"      // witness program checks before a script runs (malleation, lengths, commitment, key path)
	StageWitScript  Stage = "witscript"    // evaluation of the witness script / tapscript (incl. its clean stack rule)
	StageFinal      Stage = "final"        // CLEANSTACK / unexpected witness
)

// TxIn / TxOut / Tx are the model's own transaction types.
type TxIn struct {
	PrevHash  [32]byte // as serialized (internal byte order)
	PrevIndex uint32
	ScriptSig []byte
	Sequence  uint32
	Witness   [][]byte
}

type TxOut struct {
	Value    int64
	PkScript []byte
}

type Tx struct {
	Version  uint32 // Core: uint32_t version (historically int32 cast to uint32 in the BIP68 test)
	In       []TxIn
	Out      []TxOut
	LockTime uint32
}

// Result is the model's verdict.
type Result struct {
	Err   Err
	Stage Stage
	// LastLayerOps is the number of opcodes the interpreter dispatched in the
	// last script layer it entered (used for the non-triviality predicate).
	LastLayerOps int
	// Layers names the script layers that were executed, in order.
	Layers []string
	// MaxStack is the largest combined stack+altstack depth seen after an
	// opcode, MaxElem the largest element pushed by script execution.
	MaxStack int
	MaxElem  int
	// Unconstrained is set when the verdict was reached on a path where the
	// witness stack is exempt from the size limits (OP_SUCCESSx, unknown
	// witness or leaf version, taproot not active, pay-to-anchor).
	Unconstrained bool
}

// Valid reports whether the spend is valid.
func (r Result) Valid() bool { return r.Err == OK }

func (r Result) String() string { return fmt.Sprintf("%s@%s", r.Err, r.Stage) }

// opcodes
const (
	OP_0                   = 0x00
	OP_PUSHDATA1           = 0x4c
	OP_PUSHDATA2           = 0x4d
	OP_PUSHDATA4           = 0x4e
	OP_1NEGATE             = 0x4f
	OP_RESERVED            = 0x50
	OP_1                   = 0x51
	OP_16                  = 0x60
	OP_NOP                 = 0x61
	OP_VER                 = 0x62
	OP_IF                  = 0x63
	OP_NOTIF               = 0x64
	OP_VERIF               = 0x65
	OP_VERNOTIF            = 0x66
	OP_ELSE                = 0x67
	OP_ENDIF               = 0x68
	OP_VERIFY              = 0x69
	OP_RETURN              = 0x6a
	OP_TOALTSTACK          = 0x6b
	OP_FROMALTSTACK        = 0x6c
	OP_2DROP               = 0x6d
	OP_2DUP                = 0x6e
	OP_3DUP                = 0x6f
	OP_2OVER               = 0x70
	OP_2ROT                = 0x71
	OP_2SWAP               = 0x72
	OP_IFDUP               = 0x73
	OP_DEPTH               = 0x74
	OP_DROP                = 0x75
	OP_DUP                 = 0x76
	OP_NIP                 = 0x77
	OP_OVER                = 0x78
	OP_PICK                = 0x79
	OP_ROLL                = 0x7a
	OP_ROT                 = 0x7b
	OP_SWAP                = 0x7c
	OP_TUCK                = 0x7d
	OP_CAT                 = 0x7e
	OP_SUBSTR              = 0x7f
	OP_LEFT                = 0x80
	OP_RIGHT               = 0x81
	OP_SIZE                = 0x82
	OP_INVERT              = 0x83
	OP_AND                 = 0x84
	OP_OR                  = 0x85
	OP_XOR                 = 0x86
	OP_EQUAL               = 0x87
	OP_EQUALVERIFY         = 0x88
	OP_RESERVED1           = 0x89
	OP_RESERVED2           = 0x8a
	OP_1ADD                = 0x8b
	OP_1SUB                = 0x8c
	OP_2MUL                = 0x8d
	OP_2DIV                = 0x8e
	OP_NEGATE              = 0x8f
	OP_ABS                 = 0x90
	OP_NOT                 = 0x91
	OP_0NOTEQUAL           = 0x92
	OP_ADD                 = 0x93
	OP_SUB                 = 0x94
	OP_MUL                 = 0x95
	OP_DIV                 = 0x96
	OP_MOD                 = 0x97
	OP_LSHIFT              = 0x98
	OP_RSHIFT              = 0x99
	OP_BOOLAND             = 0x9a
	OP_BOOLOR              = 0x9b
	OP_NUMEQUAL            = 0x9c
	OP_NUMEQUALVERIFY      = 0x9d
	OP_NUMNOTEQUAL         = 0x9e
	OP_LESSTHAN            = 0x9f
	OP_GREATERTHAN         = 0xa0
	OP_LESSTHANOREQUAL     = 0xa1
	OP_GREATERTHANOREQUAL  = 0xa2
	OP_MIN                 = 0xa3
	OP_MAX                 = 0xa4
	OP_WITHIN              = 0xa5
	OP_RIPEMD160           = 0xa6
	OP_SHA1                = 0xa7
	OP_SHA256              = 0xa8
	OP_HASH160             = 0xa9
	OP_HASH256             = 0xaa
	OP_CODESEPARATOR       = 0xab
	OP_CHECKSIG            = 0xac
	OP_CHECKSIGVERIFY      = 0xad
	OP_CHECKMULTISIG       = 0xae
	OP_CHECKMULTISIGVERIFY = 0xaf
	OP_NOP1                = 0xb0
	OP_CHECKLOCKTIMEVERIFY = 0xb1
	OP_CHECKSEQUENCEVERIFY = 0xb2
	OP_NOP4                = 0xb3
	OP_NOP10               = 0xb9
	OP_CHECKSIGADD         = 0xba
	OP_INVALIDOPCODE       = 0xff
)
