package script

import (
	"bytes"
	"crypto/sha256"
	"encoding/binary"
	"errors"
)

// GetOp reads one opcode at pc (CScript::GetOp). It returns the opcode, the
// pushed data (nil for non-push opcodes), the new pc and ok=false when the
// script is truncated.
func GetOp(s []byte, pc int) (op byte, data []byte, next int, ok bool) {
	if pc >= len(s) {
		return OP_INVALIDOPCODE, nil, pc, false
	}
	op = s[pc]
	pc++
	if op <= OP_PUSHDATA4 {
		var n uint64
		switch {
		case op < OP_PUSHDATA1:
			n = uint64(op)
		case op == OP_PUSHDATA1:
			if len(s)-pc < 1 {
				return op, nil, pc, false
			}
			n = uint64(s[pc])
			pc++
		case op == OP_PUSHDATA2:
			if len(s)-pc < 2 {
				return op, nil, pc, false
			}
			n = uint64(binary.LittleEndian.Uint16(s[pc:]))
			pc += 2
		default:
			if len(s)-pc < 4 {
				return op, nil, pc, false
			}
			n = uint64(binary.LittleEndian.Uint32(s[pc:]))
			pc += 4
		}
		if uint64(len(s)-pc) < n {
			return op, nil, pc, false
		}
		data = s[pc : pc+int(n)]
		pc += int(n)
	}
	return op, data, pc, true
}

// IsPushOnly is CScript::IsPushOnly (OP_RESERVED counts as a push).
func IsPushOnly(s []byte) bool {
	pc := 0
	for pc < len(s) {
		op, _, next, ok := GetOp(s, pc)
		if !ok {
			return false
		}
		if op > OP_16 {
			return false
		}
		pc = next
	}
	return true
}

// IsPayToScriptHash is CScript::IsPayToScriptHash.
func IsPayToScriptHash(s []byte) bool {
	return len(s) == 23 && s[0] == OP_HASH160 && s[1] == 0x14 && s[22] == OP_EQUAL
}

// IsWitnessProgram is CScript::IsWitnessProgram.
func IsWitnessProgram(s []byte) (version int, program []byte, ok bool) {
	if len(s) < 4 || len(s) > 42 {
		return 0, nil, false
	}
	if s[0] != OP_0 && (s[0] < OP_1 || s[0] > OP_16) {
		return 0, nil, false
	}
	if int(s[1])+2 != len(s) {
		return 0, nil, false
	}
	v := 0
	if s[0] != OP_0 {
		v = int(s[0]) - (OP_1 - 1)
	}
	return v, s[2:], true
}

// IsPayToAnchor is CScript::IsPayToAnchor(version, program).
func IsPayToAnchor(version int, program []byte) bool {
	return version == 1 && len(program) == 2 && program[0] == 0x4e && program[1] == 0x73
}

// IsOpSuccess is BIP342's OP_SUCCESSx set.
func IsOpSuccess(op byte) bool {
	return op == 80 || op == 98 || (op >= 126 && op <= 129) ||
		(op >= 131 && op <= 134) || (op >= 137 && op <= 138) ||
		(op >= 141 && op <= 142) || (op >= 149 && op <= 153) ||
		(op >= 187 && op <= 254)
}

func isDisabled(op byte) bool {
	switch op {
	case OP_CAT, OP_SUBSTR, OP_LEFT, OP_RIGHT, OP_INVERT, OP_AND, OP_OR, OP_XOR,
		OP_2MUL, OP_2DIV, OP_MUL, OP_DIV, OP_MOD, OP_LSHIFT, OP_RSHIFT:
		return true
	}
	return false
}

// PushData returns the canonical (CScript::operator<<) push of data.
func PushData(data []byte) []byte {
	n := len(data)
	var out []byte
	switch {
	case n < OP_PUSHDATA1:
		out = append(out, byte(n))
	case n <= 0xff:
		out = append(out, OP_PUSHDATA1, byte(n))
	case n <= 0xffff:
		out = append(out, OP_PUSHDATA2, byte(n), byte(n>>8))
	default:
		out = append(out, OP_PUSHDATA4, byte(n), byte(n>>8), byte(n>>16), byte(n>>24))
	}
	return append(out, data...)
}

// CheckMinimalPush is Core's CheckMinimalPush.
func CheckMinimalPush(data []byte, op byte) bool {
	switch {
	case len(data) == 0:
		return op == OP_0
	case len(data) == 1 && data[0] >= 1 && data[0] <= 16:
		return false
	case len(data) == 1 && data[0] == 0x81:
		return false
	case len(data) <= 75:
		return int(op) == len(data)
	case len(data) <= 255:
		return op == OP_PUSHDATA1
	case len(data) <= 65535:
		return op == OP_PUSHDATA2
	}
	return true
}

// CastToBool is Core's CastToBool.
func CastToBool(v []byte) bool {
	for i, b := range v {
		if b != 0 {
			// negative zero
			if i == len(v)-1 && b == 0x80 {
				return false
			}
			return true
		}
	}
	return false
}

var (
	errNumOverflow   = errors.New("script number overflow")
	errNumNonMinimal = errors.New("non-minimally encoded script number")
)

// DecodeNum is the CScriptNum constructor: little-endian sign-magnitude, at
// most maxLen bytes, optionally minimal.
func DecodeNum(v []byte, requireMinimal bool, maxLen int) (int64, error) {
	if len(v) > maxLen {
		return 0, errNumOverflow
	}
	if requireMinimal && len(v) > 0 {
		if v[len(v)-1]&0x7f == 0 {
			if len(v) <= 1 || v[len(v)-2]&0x80 == 0 {
				return 0, errNumNonMinimal
			}
		}
	}
	if len(v) == 0 {
		return 0, nil
	}
	var r uint64
	for i, b := range v {
		r |= uint64(b) << (8 * uint(i))
	}
	if v[len(v)-1]&0x80 != 0 {
		r &^= uint64(0x80) << (8 * uint(len(v)-1))
		return -int64(r), nil
	}
	return int64(r), nil
}

// EncodeNum is CScriptNum::serialize.
func EncodeNum(n int64) []byte {
	if n == 0 {
		return []byte{}
	}
	neg := n < 0
	var abs uint64
	if neg {
		abs = uint64(-n)
	} else {
		abs = uint64(n)
	}
	var out []byte
	for abs != 0 {
		out = append(out, byte(abs))
		abs >>= 8
	}
	if out[len(out)-1]&0x80 != 0 {
		if neg {
			out = append(out, 0x80)
		} else {
			out = append(out, 0)
		}
	} else if neg {
		out[len(out)-1] |= 0x80
	}
	return out
}

func clampInt(n int64) int {
	if n > 2147483647 {
		return 2147483647
	}
	if n < -2147483648 {
		return -2147483648
	}
	return int(n)
}

// FindAndDelete is Core's FindAndDelete: removes every occurrence of pat that
// starts at an opcode boundary; returns the new script and the match count.
func FindAndDelete(s, pat []byte) ([]byte, int) {
	if len(pat) == 0 {
		return s, 0
	}
	found := 0
	var result []byte
	pc, pc2 := 0, 0
	for {
		result = append(result, s[pc2:pc]...)
		for len(s)-pc >= len(pat) && bytes.Equal(s[pc:pc+len(pat)], pat) {
			pc += len(pat)
			found++
		}
		pc2 = pc
		_, _, next, ok := GetOp(s, pc)
		if !ok {
			break
		}
		pc = next
	}
	if found > 0 {
		result = append(result, s[pc2:]...)
		return result, found
	}
	return s, 0
}

func sha256d(b []byte) []byte {
	h := sha256.Sum256(b)
	h2 := sha256.Sum256(h[:])
	return h2[:]
}

func sha256s(b []byte) []byte {
	h := sha256.Sum256(b)
	return h[:]
}

// compactSize appends Bitcoin's variable-length integer.
func compactSize(out []byte, n uint64) []byte {
	switch {
	case n < 253:
		return append(out, byte(n))
	case n <= 0xffff:
		return append(out, 253, byte(n), byte(n>>8))
	case n <= 0xffffffff:
		return append(out, 254, byte(n), byte(n>>8), byte(n>>16), byte(n>>24))
	}
	out = append(out, 255)
	var b [8]byte
	binary.LittleEndian.PutUint64(b[:], n)
	return append(out, b[:]...)
}

func le32(out []byte, v uint32) []byte {
	return append(out, byte(v), byte(v>>8), byte(v>>16), byte(v>>24))
}

func le64(out []byte, v uint64) []byte {
	var b [8]byte
	binary.LittleEndian.PutUint64(b[:], v)
	return append(out, b[:]...)
}
