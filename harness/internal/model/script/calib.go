package script

import (
	"encoding/hex"
	"encoding/json"
	"fmt"
	"math"
	"os"
	"path/filepath"
	"sort"
	"strconv"
	"strings"
)

// Calibration: the model is run over Bitcoin Core's JSON vectors (copies under
// $VERIF_CORPUS/c06, taken from /repo/txscript/data at build time of the
// check so that edits to /repo cannot move the oracle). Any disagreement is a
// harness defect (VERIF-INFRA), never a violation.

var opNames = func() map[string]byte {
	m := map[string]byte{}
	names := map[byte]string{
		OP_RESERVED: "RESERVED", OP_NOP: "NOP", OP_VER: "VER", OP_IF: "IF", OP_NOTIF: "NOTIF", OP_VERIF: "VERIF",
		OP_VERNOTIF: "VERNOTIF", OP_ELSE: "ELSE", OP_ENDIF: "ENDIF", OP_VERIFY: "VERIFY", OP_RETURN: "RETURN",
		OP_TOALTSTACK: "TOALTSTACK", OP_FROMALTSTACK: "FROMALTSTACK", OP_2DROP: "2DROP", OP_2DUP: "2DUP",
		OP_3DUP: "3DUP", OP_2OVER: "2OVER", OP_2ROT: "2ROT", OP_2SWAP: "2SWAP", OP_IFDUP: "IFDUP",
		OP_DEPTH: "DEPTH", OP_DROP: "DROP", OP_DUP: "DUP", OP_NIP: "NIP", OP_OVER: "OVER", OP_PICK: "PICK",
		OP_ROLL: "ROLL", OP_ROT: "ROT", OP_SWAP: "SWAP", OP_TUCK: "TUCK", OP_CAT: "CAT", OP_SUBSTR: "SUBSTR",
		OP_LEFT: "LEFT", OP_RIGHT: "RIGHT", OP_SIZE: "SIZE", OP_INVERT: "INVERT", OP_AND: "AND", OP_OR: "OR",
		OP_XOR: "XOR", OP_EQUAL: "EQUAL", OP_EQUALVERIFY: "EQUALVERIFY", OP_RESERVED1: "RESERVED1",
		OP_RESERVED2: "RESERVED2", OP_1ADD: "1ADD", OP_1SUB: "1SUB", OP_2MUL: "2MUL", OP_2DIV: "2DIV",
		OP_NEGATE: "NEGATE", OP_ABS: "ABS", OP_NOT: "NOT", OP_0NOTEQUAL: "0NOTEQUAL", OP_ADD: "ADD", OP_SUB: "SUB",
		OP_MUL: "MUL", OP_DIV: "DIV", OP_MOD: "MOD", OP_LSHIFT: "LSHIFT", OP_RSHIFT: "RSHIFT",
		OP_BOOLAND: "BOOLAND", OP_BOOLOR: "BOOLOR", OP_NUMEQUAL: "NUMEQUAL", OP_NUMEQUALVERIFY: "NUMEQUALVERIFY",
		OP_NUMNOTEQUAL: "NUMNOTEQUAL", OP_LESSTHAN: "LESSTHAN", OP_GREATERTHAN: "GREATERTHAN",
		OP_LESSTHANOREQUAL: "LESSTHANOREQUAL", OP_GREATERTHANOREQUAL: "GREATERTHANOREQUAL", OP_MIN: "MIN",
		OP_MAX: "MAX", OP_WITHIN: "WITHIN", OP_RIPEMD160: "RIPEMD160", OP_SHA1: "SHA1", OP_SHA256: "SHA256",
		OP_HASH160: "HASH160", OP_HASH256: "HASH256", OP_CODESEPARATOR: "CODESEPARATOR", OP_CHECKSIG: "CHECKSIG",
		OP_CHECKSIGVERIFY: "CHECKSIGVERIFY", OP_CHECKMULTISIG: "CHECKMULTISIG",
		OP_CHECKMULTISIGVERIFY: "CHECKMULTISIGVERIFY", OP_NOP1: "NOP1", OP_CHECKLOCKTIMEVERIFY: "CHECKLOCKTIMEVERIFY",
		OP_CHECKSEQUENCEVERIFY: "CHECKSEQUENCEVERIFY", OP_CHECKSIGADD: "CHECKSIGADD",
	}
	for op, n := range names {
		m[n] = op
		m["OP_"+n] = op
	}
	for i := 0; i <= 6; i++ {
		n := "NOP" + strconv.Itoa(4+i)
		m[n] = byte(OP_NOP4 + i)
		m["OP_"+n] = byte(OP_NOP4 + i)
	}
	m["NOP2"], m["OP_NOP2"] = OP_CHECKLOCKTIMEVERIFY, OP_CHECKLOCKTIMEVERIFY
	m["NOP3"], m["OP_NOP3"] = OP_CHECKSEQUENCEVERIFY, OP_CHECKSEQUENCEVERIFY
	return m
}()

// ParseAsm parses the script notation of Core's JSON vectors (ParseScript).
func ParseAsm(s string) ([]byte, error) {
	var out []byte
	for _, w := range strings.Fields(s) {
		switch {
		case isDecimal(w):
			n, err := strconv.ParseInt(w, 10, 64)
			if err != nil || n < -0xffffffff || n > 0xffffffff {
				return nil, fmt.Errorf("number out of range: %q", w)
			}
			switch {
			case n == -1 || (n >= 1 && n <= 16):
				out = append(out, byte(n+OP_1-1))
			case n == 0:
				out = append(out, OP_0)
			default:
				out = append(out, PushData(EncodeNum(n))...)
			}
		case strings.HasPrefix(w, "0x") && len(w) > 2:
			b, err := hex.DecodeString(w[2:])
			if err != nil {
				return nil, fmt.Errorf("bad hex %q", w)
			}
			out = append(out, b...)
		case len(w) >= 2 && w[0] == '\'' && w[len(w)-1] == '\'':
			out = append(out, PushData([]byte(w[1:len(w)-1]))...)
		default:
			op, ok := opNames[w]
			if !ok {
				return nil, fmt.Errorf("unknown token %q", w)
			}
			out = append(out, op)
		}
	}
	return out, nil
}

func isDecimal(w string) bool {
	if strings.HasPrefix(w, "-") {
		w = w[1:]
	}
	if w == "" {
		return false
	}
	for _, c := range w {
		if c < '0' || c > '9' {
			return false
		}
	}
	return true
}

// ParseFlags parses a comma separated flag list; unknown names are returned.
func ParseFlags(s string) (Flags, []string) {
	var f Flags
	var unknown []string
	for _, n := range strings.Split(s, ",") {
		n = strings.TrimSpace(n)
		if n == "" || n == "NONE" {
			continue
		}
		v, ok := FlagNames[n]
		if !ok {
			unknown = append(unknown, n)
			continue
		}
		f |= v
	}
	return f, unknown
}

// CalibStats reports what the calibration covered.
type CalibStats struct {
	ScriptTests, ScriptTestsOK int
	TxValid, TxInvalid         int
	TxInvalidBadTx             int
	SigHash                    int
	TaprootSuccess             int
	TaprootFailure             int
	Skipped                    []string
}

func (s CalibStats) String() string {
	return fmt.Sprintf("script_tests=%d (OK %d) tx_valid=%d tx_invalid=%d (BADTX %d) sighash=%d taproot success=%d failure=%d skipped=%d",
		s.ScriptTests, s.ScriptTestsOK, s.TxValid, s.TxInvalid, s.TxInvalidBadTx, s.SigHash, s.TaprootSuccess, s.TaprootFailure, len(s.Skipped))
}

// CorpusDir returns the directory of the copied vectors.
func CorpusDir() string {
	d := os.Getenv("VERIF_CORPUS")
	if d == "" {
		d = "/verif/corpus"
	}
	return filepath.Join(d, "c06")
}

// errAlias maps vector error names onto the model's.
func sameErr(model Err, vector string) bool {
	if string(model) == vector {
		return true
	}
	switch vector {
	case "UNKNOWN_ERROR":
		return model == ErrScriptNum
	case "SCRIPTNUM":
		return model == ErrUnknown
	case "SIG_NULLFAIL":
		return model == ErrSigNullFail
	case "INVALID_STACK_OPERATION":
		// the copied script_tests.json labels an IF/NOTIF on an empty stack
		// INVALID_STACK_OPERATION where Core's current table says
		// UNBALANCED_CONDITIONAL; the verdict (invalid) is what is calibrated
		return model == ErrUnbalancedConditional
	}
	return false
}

// numsKey is the internal key Core's script_tests use for the #CONTROLBLOCK#
// / #TAPROOTOUTPUT# placeholders (the BIP341 NUMS point).
var numsKey, _ = hex.DecodeString("50929b74c1a04954b78b4b6035e97a5e078a5a0f28ec96d547bfee9ace803ac0")

// Calibrate runs every vector; the returned error lists all disagreements.
// maxTaproot limits the number of taproot-ref files (0 = all).
func Calibrate(dir string, maxTaproot int) (CalibStats, error) {
	var st CalibStats
	var bad []string
	fail := func(f string, a ...any) {
		if len(bad) < 40 {
			bad = append(bad, fmt.Sprintf(f, a...))
		}
	}
	if d := CrossCheckEC(40); d != "" {
		return st, fmt.Errorf("fast EC arithmetic disagrees with the affine reference (model/secp): %s", d)
	}
	if err := calibScriptTests(filepath.Join(dir, "script_tests.json"), &st, fail); err != nil {
		return st, err
	}
	if err := calibTxTests(filepath.Join(dir, "tx_valid.json"), true, &st, fail); err != nil {
		return st, err
	}
	if err := calibTxTests(filepath.Join(dir, "tx_invalid.json"), false, &st, fail); err != nil {
		return st, err
	}
	if err := calibSigHash(filepath.Join(dir, "sighash.json"), &st, fail); err != nil {
		return st, err
	}
	if err := calibTaproot(filepath.Join(dir, "taproot-ref"), maxTaproot, &st, fail); err != nil {
		return st, err
	}
	if len(bad) > 0 {
		return st, fmt.Errorf("model disagrees with %d+ specification vectors:\n  %s", len(bad), strings.Join(bad, "\n  "))
	}
	return st, nil
}

func loadJSON(path string, v any) error {
	b, err := os.ReadFile(path)
	if err != nil {
		return err
	}
	return json.Unmarshal(b, v)
}

func calibScriptTests(path string, st *CalibStats, fail func(string, ...any)) error {
	var tests [][]any
	if err := loadJSON(path, &tests); err != nil {
		return err
	}
	for ti, t := range tests {
		if len(t) < 4 {
			continue // comment
		}
		pos := 0
		var witness [][]byte
		var amount int64
		var witStrs []string
		if arr, ok := t[0].([]any); ok {
			for i, w := range arr {
				if i == len(arr)-1 {
					f, ok := w.(float64)
					if !ok {
						return fmt.Errorf("script_tests #%d: amount", ti)
					}
					amount = int64(math.Round(f * 1e8))
					break
				}
				witStrs = append(witStrs, w.(string))
			}
			pos = 1
		}
		sigStr, pkStr, flagStr, want := t[pos].(string), t[pos+1].(string), t[pos+2].(string), t[pos+3].(string)
		flags, unknown := ParseFlags(flagStr)
		if len(unknown) > 0 {
			st.Skipped = append(st.Skipped, fmt.Sprintf("script_tests #%d: flags %v", ti, unknown))
			continue
		}
		// taproot placeholders
		var tapScript []byte
		for _, w := range witStrs {
			if strings.HasPrefix(w, "#SCRIPT#") {
				s, err := ParseAsm(strings.TrimPrefix(w, "#SCRIPT#"))
				if err != nil {
					return fmt.Errorf("script_tests #%d: %v", ti, err)
				}
				tapScript = s
			}
		}
		var control, outKey []byte
		if tapScript != nil {
			leaf := TapLeafHash(TaprootLeafTapscript, tapScript)
			q, parity, ok := tapTweakXOnly(numsKey, leaf)
			if !ok {
				return fmt.Errorf("script_tests #%d: tweak", ti)
			}
			outKey = q
			control = append([]byte{TaprootLeafTapscript | parity}, numsKey...)
		}
		for _, w := range witStrs {
			switch {
			case strings.HasPrefix(w, "#SCRIPT#"):
				witness = append(witness, tapScript)
			case w == "#CONTROLBLOCK#":
				witness = append(witness, control)
			default:
				b, err := hex.DecodeString(w)
				if err != nil {
					return fmt.Errorf("script_tests #%d: witness hex", ti)
				}
				witness = append(witness, b)
			}
		}
		pkStr = strings.ReplaceAll(pkStr, "#TAPROOTOUTPUT#", "0x"+hex.EncodeToString(outKey))
		scriptSig, err := ParseAsm(sigStr)
		if err != nil {
			return fmt.Errorf("script_tests #%d: %v", ti, err)
		}
		pk, err := ParseAsm(pkStr)
		if err != nil {
			return fmt.Errorf("script_tests #%d: %v", ti, err)
		}
		credit := &Tx{Version: 1,
			In:  []TxIn{{PrevIndex: 0xffffffff, ScriptSig: []byte{0, 0}, Sequence: 0xffffffff}},
			Out: []TxOut{{Value: amount, PkScript: pk}}}
		spend := &Tx{Version: 1,
			In:  []TxIn{{PrevHash: credit.TxID(), PrevIndex: 0, ScriptSig: scriptSig, Sequence: 0xffffffff, Witness: witness}},
			Out: []TxOut{{Value: amount, PkScript: []byte{}}}}
		res := Verify(spend, 0, []TxOut{credit.Out[0]}, flags)
		st.ScriptTests++
		if want == "OK" {
			st.ScriptTestsOK++
		}
		if !sameErr(res.Err, want) {
			fail("script_tests #%d [%q | %q | %s]: model %s, vector %s", ti, sigStr, pkStr, flagStr, res, want)
		}
	}
	return nil
}

// tapTweakXOnly computes the taproot output key for an x-only internal key.
func tapTweakXOnly(internal, root []byte) (q []byte, parity byte, ok bool) {
	return TweakXOnly(internal, root)
}

// checkTransaction is the context-free part of Core's CheckTransaction that
// the tx_invalid vectors rely on.
func checkTransaction(tx *Tx) bool {
	const maxMoney = 21000000 * 100000000
	if len(tx.In) == 0 || len(tx.Out) == 0 {
		return false
	}
	if len(tx.Serialize(false))*4 > 4000000 {
		return false
	}
	var total int64
	for _, o := range tx.Out {
		if o.Value < 0 || o.Value > maxMoney {
			return false
		}
		total += o.Value
		if total < 0 || total > maxMoney {
			return false
		}
	}
	seen := map[string]bool{}
	for _, in := range tx.In {
		k := string(in.PrevHash[:]) + fmt.Sprint(in.PrevIndex)
		if seen[k] {
			return false
		}
		seen[k] = true
	}
	isNull := func(in *TxIn) bool { return in.PrevHash == [32]byte{} && in.PrevIndex == 0xffffffff }
	if len(tx.In) == 1 && isNull(&tx.In[0]) {
		if l := len(tx.In[0].ScriptSig); l < 2 || l > 100 {
			return false
		}
	} else {
		for i := range tx.In {
			if isNull(&tx.In[i]) {
				return false
			}
		}
	}
	return true
}

func calibTxTests(path string, valid bool, st *CalibStats, fail func(string, ...any)) error {
	var tests [][]any
	if err := loadJSON(path, &tests); err != nil {
		return err
	}
	name := filepath.Base(path)
	for ti, t := range tests {
		if len(t) != 3 {
			continue
		}
		ins, ok := t[0].([]any)
		if !ok {
			continue
		}
		raw, err := hex.DecodeString(t[1].(string))
		if err != nil {
			return fmt.Errorf("%s #%d: hex", name, ti)
		}
		flagStr := t[2].(string)
		badTx := false
		var names []string
		for _, n := range strings.Split(flagStr, ",") {
			if n == "BADTX" {
				badTx = true
				continue
			}
			names = append(names, n)
		}
		flags, unknown := ParseFlags(strings.Join(names, ","))
		if len(unknown) > 0 {
			st.Skipped = append(st.Skipped, fmt.Sprintf("%s #%d: flags %v", name, ti, unknown))
			continue
		}
		tx, err := ParseTx(raw)
		if err != nil {
			if valid {
				fail("%s #%d: model cannot parse the transaction: %v", name, ti, err)
			} else {
				st.TxInvalid++
			}
			continue
		}
		type po struct {
			script []byte
			amount int64
		}
		prev := map[string]po{}
		for _, in := range ins {
			a := in.([]any)
			h, err := hex.DecodeString(a[0].(string))
			if err != nil || len(h) != 32 {
				return fmt.Errorf("%s #%d: prevout hash", name, ti)
			}
			for i, j := 0, 31; i < j; i, j = i+1, j-1 {
				h[i], h[j] = h[j], h[i]
			}
			idx := uint32(int64(a[1].(float64)))
			s, err := ParseAsm(a[2].(string))
			if err != nil {
				return fmt.Errorf("%s #%d: %v", name, ti, err)
			}
			var amt int64
			if len(a) > 3 {
				amt = int64(a[3].(float64))
			}
			prev[string(h)+fmt.Sprint(idx)] = po{s, amt}
		}
		okAll := checkTransaction(tx)
		if badTx {
			st.TxInvalidBadTx++
		}
		prevouts := make([]TxOut, len(tx.In))
		missing := false
		for i := range tx.In {
			p, ok := prev[string(tx.In[i].PrevHash[:])+fmt.Sprint(tx.In[i].PrevIndex)]
			if !ok {
				missing = true
				break
			}
			prevouts[i] = TxOut{Value: p.amount, PkScript: p.script}
		}
		if missing {
			if valid {
				fail("%s #%d: prevout missing", name, ti)
			} else {
				st.TxInvalid++
			}
			continue
		}
		// Core's transaction_tests format: in tx_valid the listed flags are
		// the ones to EXCLUDE (the transaction is valid under all others, and
		// stays valid when any further flag is removed); in tx_invalid the
		// listed flags are applied (and adding a flag keeps it invalid).
		verifyAll := func(fl Flags) (bool, Result) {
			if !okAll {
				return false, Result{Err: ErrUnknown, Stage: StagePre}
			}
			for i := range tx.In {
				if r := Verify(tx, i, prevouts, fl); !r.Valid() {
					return false, r
				}
			}
			return true, Result{}
		}
		if valid {
			st.TxValid++
			if (AllFlags &^ flags) != fillFlags(AllFlags&^flags) {
				fail("%s #%d [%s]: bad test flags", name, ti, flagStr)
			}
			if ok, r := verifyAll(AllFlags &^ flags); !ok {
				fail("%s #%d [excluded %s]: model says invalid (%s), vector valid", name, ti, flagStr, r)
			}
			for _, n := range flagOrder {
				fl := trimFlags(AllFlags &^ (flags | FlagNames[n]))
				if ok, r := verifyAll(fl); !ok {
					fail("%s #%d [excluded %s and %s]: model says invalid (%s), vector valid", name, ti, flagStr, n, r)
				}
			}
		} else {
			st.TxInvalid++
			if ok, _ := verifyAll(flags); ok {
				fail("%s #%d [%s]: model says valid, vector invalid", name, ti, flagStr)
			}
			for _, n := range flagOrder {
				if ok, _ := verifyAll(fillFlags(flags | FlagNames[n])); ok {
					fail("%s #%d [%s plus %s]: model says valid, vector invalid", name, ti, flagStr, n)
				}
			}
		}
	}
	return nil
}

func calibSigHash(path string, st *CalibStats, fail func(string, ...any)) error {
	var tests [][]any
	if err := loadJSON(path, &tests); err != nil {
		return err
	}
	for ti, t := range tests {
		if len(t) != 5 {
			continue
		}
		raw, _ := hex.DecodeString(t[0].(string))
		scr, _ := hex.DecodeString(t[1].(string))
		idx := int(t[2].(float64))
		ht := uint32(int32(int64(t[3].(float64))))
		want, _ := hex.DecodeString(t[4].(string))
		tx, err := ParseTx(raw)
		if err != nil {
			fail("sighash #%d: parse: %v", ti, err)
			continue
		}
		got := LegacySigHash(tx, idx, scr, ht)
		// the vector prints the hash as a uint256 (byte-reversed)
		rev := make([]byte, 32)
		for i := range got {
			rev[31-i] = got[i]
		}
		st.SigHash++
		if hex.EncodeToString(rev) != hex.EncodeToString(want) {
			fail("sighash #%d: model %x, vector %x", ti, rev, want)
		}
	}
	return nil
}

type tapVec struct {
	Tx       string   `json:"tx"`
	Prevouts []string `json:"prevouts"`
	Index    int      `json:"index"`
	Flags    string   `json:"flags"`
	Comment  string   `json:"comment"`
	Final    bool     `json:"final"`
	Success  *tapWit  `json:"success"`
	Failure  *tapWit  `json:"failure"`
}

type tapWit struct {
	ScriptSig string   `json:"scriptSig"`
	Witness   []string `json:"witness"`
}

func calibTaproot(dir string, max int, st *CalibStats, fail func(string, ...any)) error {
	ents, err := os.ReadDir(dir)
	if err != nil {
		return err
	}
	var names []string
	for _, e := range ents {
		names = append(names, e.Name())
	}
	sort.Strings(names)
	if max > 0 && len(names) > max {
		// evenly spaced subset
		step := float64(len(names)) / float64(max)
		var sub []string
		for i := 0; i < max; i++ {
			sub = append(sub, names[int(float64(i)*step)])
		}
		names = sub
	}
	for _, n := range names {
		b, err := os.ReadFile(filepath.Join(dir, n))
		if err != nil {
			return err
		}
		s := strings.TrimSpace(string(b))
		s = strings.TrimSuffix(s, ",")
		var v tapVec
		if err := json.Unmarshal([]byte(s), &v); err != nil {
			return fmt.Errorf("taproot-ref/%s: %v", n, err)
		}
		flags, unknown := ParseFlags(v.Flags)
		if len(unknown) > 0 {
			st.Skipped = append(st.Skipped, fmt.Sprintf("taproot-ref/%s: flags %v", n, unknown))
			continue
		}
		raw, _ := hex.DecodeString(v.Tx)
		tx, err := ParseTx(raw)
		if err != nil {
			fail("taproot-ref/%s: parse: %v", n, err)
			continue
		}
		prevouts := make([]TxOut, len(v.Prevouts))
		for i, p := range v.Prevouts {
			pb, _ := hex.DecodeString(p)
			o, err := ParseTxOut(pb)
			if err != nil {
				return fmt.Errorf("taproot-ref/%s: prevout: %v", n, err)
			}
			prevouts[i] = o
		}
		run := func(w *tapWit, fl Flags) Result {
			t2 := *tx
			t2.In = append([]TxIn{}, tx.In...)
			ss, _ := hex.DecodeString(w.ScriptSig)
			t2.In[v.Index].ScriptSig = ss
			t2.In[v.Index].Witness = nil
			for _, it := range w.Witness {
				ib, _ := hex.DecodeString(it)
				t2.In[v.Index].Witness = append(t2.In[v.Index].Witness, ib)
			}
			return Verify(&t2, v.Index, prevouts, fl)
		}
		if v.Success != nil {
			st.TaprootSuccess++
			if r := run(v.Success, flags); !r.Valid() {
				fail("taproot-ref/%s (%s) success case: model %s", n, v.Comment, r)
			}
			// Core's harness: a success case holds for every subset of the
			// consensus flags; the soft-fork history prefixes are checked.
			for _, sub := range HistoryFlagSets() {
				if sub&flags == sub {
					if r := run(v.Success, sub); !r.Valid() {
						fail("taproot-ref/%s (%s) success case under subset %s: model %s", n, v.Comment, sub, r)
					}
				}
			}
		}
		if v.Failure != nil {
			st.TaprootFailure++
			if r := run(v.Failure, flags); r.Valid() {
				fail("taproot-ref/%s (%s) failure case: model says valid", n, v.Comment)
			}
		}
	}
	return nil
}

// AllFlags is the union of every flag.
const AllFlags = ConstScriptCode<<1 - 1

// trimFlags / fillFlags are the helpers of Core's transaction_tests.
func trimFlags(f Flags) Flags {
	if f&P2SH == 0 {
		f &^= Witness
	}
	if f&Witness == 0 {
		f &^= CleanStack
	}
	return f
}

func fillFlags(f Flags) Flags {
	if f&CleanStack != 0 {
		f |= Witness
	}
	if f&Witness != 0 {
		f |= P2SH
	}
	return f
}

// HistoryFlagSets lists the consensus flag sets that btcd's block validation
// can build as soft forks activate in their historical order.
func HistoryFlagSets() []Flags {
	return []Flags{
		0,
		P2SH,
		P2SH | DERSig,
		P2SH | DERSig | CheckLockTimeVerify,
		P2SH | DERSig | CheckLockTimeVerify | CheckSequenceVerify,
		P2SH | DERSig | CheckLockTimeVerify | CheckSequenceVerify | Witness | NullDummy,
		P2SH | DERSig | CheckLockTimeVerify | CheckSequenceVerify | Witness | NullDummy | Taproot,
	}
}
