package script

import (
	"crypto/sha256"

	"verif/internal/model/secp"
)

// This file holds the model's own signature-hash code: the original
// algorithm (with OP_CODESEPARATOR removal and the SIGHASH_SINGLE "one"
// quirk), BIP143 and BIP341/342. It is written from Core's
// SignatureHash / SignatureHashSchnorr and the BIPs.

func serOutPoint(out []byte, in *TxIn) []byte {
	out = append(out, in.PrevHash[:]...)
	return le32(out, in.PrevIndex)
}

func serTxOut(out []byte, o *TxOut) []byte {
	out = le64(out, uint64(o.Value))
	out = compactSize(out, uint64(len(o.PkScript)))
	return append(out, o.PkScript...)
}

// stripCodeSeparators is CTransactionSignatureSerializer::SerializeScriptCode
// without the length prefix: the bytes of every OP_CODESEPARATOR that is
// reached by sequential parsing are dropped; parsing stops at a malformed push
// and the rest is kept verbatim.
func stripCodeSeparators(code []byte) []byte {
	var out []byte
	begin, pc := 0, 0
	for {
		op, _, next, ok := GetOp(code, pc)
		pc = next
		if !ok {
			break
		}
		if op == OP_CODESEPARATOR {
			out = append(out, code[begin:pc-1]...)
			begin = pc
		}
	}
	// Core writes [itBegin, it) where it is wherever the failed GetOp left
	// the iterator (the end for well-formed scripts). A script with a
	// malformed push can never validate, so the short write is unobservable
	// in verdicts; it is reproduced for fidelity.
	return append(out, code[begin:pc]...)
}

// codeSepCount is the first loop of SerializeScriptCode.
func codeSepCount(code []byte) int {
	n, pc := 0, 0
	for {
		op, _, next, ok := GetOp(code, pc)
		if !ok {
			return n
		}
		pc = next
		if op == OP_CODESEPARATOR {
			n++
		}
	}
}

var one32 = func() []byte { b := make([]byte, 32); b[0] = 1; return b }()

// LegacySigHash is SignatureHash for SigVersion::BASE. scriptCode must
// already have had FindAndDelete applied by the caller. hashType is the full
// 32-bit value that gets serialized (the interpreter passes the signature's
// last byte).
func LegacySigHash(tx *Tx, idx int, scriptCode []byte, hashType uint32) []byte {
	base := hashType & 0x1f
	if base == SigHashSingle && idx >= len(tx.Out) {
		return one32
	}
	anyone := hashType&SigHashAnyoneCanPay != 0
	single := base == SigHashSingle
	none := base == SigHashNone

	code := stripCodeSeparators(scriptCode)
	var b []byte
	b = le32(b, tx.Version)
	nIn := len(tx.In)
	if anyone {
		nIn = 1
	}
	b = compactSize(b, uint64(nIn))
	for i := 0; i < nIn; i++ {
		n := i
		if anyone {
			n = idx
		}
		b = serOutPoint(b, &tx.In[n])
		if n != idx {
			b = compactSize(b, 0)
		} else {
			b = compactSize(b, uint64(len(scriptCode)-codeSepCount(scriptCode)))
			b = append(b, code...)
		}
		if n != idx && (single || none) {
			b = le32(b, 0)
		} else {
			b = le32(b, tx.In[n].Sequence)
		}
	}
	nOut := len(tx.Out)
	if none {
		nOut = 0
	} else if single {
		nOut = idx + 1
	}
	b = compactSize(b, uint64(nOut))
	for i := 0; i < nOut; i++ {
		if single && i != idx {
			// CTxOut(): value -1, empty script
			b = le64(b, ^uint64(0))
			b = compactSize(b, 0)
		} else {
			b = serTxOut(b, &tx.Out[i])
		}
	}
	b = le32(b, tx.LockTime)
	b = le32(b, hashType)
	return sha256d(b)
}

// WitnessV0SigHash is BIP143.
func WitnessV0SigHash(tx *Tx, idx int, scriptCode []byte, hashType uint32, amount int64) []byte {
	base := hashType & 0x1f
	anyone := hashType&SigHashAnyoneCanPay != 0
	zero := make([]byte, 32)
	hashPrevouts, hashSequence, hashOutputs := zero, zero, zero
	if !anyone {
		var b []byte
		for i := range tx.In {
			b = serOutPoint(b, &tx.In[i])
		}
		hashPrevouts = sha256d(b)
	}
	if !anyone && base != SigHashSingle && base != SigHashNone {
		var b []byte
		for i := range tx.In {
			b = le32(b, tx.In[i].Sequence)
		}
		hashSequence = sha256d(b)
	}
	if base != SigHashSingle && base != SigHashNone {
		var b []byte
		for i := range tx.Out {
			b = serTxOut(b, &tx.Out[i])
		}
		hashOutputs = sha256d(b)
	} else if base == SigHashSingle && idx < len(tx.Out) {
		hashOutputs = sha256d(serTxOut(nil, &tx.Out[idx]))
	}
	var b []byte
	b = le32(b, tx.Version)
	b = append(b, hashPrevouts...)
	b = append(b, hashSequence...)
	b = serOutPoint(b, &tx.In[idx])
	b = compactSize(b, uint64(len(scriptCode)))
	b = append(b, scriptCode...)
	b = le64(b, uint64(amount))
	b = le32(b, tx.In[idx].Sequence)
	b = append(b, hashOutputs...)
	b = le32(b, tx.LockTime)
	b = le32(b, hashType)
	return sha256d(b)
}

// TapCtx is the per-input BIP341/342 execution data (ScriptExecutionData).
type TapCtx struct {
	AnnexPresent bool
	AnnexHash    []byte
	TapLeafHash  []byte
	CodeSepPos   uint32
	WeightLeft   int64
}

// TaprootSigHash is SignatureHashSchnorr. ok=false for an undefined hash type
// or SIGHASH_SINGLE without a matching output. tapscript selects ext_flag 1.
func TaprootSigHash(tx *Tx, idx int, prevouts []TxOut, hashType byte, tapscript bool, ctx *TapCtx) ([]byte, bool) {
	if !(hashType <= 0x03 || (hashType >= 0x81 && hashType <= 0x83)) {
		return nil, false
	}
	if len(prevouts) != len(tx.In) {
		return nil, false
	}
	outType := hashType & 3
	if hashType == SigHashDefault {
		outType = SigHashAll
	}
	inType := hashType & 0x80
	var b []byte
	b = append(b, 0) // epoch
	b = append(b, hashType)
	b = le32(b, tx.Version)
	b = le32(b, tx.LockTime)
	if inType != SigHashAnyoneCanPay {
		var po, am, sc, sq []byte
		for i := range tx.In {
			po = serOutPoint(po, &tx.In[i])
			am = le64(am, uint64(prevouts[i].Value))
			sc = compactSize(sc, uint64(len(prevouts[i].PkScript)))
			sc = append(sc, prevouts[i].PkScript...)
			sq = le32(sq, tx.In[i].Sequence)
		}
		b = append(b, sha256s(po)...)
		b = append(b, sha256s(am)...)
		b = append(b, sha256s(sc)...)
		b = append(b, sha256s(sq)...)
	}
	if outType == SigHashAll {
		var o []byte
		for i := range tx.Out {
			o = serTxOut(o, &tx.Out[i])
		}
		b = append(b, sha256s(o)...)
	}
	spendType := byte(0)
	if tapscript {
		spendType = 2
	}
	if ctx.AnnexPresent {
		spendType |= 1
	}
	b = append(b, spendType)
	if inType == SigHashAnyoneCanPay {
		b = serOutPoint(b, &tx.In[idx])
		b = serTxOut(b, &prevouts[idx])
		b = le32(b, tx.In[idx].Sequence)
	} else {
		b = le32(b, uint32(idx))
	}
	if ctx.AnnexPresent {
		b = append(b, ctx.AnnexHash...)
	}
	if outType == SigHashSingle {
		if idx >= len(tx.Out) {
			return nil, false
		}
		b = append(b, sha256s(serTxOut(nil, &tx.Out[idx]))...)
	}
	if tapscript {
		b = append(b, ctx.TapLeafHash...)
		b = append(b, 0) // key_version
		b = le32(b, ctx.CodeSepPos)
	}
	return secp.TaggedHash("TapSighash", b), true
}

// AnnexHash is SHA256(compact_size(len) || annex).
func AnnexHash(annex []byte) []byte {
	h := sha256.New()
	h.Write(compactSize(nil, uint64(len(annex))))
	h.Write(annex)
	return h.Sum(nil)
}

// TapLeafHash is ComputeTapleafHash.
func TapLeafHash(leafVersion byte, script []byte) []byte {
	b := []byte{leafVersion}
	b = compactSize(b, uint64(len(script)))
	b = append(b, script...)
	return secp.TaggedHash("TapLeaf", b)
}

// TapBranchHash combines two nodes in lexicographic order.
func TapBranchHash(a, b []byte) []byte {
	for i := 0; i < 32; i++ {
		if a[i] != b[i] {
			if a[i] > b[i] {
				a, b = b, a
			}
			break
		}
	}
	return secp.TaggedHash("TapBranch", a, b)
}
