package script

import (
	"testing"
)

// TestCalibration runs the model over the Bitcoin Core vectors.
func TestCalibration(t *testing.T) {
	st, err := Calibrate(CorpusDir(), 0)
	t.Log(st)
	for _, s := range st.Skipped {
		t.Log("skipped:", s)
	}
	if err != nil {
		t.Fatalf("VERIF-INFRA: %v", err)
	}
}
