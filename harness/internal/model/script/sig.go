package script

import (
	"bytes"
	"math/big"
	"sync"

	"verif/internal/model/secp"
)

// IsValidSignatureEncoding is the BIP66 predicate (strict DER plus one
// hash-type byte), written from the BIP text.
func IsValidSignatureEncoding(sig []byte) bool {
	// Format: 0x30 [total-length] 0x02 [R-length] [R] 0x02 [S-length] [S] [sighash]
	if len(sig) < 9 || len(sig) > 73 {
		return false
	}
	if sig[0] != 0x30 {
		return false
	}
	if int(sig[1]) != len(sig)-3 {
		return false
	}
	lenR := int(sig[3])
	if 5+lenR >= len(sig) {
		return false
	}
	lenS := int(sig[5+lenR])
	if lenR+lenS+7 != len(sig) {
		return false
	}
	if sig[2] != 0x02 {
		return false
	}
	if lenR == 0 {
		return false
	}
	if sig[4]&0x80 != 0 {
		return false
	}
	if lenR > 1 && sig[4] == 0 && sig[5]&0x80 == 0 {
		return false
	}
	if sig[lenR+4] != 0x02 {
		return false
	}
	if lenS == 0 {
		return false
	}
	if sig[lenR+6]&0x80 != 0 {
		return false
	}
	if lenS > 1 && sig[lenR+6] == 0 && sig[lenR+7]&0x80 == 0 {
		return false
	}
	return true
}

// ParseDERLax is Core's ecdsa_signature_parse_der_lax: ok=false when the
// structure cannot be walked; otherwise r and s (both zero when either value
// does not fit the group order, as libsecp256k1's parse_compact overflow
// handling does).
func ParseDERLax(in []byte) (r, s *big.Int, ok bool) {
	pos := 0
	n := len(in)
	if pos == n || in[pos] != 0x30 {
		return nil, nil, false
	}
	pos++
	if pos == n {
		return nil, nil, false
	}
	lenbyte := int(in[pos])
	pos++
	if lenbyte&0x80 != 0 {
		lenbyte -= 0x80
		if lenbyte > n-pos {
			return nil, nil, false
		}
		pos += lenbyte
	}
	readInt := func() (start, length int, ok bool) {
		if pos == n || in[pos] != 0x02 {
			return 0, 0, false
		}
		pos++
		if pos == n {
			return 0, 0, false
		}
		lb := int(in[pos])
		pos++
		var l int
		if lb&0x80 != 0 {
			lb -= 0x80
			if lb > n-pos {
				return 0, 0, false
			}
			for lb > 0 && in[pos] == 0 {
				pos++
				lb--
			}
			if lb >= 4 {
				return 0, 0, false
			}
			for lb > 0 {
				l = l<<8 + int(in[pos])
				pos++
				lb--
			}
		} else {
			l = lb
		}
		if l > n-pos {
			return 0, 0, false
		}
		start = pos
		pos += l
		return start, l, true
	}
	rpos, rlen, ok1 := readInt()
	if !ok1 {
		return nil, nil, false
	}
	spos, slen, ok2 := readInt()
	if !ok2 {
		return nil, nil, false
	}
	overflow := false
	for rlen > 0 && in[rpos] == 0 {
		rlen--
		rpos++
	}
	if rlen > 32 {
		overflow = true
	}
	for slen > 0 && in[spos] == 0 {
		slen--
		spos++
	}
	if slen > 32 {
		overflow = true
	}
	r, s = new(big.Int), new(big.Int)
	if !overflow {
		r.SetBytes(in[rpos : rpos+rlen])
		s.SetBytes(in[spos : spos+slen])
		if r.Cmp(secp.N) >= 0 || s.Cmp(secp.N) >= 0 {
			overflow = true
		}
	}
	if overflow {
		r.SetInt64(0)
		s.SetInt64(0)
	}
	return r, s, true
}

func isLowDERSignature(sig []byte) Err {
	if !IsValidSignatureEncoding(sig) {
		return ErrSigDER
	}
	// CPubKey::CheckLowS on the signature without its hash type byte: lax
	// parse, then "not high" — an overflowing r or s was zeroed and is low.
	_, s, ok := ParseDERLax(sig[:len(sig)-1])
	if !ok {
		return ErrSigHighS
	}
	if s.Cmp(secp.HalfN) > 0 {
		return ErrSigHighS
	}
	return OK
}

func isDefinedHashtypeSignature(sig []byte) bool {
	if len(sig) == 0 {
		return false
	}
	ht := sig[len(sig)-1] &^ SigHashAnyoneCanPay
	return ht >= SigHashAll && ht <= SigHashSingle
}

func checkSignatureEncoding(sig []byte, flags Flags) Err {
	if len(sig) == 0 {
		return OK
	}
	if flags&(DERSig|LowS|StrictEnc) != 0 && !IsValidSignatureEncoding(sig) {
		return ErrSigDER
	} else if flags&LowS != 0 {
		if e := isLowDERSignature(sig); e != OK {
			return e
		}
	}
	if flags&StrictEnc != 0 && !isDefinedHashtypeSignature(sig) {
		return ErrSigHashType
	}
	return OK
}

func isCompressedOrUncompressedPubKey(pk []byte) bool {
	if len(pk) < 33 {
		return false
	}
	switch pk[0] {
	case 0x04:
		return len(pk) == 65
	case 0x02, 0x03:
		return len(pk) == 33
	}
	return false
}

func isCompressedPubKey(pk []byte) bool {
	return len(pk) == 33 && (pk[0] == 2 || pk[0] == 3)
}

func checkPubKeyEncoding(pk []byte, flags Flags, sv sigVersion) Err {
	if flags&StrictEnc != 0 && !isCompressedOrUncompressedPubKey(pk) {
		return ErrPubkeyType
	}
	if flags&WitnessPubKeyType != 0 && sv == sigWitnessV0 && !isCompressedPubKey(pk) {
		return ErrWitnessPubkeyType
	}
	return OK
}

// ---------------------------------------------------------------------------
// verification caches (pure memoisation of deterministic functions)

type pkEntry struct {
	pt secp.Point
	ok bool
}

var (
	cacheMu    sync.Mutex
	pkCache    = map[string]pkEntry{}
	ecdsaCache = map[string]bool{}
	schnCache  = map[string]bool{}
)

const cacheCap = 200000

func parsePubKeyCached(pk []byte) (secp.Point, bool) {
	cacheMu.Lock()
	e, hit := pkCache[string(pk)]
	cacheMu.Unlock()
	if hit {
		return e.pt, e.ok
	}
	pt, _, ok := secp.ParsePubKey(pk)
	cacheMu.Lock()
	if len(pkCache) > cacheCap {
		pkCache = map[string]pkEntry{}
	}
	pkCache[string(pk)] = pkEntry{pt, ok}
	cacheMu.Unlock()
	return pt, ok
}

// VerifyECDSA is CPubKey::Verify: header/length-consistent key, on-curve
// point (hybrid keys allowed with matching parity), lax DER, S normalised.
func VerifyECDSA(pk, hash, derSig []byte) bool { return verifyECDSAQ(pk, hash, derSig, false) }

// btcecBERAccepts emulates the structural checks of btcec's non-DER
// signature parser (only used to recognise the known finding QuirkStrictBER).
func btcecBERAccepts(sig []byte) bool {
	if len(sig) < 8 || sig[0] != 0x30 {
		return false
	}
	end := int(uint8(sig[1] + 2)) // byte arithmetic, as in the emulated code
	if end > len(sig) || end < 8 {
		return false
	}
	sig = sig[:end]
	if sig[2] != 0x02 {
		return false
	}
	rLen := int(sig[3])
	idx := 4
	if rLen <= 0 || rLen > len(sig)-idx-3 {
		return false
	}
	idx += rLen
	if sig[idx] != 0x02 {
		return false
	}
	idx++
	sLen := int(sig[idx])
	idx++
	if sLen <= 0 || sLen > len(sig)-idx {
		return false
	}
	idx += sLen
	return idx == len(sig)
}

// btcecSigParses emulates whether btcd's signature parser yields a usable
// signature (only used by quirk emulation).
func btcecSigParses(sigWithType []byte, flags Flags) bool {
	if len(sigWithType) == 0 {
		return false
	}
	sig := sigWithType[:len(sigWithType)-1]
	if flags&(StrictEnc|DERSig) == 0 && !btcecBERAccepts(sig) {
		return false
	}
	r, s, ok := ParseDERLax(sig)
	return ok && r.Sign() > 0 && s.Sign() > 0
}

func verifyECDSAQ(pk, hash, derSig []byte, strictBER bool) bool {
	if strictBER && !btcecBERAccepts(derSig) {
		return false
	}
	key := string([]byte{byte(len(pk)), byte(len(pk) >> 8)}) + string(pk) + string(hash) + string(derSig)
	cacheMu.Lock()
	v, hit := ecdsaCache[key]
	cacheMu.Unlock()
	if hit {
		return v
	}
	res := func() bool {
		pt, ok := parsePubKeyCached(pk)
		if !ok {
			return false
		}
		r, s, ok := ParseDERLax(derSig)
		if !ok {
			return false
		}
		if s.Cmp(secp.HalfN) > 0 {
			s = new(big.Int).Sub(secp.N, s)
		}
		return fastVerifyECDSA(pt, hash, r, s)
	}()
	cacheMu.Lock()
	if len(ecdsaCache) > cacheCap {
		ecdsaCache = map[string]bool{}
	}
	ecdsaCache[key] = res
	cacheMu.Unlock()
	return res
}

// VerifySchnorr is XOnlyPubKey::VerifySchnorr with memoisation.
func VerifySchnorr(pk32, msg, sig64 []byte) bool {
	key := string([]byte{byte(len(pk32)), byte(len(msg))}) + string(pk32) + string(msg) + string(sig64)
	cacheMu.Lock()
	v, hit := schnCache[key]
	cacheMu.Unlock()
	if hit {
		return v
	}
	res := fastVerifySchnorr(pk32, msg, sig64)
	cacheMu.Lock()
	if len(schnCache) > cacheCap {
		schnCache = map[string]bool{}
	}
	schnCache[key] = res
	cacheMu.Unlock()
	return res
}

func pubKeyLenOK(pk []byte) bool {
	if len(pk) == 0 {
		return false
	}
	switch pk[0] {
	case 2, 3:
		return len(pk) == 33
	case 4, 6, 7:
		return len(pk) == 65
	}
	return false
}

// checkECDSA is GenericTransactionSignatureChecker::CheckECDSASignature.
func (c *checker) checkECDSA(sigIn, pk, scriptCode []byte, sv sigVersion) bool {
	if !pubKeyLenOK(pk) {
		return false
	}
	if len(sigIn) == 0 {
		return false
	}
	hashType := uint32(sigIn[len(sigIn)-1])
	sig := sigIn[:len(sigIn)-1]
	var h []byte
	if sv == sigWitnessV0 {
		h = WitnessV0SigHash(c.tx, c.idx, scriptCode, hashType, c.amount)
	} else {
		h = LegacySigHash(c.tx, c.idx, scriptCode, hashType)
	}
	return verifyECDSAQ(pk, h, sig, c.quirks&QuirkStrictBER != 0)
}

// checkSchnorr is CheckSchnorrSignature.
func (c *checker) checkSchnorr(sig, pk []byte, sv sigVersion, tctx *TapCtx) Err {
	if len(sig) != 64 && len(sig) != 65 {
		return ErrSchnorrSigSize
	}
	hashType := byte(SigHashDefault)
	if len(sig) == 65 {
		hashType = sig[64]
		sig = sig[:64]
		if hashType == SigHashDefault {
			return ErrSchnorrSigHashType
		}
	}
	h, ok := TaprootSigHash(c.tx, c.idx, c.prevouts, hashType, sv == sigTapscript, tctx)
	if !ok {
		return ErrSchnorrSigHashType
	}
	if !VerifySchnorr(pk, h, sig) {
		return ErrSchnorrSig
	}
	return OK
}

func (c *checker) checkLockTime(n int64) bool {
	txLock := int64(c.tx.LockTime)
	if !((txLock < LockTimeThreshold && n < LockTimeThreshold) ||
		(txLock >= LockTimeThreshold && n >= LockTimeThreshold)) {
		return false
	}
	if n > txLock {
		return false
	}
	if c.tx.In[c.idx].Sequence == SequenceFinal {
		return false
	}
	return true
}

func (c *checker) checkSequence(n int64) bool {
	txSeq := int64(c.tx.In[c.idx].Sequence)
	if c.tx.Version < 2 {
		return false
	}
	if txSeq&SequenceDisableFlag != 0 {
		return false
	}
	const mask = SequenceTypeFlag | SequenceMask
	txMasked := txSeq & mask
	nMasked := n & mask
	if !((txMasked < SequenceTypeFlag && nMasked < SequenceTypeFlag) ||
		(txMasked >= SequenceTypeFlag && nMasked >= SequenceTypeFlag)) {
		return false
	}
	return nMasked <= txMasked
}

// VerifyTaprootCommitment checks that program is the x coordinate of
// P + H_TapTweak(P || root)*G with the parity given by control[0]&1, where
// root is the merkle root from the leaf hash along the control block path.
func VerifyTaprootCommitment(control, program, leafHash []byte) bool {
	p := control[1:33]
	k := leafHash
	for i := 33; i+32 <= len(control); i += 32 {
		k = TapBranchHash(k, control[i:i+32])
	}
	P, ok := secp.LiftX(new(big.Int).SetBytes(p))
	if !ok {
		return false
	}
	t := new(big.Int).SetBytes(secp.TaggedHash("TapTweak", p, k))
	if t.Cmp(secp.N) >= 0 {
		return false
	}
	Q := fastAdd(P, FastBaseMul(t))
	if Q.Inf {
		return false
	}
	if !bytes.Equal(secp.Bytes32(Q.X), program) {
		return false
	}
	return Q.Y.Bit(0) == uint(control[0]&1)
}
