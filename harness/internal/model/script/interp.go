package script

import (
	"bytes"
	"crypto/sha1"
	"crypto/sha256"

	"golang.org/x/crypto/ripemd160"
)

type sigVersion int

const (
	sigBase sigVersion = iota
	sigWitnessV0
	sigTaproot
	sigTapscript
)

// checker is the model's GenericTransactionSignatureChecker.
type checker struct {
	tx       *Tx
	idx      int
	amount   int64
	prevouts []TxOut
	quirks   Quirks
}

// machine carries the bookkeeping the Result reports.
type machine struct {
	flags  Flags
	quirks Quirks
	chk    *checker
	res    *Result
}

// Quirks switch on documented deviations of btcd from Bitcoin Core. They are
// never part of the oracle: the check uses them only to recognise a
// disagreement as one specific, listed known finding (the verdict flips back
// to agreement when exactly that deviation is emulated).
type Quirks uint32

const (
	// QuirkEmptySigKeepsOp0: FindAndDelete is skipped for an empty signature
	// (Core deletes OP_0, the push of the empty vector, from the script code
	// and CONST_SCRIPTCODE then fails the script).
	QuirkEmptySigKeepsOp0 Quirks = 1 << iota
	// QuirkStrictBER: without DERSIG/LOW_S/STRICTENC the signature is parsed
	// by btcec's "BER" parser instead of Core's ecdsa_signature_parse_der_lax:
	// short-form lengths only, the sequence length must fit and S must end
	// exactly at the end of the sequence.
	QuirkStrictBER
	// QuirkMultisigSkipsPubkeyCheck: in CHECKMULTISIG the public key
	// encoding check (STRICTENC / WITNESS_PUBKEYTYPE) is skipped for a key
	// that is paired with an empty or unparseable signature (Core checks the
	// encoding of every key it pairs with a signature).
	QuirkMultisigSkipsPubkeyCheck
	// QuirkTapscriptEmptySigSkipsPubkeyType: tapscript CHECKSIG(VERIFY) /
	// CHECKSIGADD return early for an empty signature, before the
	// DISCOURAGE_UPGRADABLE_PUBKEYTYPE test of an unknown public key type
	// (Core applies that test whatever the signature is).
	QuirkTapscriptEmptySigSkipsPubkeyType
	// QuirkParseFailurePushesFalse: legacy / witness v0 CHECKSIG whose
	// signature passes the encoding checks but cannot be parsed into a usable
	// (r, s) pair (r or s zero or >= group order), or whose public key cannot
	// be parsed (not on the curve), pushes false immediately: neither
	// NULLFAIL nor the CONST_SCRIPTCODE match test is applied (Core applies
	// both to every failed, non-empty signature).
	QuirkParseFailurePushesFalse
)

func hash160(b []byte) []byte {
	h := sha256.Sum256(b)
	r := ripemd160.New()
	r.Write(h[:])
	return r.Sum(nil)
}

var (
	vchTrue  = []byte{1}
	vchFalse = []byte{}
)

func boolVch(b bool) []byte {
	if b {
		return vchTrue
	}
	return vchFalse
}

// evalScript is EvalScript. The stack is modified in place; the returned
// stack is the final one.
func (m *machine) evalScript(stack [][]byte, script []byte, sv sigVersion, tctx *TapCtx, layer string) ([][]byte, Err) {
	flags := m.flags
	m.res.Layers = append(m.res.Layers, layer)
	m.res.LastLayerOps = 0

	if (sv == sigBase || sv == sigWitnessV0) && len(script) > MaxScriptSize {
		return stack, ErrScriptSize
	}
	var (
		altstack       [][]byte
		vfExec         []bool
		nOpCount       = 0
		requireMinimal = flags&MinimalData != 0
		pc             = 0
		beginCodeHash  = 0
		opcodePos      = uint32(0)
	)
	if tctx != nil {
		tctx.CodeSepPos = 0xffffffff
	}
	allTrue := func() bool {
		for _, b := range vfExec {
			if !b {
				return false
			}
		}
		return true
	}
	top := func(i int) []byte { return stack[len(stack)+i] } // i negative
	pop := func() { stack = stack[:len(stack)-1] }
	push := func(v []byte) {
		if len(v) > m.res.MaxElem {
			m.res.MaxElem = len(v)
		}
		stack = append(stack, v)
	}
	num := func(v []byte, maxLen int) (int64, Err) {
		n, err := DecodeNum(v, requireMinimal, maxLen)
		if err != nil {
			return 0, ErrScriptNum
		}
		return n, OK
	}

	for ; pc < len(script); opcodePos++ {
		fExec := allTrue()
		op, data, next, ok := GetOp(script, pc)
		if !ok {
			return stack, ErrBadOpcode
		}
		pc = next
		if len(data) > MaxScriptElementSize {
			return stack, ErrPushSize
		}
		if sv == sigBase || sv == sigWitnessV0 {
			if op > OP_16 {
				nOpCount++
				if nOpCount > MaxOpsPerScript {
					return stack, ErrOpCount
				}
			}
		}
		if isDisabled(op) {
			return stack, ErrDisabledOpcode
		}
		if op == OP_CODESEPARATOR && sv == sigBase && flags&ConstScriptCode != 0 {
			return stack, ErrOpCodeSeparator
		}
		m.res.LastLayerOps++

		if fExec && op <= OP_PUSHDATA4 {
			if requireMinimal && !CheckMinimalPush(data, op) {
				return stack, ErrMinimalData
			}
			push(append([]byte{}, data...))
		} else if fExec || (op >= OP_IF && op <= OP_ENDIF) {
			switch {
			case op == OP_1NEGATE || (op >= OP_1 && op <= OP_16):
				push(EncodeNum(int64(op) - int64(OP_1-1)))

			case op == OP_NOP:

			case op == OP_CHECKLOCKTIMEVERIFY:
				if flags&CheckLockTimeVerify == 0 {
					// not enabled: NOP2
					break
				}
				if len(stack) < 1 {
					return stack, ErrInvalidStackOperation
				}
				n, e := num(top(-1), 5)
				if e != OK {
					return stack, e
				}
				if n < 0 {
					return stack, ErrNegativeLockTime
				}
				if !m.chk.checkLockTime(n) {
					return stack, ErrUnsatisfiedLockTime
				}

			case op == OP_CHECKSEQUENCEVERIFY:
				if flags&CheckSequenceVerify == 0 {
					break
				}
				if len(stack) < 1 {
					return stack, ErrInvalidStackOperation
				}
				n, e := num(top(-1), 5)
				if e != OK {
					return stack, e
				}
				if n < 0 {
					return stack, ErrNegativeLockTime
				}
				if n&SequenceDisableFlag != 0 {
					break
				}
				if !m.chk.checkSequence(n) {
					return stack, ErrUnsatisfiedLockTime
				}

			case op == OP_NOP1 || (op >= OP_NOP4 && op <= OP_NOP10):
				if flags&DiscourageUpgradableNops != 0 {
					return stack, ErrDiscourageUpgradableNops
				}

			case op == OP_IF || op == OP_NOTIF:
				fValue := false
				if fExec {
					if len(stack) < 1 {
						return stack, ErrUnbalancedConditional
					}
					vch := top(-1)
					if sv == sigTapscript {
						if len(vch) > 1 || (len(vch) == 1 && vch[0] != 1) {
							return stack, ErrTapscriptMinimalIf
						}
					}
					if sv == sigWitnessV0 && flags&MinimalIf != 0 {
						if len(vch) > 1 {
							return stack, ErrMinimalIf
						}
						if len(vch) == 1 && vch[0] != 1 {
							return stack, ErrMinimalIf
						}
					}
					fValue = CastToBool(vch)
					if op == OP_NOTIF {
						fValue = !fValue
					}
					pop()
				}
				vfExec = append(vfExec, fValue)

			case op == OP_ELSE:
				if len(vfExec) == 0 {
					return stack, ErrUnbalancedConditional
				}
				vfExec[len(vfExec)-1] = !vfExec[len(vfExec)-1]

			case op == OP_ENDIF:
				if len(vfExec) == 0 {
					return stack, ErrUnbalancedConditional
				}
				vfExec = vfExec[:len(vfExec)-1]

			case op == OP_VERIFY:
				if len(stack) < 1 {
					return stack, ErrInvalidStackOperation
				}
				if CastToBool(top(-1)) {
					pop()
				} else {
					return stack, ErrVerify
				}

			case op == OP_RETURN:
				return stack, ErrOpReturn

			case op == OP_TOALTSTACK:
				if len(stack) < 1 {
					return stack, ErrInvalidStackOperation
				}
				altstack = append(altstack, top(-1))
				pop()

			case op == OP_FROMALTSTACK:
				if len(altstack) < 1 {
					return stack, ErrInvalidAltstackOperation
				}
				push(altstack[len(altstack)-1])
				altstack = altstack[:len(altstack)-1]

			case op == OP_2DROP:
				if len(stack) < 2 {
					return stack, ErrInvalidStackOperation
				}
				pop()
				pop()

			case op == OP_2DUP:
				if len(stack) < 2 {
					return stack, ErrInvalidStackOperation
				}
				a, b := top(-2), top(-1)
				push(a)
				push(b)

			case op == OP_3DUP:
				if len(stack) < 3 {
					return stack, ErrInvalidStackOperation
				}
				a, b, c := top(-3), top(-2), top(-1)
				push(a)
				push(b)
				push(c)

			case op == OP_2OVER:
				if len(stack) < 4 {
					return stack, ErrInvalidStackOperation
				}
				a, b := top(-4), top(-3)
				push(a)
				push(b)

			case op == OP_2ROT:
				if len(stack) < 6 {
					return stack, ErrInvalidStackOperation
				}
				a, b := top(-6), top(-5)
				n := len(stack)
				stack = append(stack[:n-6:n-6], stack[n-4:]...)
				push(a)
				push(b)

			case op == OP_2SWAP:
				if len(stack) < 4 {
					return stack, ErrInvalidStackOperation
				}
				n := len(stack)
				stack[n-4], stack[n-2] = stack[n-2], stack[n-4]
				stack[n-3], stack[n-1] = stack[n-1], stack[n-3]

			case op == OP_IFDUP:
				if len(stack) < 1 {
					return stack, ErrInvalidStackOperation
				}
				if CastToBool(top(-1)) {
					push(top(-1))
				}

			case op == OP_DEPTH:
				push(EncodeNum(int64(len(stack))))

			case op == OP_DROP:
				if len(stack) < 1 {
					return stack, ErrInvalidStackOperation
				}
				pop()

			case op == OP_DUP:
				if len(stack) < 1 {
					return stack, ErrInvalidStackOperation
				}
				push(top(-1))

			case op == OP_NIP:
				if len(stack) < 2 {
					return stack, ErrInvalidStackOperation
				}
				n := len(stack)
				stack[n-2] = stack[n-1]
				pop()

			case op == OP_OVER:
				if len(stack) < 2 {
					return stack, ErrInvalidStackOperation
				}
				push(top(-2))

			case op == OP_PICK || op == OP_ROLL:
				if len(stack) < 2 {
					return stack, ErrInvalidStackOperation
				}
				nn, e := num(top(-1), 4)
				if e != OK {
					return stack, e
				}
				n := clampInt(nn)
				pop()
				if n < 0 || n >= len(stack) {
					return stack, ErrInvalidStackOperation
				}
				v := top(-n - 1)
				if op == OP_ROLL {
					i := len(stack) - n - 1
					stack = append(stack[:i:i], stack[i+1:]...)
				}
				push(v)

			case op == OP_ROT:
				if len(stack) < 3 {
					return stack, ErrInvalidStackOperation
				}
				n := len(stack)
				stack[n-3], stack[n-2], stack[n-1] = stack[n-2], stack[n-1], stack[n-3]

			case op == OP_SWAP:
				if len(stack) < 2 {
					return stack, ErrInvalidStackOperation
				}
				n := len(stack)
				stack[n-2], stack[n-1] = stack[n-1], stack[n-2]

			case op == OP_TUCK:
				if len(stack) < 2 {
					return stack, ErrInvalidStackOperation
				}
				n := len(stack)
				a, b := stack[n-2], stack[n-1]
				stack = append(stack[:n-2:n-2], b, a, b)

			case op == OP_SIZE:
				if len(stack) < 1 {
					return stack, ErrInvalidStackOperation
				}
				push(EncodeNum(int64(len(top(-1)))))

			case op == OP_EQUAL || op == OP_EQUALVERIFY:
				if len(stack) < 2 {
					return stack, ErrInvalidStackOperation
				}
				eq := bytes.Equal(top(-2), top(-1))
				pop()
				pop()
				push(boolVch(eq))
				if op == OP_EQUALVERIFY {
					if eq {
						pop()
					} else {
						return stack, ErrEqualVerify
					}
				}

			case op == OP_1ADD || op == OP_1SUB || op == OP_NEGATE || op == OP_ABS || op == OP_NOT || op == OP_0NOTEQUAL:
				if len(stack) < 1 {
					return stack, ErrInvalidStackOperation
				}
				bn, e := num(top(-1), 4)
				if e != OK {
					return stack, e
				}
				switch op {
				case OP_1ADD:
					bn++
				case OP_1SUB:
					bn--
				case OP_NEGATE:
					bn = -bn
				case OP_ABS:
					if bn < 0 {
						bn = -bn
					}
				case OP_NOT:
					if bn == 0 {
						bn = 1
					} else {
						bn = 0
					}
				case OP_0NOTEQUAL:
					if bn != 0 {
						bn = 1
					}
				}
				pop()
				push(EncodeNum(bn))

			case op == OP_ADD || op == OP_SUB || (op >= OP_BOOLAND && op <= OP_MAX):
				if len(stack) < 2 {
					return stack, ErrInvalidStackOperation
				}
				a, e := num(top(-2), 4)
				if e != OK {
					return stack, e
				}
				b, e := num(top(-1), 4)
				if e != OK {
					return stack, e
				}
				var r int64
				b2i := func(x bool) int64 {
					if x {
						return 1
					}
					return 0
				}
				switch op {
				case OP_ADD:
					r = a + b
				case OP_SUB:
					r = a - b
				case OP_BOOLAND:
					r = b2i(a != 0 && b != 0)
				case OP_BOOLOR:
					r = b2i(a != 0 || b != 0)
				case OP_NUMEQUAL, OP_NUMEQUALVERIFY:
					r = b2i(a == b)
				case OP_NUMNOTEQUAL:
					r = b2i(a != b)
				case OP_LESSTHAN:
					r = b2i(a < b)
				case OP_GREATERTHAN:
					r = b2i(a > b)
				case OP_LESSTHANOREQUAL:
					r = b2i(a <= b)
				case OP_GREATERTHANOREQUAL:
					r = b2i(a >= b)
				case OP_MIN:
					r = a
					if b < a {
						r = b
					}
				case OP_MAX:
					r = a
					if b > a {
						r = b
					}
				}
				pop()
				pop()
				push(EncodeNum(r))
				if op == OP_NUMEQUALVERIFY {
					if CastToBool(top(-1)) {
						pop()
					} else {
						return stack, ErrNumEqualVerify
					}
				}

			case op == OP_WITHIN:
				if len(stack) < 3 {
					return stack, ErrInvalidStackOperation
				}
				a, e := num(top(-3), 4)
				if e != OK {
					return stack, e
				}
				b, e := num(top(-2), 4)
				if e != OK {
					return stack, e
				}
				c, e := num(top(-1), 4)
				if e != OK {
					return stack, e
				}
				v := b <= a && a < c
				pop()
				pop()
				pop()
				push(boolVch(v))

			case op >= OP_RIPEMD160 && op <= OP_HASH256:
				if len(stack) < 1 {
					return stack, ErrInvalidStackOperation
				}
				v := top(-1)
				var h []byte
				switch op {
				case OP_RIPEMD160:
					r := ripemd160.New()
					r.Write(v)
					h = r.Sum(nil)
				case OP_SHA1:
					s := sha1.Sum(v)
					h = s[:]
				case OP_SHA256:
					h = sha256s(v)
				case OP_HASH160:
					h = hash160(v)
				case OP_HASH256:
					h = sha256d(v)
				}
				pop()
				push(h)

			case op == OP_CODESEPARATOR:
				beginCodeHash = pc
				if tctx != nil {
					tctx.CodeSepPos = opcodePos
				}

			case op == OP_CHECKSIG || op == OP_CHECKSIGVERIFY:
				if len(stack) < 2 {
					return stack, ErrInvalidStackOperation
				}
				sig, pk := top(-2), top(-1)
				success, e := m.evalChecksig(sig, pk, script[beginCodeHash:], sv, tctx)
				if e != OK {
					return stack, e
				}
				pop()
				pop()
				push(boolVch(success))
				if op == OP_CHECKSIGVERIFY {
					if success {
						pop()
					} else {
						return stack, ErrCheckSigVerify
					}
				}

			case op == OP_CHECKSIGADD:
				if sv == sigBase || sv == sigWitnessV0 {
					return stack, ErrBadOpcode
				}
				if len(stack) < 3 {
					return stack, ErrInvalidStackOperation
				}
				sig, pk := top(-3), top(-1)
				n, e := num(top(-2), 4)
				if e != OK {
					return stack, e
				}
				success, e := m.evalChecksig(sig, pk, script[beginCodeHash:], sv, tctx)
				if e != OK {
					return stack, e
				}
				pop()
				pop()
				pop()
				if success {
					n++
				}
				push(EncodeNum(n))

			case op == OP_CHECKMULTISIG || op == OP_CHECKMULTISIGVERIFY:
				if sv == sigTapscript {
					return stack, ErrTapscriptCheckMultiSig
				}
				i := 1
				if len(stack) < i {
					return stack, ErrInvalidStackOperation
				}
				kc, e := num(top(-i), 4)
				if e != OK {
					return stack, e
				}
				nKeys := clampInt(kc)
				if nKeys < 0 || nKeys > MaxPubKeysPerMulti {
					return stack, ErrPubkeyCount
				}
				nOpCount += nKeys
				if nOpCount > MaxOpsPerScript {
					return stack, ErrOpCount
				}
				i++
				ikey := i
				ikey2 := nKeys + 2
				i += nKeys
				if len(stack) < i {
					return stack, ErrInvalidStackOperation
				}
				sc, e := num(top(-i), 4)
				if e != OK {
					return stack, e
				}
				nSigs := clampInt(sc)
				if nSigs < 0 || nSigs > nKeys {
					return stack, ErrSigCount
				}
				i++
				isig := i
				i += nSigs
				if len(stack) < i {
					return stack, ErrInvalidStackOperation
				}
				scriptCode := script[beginCodeHash:]
				for k := 0; k < nSigs; k++ {
					if sv == sigBase && !(m.quirks&QuirkEmptySigKeepsOp0 != 0 && len(top(-isig-k)) == 0) {
						var found int
						scriptCode, found = FindAndDelete(scriptCode, PushData(top(-isig-k)))
						if found > 0 && flags&ConstScriptCode != 0 {
							return stack, ErrSigFindAndDelete
						}
					}
				}
				success := true
				for success && nSigs > 0 {
					sig, pk := top(-isig), top(-ikey)
					if e := checkSignatureEncoding(sig, flags); e != OK {
						return stack, e
					}
					skipPk := m.quirks&QuirkMultisigSkipsPubkeyCheck != 0 && !btcecSigParses(sig, flags)
					if e := checkPubKeyEncoding(pk, flags, sv); e != OK && !skipPk {
						return stack, e
					}
					if m.chk.checkECDSA(sig, pk, scriptCode, sv) {
						isig++
						nSigs--
					}
					ikey++
					nKeys--
					if nSigs > nKeys {
						success = false
					}
				}
				for ; i > 1; i-- {
					if !success && flags&NullFail != 0 && ikey2 == 0 && len(top(-1)) > 0 {
						return stack, ErrSigNullFail
					}
					if ikey2 > 0 {
						ikey2--
					}
					pop()
				}
				if len(stack) < 1 {
					return stack, ErrInvalidStackOperation
				}
				if flags&NullDummy != 0 && len(top(-1)) > 0 {
					return stack, ErrSigNullDummy
				}
				pop()
				push(boolVch(success))
				if op == OP_CHECKMULTISIGVERIFY {
					if success {
						pop()
					} else {
						return stack, ErrCheckMultiSigVerify
					}
				}

			default:
				return stack, ErrBadOpcode
			}
		}
		if d := len(stack) + len(altstack); d > m.res.MaxStack {
			m.res.MaxStack = d
		}
		if len(stack)+len(altstack) > MaxStackSize {
			return stack, ErrStackSize
		}
	}
	if len(vfExec) != 0 {
		return stack, ErrUnbalancedConditional
	}
	return stack, OK
}

func (m *machine) evalChecksig(sig, pk, scriptCode []byte, sv sigVersion, tctx *TapCtx) (bool, Err) {
	flags := m.flags
	switch sv {
	case sigBase, sigWitnessV0:
		parseFail := false
		if m.quirks&QuirkParseFailurePushesFalse != 0 && len(sig) > 0 {
			_, pkOK := parsePubKeyCached(pk)
			parseFail = !pkOK || !pubKeyLenOK(pk) || !btcecSigParses(sig, flags)
		}
		if sv == sigBase && !(m.quirks&QuirkEmptySigKeepsOp0 != 0 && len(sig) == 0) {
			var found int
			scriptCode, found = FindAndDelete(scriptCode, PushData(sig))
			if found > 0 && flags&ConstScriptCode != 0 && !parseFail {
				return false, ErrSigFindAndDelete
			}
		}
		if e := checkSignatureEncoding(sig, flags); e != OK {
			return false, e
		}
		if e := checkPubKeyEncoding(pk, flags, sv); e != OK {
			return false, e
		}
		ok := m.chk.checkECDSA(sig, pk, scriptCode, sv)
		if !ok && flags&NullFail != 0 && len(sig) > 0 && !parseFail {
			return false, ErrSigNullFail
		}
		return ok, OK
	case sigTapscript:
		success := len(sig) > 0
		if success {
			tctx.WeightLeft -= ValidationWeightPerSig
			if tctx.WeightLeft < 0 {
				return false, ErrTapscriptValidationWeight
			}
		}
		switch {
		case len(pk) == 0:
			return false, ErrTapscriptEmptyPubkey
		case len(pk) == 32:
			if success {
				if e := m.chk.checkSchnorr(sig, pk, sv, tctx); e != OK {
					return false, e
				}
			}
		default:
			if flags&DiscourageUpgradablePubkeyType != 0 &&
				!(m.quirks&QuirkTapscriptEmptySigSkipsPubkeyType != 0 && len(sig) == 0) {
				return false, ErrDiscourageUpgradablePubkeyType
			}
		}
		return success, OK
	}
	panic("evalChecksig: bad sigversion")
}

// executeWitnessScript is ExecuteWitnessScript.
func (m *machine) executeWitnessScript(stackIn [][]byte, script []byte, sv sigVersion, tctx *TapCtx) (Err, Stage) {
	stack := make([][]byte, len(stackIn))
	copy(stack, stackIn)
	if sv == sigTapscript {
		pc := 0
		for pc < len(script) {
			op, _, next, ok := GetOp(script, pc)
			if !ok {
				return ErrBadOpcode, StageWitProgram
			}
			pc = next
			if IsOpSuccess(op) {
				if m.flags&DiscourageOpSuccess != 0 {
					return ErrDiscourageOpSuccess, StageWitProgram
				}
				m.res.Unconstrained = true
				m.res.Layers = append(m.res.Layers, "op_success")
				return OK, StageNone
			}
		}
		if len(stack) > MaxStackSize {
			return ErrStackSize, StageWitProgram
		}
	}
	for _, e := range stack {
		if len(e) > MaxScriptElementSize {
			return ErrPushSize, StageWitProgram
		}
	}
	layer := "witness-v0"
	if sv == sigTapscript {
		layer = "tapscript"
	}
	stack, e := m.evalScript(stack, script, sv, tctx, layer)
	if e != OK {
		return e, StageWitScript
	}
	if len(stack) != 1 {
		return ErrCleanStack, StageWitScript
	}
	if !CastToBool(stack[0]) {
		return ErrEvalFalse, StageWitScript
	}
	return OK, StageNone
}

// SerializedWitnessSize is GetSerializeSize(witness.stack).
func SerializedWitnessSize(w [][]byte) int64 { return serializedWitnessSize(w) }

func serializedWitnessSize(w [][]byte) int64 {
	n := int64(len(compactSize(nil, uint64(len(w)))))
	for _, it := range w {
		n += int64(len(compactSize(nil, uint64(len(it))))) + int64(len(it))
	}
	return n
}

// verifyWitnessProgram is VerifyWitnessProgram.
func (m *machine) verifyWitnessProgram(witness [][]byte, version int, program []byte, isP2SH bool) (Err, Stage) {
	flags := m.flags
	stack := witness
	tctx := &TapCtx{}
	switch {
	case version == 0:
		switch len(program) {
		case witnessV0ScriptHashSize:
			if len(stack) == 0 {
				return ErrWitnessProgramWitnessEmpty, StageWitProgram
			}
			scr := stack[len(stack)-1]
			stack = stack[:len(stack)-1]
			if !bytes.Equal(sha256s(scr), program) {
				return ErrWitnessProgramMismatch, StageWitProgram
			}
			return m.executeWitnessScript(stack, scr, sigWitnessV0, nil)
		case witnessV0KeyHashSize:
			if len(stack) != 2 {
				return ErrWitnessProgramMismatch, StageWitProgram
			}
			scr := []byte{OP_DUP, OP_HASH160}
			scr = append(scr, PushData(program)...)
			scr = append(scr, OP_EQUALVERIFY, OP_CHECKSIG)
			return m.executeWitnessScript(stack, scr, sigWitnessV0, nil)
		default:
			return ErrWitnessProgramWrongLength, StageWitProgram
		}

	case version == 1 && len(program) == witnessV1TaprootSize && !isP2SH:
		if flags&Taproot == 0 {
			m.res.Unconstrained = true
			return OK, StageNone
		}
		if len(stack) == 0 {
			return ErrWitnessProgramWitnessEmpty, StageWitProgram
		}
		if len(stack) >= 2 && len(stack[len(stack)-1]) > 0 && stack[len(stack)-1][0] == AnnexTag {
			annex := stack[len(stack)-1]
			stack = stack[:len(stack)-1]
			tctx.AnnexHash = AnnexHash(annex)
			tctx.AnnexPresent = true
		}
		if len(stack) == 1 {
			m.res.Layers = append(m.res.Layers, "taproot-keypath")
			if e := m.chk.checkSchnorr(stack[0], program, sigTaproot, tctx); e != OK {
				return e, StageWitProgram
			}
			return OK, StageNone
		}
		control := stack[len(stack)-1]
		scr := stack[len(stack)-2]
		stack = stack[:len(stack)-2]
		if len(control) < TaprootControlBaseSize ||
			len(control) > TaprootControlBaseSize+TaprootControlNodeSize*TaprootControlMaxNodes ||
			(len(control)-TaprootControlBaseSize)%TaprootControlNodeSize != 0 {
			return ErrTaprootWrongControlSize, StageWitProgram
		}
		tctx.TapLeafHash = TapLeafHash(control[0]&TaprootLeafMask, scr)
		if !VerifyTaprootCommitment(control, program, tctx.TapLeafHash) {
			return ErrWitnessProgramMismatch, StageWitProgram
		}
		if control[0]&TaprootLeafMask == TaprootLeafTapscript {
			tctx.WeightLeft = serializedWitnessSize(witness) + ValidationWeightOffset
			return m.executeWitnessScript(stack, scr, sigTapscript, tctx)
		}
		if flags&DiscourageUpgradableTaprootVersion != 0 {
			return ErrDiscourageUpgradableTaprootVersion, StageWitProgram
		}
		m.res.Unconstrained = true
		m.res.Layers = append(m.res.Layers, "unknown-leaf-version")
		return OK, StageNone

	case !isP2SH && IsPayToAnchor(version, program):
		m.res.Unconstrained = true
		m.res.Layers = append(m.res.Layers, "anchor")
		return OK, StageNone

	default:
		if flags&DiscourageUpgradableWitnessProgram != 0 {
			return ErrDiscourageUpgradableWitnessProgram, StageWitProgram
		}
		m.res.Unconstrained = true
		m.res.Layers = append(m.res.Layers, "unknown-witness-program")
		return OK, StageNone
	}
}

// Verify is VerifyScript for input idx of tx. prevouts lists the outputs
// spent by every input of tx (prevouts[idx] provides the script and amount;
// the others only matter for taproot signature hashes).
func Verify(tx *Tx, idx int, prevouts []TxOut, flags Flags) Result {
	return VerifyQuirks(tx, idx, prevouts, flags, 0)
}

// VerifyQuirks is Verify with btcd deviations emulated (see Quirks).
func VerifyQuirks(tx *Tx, idx int, prevouts []TxOut, flags Flags, quirks Quirks) Result {
	res := Result{Err: OK, Stage: StageNone}
	if idx < 0 || idx >= len(tx.In) || len(prevouts) != len(tx.In) {
		res.Err, res.Stage = ErrUnknown, StagePre
		return res
	}
	m := &machine{flags: flags, quirks: quirks, res: &res,
		chk: &checker{tx: tx, idx: idx, amount: prevouts[idx].Value, prevouts: prevouts, quirks: quirks}}
	e, st := m.verify(tx.In[idx].ScriptSig, prevouts[idx].PkScript, tx.In[idx].Witness)
	res.Err, res.Stage = e, st
	return res
}

func (m *machine) verify(scriptSig, scriptPubKey []byte, witness [][]byte) (Err, Stage) {
	flags := m.flags
	hadWitness := false
	if flags&SigPushOnly != 0 && !IsPushOnly(scriptSig) {
		return ErrSigPushOnly, StagePre
	}
	var stack, stackCopy [][]byte
	stack, e := m.evalScript(stack, scriptSig, sigBase, nil, "scriptSig")
	if e != OK {
		return e, StageSigScript
	}
	if flags&P2SH != 0 {
		stackCopy = append([][]byte{}, stack...)
	}
	stack, e = m.evalScript(stack, scriptPubKey, sigBase, nil, "scriptPubKey")
	if e != OK {
		return e, StagePkScript
	}
	if len(stack) == 0 || !CastToBool(stack[len(stack)-1]) {
		return ErrEvalFalse, StagePkScript
	}

	if flags&Witness != 0 {
		if v, prog, ok := IsWitnessProgram(scriptPubKey); ok {
			hadWitness = true
			if len(scriptSig) != 0 {
				return ErrWitnessMalleated, StageWitProgram
			}
			if e, st := m.verifyWitnessProgram(witness, v, prog, false); e != OK {
				return e, st
			}
			stack = stack[:1]
		}
	}

	if flags&P2SH != 0 && IsPayToScriptHash(scriptPubKey) {
		if !IsPushOnly(scriptSig) {
			return ErrSigPushOnly, StageRedeem
		}
		stack = stackCopy
		if len(stack) == 0 {
			// unreachable: HASH160 <h> EQUAL on an empty stack fails above
			return ErrUnknown, StageRedeem
		}
		redeem := stack[len(stack)-1]
		stack = stack[:len(stack)-1]
		stack, e = m.evalScript(stack, redeem, sigBase, nil, "redeem")
		if e != OK {
			return e, StageRedeem
		}
		if len(stack) == 0 || !CastToBool(stack[len(stack)-1]) {
			return ErrEvalFalse, StageRedeem
		}
		if flags&Witness != 0 {
			if v, prog, ok := IsWitnessProgram(redeem); ok {
				hadWitness = true
				if !bytes.Equal(scriptSig, PushData(redeem)) {
					return ErrWitnessMalleatedP2SH, StageWitProgram
				}
				if e, st := m.verifyWitnessProgram(witness, v, prog, true); e != OK {
					return e, st
				}
				stack = stack[:1]
			}
		}
	}

	if flags&CleanStack != 0 {
		if len(stack) != 1 {
			return ErrCleanStack, StageFinal
		}
	}
	if flags&Witness != 0 {
		if !hadWitness && len(witness) != 0 {
			return ErrWitnessUnexpected, StageFinal
		}
	}
	return OK, StageNone
}
