package script

import (
	"crypto/sha1"
	"crypto/sha256"
	"math/big"

	"golang.org/x/crypto/ripemd160"

	"verif/internal/model/secp"
)

// This file is the model signer and the script/taproot construction helpers
// that generators use to build spends which the MODEL considers valid.

// Key is a secp256k1 key pair.
type Key struct {
	D   *big.Int
	Pub secp.Point
}

// NewKey derives a key from a seed (any bytes); the scalar is reduced into
// [1, n-1].
func NewKey(seed []byte) *Key {
	h := sha256.Sum256(append([]byte("verif-c06-key"), seed...))
	d := new(big.Int).SetBytes(h[:])
	d.Mod(d, new(big.Int).Sub(secp.N, big.NewInt(1)))
	d.Add(d, big.NewInt(1))
	return &Key{D: d, Pub: FastBaseMul(d)}
}

func (k *Key) Compressed() []byte   { return secp.SerializeCompressed(k.Pub) }
func (k *Key) Uncompressed() []byte { return secp.SerializeUncompressed(k.Pub) }

// Hybrid returns the 65-byte 06/07 encoding.
func (k *Key) Hybrid() []byte {
	b := secp.SerializeUncompressed(k.Pub)
	b[0] = 6 + byte(k.Pub.Y.Bit(0))
	return b
}

// XOnly returns the 32-byte x coordinate.
func (k *Key) XOnly() []byte { return secp.Bytes32(k.Pub.X) }

// EncodeDER returns the strict DER encoding of (r, s).
func EncodeDER(r, s *big.Int) []byte {
	enc := func(v *big.Int) []byte {
		b := v.Bytes()
		if len(b) == 0 {
			b = []byte{0}
		}
		if b[0]&0x80 != 0 {
			b = append([]byte{0}, b...)
		}
		return append([]byte{0x02, byte(len(b))}, b...)
	}
	body := append(enc(r), enc(s)...)
	return append([]byte{0x30, byte(len(body))}, body...)
}

// SignECDSAHash signs a 32-byte digest; the nonce is derived from the key,
// the digest and extra (deterministic). Returns (r, s) with low s.
func (k *Key) SignECDSAHash(hash, extra []byte) (r, s *big.Int) {
	for ctr := byte(0); ; ctr++ {
		h := sha256.New()
		h.Write([]byte("verif-c06-nonce"))
		h.Write(secp.Bytes32(k.D))
		h.Write(hash)
		h.Write(extra)
		h.Write([]byte{ctr})
		n := new(big.Int).SetBytes(h.Sum(nil))
		n.Mod(n, secp.N)
		if n.Sign() == 0 {
			continue
		}
		r, s, ok := fastSignECDSA(k.D, hash, n)
		if ok {
			return r, s
		}
	}
}

// SignLegacy returns DER||hashType for the original signature hash.
func (k *Key) SignLegacy(tx *Tx, idx int, scriptCode []byte, hashType byte) []byte {
	h := LegacySigHash(tx, idx, scriptCode, uint32(hashType))
	r, s := k.SignECDSAHash(h, nil)
	return append(EncodeDER(r, s), hashType)
}

// SignWitnessV0 returns DER||hashType for BIP143.
func (k *Key) SignWitnessV0(tx *Tx, idx int, scriptCode []byte, hashType byte, amount int64) []byte {
	h := WitnessV0SigHash(tx, idx, scriptCode, uint32(hashType), amount)
	r, s := k.SignECDSAHash(h, nil)
	return append(EncodeDER(r, s), hashType)
}

// SignSchnorrHash signs msg with BIP340 under the key's x-only public key.
func (k *Key) SignSchnorrHash(msg []byte) []byte {
	return fastSignSchnorr(k.D, k.Pub, msg)
}

// SignSchnorrHashGrind returns a valid BIP340 signature whose first byte is
// want, found by varying the auxiliary randomness (ok=false if 4096 attempts
// do not suffice).
func (k *Key) SignSchnorrHashGrind(msg []byte, want byte) ([]byte, bool) {
	for i := 0; i < 4096; i++ {
		aux := sha256s([]byte{byte(i), byte(i >> 8), 'a', 'u', 'x'})
		sig := fastSignSchnorrAux(k.D, k.Pub, msg, aux)
		if sig[0] == want {
			return sig, true
		}
	}
	return nil, false
}

// SignTaproot returns the BIP341/342 signature (64 bytes for
// SIGHASH_DEFAULT, else 65). ok=false when the hash type has no digest.
func (k *Key) SignTaproot(tx *Tx, idx int, prevouts []TxOut, hashType byte, tapscript bool, ctx *TapCtx) ([]byte, bool) {
	h, ok := TaprootSigHash(tx, idx, prevouts, hashType, tapscript, ctx)
	if !ok {
		return nil, false
	}
	sig := k.SignSchnorrHash(h)
	if hashType != SigHashDefault {
		sig = append(sig, hashType)
	}
	return sig, true
}

// TapLeaf is one leaf of a taproot script tree.
type TapLeaf struct {
	Version byte
	Script  []byte
}

// TapTree is a finished taproot output.
type TapTree struct {
	Internal  *Key
	OutputKey []byte // 32 bytes
	Parity    byte
	Tweaked   *Key // key-path signing key (nil when internal x-only key is used without secret)
	Root      []byte
	Leaves    []TapLeaf
	Paths     [][]byte // per leaf: concatenated sibling hashes bottom-up
}

// BuildTapTree arranges leaves into a tree whose shape is given by shape
// bits (a left-deep / balanced mixture chosen by the caller): leaves are
// combined pairwise in the order dictated by merge, a list of indices i
// meaning "combine current node i and i+1". With a nil merge list the tree
// is built left to right. An empty leaf list gives a key-only output.
func BuildTapTree(internal *Key, leaves []TapLeaf, merge []int) *TapTree {
	t := &TapTree{Internal: internal, Leaves: leaves}
	type node struct {
		hash   []byte
		leaves []int
	}
	var nodes []node
	t.Paths = make([][]byte, len(leaves))
	for i, l := range leaves {
		nodes = append(nodes, node{TapLeafHash(l.Version, l.Script), []int{i}})
	}
	mi := 0
	for len(nodes) > 1 {
		i := 0
		if mi < len(merge) {
			i = merge[mi] % (len(nodes) - 1)
			if i < 0 {
				i = -i
			}
			mi++
		}
		a, b := nodes[i], nodes[i+1]
		for _, li := range a.leaves {
			t.Paths[li] = append(t.Paths[li], b.hash...)
		}
		for _, li := range b.leaves {
			t.Paths[li] = append(t.Paths[li], a.hash...)
		}
		n := node{TapBranchHash(a.hash, b.hash), append(append([]int{}, a.leaves...), b.leaves...)}
		nodes = append(append(append([]node{}, nodes[:i]...), n), nodes[i+2:]...)
	}
	if len(nodes) == 1 {
		t.Root = nodes[0].hash
	}
	// BIP341: Q = lift_x(P) + int(hashTapTweak(bytes(P) || root))G
	px := internal.XOnly()
	P, _ := secp.LiftX(new(big.Int).SetBytes(px))
	tw := new(big.Int).SetBytes(secp.TaggedHash("TapTweak", px, t.Root))
	tw.Mod(tw, secp.N)
	Q := fastAdd(P, FastBaseMul(tw))
	t.OutputKey = secp.Bytes32(Q.X)
	t.Parity = byte(Q.Y.Bit(0))
	// tweaked secret: d' = (d if P.y even else n-d) + t
	d := new(big.Int).Set(internal.D)
	if internal.Pub.Y.Bit(0) == 1 {
		d.Sub(secp.N, d)
	}
	d.Add(d, tw)
	d.Mod(d, secp.N)
	t.Tweaked = &Key{D: d, Pub: FastBaseMul(d)}
	return t
}

// TapTreePaths returns, for a tree of n leaves combined with the given merge
// list (same convention as BuildTapTree), the number of path nodes per leaf
// as a slice of that length per leaf.
func TapTreePaths(n int, merge []int) [][]struct{} {
	type node struct{ leaves []int }
	var nodes []node
	paths := make([][]struct{}, n)
	for i := 0; i < n; i++ {
		nodes = append(nodes, node{[]int{i}})
	}
	mi := 0
	for len(nodes) > 1 {
		i := 0
		if mi < len(merge) {
			i = merge[mi] % (len(nodes) - 1)
			if i < 0 {
				i = -i
			}
			mi++
		}
		a, b := nodes[i], nodes[i+1]
		for _, li := range append(append([]int{}, a.leaves...), b.leaves...) {
			paths[li] = append(paths[li], struct{}{})
		}
		nn := node{append(append([]int{}, a.leaves...), b.leaves...)}
		nodes = append(append(append([]node{}, nodes[:i]...), nn), nodes[i+2:]...)
	}
	return paths
}

// TweakXOnly computes the taproot output key (x coordinate and parity) for
// an x-only internal key and a merkle root (nil for key-only outputs).
func TweakXOnly(internal, root []byte) (q []byte, parity byte, ok bool) {
	P, ok := secp.LiftX(new(big.Int).SetBytes(internal))
	if !ok {
		return nil, 0, false
	}
	tw := new(big.Int).SetBytes(secp.TaggedHash("TapTweak", internal, root))
	if tw.Cmp(secp.N) >= 0 {
		return nil, 0, false
	}
	Q := fastAdd(P, FastBaseMul(tw))
	if Q.Inf {
		return nil, 0, false
	}
	return secp.Bytes32(Q.X), byte(Q.Y.Bit(0)), true
}

// PkScript returns OP_1 <32-byte output key>.
func (t *TapTree) PkScript() []byte {
	return append([]byte{OP_1, 32}, t.OutputKey...)
}

// ControlBlock returns the control block of leaf i.
func (t *TapTree) ControlBlock(i int) []byte {
	cb := []byte{t.Leaves[i].Version&TaprootLeafMask | t.Parity}
	cb = append(cb, t.Internal.XOnly()...)
	return append(cb, t.Paths[i]...)
}

// Script-building helpers.

// Builder concatenates opcodes and pushes.
type Builder struct{ B []byte }

func (b *Builder) Op(ops ...byte) *Builder { b.B = append(b.B, ops...); return b }

// Push appends the canonical minimal push of data (as MINIMALDATA demands:
// OP_0, OP_1..16, OP_1NEGATE for the small values).
func (b *Builder) Push(data []byte) *Builder {
	switch {
	case len(data) == 0:
		b.B = append(b.B, OP_0)
	case len(data) == 1 && data[0] >= 1 && data[0] <= 16:
		b.B = append(b.B, OP_1-1+data[0])
	case len(data) == 1 && data[0] == 0x81:
		b.B = append(b.B, OP_1NEGATE)
	default:
		b.B = append(b.B, PushData(data)...)
	}
	return b
}

// Num appends the minimal push of a number.
func (b *Builder) Num(n int64) *Builder { return b.Push(EncodeNum(n)) }

// Raw appends bytes verbatim.
func (b *Builder) Raw(raw []byte) *Builder { b.B = append(b.B, raw...); return b }

// P2PKH, P2SH, P2WPKH, P2WSH standard scripts.
func P2PKHScript(pub []byte) []byte {
	b := []byte{OP_DUP, OP_HASH160, 20}
	b = append(b, hash160(pub)...)
	return append(b, OP_EQUALVERIFY, OP_CHECKSIG)
}

func P2SHScript(redeem []byte) []byte {
	b := []byte{OP_HASH160, 20}
	b = append(b, hash160(redeem)...)
	return append(b, OP_EQUAL)
}

func P2WPKHScript(pub []byte) []byte { return append([]byte{OP_0, 20}, hash160(pub)...) }

func P2WSHScript(ws []byte) []byte { return append([]byte{OP_0, 32}, sha256s(ws)...) }

// Hash160 exposes the model's HASH160.
func Hash160(b []byte) []byte { return hash160(b) }

// Ripemd160 and Sha1 expose the remaining script hash functions.
func Ripemd160(b []byte) []byte { h := ripemd160.New(); h.Write(b); return h.Sum(nil) }

func Sha1(b []byte) []byte { h := sha1.Sum(b); return h[:] }

// Sha256 exposes single SHA256.
func Sha256(b []byte) []byte { return sha256s(b) }
