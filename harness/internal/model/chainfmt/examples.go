package chainfmt

import "encoding/hex"

// The literal examples of the format comments in blockchain/compress.go and
// blockchain/chainio.go (copied here so that an edit of /repo cannot move the
// oracle). The model is calibrated on them; the C15 check also offers them to
// btcd's decoders.

// VLQExample is one line of the "Example encodings" table of the VLQ comment.
type VLQExample struct {
	Value uint64
	Bytes []byte
}

var VLQExamples = []VLQExample{
	{0, []byte{0x00}},
	{127, []byte{0x7f}},
	{128, []byte{0x80, 0x00}},
	{129, []byte{0x80, 0x01}},
	{255, []byte{0x80, 0x7f}},
	{256, []byte{0x81, 0x00}},
	{16511, []byte{0xff, 0x7f}},
	{16512, []byte{0x80, 0x80, 0x00}},
	{32895, []byte{0x80, 0xff, 0x7f}},
	{2113663, []byte{0xff, 0xff, 0x7f}},
	{270549119, []byte{0xff, 0xff, 0xff, 0x7f}},
	{1<<64 - 1, []byte{0x80, 0xfe, 0xfe, 0xfe, 0xfe, 0xfe, 0xfe, 0xfe, 0xfe, 0x7f}},
}

// AmountExample is one line of the amount compression table: the amount, the
// number of VLQ bytes of the amount, the compressed amount and its VLQ size.
type AmountExample struct {
	Amount     uint64
	AmountVLQ  int
	Compressed uint64
	CompVLQ    int
}

var AmountExamples = []AmountExample{
	{0, 1, 0, 1},
	{1000, 2, 4, 1},
	{10000, 2, 5, 1},
	{12345678, 4, 111111101, 4},
	// ERRATUM: the table in compress.go prints "50000000 (4) -> 47 (1)". The
	// formula stated a few lines above it gives e=7, d=5, n=0 ->
	// 1+10*(9*0+5-1)+7 = 48, as do Bitcoin Core's CompressAmount and every
	// other line of the table (500000000 -> 49, 100000000 -> 9); 47 is the
	// compressed form of 5000000. The normative text wins; the misprint is
	// kept in AmountErrata and reported as a documentation defect.
	{50000000, 4, 48, 1},
	{100000000, 4, 9, 1},
	{500000000, 5, 49, 1},
	{1000000000, 5, 10, 1},
	// from the prose: "0.1 BTC which is 10000000 satoshi ... 4 bytes while
	// encoding the compressed value of 8 as a VLQ only takes 1 byte"
	{10000000, 4, 8, 1},
}

// AmountErrata lists table lines that contradict the formula of the same
// comment: {amount as printed, compressed as printed, amount the printed
// compressed value really stands for}.
var AmountErrata = []struct{ Amount, PrintedCompressed, ReallyStandsFor uint64 }{
	{50000000, 47, 5000000},
}

// RecordExample is a documented record: the serialized bytes and the fields
// the comment states for it. ScriptType is the documented special script type
// and ScriptData the 20-byte hash or the 32-byte x coordinate.
type RecordExample struct {
	Name       string
	Hex        string
	Height     int32
	Coinbase   bool
	Amount     int64
	ScriptType byte
	ScriptData string
	// FullScript is the script the record stands for. For the pay-to-pubkey
	// examples it needs the y coordinate, which the comment does not print;
	// these are the (public, well known) coinbase keys of mainnet blocks 1
	// and 9, used to calibrate the model's point decompression.
	FullScript string
}

func (e RecordExample) Bytes() []byte { b, _ := hex.DecodeString(e.Hex); return b }

func (e RecordExample) Script() []byte { b, _ := hex.DecodeString(e.FullScript); return b }

// UtxoExamples: chainio.go, utxo set format, examples 1-3.
var UtxoExamples = []RecordExample{
	{
		Name:       "utxo example 1 (blk 1 coinbase)",
		Hex:        "03320496b538e853519c726a2c91e61ec11600ae1390813a627c66fb8be7947be63c52",
		Height:     1, Coinbase: true, Amount: 5000000000,
		ScriptType: 4, ScriptData: "96b538e853519c726a2c91e61ec11600ae1390813a627c66fb8be7947be63c52",
		FullScript: "410496b538e853519c726a2c91e61ec11600ae1390813a627c66fb8be7947be63c52da7589379515d4e0a604f8141781e62294721166bf621e73a82cbf2342c858eeac",
	},
	{
		Name:       "utxo example 2 (blk 113931)",
		Hex:        "8cf316800900b8025be1b3efc63b0ad48e7f9f10e87544528d58",
		Height:     113931, Coinbase: false, Amount: 15000000,
		ScriptType: 0, ScriptData: "b8025be1b3efc63b0ad48e7f9f10e87544528d58",
		FullScript: "76a914b8025be1b3efc63b0ad48e7f9f10e87544528d5888ac",
	},
	{
		Name:       "utxo example 3 (blk 338156)",
		Hex:        "a8a2588ba5b9e763011dd46a006572d820e448e12d2bbb38640bc718e6",
		Height:     338156, Coinbase: false, Amount: 366875659,
		ScriptType: 1, ScriptData: "1dd46a006572d820e448e12d2bbb38640bc718e6",
		FullScript: "a9141dd46a006572d820e448e12d2bbb38640bc718e687",
	},
}

// StxoExample1: chainio.go, spend journal format, example 1 (one item).
var StxoExample1 = RecordExample{
	Name:       "spend journal example 1 (blk 170)",
	Hex:        "1300320511db93e1dcdb8a016b49840f8c53bc1eb68a382e97b1482ecad7b148a6909a5c",
	Height:     9, Coinbase: true, Amount: 5000000000,
	ScriptType: 5, ScriptData: "11db93e1dcdb8a016b49840f8c53bc1eb68a382e97b1482ecad7b148a6909a5c",
	FullScript: "410411db93e1dcdb8a016b49840f8c53bc1eb68a382e97b1482ecad7b148a6909a5cb2e0eaddfb84ccf9744464f82e160bfa9b8b64f9d4c03f999b8643f656b412a3ac",
}

// StxoExample2Hex: spend journal example 2 (two items, last spent first).
const StxoExample2Hex = "8b99700091f20f006edbc6c4d31bae9f1ccc38538a114bf42de65e868b99700086c64700b2fb57eadf61e106a100a7445a8c3f67898841ec"

// StxoExample2 lists the two items in SPENDING order (the comment lists the
// last spent output first).
var StxoExample2 = []RecordExample{
	{
		Name:   "spend journal example 2, second to last spent output",
		Height: 100024, Coinbase: false, Amount: 13761000000,
		ScriptType: 0, ScriptData: "b2fb57eadf61e106a100a7445a8c3f67898841ec",
		FullScript: "76a914b2fb57eadf61e106a100a7445a8c3f67898841ec88ac",
	},
	{
		Name:   "spend journal example 2, last spent output",
		Height: 100024, Coinbase: false, Amount: 34405000000,
		ScriptType: 0, ScriptData: "6edbc6c4d31bae9f1ccc38538a114bf42de65e86",
		FullScript: "76a9146edbc6c4d31bae9f1ccc38538a114bf42de65e8688ac",
	},
}

// DocumentedFieldExamples: VLQ fields the record comments spell out.
var DocumentedFieldExamples = []VLQExample{
	{0x13, []byte{0x13}},                                    // header code: coinbase, height 9
	{100024 << 1, []byte{0x8b, 0x99, 0x70}},                 // header code: not coinbase, height 100024
	{113931 << 1, []byte{0x8c, 0xf3, 0x16}},                 // header code: height 113931
	{338156 << 1, []byte{0xa8, 0xa2, 0x58}},                 // header code: height 338156
	{0x03, []byte{0x03}},                                    // header code: coinbase, height 1
}

// DocumentedAmountFields: "VLQ-encoded compressed amount for ...".
var DocumentedAmountFields = []struct {
	Amount uint64
	Bytes  []byte
}{
	{5000000000, []byte{0x32}},
	{34405000000, []byte{0x91, 0xf2, 0x0f}},
	{13761000000, []byte{0x86, 0xc6, 0x47}},
	{15000000, []byte{0x80, 0x09}},
	{366875659, []byte{0x8b, 0xa5, 0xb9, 0xe7, 0x63}},
}
