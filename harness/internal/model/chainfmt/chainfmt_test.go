package chainfmt

import (
	"bytes"
	"math/big"
	"testing"
)

// The model must reproduce every literal example of the format comments.
func TestSelfCheck(t *testing.T) {
	if err := SelfCheck(); err != nil {
		t.Fatalf("VERIF-INFRA: %v", err)
	}
}

// Internal consistency of the model itself (not a statement about btcd).
func TestModelRoundTrips(t *testing.T) {
	prev := []byte(nil)
	for n := uint64(0); n < 70000; n++ {
		b := PutVLQ(n)
		v, k, err := ReadVLQ(b)
		if err != nil || v != n || k != len(b) {
			t.Fatalf("VLQ %d -> %x -> %d,%d,%v", n, b, v, k, err)
		}
		if prev != nil && !(len(prev) < len(b) || (len(prev) == len(b) && bytes.Compare(prev, b) < 0)) {
			t.Fatalf("VLQ not shortlex increasing at %d", n)
		}
		prev = b
		c, ok := CompressAmount(n)
		a, ok2 := DecompressAmount(c)
		if !ok || !ok2 || a != n {
			t.Fatalf("amount %d -> %d -> %d", n, c, a)
		}
		a2, ok := DecompressAmount(n)
		c2, ok2 := CompressAmount(a2)
		if !ok || !ok2 || c2 != n {
			t.Fatalf("compressed %d -> %d -> %d", n, a2, c2)
		}
	}
	// closed form of B_k == defining recurrence; linear digit packing == Horner
	for k := 1; k < 200; k++ {
		closed := new(big.Int).Lsh(big.NewInt(1), uint(7*k))
		closed.Sub(closed, big.NewInt(128)).Quo(closed, big.NewInt(127))
		if closed.Cmp(vlqBaseSlow(k)) != 0 || vlqBase(k).Cmp(vlqBaseSlow(k)) != 0 {
			t.Fatalf("B_%d: closed form %v, recurrence %v, vlqBase %v", k, closed, vlqBaseSlow(k), vlqBase(k))
		}
		run := make([]byte, k)
		h := new(big.Int)
		for i := range run {
			run[i] = byte(37*i + 11*k)
			h.Mul(h, big.NewInt(128)).Add(h, big.NewInt(int64(run[i]&0x7f)))
		}
		if groups7(run).Cmp(h) != 0 {
			t.Fatalf("groups7(%x) = %v, Horner %v", run, groups7(run), h)
		}
	}
	// unterminated and oversized quantities
	v, n, term := ReadVLQBig([]byte{0xff, 0xff, 0xff, 0xff, 0xff, 0xff, 0xff, 0xff, 0xff, 0x7f})
	if !term || n != 10 || v.Cmp(new(big.Int).Lsh(big.NewInt(1), 64)) < 0 {
		t.Fatalf("ff*9 7f must be a terminated 10-byte quantity above 2^64, got %v %d %v", v, n, term)
	}
	if _, _, err := ReadVLQ([]byte{0xff, 0xff, 0xff, 0xff, 0xff, 0xff, 0xff, 0xff, 0xff, 0x7f}); err != ErrOverflow {
		t.Fatalf("want overflow, got %v", err)
	}
	if _, _, err := ReadVLQ([]byte{0x80, 0x80}); err != ErrTruncated {
		t.Fatalf("want truncated, got %v", err)
	}
	// lenient value of an unterminated prefix: 0x85 -> 6, 0x80 -> 1, 0x80 0x80 -> 129+... per the
	// definition "next group would be appended": value(b||0x00) = 128*lenient(b)
	for _, b := range [][]byte{{0x85}, {0x80}, {0x80, 0x80}, {0xff, 0x81, 0x90}} {
		l, _, _ := ReadVLQBig(b)
		full, _, _ := ReadVLQBig(append(append([]byte{}, b...), 0x00))
		if new(big.Int).Mul(l, big.NewInt(128)).Cmp(full) != 0 {
			t.Fatalf("lenient(%x) = %v but value(%x00) = %v", b, l, b, full)
		}
	}
}
