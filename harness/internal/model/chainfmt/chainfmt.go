// Package chainfmt is an independent encoder/decoder of btcd's persisted
// chain-state records, written ONLY from the format comment blocks of
// blockchain/compress.go and blockchain/chainio.go (and, for the one point the
// comments delegate to it, Bitcoin Core's compressor.cpp semantics):
//
//   - variable length quantity (MSB base-128 with the "offset" that removes
//     redundant encodings),
//   - amount compression (decimal exponent / last digit split),
//   - script compression (six special forms + general form),
//   - compressed txout, utxo entry, spend journal entry,
//   - best chain state, block index row, utxo outpoint key.
//
// It shares no code with btcd. Arithmetic that can leave 64 bits is done in
// math/big so that the model can say "this value is not representable in the
// documented format" instead of silently wrapping. secp256k1 point validity
// comes from the sibling reference model verif/internal/model/secp.
//
// Reading of the comments that the model commits to (each is calibrated on the
// literal examples of the comments in chainfmt_test.go and again by the C15
// check, where a disagreement is a VERIF-INFRA failure, not a violation):
//
//	VLQ      k-byte encodings cover exactly the integers [B_k, B_k+128^k) with
//	         B_1 = 0, B_(k+1) = B_k + 128^k ("0-127 one byte, 128-16511 two
//	         bytes, 16512-2113663 three bytes"); the k digits of n-B_k are
//	         written most significant first, high bit set on all but the last.
//	amount   0 -> 0; e = largest power of ten dividing x, capped at 9; for
//	         e < 9: d = last non-zero digit, n = x/10^(e+1), c = 1+10*(9n+d-1)+e;
//	         for e = 9: n = x/10^9, c = 1+10*(n-1)+9.
//	script   P2PKH -> 0x00||hash20; P2SH -> 0x01||hash20; pay-to-pubkey with a
//	         VALID key -> (0x02|0x03)||x for compressed keys, (0x04|parity(y))||x
//	         for uncompressed keys starting with 0x04; hybrid keys and keys not
//	         on the curve are NOT special ("Only valid public keys starting with
//	         0x02, 0x03, and 0x04 are supported"); everything else ->
//	         VLQ(len+6)||script.
//	utxo     VLQ(height<<1 | coinbase) || txout
//	stxo     VLQ(height<<1 | coinbase) || [0x00 reserved, present iff height is
//	         non-zero] || txout; a journal entry is the stxos in REVERSE order.
//	best     hash32 || height u32le || totalTxns u64le || len u32le || work sum
//	         (big-endian magnitude as produced by big.Int.Bytes).
//	row      80-byte Bitcoin block header || status byte.
package chainfmt

import (
	"encoding/binary"
	"errors"
	"math/big"

	"verif/internal/model/secp"
)

// NumSpecialScripts is "the number of special cases" added to the script size
// in the general form.
const NumSpecialScripts = 6

var (
	ErrTruncated   = errors.New("chainfmt: unexpected end of data")
	ErrOverflow    = errors.New("chainfmt: quantity does not fit in 64 bits")
	ErrRange       = errors.New("chainfmt: field outside its documented range")
	ErrBadPoint    = errors.New("chainfmt: x coordinate is not on the curve")
	ErrTrailing    = errors.New("chainfmt: trailing bytes")
	ErrUnrepresent = errors.New("chainfmt: value not representable in the format")

	big128  = big.NewInt(128)
	two64   = new(big.Int).Lsh(big.NewInt(1), 64)
	maxU64  = new(big.Int).Sub(two64, big.NewInt(1))
	bigTen  = big.NewInt(10)
	bigNine = big.NewInt(9)
)

// ---------------------------------------------------------------------------
// VLQ

// vlqBase returns B_k, the smallest integer with a k-byte encoding:
// B_1 = 0, B_(k+1) = B_k + 128^k.
func vlqBase(k int) *big.Int {
	if k < len(vlqBases) {
		return vlqBases[k]
	}
	// geometric sum 128 + 128^2 + ... + 128^(k-1) = (128^k - 128) / 127
	// (closed form only for long hostile runs; the table below, which every
	// real quantity uses, is built by the defining recurrence and the two are
	// compared in the package test)
	b := new(big.Int).Lsh(big.NewInt(1), uint(7*k))
	b.Sub(b, big128)
	return b.Quo(b, big.NewInt(127))
}

func vlqBaseSlow(k int) *big.Int {
	b := new(big.Int)
	p := big.NewInt(1)
	for i := 1; i < k; i++ {
		p = new(big.Int).Mul(p, big128)
		b.Add(b, p)
	}
	return b
}

var vlqBases = func() []*big.Int {
	t := make([]*big.Int, 24)
	for k := range t {
		t[k] = vlqBaseSlow(k)
	}
	return t
}()

// groups7 returns the integer whose base-128 digits (most significant first)
// are the low 7 bits of the given bytes; linear in len(b).
func groups7(b []byte) *big.Int {
	k := len(b)
	out := make([]byte, (7*k+7)/8) // big-endian
	for i := 0; i < k; i++ {
		g := uint(b[k-1-i] & 0x7f)
		bit := 7 * i // position of the group's least significant bit
		byteFromEnd := bit / 8
		sh := uint(bit % 8)
		v := g << sh // up to 15 bits
		out[len(out)-1-byteFromEnd] |= byte(v)
		if v>>8 != 0 {
			out[len(out)-2-byteFromEnd] |= byte(v >> 8)
		}
	}
	return new(big.Int).SetBytes(out)
}

// VLQSize is the number of bytes of the encoding of n.
func VLQSize(n uint64) int {
	v := new(big.Int).SetUint64(n)
	k := 1
	for {
		next := vlqBase(k + 1)
		if v.Cmp(next) < 0 {
			return k
		}
		k++
	}
}

// PutVLQ returns the unique encoding of n.
func PutVLQ(n uint64) []byte {
	k := VLQSize(n)
	m := new(big.Int).Sub(new(big.Int).SetUint64(n), vlqBase(k))
	out := make([]byte, k)
	q := new(big.Int)
	r := new(big.Int)
	for i := k - 1; i >= 0; i-- {
		q.QuoRem(m, big128, r)
		out[i] = byte(r.Uint64())
		if i != k-1 {
			out[i] |= 0x80
		}
		m.Set(q)
	}
	return out
}

// ReadVLQBig reads one quantity from the front of b without any size limit.
// terminated is false when the data ends before a byte with a clear high bit;
// in that case the value returned is the one a decoder that simply stops at the
// end of the data arrives at (every byte so far was a continuation byte, so the
// quantity so far is B_k + m + 1: the next digit group would be appended to it).
func ReadVLQBig(b []byte) (val *big.Int, n int, terminated bool) {
	for i, c := range b {
		if c&0x80 == 0 {
			m := groups7(b[:i+1])
			return m.Add(m, vlqBase(i+1)), i + 1, true // m is fresh; the table entry is only read
		}
	}
	if len(b) == 0 {
		return new(big.Int), 0, false
	}
	m := groups7(b)
	m.Add(m, vlqBase(len(b)))
	m.Add(m, big.NewInt(1))
	return m, len(b), false
}

// ReadVLQ is the strict reader: terminated and representable in 64 bits.
func ReadVLQ(b []byte) (uint64, int, error) {
	v, n, term := ReadVLQBig(b)
	if !term {
		return 0, n, ErrTruncated
	}
	if v.Cmp(maxU64) > 0 {
		return 0, n, ErrOverflow
	}
	return v.Uint64(), n, nil
}

// Wrap64 reduces a quantity modulo 2^64 (what 64-bit decoder arithmetic yields
// for an oversized quantity).
func Wrap64(v *big.Int) uint64 {
	return new(big.Int).And(v, maxU64).Uint64()
}

// ---------------------------------------------------------------------------
// amounts

// CompressAmountBig evaluates the documented formula without any width limit.
func CompressAmountBig(x uint64) *big.Int {
	if x == 0 {
		return new(big.Int)
	}
	v := new(big.Int).SetUint64(x)
	e := int64(0)
	q, r := new(big.Int), new(big.Int)
	for e < 9 {
		q.QuoRem(v, bigTen, r)
		if r.Sign() != 0 {
			break
		}
		v.Set(q)
		e++
	}
	if e < 9 {
		// v does not end in 0: d = last digit, n = the rest.
		n, d := new(big.Int).QuoRem(v, bigTen, new(big.Int))
		// 1 + 10*(9*n + d - 1) + e
		c := new(big.Int).Mul(n, bigNine)
		c.Add(c, d)
		c.Sub(c, big.NewInt(1))
		c.Mul(c, bigTen)
		c.Add(c, big.NewInt(1+e))
		return c
	}
	// 1 + 10*(n-1) + 9
	c := new(big.Int).Sub(v, big.NewInt(1))
	c.Mul(c, bigTen)
	c.Add(c, big.NewInt(10))
	return c
}

// CompressAmount returns the compressed amount; ok is false when the
// documented formula leaves 64 bits (such an amount has no encoding).
func CompressAmount(x uint64) (uint64, bool) {
	c := CompressAmountBig(x)
	if c.Cmp(maxU64) > 0 {
		return 0, false
	}
	return c.Uint64(), true
}

// DecompressAmountBig inverts the formula without any width limit.
func DecompressAmountBig(c uint64) *big.Int {
	if c == 0 {
		return new(big.Int)
	}
	v := new(big.Int).SetUint64(c)
	v.Sub(v, big.NewInt(1))
	rem := new(big.Int)
	v.QuoRem(v, bigTen, rem)
	e := rem.Int64()
	var n *big.Int
	if e < 9 {
		// v = 9*n + d - 1
		dm1 := new(big.Int)
		q, _ := new(big.Int).QuoRem(v, bigNine, dm1)
		n = q.Mul(q, bigTen)
		n.Add(n, dm1)
		n.Add(n, big.NewInt(1))
	} else {
		n = v.Add(v, big.NewInt(1))
	}
	return n.Mul(n, new(big.Int).Exp(bigTen, big.NewInt(e), nil))
}

// DecompressAmount returns the amount a compressed value stands for; ok is
// false when that amount does not fit in 64 bits.
func DecompressAmount(c uint64) (uint64, bool) {
	v := DecompressAmountBig(c)
	if v.Cmp(maxU64) > 0 {
		return 0, false
	}
	return v.Uint64(), true
}

// ---------------------------------------------------------------------------
// scripts

// Script kinds. The numeric value of the six special kinds is the type byte.
const (
	KindP2PKH     = 0
	KindP2SH      = 1
	KindPKComp2   = 2
	KindPKComp3   = 3
	KindPKUncomp4 = 4
	KindPKUncomp5 = 5
	KindGeneral   = -1
)

const (
	opDup         = 0x76
	opHash160     = 0xa9
	opData20      = 0x14
	opData33      = 0x21
	opData65      = 0x41
	opEqual       = 0x87
	opEqualVerify = 0x88
	opCheckSig    = 0xac
)

// ScriptKind classifies a script for compression.
func ScriptKind(s []byte) int {
	switch {
	case len(s) == 25 && s[0] == opDup && s[1] == opHash160 && s[2] == opData20 &&
		s[23] == opEqualVerify && s[24] == opCheckSig:
		return KindP2PKH
	case len(s) == 23 && s[0] == opHash160 && s[1] == opData20 && s[22] == opEqual:
		return KindP2SH
	case len(s) == 35 && s[0] == opData33 && s[34] == opCheckSig && (s[1] == 2 || s[1] == 3):
		if _, _, ok := secp.ParsePubKey(s[1:34]); ok {
			return int(s[1])
		}
	case len(s) == 67 && s[0] == opData65 && s[66] == opCheckSig && s[1] == 4:
		if pt, _, ok := secp.ParsePubKey(s[1:66]); ok {
			return 4 + int(pt.Y.Bit(0))
		}
	}
	return KindGeneral
}

// CompressScript returns the compressed form of a script.
func CompressScript(s []byte) []byte {
	switch k := ScriptKind(s); k {
	case KindP2PKH:
		return append([]byte{0}, s[3:23]...)
	case KindP2SH:
		return append([]byte{1}, s[2:22]...)
	case KindPKComp2, KindPKComp3, KindPKUncomp4, KindPKUncomp5:
		return append([]byte{byte(k)}, s[2:34]...)
	}
	out := PutVLQ(uint64(len(s)) + NumSpecialScripts)
	return append(out, s...)
}

// P2PKH, P2SH, PKCompressed build the standard scripts.
func P2PKH(h []byte) []byte {
	s := []byte{opDup, opHash160, opData20}
	s = append(s, h[:20]...)
	return append(s, opEqualVerify, opCheckSig)
}

func P2SH(h []byte) []byte {
	s := []byte{opHash160, opData20}
	s = append(s, h[:20]...)
	return append(s, opEqual)
}

func PayToPubKey(key []byte) []byte {
	s := []byte{byte(len(key))}
	s = append(s, key...)
	return append(s, opCheckSig)
}

// ReadCompressedScript reads one compressed script from the front of b and
// returns the script and the number of bytes it occupied (strict).
func ReadCompressedScript(b []byte) ([]byte, int, error) {
	v, n, err := ReadVLQ(b)
	if err != nil {
		return nil, n, err
	}
	switch v {
	case KindP2PKH, KindP2SH:
		if len(b) < n+20 {
			return nil, n, ErrTruncated
		}
		if v == KindP2PKH {
			return P2PKH(b[n : n+20]), n + 20, nil
		}
		return P2SH(b[n : n+20]), n + 20, nil
	case KindPKComp2, KindPKComp3:
		if len(b) < n+32 {
			return nil, n, ErrTruncated
		}
		key := append([]byte{byte(v)}, b[n:n+32]...)
		return PayToPubKey(key), n + 32, nil
	case KindPKUncomp4, KindPKUncomp5:
		if len(b) < n+32 {
			return nil, n, ErrTruncated
		}
		pt, ok := secp.LiftX(new(big.Int).SetBytes(b[n : n+32]))
		if !ok {
			return nil, n + 32, ErrBadPoint
		}
		if pt.Y.Bit(0) != uint(v&1) {
			pt = secp.Neg(pt)
		}
		return PayToPubKey(secp.SerializeUncompressed(pt)), n + 32, nil
	}
	size := v - NumSpecialScripts
	if size > uint64(len(b)-n) {
		return nil, n, ErrTruncated
	}
	return append([]byte{}, b[n:n+int(size)]...), n + int(size), nil
}

// ---------------------------------------------------------------------------
// compressed txout

// PutTxOut encodes <compressed amount><compressed script>.
func PutTxOut(amount uint64, script []byte) ([]byte, error) {
	c, ok := CompressAmount(amount)
	if !ok {
		return nil, ErrUnrepresent
	}
	return append(PutVLQ(c), CompressScript(script)...), nil
}

// ReadTxOut reads one compressed txout from the front of b (strict).
func ReadTxOut(b []byte) (amount uint64, script []byte, n int, err error) {
	c, n1, err := ReadVLQ(b)
	if err != nil {
		return 0, nil, n1, err
	}
	amount, ok := DecompressAmount(c)
	if !ok {
		return 0, nil, n1, ErrOverflow
	}
	script, n2, err := ReadCompressedScript(b[n1:])
	if err != nil {
		return 0, nil, n1 + n2, err
	}
	return amount, script, n1 + n2, nil
}

// ---------------------------------------------------------------------------
// utxo entry / spent txout

// Out is an output with its context: what a utxo entry and a spend journal
// item both carry.
type Out struct {
	Amount   int64
	PkScript []byte
	Height   int32
	Coinbase bool
}

func headerCode(o Out) (uint64, error) {
	if o.Height < 0 {
		return 0, ErrRange
	}
	c := uint64(o.Height) << 1
	if o.Coinbase {
		c |= 1
	}
	return c, nil
}

func splitHeaderCode(c uint64) (int32, bool, error) {
	if c>>1 > 0x7fffffff {
		return 0, false, ErrRange
	}
	return int32(c >> 1), c&1 == 1, nil
}

// EncodeUtxo encodes <header code><compressed txout>.
func EncodeUtxo(o Out) ([]byte, error) {
	hc, err := headerCode(o)
	if err != nil {
		return nil, err
	}
	txo, err := PutTxOut(uint64(o.Amount), o.PkScript)
	if err != nil {
		return nil, err
	}
	return append(PutVLQ(hc), txo...), nil
}

// ReadUtxo reads one utxo entry from the front of b (strict); n is its length.
func ReadUtxo(b []byte) (Out, int, error) {
	hc, n, err := ReadVLQ(b)
	if err != nil {
		return Out{}, n, err
	}
	h, cb, err := splitHeaderCode(hc)
	if err != nil {
		return Out{}, n, err
	}
	a, s, n2, err := ReadTxOut(b[n:])
	if err != nil {
		return Out{}, n + n2, err
	}
	return Out{Amount: int64(a), PkScript: s, Height: h, Coinbase: cb}, n + n2, nil
}

// EncodeStxo encodes <header code>[<reserved>]<compressed txout>; the reserved
// byte exists exactly when the height in the header code is non-zero.
func EncodeStxo(o Out) ([]byte, error) {
	hc, err := headerCode(o)
	if err != nil {
		return nil, err
	}
	txo, err := PutTxOut(uint64(o.Amount), o.PkScript)
	if err != nil {
		return nil, err
	}
	out := PutVLQ(hc)
	if o.Height != 0 {
		out = append(out, 0x00)
	}
	return append(out, txo...), nil
}

// ReadStxo reads one spend journal item from the front of b (strict).
func ReadStxo(b []byte) (Out, int, error) {
	hc, n, err := ReadVLQ(b)
	if err != nil {
		return Out{}, n, err
	}
	h, cb, err := splitHeaderCode(hc)
	if err != nil {
		return Out{}, n, err
	}
	if h != 0 {
		if len(b) <= n {
			return Out{}, n, ErrTruncated
		}
		if b[n] != 0 {
			return Out{}, n, ErrRange
		}
		n++
	}
	a, s, n2, err := ReadTxOut(b[n:])
	if err != nil {
		return Out{}, n + n2, err
	}
	return Out{Amount: int64(a), PkScript: s, Height: h, Coinbase: cb}, n + n2, nil
}

// EncodeJournal encodes the spent outputs of a block (given in the order they
// were spent) "such that the order is the reverse of the order they were spent".
func EncodeJournal(stxos []Out) ([]byte, error) {
	var out []byte
	for i := len(stxos) - 1; i >= 0; i-- {
		e, err := EncodeStxo(stxos[i])
		if err != nil {
			return nil, err
		}
		out = append(out, e...)
	}
	return out, nil
}

// DecodeJournal decodes exactly count items (the count comes from the block)
// and returns them in spending order.
func DecodeJournal(b []byte, count int) ([]Out, error) {
	out := make([]Out, count)
	off := 0
	for i := count - 1; i >= 0; i-- {
		o, n, err := ReadStxo(b[off:])
		if err != nil {
			return nil, err
		}
		out[i] = o
		off += n
	}
	if off != len(b) {
		return nil, ErrTrailing
	}
	return out, nil
}

// ---------------------------------------------------------------------------
// utxo key

// OutpointKey is <hash><VLQ output index>.
func OutpointKey(hash [32]byte, index uint32) []byte {
	return append(append([]byte{}, hash[:]...), PutVLQ(uint64(index))...)
}

// ---------------------------------------------------------------------------
// best chain state

// BestState is the best chain state record.
type BestState struct {
	Hash      [32]byte
	Height    uint32
	TotalTxns uint64
	WorkSum   *big.Int // >= 0
}

// EncodeBestState encodes <hash><height><total txns><work sum length><work sum>.
func EncodeBestState(s BestState) []byte {
	w := s.WorkSum.Bytes()
	out := make([]byte, 0, 48+len(w))
	out = append(out, s.Hash[:]...)
	out = binary.LittleEndian.AppendUint32(out, s.Height)
	out = binary.LittleEndian.AppendUint64(out, s.TotalTxns)
	out = binary.LittleEndian.AppendUint32(out, uint32(len(w)))
	return append(out, w...)
}

// DecodeBestState decodes a record; bytes after the work sum are ignored, as
// the format is length-prefixed.
func DecodeBestState(b []byte) (BestState, error) {
	if len(b) < 48 {
		return BestState{}, ErrTruncated
	}
	var s BestState
	copy(s.Hash[:], b[:32])
	s.Height = binary.LittleEndian.Uint32(b[32:])
	s.TotalTxns = binary.LittleEndian.Uint64(b[36:])
	l := uint64(binary.LittleEndian.Uint32(b[44:]))
	if uint64(len(b)-48) < l {
		return BestState{}, ErrTruncated
	}
	s.WorkSum = new(big.Int).SetBytes(b[48 : 48+l])
	return s, nil
}

// ---------------------------------------------------------------------------
// block index row

// BlockRow is a block index bucket value: the 80-byte block header followed by
// the status byte.
type BlockRow struct {
	Version    int32
	PrevBlock  [32]byte
	MerkleRoot [32]byte
	Time       uint32
	Bits       uint32
	Nonce      uint32
	Status     byte
}

// EncodeBlockRow encodes a row.
func EncodeBlockRow(r BlockRow) []byte {
	out := make([]byte, 0, 81)
	out = binary.LittleEndian.AppendUint32(out, uint32(r.Version))
	out = append(out, r.PrevBlock[:]...)
	out = append(out, r.MerkleRoot[:]...)
	out = binary.LittleEndian.AppendUint32(out, r.Time)
	out = binary.LittleEndian.AppendUint32(out, r.Bits)
	out = binary.LittleEndian.AppendUint32(out, r.Nonce)
	return append(out, r.Status)
}

// DecodeBlockRow decodes a row (bytes after the status byte are ignored).
func DecodeBlockRow(b []byte) (BlockRow, error) {
	if len(b) < 81 {
		return BlockRow{}, ErrTruncated
	}
	var r BlockRow
	r.Version = int32(binary.LittleEndian.Uint32(b[0:]))
	copy(r.PrevBlock[:], b[4:36])
	copy(r.MerkleRoot[:], b[36:68])
	r.Time = binary.LittleEndian.Uint32(b[68:])
	r.Bits = binary.LittleEndian.Uint32(b[72:])
	r.Nonce = binary.LittleEndian.Uint32(b[76:])
	r.Status = b[80]
	return r, nil
}

// ---------------------------------------------------------------------------
// legacy (version 0) utxo entry: all unspent outputs of one transaction in one
// record (format comment of blockchain/upgrade.go: deserializeUtxoEntryV0)

// EncodeUtxoV0 encodes <version><height><header code><unspentness bitmap>
// [<compressed txout>...]. outs maps output index -> (amount, script); every
// Out carries the same height / coinbase flag in the legacy format, given
// separately. padBitmap appends that many zero bytes to the bitmap (a longer
// than necessary bitmap is still a well-formed record).
func EncodeUtxoV0(version uint64, height int32, coinbase bool, outs map[uint32]Out, padBitmap int) ([]byte, error) {
	if len(outs) == 0 || height < 0 {
		return nil, ErrRange
	}
	var idx []uint32
	for i := range outs {
		idx = append(idx, i)
	}
	for i := 1; i < len(idx); i++ { // insertion sort: ascending output index
		for j := i; j > 0 && idx[j-1] > idx[j]; j-- {
			idx[j-1], idx[j] = idx[j], idx[j-1]
		}
	}
	var bitmap []byte
	for _, i := range idx {
		if i < 2 {
			continue
		}
		byteNo := int(i-2) / 8
		for len(bitmap) <= byteNo {
			bitmap = append(bitmap, 0)
		}
		bitmap[byteNo] |= 1 << ((i - 2) % 8)
	}
	for k := 0; k < padBitmap; k++ {
		bitmap = append(bitmap, 0)
	}
	_, has0 := outs[0]
	_, has1 := outs[1]
	n := uint64(len(bitmap))
	if !has0 && !has1 {
		if n == 0 {
			return nil, ErrRange
		}
		n-- // N-1 is encoded: there must be at least one bitmap byte
	}
	code := n << 3
	if coinbase {
		code |= 1
	}
	if has0 {
		code |= 2
	}
	if has1 {
		code |= 4
	}
	b := append(PutVLQ(version), PutVLQ(uint64(height))...)
	b = append(b, PutVLQ(code)...)
	b = append(b, bitmap...)
	for _, i := range idx {
		txo, err := PutTxOut(uint64(outs[i].Amount), outs[i].PkScript)
		if err != nil {
			return nil, err
		}
		b = append(b, txo...)
	}
	return b, nil
}
