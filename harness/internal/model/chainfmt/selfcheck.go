package chainfmt

import (
	"bytes"
	"encoding/hex"
	"fmt"

	"verif/internal/model/secp"
)

// SelfCheck calibrates the model on every literal example of the format
// comments. A non-nil result means the MODEL misreads the documented format
// (harness trouble, exit 2), never a defect of the code under test.
func SelfCheck() error {
	if !secp.SelfCheck() {
		return fmt.Errorf("secp model constants are wrong")
	}
	for _, e := range append(append([]VLQExample{}, VLQExamples...), DocumentedFieldExamples...) {
		if got := PutVLQ(e.Value); !bytes.Equal(got, e.Bytes) {
			return fmt.Errorf("PutVLQ(%d) = %x, documented %x", e.Value, got, e.Bytes)
		}
		if VLQSize(e.Value) != len(e.Bytes) {
			return fmt.Errorf("VLQSize(%d) = %d, documented %d", e.Value, VLQSize(e.Value), len(e.Bytes))
		}
		v, n, err := ReadVLQ(append(append([]byte{}, e.Bytes...), 0xaa))
		if err != nil || v != e.Value || n != len(e.Bytes) {
			return fmt.Errorf("ReadVLQ(%x) = %d,%d,%v, documented %d", e.Bytes, v, n, err, e.Value)
		}
	}
	// "the values 0 - 127 are represented with a single byte, 128 - 16511 with
	// two bytes, and 16512 - 2113663 with three bytes"
	for _, c := range []struct {
		v uint64
		k int
	}{{0, 1}, {127, 1}, {128, 2}, {16511, 2}, {16512, 3}, {2113663, 3}, {2113664, 4}, {270549119, 4}, {270549120, 5}} {
		if VLQSize(c.v) != c.k {
			return fmt.Errorf("VLQSize(%d) = %d, documented %d", c.v, VLQSize(c.v), c.k)
		}
	}
	for _, e := range AmountExamples {
		c, ok := CompressAmount(e.Amount)
		if !ok || c != e.Compressed {
			return fmt.Errorf("CompressAmount(%d) = %d,%v, documented %d", e.Amount, c, ok, e.Compressed)
		}
		a, ok := DecompressAmount(e.Compressed)
		if !ok || a != e.Amount {
			return fmt.Errorf("DecompressAmount(%d) = %d,%v, documented %d", e.Compressed, a, ok, e.Amount)
		}
		if VLQSize(e.Amount) != e.AmountVLQ || VLQSize(e.Compressed) != e.CompVLQ {
			return fmt.Errorf("amount example %d: VLQ sizes %d/%d, documented %d/%d", e.Amount,
				VLQSize(e.Amount), VLQSize(e.Compressed), e.AmountVLQ, e.CompVLQ)
		}
	}
	for _, e := range AmountErrata {
		// the misprinted line must really be inconsistent with the formula,
		// otherwise the erratum itself is wrong
		c, _ := CompressAmount(e.Amount)
		a, _ := DecompressAmount(e.PrintedCompressed)
		if c == e.PrintedCompressed || a != e.ReallyStandsFor {
			return fmt.Errorf("amount erratum %d->%d is not an erratum (model: %d, %d)", e.Amount, e.PrintedCompressed, c, a)
		}
	}
	for _, e := range DocumentedAmountFields {
		c, ok := CompressAmount(e.Amount)
		if !ok || !bytes.Equal(PutVLQ(c), e.Bytes) {
			return fmt.Errorf("compressed amount field of %d = %x, documented %x", e.Amount, PutVLQ(c), e.Bytes)
		}
	}
	checkRecord := func(e RecordExample, o Out) error {
		if o.Height != e.Height || o.Coinbase != e.Coinbase || o.Amount != e.Amount {
			return fmt.Errorf("%s: model decodes height=%d coinbase=%v amount=%d, documented %d/%v/%d",
				e.Name, o.Height, o.Coinbase, o.Amount, e.Height, e.Coinbase, e.Amount)
		}
		if !bytes.Equal(o.PkScript, e.Script()) {
			return fmt.Errorf("%s: model decodes script %x, expected %x", e.Name, o.PkScript, e.Script())
		}
		cs := CompressScript(e.Script())
		data, _ := hex.DecodeString(e.ScriptData)
		if len(cs) != 1+len(data) || cs[0] != e.ScriptType || !bytes.Equal(cs[1:], data) {
			return fmt.Errorf("%s: model compresses the script to %x, documented type %d data %s", e.Name, cs, e.ScriptType, e.ScriptData)
		}
		return nil
	}
	for _, e := range UtxoExamples {
		o, n, err := ReadUtxo(e.Bytes())
		if err != nil || n != len(e.Bytes()) {
			return fmt.Errorf("%s: model ReadUtxo: n=%d err=%v", e.Name, n, err)
		}
		if err := checkRecord(e, o); err != nil {
			return err
		}
		enc, err := EncodeUtxo(Out{Amount: e.Amount, PkScript: e.Script(), Height: e.Height, Coinbase: e.Coinbase})
		if err != nil || !bytes.Equal(enc, e.Bytes()) {
			return fmt.Errorf("%s: model encodes %x (%v), documented %s", e.Name, enc, err, e.Hex)
		}
	}
	{
		e := StxoExample1
		os, err := DecodeJournal(e.Bytes(), 1)
		if err != nil {
			return fmt.Errorf("%s: model DecodeJournal: %v", e.Name, err)
		}
		if err := checkRecord(e, os[0]); err != nil {
			return err
		}
		enc, err := EncodeJournal(os)
		if err != nil || !bytes.Equal(enc, e.Bytes()) {
			return fmt.Errorf("%s: model encodes %x (%v), documented %s", e.Name, enc, err, e.Hex)
		}
	}
	{
		raw, _ := hex.DecodeString(StxoExample2Hex)
		os, err := DecodeJournal(raw, 2)
		if err != nil {
			return fmt.Errorf("spend journal example 2: model DecodeJournal: %v", err)
		}
		for i, e := range StxoExample2 {
			if err := checkRecord(e, os[i]); err != nil {
				return err
			}
		}
		enc, err := EncodeJournal(os)
		if err != nil || !bytes.Equal(enc, raw) {
			return fmt.Errorf("spend journal example 2: model encodes %x (%v), documented %s", enc, err, StxoExample2Hex)
		}
	}
	return nil
}
