// Package scratch hands out throw-away directories on /dev/shm (fallback: the
// OS temp dir) and removes leftovers.
package scratch

import (
	"fmt"
	"os"
	"path/filepath"
	"sync/atomic"
)

var ctr atomic.Int64

func base() string {
	if st, err := os.Stat("/dev/shm"); err == nil && st.IsDir() {
		return "/dev/shm"
	}
	return os.TempDir()
}

// Dir creates a fresh empty directory.
func Dir(tag string) string {
	d := filepath.Join(base(), fmt.Sprintf("verif-%d-%s-%d", os.Getpid(), tag, ctr.Add(1)))
	os.RemoveAll(d)
	if err := os.MkdirAll(d, 0o755); err != nil {
		panic(err)
	}
	return d
}

// Sweep removes every directory this process created.
func Sweep() {
	m, _ := filepath.Glob(filepath.Join(base(), fmt.Sprintf("verif-%d-*", os.Getpid())))
	for _, d := range m {
		os.RemoveAll(d)
	}
}
