// Package poolenv wires a real blockchain.BlockChain (on a scratch ffldb), a
// real mempool.TxPool configured like server.go does, a real
// netsync.SyncManager (created with netsync.New and never started, so that
// the repository's own handleBlockchainNotification applies block connects
// and disconnects to the pool) and a mining.BlkTmplGenerator. It also holds
// the generator-side bookkeeping used by the C10 and C12 checks.
package poolenv

import (
	"bytes"
	"fmt"
	"sort"
	"time"

	"github.com/btcsuite/btcd/address/v2"
	"github.com/btcsuite/btcd/blockchain"
	"github.com/btcsuite/btcd/btcec/v2"
	"github.com/btcsuite/btcd/btcutil/v2"
	"github.com/btcsuite/btcd/chainhash/v2"
	"github.com/btcsuite/btcd/mempool"
	"github.com/btcsuite/btcd/mining"
	"github.com/btcsuite/btcd/netsync"
	"github.com/btcsuite/btcd/peer"
	"github.com/btcsuite/btcd/txscript/v2"
	"github.com/btcsuite/btcd/wire/v2"
	"pgregory.net/rapid"

	ce "verif/internal/chainenv"
)

// nullNotifier is the PeerNotifier of the never-started sync manager.
type nullNotifier struct{}

func (nullNotifier) AnnounceNewTransactions([]*mempool.TxDesc)           {}
func (nullNotifier) UpdatePeerHeights(*chainhash.Hash, int32, *peer.Peer) {}
func (nullNotifier) RelayInventory(*wire.InvVect, interface{})            {}
func (nullNotifier) TransactionConfirmed(*btcutil.Tx)                     {}

// Keys is the small key ring used for P2PKH / P2WPKH outputs.
var Keys = func() []*btcec.PrivateKey {
	var ks []*btcec.PrivateKey
	for i := 1; i <= 3; i++ {
		b := bytes.Repeat([]byte{byte(i)}, 32)
		k, _ := btcec.PrivKeyFromBytes(b)
		ks = append(ks, k)
	}
	return ks
}()

// P2PKH returns the pay-to-pubkey-hash script of key i.
func P2PKH(i int) []byte {
	h := address.Hash160(Keys[i].PubKey().SerializeCompressed())
	return append(append([]byte{0x76, 0xa9, 0x14}, h...), 0x88, 0xac)
}

// P2WPKH returns the pay-to-witness-pubkey-hash script of key i.
func P2WPKH(i int) []byte {
	h := address.Hash160(Keys[i].PubKey().SerializeCompressed())
	return append([]byte{0x00, 0x14}, h...)
}

// keyOf returns the key index of a P2PKH/P2WPKH script, or -1.
func keyOf(script []byte) (idx int, witness bool) {
	for i := range Keys {
		if bytes.Equal(script, P2PKH(i)) {
			return i, false
		}
		if bytes.Equal(script, P2WPKH(i)) {
			return i, true
		}
	}
	return -1, false
}

// Env is the wired environment.
type Env struct {
	*ce.Env
	Tree   *ce.Tree
	Sel    *ce.Sel
	Pool   *mempool.TxPool
	Sync   *netsync.SyncManager
	Gen    *mining.BlkTmplGenerator
	Policy mempool.Policy
	MPol   mining.Policy
	// Known maps every generated transaction by hash.
	Known map[chainhash.Hash]*wire.MsgTx
	// Order lists the generated transactions in creation order.
	Order []*wire.MsgTx
}

// Config selects the policies.
type Config struct {
	Family   ce.Family
	Maturity uint16
	Policy   mempool.Policy
	MPol     mining.Policy
	Blocks   int // length of the initial chain
}

// New builds the environment with an initial chain whose coinbases pay to
// P2PKH(key0) so that standard transactions can spend them.
func New(cfg Config) (*Env, error) {
	params := ce.NewParams(cfg.Family, cfg.Maturity)
	tr := ce.NewTree(cfg.Family, params)
	sigCache := txscript.NewSigCache(1000)
	hashCache := txscript.NewHashCache(1000)
	base, err := ce.NewEnv(params, ce.EnvOpt{UtxoCacheMaxSize: 1 << 20, SigCache: sigCache, HashCache: hashCache})
	if err != nil {
		return nil, err
	}
	// keep the chain "current": the clock sits shortly after the blocks
	base.Clock.Now = time.Unix(ce.T0+3000, 0)
	e := &Env{Env: base, Tree: tr, Sel: ce.NewSel(tr), Policy: cfg.Policy, MPol: cfg.MPol, Known: map[chainhash.Hash]*wire.MsgTx{}}
	ch := base.Chain
	e.Pool = mempool.New(&mempool.Config{
		Policy:         cfg.Policy,
		ChainParams:    params,
		FetchUtxoView:  ch.FetchUtxoView,
		BestHeight:     func() int32 { return ch.BestSnapshot().Height },
		MedianTimePast: func() time.Time { return ch.BestSnapshot().MedianTime },
		CalcSequenceLock: func(tx *btcutil.Tx, view *blockchain.UtxoViewpoint) (*blockchain.SequenceLock, error) {
			return ch.CalcSequenceLock(tx, view, true)
		},
		IsDeploymentActive: ch.IsDeploymentActive,
		SigCache:           sigCache,
		HashCache:          hashCache,
	})
	netsync.DisableLog()
	e.Sync, err = netsync.New(&netsync.Config{PeerNotifier: nullNotifier{}, Chain: ch, TxMemPool: e.Pool, ChainParams: params, DisableCheckpoints: true, MaxPeers: 8})
	if err != nil {
		base.Close()
		return nil, err
	}
	e.Gen = mining.NewBlkTmplGenerator(&e.MPol, params, e.Pool, ch, base.Clock, sigCache, hashCache)
	for i := 0; i < cfg.Blocks; i++ {
		if _, err := e.Mine(nil, i%3); err != nil {
			base.Close()
			return nil, fmt.Errorf("initial block %d: %w", i, err)
		}
	}
	return e, nil
}

// Tip returns the model tip.
func (e *Env) Tip() *ce.Node { return e.Sel.Tip }

// Mine builds a block with the given transactions on the current tip, paying
// the coinbase to P2PKH(key payKey), and delivers it.
func (e *Env) Mine(txs []*wire.MsgTx, payKey int) (*ce.Node, error) {
	n := e.Tree.Extend(e.Sel.Tip, ce.BlockOpt{Txs: txs, PayScript: P2PKH(payKey)})
	return n, e.Deliver(n)
}

// Deliver hands a block to the chain and the model and checks the verdict.
func (e *Env) Deliver(n *ce.Node) error {
	out := e.Sel.DeliverBlock(n)
	_, _, err := e.Env.Deliver(n)
	if out.MustSucceed && err != nil {
		return fmt.Errorf("block node%d rejected: %v (%s)", n.Idx, err, out.Why)
	}
	if out.MustError && err == nil {
		return fmt.Errorf("block node%d accepted although %s", n.Idx, out.Why)
	}
	return ce.CheckTip(e.Env, e.Sel)
}

// Coin is a spendable output known to the generator.
type Coin struct {
	Op       wire.OutPoint
	Value    int64
	PkScript []byte
}

// ConfirmedCoins lists the coins of the active chain that the key ring or
// anyone can spend at the next block height, mature or not as requested.
func (e *Env) ConfirmedCoins(matureOnly bool) []Coin {
	tip := e.Sel.Tip
	var out []Coin
	for _, op := range tip.Utxo.SortedOutpoints() {
		c := tip.Utxo[op]
		k, _ := keyOf(c.PkScript)
		if k < 0 && !(len(c.PkScript) == 1 && c.PkScript[0] == 0x51) {
			continue
		}
		immature := c.Coinbase && tip.Height+1-c.Height < int32(e.Params.CoinbaseMaturity)
		if matureOnly && immature {
			continue
		}
		out = append(out, Coin{op, c.Value, c.PkScript})
	}
	return out
}

// OutputsOf lists the key-ring / anyone-can-spend outputs of a transaction.
func OutputsOf(tx *wire.MsgTx) []Coin {
	h := tx.TxHash()
	var out []Coin
	for i, o := range tx.TxOut {
		k, _ := keyOf(o.PkScript)
		if k < 0 && !(len(o.PkScript) == 1 && o.PkScript[0] == 0x51) {
			continue
		}
		out = append(out, Coin{wire.OutPoint{Hash: h, Index: uint32(i)}, o.Value, o.PkScript})
	}
	return out
}

// BuildTx creates and signs a transaction spending the coins.
func BuildTx(version int32, ins []Coin, sequences []uint32, outs []*wire.TxOut, lockTime uint32) *wire.MsgTx {
	tx := wire.NewMsgTx(version)
	for i, c := range ins {
		tx.AddTxIn(&wire.TxIn{PreviousOutPoint: c.Op, Sequence: sequences[i]})
	}
	for _, o := range outs {
		tx.AddTxOut(o)
	}
	tx.LockTime = lockTime
	Sign(tx, ins)
	return tx
}

// Sign (re-)signs all inputs.
func Sign(tx *wire.MsgTx, ins []Coin) {
	fetcher := txscript.NewMultiPrevOutFetcher(nil)
	for _, c := range ins {
		fetcher.AddPrevOut(c.Op, &wire.TxOut{Value: c.Value, PkScript: c.PkScript})
	}
	hashes := txscript.NewTxSigHashes(tx, fetcher)
	for i, c := range ins {
		k, wit := keyOf(c.PkScript)
		switch {
		case k < 0:
			tx.TxIn[i].SignatureScript = nil
		case wit:
			w, err := txscript.WitnessSignature(tx, hashes, i, c.Value, c.PkScript, txscript.SigHashAll, Keys[k], true)
			if err != nil {
				panic("VERIF-INFRA: " + err.Error())
			}
			tx.TxIn[i].Witness = w
		default:
			s, err := txscript.SignatureScript(tx, i, c.PkScript, txscript.SigHashAll, Keys[k], true)
			if err != nil {
				panic("VERIF-INFRA: " + err.Error())
			}
			tx.TxIn[i].SignatureScript = s
		}
	}
}

// VSize is the virtual size used by the relay-fee rules: ceil(weight/4).
func VSize(tx *wire.MsgTx) int64 {
	w := int64(tx.SerializeSizeStripped()*3 + tx.SerializeSize())
	return (w + 3) / 4
}

// MinRelayFee is the relay fee for a virtual size at a rate per 1000 bytes
// (rounded down, minimum 1 when the rate is non-zero).
func MinRelayFee(vsize int64, ratePerKB int64) int64 {
	f := vsize * ratePerKB / 1000
	if f == 0 && ratePerKB > 0 {
		f = ratePerKB
	}
	return f
}

// PoolTxs returns the pooled transactions sorted by hash.
func (e *Env) PoolTxs() []*mempool.TxDesc {
	ds := e.Pool.TxDescs()
	sort.Slice(ds, func(i, j int) bool { return bytes.Compare(ds[i].Tx.Hash()[:], ds[j].Tx.Hash()[:]) < 0 })
	return ds
}

// TopoOrder sorts pooled transactions so that parents precede children.
func TopoOrder(ds []*mempool.TxDesc) []*wire.MsgTx {
	in := map[chainhash.Hash]*wire.MsgTx{}
	for _, d := range ds {
		in[*d.Tx.Hash()] = d.Tx.MsgTx()
	}
	var out []*wire.MsgTx
	done := map[chainhash.Hash]bool{}
	var visit func(tx *wire.MsgTx)
	visit = func(tx *wire.MsgTx) {
		h := tx.TxHash()
		if done[h] {
			return
		}
		done[h] = true
		for _, ti := range tx.TxIn {
			if p, ok := in[ti.PreviousOutPoint.Hash]; ok {
				visit(p)
			}
		}
		out = append(out, tx)
	}
	for _, d := range ds {
		visit(d.Tx.MsgTx())
	}
	return out
}

// Uniform draws an index in [0,n) without rapid's bias towards small values.
func Uniform(t *rapid.T, n int, label string) int {
	if n <= 1 {
		return 0
	}
	bits := 0
	for 1<<bits < n {
		bits++
	}
	for try := 0; try < 4; try++ {
		v := 0
		for i := 0; i < bits; i++ {
			if rapid.Bool().Draw(t, label) {
				v |= 1 << i
			}
		}
		if v < n {
			return v
		}
	}
	return rapid.IntRange(0, n-1).Draw(t, label)
}

// RelLockLostItsCoin: the transaction has an enabled BIP68 lock on an input whose
// coin was confirmed before the reorganisation and is now unconfirmed or
// confirmed at another height.
func RelLockLostItsCoin(tx *wire.MsgTx, before, after ce.UtxoSet) bool {
	if uint32(tx.Version) < 2 {
		return false
	}
	for _, ti := range tx.TxIn {
		if ti.Sequence&(1<<31) != 0 {
			continue
		}
		old, okOld := before[ti.PreviousOutPoint]
		now, okNow := after[ti.PreviousOutPoint]
		if okOld && (!okNow || now.Height != old.Height) {
			return true
		}
		// the transaction was itself confirmed before the reorganisation (its coin was spent in the old
		// chain) and was handed back while the coin's block was still connected; the coin's block was
		// disconnected afterwards: a non-zero lock now counts from an unconfirmed coin, which no
		// admission allows
		if !okOld && !okNow && ti.Sequence&0xffff != 0 {
			return true
		}
	}
	return false
}

