// Package c11 decides property C11: secp256k1 verification is sound and
// complete; signers always verify. Every oracle is the math/big reference in
// verif/internal/model/secp (SEC1, BIP66, BIP340, BIP327), calibrated on the
// specification vectors under /verif/corpus/c11.
package c11

import (
	"bytes"
	"flag"
	"math/big"
	"os"
	"runtime/debug"
	"sync/atomic"
	"testing"

	"github.com/btcsuite/btcd/btcec/v2"
	"pgregory.net/rapid"

	"verif/internal/ev"
	"verif/internal/model/secp"
	"verif/internal/scratch"
)

func TestMain(m *testing.M) {
	// the math/big reference allocates heavily and keeps almost nothing alive
	debug.SetGCPercent(800)
	code := m.Run()
	scratch.Sweep()
	// Under `go test -fuzz` the coordinating process executes no case itself;
	// its (empty) statistics must not overwrite those of the workers.
	if f := flag.Lookup("test.fuzz"); f == nil || f.Value.String() == "" || fuzzCases.Load() > 0 {
		ev.Flush()
	}
	os.Exit(code)
}

// fuzzCases counts the inputs executed by native fuzz targets in this process.
var fuzzCases atomic.Int64

// ---------------------------------------------------------------------------
// constants and small helpers

var (
	bigOne  = big.NewInt(1)
	two256  = new(big.Int).Lsh(bigOne, 256)
	max256  = new(big.Int).Sub(two256, bigOne)
	pMinusN = new(big.Int).Sub(secp.P, secp.N)
)

func bi(v int64) *big.Int { return big.NewInt(v) }

func add(a *big.Int, d int64) *big.Int { return new(big.Int).Add(a, big.NewInt(d)) }

func b32(v *big.Int) []byte { return secp.Bytes32(v) }

func fromBytes(b []byte) *big.Int { return new(big.Int).SetBytes(b) }

func scalarToBig(s *btcec.ModNScalar) *big.Int {
	b := s.Bytes()
	return new(big.Int).SetBytes(b[:])
}

func privFromBig(d *big.Int) *btcec.PrivateKey {
	priv, _ := btcec.PrivKeyFromBytes(b32(d))
	return priv
}

// pointOf converts a btcd public key to a reference point through its
// uncompressed serialisation (plain data carrier).
func pointOf(pk *btcec.PublicKey) secp.Point {
	u := pk.SerializeUncompressed()
	return secp.Point{X: fromBytes(u[1:33]), Y: fromBytes(u[33:65])}
}

func cat(parts ...[]byte) []byte { return bytes.Join(parts, nil) }

// ---------------------------------------------------------------------------
// boundary-biased generators

// interesting 256-bit values: every limit the property or the code names,
// each with its neighbours.
var boundaryScalars = func() []*big.Int {
	var out []*big.Int
	for _, c := range []*big.Int{bi(0), secp.N, secp.P, secp.HalfN, two256, pMinusN, new(big.Int).Lsh(bigOne, 255), new(big.Int).Lsh(bigOne, 128)} {
		for d := int64(-2); d <= 2; d++ {
			v := add(c, d)
			if v.Sign() >= 0 && v.Cmp(two256) < 0 {
				out = append(out, v)
			}
		}
	}
	return out
}()

// genU256 draws a 256-bit integer: boundary values, small, top-heavy, random.
func genU256() *rapid.Generator[*big.Int] {
	return rapid.Custom(func(t *rapid.T) *big.Int {
		switch rapid.IntRange(0, 9).Draw(t, "u256kind") {
		case 0, 1, 2, 3:
			return new(big.Int).Set(rapid.SampledFrom(boundaryScalars).Draw(t, "boundary"))
		case 4:
			return big.NewInt(int64(rapid.IntRange(0, 1000).Draw(t, "small")))
		case 5:
			// n + small, p + small style values above the moduli
			base := rapid.SampledFrom([]*big.Int{secp.N, secp.P}).Draw(t, "base")
			v := add(base, int64(rapid.IntRange(0, 1<<20).Draw(t, "off")))
			if v.Cmp(two256) >= 0 {
				v = max256
			}
			return v
		case 6:
			// short values (leading zero bytes) for DER length variety
			n := rapid.IntRange(1, 31).Draw(t, "len")
			return fromBytes(rapid.SliceOfN(rapid.Byte(), n, n).Draw(t, "short"))
		default:
			return fromBytes(rapid.SliceOfN(rapid.Byte(), 32, 32).Draw(t, "rand"))
		}
	})
}

// genPriv draws a private key in [1, n-1] with boundary bias.
func genPriv() *rapid.Generator[*big.Int] {
	special := []*big.Int{bi(1), bi(2), bi(3), add(secp.N, -1), add(secp.N, -2), secp.HalfN, add(secp.HalfN, 1)}
	return rapid.Custom(func(t *rapid.T) *big.Int {
		if rapid.IntRange(0, 3).Draw(t, "privkind") == 0 {
			return new(big.Int).Set(rapid.SampledFrom(special).Draw(t, "special"))
		}
		v := fromBytes(rapid.SliceOfN(rapid.Byte(), 32, 32).Draw(t, "d"))
		v.Mod(v, add(secp.N, -1))
		return v.Add(v, bigOne)
	})
}

// genMsg draws a 32-byte message: all-zero, all-ff, values around n (e = 0
// mod n), random.
func genMsg() *rapid.Generator[[]byte] {
	special := [][]byte{make([]byte, 32), bytes.Repeat([]byte{0xff}, 32), b32(secp.N), b32(add(secp.N, -1)), b32(add(secp.N, 1)), b32(bi(1)), b32(secp.P)}
	return rapid.Custom(func(t *rapid.T) []byte {
		if rapid.IntRange(0, 3).Draw(t, "msgkind") == 0 {
			return append([]byte(nil), rapid.SampledFrom(special).Draw(t, "special")...)
		}
		return rapid.SliceOfN(rapid.Byte(), 32, 32).Draw(t, "msg")
	})
}

func gen32() *rapid.Generator[[]byte] {
	return rapid.Custom(func(t *rapid.T) []byte {
		switch rapid.IntRange(0, 5).Draw(t, "b32kind") {
		case 0:
			return make([]byte, 32)
		case 1:
			return bytes.Repeat([]byte{0xff}, 32)
		}
		return rapid.SliceOfN(rapid.Byte(), 32, 32).Draw(t, "b32")
	})
}

// isBoundary reports whether v is one of the named limits or next to one.
func isBoundary(v *big.Int) bool {
	for _, b := range boundaryScalars {
		if v.Cmp(b) == 0 {
			return true
		}
	}
	return false
}
