package c11

import (
	"bytes"
	"fmt"
	"math/big"
	"testing"

	"github.com/btcsuite/btcd/btcec/v2"
	"github.com/btcsuite/btcd/btcec/v2/schnorr/musig2"
	"pgregory.net/rapid"

	"verif/internal/ev"
	"verif/internal/model/secp"
)

// Hostile nonce encodings. BIP327 parses individual public nonces with cpoint
// (33 bytes, prefix 02/03, x < p, on the curve; infinity is NOT allowed) and
// aggregate nonces with cpoint_ext (additionally exactly 33 zero bytes =
// infinity). Everything else is an invalid contribution: NonceAgg, Sign and
// PartialSigVerify must fail.

const kfNonce00 = "musig2-nonce-00-prefix"

var recHostile = ev.New("C11", "musig2-hostile-nonce",
	"1..4 valid signers/nonces with one 33-byte nonce half replaced by: 33 zero bytes, 00||random, prefix 04/05/06/07/01/ff, x >= p, "+
		"off-curve x, or another valid point (control), placed in (a) a public nonce given to AggregateNonces, (b) the signer's public nonce "+
		"given to PartialSignature.Verify together with the s that satisfies the equation if that half were the point at infinity, (c) the "+
		"aggregate nonce given to Sign; oracle: btcd fails/rejects <=> the BIP327 reference raises, equal outputs otherwise; "+
		"non-trivial = every hostile encoding; distinct by the nonce bytes",
	"zero33", "zero-prefix", "bad-prefix", "x>=p", "off-curve", "valid-control", "in-nonceagg", "in-verify", "in-sign")

func hostileHalf(t *rapid.T) ([]byte, string) {
	switch rapid.IntRange(0, 6).Draw(t, "hostilekind") {
	case 0:
		return make([]byte, 33), "zero33"
	case 1:
		b := cat([]byte{0}, rapid.SliceOfN(rapid.Byte(), 32, 32).Draw(t, "junk"))
		if bytes.Equal(b, make([]byte, 33)) {
			b[32] = 1
		}
		return b, "zero-prefix"
	case 2:
		pt := secp.BaseMulFast(genPriv().Draw(t, "hp"))
		return cat([]byte{rapid.SampledFrom([]byte{4, 5, 6, 7, 1, 0xff}).Draw(t, "prefix")}, b32(pt.X)), "bad-prefix"
	case 3:
		x := new(big.Int).Add(rapid.SampledFrom(smallOnCurveX).Draw(t, "smallx"), secp.P)
		return cat([]byte{2 + byte(rapid.IntRange(0, 1).Draw(t, "par"))}, b32(x)), "x>=p"
	case 4:
		return cat([]byte{2 + byte(rapid.IntRange(0, 1).Draw(t, "par"))}, b32(rapid.SampledFrom(offCurveX).Draw(t, "offx"))), "off-curve"
	default:
		return secp.SerializeCompressed(secp.BaseMulFast(genPriv().Draw(t, "hp"))), "valid-control"
	}
}

func TestMuSig2Hostile(t *testing.T) {
	calibrate(t)
	rapid.Check(t, func(t *rapid.T) {
		s := genSigners(t, 4)
		s.sort = false
		p := tweakPlan{}
		var err error
		if p.ctx0, err = secp.MusigKeyAgg(s.pkBytes); err != nil {
			t.Fatalf("VERIF-INFRA: %v", err)
		}
		p.ctx = p.ctx0
		n := len(s.privs)
		var msg [32]byte
		copy(msg[:], genMsg().Draw(t, "msg"))
		nonces := make([]signerNonce, n)
		for i := range nonces {
			nonces[i] = suppliedNonce(genPriv().Draw(t, "k1"), genPriv().Draw(t, "k2"), s.pkBytes[i])
		}
		half, kind := hostileHalf(t)
		where := rapid.SampledFrom([]string{"in-nonceagg", "in-verify", "in-sign"}).Draw(t, "where")
		victim := rapid.IntRange(0, n-1).Draw(t, "victim")
		h := rapid.IntRange(0, 1).Draw(t, "half")
		recHostile.Case(kind != "valid-control", kind, ev.Hash(half, []byte(where), []byte{byte(victim), byte(h)}, msg[:]), func() any {
			return fmt.Sprintf("%s %s half=%d signer=%d of %d: %x", where, kind, h, victim, n, half)
		})
		recHostile.Count(where, 1)

		pubs := make([][musig2.PubNonceSize]byte, n)
		var nonceBytes [][]byte
		for i := range nonces {
			pubs[i] = nonces[i].pub
			nonceBytes = append(nonceBytes, append([]byte(nil), nonces[i].pub[:]...))
		}
		known := func(observed string) bool {
			if (kind == "zero33" || kind == "zero-prefix") && recHostile.Known(kfNonce00, observed) {
				recHostile.Excluded()
				return true
			}
			return false
		}

		switch where {
		case "in-nonceagg":
			copy(pubs[victim][h*33:], half)
			copy(nonceBytes[victim][h*33:], half)
			got, err := musig2.AggregateNonces(pubs)
			want, refErr := secp.MusigNonceAgg(nonceBytes)
			if (err == nil) != (refErr == nil) {
				if err == nil && known(fmt.Sprintf("AggregateNonces accepted the public nonce %x", pubs[victim])) {
					return
				}
				t.Fatalf("AggregateNonces(%x): err=%v, BIP327 NonceAgg err=%v", nonceBytes, err, refErr)
			}
			if err == nil && !bytes.Equal(got[:], want) {
				t.Fatalf("AggregateNonces(%x) = %x, BIP327 NonceAgg = %x", nonceBytes, got, want)
			}

		case "in-verify":
			// session with the honest aggregate nonce
			agg, refErr := secp.MusigNonceAgg(nonceBytes)
			if refErr != nil {
				t.Fatalf("VERIF-INFRA: %v", refErr)
			}
			sess := secp.MusigSession{AggNonce: agg, PKs: s.pkBytes, Msg: msg[:]}
			v, err := sess.ValuesFrom(p.ctx)
			if err != nil {
				t.Fatalf("VERIF-INFRA: %v", err)
			}
			// the s that satisfies s*G = Re + e*a*g'*P when the replaced half
			// contributes nothing (is treated as infinity)
			k1, k2 := nonces[victim].k1, nonces[victim].k2
			if h == 0 {
				k1 = new(big.Int)
			} else {
				k2 = new(big.Int)
			}
			re := new(big.Int).Mul(v.B, k2)
			re.Add(re, k1)
			if !secp.HasEvenY(v.R) {
				re.Neg(re)
			}
			a := secp.MusigKeyAggCoeff(s.pkBytes, s.pkBytes[victim])
			sv := new(big.Int).Mul(v.E, a)
			sv.Mul(sv, v.QPar)
			sv.Mul(sv, s.privs[victim])
			sv.Add(sv, re)
			sv.Mod(sv, secp.N)
			var pn [musig2.PubNonceSize]byte
			copy(pn[:], nonces[victim].pub[:])
			copy(pn[h*33:], half)
			want, refErr := secp.MusigPartialSigVerifyWith(v, b32(sv), pn[:], s.pkBytes[victim], sess)
			var sc btcec.ModNScalar
			sc.SetByteSlice(b32(sv))
			rk, _ := btcec.ParsePubKey(secp.SerializeCompressed(v.R))
			ps := musig2.NewPartialSignature(&sc, rk)
			var aggArr [musig2.PubNonceSize]byte
			copy(aggArr[:], agg)
			got := ps.Verify(pn, aggArr, s.btcdKeys(), privFromBig(s.privs[victim]).PubKey(), msg)
			wantAccept := refErr == nil && want
			if got != wantAccept {
				if got && known(fmt.Sprintf("PartialSignature.Verify accepted s=%x under the public nonce %x", sv, pn)) {
					return
				}
				t.Fatalf("PartialSignature.Verify(s=%x, pubnonce=%x, signer %d of %s, msg=%x) = %v; BIP327 PartialSigVerify = %v (err %v)",
					sv, pn, victim, describe(s, p), msg, got, want, refErr)
			}

		case "in-sign":
			agg, refErr := secp.MusigNonceAgg(nonceBytes)
			if refErr != nil {
				t.Fatalf("VERIF-INFRA: %v", refErr)
			}
			var aggArr [musig2.PubNonceSize]byte
			copy(aggArr[:], agg)
			copy(aggArr[h*33:], half)
			sess := secp.MusigSession{AggNonce: aggArr[:], PKs: s.pkBytes, Msg: msg[:]}
			v, refErr := sess.ValuesFrom(p.ctx)
			ps, err := musig2.Sign(nonces[victim].sec, privFromBig(s.privs[victim]), aggArr, s.btcdKeys(), msg)
			if (err == nil) != (refErr == nil) {
				if err == nil && known(fmt.Sprintf("musig2.Sign accepted the aggregate nonce %x", aggArr)) {
					return
				}
				t.Fatalf("musig2.Sign with aggregate nonce %x: err=%v, BIP327 reference err=%v", aggArr, err, refErr)
			}
			if err == nil {
				ok, werr := secp.MusigPartialSigVerifyWith(v, b32(scalarToBig(ps.S)), nonces[victim].pub[:], s.pkBytes[victim], sess)
				if werr != nil || !ok {
					t.Fatalf("musig2.Sign with aggregate nonce %x: partial signature %x violates the BIP327 equation (%v)", aggArr, scalarToBig(ps.S), werr)
				}
			}
		}
	})
}
