package c11

import (
	"bytes"
	"fmt"
	"math/big"
	"testing"

	"github.com/btcsuite/btcd/btcec/v2"
	"github.com/btcsuite/btcd/btcec/v2/schnorr"
	"pgregory.net/rapid"

	"verif/internal/ev"
	"verif/internal/model/secp"
)

// smallOnCurveX are x coordinates below 2^256 - p that lie on the curve: for
// these x + p still fits in 32 bytes, so "x >= p but x mod p on the curve" is
// expressible - the input that separates a range check from a reduction.
var smallOnCurveX = func() []*big.Int {
	var out []*big.Int
	for x := int64(1); len(out) < 12; x++ {
		if _, ok := secp.LiftX(big.NewInt(x)); ok {
			out = append(out, big.NewInt(x))
		}
	}
	return out
}()

// offCurveX are small x coordinates without a curve point.
var offCurveX = func() []*big.Int {
	var out []*big.Int
	for x := int64(0); len(out) < 8; x++ {
		if _, ok := secp.LiftX(big.NewInt(x)); !ok {
			out = append(out, big.NewInt(x))
		}
	}
	return out
}()

type xChoice struct {
	x    *big.Int
	kind string
}

// genX draws an x coordinate: of a real key, x >= p (reducing onto the curve
// or not), p-1.., off-curve, random.
func genX(t *rapid.T) xChoice {
	switch rapid.IntRange(0, 9).Draw(t, "xkind") {
	case 0, 1, 2:
		return xChoice{secp.BaseMul(genPriv().Draw(t, "dx")).X, "on-curve"}
	case 3:
		return xChoice{new(big.Int).Set(rapid.SampledFrom(smallOnCurveX).Draw(t, "smallx")), "on-curve"}
	case 4:
		// x0 + p with x0 on the curve
		return xChoice{new(big.Int).Add(rapid.SampledFrom(smallOnCurveX).Draw(t, "smallx"), secp.P), "x>=p"}
	case 5:
		v := add(secp.P, int64(rapid.IntRange(0, 1<<20).Draw(t, "off")))
		if rapid.Bool().Draw(t, "max") {
			v = new(big.Int).Sub(max256, big.NewInt(int64(rapid.IntRange(0, 3).Draw(t, "below"))))
		}
		return xChoice{v, "x>=p"}
	case 6:
		return xChoice{add(secp.P, -int64(rapid.IntRange(1, 64).Draw(t, "below"))), "near-p"}
	case 7:
		return xChoice{new(big.Int).Set(rapid.SampledFrom(offCurveX).Draw(t, "offx")), "off-curve"}
	default:
		return xChoice{fromBytes(rapid.SliceOfN(rapid.Byte(), 32, 32).Draw(t, "x")), "random"}
	}
}

var recPub = ev.New("C11", "pubkey-parse",
	"byte strings as public keys: format byte {02,03,04,06,07 and 00,01,05,08,0x82..}, x from {real key, small on-curve, x0+p with x0 on the "+
		"curve, p..p+2^20, 2^256-1.., p-64..p-1, off-curve, random}, y from {right root, other root, y+p, y+-1, 0, random}, length "+
		"{33,65,32,34,64,66,0,1}; oracle: btcec.ParsePubKey accepts <=> reference SEC1 parser (coordinates < p, on curve, hybrid parity) "+
		"with the same point; serialisations equal the reference and round-trip; schnorr.ParsePubKey(32 bytes) <=> lift_x with even y; "+
		"non-trivial = anything but a well-formed compressed/uncompressed key; distinct by bytes",
	"compressed-ok", "uncompressed-ok", "hybrid-ok", "hybrid-wrong-parity", "x>=p", "y>=p", "off-curve", "bad-format", "bad-length", "xonly-ok", "xonly-reject")

func TestPubKeyParse(t *testing.T) {
	calibrate(t)
	rapid.Check(t, func(t *rapid.T) {
		xc := genX(t)
		x := xc.x
		lifted, onCurve := secp.LiftX(new(big.Int).Mod(x, secp.P)) // root for the reduced x (if any)

		format := byte(2 + rapid.IntRange(0, 1).Draw(t, "parity"))
		switch rapid.IntRange(0, 9).Draw(t, "fmtkind") {
		case 0, 1, 2:
			format = 4
		case 3, 4:
			format = 6 + byte(rapid.IntRange(0, 1).Draw(t, "hparity"))
		case 5:
			format = rapid.SampledFrom([]byte{0, 1, 5, 8, 9, 0x82, 0x83, 0x84, 0x86, 0xff}).Draw(t, "badfmt")
		}

		// y for the long formats
		var y *big.Int
		ykind := "right"
		if onCurve {
			y = new(big.Int).Set(lifted.Y)
			if rapid.Bool().Draw(t, "oddroot") {
				y.Sub(secp.P, y)
			}
		} else {
			y = fromBytes(rapid.SliceOfN(rapid.Byte(), 32, 32).Draw(t, "yrand"))
			ykind = "random"
		}
		if rapid.IntRange(0, 5).Draw(t, "ydev") == 0 {
			switch rapid.IntRange(0, 4).Draw(t, "ydevkind") {
			case 0:
				y, ykind = add(y, 1), "y+1"
			case 1:
				if y.Sign() > 0 {
					y, ykind = add(y, -1), "y-1"
				}
			case 2:
				if yp := new(big.Int).Add(y, secp.P); yp.Cmp(two256) < 0 {
					y, ykind = yp, "y+p"
				} else {
					y, ykind = new(big.Int).Set(secp.P), "y=p"
				}
			case 3:
				y, ykind = big.NewInt(0), "y=0"
			case 4:
				y, ykind = fromBytes(rapid.SliceOfN(rapid.Byte(), 32, 32).Draw(t, "yrand2")), "random"
			}
		}
		if y.Cmp(two256) >= 0 {
			y = max256
		}

		var raw []byte
		if format == 4 || format == 6 || format == 7 || (format != 2 && format != 3 && rapid.Bool().Draw(t, "longbad")) {
			raw = cat([]byte{format}, b32(x), b32(y))
		} else {
			raw = cat([]byte{format}, b32(x))
		}
		lenDev := rapid.IntRange(0, 11).Draw(t, "lendev")
		switch lenDev {
		case 0:
			raw = raw[:len(raw)-1]
		case 1:
			raw = append(raw, rapid.Byte().Draw(t, "extra"))
		case 2:
			raw = raw[:rapid.SampledFrom([]int{0, 1, 32, 33}).Draw(t, "cut")]
		}

		wantPt, wantFmt, wantOK := secp.ParsePubKey(raw)
		cls := ""
		switch {
		case len(raw) != 33 && len(raw) != 65:
			cls = "bad-length"
		case wantOK && wantFmt <= 3:
			cls = "compressed-ok"
		case wantOK && wantFmt == 4:
			cls = "uncompressed-ok"
		case wantOK:
			cls = "hybrid-ok"
		case raw[0] < 2 || raw[0] == 5 || raw[0] > 7 || (len(raw) == 33) != (raw[0] <= 3):
			cls = "bad-format"
		case x.Cmp(secp.P) >= 0:
			cls = "x>=p"
		case len(raw) == 65 && y.Cmp(secp.P) >= 0:
			cls = "y>=p"
		case len(raw) == 65 && raw[0] >= 6 && secp.OnCurve(x, y):
			cls = "hybrid-wrong-parity"
		default:
			cls = "off-curve"
		}
		recPub.Case(cls != "compressed-ok" && cls != "uncompressed-ok", cls, ev.Hash(raw), func() any {
			return fmt.Sprintf("%x (x %s, y %s)", raw, xc.kind, ykind)
		})

		checkPubKeyBytes(t, raw)
		_ = wantPt

		// x-only form of the same x
		xo := b32(x)
		if lenDev == 3 {
			xo = append(xo, 0)
		} else if lenDev == 4 {
			xo = xo[:31]
		}
		if ok := checkXOnlyBytes(t, xo); ok {
			recPub.Count("xonly-ok", 1)
		} else {
			recPub.Count("xonly-reject", 1)
		}
	})
}

// checkPubKeyBytes is the differential oracle of btcec.ParsePubKey for one
// byte string (shared with the native fuzz target).
func checkPubKeyBytes(t fataler, raw []byte) {
	in := append([]byte(nil), raw...)
	key, err := btcec.ParsePubKey(in)
	if !bytes.Equal(in, raw) {
		t.Fatalf("ParsePubKey modified its input %x", raw)
	}
	want, _, wantOK := secp.ParsePubKey(raw)
	if (err == nil) != wantOK {
		t.Fatalf("ParsePubKey(%x): err=%v, reference SEC1 parser accepts=%v", raw, err, wantOK)
	}
	if btcec.IsCompressedPubKey(raw) != (len(raw) == 33 && (raw[0] == 2 || raw[0] == 3)) {
		t.Fatalf("IsCompressedPubKey(%x) = %v", raw, btcec.IsCompressedPubKey(raw))
	}
	if err != nil {
		return
	}
	if !key.IsOnCurve() {
		t.Fatalf("ParsePubKey(%x) returned a key that is not on the curve", raw)
	}
	comp, uncomp := key.SerializeCompressed(), key.SerializeUncompressed()
	if !bytes.Equal(comp, secp.SerializeCompressed(want)) || !bytes.Equal(uncomp, secp.SerializeUncompressed(want)) {
		t.Fatalf("ParsePubKey(%x) = %x, reference point %x", raw, uncomp, secp.SerializeUncompressed(want))
	}
	for _, ser := range [][]byte{comp, uncomp} {
		back, err := btcec.ParsePubKey(ser)
		if err != nil || !back.IsEqual(key) {
			t.Fatalf("serialisation %x of the key parsed from %x does not round-trip: %v", ser, raw, err)
		}
	}
	if raw[0] <= 4 {
		// compressed/uncompressed inputs are their own canonical form
		if raw[0] == 4 && !bytes.Equal(uncomp, raw) || raw[0] <= 3 && !bytes.Equal(comp, raw) {
			t.Fatalf("re-serialising the key parsed from %x gives %x / %x", raw, comp, uncomp)
		}
	}
	if xb := schnorr.SerializePubKey(key); !bytes.Equal(xb, b32(want.X)) {
		t.Fatalf("schnorr.SerializePubKey of %x = %x, want x coordinate", raw, xb)
	}
	sk := btcec.ToSerialized(key)
	if back, err := sk.ToPubKey(); err != nil || !back.IsEqual(key) {
		t.Fatalf("SerializedKey round trip of %x failed: %v", raw, err)
	}
}

// checkXOnlyBytes is the oracle of schnorr.ParsePubKey: accept <=> 32 bytes,
// x < p, x on the curve; the result is the even-y point.
func checkXOnlyBytes(t fataler, xo []byte) bool {
	key, err := schnorr.ParsePubKey(xo)
	var want secp.Point
	wantOK := false
	if len(xo) == 32 {
		want, wantOK = secp.LiftX(fromBytes(xo))
	}
	if (err == nil) != wantOK {
		t.Fatalf("schnorr.ParsePubKey(%x): err=%v, reference lift_x ok=%v", xo, err, wantOK)
	}
	if err != nil {
		return false
	}
	if !secp.Equal(pointOf(key), want) {
		t.Fatalf("schnorr.ParsePubKey(%x) = %x, lift_x gives (%x,%x)", xo, key.SerializeUncompressed(), want.X, want.Y)
	}
	if !bytes.Equal(schnorr.SerializePubKey(key), xo) {
		t.Fatalf("schnorr.SerializePubKey(ParsePubKey(%x)) = %x", xo, schnorr.SerializePubKey(key))
	}
	return true
}

// ---------------------------------------------------------------------------
// key agreement

var recECDH = ev.New("C11", "ecdh",
	"private keys a,b from {1,2,3,n-1,n-2,n/2,random}; oracle: GenerateSharedSecret(a,B) = GenerateSharedSecret(b,A) = x((a*b)*G) of the "+
		"reference, also for B parsed from compressed/uncompressed/hybrid bytes; non-trivial = a boundary key or a=b; distinct by (a,b)",
	"boundary", "random", "equal-keys")

func TestECDH(t *testing.T) {
	calibrate(t)
	rapid.Check(t, func(t *rapid.T) {
		a := genPriv().Draw(t, "a")
		b := genPriv().Draw(t, "b")
		if rapid.IntRange(0, 15).Draw(t, "same") == 0 {
			b = new(big.Int).Set(a)
		}
		small := func(v *big.Int) bool {
			return v.BitLen() <= 2 || new(big.Int).Sub(secp.N, v).BitLen() <= 2 || new(big.Int).Sub(v, secp.HalfN).BitLen() <= 1
		}
		cls := "random"
		switch {
		case a.Cmp(b) == 0:
			cls = "equal-keys"
		case small(a) || small(b):
			cls = "boundary"
		}
		recECDH.Case(cls != "random", cls, ev.Hash(b32(a), b32(b)), func() any { return fmt.Sprintf("a=%x b=%x", a, b) })

		pa, pb := privFromBig(a), privFromBig(b)
		A := secp.BaseMul(a)
		B := secp.BaseMul(b)
		keyB, err := btcec.ParsePubKey(encodeKey(t, B))
		if err != nil {
			t.Fatalf("ParsePubKey of a valid key failed: %v", err)
		}
		want := b32(secp.ECDHX(a, B))
		if w2 := b32(secp.ECDHX(b, A)); !bytes.Equal(want, w2) {
			t.Fatalf("VERIF-INFRA: reference ECDH is not symmetric")
		}
		s1 := btcec.GenerateSharedSecret(pa, keyB)
		s2 := btcec.GenerateSharedSecret(pb, pa.PubKey())
		s3 := btcec.GenerateSharedSecret(pa, pb.PubKey())
		if !bytes.Equal(s1, want) || !bytes.Equal(s2, want) || !bytes.Equal(s3, want) {
			t.Fatalf("ECDH a=%x b=%x: (a,B)=%x (b,A)=%x (a,b.PubKey)=%x, reference x(a*b*G)=%x", a, b, s1, s2, s3, want)
		}
		if ser := pa.Serialize(); !bytes.Equal(ser, b32(a)) {
			t.Fatalf("PrivateKey.Serialize() = %x for %x", ser, a)
		}
	})
}
