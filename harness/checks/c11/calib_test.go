package c11

import (
	"bytes"
	"encoding/csv"
	"encoding/hex"
	"encoding/json"
	"errors"
	"fmt"
	"math/big"
	"os"
	"path/filepath"
	"strings"
	"sync"
	"testing"

	"verif/internal/model/secp"
)

// Calibration of the reference model on the specification vectors copied into
// /verif/corpus/c11 (BIP340 CSV rows, BIP327 JSON files, BIP66 examples). A
// disagreement is a harness defect, reported as VERIF-INFRA (exit 2), never
// as a violation. Every test of this package runs the calibration first.

var (
	calibOnce sync.Once
	calibErr  error
)

type fataler interface {
	Fatalf(format string, args ...any)
}

func calibrate(t fataler) {
	calibOnce.Do(func() { calibErr = runCalibration() })
	if calibErr != nil {
		t.Fatalf("VERIF-INFRA: reference model disagrees with a specification vector: %v", calibErr)
	}
}

func TestCalibration(t *testing.T) { calibrate(t) }

func corpusDir() string {
	d := os.Getenv("VERIF_CORPUS")
	if d == "" {
		d = "/verif/corpus"
	}
	return filepath.Join(d, "c11")
}

func unhex(s string) []byte {
	b, err := hex.DecodeString(s)
	if err != nil {
		panic("VERIF-INFRA: bad hex in corpus: " + s)
	}
	return b
}

func loadJSON(name string, v any) error {
	raw, err := os.ReadFile(filepath.Join(corpusDir(), name))
	if err != nil {
		return err
	}
	return json.Unmarshal(raw, v)
}

func pick(all []string, idx []int) [][]byte {
	out := make([][]byte, len(idx))
	for i, j := range idx {
		out[i] = unhex(all[j])
	}
	return out
}

func mkTweaks(all []string, idx []int, xonly []bool) []secp.MusigTweak {
	var out []secp.MusigTweak
	for i, j := range idx {
		out = append(out, secp.MusigTweak{Tweak: unhex(all[j]), XOnly: xonly[i]})
	}
	return out
}

type vecErr struct {
	Type    string `json:"type"`
	Contrib string `json:"contrib"`
	Message string `json:"message"`
}

func errMatches(err error, want vecErr) bool {
	if err == nil {
		return false
	}
	switch {
	case want.Type == "invalid_contribution" && want.Contrib == "pubkey":
		return errors.Is(err, secp.ErrMusigPubKey)
	case want.Type == "invalid_contribution" && want.Contrib == "pubnonce":
		return errors.Is(err, secp.ErrMusigPubNonce)
	case want.Type == "invalid_contribution" && want.Contrib == "aggnonce":
		return errors.Is(err, secp.ErrMusigAggNonce)
	case want.Type == "invalid_contribution":
		return errors.Is(err, secp.ErrMusigPSig)
	case strings.Contains(want.Message, "less than n"):
		return errors.Is(err, secp.ErrMusigTweak)
	case strings.Contains(want.Message, "infinity"):
		return errors.Is(err, secp.ErrMusigInfinity)
	case strings.Contains(want.Message, "included in the list"):
		return errors.Is(err, secp.ErrMusigNotSigner)
	case strings.Contains(want.Message, "secnonce"):
		return errors.Is(err, secp.ErrMusigSecNonce)
	}
	return false
}

func runCalibration() error {
	if !secp.SelfCheck() {
		return errors.New("curve constants self-check")
	}
	if !secp.FastSelfCheck() {
		return errors.New("fixed-base multiplication differs from double-and-add")
	}
	for _, f := range []func() error{calibBIP340, calibKeySortAgg, calibNonceAgg, calibTweak, calibSignVerify, calibSigAgg, calibDER, calibRecover} {
		if err := f(); err != nil {
			return err
		}
	}
	return nil
}

// readBIP340 returns the data rows of the BIP340 vector file.
func readBIP340() ([][]string, error) {
	f, err := os.Open(filepath.Join(corpusDir(), "bip340_vectors.csv"))
	if err != nil {
		return nil, err
	}
	defer f.Close()
	rows, err := csv.NewReader(f).ReadAll()
	if err != nil {
		return nil, err
	}
	if len(rows) < 10 {
		return nil, fmt.Errorf("bip340 csv: only %d rows", len(rows))
	}
	return rows[1:], nil
}

func calibBIP340() error {
	rows, err := readBIP340()
	if err != nil {
		return err
	}
	signed := 0
	for _, r := range rows {
		sk, pk, aux, msg, sig, want, rfc := r[1], unhex(r[2]), r[3], unhex(r[4]), unhex(r[5]), r[6] == "TRUE", r[7] == "1"
		if got := secp.VerifySchnorr(pk, msg, sig); got != want {
			return fmt.Errorf("bip340 row %s: VerifySchnorr=%v, vector says %v", r[0], got, want)
		}
		if sk == "" {
			continue
		}
		d := fromBytes(unhex(sk))
		if !bytes.Equal(b32(secp.BaseMul(d).X), pk) {
			return fmt.Errorf("bip340 row %s: pubkey of secret key differs", r[0])
		}
		if rfc {
			continue // btcd-specific RFC6979 variant, only verified above
		}
		got, ok := secp.SignSchnorr(unhex(sk), msg, unhex(aux))
		if !ok || !bytes.Equal(got, sig) {
			return fmt.Errorf("bip340 row %s: SignSchnorr=%x, vector %x", r[0], got, sig)
		}
		signed++
	}
	if signed < 4 {
		return fmt.Errorf("bip340: only %d signing vectors", signed)
	}
	return nil
}

func calibKeySortAgg() error {
	var ks struct {
		Pubkeys []string `json:"pubkeys"`
		Sorted  []string `json:"sorted_pubkeys"`
	}
	if err := loadJSON("key_sort_vectors.json", &ks); err != nil {
		return err
	}
	var all []int
	for i := range ks.Pubkeys {
		all = append(all, i)
	}
	got := secp.MusigKeySort(pick(ks.Pubkeys, all))
	for i := range got {
		if !bytes.Equal(got[i], unhex(ks.Sorted[i])) {
			return fmt.Errorf("key_sort: position %d", i)
		}
	}
	var ka struct {
		Pubkeys []string `json:"pubkeys"`
		Tweaks  []string `json:"tweaks"`
		Valid   []struct {
			KeyIndices []int  `json:"key_indices"`
			Expected   string `json:"expected"`
		} `json:"valid_test_cases"`
		Errors []struct {
			KeyIndices   []int  `json:"key_indices"`
			TweakIndices []int  `json:"tweak_indices"`
			IsXOnly      []bool `json:"is_xonly"`
			Error        vecErr `json:"error"`
		} `json:"error_test_cases"`
	}
	if err := loadJSON("key_agg_vectors.json", &ka); err != nil {
		return err
	}
	if len(ka.Valid) < 4 || len(ka.Errors) < 5 {
		return errors.New("key_agg: vector file truncated")
	}
	for i, c := range ka.Valid {
		ctx, err := secp.MusigKeyAgg(pick(ka.Pubkeys, c.KeyIndices))
		if err != nil || !bytes.Equal(b32(ctx.Q.X), unhex(c.Expected)) {
			return fmt.Errorf("key_agg valid %d: %v", i, err)
		}
	}
	for i, c := range ka.Errors {
		_, err := secp.MusigKeyAggTweaked(pick(ka.Pubkeys, c.KeyIndices), mkTweaks(ka.Tweaks, c.TweakIndices, c.IsXOnly))
		if !errMatches(err, c.Error) {
			return fmt.Errorf("key_agg error case %d: got %v", i, err)
		}
	}
	return nil
}

func calibNonceAgg() error {
	var na struct {
		PNonces []string `json:"pnonces"`
		Valid   []struct {
			Idx      []int  `json:"pnonce_indices"`
			Expected string `json:"expected"`
		} `json:"valid_test_cases"`
		Errors []struct {
			Idx   []int  `json:"pnonce_indices"`
			Error vecErr `json:"error"`
		} `json:"error_test_cases"`
	}
	if err := loadJSON("nonce_agg_vectors.json", &na); err != nil {
		return err
	}
	if len(na.Valid) < 2 || len(na.Errors) < 3 {
		return errors.New("nonce_agg: vector file truncated")
	}
	for i, c := range na.Valid {
		got, err := secp.MusigNonceAgg(pick(na.PNonces, c.Idx))
		if err != nil || !bytes.Equal(got, unhex(c.Expected)) {
			return fmt.Errorf("nonce_agg valid %d: %x %v", i, got, err)
		}
	}
	for i, c := range na.Errors {
		if _, err := secp.MusigNonceAgg(pick(na.PNonces, c.Idx)); !errMatches(err, c.Error) {
			return fmt.Errorf("nonce_agg error %d: %v", i, err)
		}
	}
	return nil
}

func calibTweak() error {
	var tv struct {
		SK       string   `json:"sk"`
		Pubkeys  []string `json:"pubkeys"`
		SecNonce string   `json:"secnonce"`
		PNonces  []string `json:"pnonces"`
		AggNonce string   `json:"aggnonce"`
		Tweaks   []string `json:"tweaks"`
		Msg      string   `json:"msg"`
		Valid    []struct {
			KeyIndices   []int  `json:"key_indices"`
			NonceIndices []int  `json:"nonce_indices"`
			TweakIndices []int  `json:"tweak_indices"`
			IsXOnly      []bool `json:"is_xonly"`
			SignerIndex  int    `json:"signer_index"`
			Expected     string `json:"expected"`
		} `json:"valid_test_cases"`
		Errors []struct {
			KeyIndices   []int  `json:"key_indices"`
			TweakIndices []int  `json:"tweak_indices"`
			IsXOnly      []bool `json:"is_xonly"`
			Error        vecErr `json:"error"`
		} `json:"error_test_cases"`
	}
	if err := loadJSON("tweak_vectors.json", &tv); err != nil {
		return err
	}
	if len(tv.Valid) < 5 {
		return errors.New("tweak: vector file truncated")
	}
	for i, c := range tv.Valid {
		pns := pick(tv.PNonces, c.NonceIndices)
		agg, err := secp.MusigNonceAgg(pns)
		if err != nil || !bytes.Equal(agg, unhex(tv.AggNonce)) {
			return fmt.Errorf("tweak valid %d: aggnonce", i)
		}
		sess := secp.MusigSession{AggNonce: agg, PKs: pick(tv.Pubkeys, c.KeyIndices), Tweaks: mkTweaks(tv.Tweaks, c.TweakIndices, c.IsXOnly), Msg: unhex(tv.Msg)}
		ps, err := secp.MusigPartialSign(unhex(tv.SecNonce), unhex(tv.SK), sess)
		if err != nil || !bytes.Equal(ps, unhex(c.Expected)) {
			return fmt.Errorf("tweak valid %d: psig %x %v", i, ps, err)
		}
		ok, err := secp.MusigPartialSigVerify(ps, pns[c.SignerIndex], sess.PKs[c.SignerIndex], sess)
		if err != nil || !ok {
			return fmt.Errorf("tweak valid %d: verify %v %v", i, ok, err)
		}
	}
	for i, c := range tv.Errors {
		_, err := secp.MusigKeyAggTweaked(pick(tv.Pubkeys, c.KeyIndices), mkTweaks(tv.Tweaks, c.TweakIndices, c.IsXOnly))
		if !errMatches(err, c.Error) {
			return fmt.Errorf("tweak error %d: %v", i, err)
		}
	}
	return nil
}

func calibSignVerify() error {
	var sv struct {
		SK        string   `json:"sk"`
		Pubkeys   []string `json:"pubkeys"`
		SecNonces []string `json:"secnonces"`
		PNonces   []string `json:"pnonces"`
		AggNonces []string `json:"aggnonces"`
		Msgs      []string `json:"msgs"`
		Valid     []struct {
			KeyIndices   []int  `json:"key_indices"`
			NonceIndices []int  `json:"nonce_indices"`
			AggNonceIdx  int    `json:"aggnonce_index"`
			MsgIndex     int    `json:"msg_index"`
			SignerIndex  int    `json:"signer_index"`
			Expected     string `json:"expected"`
		} `json:"valid_test_cases"`
		SignErrors []struct {
			KeyIndices  []int  `json:"key_indices"`
			AggNonceIdx int    `json:"aggnonce_index"`
			MsgIndex    int    `json:"msg_index"`
			SecNonceIdx int    `json:"secnonce_index"`
			Error       vecErr `json:"error"`
		} `json:"sign_error_test_cases"`
		VerifyFail []struct {
			Sig          string `json:"sig"`
			KeyIndices   []int  `json:"key_indices"`
			NonceIndices []int  `json:"nonce_indices"`
			MsgIndex     int    `json:"msg_index"`
			SignerIndex  int    `json:"signer_index"`
		} `json:"verify_fail_test_cases"`
		VerifyErrors []struct {
			Sig          string `json:"sig"`
			KeyIndices   []int  `json:"key_indices"`
			NonceIndices []int  `json:"nonce_indices"`
			MsgIndex     int    `json:"msg_index"`
			SignerIndex  int    `json:"signer_index"`
			Error        vecErr `json:"error"`
		} `json:"verify_error_test_cases"`
	}
	if err := loadJSON("sign_verify_vectors.json", &sv); err != nil {
		return err
	}
	if len(sv.Valid) < 4 || len(sv.SignErrors) < 6 || len(sv.VerifyFail) < 3 || len(sv.VerifyErrors) < 2 {
		return errors.New("sign_verify: vector file truncated")
	}
	for i, c := range sv.Valid {
		pns := pick(sv.PNonces, c.NonceIndices)
		agg, err := secp.MusigNonceAgg(pns)
		if err != nil || !bytes.Equal(agg, unhex(sv.AggNonces[c.AggNonceIdx])) {
			return fmt.Errorf("sign_verify valid %d: aggnonce %x %v", i, agg, err)
		}
		sess := secp.MusigSession{AggNonce: agg, PKs: pick(sv.Pubkeys, c.KeyIndices), Msg: unhex(sv.Msgs[c.MsgIndex])}
		ps, err := secp.MusigPartialSign(unhex(sv.SecNonces[0]), unhex(sv.SK), sess)
		if err != nil || !bytes.Equal(ps, unhex(c.Expected)) {
			return fmt.Errorf("sign_verify valid %d: psig %x %v", i, ps, err)
		}
		ok, err := secp.MusigPartialSigVerify(ps, pns[c.SignerIndex], sess.PKs[c.SignerIndex], sess)
		if err != nil || !ok {
			return fmt.Errorf("sign_verify valid %d: verify %v %v", i, ok, err)
		}
	}
	for i, c := range sv.SignErrors {
		sess := secp.MusigSession{AggNonce: unhex(sv.AggNonces[c.AggNonceIdx]), PKs: pick(sv.Pubkeys, c.KeyIndices), Msg: unhex(sv.Msgs[c.MsgIndex])}
		_, err := secp.MusigPartialSign(unhex(sv.SecNonces[c.SecNonceIdx]), unhex(sv.SK), sess)
		if !errMatches(err, c.Error) {
			return fmt.Errorf("sign_verify sign error %d: %v", i, err)
		}
	}
	for i, c := range sv.VerifyFail {
		pns := pick(sv.PNonces, c.NonceIndices)
		agg, err := secp.MusigNonceAgg(pns)
		if err != nil {
			return fmt.Errorf("sign_verify verify-fail %d: %v", i, err)
		}
		sess := secp.MusigSession{AggNonce: agg, PKs: pick(sv.Pubkeys, c.KeyIndices), Msg: unhex(sv.Msgs[c.MsgIndex])}
		ok, err := secp.MusigPartialSigVerify(unhex(c.Sig), pns[c.SignerIndex], sess.PKs[c.SignerIndex], sess)
		if ok || err != nil {
			return fmt.Errorf("sign_verify verify-fail %d: %v %v", i, ok, err)
		}
	}
	for i, c := range sv.VerifyErrors {
		pns := pick(sv.PNonces, c.NonceIndices)
		pks := pick(sv.Pubkeys, c.KeyIndices)
		// the aggregate nonce cannot be computed from an invalid pubnonce; the
		// BIP's test uses the valid nonces' aggregate for the session.
		agg := unhex(sv.AggNonces[0])
		sess := secp.MusigSession{AggNonce: agg, PKs: pks, Msg: unhex(sv.Msgs[c.MsgIndex])}
		_, err := secp.MusigPartialSigVerify(unhex(c.Sig), pns[c.SignerIndex], pks[c.SignerIndex], sess)
		if !errMatches(err, c.Error) {
			return fmt.Errorf("sign_verify verify error %d: %v", i, err)
		}
	}
	return nil
}

func calibSigAgg() error {
	var sa struct {
		Pubkeys []string `json:"pubkeys"`
		PNonces []string `json:"pnonces"`
		Tweaks  []string `json:"tweaks"`
		PSigs   []string `json:"psigs"`
		Msg     string   `json:"msg"`
		Valid   []struct {
			AggNonce     string `json:"aggnonce"`
			NonceIndices []int  `json:"nonce_indices"`
			KeyIndices   []int  `json:"key_indices"`
			TweakIndices []int  `json:"tweak_indices"`
			IsXOnly      []bool `json:"is_xonly"`
			PSigIndices  []int  `json:"psig_indices"`
			Expected     string `json:"expected"`
		} `json:"valid_test_cases"`
		Errors []struct {
			AggNonce     string `json:"aggnonce"`
			KeyIndices   []int  `json:"key_indices"`
			TweakIndices []int  `json:"tweak_indices"`
			IsXOnly      []bool `json:"is_xonly"`
			PSigIndices  []int  `json:"psig_indices"`
			Error        vecErr `json:"error"`
		} `json:"error_test_cases"`
	}
	if err := loadJSON("sig_agg_vectors.json", &sa); err != nil {
		return err
	}
	if len(sa.Valid) < 4 || len(sa.Errors) < 1 {
		return errors.New("sig_agg: vector file truncated")
	}
	for i, c := range sa.Valid {
		agg, err := secp.MusigNonceAgg(pick(sa.PNonces, c.NonceIndices))
		if err != nil || !bytes.Equal(agg, unhex(c.AggNonce)) {
			return fmt.Errorf("sig_agg valid %d: aggnonce", i)
		}
		sess := secp.MusigSession{AggNonce: agg, PKs: pick(sa.Pubkeys, c.KeyIndices), Tweaks: mkTweaks(sa.Tweaks, c.TweakIndices, c.IsXOnly), Msg: unhex(sa.Msg)}
		sig, err := secp.MusigPartialSigAgg(pick(sa.PSigs, c.PSigIndices), sess)
		if err != nil || !bytes.Equal(sig, unhex(c.Expected)) {
			return fmt.Errorf("sig_agg valid %d: %x %v", i, sig, err)
		}
		v, _ := sess.Values()
		if !secp.VerifySchnorr(b32(v.Ctx.Q.X), sess.Msg, sig) {
			return fmt.Errorf("sig_agg valid %d: aggregate signature does not verify", i)
		}
	}
	for i, c := range sa.Errors {
		sess := secp.MusigSession{AggNonce: unhex(c.AggNonce), PKs: pick(sa.Pubkeys, c.KeyIndices), Tweaks: mkTweaks(sa.Tweaks, c.TweakIndices, c.IsXOnly), Msg: unhex(sa.Msg)}
		if _, err := secp.MusigPartialSigAgg(pick(sa.PSigs, c.PSigIndices), sess); !errMatches(err, c.Error) {
			return fmt.Errorf("sig_agg error %d: %v", i, err)
		}
	}
	return nil
}

// calibDER checks the BIP66 transcription on literal examples: the signature
// of the first ever Bitcoin payment (block 170) and hand-made violations of
// each BIP66 rule.
func calibDER() error {
	good := unhex("304402204e45e16932b8af514961a1d3a1a25fdf3f4f7732e9d624c6c61548ab5fb8cd410220181522ec8eca07de4860a4acdd12909d831cc56cbbac4622082221a8768d1d09")
	if !secp.IsStrictDER(good) {
		return errors.New("der: block-170 signature rejected")
	}
	r, s, ok := secp.ParseStrictDER(good)
	if !ok || !bytes.Equal(secp.EncodeDER(r, s), good) {
		return errors.New("der: decode/encode of the block-170 signature")
	}
	if r2, s2, ok := secp.ParseTLV(good); !ok || r2.Cmp(r) != 0 || s2.Cmp(s) != 0 {
		return errors.New("der: ParseTLV differs on a canonical signature")
	}
	bad := map[string]string{
		"too short":          "30050201010201",
		"wrong compound tag": "3106020101020101",
		"length too long":    "3007020101020101",
		"length too short":   "300502010102010100",
		"trailing byte":      "300602010102010100",
		"R not integer":      "3006030101020101",
		"R zero length":      "30060200020201ff",
		"R negative":         "3006020180020101",
		"R padded":           "300702020001020101",
		"S not integer":      "3006020101030101",
		"S zero length":      "3006020200800200",
		"S negative":         "3006020101020180",
		"S padded":           "300702010102020001",
		"long form length":   "308106020101020101",
	}
	for name, h := range bad {
		if secp.IsStrictDER(unhex(h)) {
			return fmt.Errorf("der: %q accepted by the BIP66 predicate", name)
		}
	}
	for name, h := range map[string]string{"minimal": "3006020101020101", "padded because high bit": "3008020200800202008f"} {
		if !secp.IsStrictDER(unhex(h)) {
			return fmt.Errorf("der: %q rejected by the BIP66 predicate", name)
		}
	}
	// 73-byte limit (with hash type): two 33-byte integers = 72 bytes without.
	big33 := append([]byte{0}, bytes.Repeat([]byte{0xff}, 32)...)
	max := cat([]byte{0x30, 70, 0x02, 33}, big33, []byte{0x02, 33}, big33)
	if len(max) != 72 || !secp.IsStrictDER(max) {
		return errors.New("der: 72-byte signature rejected")
	}
	if _, _, ok := secp.ParseStrictDER(max); ok {
		return errors.New("der: r = 2^256-1 accepted by ParseStrictDER")
	}
	return nil
}

// calibRecover checks RecoverECDSA against VerifyECDSA/SignECDSA of the
// (separately calibrated) base model.
func calibRecover() error {
	d := big.NewInt(0xC0FFEE)
	q := secp.BaseMul(d)
	h := secp.TaggedHash("calib", []byte("recover"))
	r, s, ok := secp.SignECDSA(d, h, big.NewInt(0xBADC0DE))
	if !ok || !secp.VerifyECDSA(q, h, r, s) {
		return errors.New("recover: sign/verify")
	}
	hits := 0
	for id := 0; id < 4; id++ {
		c, ok := secp.RecoverECDSA(h, r, s, id)
		if !ok {
			continue
		}
		if !secp.VerifyECDSA(c, h, r, s) {
			return fmt.Errorf("recover: candidate %d does not verify", id)
		}
		if secp.Equal(c, q) {
			hits++
		}
	}
	if hits != 1 {
		return fmt.Errorf("recover: %d candidates equal the signer key", hits)
	}
	return nil
}
