package c11

import (
	"bytes"
	"fmt"
	"math/big"
	"testing"

	"github.com/btcsuite/btcd/btcec/v2"
	"github.com/btcsuite/btcd/btcec/v2/schnorr"
	"pgregory.net/rapid"

	"verif/internal/ev"
	"verif/internal/model/secp"
)

// refSchnorrRaw signs with explicit nonce k and optional omission of the two
// BIP340 negations (so that "R has odd y" / "P has odd y" signatures, which
// must be rejected, can be produced on purpose).
func refSchnorrRaw(d, k *big.Int, msg []byte, negD, negK bool) (sig []byte, px []byte) {
	P := secp.BaseMul(d)
	R := secp.BaseMul(k)
	dd, kk := new(big.Int).Set(d), new(big.Int).Set(k)
	if negD && P.Y.Bit(0) == 1 {
		dd.Sub(secp.N, dd)
	}
	if negK && R.Y.Bit(0) == 1 {
		kk.Sub(secp.N, kk)
	}
	px = b32(P.X)
	e := fromBytes(secp.TaggedHash("BIP0340/challenge", b32(R.X), px, msg))
	e.Mod(e, secp.N)
	s := new(big.Int).Mul(e, dd)
	s.Add(s, kk)
	s.Mod(s, secp.N)
	return cat(b32(R.X), b32(s)), px
}

var recSchnorrVerify = ev.New("C11", "schnorr-verify",
	"64-byte strings: reference BIP340 signatures (keys {1,2,3,n-1,..,random}, messages {0,ff..,n,random}, aux {0,ff..,random}) left intact "+
		"or with one change: r or s replaced by a boundary value (p-1,p,p+1,n-1,n,n+1,0,2^256-1), r+p / s+n when they fit 256 bits, bit flip, "+
		"s negated, message or key changed, nonce/key negation omitted (odd R / odd P), length 63/65; keys given as any-parity points and as "+
		"x-only bytes incl. x >= p and off-curve; oracle: ParseSignature accepts <=> len=64, r<p, s<n; Verify <=> BIP340 reference; "+
		"the same (r, s) assembled with NewSignature from field values in three internal representations (normalised, -(-r), (r-d)+d) serialises to the same bytes and gets the same verdict; "+
		"non-trivial = anything but an intact signature with random components; distinct by (sig,msg,key)",
	"valid", "r>=p", "s>=n", "r-boundary", "s-boundary", "mutated", "odd-R", "odd-P", "wrong-key", "bad-length")

func TestSchnorrVerify(t *testing.T) {
	calibrate(t)
	rapid.Check(t, func(t *rapid.T) {
		d := genPriv().Draw(t, "d")
		msg := genMsg().Draw(t, "msg")
		aux := gen32().Draw(t, "aux")
		sig, ok := secp.SignSchnorr(b32(d), msg, aux)
		if !ok {
			t.Skip("zero nonce")
		}
		P := secp.BaseMul(d)
		pkx := b32(P.X)
		cls := "valid"
		r, s := fromBytes(sig[:32]), fromBytes(sig[32:])
		switch rapid.IntRange(0, 19).Draw(t, "mut") {
		case 0:
			// r + p (same field element if the parser reduced instead of rejecting)
			if v := new(big.Int).Add(r, secp.P); v.Cmp(two256) < 0 {
				r = v
			} else {
				r = new(big.Int).Set(secp.P)
			}
			cls = "r>=p"
		case 1:
			r = add(secp.P, int64(rapid.IntRange(0, 2).Draw(t, "rp")))
			cls = "r>=p"
		case 2:
			if v := new(big.Int).Add(s, secp.N); v.Cmp(two256) < 0 {
				s = v
			} else {
				s = new(big.Int).Set(secp.N)
			}
			cls = "s>=n"
		case 3:
			s = add(secp.N, int64(rapid.IntRange(0, 2).Draw(t, "sn")))
			cls = "s>=n"
		case 4:
			r = rapid.SampledFrom([]*big.Int{bi(0), bi(1), add(secp.P, -1), add(secp.P, -2), add(secp.N, 0), max256}).Draw(t, "rb")
			cls = "r-boundary"
			if r.Cmp(secp.P) >= 0 {
				cls = "r>=p"
			}
		case 5:
			s = rapid.SampledFrom([]*big.Int{bi(0), bi(1), add(secp.N, -1), add(secp.N, -2), secp.HalfN, max256, secp.P}).Draw(t, "sb")
			cls = "s-boundary"
			if s.Cmp(secp.N) >= 0 {
				cls = "s>=n"
			}
		case 6:
			i := rapid.IntRange(0, 63).Draw(t, "pos")
			sig2 := append([]byte(nil), sig...)
			sig2[i] ^= byte(1 << rapid.IntRange(0, 7).Draw(t, "bit"))
			r, s = fromBytes(sig2[:32]), fromBytes(sig2[32:])
			cls = "mutated"
		case 7:
			s = new(big.Int).Sub(secp.N, s)
			s.Mod(s, secp.N)
			cls = "mutated"
		case 8:
			m2 := append([]byte(nil), msg...)
			m2[rapid.IntRange(0, 31).Draw(t, "mbyte")] ^= byte(1 << rapid.IntRange(0, 7).Draw(t, "mbit"))
			msg = m2
			cls = "mutated"
		case 9:
			// message + n: BIP340 hashes the bytes, so unlike ECDSA this is a different message
			if v := new(big.Int).Add(fromBytes(msg), secp.N); v.Cmp(two256) < 0 {
				msg = b32(v)
				cls = "mutated"
			}
		case 10:
			k := genPriv().Draw(t, "k")
			sg, _ := refSchnorrRaw(d, k, msg, true, false)
			if secp.BaseMul(k).Y.Bit(0) == 1 {
				cls = "odd-R"
			}
			r, s = fromBytes(sg[:32]), fromBytes(sg[32:])
		case 11:
			k := genPriv().Draw(t, "k")
			sg, _ := refSchnorrRaw(d, k, msg, false, true)
			if P.Y.Bit(0) == 1 {
				cls = "odd-P"
			}
			r, s = fromBytes(sg[:32]), fromBytes(sg[32:])
		case 12:
			other := genPriv().Draw(t, "other")
			P = secp.BaseMul(other)
			pkx = b32(P.X)
			if other.Cmp(d) != 0 && new(big.Int).Add(other, d).Cmp(secp.N) != 0 {
				cls = "wrong-key"
			}
		}
		raw := cat(b32(r), b32(s))
		switch rapid.IntRange(0, 39).Draw(t, "lendev") {
		case 0:
			raw = raw[:63]
			cls = "bad-length"
		case 1:
			raw = append(raw, 0)
			cls = "bad-length"
		}
		// the key is handed over as a point of either parity (Verify must use x only)
		keyPt := P
		if rapid.Bool().Draw(t, "flipkey") {
			keyPt = secp.Neg(P)
		}
		keyBytes := encodeKey(t, keyPt)

		recSchnorrVerify.Case(cls != "valid" || isBoundary(d) || isBoundary(fromBytes(msg)), cls, ev.Hash(raw, msg, keyBytes), func() any {
			return fmt.Sprintf("sig=%x msg=%x key=%x", raw, msg, keyBytes)
		})
		checkSchnorrBytes(t, raw, msg, keyBytes, pkx, cls == "valid")
	})
}

// checkSchnorrBytes: parse oracle plus verification oracle for one signature
// string under a SEC1-encoded key whose x-only form is pkx.
func checkSchnorrBytes(t fataler, raw, msg, keyBytes, pkx []byte, labelValid bool) {
	in := append([]byte(nil), raw...)
	sg, err := schnorr.ParseSignature(in)
	if !bytes.Equal(in, raw) {
		t.Fatalf("schnorr.ParseSignature modified its input %x", raw)
	}
	wantParse := len(raw) == 64 && fromBytes(raw[:32]).Cmp(secp.P) < 0 && fromBytes(raw[32:]).Cmp(secp.N) < 0
	if (err == nil) != wantParse {
		t.Fatalf("schnorr.ParseSignature(%x): err=%v, BIP340 (len=64, r<p, s<n) says %v", raw, err, wantParse)
	}
	if err != nil {
		return
	}
	if ser := sg.Serialize(); !bytes.Equal(ser, raw) {
		t.Fatalf("schnorr Serialize(ParseSignature(%x)) = %x", raw, ser)
	}
	key, err := btcec.ParsePubKey(keyBytes)
	if err != nil {
		t.Fatalf("ParsePubKey(%x) of a valid key: %v", keyBytes, err)
	}
	want := secp.VerifySchnorr(pkx, msg, raw)
	if labelValid && !want {
		t.Fatalf("VERIF-INFRA: reference rejects its own BIP340 signature %x msg=%x pk=%x", raw, msg, pkx)
	}
	if got := sg.Verify(append([]byte(nil), msg...), key); got != want {
		t.Fatalf("schnorr Verify(sig=%x, msg=%x, key=%x) = %v, BIP340 reference = %v", raw, msg, keyBytes, got, want)
	}
	// the same (r, s) handed to the constructor as field values: a FieldVal that comes out of field
	// arithmetic is the same element whatever its internal (not yet normalised) representation
	var sv btcec.ModNScalar
	sv.SetByteSlice(raw[32:])
	for form := 0; form < 3; form++ {
		var rv, d, negD btcec.FieldVal
		rv.SetByteSlice(raw[:32])
		switch form {
		case 1:
			rv.Negate(1).Negate(2) // -(-r)
		case 2:
			d.SetByteSlice(msg) // (r - d) + d
			d.Normalize()
			negD.Set(&d).Negate(1)
			rv.Add(&negD).Normalize()
			rv.Add(&d)
		}
		built := schnorr.NewSignature(&rv, &sv)
		if ser := built.Serialize(); !bytes.Equal(ser, raw) {
			t.Fatalf("schnorr.NewSignature(r, s).Serialize() = %x for r||s = %x (r given in internal form %d: 0 normalised, 1 -(-r), 2 (r-d)+d)", ser, raw, form)
		}
		if !built.IsEqual(sg) {
			t.Fatalf("schnorr.NewSignature(r, s) differs from the parsed signature %x (r in internal form %d)", raw, form)
		}
		if got := built.Verify(msg, key); got != want {
			t.Fatalf("schnorr.NewSignature(r, s).Verify = %v, BIP340 reference %v (sig=%x msg=%x key=%x, r in internal form %d)", got, want, raw, msg, keyBytes, form)
		}
	}
	// the x-only parsed key must give the same verdict
	xk, err := schnorr.ParsePubKey(pkx)
	if err != nil {
		t.Fatalf("schnorr.ParsePubKey(%x) of a valid x: %v", pkx, err)
	}
	if got := sg.Verify(msg, xk); got != want {
		t.Fatalf("schnorr Verify under the x-only parsed key %x = %v, reference %v (sig=%x msg=%x)", pkx, got, want, raw, msg)
	}
}

var recSchnorrSign = ev.New("C11", "schnorr-sign",
	"private keys {1,2,3,n-1,n-2,n/2,random} (both parities of P) x messages {0,ff..,n,random} x options {default RFC6979, CustomNonce(aux) "+
		"with aux {0,ff..,random}, each with/without FastSign}; oracle: the signature verifies under btcd and under the BIP340 reference, "+
		"parses and re-serialises identically, signing is deterministic, and with CustomNonce equals the reference BIP340 Sign(sk,m,aux) "+
		"byte for byte; non-trivial = boundary key/message/aux or odd-y key; distinct by (key,msg,option,aux)",
	"rfc6979", "custom-nonce", "fast", "odd-P", "boundary-key")

func TestSchnorrSign(t *testing.T) {
	calibrate(t)
	rapid.Check(t, func(t *rapid.T) {
		d := genPriv().Draw(t, "d")
		msg := genMsg().Draw(t, "msg")
		custom := rapid.Bool().Draw(t, "custom")
		fast := rapid.IntRange(0, 3).Draw(t, "fast") == 0
		var aux [32]byte
		var opts []schnorr.SignOption
		cls := "rfc6979"
		if custom {
			copy(aux[:], gen32().Draw(t, "aux"))
			opts = append(opts, schnorr.CustomNonce(aux))
			cls = "custom-nonce"
		}
		if fast {
			opts = append(opts, schnorr.FastSign())
			recSchnorrSign.Count("fast", 1)
		}
		P := secp.BaseMul(d)
		if P.Y.Bit(0) == 1 {
			recSchnorrSign.Count("odd-P", 1)
		}
		bk := d.BitLen() <= 2 || new(big.Int).Sub(secp.N, d).BitLen() <= 2
		if bk {
			recSchnorrSign.Count("boundary-key", 1)
		}
		recSchnorrSign.Case(bk || P.Y.Bit(0) == 1 || isBoundary(fromBytes(msg)) || custom && (aux == [32]byte{} || aux[0] == 0xff && aux[31] == 0xff),
			cls, ev.Hash(b32(d), msg, aux[:], []byte{b2b(custom), b2b(fast)}), func() any {
				return fmt.Sprintf("d=%x msg=%x custom=%v aux=%x fast=%v", d, msg, custom, aux, fast)
			})

		priv := privFromBig(d)
		sg, err := schnorr.Sign(priv, append([]byte(nil), msg...), opts...)
		if err != nil {
			t.Fatalf("schnorr.Sign(d=%x, msg=%x, custom=%v aux=%x) failed: %v", d, msg, custom, aux, err)
		}
		raw := sg.Serialize()
		pkx := b32(P.X)
		if !sg.Verify(msg, priv.PubKey()) {
			t.Fatalf("schnorr.Sign(d=%x, msg=%x) = %x does not verify under btcd", d, msg, raw)
		}
		if !secp.VerifySchnorr(pkx, msg, raw) {
			t.Fatalf("schnorr.Sign(d=%x, msg=%x, custom=%v aux=%x) = %x violates the BIP340 reference verification", d, msg, custom, aux, raw)
		}
		back, err := schnorr.ParseSignature(raw)
		if err != nil || !back.IsEqual(sg) || !bytes.Equal(back.Serialize(), raw) {
			t.Fatalf("schnorr signature %x does not round-trip: %v", raw, err)
		}
		again, err := schnorr.Sign(priv, msg, opts...)
		if err != nil || !again.IsEqual(sg) {
			t.Fatalf("schnorr.Sign is not deterministic for d=%x msg=%x", d, msg)
		}
		if custom {
			want, ok := secp.SignSchnorr(b32(d), msg, aux[:])
			if !ok {
				t.Skip("reference: zero nonce")
			}
			if !bytes.Equal(raw, want) {
				t.Fatalf("schnorr.Sign(d=%x, msg=%x, CustomNonce(%x)) = %x, BIP340 reference Sign = %x", d, msg, aux, raw, want)
			}
		}
	})
}
