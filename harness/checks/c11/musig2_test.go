package c11

import (
	"bytes"
	"fmt"
	"math/big"
	"testing"

	"github.com/btcsuite/btcd/btcec/v2"
	"github.com/btcsuite/btcd/btcec/v2/schnorr"
	"github.com/btcsuite/btcd/btcec/v2/schnorr/musig2"
	"pgregory.net/rapid"

	"verif/internal/ev"
	"verif/internal/model/secp"
)

// ---------------------------------------------------------------------------
// signer sets

type signerSet struct {
	privs   []*big.Int // one per signer, duplicates allowed, in signing order
	pts     []secp.Point
	pkBytes [][]byte // reference compressed serialisation, same order
	sort    bool
	dup     bool // some key occurs twice
	allSame bool
	dup2nd  bool // the second distinct key occurs more than once
}

// refOrder is the key list the reference aggregates: KeySort first when the
// caller asks btcd to sort.
func (s signerSet) refOrder() [][]byte {
	if s.sort {
		return secp.MusigKeySort(s.pkBytes)
	}
	return s.pkBytes
}

func (s signerSet) btcdKeys() []*btcec.PublicKey {
	out := make([]*btcec.PublicKey, len(s.privs))
	for i, d := range s.privs {
		out[i] = privFromBig(d).PubKey()
	}
	return out
}

func genSigners(t *rapid.T, maxN int) signerSet {
	n := rapid.SampledFrom([]int{1, 2, 2, 2, 3, 3, 3, 4, 4, 5, 6, 7, 8}).Draw(t, "nsigners")
	if n > maxN {
		n = maxN
	}
	poolN := n
	if n > 1 && rapid.IntRange(0, 2).Draw(t, "dups") == 0 {
		poolN = rapid.IntRange(1, n-1).Draw(t, "distinct")
	}
	pool := make([]*big.Int, 0, poolN)
	for len(pool) < poolN {
		d := genPriv().Draw(t, "priv")
		fresh := true
		for _, o := range pool {
			if o.Cmp(d) == 0 {
				fresh = false
			}
		}
		if fresh {
			pool = append(pool, d)
		}
	}
	s := signerSet{sort: rapid.Bool().Draw(t, "sort")}
	for i := 0; i < n; i++ {
		idx := i
		if i >= poolN {
			idx = rapid.IntRange(0, poolN-1).Draw(t, "keyidx")
		}
		s.privs = append(s.privs, pool[idx])
	}
	if poolN < n {
		// any order: duplicates need not be adjacent
		s.privs = rapid.Permutation(s.privs).Draw(t, "order")
	}
	for _, d := range s.privs {
		pt := secp.BaseMulFast(d)
		s.pts = append(s.pts, pt)
		s.pkBytes = append(s.pkBytes, secp.SerializeCompressed(pt))
	}
	ord := s.refOrder()
	count := map[string]int{}
	for _, k := range ord {
		count[string(k)]++
	}
	s.allSame = len(count) == 1 && n > 1
	for _, c := range count {
		if c > 1 {
			s.dup = true
		}
	}
	for _, k := range ord {
		if !bytes.Equal(k, ord[0]) {
			s.dup2nd = count[string(k)] > 1
			break
		}
	}
	return s
}

// ---------------------------------------------------------------------------
// tweaks

type tweakPlan struct {
	mode   int // 0 none, 1 generic chain, 2 taproot script root, 3 BIP86
	chain  []secp.MusigTweak
	root   []byte
	kinds  []string
	refErr error
	ctx0   secp.MusigKeyAggCtx // before tweaks
	ctx    secp.MusigKeyAggCtx // after tweaks (valid when refErr == nil)
	oddX   bool                // an x-only tweak met an odd-y key (g = -1)
}

func (p tweakPlan) descs() []musig2.KeyTweakDesc {
	var out []musig2.KeyTweakDesc
	for _, tw := range p.chain {
		var d musig2.KeyTweakDesc
		copy(d.Tweak[:], tw.Tweak)
		d.IsXOnly = tw.XOnly
		out = append(out, d)
	}
	return out
}

// genTweaks draws a tweak plan while stepping the reference through it, so
// that "this tweak sends the key to infinity" can be constructed (the discrete
// log of the aggregate key is known: sum a_i*d_i).
func genTweaks(t *rapid.T, s signerSet, allowInvalid bool) tweakPlan {
	ord := s.refOrder()
	ctx0, err := secp.MusigKeyAgg(ord)
	if err != nil {
		t.Fatalf("VERIF-INFRA: reference KeyAgg failed on valid keys: %v", err)
	}
	p := tweakPlan{ctx0: ctx0, ctx: ctx0}
	p.mode = rapid.SampledFrom([]int{0, 1, 1, 1, 1, 2, 3}).Draw(t, "tweakmode")
	switch p.mode {
	case 2, 3:
		if p.mode == 2 {
			p.root = gen32().Draw(t, "scriptroot")
		}
		tw := secp.TaggedHash("TapTweak", b32(ctx0.Q.X), p.root)
		p.chain = []secp.MusigTweak{{Tweak: tw, XOnly: true}}
		p.oddX = !secp.HasEvenY(ctx0.Q)
		p.ctx, p.refErr = ctx0.ApplyTweak(tw, true)
		return p
	case 0:
		return p
	}
	// discrete log of Q
	dlog := new(big.Int)
	for i, d := range s.privs {
		a := secp.MusigKeyAggCoeff(ord, s.pkBytes[i])
		dlog.Add(dlog, new(big.Int).Mul(a, d))
	}
	dlog.Mod(dlog, secp.N)
	if !secp.Equal(secp.BaseMulFast(dlog), ctx0.Q) {
		t.Fatalf("VERIF-INFRA: discrete log bookkeeping of the aggregate key is wrong")
	}
	n := rapid.IntRange(1, 4).Draw(t, "ntweaks")
	cur := ctx0
	for j := 0; j < n; j++ {
		xonly := rapid.Bool().Draw(t, "xonly")
		g := big.NewInt(1)
		if xonly && p.refErr == nil && !secp.HasEvenY(cur.Q) {
			g = add(secp.N, -1)
			p.oddX = true
		}
		var tv *big.Int
		kind := "random"
		k := rapid.IntRange(0, 19).Draw(t, "tweakkind")
		switch {
		case k == 0 && allowInvalid:
			tv = rapid.SampledFrom([]*big.Int{secp.N, add(secp.N, 1), max256, secp.P}).Draw(t, "bigtweak")
			kind = ">=n"
		case k == 1 && allowInvalid && p.refErr == nil:
			tv = new(big.Int).Mul(g, dlog)
			tv.Neg(tv)
			tv.Mod(tv, secp.N)
			kind = "infinity"
		case k == 2:
			tv = rapid.SampledFrom([]*big.Int{bi(0), bi(1), add(secp.N, -1), add(secp.N, -2)}).Draw(t, "edgetweak")
			kind = "edge"
		default:
			tv = fromBytes(rapid.SliceOfN(rapid.Byte(), 32, 32).Draw(t, "tweak"))
			if tv.Cmp(secp.N) >= 0 {
				tv.Sub(tv, secp.N)
			}
		}
		p.chain = append(p.chain, secp.MusigTweak{Tweak: b32(tv), XOnly: xonly})
		p.kinds = append(p.kinds, kind)
		if p.refErr == nil {
			cur, p.refErr = cur.ApplyTweak(b32(tv), xonly)
			if p.refErr == nil {
				dlog.Mul(dlog, g)
				dlog.Add(dlog, tv)
				dlog.Mod(dlog, secp.N)
			} else if kind == "random" || kind == "edge" {
				t.Fatalf("VERIF-INFRA: reference rejects an in-range tweak: %v", p.refErr)
			}
		}
	}
	if p.refErr == nil {
		p.ctx = cur
	}
	return p
}

func (p tweakPlan) keyAggOpts() []musig2.KeyAggOption {
	switch p.mode {
	case 1:
		return []musig2.KeyAggOption{musig2.WithKeyTweaks(p.descs()...)}
	case 2:
		return []musig2.KeyAggOption{musig2.WithTaprootKeyTweak(p.root)}
	case 3:
		return []musig2.KeyAggOption{musig2.WithBIP86KeyTweak()}
	}
	return nil
}

func (p tweakPlan) signOpts(sort bool) []musig2.SignOption {
	var out []musig2.SignOption
	if sort {
		out = append(out, musig2.WithSortedKeys())
	}
	switch p.mode {
	case 1:
		out = append(out, musig2.WithTweaks(p.descs()...))
	case 2:
		out = append(out, musig2.WithTaprootSignTweak(p.root))
	case 3:
		out = append(out, musig2.WithBip86SignTweak())
	}
	return out
}

func (p tweakPlan) combineOpts(msg [32]byte, keys []*btcec.PublicKey, sort bool) []musig2.CombineOption {
	switch p.mode {
	case 1:
		return []musig2.CombineOption{musig2.WithTweakedCombine(msg, keys, p.descs(), sort)}
	case 2:
		return []musig2.CombineOption{musig2.WithTaprootTweakedCombine(msg, keys, p.root, sort)}
	case 3:
		return []musig2.CombineOption{musig2.WithBip86TweakedCombine(msg, keys, sort)}
	}
	return nil
}

func (p tweakPlan) ctxOpts() []musig2.ContextOption {
	switch p.mode {
	case 1:
		return []musig2.ContextOption{musig2.WithTweakedContext(p.descs()...)}
	case 2:
		return []musig2.ContextOption{musig2.WithTaprootTweakCtx(p.root)}
	case 3:
		return []musig2.ContextOption{musig2.WithBip86TweakCtx()}
	}
	return nil
}

func caseHash(s signerSet, p tweakPlan, extra ...[]byte) uint64 {
	parts := [][]byte{{b2b(s.sort), byte(p.mode)}}
	parts = append(parts, s.pkBytes...)
	for _, tw := range p.chain {
		parts = append(parts, tw.Tweak, []byte{b2b(tw.XOnly)})
	}
	parts = append(parts, extra...)
	return ev.Hash(parts...)
}

func describe(s signerSet, p tweakPlan) string {
	out := fmt.Sprintf("signers=%d sort=%v keys=[", len(s.privs), s.sort)
	for _, d := range s.privs {
		out += fmt.Sprintf("%x ", d)
	}
	out += fmt.Sprintf("] tweakmode=%d", p.mode)
	for i, tw := range p.chain {
		k := ""
		if i < len(p.kinds) {
			k = p.kinds[i]
		}
		out += fmt.Sprintf(" {%x xonly=%v %s}", tw.Tweak, tw.XOnly, k)
	}
	return out
}

func countSetClasses(rec *ev.Rec, s signerSet, p tweakPlan) {
	rec.Count(fmt.Sprintf("signers=%d", len(s.privs)), 1)
	if s.dup {
		rec.Count("dup-keys", 1)
	}
	if s.allSame {
		rec.Count("all-same-key", 1)
	}
	if s.dup2nd {
		rec.Count("second-key-dup", 1)
	}
	if s.sort {
		rec.Count("sorted", 1)
	}
	if p.oddX {
		rec.Count("xonly-on-odd-key", 1)
	}
	for _, tw := range p.chain {
		if p.mode == 1 {
			if tw.XOnly {
				rec.Count("tweak-xonly", 1)
			} else {
				rec.Count("tweak-plain", 1)
			}
		}
	}
	if len(p.chain) >= 3 {
		rec.Count("chain>=3", 1)
	}
}

// ---------------------------------------------------------------------------
// key aggregation

var recKeyAgg = ev.New("C11", "musig2-keyagg",
	"1..8 signers drawn from a key pool {1,2,3,n-1,n-2,n/2,random} with duplicates in any position, any order, sort flag on/off; tweak plan: "+
		"none, chain of 1..4 plain/x-only tweaks (random, 0,1,n-1, >= n, or the value that sends the key to infinity), taproot script root, "+
		"BIP86; oracle: AggregateKeys final key, pre-tweak key, parity and tweak accumulators = BIP327 KeyAgg/ApplyTweak reference (after "+
		"KeySort when sort is set); errors <=> reference errors; the caller's key order does not matter when sort is set; "+
		"non-trivial = >=2 signers with a tweak or a duplicate, or an invalid tweak; distinct by (keys,order,sort,tweaks)",
	"plain", "tweaked", "taproot", "bip86", "tweak>=n", "tweak-infinity", "dup-keys", "all-same-key", "second-key-dup", "sorted", "xonly-on-odd-key", "tweak-plain", "tweak-xonly")

func TestMuSig2KeyAgg(t *testing.T) {
	calibrate(t)
	rapid.Check(t, func(t *rapid.T) {
		s := genSigners(t, 8)
		p := genTweaks(t, s, true)
		cls := []string{"plain", "tweaked", "taproot", "bip86"}[p.mode]
		if p.refErr == secp.ErrMusigTweak {
			cls = "tweak>=n"
		} else if p.refErr == secp.ErrMusigInfinity {
			cls = "tweak-infinity"
		}
		nt := p.refErr != nil || len(s.privs) >= 2 && (p.mode != 0 || s.dup)
		recKeyAgg.Case(nt, cls, caseHash(s, p), func() any { return describe(s, p) })
		countSetClasses(recKeyAgg, s, p)

		keys := s.btcdKeys()
		for i, k := range keys {
			if !bytes.Equal(k.SerializeCompressed(), s.pkBytes[i]) {
				t.Fatalf("PubKey of %x = %x, reference %x", s.privs[i], k.SerializeCompressed(), s.pkBytes[i])
			}
		}
		// one option list, used for every aggregation of this case: a caller derives the
		// key once for funding and again later to check a signature
		sharedOpts := p.keyAggOpts()
		agg, parityAcc, tweakAcc, err := musig2.AggregateKeys(keys, s.sort, sharedOpts...)
		if (err == nil) != (p.refErr == nil) {
			t.Fatalf("AggregateKeys(%s): err=%v, BIP327 reference err=%v", describe(s, p), err, p.refErr)
		}
		if err != nil {
			return
		}
		for rep := 2; rep <= 3; rep++ {
			again, _, _, err := musig2.AggregateKeys(s.btcdKeys(), s.sort, sharedOpts...)
			if err != nil || !secp.Equal(pointOf(again.FinalKey), p.ctx.Q) {
				t.Fatalf("AggregateKeys(%s), call #%d with the same option values: err=%v key %x, BIP327 reference %x (the first call matched)", describe(s, p), rep, err,
					func() []byte {
						if again == nil {
							return nil
						}
						return again.FinalKey.SerializeCompressed()
					}(), secp.SerializeCompressed(p.ctx.Q))
			}
		}
		if !secp.Equal(pointOf(agg.PreTweakedKey), p.ctx0.Q) {
			t.Fatalf("AggregateKeys(%s): pre-tweak key %x, BIP327 KeyAgg %x", describe(s, p), agg.PreTweakedKey.SerializeCompressed(), secp.SerializeCompressed(p.ctx0.Q))
		}
		if !secp.Equal(pointOf(agg.FinalKey), p.ctx.Q) {
			t.Fatalf("AggregateKeys(%s): final key %x, BIP327 reference %x", describe(s, p), agg.FinalKey.SerializeCompressed(), secp.SerializeCompressed(p.ctx.Q))
		}
		if scalarToBig(parityAcc).Cmp(p.ctx.Gacc) != 0 || scalarToBig(tweakAcc).Cmp(p.ctx.Tacc) != 0 {
			t.Fatalf("AggregateKeys(%s): gacc=%x tacc=%x, BIP327 reference gacc=%x tacc=%x", describe(s, p), scalarToBig(parityAcc), scalarToBig(tweakAcc), p.ctx.Gacc, p.ctx.Tacc)
		}
		if s.sort && len(keys) > 1 {
			// metamorphic: with sort set the caller's order is irrelevant
			perm := rapid.Permutation(s.btcdKeys()).Draw(t, "perm")
			agg2, _, _, err := musig2.AggregateKeys(perm, true, p.keyAggOpts()...)
			if err != nil || !agg2.FinalKey.IsEqual(agg.FinalKey) {
				t.Fatalf("AggregateKeys(%s) with sort depends on the caller's key order: %v", describe(s, p), err)
			}
		}
	})
}

// ---------------------------------------------------------------------------
// nonces

type signerNonce struct {
	sec  [musig2.SecNonceSize]byte
	pub  [musig2.PubNonceSize]byte
	k1   *big.Int
	k2   *big.Int
	kind string
}

type fixedReader struct{ b []byte }

func (r *fixedReader) Read(p []byte) (int, error) { return copy(p, r.b), nil }

func suppliedNonce(k1, k2 *big.Int, pk []byte) signerNonce {
	var sn signerNonce
	copy(sn.sec[:32], b32(k1))
	copy(sn.sec[32:64], b32(k2))
	copy(sn.sec[64:], pk)
	copy(sn.pub[:33], secp.SerializeCompressed(secp.BaseMulFast(k1)))
	copy(sn.pub[33:], secp.SerializeCompressed(secp.BaseMulFast(k2)))
	sn.k1, sn.k2, sn.kind = k1, k2, "supplied"
	return sn
}

// genNonces draws one nonce pair per signer: from the library's GenNonces
// with rapid-drawn randomness and option mix, supplied scalars (boundary
// biased), or - for the last signer - the pair that cancels one or both
// halves of the aggregate nonce (aggregate = infinity).
func genNonces(t *rapid.T, s signerSet, p tweakPlan, msg [32]byte) ([]signerNonce, string) {
	n := len(s.privs)
	out := make([]signerNonce, n)
	keys := s.btcdKeys()
	cancel := 0
	if n >= 2 {
		cancel = rapid.SampledFrom([]int{0, 0, 0, 0, 0, 1, 2, 3}).Draw(t, "cancel")
	}
	sum1, sum2 := new(big.Int), new(big.Int)
	for i := 0; i < n; i++ {
		last := i == n-1
		if last && cancel != 0 {
			k1 := genPriv().Draw(t, "k1")
			k2 := genPriv().Draw(t, "k2")
			if cancel&1 != 0 {
				k1 = new(big.Int).Neg(sum1)
				k1.Mod(k1, secp.N)
			}
			if cancel&2 != 0 {
				k2 = new(big.Int).Neg(sum2)
				k2.Mod(k2, secp.N)
			}
			if k1.Sign() == 0 || k2.Sign() == 0 {
				t.Skip("cancelling nonce would be zero")
			}
			out[i] = suppliedNonce(k1, k2, s.pkBytes[i])
			out[i].kind = "cancel"
			continue
		}
		if rapid.Bool().Draw(t, "libnonce") {
			opts := []musig2.NonceGenOption{
				musig2.WithCustomRand(&fixedReader{gen32().Draw(t, "noncerand")}),
				musig2.WithPublicKey(keys[i]),
			}
			mix := rapid.IntRange(0, 15).Draw(t, "nonceopts")
			if mix&1 != 0 {
				opts = append(opts, musig2.WithNonceSecretKeyAux(privFromBig(s.privs[i])))
			}
			if mix&2 != 0 {
				opts = append(opts, musig2.WithNonceMessageAux(msg))
			}
			if mix&4 != 0 {
				opts = append(opts, musig2.WithNonceAuxInput(rapid.SliceOfN(rapid.Byte(), 0, 40).Draw(t, "nonceaux")))
			}
			if mix&8 != 0 && p.refErr == nil {
				ck, err := btcec.ParsePubKey(secp.SerializeCompressed(p.ctx.Q))
				if err == nil {
					opts = append(opts, musig2.WithNonceCombinedKeyAux(ck))
				}
			}
			nn, err := musig2.GenNonces(opts...)
			if err != nil {
				t.Fatalf("GenNonces failed: %v", err)
			}
			k1, k2 := fromBytes(nn.SecNonce[:32]), fromBytes(nn.SecNonce[32:64])
			if !bytes.Equal(nn.SecNonce[64:], s.pkBytes[i]) {
				t.Fatalf("GenNonces: secnonce does not end with the signer key: %x", nn.SecNonce)
			}
			out[i] = signerNonce{sec: nn.SecNonce, pub: nn.PubNonce, k1: k1, k2: k2, kind: "library"}
		} else {
			out[i] = suppliedNonce(genPriv().Draw(t, "k1"), genPriv().Draw(t, "k2"), s.pkBytes[i])
		}
		sum1.Add(sum1, out[i].k1)
		sum2.Add(sum2, out[i].k2)
	}
	return out, []string{"", "agg-R1-infinity", "agg-R2-infinity", "agg-both-infinity"}[cancel]
}

// ---------------------------------------------------------------------------
// full signing sessions through the low-level API

var recSign2 = ev.New("C11", "musig2-sign",
	"signer sets and tweak plans as in [musig2-keyagg] (valid tweaks), message {0,ff..,n,random}, per-signer nonces from GenNonces (rapid "+
		"randomness, all option mixes) or supplied scalars {1,n-1,..,random}, optionally chosen so that one or both halves of the aggregate "+
		"nonce are the point at infinity; oracle: library pubnonce = k*G of the reference, AggregateNonces = BIP327 NonceAgg, every partial "+
		"signature passes PartialSignature.Verify and the BIP327 PartialSigVerify equation, a partial signature checked against another "+
		"signer's nonce/key or with s+1 gets the reference's verdict (false), CombineSigs = BIP327 PartialSigAgg and verifies as BIP340 "+
		"under the aggregate key in btcd and in the reference, partial signature encodings round-trip; non-trivial = >=2 signers with a "+
		"tweak or duplicate, or an infinite aggregate nonce; distinct by (keys,order,sort,tweaks,msg,nonces)",
	"plain", "tweaked", "taproot", "bip86", "dup-keys", "second-key-dup", "sorted", "xonly-on-odd-key", "agg-nonce-infinity", "library-nonce", "supplied-nonce", "neg-other-nonce", "neg-other-signer", "neg-s+1", "odd-R")

func TestMuSig2Sign(t *testing.T) {
	calibrate(t)
	rapid.Check(t, func(t *rapid.T) {
		s := genSigners(t, 8)
		p := genTweaks(t, s, false)
		if p.refErr != nil {
			t.Skip("tweak hash out of range")
		}
		var msg [32]byte
		copy(msg[:], genMsg().Draw(t, "msg"))
		nonces, cancelKind := genNonces(t, s, p, msg)
		n := len(s.privs)

		cls := []string{"plain", "tweaked", "taproot", "bip86"}[p.mode]
		var nonceBytes [][]byte
		for _, nn := range nonces {
			nonceBytes = append(nonceBytes, nn.pub[:])
		}
		nt := cancelKind != "" || n >= 2 && (p.mode != 0 || s.dup)
		recSign2.Case(nt, cls, caseHash(s, p, append([][]byte{msg[:]}, nonceBytes...)...), func() any {
			return describe(s, p) + fmt.Sprintf(" msg=%x nonces=%x %s", msg, nonceBytes, cancelKind)
		})
		countSetClasses(recSign2, s, p)
		if cancelKind != "" {
			recSign2.Count("agg-nonce-infinity", 1)
			recSign2.Count(cancelKind, 1)
		}

		// public nonces: library output = reference k*G
		for i, nn := range nonces {
			if nn.kind == "library" {
				recSign2.Count("library-nonce", 1)
				want := cat(secp.SerializeCompressed(secp.BaseMulFast(nn.k1)), secp.SerializeCompressed(secp.BaseMulFast(nn.k2)))
				if !bytes.Equal(nn.pub[:], want) {
					t.Fatalf("GenNonces signer %d: pubnonce %x is not (k1*G,k2*G) = %x of secnonce %x", i, nn.pub, want, nn.sec)
				}
			} else {
				recSign2.Count("supplied-nonce", 1)
			}
			for h := 0; h < 2; h++ {
				pk, err := btcec.ParsePubKey(nn.pub[h*33 : h*33+33])
				if err != nil || !bytes.Equal(pk.SerializeCompressed(), nn.pub[h*33:h*33+33]) {
					t.Fatalf("pubnonce half %x does not round-trip as a compressed point: %v", nn.pub[h*33:h*33+33], err)
				}
			}
		}

		// nonce aggregation
		pubs := make([][musig2.PubNonceSize]byte, n)
		for i := range nonces {
			pubs[i] = nonces[i].pub
		}
		aggNonce, err := musig2.AggregateNonces(pubs)
		wantAgg, refErr := secp.MusigNonceAgg(nonceBytes)
		if refErr != nil {
			t.Fatalf("VERIF-INFRA: reference NonceAgg failed on valid nonces: %v", refErr)
		}
		if err != nil || !bytes.Equal(aggNonce[:], wantAgg) {
			t.Fatalf("AggregateNonces(%x) = %x, %v; BIP327 NonceAgg = %x", nonceBytes, aggNonce, err, wantAgg)
		}

		ord := s.refOrder()
		sess := secp.MusigSession{AggNonce: wantAgg, PKs: ord, Tweaks: p.chain, Msg: msg[:]}
		v, err := sess.ValuesFrom(p.ctx)
		if err != nil {
			t.Fatalf("VERIF-INFRA: reference session values: %v", err)
		}
		if !secp.HasEvenY(v.R) {
			recSign2.Count("odd-R", 1)
		}

		signOpts := p.signOpts(s.sort)
		if rapid.IntRange(0, 3).Draw(t, "fastsign") == 0 {
			signOpts = append(signOpts, musig2.WithFastSign())
		}
		verifyOpts := p.signOpts(s.sort)
		partials := make([]*musig2.PartialSignature, n)
		psigBytes := make([][]byte, n)
		negIdx := rapid.IntRange(0, n-1).Draw(t, "negidx")
		for i := 0; i < n; i++ {
			priv := privFromBig(s.privs[i])
			ps, err := musig2.Sign(nonces[i].sec, priv, aggNonce, s.btcdKeys(), msg, signOpts...)
			if err != nil {
				t.Fatalf("musig2.Sign signer %d of %s msg=%x aggnonce=%x failed: %v", i, describe(s, p), msg, aggNonce, err)
			}
			partials[i] = ps
			sv := scalarToBig(ps.S)
			psigBytes[i] = b32(sv)
			if !secp.Equal(pointOf(ps.R), v.R) {
				t.Fatalf("musig2.Sign signer %d: final nonce R=%x, BIP327 reference R=%x (%s, aggnonce %x)", i, ps.R.SerializeCompressed(), secp.SerializeCompressed(v.R), describe(s, p), aggNonce)
			}
			got := ps.Verify(nonces[i].pub, aggNonce, s.btcdKeys(), priv.PubKey(), msg, verifyOpts...)
			want, werr := secp.MusigPartialSigVerifyWith(v, psigBytes[i], nonces[i].pub[:], s.pkBytes[i], sess)
			if werr != nil {
				t.Fatalf("VERIF-INFRA: reference PartialSigVerify raised on valid input: %v", werr)
			}
			if !got || !want {
				t.Fatalf("partial signature %x of signer %d (%s msg=%x aggnonce=%x pubnonce=%x): PartialSignature.Verify=%v, BIP327 PartialSigVerify=%v",
					sv, i, describe(s, p), msg, aggNonce, nonces[i].pub, got, want)
			}
			// encoding round trip
			var buf bytes.Buffer
			if err := ps.Encode(&buf); err != nil || !bytes.Equal(buf.Bytes(), psigBytes[i]) {
				t.Fatalf("PartialSignature.Encode = %x, want %x (%v)", buf.Bytes(), psigBytes[i], err)
			}
			var dec musig2.PartialSignature
			if err := dec.Decode(bytes.NewReader(buf.Bytes())); err != nil || !dec.S.Equals(ps.S) {
				t.Fatalf("PartialSignature.Decode(%x) failed: %v", buf.Bytes(), err)
			}

			// negative checks: same verdict as the reference
			if i == negIdx {
				j := (i + 1 + rapid.IntRange(0, max(0, n-2)).Draw(t, "other")) % n
				kind := rapid.IntRange(0, 2).Draw(t, "negkind")
				if n == 1 && kind < 2 {
					kind = 2
				}
				switch kind {
				case 0:
					recSign2.Count("neg-other-nonce", 1)
					got := ps.Verify(nonces[j].pub, aggNonce, s.btcdKeys(), priv.PubKey(), msg, verifyOpts...)
					want, _ := secp.MusigPartialSigVerifyWith(v, psigBytes[i], nonces[j].pub[:], s.pkBytes[i], sess)
					if want && nonces[j].pub != nonces[i].pub {
						t.Fatalf("VERIF-INFRA: reference accepts a partial signature under another nonce")
					}
					if got != want {
						t.Fatalf("partial signature of signer %d checked against signer %d's nonce: Verify=%v, reference=%v (%s)", i, j, got, want, describe(s, p))
					}
				case 1:
					recSign2.Count("neg-other-signer", 1)
					got := ps.Verify(nonces[i].pub, aggNonce, s.btcdKeys(), privFromBig(s.privs[j]).PubKey(), msg, verifyOpts...)
					want, _ := secp.MusigPartialSigVerifyWith(v, psigBytes[i], nonces[i].pub[:], s.pkBytes[j], sess)
					if want && s.privs[i].Cmp(s.privs[j]) != 0 {
						t.Fatalf("VERIF-INFRA: reference accepts a partial signature under another signer's key")
					}
					if got != want {
						t.Fatalf("partial signature of signer %d checked as signer %d: Verify=%v, reference=%v (%s)", i, j, got, want, describe(s, p))
					}
				case 2:
					recSign2.Count("neg-s+1", 1)
					s1 := add(sv, 1)
					s1.Mod(s1, secp.N)
					var sc btcec.ModNScalar
					sc.SetByteSlice(b32(s1))
					bad := musig2.NewPartialSignature(&sc, ps.R)
					if bad.Verify(nonces[i].pub, aggNonce, s.btcdKeys(), priv.PubKey(), msg, verifyOpts...) {
						t.Fatalf("partial signature s+1 of signer %d accepted (%s)", i, describe(s, p))
					}
				}
			}
		}

		// aggregation
		final := musig2.CombineSigs(partials[0].R, partials, p.combineOpts(msg, s.btcdKeys(), s.sort)...)
		raw := final.Serialize()
		wantSig, err := secp.MusigPartialSigAggWith(v, psigBytes)
		if err != nil {
			t.Fatalf("VERIF-INFRA: reference PartialSigAgg: %v", err)
		}
		aggKey, _, _, err := musig2.AggregateKeys(s.btcdKeys(), s.sort, p.keyAggOpts()...)
		if err != nil {
			t.Fatalf("AggregateKeys failed after signing: %v", err)
		}
		qx := b32(p.ctx.Q.X)
		okRef := secp.VerifySchnorr(qx, msg[:], raw)
		okBtcd := final.Verify(msg[:], aggKey.FinalKey)
		if v.NonceInf {
			recSign2.Count("final-nonce-infinity", 1)
			// BIP327 "Dealing with Infinity in Nonce Aggregation": a signer who
			// cancels the aggregate nonce makes every signer use R = G; partial
			// signatures still verify (checked above) so that the disruptive
			// signer can be identified, but the aggregate is not a valid BIP340
			// signature. Only agreement with the reference is required here.
			if okBtcd != okRef {
				t.Fatalf("CombineSigs(%s msg=%x) with an infinite aggregate nonce = %x: btcd verify=%v, reference=%v", describe(s, p), msg, raw, okBtcd, okRef)
			}
		} else if !okRef || !okBtcd {
			t.Fatalf("CombineSigs(%s msg=%x) = %x: BIP340 verify under the aggregate key %x: btcd=%v reference=%v; BIP327 PartialSigAgg = %x",
				describe(s, p), msg, raw, qx, okBtcd, okRef, wantSig)
		}
		if !bytes.Equal(raw, wantSig) {
			t.Fatalf("CombineSigs(%s) = %x, BIP327 PartialSigAgg = %x", describe(s, p), raw, wantSig)
		}
		if back, err := schnorr.ParseSignature(raw); err != nil || !back.IsEqual(final) {
			t.Fatalf("combined signature %x does not round-trip: %v", raw, err)
		}
		// the partial signatures belong to the caller: a coordinator that aggregates again (a retry, a second
		// combiner) or checks them afterwards works on what the signers sent
		for i, ps := range partials {
			sb := ps.S.Bytes()
			if !bytes.Equal(sb[:], psigBytes[i]) {
				t.Fatalf("CombineSigs changed the caller's partial signature %d: s = %x, was %x (%s)", i, sb, psigBytes[i], describe(s, p))
			}
		}
		if again := musig2.CombineSigs(partials[0].R, partials, p.combineOpts(msg, s.btcdKeys(), s.sort)...).Serialize(); !bytes.Equal(again, raw) {
			t.Fatalf("a second CombineSigs over the same partial signatures gives %x, the first gave %x (%s)", again, raw, describe(s, p))
		}
	})
}

// ---------------------------------------------------------------------------
// the Context / Session API

var recSession = ev.New("C11", "musig2-session",
	"1..5 signers (pool with duplicates, any order, sort flag), tweak plan none/chain/taproot/BIP86, one Context+Session per signer created "+
		"with all signers known or registered one by one, pre-generated nonces (GenNonces with rapid randomness), public nonces exchanged "+
		"in a rapid-drawn order; oracle: every context's CombinedKey = BIP327 reference, every partial signature satisfies the BIP327 "+
		"equation, every session ends with the same final signature, which is BIP340-valid under the aggregate key in btcd and in the "+
		"reference and equals BIP327 PartialSigAgg; non-trivial = >=2 signers with a tweak or a duplicate; distinct by (keys,order,sort,tweaks,msg,nonce seeds)",
	"plain", "tweaked", "taproot", "bip86", "known-signers", "registered-signers", "dup-keys", "sorted")

func TestMuSig2Session(t *testing.T) {
	calibrate(t)
	rapid.Check(t, func(t *rapid.T) {
		s := genSigners(t, 5)
		p := genTweaks(t, s, false)
		if p.refErr != nil {
			t.Skip("tweak hash out of range")
		}
		var msg [32]byte
		copy(msg[:], genMsg().Draw(t, "msg"))
		n := len(s.privs)
		known := rapid.Bool().Draw(t, "known")
		seeds := make([][]byte, n)
		for i := range seeds {
			seeds[i] = gen32().Draw(t, "nonceseed")
		}
		cls := []string{"plain", "tweaked", "taproot", "bip86"}[p.mode]
		recSession.Case(n >= 2 && (p.mode != 0 || s.dup), cls, caseHash(s, p, append([][]byte{msg[:], {b2b(known)}}, seeds...)...), func() any {
			return describe(s, p) + fmt.Sprintf(" msg=%x known=%v", msg, known)
		})
		countSetClasses(recSession, s, p)
		if known {
			recSession.Count("known-signers", 1)
		} else {
			recSession.Count("registered-signers", 1)
		}

		ctxs := make([]*musig2.Context, n)
		sessions := make([]*musig2.Session, n)
		nonces := make([]*musig2.Nonces, n)
		for i := 0; i < n; i++ {
			priv := privFromBig(s.privs[i])
			var err error
			if known {
				opts := append([]musig2.ContextOption{musig2.WithKnownSigners(s.btcdKeys())}, p.ctxOpts()...)
				ctxs[i], err = musig2.NewContext(priv, s.sort, opts...)
				if err != nil {
					t.Fatalf("NewContext signer %d (%s): %v", i, describe(s, p), err)
				}
			} else {
				// the context starts with the own key; the others are registered
				// in list order. Without sorting the documented contract is that
				// registration order = key order, so signer i must come first:
				// that is a different (rotated) order per signer, which changes
				// the aggregate key. It is only used with sort, where order is
				// immaterial, or for signer 0's position.
				if !s.sort && i != 0 {
					opts := append([]musig2.ContextOption{musig2.WithKnownSigners(s.btcdKeys())}, p.ctxOpts()...)
					ctxs[i], err = musig2.NewContext(priv, s.sort, opts...)
				} else {
					opts := append([]musig2.ContextOption{musig2.WithNumSigners(n)}, p.ctxOpts()...)
					ctxs[i], err = musig2.NewContext(priv, s.sort, opts...)
					if err == nil {
						for j, k := range s.btcdKeys() {
							if j == i {
								continue
							}
							if _, err = ctxs[i].RegisterSigner(k); err != nil {
								break
							}
						}
					}
				}
				if err != nil {
					t.Fatalf("context setup for signer %d (%s): %v", i, describe(s, p), err)
				}
			}
			ck, err := ctxs[i].CombinedKey()
			if err != nil && n == 1 && !known {
				// NewContext(WithNumSigners(1)) never aggregates the (complete) key set
				if recSession.Known("musig2-context-numsigners-1", fmt.Sprintf("NewContext(WithNumSigners(1)).CombinedKey() = %v", err)) {
					recSession.Excluded()
					opts := append([]musig2.ContextOption{musig2.WithKnownSigners(s.btcdKeys())}, p.ctxOpts()...)
					if ctxs[i], err = musig2.NewContext(priv, s.sort, opts...); err == nil {
						ck, err = ctxs[i].CombinedKey()
					}
				}
			}
			if err != nil || !secp.Equal(pointOf(ck), p.ctx.Q) {
				t.Fatalf("Context.CombinedKey of signer %d (%s) = %v, %v; BIP327 reference %x", i, describe(s, p), ck, err, secp.SerializeCompressed(p.ctx.Q))
			}
			// the list a context hands out is the caller's to reorder (e.g. to sort it for display)
			if keys := ctxs[i].SigningKeys(); len(keys) > 1 {
				keys[0], keys[len(keys)-1] = keys[len(keys)-1], keys[0]
			}
			if p.mode >= 2 {
				ik, err := ctxs[i].TaprootInternalKey()
				if err != nil || !secp.Equal(pointOf(ik), p.ctx0.Q) {
					t.Fatalf("Context.TaprootInternalKey of signer %d (%s): %v", i, describe(s, p), err)
				}
			}
			nonces[i], err = musig2.GenNonces(musig2.WithCustomRand(&fixedReader{seeds[i]}), musig2.WithPublicKey(priv.PubKey()), musig2.WithNonceSecretKeyAux(priv))
			if err != nil {
				t.Fatalf("GenNonces: %v", err)
			}
			sessions[i], err = ctxs[i].NewSession(musig2.WithPreGeneratedNonce(nonces[i]))
			if err != nil {
				t.Fatalf("NewSession signer %d: %v", i, err)
			}
		}
		// nonce exchange
		var nonceBytes [][]byte
		for i := range nonces {
			nonceBytes = append(nonceBytes, nonces[i].PubNonce[:])
		}
		for i := 0; i < n; i++ {
			var others []int
			for j := 0; j < n; j++ {
				if j != i {
					others = append(others, j)
				}
			}
			if len(others) > 1 {
				others = rapid.Permutation(others).Draw(t, "nonceorder")
			}
			for k, j := range others {
				done, err := sessions[i].RegisterPubNonce(nonces[j].PubNonce)
				if err != nil || done != (k == len(others)-1) {
					t.Fatalf("RegisterPubNonce session %d nonce %d: done=%v err=%v", i, j, done, err)
				}
			}
		}
		wantAgg, err := secp.MusigNonceAgg(nonceBytes)
		if err != nil {
			t.Fatalf("VERIF-INFRA: reference NonceAgg: %v", err)
		}
		sess := secp.MusigSession{AggNonce: wantAgg, PKs: s.refOrder(), Tweaks: p.chain, Msg: msg[:]}
		v, err := sess.ValuesFrom(p.ctx)
		if err != nil {
			t.Fatalf("VERIF-INFRA: reference session values: %v", err)
		}
		partials := make([]*musig2.PartialSignature, n)
		psigBytes := make([][]byte, n)
		for i := 0; i < n; i++ {
			if n > 1 {
				cn, err := sessions[i].CombinedNonce()
				if err != nil || !bytes.Equal(cn[:], wantAgg) {
					t.Fatalf("Session.CombinedNonce signer %d = %x, %v; BIP327 NonceAgg %x", i, cn, err, wantAgg)
				}
			} else {
				// a single signer never receives a nonce: supply the aggregate directly
				var cn [musig2.PubNonceSize]byte
				copy(cn[:], wantAgg)
				if err := sessions[i].RegisterCombinedNonce(cn); err != nil {
					t.Fatalf("RegisterCombinedNonce: %v", err)
				}
			}
			var so []musig2.SignOption
			if s.sort {
				so = append(so, musig2.WithSortedKeys())
			}
			ps, err := sessions[i].Sign(msg, so...)
			if err != nil {
				t.Fatalf("Session.Sign signer %d (%s msg=%x): %v", i, describe(s, p), msg, err)
			}
			partials[i] = ps
			psigBytes[i] = b32(scalarToBig(ps.S))
			ok, werr := secp.MusigPartialSigVerifyWith(v, psigBytes[i], nonces[i].PubNonce[:], s.pkBytes[i], sess)
			if werr != nil || !ok {
				t.Fatalf("Session.Sign signer %d (%s msg=%x): partial signature %x violates the BIP327 equation (%v)", i, describe(s, p), msg, psigBytes[i], werr)
			}
			if _, err := sessions[i].Sign(msg, so...); err == nil {
				t.Fatalf("Session.Sign twice on the same session did not fail (nonce reuse)")
			}
		}
		wantSig, err := secp.MusigPartialSigAggWith(v, psigBytes)
		if err != nil {
			t.Fatalf("VERIF-INFRA: reference PartialSigAgg: %v", err)
		}
		for i := 0; i < n; i++ {
			var others []int
			for j := 0; j < n; j++ {
				if j != i {
					others = append(others, j)
				}
			}
			if n == 1 {
				// a one-signer session is complete after Sign; FinalSig is only
				// produced by CombineSig, so combine directly.
				final := musig2.CombineSigs(partials[0].R, partials, p.combineOpts(msg, s.btcdKeys(), s.sort)...)
				if !bytes.Equal(final.Serialize(), wantSig) || !secp.VerifySchnorr(b32(p.ctx.Q.X), msg[:], final.Serialize()) {
					t.Fatalf("single-signer CombineSigs(%s) = %x, BIP327 %x", describe(s, p), final.Serialize(), wantSig)
				}
				continue
			}
			for k, j := range others {
				done, err := sessions[i].CombineSig(partials[j])
				if err != nil || done != (k == len(others)-1) {
					t.Fatalf("CombineSig session %d sig %d (%s msg=%x): done=%v err=%v", i, j, describe(s, p), msg, done, err)
				}
			}
			final := sessions[i].FinalSig()
			if final == nil {
				t.Fatalf("FinalSig of session %d is nil", i)
			}
			raw := final.Serialize()
			ck, _ := ctxs[i].CombinedKey()
			if !final.Verify(msg[:], ck) || !secp.VerifySchnorr(b32(p.ctx.Q.X), msg[:], raw) || !bytes.Equal(raw, wantSig) {
				t.Fatalf("session %d final signature %x (%s msg=%x): BIP327 PartialSigAgg %x, reference verify=%v", i, raw, describe(s, p), msg, wantSig,
					secp.VerifySchnorr(b32(p.ctx.Q.X), msg[:], raw))
			}
		}
	})
}
