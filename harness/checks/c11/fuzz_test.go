package c11

import (
	"bytes"
	"crypto/sha256"
	"fmt"
	"math/big"
	"testing"

	"github.com/btcsuite/btcd/btcec/v2"
	"github.com/btcsuite/btcd/btcec/v2/schnorr"

	"verif/internal/ev"
	"verif/internal/model/secp"
)

// Native fuzz targets (thorough tier only, not pinned by the seed). The
// differential oracle of the corresponding rapid property runs inside each
// target; the corpus is seeded with specification vectors and hostile
// constants.

var recFuzzDER = ev.New("C11", "fuzz-der",
	"native go fuzzing of ecdsa.ParseDERSignature/ParseSignature, seeded with canonical signatures, every BIP66 violation of the calibration "+
		"set and boundary r/s; oracle as in [ecdsa-der-parse]; accepted strings are also verified against the reference equation under a "+
		"key and message derived from the input; non-trivial = input accepted by at least one parser or of DER-like shape (0x30 prefix)")

var fuzzKeys = func() []secp.Point {
	var out []secp.Point
	for _, d := range []int64{1, 2, 0x1234567} {
		out = append(out, secp.BaseMulFast(big.NewInt(d)))
	}
	return out
}()

func FuzzParseDERSignature(f *testing.F) {
	calibrate(f)
	seeds := []string{
		"304402204e45e16932b8af514961a1d3a1a25fdf3f4f7732e9d624c6c61548ab5fb8cd410220181522ec8eca07de4860a4acdd12909d831cc56cbbac4622082221a8768d1d09",
		"3006020101020101", "300602010102010100", "3007020101020101", "308106020101020101", "3006020180020101", "300702020001020101",
		"3008020200800202008f", "30060200020201ff", "3006020200800200", "3106020101020101", "3006030101020101",
	}
	for _, s := range seeds {
		f.Add(unhex(s))
	}
	for _, v := range []*big.Int{bi(1), add(secp.N, -1), secp.N, add(secp.N, 1), secp.HalfN, add(secp.HalfN, 1), secp.P, max256} {
		f.Add(secp.EncodeDER(v, bi(1)))
		f.Add(secp.EncodeDER(bi(1), v))
		f.Add(secp.EncodeDER(v, v))
	}
	// a genuine signature by key 2 on sha256("")
	{
		h := sha256.Sum256(nil)
		r, s, _ := secp.SignECDSA(bi(2), h[:], bi(0x5eed))
		f.Add(secp.EncodeDER(r, s))
	}
	f.Fuzz(func(t *testing.T, data []byte) {
		if len(data) > 255 {
			data = data[:255]
		}
		fuzzCases.Add(1)
		nt := len(data) > 0 && data[0] == 0x30
		recFuzzDER.Case(nt, "", ev.Hash(data), func() any { return fmt.Sprintf("%x", data) })
		sig := checkDERBytes(t, recFuzzDER, data)
		if sig == nil {
			return
		}
		recFuzzDER.Count("accepted", 1)
		h := sha256.Sum256(data)
		if h[2]&3 != 0 {
			return // the 2 ms reference verification runs on a quarter of the accepted inputs
		}
		q := fuzzKeys[int(h[0])%len(fuzzKeys)]
		msg := h[:]
		if h[1]&1 == 0 {
			// message on which key 2 produced the seeded signature
			e := sha256.Sum256(nil)
			msg = e[:]
			q = fuzzKeys[1]
		}
		key, err := btcec.ParsePubKey(secp.SerializeCompressed(q))
		if err != nil {
			t.Fatalf("ParsePubKey: %v", err)
		}
		gr, gs := sig.R(), sig.S()
		want := secp.VerifyECDSA(q, msg, scalarToBig(&gr), scalarToBig(&gs))
		if want {
			recFuzzDER.Count("verified-true", 1)
		}
		if got := sig.Verify(msg, key); got != want {
			t.Fatalf("signature %x msg=%x key=%x: Verify=%v, reference=%v", data, msg, secp.SerializeCompressed(q), got, want)
		}
	})
}

var recFuzzPub = ev.New("C11", "fuzz-pubkey",
	"native go fuzzing of btcec.ParsePubKey and schnorr.ParsePubKey, seeded with G in every format, wrong hybrid parity, x >= p, x = p-1, "+
		"off-curve x and wrong lengths; oracle as in [pubkey-parse]; non-trivial = length 32, 33 or 65")

func FuzzParsePubKey(f *testing.F) {
	calibrate(f)
	g := secp.G()
	unc := secp.SerializeUncompressed(g)
	hyb := append([]byte(nil), unc...)
	hyb[0] = 6 + byte(g.Y.Bit(0))
	bad := append([]byte(nil), unc...)
	bad[0] = 7 - byte(g.Y.Bit(0))
	f.Add(secp.SerializeCompressed(g))
	f.Add(unc)
	f.Add(hyb)
	f.Add(bad)
	f.Add(b32(g.X))
	f.Add(cat([]byte{2}, b32(secp.P)))
	f.Add(cat([]byte{3}, b32(add(secp.P, -1))))
	f.Add(cat([]byte{2}, b32(new(big.Int).Add(smallOnCurveX[0], secp.P))))
	f.Add(cat([]byte{2}, b32(offCurveX[0])))
	f.Add(cat([]byte{4}, b32(g.X), b32(new(big.Int).Add(g.Y, secp.P).Mod(new(big.Int).Add(g.Y, secp.P), two256))))
	f.Add(cat([]byte{4}, b32(secp.P), b32(g.Y)))
	f.Add([]byte{})
	f.Add(make([]byte, 33))
	f.Add(make([]byte, 65))
	f.Fuzz(func(t *testing.T, data []byte) {
		if len(data) > 80 {
			data = data[:80]
		}
		fuzzCases.Add(1)
		nt := len(data) == 32 || len(data) == 33 || len(data) == 65
		recFuzzPub.Case(nt, "", ev.Hash(data), func() any { return fmt.Sprintf("%x", data) })
		checkPubKeyBytes(t, data)
		if checkXOnlyBytes(t, data) {
			recFuzzPub.Count("xonly-accepted", 1)
		}
		if _, _, ok := secp.ParsePubKey(data); ok {
			recFuzzPub.Count("accepted", 1)
		}
	})
}

var recFuzzSchnorr = ev.New("C11", "fuzz-schnorr",
	"native go fuzzing of schnorr.ParseSignature + Verify on (signature, message, x-only key) triples seeded with the BIP340 vectors; "+
		"oracle: ParseSignature accepts <=> len 64, r<p, s<n; for admitted signatures, 32-byte messages and liftable keys Verify <=> BIP340 "+
		"reference; non-trivial = 64-byte signature")

func FuzzSchnorrParseSignature(f *testing.F) {
	calibrate(f)
	rows, err := readBIP340()
	if err != nil {
		f.Fatalf("VERIF-INFRA: %v", err)
	}
	for _, r := range rows {
		f.Add(unhex(r[5]), unhex(r[4]), unhex(r[2]))
	}
	f.Add(cat(b32(secp.P), b32(bi(1))), make([]byte, 32), b32(secp.Gx))
	f.Add(cat(b32(bi(1)), b32(secp.N)), make([]byte, 32), b32(secp.Gx))
	f.Add(cat(b32(add(secp.P, -1)), b32(add(secp.N, -1))), make([]byte, 32), b32(secp.Gx))
	f.Fuzz(func(t *testing.T, sig, msg, pk []byte) {
		if len(sig) > 70 {
			sig = sig[:70]
		}
		fuzzCases.Add(1)
		recFuzzSchnorr.Case(len(sig) == 64, "", ev.Hash(sig, msg, pk), func() any { return fmt.Sprintf("sig=%x msg=%x pk=%x", sig, msg, pk) })
		sg, err := schnorr.ParseSignature(sig)
		want := len(sig) == 64 && fromBytes(sig[:32]).Cmp(secp.P) < 0 && fromBytes(sig[32:]).Cmp(secp.N) < 0
		if (err == nil) != want {
			t.Fatalf("schnorr.ParseSignature(%x): err=%v, BIP340 says %v", sig, err, want)
		}
		if err != nil {
			return
		}
		recFuzzSchnorr.Count("parsed", 1)
		if !bytes.Equal(sg.Serialize(), sig) {
			t.Fatalf("schnorr Serialize(ParseSignature(%x)) = %x", sig, sg.Serialize())
		}
		if len(msg) != 32 || len(pk) != 32 {
			return
		}
		pt, ok := secp.LiftX(fromBytes(pk))
		if !checkXOnlyBytes(t, pk) || !ok {
			return
		}
		key, err := btcec.ParsePubKey(secp.SerializeCompressed(pt))
		if err != nil {
			t.Fatalf("ParsePubKey of lifted key: %v", err)
		}
		wantV := secp.VerifySchnorr(pk, msg, sig)
		if wantV {
			recFuzzSchnorr.Count("verified-true", 1)
		}
		if got := sg.Verify(msg, key); got != wantV {
			t.Fatalf("schnorr Verify(sig=%x, msg=%x, pk=%x) = %v, BIP340 reference %v", sig, msg, pk, got, wantV)
		}
	})
}
