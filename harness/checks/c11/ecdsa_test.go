package c11

import (
	"bytes"
	"fmt"
	"math/big"
	"testing"

	"github.com/btcsuite/btcd/btcec/v2"
	"github.com/btcsuite/btcd/btcec/v2/ecdsa"
	"pgregory.net/rapid"

	"verif/internal/ev"
	"verif/internal/model/secp"
)

// ---------------------------------------------------------------------------
// DER shapes

// minDER is the minimal positive DER content of v.
func minDER(v *big.Int) []byte {
	b := v.Bytes()
	if len(b) == 0 {
		b = []byte{0}
	}
	if b[0]&0x80 != 0 {
		b = append([]byte{0}, b...)
	}
	return b
}

// intEnc encodes an unsigned integer in one of the shapes a hostile or sloppy
// signer produces (dev=false: minimal DER).
func intEnc(t *rapid.T, v *big.Int, label string, dev bool) (enc []byte, shape string) {
	if !dev {
		return minDER(v), "min"
	}
	min := v.Bytes() // no leading zeros; empty for 0
	switch rapid.IntRange(0, 5).Draw(t, label+"enc") {
	case 0:
		// raw magnitude: "negative" when the top bit is set, empty for zero
		if len(min) == 0 {
			return []byte{}, "empty"
		}
		if min[0]&0x80 != 0 {
			return min, "negative"
		}
		return append([]byte{0}, min...), "padded"
	case 1:
		// one superfluous zero byte
		return append([]byte{0}, minDER(v)...), "padded"
	case 2:
		// several superfluous zero bytes
		n := rapid.IntRange(2, 5).Draw(t, label+"pad")
		return append(make([]byte, n), min...), "padded"
	case 3:
		// fixed 32-byte big endian (padded for short values, negative for high)
		b := make([]byte, 32)
		if len(min) <= 32 {
			v.FillBytes(b)
		} else {
			b = min
		}
		if b[0]&0x80 != 0 {
			return b, "negative"
		}
		if len(min) == 32 {
			return b, "min"
		}
		return b, "padded"
	case 4:
		// 33 bytes: 00 || 32-byte value
		b := make([]byte, 33)
		if len(min) <= 32 {
			v.FillBytes(b[1:])
		} else {
			b = append([]byte{0}, min...)
		}
		if b[1]&0x80 != 0 && len(b) == 33 {
			return b, "min"
		}
		return b, "padded"
	default:
		return []byte{}, "empty"
	}
}

type derCase struct {
	raw    []byte
	shapes []string
}

// deviation sites of genDER
const (
	siteREnc = iota
	siteSEnc
	siteRTag
	siteRLen
	siteSTag
	siteSLen
	siteExtra
	siteSeqTag
	siteSeqLen
	sitePost
	numSites
)

// genDER assembles a signature byte string around (r, s). 40% of the cases
// are canonical in structure (only the values vary), 35% deviate at exactly
// one site so that each rule is met in isolation, the rest deviate at two or
// more sites.
func genDER(t *rapid.T, r, s *big.Int) derCase {
	var shapes []string
	note := func(s string) {
		if s != "min" {
			shapes = append(shapes, s)
		}
	}
	var mask uint
	switch lvl := rapid.IntRange(0, 19).Draw(t, "devlevel"); {
	case lvl < 8:
	case lvl < 15:
		mask = 1 << uint(rapid.IntRange(0, numSites-1).Draw(t, "site"))
	case lvl < 18:
		mask = 1<<uint(rapid.IntRange(0, numSites-1).Draw(t, "site1")) | 1<<uint(rapid.IntRange(0, numSites-1).Draw(t, "site2"))
	default:
		mask = uint(rapid.IntRange(0, 1<<numSites-1).Draw(t, "sitemask"))
	}
	on := func(site int) bool { return mask&(1<<uint(site)) != 0 }

	rb, rs := intEnc(t, r, "r", on(siteREnc))
	sb, ss := intEnc(t, s, "s", on(siteSEnc))
	note(rs)
	note(ss)

	tlv := func(label string, val []byte, tagDev, lenDev bool) []byte {
		tag := byte(0x02)
		if tagDev {
			tag = rapid.SampledFrom([]byte{0x00, 0x01, 0x03, 0x30, 0x82, 0x22}).Draw(t, label+"tag")
			note("wrong-tag")
		}
		l := []byte{byte(len(val))}
		if lenDev {
			switch rapid.IntRange(0, 3).Draw(t, label+"lendev") {
			case 0:
				l = []byte{byte(len(val) + 1)}
				note("bad-length")
			case 1:
				l = []byte{byte(len(val) - 1)}
				note("bad-length")
			case 2:
				l = []byte{0x81, byte(len(val))}
				note("long-form")
			case 3:
				l = []byte{0x80 | byte(len(val))}
				note("bad-length")
			}
		}
		return cat([]byte{tag}, l, val)
	}
	body := cat(tlv("r", rb, on(siteRTag), on(siteRLen)), tlv("s", sb, on(siteSTag), on(siteSLen)))

	// extra bytes inside the sequence (a third element) or after it
	var inside, after []byte
	if on(siteExtra) {
		switch rapid.IntRange(0, 3).Draw(t, "extra") {
		case 0:
			after = rapid.SliceOfN(rapid.Byte(), 1, 3).Draw(t, "after")
			note("trailing")
		case 1:
			after = []byte{rapid.SampledFrom([]byte{0x00, 0x01, 0x81, 0x83}).Draw(t, "hashtype")}
			note("trailing")
		case 2:
			inside = rapid.SliceOfN(rapid.Byte(), 1, 3).Draw(t, "inside")
			note("trailing-inside")
		case 3:
			inside = []byte{0x02, 0x01, 0x01}
			note("trailing-inside")
		}
	}
	body = append(body, inside...)

	seqTag := byte(0x30)
	if on(siteSeqTag) {
		seqTag = rapid.SampledFrom([]byte{0x31, 0x20, 0x00, 0x02, 0xb0}).Draw(t, "seqtag")
		note("wrong-tag")
	}
	seqLen := []byte{byte(len(body))}
	if on(siteSeqLen) {
		switch rapid.IntRange(0, 4).Draw(t, "seqlendev") {
		case 0:
			seqLen = []byte{byte(len(body) + 1)}
			note("bad-length")
		case 1:
			seqLen = []byte{byte(len(body) - 1)}
			note("bad-length")
		case 2:
			seqLen = []byte{0x81, byte(len(body))}
			note("long-form")
		case 3:
			// the length also covers what follows the sequence
			if len(after) == 0 {
				after = []byte{0x01}
			}
			seqLen = []byte{byte(len(body) + len(after))}
			note("bad-length")
		case 4:
			seqLen = []byte{rapid.SampledFrom([]byte{0x00, 0x80, 0xfd, 0xfe, 0xff}).Draw(t, "seqlenval")}
			note("bad-length")
		}
	}
	raw := cat([]byte{seqTag}, seqLen, body, after)

	if on(sitePost) {
		if rapid.Bool().Draw(t, "bitflip") {
			i := rapid.IntRange(0, len(raw)-1).Draw(t, "mutpos")
			raw[i] ^= byte(1 << rapid.IntRange(0, 7).Draw(t, "mutbit"))
			note("mutated")
		} else {
			n := rapid.IntRange(1, 3).Draw(t, "trunc")
			if n < len(raw) {
				raw = raw[:len(raw)-n]
				note("truncated")
			}
		}
	}
	return derCase{raw: raw, shapes: shapes}
}

// lowS returns min(s, n-s).
func lowS(s *big.Int) *big.Int {
	if s.Cmp(secp.HalfN) > 0 {
		return new(big.Int).Sub(secp.N, s)
	}
	return s
}

func inRange(v *big.Int) bool { return v.Sign() > 0 && v.Cmp(secp.N) < 0 }

var recDER = ev.New("C11", "ecdsa-der-parse",
	"signature byte strings built around (r,s) from {0,1,n-1,n,n+1,p,2^256-1,n/2,short,random}^2 in every DER shape "+
		"(minimal, negative, zero-padded, empty, 32/33-byte fixed, wrong tags, long-form and off-by-one lengths, bytes after or inside "+
		"the sequence, bit flips, truncation; total lengths 8/9/72/73 arise from 1- and 33-byte integers); oracle: ParseDERSignature "+
		"accepts <=> BIP66 predicate (no hash type byte) and 0<r,s<n with the same values; ParseSignature accepts <=> TLV structure and "+
		"range, same values; strict => lax; Serialize = canonical DER; non-trivial = any non-canonical shape or a boundary r/s; distinct by bytes",
	"canonical", "negative", "padded", "long-form", "trailing", "wrong-tag", "bad-length", "out-of-range", "len-8-9", "len-72-73", "strict-accept", "lax-only-accept")

// checkDERBytes is the differential oracle for one byte string; it is shared
// by the rapid property and the native fuzz target. It returns the values the
// lax parser produced (nil when rejected).
func checkDERBytes(t fataler, rec *ev.Rec, raw []byte) (laxSig *ecdsa.Signature) {
	in := append([]byte(nil), raw...)
	sigS, errS := ecdsa.ParseDERSignature(in)
	sigL, errL := ecdsa.ParseSignature(in)
	if !bytes.Equal(in, raw) {
		t.Fatalf("parser modified its input %x -> %x", raw, in)
	}
	refR, refS, refOK := secp.ParseStrictDER(raw)
	tlvR, tlvS, tlvOK := secp.ParseTLV(raw)
	tlvOK = tlvOK && inRange(tlvR) && inRange(tlvS)

	// strict parser <=> BIP66 and range
	if (errS == nil) != refOK {
		known := false
		if errS == nil && len(raw) >= 2 && int(raw[1])+2 < len(raw) {
			// accepted although bytes follow the declared sequence
			if pr, ps, ok := secp.ParseStrictDER(raw[:int(raw[1])+2]); ok {
				if rec.Known("der-strict-trailing-bytes", fmt.Sprintf("ParseDERSignature(%x) accepted; BIP66 requires the length byte to cover the whole signature", raw)) {
					rec.Excluded()
					known, refR, refS = true, pr, ps
				}
			}
		}
		if !known {
			t.Fatalf("ParseDERSignature(%x): err=%v, but BIP66-strict-and-in-range=%v", raw, errS, refOK)
		}
	}
	if errS == nil {
		gr, gs := sigS.R(), sigS.S()
		if scalarToBig(&gr).Cmp(refR) != 0 || scalarToBig(&gs).Cmp(refS) != 0 {
			t.Fatalf("ParseDERSignature(%x) = (%x,%x), reference (%x,%x)", raw, scalarToBig(&gr), scalarToBig(&gs), refR, refS)
		}
		if errL != nil {
			t.Fatalf("ParseDERSignature accepts %x but ParseSignature rejects it: %v", raw, errL)
		}
		// Serialize is documented to normalise S to the low half
		if want := secp.EncodeDER(refR, lowS(refS)); !bytes.Equal(sigS.Serialize(), want) {
			t.Fatalf("Serialize() of parsed %x = %x, canonical low-S DER %x", raw, sigS.Serialize(), want)
		}
	}
	// lax parser <=> TLV structure and range (every generated string is < 256 bytes)
	if len(raw) <= 255 && (errL == nil) != tlvOK {
		t.Fatalf("ParseSignature(%x): err=%v, but TLV-structure-and-in-range=%v", raw, errL, tlvOK)
	}
	if errL == nil {
		if !tlvOK {
			t.Fatalf("ParseSignature(%x) accepted a string whose TLV decode is invalid or out of range", raw)
		}
		gr, gs := sigL.R(), sigL.S()
		if scalarToBig(&gr).Cmp(tlvR) != 0 || scalarToBig(&gs).Cmp(tlvS) != 0 {
			t.Fatalf("ParseSignature(%x) = (%x,%x), reference (%x,%x)", raw, scalarToBig(&gr), scalarToBig(&gs), tlvR, tlvS)
		}
		if errS == nil && !sigL.IsEqual(sigS) {
			t.Fatalf("strict and lax parse of %x differ", raw)
		}
		// round trip through the canonical (low-S normalising) encoding
		ser := sigL.Serialize()
		if want := secp.EncodeDER(tlvR, lowS(tlvS)); !bytes.Equal(ser, want) {
			t.Fatalf("Serialize() of lax-parsed %x = %x, canonical low-S DER %x", raw, ser, want)
		}
		back, err := ecdsa.ParseDERSignature(ser)
		if err != nil {
			t.Fatalf("ParseDERSignature(Serialize()) of %x failed: %v", raw, err)
		}
		br, bs := back.R(), back.S()
		if scalarToBig(&br).Cmp(tlvR) != 0 || scalarToBig(&bs).Cmp(lowS(tlvS)) != 0 {
			t.Fatalf("Serialize/ParseDERSignature round trip of %x changed (r,s) to (%x,%x)", raw, scalarToBig(&br), scalarToBig(&bs))
		}
		return sigL
	}
	return nil
}

func TestDERParse(t *testing.T) {
	calibrate(t)
	rapid.Check(t, func(t *rapid.T) {
		r := genU256().Draw(t, "r")
		s := genU256().Draw(t, "s")
		c := genDER(t, r, s)
		raw := c.raw

		cls := "canonical"
		if len(c.shapes) > 0 {
			cls = c.shapes[0]
			if cls == "trailing-inside" || cls == "truncated" || cls == "mutated" || cls == "empty" {
				cls = "bad-length"
			}
		} else if !inRange(r) || !inRange(s) {
			cls = "out-of-range"
		}
		nt := len(c.shapes) > 0 || isBoundary(r) || isBoundary(s)
		recDER.Case(nt, cls, ev.Hash(raw), func() any { return fmt.Sprintf("%x shapes=%v", raw, c.shapes) })
		for _, sh := range c.shapes {
			if sh != cls {
				recDER.Count(sh+"(secondary)", 1)
			}
		}
		switch len(raw) {
		case 8, 9:
			recDER.Count("len-8-9", 1)
		case 72, 73:
			recDER.Count("len-72-73", 1)
		}
		_, _, refOK := secp.ParseStrictDER(raw)
		lax := checkDERBytes(t, recDER, raw)
		if refOK {
			recDER.Count("strict-accept", 1)
		} else if lax != nil {
			recDER.Count("lax-only-accept", 1)
		}
	})
}

// ---------------------------------------------------------------------------
// verification of (message, signature, key) triples

var recVerify = ev.New("C11", "ecdsa-verify",
	"triples built from (a) a reference signature by key d in {1,2,n-1,n-2,n/2,random} with explicit nonce, optionally flipped to high S, "+
		"(b) a key recovered (SEC1 4.1.6) for chosen (r,s,msg,recid) so that r,s sit on range boundaries and R.x >= n is reached, then one "+
		"mutation (r+-1, s+-1, s->n-s, msg bit, msg+n, key negated/replaced, r<->s) ; signature encoded canonically or in a lax shape, key "+
		"encoded compressed/uncompressed/hybrid; oracle: for every parser that admits the bytes, Verify <=> reference ECDSA equation, and "+
		"validity-preserving mutations must verify; non-trivial = boundary component, mutation, or non-canonical encoding; distinct by bytes",
	"valid-signed", "valid-highS", "valid-recovered", "valid-recovered-overflow", "valid-msg-plus-n", "mutated-invalid", "boundary-rs")

func encodeKey(t *rapid.T, q secp.Point) []byte {
	switch rapid.IntRange(0, 3).Draw(t, "keyfmt") {
	case 0:
		return secp.SerializeUncompressed(q)
	case 1:
		b := secp.SerializeUncompressed(q)
		b[0] = 6 + byte(q.Y.Bit(0))
		return b
	}
	return secp.SerializeCompressed(q)
}

func TestECDSAVerify(t *testing.T) {
	calibrate(t)
	rapid.Check(t, func(t *rapid.T) {
		msg := genMsg().Draw(t, "msg")
		if rapid.IntRange(0, 7).Draw(t, "smallmsg") == 0 {
			// below 2^256 - n, so that msg + n (same e mod n) is expressible
			msg = b32(fromBytes(rapid.SliceOfN(rapid.Byte(), 1, 16).Draw(t, "msg128")))
		}
		var q secp.Point
		var r, s *big.Int
		cls := ""
		mode := rapid.IntRange(0, 9).Draw(t, "mode")
		switch {
		case mode <= 4:
			d := genPriv().Draw(t, "d")
			k := genPriv().Draw(t, "k")
			var ok bool
			r, s, ok = secp.SignECDSA(d, msg, k)
			if !ok {
				t.Skip("degenerate nonce")
			}
			q = secp.BaseMul(d)
			cls = "valid-signed"
			if rapid.IntRange(0, 3).Draw(t, "highS") == 0 {
				s = new(big.Int).Sub(secp.N, s)
				cls = "valid-highS"
			}
		case mode <= 7:
			// recovered key: any in-range (r,s) pair that has a curve point
			recid := rapid.IntRange(0, 3).Draw(t, "recid")
			if recid >= 2 {
				// R.x = r + n must stay below p: r < p - n (about 2^128)
				r = fromBytes(rapid.SliceOfN(rapid.Byte(), 1, 16).Draw(t, "rsmall"))
				if rapid.IntRange(0, 7).Draw(t, "redge") == 0 {
					r = add(pMinusN, int64(-rapid.IntRange(1, 40).Draw(t, "rdelta")))
				}
			} else if rapid.Bool().Draw(t, "rinrange") {
				r = genPriv().Draw(t, "rin")
			} else {
				r = genU256().Draw(t, "r")
			}
			if rapid.Bool().Draw(t, "sinrange") {
				s = genPriv().Draw(t, "sin")
			} else {
				s = genU256().Draw(t, "s")
			}
			var ok bool
			q, ok = secp.RecoverECDSA(msg, r, s, recid)
			if !ok {
				// out of range or no curve point: still a (certainly invalid) triple under some key
				q = secp.BaseMul(genPriv().Draw(t, "dq"))
				cls = "boundary-rs"
			} else if recid >= 2 {
				cls = "valid-recovered-overflow"
			} else {
				cls = "valid-recovered"
			}
		default:
			q = secp.BaseMul(genPriv().Draw(t, "dq"))
			r = genU256().Draw(t, "r")
			s = genU256().Draw(t, "s")
			cls = "boundary-rs"
		}
		wantValid := cls != "boundary-rs"

		// one mutation
		mut := "none"
		if wantValid {
			mutKind := rapid.IntRange(0, 17).Draw(t, "mut")
			if fromBytes(msg).BitLen() <= 128 && mutKind >= 10 && mutKind%2 == 0 {
				mutKind = 6
			}
			switch mutKind {
			case 0:
				r, mut = add(r, 1), "r+1"
			case 1:
				r, mut = add(r, -1), "r-1"
			case 2:
				s, mut = add(s, 1), "s+1"
			case 3:
				s, mut = add(s, -1), "s-1"
			case 4:
				s, mut = new(big.Int).Sub(secp.N, s), "s->n-s" // still valid
			case 5:
				m2 := append([]byte(nil), msg...)
				m2[rapid.IntRange(0, 31).Draw(t, "mbyte")] ^= byte(1 << rapid.IntRange(0, 7).Draw(t, "mbit"))
				msg, mut = m2, "msg-bit"
			case 6:
				// e = msg mod n: adding n keeps the equation when it still fits 256 bits
				m2 := new(big.Int).Add(fromBytes(msg), secp.N)
				if m2.Cmp(two256) < 0 {
					msg, mut = b32(m2), "msg+n"
				}
			case 7:
				q, mut = secp.Neg(q), "key-negated"
			case 8:
				q, mut = secp.BaseMul(genPriv().Draw(t, "otherkey")), "key-replaced"
			case 9:
				r, s, mut = s, r, "swap"
			}
			if r.Sign() < 0 || s.Sign() < 0 {
				t.Skip("negative after mutation")
			}
		}
		preserved := mut == "none" || mut == "s->n-s" || mut == "msg+n"
		if wantValid && !preserved {
			cls = "mutated-invalid"
		} else if mut == "msg+n" {
			cls = "valid-msg-plus-n"
		}

		// encode
		var raw []byte
		lax := rapid.IntRange(0, 3).Draw(t, "lax") == 0
		if lax {
			raw = genDER(t, r, s).raw
		} else {
			raw = secp.EncodeDER(r, s)
		}
		keyBytes := encodeKey(t, q)

		nt := cls != "valid-signed" || lax || keyBytes[0] >= 6 || isBoundary(r) || isBoundary(s)
		recVerify.Case(nt, cls, ev.Hash(raw, msg, keyBytes), func() any {
			return fmt.Sprintf("sig=%x msg=%x key=%x mut=%s", raw, msg, keyBytes, mut)
		})

		key, err := btcec.ParsePubKey(keyBytes)
		if err != nil {
			t.Fatalf("ParsePubKey rejected the valid key encoding %x: %v", keyBytes, err)
		}
		if !secp.Equal(pointOf(key), q) {
			t.Fatalf("ParsePubKey(%x) = %x, reference point (%x,%x)", keyBytes, key.SerializeUncompressed(), q.X, q.Y)
		}

		sigs := map[string]*ecdsa.Signature{}
		if sg, err := ecdsa.ParseDERSignature(raw); err == nil {
			sigs["strict"] = sg
		}
		if sg, err := ecdsa.ParseSignature(raw); err == nil {
			sigs["lax"] = sg
		}
		if !lax && inRange(r) && inRange(s) && len(sigs) != 2 {
			t.Fatalf("canonical encoding %x of in-range (r,s) rejected (%d parsers accepted)", raw, len(sigs))
		}
		for _, name := range []string{"strict", "lax"} {
			sg := sigs[name]
			if sg == nil {
				continue
			}
			gr, gs := sg.R(), sg.S()
			pr, ps := scalarToBig(&gr), scalarToBig(&gs)
			want := secp.VerifyECDSA(q, msg, pr, ps)
			if !lax && preserved && wantValid && !want {
				t.Fatalf("VERIF-INFRA: reference rejects a triple that is valid by construction: sig=%x msg=%x key=%x", raw, msg, keyBytes)
			}
			msgIn := append([]byte(nil), msg...)
			got := sg.Verify(msgIn, key)
			if got != want {
				t.Fatalf("%s-parsed signature %x (r=%x s=%x) msg=%x key=%x: Verify=%v, reference ECDSA equation=%v (class %s, mutation %s)",
					name, raw, pr, ps, msg, keyBytes, got, want, cls, mut)
			}
		}
	})
}

// ---------------------------------------------------------------------------
// signers

var recSign = ev.New("C11", "ecdsa-sign",
	"private keys {1,2,3,n-1,n-2,n/2,random} x messages {0,ff..,n,n+-1,random}; ecdsa.Sign and SignCompact(compressed/uncompressed); "+
		"oracle: signature verifies under btcd and under the reference equation, s <= n/2, Serialize is BIP66-strict canonical DER and "+
		"round-trips through both parsers, signing is deterministic, compact r,s equal Sign's, RecoverCompact returns the signer key and "+
		"flag, the recovery code equals the SEC1 4.1.6 candidate index; non-trivial = boundary key or message; distinct by (key,msg)",
	"boundary-key", "boundary-msg", "random")

func TestECDSASign(t *testing.T) {
	calibrate(t)
	rapid.Check(t, func(t *rapid.T) {
		d := genPriv().Draw(t, "d")
		msg := genMsg().Draw(t, "msg")
		compressed := rapid.Bool().Draw(t, "compressed")
		cls := "random"
		switch {
		case d.BitLen() <= 2 || new(big.Int).Sub(secp.N, d).BitLen() <= 2 || new(big.Int).Sub(d, secp.HalfN).BitLen() <= 1:
			cls = "boundary-key"
		case isBoundary(fromBytes(msg)) || bytes.Equal(msg, bytes.Repeat([]byte{0xff}, 32)):
			cls = "boundary-msg"
		}
		recSign.Case(cls != "random", cls, ev.Hash(b32(d), msg, []byte{b2b(compressed)}), func() any {
			return fmt.Sprintf("d=%x msg=%x compressed=%v", d, msg, compressed)
		})

		priv := privFromBig(d)
		q := secp.BaseMul(d)
		pub := priv.PubKey()
		if !secp.Equal(pointOf(pub), q) {
			t.Fatalf("PubKey() of d=%x is %x, reference d*G = (%x,%x)", d, pub.SerializeUncompressed(), q.X, q.Y)
		}
		sig := ecdsa.Sign(priv, msg)
		gr, gs := sig.R(), sig.S()
		r, s := scalarToBig(&gr), scalarToBig(&gs)
		if !sig.Verify(msg, pub) {
			t.Fatalf("ecdsa.Sign(d=%x, msg=%x) = (%x,%x) does not verify under btcd", d, msg, r, s)
		}
		if !secp.VerifyECDSA(q, msg, r, s) {
			t.Fatalf("ecdsa.Sign(d=%x, msg=%x) = (%x,%x) violates the reference ECDSA equation", d, msg, r, s)
		}
		if s.Cmp(secp.HalfN) > 0 {
			t.Fatalf("ecdsa.Sign(d=%x, msg=%x) produced high S %x", d, msg, s)
		}
		der := sig.Serialize()
		if !secp.IsStrictDER(der) || !bytes.Equal(der, secp.EncodeDER(r, s)) {
			t.Fatalf("Serialize() = %x is not the canonical DER %x of (r,s)", der, secp.EncodeDER(r, s))
		}
		if err := ecdsa.VerifyLowS(der); err != nil {
			t.Fatalf("VerifyLowS(%x): %v", der, err)
		}
		for name, parse := range map[string]func([]byte) (*ecdsa.Signature, error){"ParseDERSignature": ecdsa.ParseDERSignature, "ParseSignature": ecdsa.ParseSignature} {
			back, err := parse(der)
			if err != nil || !back.IsEqual(sig) {
				t.Fatalf("%s(Serialize()) round trip failed for %x: %v", name, der, err)
			}
		}
		if again := ecdsa.Sign(priv, msg); !again.IsEqual(sig) {
			t.Fatalf("ecdsa.Sign is not deterministic for d=%x msg=%x", d, msg)
		}

		// compact signature and recovery
		cs := ecdsa.SignCompact(priv, msg, compressed)
		if len(cs) != 65 || !bytes.Equal(cs[1:33], b32(r)) || !bytes.Equal(cs[33:], b32(s)) {
			t.Fatalf("SignCompact = %x, expected r,s of Sign (%x,%x)", cs, r, s)
		}
		code := int(cs[0]) - 27
		if code < 0 || code > 7 || (code&4 != 0) != compressed {
			t.Fatalf("SignCompact header byte %d inconsistent with compressed=%v", cs[0], compressed)
		}
		cand, ok := secp.RecoverECDSA(msg, r, s, code&3)
		if !ok || !secp.Equal(cand, q) {
			t.Fatalf("SignCompact recovery code %d does not designate the signer key under SEC1 4.1.6 (sig %x, msg %x)", code&3, cs, msg)
		}
		rk, wasComp, err := ecdsa.RecoverCompact(cs, msg)
		if err != nil || !rk.IsEqual(pub) || wasComp != compressed {
			t.Fatalf("RecoverCompact(SignCompact(d=%x,msg=%x)) = %v,%v,%v; want the signer key", d, msg, rk, wasComp, err)
		}
	})
}

func b2b(b bool) byte {
	if b {
		return 1
	}
	return 0
}

var recRecover = ev.New("C11", "ecdsa-recover",
	"65-byte compact signatures: header from {26,27..34,35,0,255}, r,s from the boundary mixture or a genuine signature with one component "+
		"mutated; oracle: RecoverCompact succeeds <=> the SEC1 4.1.6 reference recovers a finite key, same key and compressed flag, and "+
		"the recovered key verifies (r,s) under the reference equation; non-trivial = header or r/s at a boundary, or r+n branch; distinct by bytes",
	"recovered", "rejected", "overflow-branch", "bad-header")

func TestRecoverCompact(t *testing.T) {
	calibrate(t)
	rapid.Check(t, func(t *rapid.T) {
		msg := genMsg().Draw(t, "msg")
		var r, s *big.Int
		hdr := byte(27 + rapid.IntRange(0, 7).Draw(t, "code"))
		if rapid.IntRange(0, 2).Draw(t, "genuine") == 0 {
			d := genPriv().Draw(t, "d")
			k := genPriv().Draw(t, "k")
			var ok bool
			if r, s, ok = secp.SignECDSA(d, msg, k); !ok {
				t.Skip("degenerate")
			}
		} else {
			if (hdr-27)&2 != 0 && rapid.IntRange(0, 3).Draw(t, "smallr") != 0 {
				r = fromBytes(rapid.SliceOfN(rapid.Byte(), 1, 16).Draw(t, "rsmall"))
				if rapid.IntRange(0, 5).Draw(t, "redge") == 0 {
					r = add(pMinusN, int64(rapid.IntRange(-3, 3).Draw(t, "rdelta")))
				}
			} else {
				r = genU256().Draw(t, "r")
			}
			s = genU256().Draw(t, "s")
		}
		if rapid.IntRange(0, 9).Draw(t, "hdrdev") == 0 {
			hdr = rapid.SampledFrom([]byte{0, 1, 26, 35, 36, 255}).Draw(t, "hdr")
		}
		raw := cat([]byte{hdr}, b32(r), b32(s))
		if rapid.IntRange(0, 29).Draw(t, "lendev") == 0 {
			raw = append(raw, 0)
		}

		var want secp.Point
		wantOK := false
		if len(raw) == 65 && hdr >= 27 && hdr <= 34 {
			want, wantOK = secp.RecoverECDSA(msg, r, s, int(hdr-27)&3)
		}
		cls := "rejected"
		switch {
		case hdr < 27 || hdr > 34:
			cls = "bad-header"
		case wantOK && (hdr-27)&2 != 0:
			cls = "overflow-branch"
		case wantOK:
			cls = "recovered"
		}
		recRecover.Case(cls != "recovered" || isBoundary(r) || isBoundary(s), cls, ev.Hash(raw, msg), func() any {
			return fmt.Sprintf("compact=%x msg=%x", raw, msg)
		})

		key, comp, err := ecdsa.RecoverCompact(raw, msg)
		if (err == nil) != wantOK {
			t.Fatalf("RecoverCompact(%x, msg=%x): err=%v, reference recovery ok=%v", raw, msg, err, wantOK)
		}
		if err != nil {
			return
		}
		if !secp.Equal(pointOf(key), want) {
			t.Fatalf("RecoverCompact(%x, msg=%x) = %x, reference key (%x,%x)", raw, msg, key.SerializeUncompressed(), want.X, want.Y)
		}
		if comp != ((hdr-27)&4 != 0) {
			t.Fatalf("RecoverCompact(%x): compressed flag %v", raw, comp)
		}
		if !secp.VerifyECDSA(want, msg, r, s) {
			t.Fatalf("VERIF-INFRA: recovered key does not verify (r,s) in the reference")
		}
		var rs, ss btcec.ModNScalar
		rs.SetByteSlice(b32(r))
		ss.SetByteSlice(b32(s))
		if !ecdsa.NewSignature(&rs, &ss).Verify(msg, key) {
			t.Fatalf("signature (%x,%x) does not verify under the key RecoverCompact returned for msg %x", r, s, msg)
		}
	})
}
