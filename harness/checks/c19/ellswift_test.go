package c19

import (
	"bytes"
	"errors"
	"fmt"
	"math/big"
	"testing"

	"github.com/btcsuite/btcd/btcec/v2/ellswift"
	"github.com/btcsuite/btcd/v2transport"
	"pgregory.net/rapid"

	"verif/internal/ev"
	"verif/internal/model/bip324"
	"verif/internal/model/secp"
)

var two256m1 = new(big.Int).Sub(new(big.Int).Lsh(big.NewInt(1), 256), big.NewInt(1))

// gen256 draws a 256-bit integer with the field boundaries over-represented.
func gen256(t *rapid.T, label string) *big.Int {
	switch k := rapid.IntRange(0, 9).Draw(t, label+"-kind"); {
	case k < 3:
		base := rapid.SampledFrom([]*big.Int{big.NewInt(0), secp.P, two256m1, new(big.Int).Rsh(secp.P, 1)}).Draw(t, label+"-base")
		d := rapid.IntRange(-3, 3).Draw(t, label+"-delta")
		v := new(big.Int).Add(base, big.NewInt(int64(d)))
		if v.Sign() < 0 {
			v.Neg(v)
		}
		if v.Cmp(two256m1) > 0 {
			v.Set(two256m1)
		}
		return v
	case k < 4:
		return big.NewInt(int64(rapid.IntRange(0, 1000).Draw(t, label+"-small")))
	default:
		return new(big.Int).SetBytes(rapid.SliceOfN(rapid.Byte(), 32, 32).Draw(t, label+"-bytes"))
	}
}

func modP(v *big.Int) *big.Int { return new(big.Int).Mod(v, secp.P) }

// genValidX draws the x coordinate of a curve point.
func genValidX(t *rapid.T, label string) *big.Int {
	if rapid.IntRange(0, 3).Draw(t, label+"-kind") == 0 {
		// x of k*G for small k (cheap) or of a pool key
		return poolKey(rapid.IntRange(0, keyPoolSize-1).Draw(t, label+"-pool")).x
	}
	x := modP(gen256(t, label))
	for !bip324.IsValidX(x) {
		x = modP(new(big.Int).Add(x, big.NewInt(1)))
	}
	return x
}

// ---------------------------------------------------------------------------
// XSwiftEC decoding

var recXS = ev.New("C19", "xswiftec",
	"64 arbitrary bytes (u,t) with 0, p-1, p, p+1, 2^256-1 and their neighbours over-represented, and pairs on the exceptional branch u^3+t^2+7=0; "+
		"oracle: BIP324 XSwiftEC over math/big; compared with ellswift.XSwiftEC on the reduced values and with EllswiftECDHXOnly for private keys 1..3 (x(k*lift_x(.))). "+
		"Non-trivial = u or t reduces (>= p) or is 0 mod p, or the exceptional branch, or candidate 2/3 is returned; distinct by the 64 bytes",
	"candidate-1", "candidate-2", "candidate-3", "doubled-t", "u=0", "t=0", "u>=p", "t>=p")

func TestXSwiftEC(t *testing.T) {
	calibrate(t)
	rapid.Check(t, func(t *rapid.T) {
		u := gen256(t, "u")
		tt := gen256(t, "t")
		if rapid.IntRange(0, 7).Draw(t, "exceptional") == 0 {
			// t^2 = -(u^3+7) when that is a square
			uu := modP(u)
			if uu.Sign() == 0 {
				uu = big.NewInt(1)
			}
			g := new(big.Int).Exp(uu, big.NewInt(3), secp.P)
			g.Add(g, big.NewInt(7))
			g.Neg(g)
			if r, ok := secp.Sqrt(modP(g)); ok && r.Sign() != 0 {
				tt = r
				if rapid.Bool().Draw(t, "neg-root") {
					tt = new(big.Int).Sub(secp.P, r)
				}
			}
		}
		var enc [64]byte
		u.FillBytes(enc[:32])
		tt.FillBytes(enc[32:])
		want, cand, doubled := bip324.XSwiftECTrace(u, tt)
		cl := fmt.Sprintf("candidate-%d", cand+1)
		nt := cand > 0 || doubled || u.Cmp(secp.P) >= 0 || tt.Cmp(secp.P) >= 0 || modP(u).Sign() == 0 || modP(tt).Sign() == 0
		recXS.Case(nt, cl, ev.Hash(enc[:]), func() any { return fmt.Sprintf("u=%x t=%x -> x=%x (%s, doubled=%v)", u, tt, want, cl, doubled) })
		cnt := func(b bool, l string) {
			if b {
				recXS.Count(l, 1)
			}
		}
		cnt(doubled, "doubled-t")
		cnt(modP(u).Sign() == 0, "u=0")
		cnt(modP(tt).Sign() == 0, "t=0")
		cnt(u.Cmp(secp.P) >= 0, "u>=p")
		cnt(tt.Cmp(secp.P) >= 0, "t>=p")

		got, err := ellswift.XSwiftEC(fieldValFromBytes(enc[:32]), fieldValFromBytes(enc[32:]))
		if err != nil {
			t.Fatalf("XSwiftEC(u=%x, t=%x) fails: %v; BIP324 value x=%x", u, tt, err, want)
		}
		if g := fieldInt(got); g.Cmp(want) != 0 {
			t.Fatalf("XSwiftEC(u=%x, t=%x) = %x, BIP324 value %x (%s, doubled=%v)", u, tt, g, want, cl, doubled)
		}
		// through the public decoding path, with a tiny private key
		k := int64(rapid.IntRange(1, 3).Draw(t, "k"))
		pt, _ := secp.LiftX(want)
		wantShared := secp.Bytes32(secp.Mul(big.NewInt(k), pt).X)
		shared, err := ellswift.EllswiftECDHXOnly(enc, privKey(big.NewInt(k)))
		if err != nil {
			t.Fatalf("EllswiftECDHXOnly(%x, priv=%d) fails: %v", enc, k, err)
		}
		if !bytes.Equal(shared[:], wantShared) {
			t.Fatalf("EllswiftECDHXOnly(%x, priv=%d) = %x, reference %x", enc, k, shared, wantShared)
		}
	})
}

// ---------------------------------------------------------------------------
// XSwiftECInv: all 8 branches

var recInv = ev.New("C19", "xswiftec-inv",
	"valid x coordinates (from keys, boundary values rounded up to the next valid x, uniform) x non-zero u (uniform, boundary, u=x so that s=0, u=x/omega so that u^2+ux+x^2=0, u with r=0) x all 8 cases; "+
		"oracle: every t that btcd's XSwiftECInv returns decodes to x through the reference XSwiftEC and through btcd's; agreement with BIP324's XSwiftECInv (None pattern, sign of t) is only counted. "+
		"Non-trivial = at least one case yields t; distinct by (u,x)",
	"case0", "case1", "case2", "case3", "case4", "case5", "case6", "case7", "none-all", "s=0", "r=0", "denominator=0")

func TestXSwiftECInv(t *testing.T) {
	calibrate(t)
	half := new(big.Int).ModInverse(big.NewInt(2), secp.P)
	omega := modP(new(big.Int).Mul(new(big.Int).Sub(bip324.MinusThreeSqrt, big.NewInt(1)), half)) // (-1+c)/2
	rapid.Check(t, func(t *rapid.T) {
		x := genValidX(t, "x")
		u := modP(gen256(t, "u"))
		special := ""
		switch rapid.IntRange(0, 11).Draw(t, "special") {
		case 0:
			u, special = new(big.Int).Set(x), "s=0"
		case 1:
			// u^2+ux+x^2 = 0  <=>  x = omega*u or omega^2*u
			w := omega
			if rapid.Bool().Draw(t, "omega2") {
				w = modP(new(big.Int).Mul(omega, omega))
			}
			u, special = modP(new(big.Int).Mul(x, new(big.Int).ModInverse(w, secp.P))), "denominator=0"
		case 2:
			// r = 0: s = -4(u^3+7)/(3u^2), x = u+s must be a valid x
			for tries := 0; tries < 64; tries++ {
				if u.Sign() != 0 {
					g := new(big.Int).Exp(u, big.NewInt(3), secp.P)
					g.Add(g, big.NewInt(7))
					g.Mul(g, big.NewInt(-4))
					den := modP(new(big.Int).Mul(big.NewInt(3), new(big.Int).Mul(u, u)))
					s := modP(new(big.Int).Mul(g, new(big.Int).ModInverse(den, secp.P)))
					cand := modP(new(big.Int).Add(u, s))
					if s.Sign() != 0 && bip324.IsValidX(cand) {
						x, special = cand, "r=0"
						break
					}
				}
				u = modP(new(big.Int).Add(u, big.NewInt(1)))
			}
		}
		if u.Sign() == 0 {
			u = big.NewInt(1) // XSwiftECInv is defined for non-zero u
		}
		var ts [8]*big.Int
		some := false
		for c := 0; c < 8; c++ {
			ts[c] = bip324.XSwiftECInv(x, u, c)
			some = some || ts[c] != nil
		}
		cl := "none-all"
		for c := 0; c < 8; c++ {
			if ts[c] != nil {
				cl = fmt.Sprintf("case%d", c)
				recInv.Count(cl, 1)
			}
		}
		recInv.Case(some, "", ev.Hash(u.Bytes(), x.Bytes()), func() any { return fmt.Sprintf("u=%x x=%x solutions=%v %s", u, x, ts, special) })
		if !some {
			recInv.Count("none-all", 1)
		}
		if special != "" {
			recInv.Count(special, 1)
		}
		for c := 0; c < 8; c++ {
			got := ellswift.XSwiftECInv(fieldVal(u), fieldVal(x), c)
			want := ts[c]
			// The property only demands that an encoding decodes to x. Agreement
			// with BIP324's XSwiftECInv (which cases have a solution, and which
			// of +-t) is recorded as evidence, not asserted.
			if (got == nil) != (want == nil) || (got != nil && fieldInt(got).Cmp(want) != 0) {
				recInv.Count("differs-from-BIP324-XSwiftECInv", 1)
			}
			if want != nil {
				if back := bip324.XSwiftEC(u, want); back.Cmp(x) != 0 {
					t.Fatalf("VERIF-INFRA: reference XSwiftEC(u, XSwiftECInv(x,u,%d)) = %x != x=%x", c, back, x)
				}
			}
			if got == nil {
				continue
			}
			g := fieldInt(got)
			if back := bip324.XSwiftEC(u, g); back.Cmp(x) != 0 {
				t.Fatalf("XSwiftECInv(u=%x, x=%x, case %d) = %x, which decodes (BIP324 XSwiftEC) to %x instead of x; BIP324's t is %x (nil = None) %s", u, x, c, g, back, want, special)
			}
			back, err := ellswift.XSwiftEC(fieldVal(u), fieldVal(g))
			if err != nil || fieldInt(back).Cmp(x) != 0 {
				t.Fatalf("XSwiftEC(u=%x, t=%x) = %v (err %v), but t encodes x=%x (case %d)", u, g, back, err, x, c)
			}
		}
	})
}

// ---------------------------------------------------------------------------
// encoders: XElligatorSwift / EllswiftCreate decode to the encoded x

var recEnc = ev.New("C19", "ellswift-encode",
	"valid x coordinates through ellswift.XElligatorSwift (btcd picks u and the case from crypto/rand), and one ellswift.EllswiftCreate() key pair per case; "+
		"oracle: the reference XSwiftEC decodes the 64 bytes to x, resp. to x(priv*G) computed by the reference curve arithmetic; every case is non-trivial; distinct by x",
	"xelligatorswift", "ellswiftcreate")

func TestEllswiftEncode(t *testing.T) {
	calibrate(t)
	rapid.Check(t, func(t *rapid.T) {
		x := genValidX(t, "x")
		recEnc.Case(true, "xelligatorswift", ev.Hash(x.Bytes()), func() any { return fmt.Sprintf("x=%x", x) })
		uF, tF, err := ellswift.XElligatorSwift(fieldVal(x))
		if err != nil {
			t.Fatalf("XElligatorSwift(%x): %v", x, err)
		}
		u, tt := fieldInt(uF), fieldInt(tF)
		if back := bip324.XSwiftEC(u, tt); back.Cmp(x) != 0 {
			t.Fatalf("XElligatorSwift(x=%x) = (u=%x, t=%x), which decodes to %x", x, u, tt, back)
		}
		if rapid.IntRange(0, 3).Draw(t, "create") == 0 {
			priv, enc, err := ellswift.EllswiftCreate()
			if err != nil {
				t.Fatalf("EllswiftCreate: %v", err)
			}
			recEnc.Count("ellswiftcreate", 1)
			d := new(big.Int).SetBytes(priv.Serialize())
			want := secp.BaseMul(d).X
			if got := bip324.EllswiftDecode(enc); got.Cmp(want) != 0 {
				t.Fatalf("EllswiftCreate: priv=%x encoding=%x decodes to x=%x, public key has x=%x", d, enc, got, want)
			}
		}
	})
}

// ---------------------------------------------------------------------------
// ECDH

var recECDH = ev.New("C19", "ecdh",
	"two private keys (pool incl. 1, 2, n-1, or uniform) with reference-made ElligatorSwift encodings, or one private key against 64 arbitrary bytes (boundary-biased); "+
		"oracle: V2Ecdh(initiator view) = V2Ecdh(responder view) = reference tagged hash bip324_ellswift_xonly_ecdh(ell_initiator || ell_responder || x); "+
		"non-trivial = always (two independent implementations of map, multiplication and hash); distinct by keys/encodings",
	"two-sided", "arbitrary-bytes")

func TestECDH(t *testing.T) {
	calibrate(t)
	rapid.Check(t, func(t *rapid.T) {
		a := genModelKey(t, "a")
		seed := rapid.Uint64().Draw(t, "seed")
		encA, _ := bip324.EllswiftEncodeX(a.x, bip324.NewEntropy(seedBytes(seed, "a")))
		if rapid.IntRange(0, 2).Draw(t, "arbitrary") == 0 {
			var theirs [64]byte
			gen256(t, "u").FillBytes(theirs[:32])
			gen256(t, "t").FillBytes(theirs[32:])
			initiating := rapid.Bool().Draw(t, "initiating")
			recECDH.Case(true, "arbitrary-bytes", ev.Hash(a.priv.Bytes(), theirs[:], encA[:]), func() any {
				return fmt.Sprintf("priv=%x theirs=%x initiating=%v", a.priv, theirs, initiating)
			})
			want := bip324.V2ECDH(a.priv, theirs, encA, initiating)
			got, err := ellswift.V2Ecdh(privKey(a.priv), theirs, encA, initiating)
			if err != nil || !bytes.Equal(got[:], want[:]) {
				t.Fatalf("V2Ecdh(priv=%x, theirs=%x, ours=%x, initiating=%v) = %v (err %v), BIP324 %x", a.priv, theirs, encA, initiating, got, err, want)
			}
			return
		}
		b := genModelKey(t, "b")
		encB, _ := bip324.EllswiftEncodeX(b.x, bip324.NewEntropy(seedBytes(seed, "b")))
		recECDH.Case(true, "two-sided", ev.Hash(a.priv.Bytes(), b.priv.Bytes(), encA[:], encB[:]), func() any {
			return fmt.Sprintf("initiator priv=%x ell=%x responder priv=%x ell=%x", a.priv, encA, b.priv, encB)
		})
		want := bip324.V2ECDH(a.priv, encB, encA, true)
		gi, err1 := ellswift.V2Ecdh(privKey(a.priv), encB, encA, true)
		gr, err2 := ellswift.V2Ecdh(privKey(b.priv), encA, encB, false)
		if err1 != nil || err2 != nil {
			t.Fatalf("V2Ecdh fails: %v / %v", err1, err2)
		}
		if !bytes.Equal(gi[:], gr[:]) || !bytes.Equal(gi[:], want[:]) {
			t.Fatalf("shared secret: initiator %x, responder %x, BIP324 %x (privs %x / %x, encodings %x / %x)", gi[:], gr[:], want, a.priv, b.priv, encA, encB)
		}
	})
}

// ---------------------------------------------------------------------------
// v1 detection

var recV1 = ev.New("C19", "v1-detect",
	"responder streams: the 16-byte v1 version-message prefix of the right network, of another network, with one byte altered, truncated, other commands, random v2 keys; followed by 0-100 more bytes. "+
		"Oracle: RespondV2Handshake returns ErrUseV1Protocol iff the first 16 bytes equal magic||\"version\\0\\0\\0\\0\\0\" for the responder's network. "+
		"Non-trivial = the stream shares at least 4 leading bytes with the v1 prefix; distinct by stream and network",
	"v1-right-net", "v1-other-net", "v1-one-byte-off", "v1-truncated", "other-command", "random")

func TestV1Detect(t *testing.T) {
	rapid.Check(t, func(t *rapid.T) {
		net := genNet().Draw(t, "net")
		magic := bip324.Magic(net)
		prefix := bip324.V1Prefix(magic)
		tail := rapid.SliceOfN(rapid.Byte(), 0, 100).Draw(t, "tail")
		var stream []byte
		cl := rapid.SampledFrom([]string{"v1-right-net", "v1-right-net", "v1-other-net", "v1-one-byte-off", "v1-one-byte-off", "v1-truncated", "other-command", "random"}).Draw(t, "kind")
		switch cl {
		case "v1-right-net":
			stream = append(append([]byte(nil), prefix...), tail...)
		case "v1-other-net":
			other := genNet().Draw(t, "other-net")
			om := bip324.Magic(other)
			stream = append(append([]byte(nil), bip324.V1Prefix(om)...), tail...)
		case "v1-one-byte-off":
			stream = append(append([]byte(nil), prefix...), tail...)
			pos := rapid.IntRange(0, 15).Draw(t, "pos")
			stream[pos] ^= byte(rapid.IntRange(1, 255).Draw(t, "xor"))
		case "v1-truncated":
			stream = append([]byte(nil), prefix[:rapid.IntRange(0, 15).Draw(t, "keep")]...)
		case "other-command":
			cmd := rapid.SampledFrom([]string{"verack", "versio", "version1", "Version", "ping"}).Draw(t, "cmd")
			var c12 [12]byte
			copy(c12[:], cmd)
			stream = append(append(append([]byte(nil), magic[:]...), c12[:]...), tail...)
		default:
			stream = append(rapid.SliceOfN(rapid.Byte(), 16, 64).Draw(t, "random"), tail...)
		}
		isV1 := len(stream) >= 16 && bytes.Equal(stream[:16], prefix)
		common := 0
		for common < len(stream) && common < 16 && stream[common] == prefix[common] {
			common++
		}
		recV1.Case(common >= 4, cl, ev.Hash(magic[:], stream), func() any {
			return fmt.Sprintf("net=%#x stream=%x expect v1=%v", net, head(stream), isV1)
		})
		w := newWire(genChunks(t))
		p := v2transport.NewPeer()
		p.UseReadWriter(w.end(0))
		w.end(1).Write(stream)
		err := p.RespondV2Handshake(rapid.SampledFrom([]int{0, 1, 4095}).Draw(t, "garbage"), v2transport.BitcoinNet(net))
		if got := errors.Is(err, v2transport.ErrUseV1Protocol); got != isV1 {
			t.Fatalf("RespondV2Handshake on stream %x (net %#x): err=%v, v1 version prefix of this network present: %v", head(stream), net, err, isV1)
		}
	})
}
