package c19

import (
	"bytes"
	"fmt"
	"testing"

	"github.com/btcsuite/btcd/v2transport"
	"pgregory.net/rapid"

	"verif/internal/ev"
	"verif/internal/model/bip324"
)

// ---------------------------------------------------------------------------
// authentication: fault scripts on the byte stream towards btcd

var recTamper = ev.New("C19", "tamper",
	"the reference endpoint's complete byte stream towards a btcd Peer (key, garbage, terminator, decoys, version packet, 0-40 application packets, sometimes across a rekey) with one fault: "+
		"bit flip / multi-byte overwrite / insertion / truncation at any offset (boundary-biased per region), drop / duplicate / swap / replay of whole packets, wrong AAD (none, altered, also on 2nd packet), "+
		"wrong garbage terminator (other role's, altered, zero), plus fault-free controls. Oracle: let d be the first offset where the faulty stream departs from the genuine one; "+
		"d inside the handshake => Respond/CompleteHandshake must fail; otherwise exactly the non-decoy packets that end before d are delivered unchanged and in order, the next V2ReceivePacket fails, "+
		"and so do further calls while unread bytes remain. Non-trivial = a fault was applied; distinct by parameters and fault",
	"none", "flip/key", "flip/garbage", "flip/terminator", "flip/hs-packet", "flip/app-length", "flip/app-body", "flip/app-tag",
	"truncate", "overwrite", "insert", "drop", "duplicate", "swap", "replay", "wrong-aad", "wrong-terminator")

// segment of the genuine stream
type seg struct {
	kind       string // key garbage term hs app
	start, end int
	ignore     bool
	contents   []byte
}

type tamperCase struct {
	btcdInit   bool
	net        uint32
	gB, gM     int
	key        *modelKey
	seed       uint64
	decoysM    []int
	versionLen int
	chunks     []int
	app        []pkt
	fault      string
	sel        [4]int // fault parameters, resolved against the layout
}

var faultKinds = []string{"none", "flip", "flip", "flip", "truncate", "truncate", "overwrite", "insert", "drop", "duplicate", "swap", "replay",
	"wrong-aad", "wrong-terminator"}

func genTamper(t *rapid.T) *tamperCase {
	c := &tamperCase{}
	c.btcdInit = rapid.Bool().Draw(t, "btcd-initiates")
	c.net = genNet().Draw(t, "net")
	c.gB = rapid.SampledFrom([]int{0, 1, 16, 100}).Draw(t, "garbage-btcd")
	c.gM = rapid.OneOf(rapid.SampledFrom(garbageBoundary), rapid.IntRange(0, 300), rapid.IntRange(0, bip324.MaxGarbageLen)).Draw(t, "garbage-model")
	c.key = poolKey(rapid.IntRange(0, keyPoolSize-1).Draw(t, "model-key"))
	c.seed = rapid.Uint64().Draw(t, "seed")
	c.decoysM = genDecoyLens(t, "decoys-model")
	if rapid.IntRange(0, 3).Draw(t, "version-nonempty") == 0 {
		c.versionLen = rapid.IntRange(1, 40).Draw(t, "version-len")
	}
	c.chunks = genChunks(t)
	hs := len(c.decoysM) + 1
	var n int
	switch k := pick(t, "app-kind", 10); {
	case k < 6:
		n = rapid.IntRange(0, 8).Draw(t, "app-n")
	case k < 8:
		n = rapid.IntRange(9, 40).Draw(t, "app-n")
	default:
		n = rapid.IntRange(222, 230).Draw(t, "app-n") - hs
	}
	c.app = make([]pkt, n)
	for i := range c.app {
		sz := rapid.OneOf(rapid.SampledFrom([]int{0, 1, 2, 15, 16, 17, 64}), rapid.IntRange(0, 120)).Draw(t, "app-size")
		if n < 10 && pick(t, "app-big", 20) == 0 {
			sz = rapid.IntRange(1000, 70000).Draw(t, "app-size-big")
		}
		c.app[i] = pkt{size: sz, ignore: rapid.IntRange(0, 3).Draw(t, "app-ign") == 0}
	}
	c.fault = rapid.SampledFrom(faultKinds).Draw(t, "fault")
	for i := range c.sel {
		c.sel[i] = rapid.IntRange(0, 1<<30).Draw(t, "fault-param")
	}
	return c
}

// buildStream produces the reference endpoint's genuine (or deliberately
// mis-authenticated) stream for the given shared secret, from fresh ciphers.
// aadMode: 0 correct; 1 no AAD; 2 altered AAD; 3 correct AAD on the first and
// on the second packet. termMode: 0 correct; 1 the other role's terminator;
// 2 all zero; 3 one bit altered.
func (c *tamperCase) buildStream(ep *bip324.Endpoint, aadMode, termMode int) (stream []byte, segs []seg) {
	s := bip324.NewSession(ep.Secret, ep.Initiating, ep.Magic)
	add := func(kind string, b []byte, ignore bool, contents []byte) {
		segs = append(segs, seg{kind, len(stream), len(stream) + len(b), ignore, contents})
		stream = append(stream, b...)
	}
	add("key", ep.Ours[:], false, nil)
	if len(ep.Garbage) > 0 {
		add("garbage", ep.Garbage, false, nil)
	}
	term := s.SendGT
	switch termMode {
	case 1:
		term = s.RecvGT
	case 2:
		term = [16]byte{}
	case 3:
		term[c.sel[1]%16] ^= 1 << (c.sel[2] % 8)
	}
	add("term", term[:], false, nil)
	aad := ep.Garbage
	switch aadMode {
	case 1:
		aad = nil
	case 2:
		aad = append([]byte(nil), ep.Garbage...)
		if len(aad) == 0 || c.sel[1]%3 == 0 {
			aad = append(aad, byte(c.sel[2]))
		} else {
			aad[c.sel[1]%len(aad)] ^= 1 << (c.sel[2] % 8)
		}
	}
	hsIdx := 0
	hsPacket := func(contents []byte, ignore bool) {
		a := []byte(nil)
		if hsIdx == 0 || (hsIdx == 1 && aadMode == 3) {
			a = aad
		}
		hsIdx++
		add("hs", s.EncPacket(contents, a, ignore), ignore, contents)
	}
	for i, n := range c.decoysM {
		hsPacket(expand(c.seed, -10-i, n), true)
	}
	hsPacket(expand(c.seed, -3, c.versionLen), false)
	for i, p := range c.app {
		contents := expand(c.seed, i, p.size)
		add("app", s.EncPacket(contents, nil, p.ignore), p.ignore, contents)
	}
	return stream, segs
}

func segsOf(segs []seg, kinds ...string) []int {
	var out []int
	for i, s := range segs {
		for _, k := range kinds {
			if s.kind == k {
				out = append(out, i)
			}
		}
	}
	return out
}

// offsetIn picks an offset inside segment s, biased to its edges.
func offsetIn(s seg, sel int) int {
	n := s.end - s.start
	switch sel % 5 {
	case 0:
		return s.start
	case 1:
		return s.end - 1
	case 2:
		if n > 3 {
			return s.start + 3 // first byte after a packet's length field
		}
	}
	return s.start + (sel/5)%n
}

// mutate applies the case's fault to the genuine stream. It returns the
// faulty stream and a class label. ep is needed for the faults that re-encrypt.
// The first 64 output bytes depend only on the first 64 input bytes.
func (c *tamperCase) mutate(ep *bip324.Endpoint, orig []byte, segs []seg) ([]byte, string) {
	cp := func() []byte { return append([]byte(nil), orig...) }
	packets := segsOf(segs, "hs", "app")
	assemble := func(order []int) []byte {
		out := append([]byte(nil), orig[:segs[packets[0]].start]...)
		for _, i := range order {
			out = append(out, orig[segs[i].start:segs[i].end]...)
		}
		return out
	}
	switch c.fault {
	case "none":
		return cp(), "none"
	case "flip":
		// choose a region kind first so that every kind is hit often
		kinds := []string{"key", "garbage", "term", "hs", "app", "app", "app"}
		kind := kinds[c.sel[0]%len(kinds)]
		cand := segsOf(segs, kind)
		if len(cand) == 0 {
			cand = segsOf(segs, "hs")
		}
		s := segs[cand[c.sel[1]%len(cand)]]
		off := offsetIn(s, c.sel[2])
		label := "flip/" + s.kind
		switch s.kind {
		case "term":
			label = "flip/terminator"
		case "hs":
			label = "flip/hs-packet"
		case "app":
			// aim at the three parts of a packet
			switch c.sel[2] % 3 {
			case 0:
				off, label = s.start+c.sel[3]%3, "flip/app-length"
			case 1:
				off, label = s.start+3+(c.sel[3]/8)%(s.end-s.start-19), "flip/app-body"
			default:
				off, label = s.end-16+(c.sel[3]/8)%16, "flip/app-tag"
			}
		}
		m := cp()
		m[off] ^= 1 << (c.sel[3] % 8)
		return m, label
	case "truncate":
		s := segs[c.sel[0]%len(segs)]
		off := offsetIn(s, c.sel[1])
		if c.sel[2]%7 == 0 {
			off = s.end
		}
		return cp()[:off], "truncate"
	case "overwrite":
		s := segs[c.sel[0]%len(segs)]
		off := offsetIn(s, c.sel[1])
		n := 1 + c.sel[2]%40
		m := cp()
		if off < 64 && off+n > 64 {
			n = 64 - off // keep the key region self-contained
		}
		if off+n > len(m) {
			n = len(m) - off
		}
		copy(m[off:off+n], expand(c.seed, -50, n))
		return m, "overwrite"
	case "insert":
		s := segs[1+c.sel[0]%(len(segs)-1)] // never inside the key
		off := offsetIn(s, c.sel[1])
		if c.sel[2]%5 == 0 {
			off = len(orig)
		}
		ins := expand(c.seed, -51, 1+c.sel[3]%40)
		m := append(append(append([]byte(nil), orig[:off]...), ins...), orig[off:]...)
		return m, "insert"
	case "drop":
		k := c.sel[0] % len(packets)
		order := append(append([]int(nil), packets[:k]...), packets[k+1:]...)
		return assemble(order), "drop"
	case "duplicate":
		k := c.sel[0] % len(packets)
		order := append(append(append([]int(nil), packets[:k+1]...), packets[k]), packets[k+1:]...)
		return assemble(order), "duplicate"
	case "swap":
		if len(packets) < 2 {
			return cp(), "none"
		}
		k := c.sel[0] % (len(packets) - 1)
		order := append([]int(nil), packets...)
		order[k], order[k+1] = order[k+1], order[k]
		return assemble(order), "swap"
	case "replay":
		if len(packets) < 2 {
			return cp(), "none"
		}
		j := 1 + c.sel[0]%(len(packets)-1) // position that receives an earlier packet
		i := c.sel[1] % j
		order := append([]int(nil), packets...)
		if c.sel[2]%2 == 0 {
			order[j] = packets[i] // replaces packet j
		} else {
			order = append(append(append([]int(nil), packets[:j]...), packets[i]), packets[j:]...) // inserted before j
		}
		return assemble(order), "replay"
	case "wrong-aad":
		mode := 1 + c.sel[0]%3
		if mode == 1 && len(ep.Garbage) == 0 {
			mode = 2
		}
		if mode == 3 && (len(c.decoysM) == 0 || len(ep.Garbage) == 0) {
			mode = 2
		}
		m, _ := c.buildStream(ep, mode, 0)
		return m, "wrong-aad"
	case "wrong-terminator":
		m, _ := c.buildStream(ep, 0, 1+c.sel[0]%3)
		return m, "wrong-terminator"
	}
	panic("unknown fault " + c.fault)
}

func firstDiff(a, b []byte) int {
	n := len(a)
	if len(b) < n {
		n = len(b)
	}
	for i := 0; i < n; i++ {
		if a[i] != b[i] {
			return i
		}
	}
	if len(a) == len(b) {
		return -1
	}
	return n
}

func TestTamper(t *testing.T) {
	calibrate(t)
	rapid.Check(t, func(t *rapid.T) {
		c := genTamper(t)
		magic := bip324.Magic(c.net)
		bnet := v2transport.BitcoinNet(c.net)
		w := newWire(c.chunks)
		bt := v2transport.NewPeer()
		bt.UseReadWriter(w.end(0))
		mw := w.end(1)
		model := modelEndpoint(!c.btcdInit, c.net, c.key, c.seed, c.gM)
		_ = magic

		// Layout and, for the key region, the faulty bytes are known before
		// btcd's key is: build a provisional stream with a dummy secret.
		var label string
		var orig, mut []byte
		var segs []seg
		var respErr error
		if c.btcdInit {
			if err := bt.InitiateV2Handshake(c.gB); err != nil {
				t.Fatalf("InitiateV2Handshake(%d): %v", c.gB, err)
			}
			if err := model.ReadKey(mw); err != nil {
				t.Fatalf("reference responder cannot read btcd's key: %v", err)
			}
			orig, segs = c.buildStream(model, 0, 0)
			mut, label = c.mutate(model, orig, segs)
			mw.Write(mut)
		} else {
			prov := *model
			prov.S = nil
			provOrig, provSegs := c.buildStream(&prov, 0, 0)
			provMut, _ := c.mutate(&prov, provOrig, provSegs)
			keyPart := provMut
			if len(keyPart) > 64 {
				keyPart = keyPart[:64]
			}
			mw.Write(keyPart)
			respErr = bt.RespondV2Handshake(c.gB, bnet)
			if respErr == nil {
				if err := model.ReadKey(mw); err != nil {
					t.Fatalf("reference initiator cannot read btcd's key: %v", err)
				}
				orig, segs = c.buildStream(model, 0, 0)
				mut, label = c.mutate(model, orig, segs)
				if len(mut) < len(keyPart) || !bytes.Equal(mut[:len(keyPart)], keyPart) {
					t.Fatalf("VERIF-INFRA: fault %s is not causal on the key region", c.fault)
				}
				mw.Write(mut[len(keyPart):])
			} else {
				// only a damaged key region can make Respond fail
				orig, segs, mut = provOrig, provSegs, provMut
				_, label = c.mutate(&prov, provOrig, provSegs)
			}
		}
		d := firstDiff(orig, mut)
		if d < 0 {
			label = "none"
		}
		hsEnd := 0
		for _, s := range segs {
			if s.kind != "app" {
				hsEnd = s.end
			}
		}
		rk := rekeys(len(c.decoysM)+1, len(c.app))
		recTamper.Case(label != "none", label, ev.Hash([]byte(fmt.Sprint(c.btcdInit, c.net, c.gB, c.gM, c.key.priv, c.seed, c.decoysM, c.versionLen, c.chunks, c.fault, c.sel)), hashPkts(c.app)),
			func() any {
				return fmt.Sprintf("btcd-initiator=%v garbage(model)=%d decoys=%v app=%d fault=%s first-diff=%d of %d (handshake ends at %d)", c.btcdInit, c.gM, c.decoysM, len(c.app), label, d, len(orig), hsEnd)
			})
		if rk > 0 {
			recTamper.Count("rekey-crossed", 1)
		}
		if d >= 0 && d < hsEnd {
			recTamper.Count("fault-in-handshake", 1)
		} else if d >= 0 {
			recTamper.Count("fault-after-handshake", 1)
		}

		desc := fmt.Sprintf("fault %s at first differing offset %d (stream %d bytes, handshake part %d, garbage %d, decoys %v, %d app packets)", label, d, len(orig), hsEnd, c.gM, c.decoysM, len(c.app))

		if respErr != nil {
			if d >= 0 && d < 64 {
				return // a damaged key region may already fail here (e.g. truncated key)
			}
			t.Fatalf("RespondV2Handshake fails on an intact key: %v; %s", respErr, desc)
		}
		hsErr := bt.CompleteHandshake(c.btcdInit, nil, bnet)
		if d >= 0 && d < hsEnd {
			if hsErr == nil {
				t.Fatalf("CompleteHandshake accepted a tampered handshake: %s", desc)
			}
			return
		}
		if hsErr != nil {
			obs := fmt.Sprintf("CompleteHandshake(initiating=%v) = %q with %d garbage bytes from the peer; %s", c.btcdInit, hsErr, c.gM, desc)
			if c.gM == bip324.MaxGarbageLen && hsErr.Error() == errNoGarbageTerm && recTamper.Known(sigGarbage4095, obs) {
				recTamper.Excluded()
				return
			}
			t.Fatalf("btcd fails an untouched handshake: %s", obs)
		}
		// packets wholly before the fault must arrive, nothing else may
		var want [][]byte
		for _, s := range segs {
			if s.kind == "app" && !s.ignore && (d < 0 || s.end <= d) {
				want = append(want, s.contents)
			}
		}
		for i, wc := range want {
			got, err := bt.V2ReceivePacket(nil)
			if err != nil {
				t.Fatalf("packet %d of %d before the fault was not delivered: %v; %s", i, len(want), err, desc)
			}
			if !bytes.Equal(got, wc) {
				t.Fatalf("packet %d delivered with contents %x, sent %x; %s", i, head(got), head(wc), desc)
			}
		}
		// The next call meets the fault (or the end of the stream) and must fail;
		// while unread bytes remain, later calls must fail too (each of them
		// makes btcd allocate a buffer of a random 24-bit length, hence the cap).
		for k := 0; k < 4; k++ {
			if got, err := bt.V2ReceivePacket(nil); err == nil {
				t.Fatalf("V2ReceivePacket call %d after the last intact packet returned plaintext %x (len %d): tampered or replayed data accepted; %s", k, head(got), len(got), desc)
			}
			if w.pending(0) == 0 {
				break
			}
		}
	})
}
