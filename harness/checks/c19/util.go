// Package c19 decides property C19: the BIP324 v2 transport of btcd
// (v2transport, btcec/ellswift) is interoperable with an independent reference
// endpoint, authenticated and in order.
package c19

import (
	"crypto/sha256"
	"encoding/binary"
	"fmt"
	"io"
	"math/big"
	"os"
	"path/filepath"
	"reflect"
	"sync"
	"unsafe"

	"github.com/btcsuite/btcd/btcec/v2"
	"github.com/btcsuite/btcd/v2transport"

	"verif/internal/model/bip324"
	"verif/internal/model/secp"
)

// ---------------------------------------------------------------------------
// in-memory duplex

// wire is a buffered duplex between side 0 (always a btcd Peer) and side 1
// (the reference endpoint, or a second btcd Peer). Writes never block. In the
// sequential mode a read from an empty queue returns io.EOF at once; in the
// blocking mode (two goroutines) it waits, and it returns io.EOF as soon as
// the other party is finished or is itself waiting on an empty queue, so a
// broken handshake ends in an error instead of a hang.
type wire struct {
	mu       sync.Mutex
	cond     *sync.Cond
	q        [2][]byte // q[i]: bytes in flight towards side i
	off      [2]int
	log      [2][]byte // everything ever sent towards side i
	blocking bool
	waiting  [2]bool
	done     [2]bool
	dead     bool
	chunks   []int // read sizes handed to side 0, cyclic (exercises short reads)
	chunkPos int
}

func newWire(chunks []int) *wire {
	w := &wire{chunks: chunks}
	w.cond = sync.NewCond(&w.mu)
	return w
}

type wireEnd struct {
	w    *wire
	side int
}

func (w *wire) end(side int) wireEnd { return wireEnd{w, side} }

func (w *wire) pending(side int) int {
	w.mu.Lock()
	defer w.mu.Unlock()
	return len(w.q[side]) - w.off[side]
}

// sent returns a copy of everything ever sent towards side.
func (w *wire) sent(side int) []byte {
	w.mu.Lock()
	defer w.mu.Unlock()
	return append([]byte(nil), w.log[side]...)
}

// finish marks the party on side as returned (blocking mode).
func (w *wire) finish(side int) {
	w.mu.Lock()
	w.done[side] = true
	w.cond.Broadcast()
	w.mu.Unlock()
}

func (e wireEnd) Write(p []byte) (int, error) {
	w := e.w
	w.mu.Lock()
	defer w.mu.Unlock()
	to := 1 - e.side
	w.q[to] = append(w.q[to], p...)
	w.log[to] = append(w.log[to], p...)
	w.cond.Broadcast()
	return len(p), nil
}

func (e wireEnd) Read(p []byte) (int, error) {
	w := e.w
	s := e.side
	w.mu.Lock()
	defer w.mu.Unlock()
	if len(p) == 0 {
		return 0, nil
	}
	for len(w.q[s])-w.off[s] == 0 {
		if !w.blocking || w.dead {
			return 0, io.EOF
		}
		o := 1 - s
		if w.done[o] || (w.waiting[o] && len(w.q[o])-w.off[o] == 0) {
			// nobody can ever write to us again
			w.dead = true
			w.cond.Broadcast()
			return 0, io.EOF
		}
		w.waiting[s] = true
		w.cond.Wait()
		w.waiting[s] = false
	}
	n := len(w.q[s]) - w.off[s]
	if n > len(p) {
		n = len(p)
	}
	if s == 0 && len(w.chunks) > 0 {
		c := w.chunks[w.chunkPos%len(w.chunks)]
		w.chunkPos++
		if c < n {
			n = c
		}
	}
	copy(p, w.q[s][w.off[s]:w.off[s]+n])
	w.off[s] += n
	if w.off[s] == len(w.q[s]) {
		w.q[s], w.off[s] = w.q[s][:0], 0
	}
	return n, nil
}

// ---------------------------------------------------------------------------
// deterministic expansion of rapid-drawn seeds (no math/rand, no clock)

func splitmix(x *uint64) uint64 {
	*x += 0x9e3779b97f4a7c15
	z := *x
	z = (z ^ (z >> 30)) * 0xbf58476d1ce4e5b9
	z = (z ^ (z >> 27)) * 0x94d049bb133111eb
	return z ^ (z >> 31)
}

// expand returns n bytes determined by (seed, index).
func expand(seed uint64, index int, n int) []byte {
	st := seed ^ (uint64(index)+1)*0xd6e8feb86659fd93
	out := make([]byte, n)
	i := 0
	for ; i+8 <= n; i += 8 {
		binary.LittleEndian.PutUint64(out[i:], splitmix(&st))
	}
	if i < n {
		var b [8]byte
		binary.LittleEndian.PutUint64(b[:], splitmix(&st))
		copy(out[i:], b[:])
	}
	return out
}

func seedBytes(seed uint64, tag string) []byte {
	var b [8]byte
	binary.LittleEndian.PutUint64(b[:], seed)
	return append(b[:], tag...)
}

// ---------------------------------------------------------------------------
// reference key pairs (BaseMul over math/big costs ~2 ms, so a pool is cached)

type modelKey struct {
	priv *big.Int
	x    *big.Int
}

var (
	keyMu    sync.Mutex
	keyCache = map[string]*modelKey{}
	nMinus1  = new(big.Int).Sub(secp.N, big.NewInt(1))
)

const keyPoolSize = 24

// poolKey returns the i-th key of a fixed pool: a few boundary scalars and
// hash-derived ones.
func poolKey(i int) *modelKey {
	var d *big.Int
	switch i {
	case 0:
		d = big.NewInt(1)
	case 1:
		d = big.NewInt(2)
	case 2:
		d = new(big.Int).Set(nMinus1)
	case 3:
		d = new(big.Int).Rsh(secp.N, 1)
	default:
		h := sha256.Sum256([]byte(fmt.Sprintf("verif/c19/pool/%d", i)))
		d = new(big.Int).SetBytes(h[:])
		d.Mod(d, nMinus1)
		d.Add(d, big.NewInt(1))
	}
	return keyFor(d)
}

func keyFor(d *big.Int) *modelKey {
	k := string(d.Bytes())
	keyMu.Lock()
	defer keyMu.Unlock()
	if mk, ok := keyCache[k]; ok {
		return mk
	}
	mk := &modelKey{priv: new(big.Int).Set(d), x: secp.BaseMul(d).X}
	if len(keyCache) < 4096 {
		keyCache[k] = mk
	}
	return mk
}

// ---------------------------------------------------------------------------
// calibration of the oracle on the BIP324 vectors

func corpusDir() string {
	if d := os.Getenv("VERIF_CORPUS"); d != "" {
		return filepath.Join(d, "c19")
	}
	return "/verif/corpus/c19"
}

var (
	calOnce sync.Once
	calErr  error
)

type fataler interface {
	Fatalf(format string, args ...any)
}

// calibrate fails with VERIF-INFRA if the reference disagrees with any
// official vector. TestVectors replays everything; the other test processes
// skip the ciphertext of the two multi-megabyte vectors.
func calibrate(t fataler) { calibrateLevel(t, false) }

func calibrateLevel(t fataler, full bool) {
	calOnce.Do(func() { calErr = bip324.SelfCheck(corpusDir(), full) })
	if calErr != nil {
		t.Fatalf("VERIF-INFRA: reference model disagrees with the BIP324 vectors in %s: %v", corpusDir(), calErr)
	}
}

// ---------------------------------------------------------------------------
// observation of unexported Peer state (read-only)

func peerField(t fataler, p *v2transport.Peer, name string) reflect.Value {
	f := reflect.ValueOf(p).Elem().FieldByName(name)
	if !f.IsValid() {
		t.Fatalf("VERIF-INFRA: v2transport.Peer has no field %q any more; the harness must be adapted", name)
	}
	return f
}

// peerSessionID reads Peer.sessionID (there is no exported accessor).
func peerSessionID(t fataler, p *v2transport.Peer) []byte {
	f := peerField(t, p, "sessionID")
	if f.Kind() != reflect.Slice || f.Type().Elem().Kind() != reflect.Uint8 {
		t.Fatalf("VERIF-INFRA: v2transport.Peer.sessionID is not a byte slice any more")
	}
	return append([]byte(nil), f.Bytes()...)
}

// peerPrivKey reads Peer.privkeyOurs.
func peerPrivKey(t fataler, p *v2transport.Peer) *big.Int {
	f := peerField(t, p, "privkeyOurs")
	if f.Kind() != reflect.Ptr || f.Type() != reflect.TypeOf((*btcec.PrivateKey)(nil)) {
		t.Fatalf("VERIF-INFRA: v2transport.Peer.privkeyOurs is not a *btcec.PrivateKey any more")
	}
	if f.IsNil() {
		t.Fatalf("VERIF-INFRA: Peer.privkeyOurs is nil after the handshake")
	}
	pk := (*btcec.PrivateKey)(unsafe.Pointer(f.Pointer()))
	return new(big.Int).SetBytes(pk.Serialize())
}

// fieldVal converts an integer in [0, p-1] into a normalized btcec.FieldVal.
func fieldVal(v *big.Int) *btcec.FieldVal {
	var f btcec.FieldVal
	f.SetByteSlice(secp.Bytes32(v))
	f.Normalize()
	return &f
}

// fieldValFromBytes mirrors what btcd's EllswiftECDHXOnly does with wire
// bytes: set, and reduce mod p.
func fieldValFromBytes(b []byte) *btcec.FieldVal {
	var f btcec.FieldVal
	f.SetByteSlice(b)
	f.Normalize()
	return &f
}

func fieldInt(f *btcec.FieldVal) *big.Int {
	c := *f
	c.Normalize()
	return new(big.Int).SetBytes(c.Bytes()[:])
}

func privKey(d *big.Int) *btcec.PrivateKey {
	k, _ := btcec.PrivKeyFromBytes(secp.Bytes32(d))
	return k
}
