package c19

import (
	"bytes"
	"encoding/binary"
	"fmt"
	"math/big"
	"os"
	"testing"

	"github.com/btcsuite/btcd/v2transport"
	"pgregory.net/rapid"

	"verif/internal/ev"
	"verif/internal/model/bip324"
	"verif/internal/model/secp"
	"verif/internal/scratch"
)

func TestMain(m *testing.M) {
	code := m.Run()
	scratch.Sweep()
	ev.Flush()
	os.Exit(code)
}

// sigGarbage4095 is the signature of defect F1 in /verif/known_findings.jsonl.
const sigGarbage4095 = "garbage-len-4095"

// errNoGarbageTerm is the text of v2transport's unexported errGarbageTermNotRecv.
const errNoGarbageTerm = "no garbage term received"

// TestVectors is the calibration of the oracle as a test of its own.
func TestVectors(t *testing.T) {
	calibrateLevel(t, true)
}

// ---------------------------------------------------------------------------
// generators

var garbageBoundary = []int{0, 1, 15, 16, 17, 4094, 4095}

func isGarbageBoundary(n int) bool {
	for _, b := range garbageBoundary {
		if n == b {
			return true
		}
	}
	return false
}

func genGarbageLen() *rapid.Generator[int] {
	return rapid.OneOf(
		rapid.SampledFrom(garbageBoundary),
		rapid.SampledFrom(garbageBoundary),
		rapid.IntRange(0, bip324.MaxGarbageLen),
		rapid.IntRange(0, 40),
		rapid.IntRange(4070, bip324.MaxGarbageLen),
	)
}

var knownNets = []uint32{0xd9b4bef9, 0x0709110b, 0xdab5bffa, 0x283f161c, 0x40cf030a, 0x12141c16}

func genNet() *rapid.Generator[uint32] {
	return rapid.OneOf(rapid.SampledFrom(knownNets), rapid.SampledFrom(knownNets), rapid.Uint32())
}

// genModelKey draws the reference endpoint's key pair: mostly from a cached
// pool (incl. scalars 1, 2, n-1), sometimes fresh.
func genModelKey(t *rapid.T, label string) *modelKey {
	if pick(t, label+"-fresh", 10) == 0 {
		b := rapid.SliceOfN(rapid.Byte(), 32, 32).Draw(t, label+"-priv")
		d := new(big.Int).SetBytes(b)
		d.Mod(d, nMinus1)
		d.Add(d, big.NewInt(1))
		return keyFor(d)
	}
	return poolKey(rapid.IntRange(0, keyPoolSize-1).Draw(t, label+"-pool"))
}

var readPatterns = [][]int{
	nil, nil, {1}, {3}, {1, 2, 3, 5, 8, 13, 21}, {16, 1}, {64}, {4096}, {2, 65536},
}

func genChunks(t *rapid.T) []int {
	if rapid.IntRange(0, 5).Draw(t, "chunks-custom") == 0 {
		return rapid.SliceOfN(rapid.IntRange(1, 300), 1, 6).Draw(t, "chunks")
	}
	return rapid.SampledFrom(readPatterns).Draw(t, "chunk-pattern")
}

// pick returns a value in [0, n) that is uniform over the drawn 64-bit values
// (rapid's integer generators favour the ends of a range, which would make
// "one in n" choices much more frequent than intended).
func pick(t *rapid.T, label string, n int) int {
	v := rapid.Uint64().Draw(t, label)
	return int(splitmix(&v) % uint64(n))
}

// pkt is one application packet of a script.
type pkt struct {
	size   int
	ignore bool
	aadLen int // B->M: AAD of this packet; M->B: AAD of the receive call that starts with it
}

var packetSizes = []int{0, 0, 1, 1, 2, 3, 15, 16, 17, 31, 32, 33, 63, 64, 65, 127, 128, 255, 256, 257, 1000, 4096}

// genPackets draws a packet script. hs is the number of messages the sender
// has already encrypted in the handshake (decoys + version), so that the
// generator can aim at the rekey boundaries of the sender's counters.
func genPackets(t *rapid.T, label string, hs int) []pkt {
	var n int
	long := false
	switch k := pick(t, label+"-len-kind", 20); {
	case k < 9:
		n = rapid.IntRange(0, 6).Draw(t, label+"-n")
	case k < 14:
		n = rapid.IntRange(7, 60).Draw(t, label+"-n")
	case k < 17: // first rekey: message 224 of this direction is app packet 223-hs
		n = rapid.IntRange(222, 228).Draw(t, label+"-n") - hs
		long = true
	case k < 18:
		n = rapid.IntRange(446, 452).Draw(t, label+"-n") - hs
		long = true
	default:
		n = rapid.IntRange(670, 700).Draw(t, label+"-n") - hs
		long = true
	}
	if n < 0 {
		n = 0
	}
	out := make([]pkt, n)
	// Long scripts use one cheap draw per packet; short ones are richer.
	for i := range out {
		if long {
			v := rapid.IntRange(0, 63).Draw(t, label+"-p")
			out[i] = pkt{size: v & 7, ignore: v&0x30 == 0x30}
			if v == 5 {
				out[i].size = 40
			}
			continue
		}
		var size int
		switch k := pick(t, label+"-size-kind", 30); {
		case k < 15:
			size = rapid.SampledFrom(packetSizes).Draw(t, label+"-size")
		case k < 29:
			size = rapid.IntRange(0, 300).Draw(t, label+"-size")
		default:
			size = rapid.OneOf(rapid.SampledFrom([]int{65535, 65536, 65537}), rapid.IntRange(0, 70000)).Draw(t, label+"-size")
		}
		aad := 0
		if pick(t, label+"-aad?", 12) == 0 {
			aad = rapid.IntRange(1, 40).Draw(t, label+"-aad")
		}
		out[i] = pkt{size: size, ignore: rapid.IntRange(0, 3).Draw(t, label+"-ign") == 0, aadLen: aad}
	}
	if ev.Thorough() && !long && n > 0 && pick(t, label+"-max", 200) == 0 {
		out[rapid.IntRange(0, n-1).Draw(t, label+"-maxpos")].size = bip324.MaxContentsLen
	}
	return out
}

func genDecoyLens(t *rapid.T, label string) []int {
	if rapid.IntRange(0, 2).Draw(t, label+"-none") == 0 {
		return nil
	}
	return rapid.SliceOfN(rapid.OneOf(rapid.SampledFrom([]int{0, 1, 15, 16, 17, 64, 1000}), rapid.IntRange(0, 200)), 1, 4).Draw(t, label)
}

// rekeys is the number of rekeys of a sender that has encrypted hs handshake
// messages and then n application packets.
func rekeys(hs, n int) int { return (hs + n) / bip324.RekeyInterval }

// ---------------------------------------------------------------------------
// interoperability: reference endpoint <-> btcd Peer

var recInterop = ev.New("C19", "interop",
	"reference BIP324 endpoint (own ElligatorSwift/ECDH/HKDF/FSChaCha20/AEAD) against a btcd v2transport.Peer in either role; "+
		"garbage lengths on each side from {0,1,15,16,17,4094,4095} U uniform U near-max; decoys before the version packet on both sides (reference: arbitrary contents, non-empty version contents); "+
		"0-700 packets per direction aimed at the rekey boundaries (message 224k), sizes from boundary values up to 65537 (2^24-1 in thorough; a fixed script sends 2^24-1 both ways and checks that 2^24 and 2^24+1 are refused by the sender), ignore flags, occasional AAD; short reads on btcd's side. "+
		"Oracle: both handshakes complete, btcd's whole output stream equals the reference sender's bytes, session id equal, every packet is received by the other side with the same contents/flag in order. "+
		"Non-trivial = a garbage length at a boundary, or a direction crossing a rekey; distinct by all drawn parameters",
	"btcd-initiator", "btcd-responder", "garbage-boundary(model)", "garbage-boundary(btcd)", "garbage-4095(btcd-sends)",
	"rekey-crossed(model->btcd)", "rekey-crossed(btcd->model)", "rekeys>=3", "decoys(model)", "decoys(btcd)", "packet>=65536", "content-length-limit")

type interopCase struct {
	btcdInit   bool
	net        uint32
	gB, gM     int
	key        *modelKey
	seed       uint64
	decoysB    []int
	decoysM    []int
	versionLen int
	chunks     []int
	toModel    []pkt // btcd -> model
	toBtcd     []pkt // model -> btcd
}

func genInterop(t *rapid.T) *interopCase {
	c := &interopCase{}
	c.btcdInit = rapid.Bool().Draw(t, "btcd-initiates")
	c.net = genNet().Draw(t, "net")
	c.gB = genGarbageLen().Draw(t, "garbage-btcd")
	c.gM = genGarbageLen().Draw(t, "garbage-model")
	c.key = genModelKey(t, "model-key")
	c.seed = rapid.Uint64().Draw(t, "seed")
	c.decoysB = genDecoyLens(t, "decoys-btcd")
	c.decoysM = genDecoyLens(t, "decoys-model")
	if rapid.IntRange(0, 3).Draw(t, "version-nonempty") == 0 {
		c.versionLen = rapid.IntRange(1, 80).Draw(t, "version-len")
	}
	c.chunks = genChunks(t)
	c.toModel = genPackets(t, "b2m", len(c.decoysB)+1)
	c.toBtcd = genPackets(t, "m2b", len(c.decoysM)+1)
	return c
}

func hashPkts(ps []pkt) []byte {
	b := make([]byte, 0, len(ps)*4)
	for _, p := range ps {
		v := uint32(p.size)<<1 | uint32(p.aadLen)<<25
		if p.ignore {
			v |= 1
		}
		b = binary.LittleEndian.AppendUint32(b, v)
	}
	return b
}

func (c *interopCase) hash() uint64 {
	hdr := fmt.Sprint(c.btcdInit, c.net, c.gB, c.gM, c.key.priv, c.seed, c.decoysB, c.decoysM, c.versionLen, c.chunks)
	return ev.Hash([]byte(hdr), hashPkts(c.toModel), hashPkts(c.toBtcd))
}

func maxSize(ps []pkt) int {
	m := 0
	for _, p := range ps {
		if p.size > m {
			m = p.size
		}
	}
	return m
}

func (c *interopCase) record() {
	cl := "btcd-responder"
	if c.btcdInit {
		cl = "btcd-initiator"
	}
	rkM := rekeys(len(c.decoysM)+1, len(c.toBtcd))
	rkB := rekeys(len(c.decoysB)+1, len(c.toModel))
	nt := isGarbageBoundary(c.gB) || isGarbageBoundary(c.gM) || rkM > 0 || rkB > 0
	recInterop.Case(nt, cl, c.hash(), func() any {
		return fmt.Sprintf("%s net=%#x garbage btcd=%d model=%d decoys btcd=%v model=%v version=%dB packets btcd->model=%d (rekeys %d) model->btcd=%d (rekeys %d) reads=%v",
			cl, c.net, c.gB, c.gM, c.decoysB, c.decoysM, c.versionLen, len(c.toModel), rkB, len(c.toBtcd), rkM, c.chunks)
	})
	cnt := func(b bool, l string) {
		if b {
			recInterop.Count(l, 1)
		}
	}
	cnt(isGarbageBoundary(c.gM), "garbage-boundary(model)")
	cnt(isGarbageBoundary(c.gB), "garbage-boundary(btcd)")
	cnt(c.gB == 4095, "garbage-4095(btcd-sends)")
	cnt(c.gM == 4095, "garbage-4095(btcd-receives)")
	cnt(rkM > 0, "rekey-crossed(model->btcd)")
	cnt(rkB > 0, "rekey-crossed(btcd->model)")
	cnt(rkM >= 3 || rkB >= 3, "rekeys>=3")
	cnt(len(c.decoysM) > 0, "decoys(model)")
	cnt(len(c.decoysB) > 0, "decoys(btcd)")
	cnt(c.versionLen > 0, "version-nonempty(model)")
	cnt(maxSize(c.toBtcd) >= 65536 || maxSize(c.toModel) >= 65536, "packet>=65536")
	cnt(maxSize(c.toBtcd) == bip324.MaxContentsLen || maxSize(c.toModel) == bip324.MaxContentsLen, "packet=2^24-1")
	cnt(len(c.chunks) > 0, "short-reads")
}

// modelEndpoint builds the reference party of a case.
func modelEndpoint(initiating bool, net uint32, key *modelKey, seed uint64, garbageLen int) *bip324.Endpoint {
	enc, _ := bip324.EllswiftEncodeX(key.x, bip324.NewEntropy(seedBytes(seed, "ellswift")))
	return bip324.NewEndpoint(initiating, bip324.Magic(net), key.priv, enc, expand(seed, -2, garbageLen))
}

func join(pieces [][]byte) []byte {
	var out []byte
	for _, p := range pieces {
		out = append(out, p...)
	}
	return out
}

// checkBtcdHandshakeStream compares everything a btcd peer wrote during the
// handshake with what the specification prescribes for the same keys:
// key(64) || garbage(g) || terminator || decoys || version packet. The decoy
// plaintexts are whatever the receiver decrypted (their lengths must be the
// requested ones); the ciphertext must then be the reference sender's.
func checkBtcdHandshakeStream(t fataler, stream []byte, g int, secret [32]byte, btcdInitiating bool, magic [4]byte,
	decoyLens []int) (recvSide, shadow *bip324.Session) {

	if len(stream) < 64+g {
		t.Fatalf("btcd sent %d handshake bytes, fewer than key+garbage = %d", len(stream), 64+g)
	}
	// the party receiving btcd's bytes, and a reference sender in btcd's role
	recvSide = bip324.NewSession(secret, !btcdInitiating, magic)
	shadow = bip324.NewSession(secret, btcdInitiating, magic)
	r := bytes.NewReader(stream[64:])
	garbage, decoys, version, err := recvSide.ReceiveHandshake(r)
	if err != nil {
		t.Fatalf("reference endpoint cannot complete the handshake on btcd's bytes (garbage requested %d): %v", g, err)
	}
	if len(garbage) != g {
		t.Fatalf("btcd sent %d bytes of garbage, %d requested", len(garbage), g)
	}
	// how many decoys of which size btcd sends is the caller's business, not the
	// specification's: recorded, not asserted
	shape := len(decoys) == len(decoyLens)
	for i := 0; shape && i < len(decoys); i++ {
		shape = len(decoys[i]) == decoyLens[i]
	}
	if !shape {
		recInterop.Count("decoys-differ-from-request", 1)
	}
	if len(version) != 0 {
		t.Fatalf("btcd's version packet has contents %x; BIP324 transport version is the empty string", version)
	}
	if r.Len() != 0 {
		t.Fatalf("btcd wrote %d unexpected bytes after its version packet", r.Len())
	}
	want := append([]byte(nil), shadow.SendGT[:]...)
	aad := garbage
	for _, d := range decoys {
		want = append(want, shadow.EncPacket(d, aad, true)...)
		aad = nil
	}
	want = append(want, shadow.EncPacket(nil, aad, false)...)
	if got := stream[64+g:]; !bytes.Equal(got, want) {
		t.Fatalf("btcd's handshake bytes after the garbage differ from the BIP324 reference sender\n btcd %x\n ref  %x", got, want)
	}
	return recvSide, shadow
}

func runInterop(t fataler, c *interopCase) {
	magic := bip324.Magic(c.net)
	w := newWire(c.chunks)
	bt := v2transport.NewPeer()
	bt.UseReadWriter(w.end(0))
	mw := w.end(1)
	model := modelEndpoint(!c.btcdInit, c.net, c.key, c.seed, c.gM)

	decoysM := make([][]byte, len(c.decoysM))
	for i, n := range c.decoysM {
		decoysM[i] = expand(c.seed, -10-i, n)
	}
	versionM := expand(c.seed, -3, c.versionLen)

	var hsErr error
	if c.btcdInit {
		if err := bt.InitiateV2Handshake(c.gB); err != nil {
			t.Fatalf("InitiateV2Handshake(%d): %v", c.gB, err)
		}
		if err := model.ReadKey(mw); err != nil {
			t.Fatalf("reference responder cannot read btcd's key: %v", err)
		}
		mw.Write(model.Hello())
		mw.Write(join(model.Finish(decoysM, versionM)))
		hsErr = bt.CompleteHandshake(true, c.decoysB, v2transport.BitcoinNet(c.net))
	} else {
		mw.Write(model.Hello())
		if err := bt.RespondV2Handshake(c.gB, v2transport.BitcoinNet(c.net)); err != nil {
			t.Fatalf("RespondV2Handshake(%d) on a v2 key: %v", c.gB, err)
		}
		if err := model.ReadKey(mw); err != nil {
			t.Fatalf("reference initiator cannot read btcd's key: %v", err)
		}
		mw.Write(join(model.Finish(decoysM, versionM)))
		hsErr = bt.CompleteHandshake(false, c.decoysB, v2transport.BitcoinNet(c.net))
	}
	if hsErr != nil {
		obs := fmt.Sprintf("CompleteHandshake(initiating=%v) = %q with %d garbage bytes from the peer (decoys %v)", c.btcdInit, hsErr, c.gM, c.decoysM)
		if c.gM == bip324.MaxGarbageLen && hsErr.Error() == errNoGarbageTerm && recInterop.Known(sigGarbage4095, obs) {
			recInterop.Excluded()
			return
		}
		t.Fatalf("btcd fails a legal handshake: %s", obs)
	}
	if n := w.pending(0); n != 0 {
		t.Fatalf("btcd left %d handshake bytes unread", n)
	}

	// everything btcd wrote so far, against the specification
	stream := w.sent(1)
	if !bytes.Equal(stream[:64], model.Theirs[:]) {
		t.Fatalf("VERIF-INFRA: wire log and reference disagree on btcd's key")
	}
	_, shadow := checkBtcdHandshakeStream(t, stream, c.gB, model.Secret, c.btcdInit, magic, c.decoysB)
	// the endpoint itself consumes the same bytes
	if _, _, _, err := model.ReceiveHandshake(mw); err != nil {
		t.Fatalf("reference endpoint fails on btcd's handshake: %v", err)
	}
	if sid := peerSessionID(t, bt); !bytes.Equal(sid, model.S.Keys.SessionID[:]) {
		t.Fatalf("session id: btcd %x, reference %x", sid, model.S.Keys.SessionID)
	}

	// btcd -> reference
	for i, p := range c.toModel {
		contents := expand(c.seed, i, p.size)
		aad := expand(c.seed, 1<<20+i, p.aadLen)
		if p.size > bip324.MaxContentsLen {
			// the 3-byte length field cannot carry it: the sender must refuse, write nothing
			// and stay in step (the following packets are compared as usual)
			ct, n, err := bt.V2EncPacket(contents, aad, p.ignore)
			if err == nil {
				t.Fatalf("V2EncPacket accepted a packet of %d content bytes (the maximum is 2^24-1 = %d): returned %d bytes (reports %d), header %x", p.size, bip324.MaxContentsLen, len(ct), n, head(ct))
			}
			if w.pending(1) != 0 {
				t.Fatalf("V2EncPacket refused a packet of %d content bytes (%v) but wrote %d bytes", p.size, err, w.pending(1))
			}
			continue
		}
		ct, n, err := bt.V2EncPacket(contents, aad, p.ignore)
		if err != nil {
			t.Fatalf("V2EncPacket #%d (size %d): %v", i, p.size, err)
		}
		want := shadow.EncPacket(contents, aad, p.ignore)
		if !bytes.Equal(ct, want) {
			t.Fatalf("packet #%d btcd->peer (message %d of the direction, size %d, ignore %v, aad %d): ciphertext differs from BIP324\n btcd %x\n ref  %x",
				i, len(c.decoysB)+1+i, p.size, p.ignore, p.aadLen, head(ct), head(want))
		}
		if n != len(ct) || w.pending(1) != len(ct) {
			t.Fatalf("packet #%d: V2EncPacket reports %d bytes, returned %d, wrote %d", i, n, len(ct), w.pending(1))
		}
		got, ign, err := model.S.DecPacket(mw, aad)
		if err != nil || ign != p.ignore || !bytes.Equal(got, contents) {
			t.Fatalf("packet #%d btcd->peer: reference receiver got err=%v ignore=%v contents %x, sent ignore=%v %x", i, err, ign, head(got), p.ignore, head(contents))
		}
	}

	// reference -> btcd. A receive call returns at the next non-decoy packet;
	// its AAD argument belongs to the first packet it reads.
	type expect struct {
		contents []byte
		aad      []byte
	}
	var exp []expect
	groupStart := true
	var groupAAD []byte
	for i, p := range c.toBtcd {
		contents := expand(c.seed, 1<<21+i, p.size)
		var aad []byte
		if groupStart {
			groupAAD = expand(c.seed, 1<<22+i, p.aadLen)
			aad = groupAAD
		}
		mw.Write(model.S.EncPacket(contents, aad, p.ignore))
		groupStart = false
		if !p.ignore {
			exp = append(exp, expect{contents, groupAAD})
			groupStart = true
		}
	}
	trailing := !groupStart
	delivered := make([][]byte, 0, len(exp))
	for i, e := range exp {
		got, err := bt.V2ReceivePacket(e.aad)
		if err != nil {
			t.Fatalf("V2ReceivePacket: non-decoy packet %d of %d from the reference endpoint (size %d): %v", i, len(exp), len(e.contents), err)
		}
		if !bytes.Equal(got, e.contents) {
			t.Fatalf("V2ReceivePacket: packet %d delivered as %x, sent %x", i, head(got), head(e.contents))
		}
		delivered = append(delivered, got)
	}
	// the delivered contents stay what was sent while later packets are received
	for i, e := range exp {
		if !bytes.Equal(delivered[i], e.contents) {
			t.Fatalf("V2ReceivePacket: contents delivered for packet %d of %d changed to %x after later packets were received, sent %x", i, len(exp), head(delivered[i]), head(e.contents))
		}
	}
	if trailing {
		recInterop.Count("trailing-decoys", 1)
	}
	// nothing but (possibly) decoys is left: the next call must end in an error
	if got, err := bt.V2ReceivePacket(groupAADIf(trailing, groupAAD)); err == nil {
		t.Fatalf("V2ReceivePacket returned %x although only decoy packets (trailing=%v) were left", head(got), trailing)
	}
	if n := w.pending(0); n != 0 {
		t.Fatalf("btcd left %d bytes of trailing decoy packets unread", n)
	}
}

func groupAADIf(b bool, aad []byte) []byte {
	if b {
		return aad
	}
	return nil
}

func head(b []byte) []byte {
	if len(b) > 48 {
		return b[:48]
	}
	return b
}

// TestRegressGarbage4095 replays the shrunk failing case of finding F1 (the
// peer sends the legal maximum of 4095 garbage bytes) in both roles, without
// any generator: it passes once the defect is repaired, prints KNOWN-FINDING
// while it is listed, and fails otherwise.
// TestContentLengthLimit: the largest packet (2^24-1 content bytes) travels
// intact in both directions, one byte more is refused by the sender without
// disturbing the session (fixed scripts, both roles).
func TestContentLengthLimit(t *testing.T) {
	calibrate(t)
	for _, btcdInit := range []bool{true, false} {
		c := &interopCase{btcdInit: btcdInit, net: 0xd9b4bef9, gB: 3, gM: 5, key: poolKey(1), seed: 0x1234 + uint64(len(recInterop.Rule)),
			toModel: []pkt{{size: 5}, {size: bip324.MaxContentsLen + 1}, {size: 9, aadLen: 0}, {size: bip324.MaxContentsLen}, {size: bip324.MaxContentsLen + 2, ignore: true}, {size: 1}},
			toBtcd:  []pkt{{size: 3}, {size: bip324.MaxContentsLen}, {size: 2}}}
		recInterop.Case(true, "content-length-limit", ev.HashS(fmt.Sprint("limit", btcdInit)), func() any {
			return fmt.Sprintf("btcd initiates=%v: btcd sends sizes 5, 2^24, 9, 2^24-1, 2^24+1(decoy), 1; receives 3, 2^24-1, 2", btcdInit)
		})
		runInterop(t, c)
	}
}

func TestRegressGarbage4095(t *testing.T) {
	calibrate(t)
	for _, init := range []bool{true, false} {
		for _, g := range []int{4094, 4095} {
			c := &interopCase{btcdInit: init, net: 0xd9b4bef9, gB: 0, gM: g, key: poolKey(4), seed: 1,
				toModel: []pkt{{size: 1}}, toBtcd: []pkt{{size: 1}}}
			c.record()
			runInterop(t, c)
		}
	}
}

func TestInterop(t *testing.T) {
	calibrate(t)
	rapid.Check(t, func(t *rapid.T) {
		c := genInterop(t)
		c.record()
		runInterop(t, c)
	})
}

// ---------------------------------------------------------------------------
// btcd <-> btcd loopback, observed by the reference

var recLoop = ev.New("C19", "loopback",
	"two btcd Peers over a buffered duplex (handshakes in two goroutines; a read fails with EOF once the other side is finished or stuck); garbage lengths boundary-biased on both sides, decoys on both sides, "+
		"packet scripts both ways. Oracle: both handshakes complete, both session ids equal the reference's (computed from the initiator's private key and the two keys on the wire), "+
		"both byte streams equal the reference sender's, packets arrive intact and in order. Non-trivial = garbage boundary or rekey crossed; distinct by parameters",
	"plain", "garbage-boundary", "rekey-crossed", "decoys")

func TestLoopback(t *testing.T) {
	calibrate(t)
	rapid.Check(t, func(t *rapid.T) {
		net := genNet().Draw(t, "net")
		gI := genGarbageLen().Draw(t, "garbage-initiator")
		gR := genGarbageLen().Draw(t, "garbage-responder")
		dI := genDecoyLens(t, "decoys-initiator")
		dR := genDecoyLens(t, "decoys-responder")
		seed := rapid.Uint64().Draw(t, "seed")
		i2r := genPackets(t, "i2r", len(dI)+1)
		r2i := genPackets(t, "r2i", len(dR)+1)
		rk := rekeys(len(dI)+1, len(i2r)) + rekeys(len(dR)+1, len(r2i))
		cl := "plain"
		switch {
		case rk > 0:
			cl = "rekey-crossed"
		case isGarbageBoundary(gI) || isGarbageBoundary(gR):
			cl = "garbage-boundary"
		case len(dI)+len(dR) > 0:
			cl = "decoys"
		}
		recLoop.Case(cl != "plain" && cl != "decoys" || isGarbageBoundary(gI) || isGarbageBoundary(gR), cl,
			ev.Hash([]byte(fmt.Sprint(net, gI, gR, dI, dR, seed)), hashPkts(i2r), hashPkts(r2i)), func() any {
				return fmt.Sprintf("net=%#x garbage initiator=%d responder=%d decoys %v/%v packets %d/%d rekeys=%d", net, gI, gR, dI, dR, len(i2r), len(r2i), rk)
			})
		if gI == 4095 || gR == 4095 {
			recLoop.Count("garbage-4095", 1)
		}

		w := newWire(nil)
		pI, pR := v2transport.NewPeer(), v2transport.NewPeer()
		pI.UseReadWriter(w.end(0))
		pR.UseReadWriter(w.end(1))
		bnet := v2transport.BitcoinNet(net)
		if err := pI.InitiateV2Handshake(gI); err != nil {
			t.Fatalf("InitiateV2Handshake(%d): %v", gI, err)
		}
		if err := pR.RespondV2Handshake(gR, bnet); err != nil {
			t.Fatalf("RespondV2Handshake(%d): %v", gR, err)
		}
		w.mu.Lock()
		w.blocking = true
		w.mu.Unlock()
		errs := make(chan [2]any, 2)
		run := func(side int, p *v2transport.Peer, initiating bool, decoys []int) {
			var err error
			defer func() {
				r := recover()
				w.finish(side)
				errs <- [2]any{side, [2]any{err, r}}
			}()
			err = p.CompleteHandshake(initiating, decoys, bnet)
		}
		go run(0, pI, true, dI)
		go run(1, pR, false, dR)
		var hsErr [2]error
		for k := 0; k < 2; k++ {
			e := <-errs
			res := e[1].([2]any)
			if res[1] != nil {
				t.Fatalf("CompleteHandshake panicked on side %d: %v", e[0], res[1])
			}
			if res[0] != nil {
				hsErr[e[0].(int)] = res[0].(error)
			}
		}
		w.mu.Lock()
		w.blocking = false
		w.mu.Unlock()
		if hsErr[0] != nil || hsErr[1] != nil {
			obs := fmt.Sprintf("loopback garbage initiator=%d responder=%d: initiator err=%v, responder err=%v", gI, gR, hsErr[0], hsErr[1])
			// F1: the receiver of exactly 4095 garbage bytes gives up; its peer then
			// sees EOF or completes.
			f1 := (gR == 4095 && hsErr[0] != nil && hsErr[0].Error() == errNoGarbageTerm) ||
				(gI == 4095 && hsErr[1] != nil && hsErr[1].Error() == errNoGarbageTerm)
			if f1 && recLoop.Known(sigGarbage4095, obs) {
				recLoop.Excluded()
				return
			}
			t.Fatalf("btcd<->btcd handshake fails: %s", obs)
		}

		// the reference's view: initiator's private key + both wire keys
		toR, toI := w.sent(1), w.sent(0)
		if len(toR) < 64 || len(toI) < 64 {
			t.Fatalf("handshake completed with %d/%d bytes on the wire", len(toR), len(toI))
		}
		var encI, encR [64]byte
		copy(encI[:], toR[:64])
		copy(encR[:], toI[:64])
		privI := peerPrivKey(t, pI)
		if h := seed; splitmix(&h)%4 == 0 { // costs a reference base-point multiplication
			if x := bip324.EllswiftDecode(encI); x.Cmp(secp.BaseMul(privI).X) != 0 {
				t.Fatalf("initiator's ElligatorSwift key %x decodes to x=%x, but its private key has x=%x", encI, x, secp.BaseMul(privI).X)
			}
		}
		secret := bip324.V2ECDH(privI, encR, encI, true)
		magic := bip324.Magic(net)
		keys := bip324.DeriveKeys(secret, magic)
		sidI, sidR := peerSessionID(t, pI), peerSessionID(t, pR)
		if !bytes.Equal(sidI, sidR) || !bytes.Equal(sidI, keys.SessionID[:]) {
			t.Fatalf("session ids: initiator %x, responder %x, reference %x", sidI, sidR, keys.SessionID)
		}
		_, shadowI := checkBtcdHandshakeStream(t, toR, gI, secret, true, magic, dI)
		_, shadowR := checkBtcdHandshakeStream(t, toI, gR, secret, false, magic, dR)
		if w.pending(0) != 0 || w.pending(1) != 0 {
			t.Fatalf("unread handshake bytes: %d / %d", w.pending(0), w.pending(1))
		}

		send := func(from, to *v2transport.Peer, shadow *bip324.Session, ps []pkt, base int, dir string) {
			var want [][]byte
			for i, p := range ps {
				contents := expand(seed, base+i, p.size)
				ct, _, err := from.V2EncPacket(contents, nil, p.ignore)
				if err != nil {
					t.Fatalf("%s V2EncPacket #%d: %v", dir, i, err)
				}
				if ref := shadow.EncPacket(contents, nil, p.ignore); !bytes.Equal(ct, ref) {
					t.Fatalf("%s packet #%d (size %d ignore %v): ciphertext differs from BIP324\n btcd %x\n ref  %x", dir, i, p.size, p.ignore, head(ct), head(ref))
				}
				if !p.ignore {
					want = append(want, contents)
				}
			}
			delivered := make([][]byte, 0, len(want))
			for i, c := range want {
				got, err := to.V2ReceivePacket(nil)
				if err != nil || !bytes.Equal(got, c) {
					t.Fatalf("%s non-decoy packet %d: received err=%v %x, sent %x", dir, i, err, head(got), head(c))
				}
				delivered = append(delivered, got)
			}
			for i, c := range want {
				if !bytes.Equal(delivered[i], c) {
					t.Fatalf("%s non-decoy packet %d: delivered contents changed to %x after later packets were received, sent %x", dir, i, head(delivered[i]), head(c))
				}
			}
			if got, err := to.V2ReceivePacket(nil); err == nil {
				t.Fatalf("%s: V2ReceivePacket returned %x with only decoys left", dir, head(got))
			}
		}
		send(pI, pR, shadowI, i2r, 0, "initiator->responder")
		send(pR, pI, shadowR, r2i, 1<<21, "responder->initiator")
	})
}
