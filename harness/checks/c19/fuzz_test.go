package c19

import (
	"bytes"
	"errors"
	"testing"

	"github.com/btcsuite/btcd/v2transport"

	"verif/internal/model/bip324"
)

// FuzzHostileStream (thorough tier, native fuzzing) feeds arbitrary bytes to a
// btcd responder. Whoever wrote the bytes cannot know the responder's fresh
// key, so: no panic, ErrUseV1Protocol exactly for the v1 prefix of the
// network, and the handshake never completes (no terminator / tag can be
// right except with probability 2^-128).
func FuzzHostileStream(f *testing.F) {
	main := bip324.Magic(0xd9b4bef9)
	f.Add(bip324.V1Prefix(main), false)
	f.Add(append(bip324.V1Prefix(main), make([]byte, 100)...), true)
	f.Add(bytes.Repeat([]byte{0xff}, 64+16+20), false)
	f.Add(make([]byte, 64+4095+16+20), true)
	f.Add([]byte{0xf9, 0xbe, 0xb4, 0xd9, 'v', 'e', 'r', 's', 'i', 'o', 'n', 0, 0, 0, 0, 1}, false)
	f.Fuzz(func(t *testing.T, data []byte, shortReads bool) {
		if len(data) > 1<<16 {
			return
		}
		var chunks []int
		if shortReads {
			chunks = []int{1, 7, 2}
		}
		w := newWire(chunks)
		p := v2transport.NewPeer()
		p.UseReadWriter(w.end(0))
		w.end(1).Write(data)
		err := p.RespondV2Handshake(len(data)%4096, 0xd9b4bef9)
		isV1 := len(data) >= 16 && bytes.Equal(data[:16], bip324.V1Prefix(main))
		if errors.Is(err, v2transport.ErrUseV1Protocol) != isV1 {
			t.Fatalf("RespondV2Handshake(%x...): err=%v, v1 prefix present=%v", head(data), err, isV1)
		}
		if err != nil {
			return
		}
		if err := p.CompleteHandshake(false, nil, 0xd9b4bef9); err == nil {
			t.Fatalf("handshake completed on %d arbitrary bytes %x...", len(data), head(data))
		}
	})
}
