// Package c15 decides property C15: persisted chain-state records (VLQ,
// compressed amounts and scripts, utxo entries, spend journal entries, best
// chain state, block index rows) are lossless, format-stable and robust.
//
// Oracle: verif/internal/model/chainfmt, an encoder/decoder written only from
// the format comments of blockchain/compress.go and blockchain/chainio.go and
// calibrated on the literal examples of those comments. btcd is reached through
// the `verif`-tagged exports of blockchain/verif_export.go.
package c15

import (
	"bytes"
	"fmt"
	"math/big"
	"runtime/debug"
	"strings"

	"pgregory.net/rapid"

	fm "verif/internal/model/chainfmt"
	"verif/internal/model/secp"
)

// catch runs f and converts a panic into a value (so that rapid can shrink the
// case and the driver gets a fail file instead of a dead process).
func catch(f func()) (msg string) {
	defer func() {
		if r := recover(); r != nil {
			st := string(debug.Stack())
			// keep the frames inside btcd
			var keep []string
			for _, l := range strings.Split(st, "\n") {
				if strings.Contains(l, "btcd/blockchain") && !strings.Contains(l, "verif_export") {
					keep = append(keep, strings.TrimSpace(l))
				}
			}
			if len(keep) > 6 {
				keep = keep[:6]
			}
			msg = fmt.Sprintf("panic: %v [%s]", r, strings.Join(keep, " <- "))
		}
	}()
	f()
	return ""
}

// ---------------------------------------------------------------------------
// numbers

var (
	two63 = new(big.Int).Lsh(big.NewInt(1), 63)
	two64 = new(big.Int).Lsh(big.NewInt(1), 64)
)

// vlqBaseU64 returns B_k (smallest value with a k-byte encoding), k = 1..10.
func vlqBaseU64(k int) uint64 {
	var b, p uint64 = 0, 1
	for i := 1; i < k; i++ {
		p *= 128
		b += p
	}
	return b
}

// genU64 is the boundary mixture for quantities: uniform, small, 2^k+-1,
// 128^k+-1 and the first/last value of every VLQ length.
func genU64() *rapid.Generator[uint64] {
	return rapid.Custom(func(t *rapid.T) uint64 {
		switch rapid.IntRange(0, 5).Draw(t, "u64kind") {
		case 0:
			return rapid.Uint64().Draw(t, "uniform")
		case 1:
			return rapid.Uint64Range(0, 300).Draw(t, "small")
		case 2:
			k := rapid.IntRange(0, 64).Draw(t, "pow2")
			d := uint64(rapid.IntRange(-2, 2).Draw(t, "d"))
			if k == 64 {
				return 0 + d // wraps: 2^64-2 .. 2
			}
			return uint64(1)<<uint(k) + d
		case 3:
			k := rapid.IntRange(2, 10).Draw(t, "vlqlen")
			d := uint64(rapid.IntRange(-2, 2).Draw(t, "d"))
			return vlqBaseU64(k) + d
		case 4:
			k := rapid.IntRange(1, 9).Draw(t, "pow128")
			d := uint64(rapid.IntRange(-2, 2).Draw(t, "d"))
			return uint64(1)<<uint(7*k) + d
		default:
			// a random number of significant bits
			bits := rapid.IntRange(1, 64).Draw(t, "bits")
			v := rapid.Uint64().Draw(t, "v")
			if bits < 64 {
				v &= (uint64(1) << uint(bits)) - 1
			}
			return v
		}
	})
}

func pow10(e int) uint64 {
	v := uint64(1)
	for i := 0; i < e; i++ {
		v *= 10
	}
	return v
}

// compressLimit is floor(2^64/9): around it the documented compression formula
// leaves 64 bits for amounts that do not end in zeros.
var compressLimit = new(big.Int).Div(two64, big.NewInt(9)).Uint64()

// genAmount: uniform 64-bit, d*10^e for every digit/exponent shape, mantissas
// of every length times 10^e, 10^k+-1, 21e14+-1, int64 limits, and the band
// where the formula starts to overflow.
func genAmount() *rapid.Generator[uint64] {
	return rapid.Custom(func(t *rapid.T) uint64 {
		switch rapid.IntRange(0, 8).Draw(t, "amtkind") {
		case 0:
			return rapid.Uint64().Draw(t, "uniform")
		case 1: // d * 10^e
			e := rapid.IntRange(0, 19).Draw(t, "e")
			d := rapid.Uint64Range(1, 9).Draw(t, "d")
			if e == 19 {
				d = 1
			}
			return d * pow10(e)
		case 2: // mantissa of k digits * 10^e (value may wrap for big k+e: still a 64-bit amount)
			k := rapid.IntRange(1, 19).Draw(t, "digits")
			m := rapid.Uint64Range(pow10(k-1), pow10(k)-1).Draw(t, "mant")
			e := rapid.IntRange(0, 19-k).Draw(t, "e")
			return m * pow10(e)
		case 3: // 10^k + d
			k := rapid.IntRange(0, 19).Draw(t, "k")
			return pow10(k) + uint64(rapid.IntRange(-2, 2).Draw(t, "d"))
		case 4: // money range
			return rapid.SampledFrom([]uint64{
				2100000000000000, 2100000000000001, 2099999999999999, 5000000000, 546, 0, 1, 9, 10, 11, 99, 100, 101,
				1<<63 - 1, 1 << 63, 1<<63 + 1, 1<<64 - 1, 1<<64 - 2, 18000000000000000000, 10000000000000000000, 9999999999999999999,
			}).Draw(t, "special")
		case 5: // overflow band of the formula
			return compressLimit + uint64(rapid.IntRange(-40, 40).Draw(t, "d"))
		case 6: // repeated digit patterns 99..9, 10..01, 11..1 times 10^e
			k := rapid.IntRange(1, 18).Draw(t, "len")
			var v uint64
			switch rapid.IntRange(0, 2).Draw(t, "pat") {
			case 0:
				v = pow10(k) - 1
			case 1:
				v = pow10(k) + 1
			default:
				for i := 0; i < k; i++ {
					v = v*10 + 1
				}
			}
			e := rapid.IntRange(0, 19-k).Draw(t, "e")
			return v * pow10(e)
		case 7: // realistic amounts
			return rapid.Uint64Range(0, 2100000000000000).Draw(t, "money")
		default:
			return rapid.Uint64Range(0, 10000000).Draw(t, "small")
		}
	})
}

// genLosslessAmount draws an amount that HAS an encoding (formula fits in 64
// bits), viewed as the int64 the records carry.
func genLosslessAmount() *rapid.Generator[int64] {
	return rapid.Custom(func(t *rapid.T) int64 {
		a := genAmount().Draw(t, "amount")
		if _, ok := fm.CompressAmount(a); !ok {
			// keep the trailing-zero structure, drop the high digits
			a %= 1000000000000000000
			if _, ok := fm.CompressAmount(a); !ok {
				a = 0
			}
		}
		return int64(a)
	})
}

func genHeight() *rapid.Generator[int32] {
	return rapid.Custom(func(t *rapid.T) int32 {
		switch rapid.IntRange(0, 4).Draw(t, "hkind") {
		case 0:
			return rapid.Int32Range(0, 2).Draw(t, "tiny")
		case 1:
			return rapid.Int32Range(0, 1000000).Draw(t, "chain")
		case 2:
			k := rapid.IntRange(1, 31).Draw(t, "pow2")
			v := int64(1)<<uint(k) + int64(rapid.IntRange(-2, 1).Draw(t, "d"))
			if v > 0x7fffffff {
				v = 0x7fffffff
			}
			if v < 0 {
				v = 0
			}
			return int32(v)
		case 3:
			// header code = 2h(+1) at VLQ length boundaries
			k := rapid.IntRange(2, 5).Draw(t, "vlqlen")
			v := int64(vlqBaseU64(k)/2) + int64(rapid.IntRange(-1, 1).Draw(t, "d"))
			if v > 0x7fffffff {
				v = 0x7fffffff
			}
			return int32(v)
		default:
			return rapid.Int32Range(0, 0x7fffffff).Draw(t, "uniform")
		}
	})
}

// ---------------------------------------------------------------------------
// scripts

func gen32() *rapid.Generator[[]byte] {
	return rapid.Custom(func(t *rapid.T) []byte {
		switch rapid.IntRange(0, 5).Draw(t, "32kind") {
		case 0:
			return bytes.Repeat([]byte{0}, 32)
		case 1:
			return bytes.Repeat([]byte{0xff}, 32)
		default:
			return rapid.SliceOfN(rapid.Byte(), 32, 32).Draw(t, "b32")
		}
	})
}

func gen20() *rapid.Generator[[]byte] {
	return rapid.Custom(func(t *rapid.T) []byte { return gen32().Draw(t, "h")[:20] })
}

// nextOnCurve walks x upwards to the next x coordinate of a curve point
// (about every second x is one) and returns the point with even y.
func nextOnCurve(x *big.Int) secp.Point {
	x = new(big.Int).Mod(x, secp.P)
	for {
		if pt, ok := secp.LiftX(x); ok {
			return pt
		}
		x.Add(x, big.NewInt(1))
		if x.Cmp(secp.P) >= 0 {
			x.SetInt64(1)
		}
	}
}

// nextOffCurve walks x upwards to the next x < p that is NOT the x coordinate
// of a curve point.
func nextOffCurve(x *big.Int) *big.Int {
	x = new(big.Int).Mod(x, secp.P)
	for {
		if _, ok := secp.LiftX(x); !ok {
			return x
		}
		x.Add(x, big.NewInt(1))
		if x.Cmp(secp.P) >= 0 {
			x.SetInt64(0)
		}
	}
}

type scriptCase struct {
	script []byte
	class  string
	// label is what the generator knows by construction: the compressed type
	// (0..5) or -1 for the general form. Three-way check: label / model / btcd.
	label int
}

// genScript produces every documented special form with valid material, the
// same frames with invalid material, near misses, and general scripts whose
// length sits on the VLQ boundaries of len+6.
func genScript() *rapid.Generator[scriptCase] {
	return rapid.Custom(func(t *rapid.T) scriptCase {
		kind := rapid.IntRange(0, 15).Draw(t, "skind")
		switch kind {
		case 0:
			return scriptCase{fm.P2PKH(gen20().Draw(t, "h")), "p2pkh", 0}
		case 1:
			return scriptCase{fm.P2SH(gen20().Draw(t, "h")), "p2sh", 1}
		case 2: // compressed key, valid
			pt := nextOnCurve(new(big.Int).SetBytes(gen32().Draw(t, "x")))
			if rapid.Bool().Draw(t, "odd") {
				pt = secp.Neg(pt)
			}
			key := secp.SerializeCompressed(pt)
			return scriptCase{fm.PayToPubKey(key), "pk-comp-valid", int(key[0])}
		case 3: // compressed key frame, x not on the curve
			x := nextOffCurve(new(big.Int).SetBytes(gen32().Draw(t, "x")))
			key := append([]byte{byte(2 + rapid.IntRange(0, 1).Draw(t, "par"))}, secp.Bytes32(x)...)
			return scriptCase{fm.PayToPubKey(key), "pk-comp-offcurve", -1}
		case 4: // uncompressed key, valid, both parities of y
			pt := nextOnCurve(new(big.Int).SetBytes(gen32().Draw(t, "x")))
			if rapid.Bool().Draw(t, "odd") {
				pt = secp.Neg(pt)
			}
			cl := "pk-uncomp-valid-even"
			if pt.Y.Bit(0) == 1 {
				cl = "pk-uncomp-valid-odd"
			}
			return scriptCase{fm.PayToPubKey(secp.SerializeUncompressed(pt)), cl, 4 + int(pt.Y.Bit(0))}
		case 5: // uncompressed frame, x not on the curve, any y
			x := nextOffCurve(new(big.Int).SetBytes(gen32().Draw(t, "x")))
			key := append([]byte{4}, secp.Bytes32(x)...)
			key = append(key, gen32().Draw(t, "y")...)
			return scriptCase{fm.PayToPubKey(key), "pk-uncomp-offcurve-x", -1}
		case 6: // uncompressed frame, x on the curve but y is not its root
			pt := nextOnCurve(new(big.Int).SetBytes(gen32().Draw(t, "x")))
			y := new(big.Int).Set(pt.Y)
			switch rapid.IntRange(0, 2).Draw(t, "ymut") {
			case 0:
				y.Add(y, big.NewInt(1)).Mod(y, secp.P)
			case 1:
				y.Xor(y, big.NewInt(1)) // wrong parity bit only
			default:
				y.SetBytes(gen32().Draw(t, "y"))
				if y.Cmp(pt.Y) == 0 || new(big.Int).Add(y, pt.Y).Cmp(secp.P) == 0 {
					y.Add(y, big.NewInt(2))
				}
				y.Mod(y, new(big.Int).Lsh(big.NewInt(1), 256))
			}
			key := append([]byte{4}, secp.Bytes32(pt.X)...)
			key = append(key, secp.Bytes32(y)...)
			if _, _, ok := secp.ParsePubKey(key); ok {
				// cannot happen for a curve of odd order, but stay sound
				return scriptCase{fm.PayToPubKey(key), "pk-uncomp-valid-even", fm.ScriptKind(fm.PayToPubKey(key))}
			}
			return scriptCase{fm.PayToPubKey(key), "pk-uncomp-bad-y", -1}
		case 7: // hybrid keys (06/07) on a valid point, parity right or wrong
			pt := nextOnCurve(new(big.Int).SetBytes(gen32().Draw(t, "x")))
			if rapid.Bool().Draw(t, "odd") {
				pt = secp.Neg(pt)
			}
			key := secp.SerializeUncompressed(pt)
			key[0] = byte(6 + rapid.IntRange(0, 1).Draw(t, "hyb"))
			return scriptCase{fm.PayToPubKey(key), "pk-hybrid", -1}
		case 8: // right frame and valid point but a prefix the format does not support
			pt := nextOnCurve(new(big.Int).SetBytes(gen32().Draw(t, "x")))
			if rapid.Bool().Draw(t, "comp") {
				key := secp.SerializeCompressed(pt)
				key[0] = rapid.SampledFrom([]byte{0, 1, 4, 5, 6, 7, 0x82, 0xff}).Draw(t, "pfx")
				return scriptCase{fm.PayToPubKey(key), "pk-wrong-prefix", -1}
			}
			key := secp.SerializeUncompressed(pt)
			key[0] = rapid.SampledFrom([]byte{0, 1, 2, 3, 5, 0x84, 0xff}).Draw(t, "pfx")
			return scriptCase{fm.PayToPubKey(key), "pk-wrong-prefix", -1}
		case 9: // coordinate >= p: x' = x + p still fits in 32 bytes only for tiny x
			pt := nextOnCurve(big.NewInt(int64(rapid.IntRange(1, 1<<30).Draw(t, "smallx"))))
			xp := new(big.Int).Add(pt.X, secp.P)
			if rapid.Bool().Draw(t, "comp") {
				key := append([]byte{byte(2 + pt.Y.Bit(0))}, secp.Bytes32(xp)...)
				return scriptCase{fm.PayToPubKey(key), "pk-coord>=p", -1}
			}
			key := append([]byte{4}, secp.Bytes32(xp)...)
			key = append(key, secp.Bytes32(pt.Y)...)
			return scriptCase{fm.PayToPubKey(key), "pk-coord>=p", -1}
		case 10: // near miss: a special form with one frame byte changed or length +-1
			base := genSpecialValid(t)
			s := append([]byte{}, base...)
			switch rapid.IntRange(0, 3).Draw(t, "miss") {
			case 0: // drop the last byte
				s = s[:len(s)-1]
			case 1: // one extra byte at the end
				s = append(s, rapid.Byte().Draw(t, "extra"))
			case 2: // one extra byte in front
				s = append([]byte{rapid.Byte().Draw(t, "front")}, s...)
			default: // change one frame (non-payload) byte
				frame := frameOffsets(base)
				i := frame[rapid.IntRange(0, len(frame)-1).Draw(t, "fi")]
				s[i] ^= byte(rapid.IntRange(1, 255).Draw(t, "xor"))
			}
			return scriptCase{s, "near-special", -1}
		case 11:
			return scriptCase{nil, "empty", -1}
		case 12: // length so that len+6 sits on a VLQ size boundary
			l := rapid.SampledFrom([]int{120, 121, 122, 123, 16504, 16505, 16506, 16507}).Draw(t, "blen")
			return scriptCase{fill(t, l), "general-vlq-boundary", -1}
		case 13: // up to 10 KiB
			l := rapid.IntRange(1000, 10240).Draw(t, "len")
			return scriptCase{fill(t, l), "general-large", -1}
		case 14: // lengths around the special forms
			l := rapid.SampledFrom([]int{1, 2, 19, 20, 21, 22, 23, 24, 25, 26, 32, 33, 34, 35, 36, 64, 65, 66, 67, 68}).Draw(t, "len")
			return scriptCase{rapid.SliceOfN(rapid.Byte(), l, l).Draw(t, "bytes"), "general-special-length", -1}
		default:
			return scriptCase{rapid.SliceOfN(rapid.Byte(), 1, 120).Draw(t, "bytes"), "general-short", -1}
		}
	})
}

// fill builds a long script cheaply (few draws): a drawn 16-byte pattern
// repeated, so that shrinking stays fast.
func fill(t *rapid.T, l int) []byte {
	pat := rapid.SliceOfN(rapid.Byte(), 16, 16).Draw(t, "pattern")
	out := make([]byte, l)
	for i := range out {
		out[i] = pat[i%16] + byte(i/16)
	}
	return out
}

func genSpecialValid(t *rapid.T) []byte {
	switch rapid.IntRange(0, 3).Draw(t, "special") {
	case 0:
		return fm.P2PKH(gen20().Draw(t, "h"))
	case 1:
		return fm.P2SH(gen20().Draw(t, "h"))
	case 2:
		return fm.PayToPubKey(secp.SerializeCompressed(nextOnCurve(new(big.Int).SetBytes(gen32().Draw(t, "x")))))
	default:
		return fm.PayToPubKey(secp.SerializeUncompressed(nextOnCurve(new(big.Int).SetBytes(gen32().Draw(t, "x")))))
	}
}

// frameOffsets lists the offsets of the opcode/prefix bytes of a special form.
func frameOffsets(s []byte) []int {
	switch len(s) {
	case 25:
		return []int{0, 1, 2, 23, 24}
	case 23:
		return []int{0, 1, 22}
	case 35:
		return []int{0, 34}
	default:
		return []int{0, 66}
	}
}

// genOut draws one output with context (the payload of utxo entries and spend
// journal items). minHeight 0 allows the legacy height-0 journal form.
func genOut(t *rapid.T) (fm.Out, string) {
	sc := genScript().Draw(t, "script")
	return fm.Out{
		Amount:   genLosslessAmount().Draw(t, "amount"),
		PkScript: sc.script,
		Height:   genHeight().Draw(t, "height"),
		Coinbase: rapid.Bool().Draw(t, "coinbase"),
	}, sc.class
}

func outBytes(o fm.Out) []byte {
	return []byte(fmt.Sprintf("%d|%x|%d|%v", o.Amount, o.PkScript, o.Height, o.Coinbase))
}

func shortHex(b []byte) string {
	if len(b) <= 48 {
		return fmt.Sprintf("%x", b)
	}
	return fmt.Sprintf("%x..(%d bytes)..%x", b[:24], len(b), b[len(b)-8:])
}
