package c15

import (
	"bytes"
	"encoding/binary"
	"fmt"
	"testing"

	"github.com/btcsuite/btcd/database"
	"pgregory.net/rapid"

	ce "verif/internal/chainenv"
	"verif/internal/ev"
	fm "verif/internal/model/chainfmt"
)

// ---------------------------------------------------------------------------
// the block index as it sits in the database of a real (small) chain: keys and
// rows are the documented bytes, so that a database written by another version
// stays readable ("<height big-endian><hash>" -> header || status).

var recDBRows = ev.New("C15", "block-index-in-the-database",
	"a generated tree of 3-25 blocks (forks, families flat / variable work) delivered to a real chain; the bucket 'blockheaderidx' is then read through the public database API; "+
		"oracle: the set of keys equals { 4-byte big-endian height || block hash } of the stored blocks, in ascending height order under the cursor (parents before children), "+
		"and every value starts with the model encoding of the block's header (80 bytes) followed by one status byte; non-trivial = the tree has a fork; distinct by tree",
	"fork", "linear")

func TestBlockIndexInTheDatabase(t *testing.T) {
	rapid.Check(t, func(t *rapid.T) {
		tr := ce.GenTree(t, ce.TreeCfg{Families: []ce.Family{ce.FamFlat, ce.FamWork}, MinBlocks: 3, MaxBlocks: 25, MaxInvalid: 0, ForkProb: 25, NoUtxo: true})
		env, err := ce.NewEnv(tr.Params, ce.EnvOpt{UtxoCacheMaxSize: 1 << 20})
		if err != nil {
			t.Fatalf("VERIF-INFRA: %v", err)
		}
		defer env.Close()
		forks := false
		want := map[string]*ce.Node{}
		for _, n := range tr.Nodes {
			if len(n.Children) > 1 {
				forks = true
			}
			if n != tr.Genesis {
				if _, _, err := env.Deliver(n); err != nil {
					t.Fatalf("VERIF-INFRA: block node%d rejected: %v", n.Idx, err)
				}
			}
			key := binary.BigEndian.AppendUint32(nil, uint32(n.Height))
			want[string(append(key, n.Hash[:]...))] = n
		}
		cl := "linear"
		if forks {
			cl = "fork"
		}
		recDBRows.Case(forks, cl, ev.HashS(tr.Describe()), func() any { return tr.Describe() })
		verr := env.RawDB.View(func(tx database.Tx) error {
			b := tx.Metadata().Bucket([]byte("blockheaderidx"))
			if b == nil {
				return fmt.Errorf("the block index bucket 'blockheaderidx' does not exist")
			}
			seen := 0
			lastHeight := uint32(0)
			c := b.Cursor()
			for ok := c.First(); ok; ok = c.Next() {
				k, v := c.Key(), c.Value()
				n, known := want[string(k)]
				if !known {
					return fmt.Errorf("the block index holds the key %x, which is not <height big-endian><hash> of any stored block", k)
				}
				seen++
				if h := binary.BigEndian.Uint32(k[:4]); h < lastHeight {
					return fmt.Errorf("keys are not in ascending height order under the cursor: height %d after %d", h, lastHeight)
				} else {
					lastHeight = h
				}
				hd := n.Msg.Header
				row := fm.EncodeBlockRow(fm.BlockRow{Version: hd.Version, PrevBlock: hd.PrevBlock, MerkleRoot: hd.MerkleRoot, Time: uint32(hd.Timestamp.Unix()), Bits: hd.Bits, Nonce: hd.Nonce})
				if len(v) != 81 || !bytes.Equal(v[:80], row[:80]) {
					return fmt.Errorf("row of node%d (height %d) = %x, documented format: header %x || status byte", n.Idx, n.Height, v, row[:80])
				}
			}
			if seen != len(want) {
				return fmt.Errorf("the block index holds %d of the %d stored blocks under their documented keys", seen, len(want))
			}
			return nil
		})
		if verr != nil {
			t.Fatalf("%v\ntree: %s", verr, tr.Describe())
		}
	})
}
