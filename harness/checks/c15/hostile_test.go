package c15

import (
	"bytes"
	"encoding/binary"
	"encoding/hex"
	"fmt"
	"math/big"
	"strings"
	"testing"

	"github.com/btcsuite/btcd/blockchain"
	"github.com/btcsuite/btcd/chainhash/v2"
	"pgregory.net/rapid"

	"verif/internal/ev"
	fm "verif/internal/model/chainfmt"
)

// ---------------------------------------------------------------------------
// known finding: an oversized script-size quantity
//
// deserializeVLQ has no length limit (quantities beyond 64 bits wrap modulo
// 2^64) and decodeCompressedScriptSize converts W - 6 + bytesRead to int without
// a range check. Two ways to a bounds panic, both only reachable with a
// script-size quantity V >= 2^63 - 4 (no real script has such a size, so the
// class is delimited on the documented, unbounded value V of the quantity):
//
//   - 2^63 <= V - 6 + bytesRead < 2^64: the size is negative (or wraps to a tiny
//     value), passes the caller's `len(serialized) < scriptSize` end-of-data
//     check, and the following slice / make panics;
//   - V >= 2^64 wrapping to a special type 0..5: decodeCompressedScriptSize
//     answers the fixed 21 / 33 (a one-byte type is assumed) while
//     decompressScript slices at bytesRead (> 1), beyond the data.
//
// Signature (known_findings.jsonl):

const sigOversized = "oversized-script-size-vlq-panic"

// scriptSizeOverflow: does the compressed script starting at b carry a size
// quantity V >= 6 with V - 6 + bytesRead >= 2^63 (V unbounded; for a quantity
// that runs into the end of the data: the value read so far)?
func scriptSizeOverflow(b []byte) bool {
	v, r, _ := fm.ReadVLQBig(b)
	if r == 0 || v.Cmp(big.NewInt(fm.NumSpecialScripts)) < 0 {
		return false
	}
	s := new(big.Int).Sub(v, big.NewInt(fm.NumSpecialScripts))
	s.Add(s, big.NewInt(int64(r)))
	return s.Cmp(two63) >= 0
}

// txoutInClass / utxoInClass / journalInClass walk the fields the way the
// format lays them out and report whether the walk arrives at a script-size
// quantity of the known class. They delimit the known finding only; they are
// not an oracle.
func txoutInClass(b []byte) bool {
	_, n1, _ := fm.ReadVLQBig(b)
	if n1 >= len(b) {
		return false
	}
	return scriptSizeOverflow(b[n1:])
}

func utxoInClass(b []byte) bool {
	_, n0, _ := fm.ReadVLQBig(b)
	if n0 >= len(b) {
		return false
	}
	return txoutInClass(b[n0:])
}

// stxoWalk returns (in class, length of the item, item complete).
func stxoWalk(b []byte) (bool, int, bool) {
	if len(b) == 0 {
		return false, 0, false
	}
	v, off, _ := fm.ReadVLQBig(b)
	if off >= len(b) {
		return false, 0, false
	}
	if int32(fm.Wrap64(v)>>1) > 0 { // reserved field present
		_, nr, _ := fm.ReadVLQBig(b[off:])
		off += nr
		if off >= len(b) {
			return false, 0, false
		}
	}
	_, n1, _ := fm.ReadVLQBig(b[off:])
	off += n1
	if off >= len(b) {
		return false, 0, false
	}
	if scriptSizeOverflow(b[off:]) {
		return true, 0, false
	}
	sv, r, _ := fm.ReadVLQBig(b[off:])
	w := fm.Wrap64(sv)
	var size uint64
	switch {
	case w < 2:
		size = 21
	case w < 6:
		size = 33
	default:
		size = w - 6 + uint64(r)
	}
	if size > uint64(len(b)-off) {
		return false, 0, false
	}
	return false, off + int(size), true
}

func journalInClass(b []byte, count int) bool {
	off := 0
	for i := 0; i < count && off <= len(b); i++ {
		in, n, ok := stxoWalk(b[off:])
		if in {
			return true
		}
		if !ok {
			return false
		}
		off += n
	}
	return false
}

// anyOversized: some offset of b starts a quantity of the known class (used
// only to attribute a bounds panic after the fact).
func anyOversized(b []byte) bool {
	for i := range b {
		if scriptSizeOverflow(b[i:]) {
			return true
		}
	}
	return false
}

func isBoundsPanic(p string) bool {
	return strings.Contains(p, "slice bounds out of range") || strings.Contains(p, "makeslice: len out of range") ||
		strings.Contains(p, "makeslice: cap out of range")
}

// guarded runs one decoder call. inClass inputs are skipped (and counted) when
// the finding is listed; a panic is attributed to the finding only if it is a
// bounds panic on an input that carries an oversized script-size quantity.
// Returns skip=true when the caller must not look at results.
var excludeKnown = true // regress_test.go switches the exclusion off to replay the listed inputs

func guarded(rec *ev.Rec, inClass bool, what string, in []byte, f func()) (bool, error) {
	if inClass {
		rec.Count("in-known-class", 1)
		if excludeKnown && ev.IsKnown("C15", sigOversized) {
			rec.Excluded()
			return true, nil
		}
	}
	if p := catch(f); p != "" {
		obs := fmt.Sprintf("%s(%x): %s", what, in, p)
		if (inClass || anyOversized(in)) && isBoundsPanic(p) && rec.Known(sigOversized, obs) {
			rec.Excluded()
			return true, nil
		}
		return true, fmt.Errorf("%s(%s) PANICS: %s   [full input %x]", what, shortHex(in), p, in)
	}
	return false, nil
}

func exact(b []byte) []byte {
	// a private copy with cap == len, so that an over-read is a runtime error
	c := make([]byte, len(b))
	copy(c, b)
	return c
}

// ---------------------------------------------------------------------------
// one offer function per decoder

func offerVLQ(rec *ev.Rec, b []byte) error {
	var v uint64
	var n int
	if _, err := guarded(rec, false, "deserializeVLQ", b, func() { v, n = blockchain.VerifDeserializeVLQ(exact(b)) }); err != nil {
		return err
	}
	if n < 0 || n > len(b) || (n == 0) != (len(b) == 0) {
		return fmt.Errorf("deserializeVLQ(%x) reports %d bytes read of %d", b, n, len(b))
	}
	mv, mn, err := fm.ReadVLQ(b)
	if err == nil && (v != mv || n != mn) {
		return fmt.Errorf("deserializeVLQ(%x) = (%d, %d), documented format (%d, %d)", b, v, n, mv, mn)
	}
	if _, _, term := fm.ReadVLQBig(b); term {
		v2, n2 := blockchain.VerifDeserializeVLQ(exact(b[:n]))
		if v2 != v || n2 != n {
			return fmt.Errorf("deserializeVLQ(%x) = (%d, %d) but on its own %d bytes (%d, %d): depends on data behind the quantity", b, v, n, n, v2, n2)
		}
	}
	return nil
}

func offerScript(rec *ev.Rec, b []byte) error {
	var sz int
	if _, err := guarded(rec, false, "decodeCompressedScriptSize", b, func() { sz = blockchain.VerifDecodeCompressedScriptSize(exact(b)) }); err != nil {
		return err
	}
	ms, mn, merr := fm.ReadCompressedScript(b)
	if merr == nil && sz != mn {
		return fmt.Errorf("decodeCompressedScriptSize(%s) = %d, documented format %d", shortHex(b), sz, mn)
	}
	// decompressScript is documented to need at least decodeCompressedScriptSize bytes
	over := scriptSizeOverflow(b)
	if sz < 0 || sz > len(b) {
		return nil // precondition cannot be met: nothing to call
	}
	var s []byte
	in := exact(b[:sz])
	skip, err := guarded(rec, over, "decompressScript", in, func() { s = blockchain.VerifDecompressScript(in) })
	if err != nil || skip {
		return err
	}
	if merr == nil && !bytes.Equal(s, ms) {
		return fmt.Errorf("decompressScript(%s) = %s, documented format %s", shortHex(in), shortHex(s), shortHex(ms))
	}
	return nil
}

func offerTxOut(rec *ev.Rec, b []byte) error {
	var a uint64
	var s []byte
	var n int
	var err error
	skip, gerr := guarded(rec, txoutInClass(b), "decodeCompressedTxOut", b, func() { a, s, n, err = blockchain.VerifDecodeCompressedTxOut(exact(b)) })
	if gerr != nil || skip {
		return gerr
	}
	if n < 0 || n > len(b) {
		return fmt.Errorf("decodeCompressedTxOut(%s) reports %d bytes read of %d (err %v)", shortHex(b), n, len(b), err)
	}
	ma, ms, mn, merr := fm.ReadTxOut(b)
	if merr == nil {
		rec.Count("model-accepts", 1)
		if err != nil || a != ma || !bytes.Equal(s, ms) || n != mn {
			return fmt.Errorf("decodeCompressedTxOut(%s) = (%d, %s, %d, %v), documented format (%d, %s, %d)", shortHex(b), a, shortHex(s), n, err, ma, shortHex(ms), mn)
		}
	}
	_, q1, t1 := fm.ReadVLQBig(b)
	_, _, t2 := fm.ReadVLQBig(b[q1:])
	if err == nil && t1 && t2 {
		// The result may depend only on the bytes reported as read. (Only for
		// self-delimiting parses: a quantity that runs into the end of the data
		// is read leniently by btcd - e.g. 00 85 is "amount 0, empty script" -
		// and more data then legitimately continues that quantity.)
		for _, tail := range [][]byte{nil, {0xff, 0xff, 0xff}} {
			in := append(exact(b[:n]), tail...)
			var a2 uint64
			var s2 []byte
			var n2 int
			var err2 error
			skip, gerr := guarded(rec, txoutInClass(in), "decodeCompressedTxOut", in, func() { a2, s2, n2, err2 = blockchain.VerifDecodeCompressedTxOut(in) })
			if gerr != nil {
				return gerr
			}
			if skip {
				continue
			}
			if err2 != nil || a2 != a || !bytes.Equal(s2, s) || n2 != n {
				return fmt.Errorf("decodeCompressedTxOut(%s) = (%d, %s, %d) but with the data behind byte %d replaced by %x: (%d, %s, %d, %v): reads beyond what it reports",
					shortHex(b), a, shortHex(s), n, n, tail, a2, shortHex(s2), n2, err2)
			}
		}
	}
	return nil
}

func offerUtxo(rec *ev.Rec, b []byte) error {
	var e *blockchain.UtxoEntry
	var err error
	skip, gerr := guarded(rec, utxoInClass(b), "deserializeUtxoEntry", b, func() { e, err = blockchain.VerifDeserializeUtxoEntry(exact(b)) })
	if gerr != nil || skip {
		return gerr
	}
	if (e == nil) == (err == nil) {
		return fmt.Errorf("deserializeUtxoEntry(%s) = %v, %v: neither value nor error", shortHex(b), e, err)
	}
	if err == nil {
		rec.Count("btcd-accepts", 1)
	}
	mo, _, merr := fm.ReadUtxo(b)
	if merr == nil {
		rec.Count("model-accepts", 1)
		if err != nil {
			return fmt.Errorf("deserializeUtxoEntry(%s): error %v, but the documented format reads amount=%d height=%d coinbase=%v script=%s",
				shortHex(b), err, mo.Amount, mo.Height, mo.Coinbase, shortHex(mo.PkScript))
		}
		if e.Amount() != mo.Amount || !bytes.Equal(e.PkScript(), mo.PkScript) || e.BlockHeight() != mo.Height || e.IsCoinBase() != mo.Coinbase || e.IsSpent() {
			return fmt.Errorf("deserializeUtxoEntry(%s) = amount=%d height=%d coinbase=%v script=%s, documented format amount=%d height=%d coinbase=%v script=%s",
				shortHex(b), e.Amount(), e.BlockHeight(), e.IsCoinBase(), shortHex(e.PkScript()), mo.Amount, mo.Height, mo.Coinbase, shortHex(mo.PkScript))
		}
	}
	return nil
}

func offerJournal(rec *ev.Rec, b []byte, shape []int) error {
	count := 0
	for _, n := range shape {
		count += n
	}
	txs := txsOfShape(shape)
	var back []blockchain.SpentTxOut
	var err error
	skip, gerr := guarded(rec, journalInClass(b, count), fmt.Sprintf("deserializeSpendJournalEntry[shape %v]", shape), b,
		func() { back, err = blockchain.VerifDeserializeSpendJournalEntry(exact(b), txs) })
	if gerr != nil || skip {
		return gerr
	}
	if err == nil && len(back) != count {
		return fmt.Errorf("deserializeSpendJournalEntry(%s, shape %v) = %d items without error, the block spends %d", shortHex(b), shape, len(back), count)
	}
	if err == nil && count > 0 {
		rec.Count("btcd-accepts", 1)
	}
	if count == 0 && len(b) == 0 && err != nil {
		return fmt.Errorf("deserializeSpendJournalEntry(empty, shape %v): %v", shape, err)
	}
	if count > 0 {
		mo, merr := fm.DecodeJournal(b, count)
		if merr == nil {
			rec.Count("model-accepts", 1)
			if err != nil {
				return fmt.Errorf("deserializeSpendJournalEntry(%s, shape %v): error %v, but the documented format reads %d items", shortHex(b), shape, err, count)
			}
			if e := sameStxos(back, mo); e != nil {
				return fmt.Errorf("deserializeSpendJournalEntry(%s, shape %v) differs from the documented format: %v", shortHex(b), shape, e)
			}
		}
	}
	return nil
}

func offerBestState(rec *ev.Rec, b []byte) error {
	var d blockchain.VerifBestChainState
	var err error
	if _, gerr := guarded(rec, false, "deserializeBestChainState", b, func() { d, err = blockchain.VerifDeserializeBestChainState(exact(b)) }); gerr != nil {
		return gerr
	}
	ms, merr := fm.DecodeBestState(b)
	if (merr == nil) != (err == nil) {
		return fmt.Errorf("deserializeBestChainState(%s): error %v, documented format: %v", shortHex(b), err, merr)
	}
	if merr == nil {
		rec.Count("model-accepts", 1)
		if d.Hash != chainhash.Hash(ms.Hash) || d.Height != ms.Height || d.TotalTxns != ms.TotalTxns || d.WorkSum == nil || d.WorkSum.Cmp(ms.WorkSum) != 0 {
			return fmt.Errorf("deserializeBestChainState(%s) = %+v, documented format %+v", shortHex(b), d, ms)
		}
	}
	return nil
}

func offerBlockRow(rec *ev.Rec, b []byte) error {
	var st byte
	var err error
	var nonce, bits, tm uint32
	var ver int32
	var prev, merkle chainhash.Hash
	if _, gerr := guarded(rec, false, "deserializeBlockRow", b, func() {
		h, s, e := blockchain.VerifDeserializeBlockRow(exact(b))
		st, err = s, e
		if h != nil {
			nonce, bits, tm, ver, prev, merkle = h.Nonce, h.Bits, uint32(h.Timestamp.Unix()), h.Version, h.PrevBlock, h.MerkleRoot
		}
	}); gerr != nil {
		return gerr
	}
	mr, merr := fm.DecodeBlockRow(b)
	if (merr == nil) != (err == nil) {
		return fmt.Errorf("deserializeBlockRow(%s): error %v, documented format: %v", shortHex(b), err, merr)
	}
	if merr == nil {
		rec.Count("model-accepts", 1)
		if st != mr.Status || nonce != mr.Nonce || bits != mr.Bits || tm != mr.Time || ver != mr.Version || prev != chainhash.Hash(mr.PrevBlock) || merkle != chainhash.Hash(mr.MerkleRoot) {
			return fmt.Errorf("deserializeBlockRow(%s) differs from the documented format %+v (status %#x nonce %d bits %d time %d version %d)", shortHex(b), mr, st, nonce, bits, tm, ver)
		}
	}
	return nil
}

// ---------------------------------------------------------------------------
// hostile byte generators

var oversizedConst = [][]byte{
	{0xff, 0xff, 0xff, 0xff, 0xff, 0xff, 0xff, 0xff, 0xff, 0x7f},       // 0xff x 9 0x7f (above 2^64)
	{0x80, 0xfe, 0xfe, 0xfe, 0xfe, 0xfe, 0xfe, 0xfe, 0xfe, 0x7f},       // 2^64-1, the largest documented value
	{0xff, 0xff, 0xff, 0xff, 0xff, 0xff, 0xff, 0xff, 0xff, 0xff, 0x7f}, // 11 bytes
	{0x80, 0x80, 0x80, 0x80, 0x80, 0x80, 0x80, 0x80, 0x80, 0x80, 0x00}, // 11 bytes, minimal digits
	{0xff, 0xff, 0xff, 0xff, 0x7f},                                     // 2^35-ish
	{0x8f, 0xfe, 0xfe, 0xfe, 0x7f},                                     // just above 2^32
}

// genQuantity: one quantity field as bytes: canonical small, canonical
// boundary, oversized, near 2^63 / 2^64, or unterminated.
func genQuantity() *rapid.Generator[[]byte] {
	return rapid.Custom(func(t *rapid.T) []byte {
		switch rapid.IntRange(0, 9).Draw(t, "qkind") {
		case 0, 1, 2:
			return fm.PutVLQ(rapid.Uint64Range(0, 200).Draw(t, "small"))
		case 3:
			return fm.PutVLQ(genU64().Draw(t, "boundary"))
		case 4:
			return oversizedConst[rapid.IntRange(0, len(oversizedConst)-1).Draw(t, "const")]
		case 5: // around 2^63 and 2^64: where int(W-6+r) changes sign / wraps
			base := rapid.SampledFrom([]uint64{1 << 63, 1<<64 - 1, 1<<63 - 1, 1 << 62}).Draw(t, "base")
			d := uint64(rapid.IntRange(-16, 16).Draw(t, "d"))
			return fm.PutVLQ(base + d)
		case 6: // unterminated run
			k := rapid.IntRange(1, 12).Draw(t, "k")
			b := rapid.SliceOfN(rapid.Byte(), k, k).Draw(t, "run")
			for i := range b {
				b[i] |= 0x80
			}
			return b
		case 7: // long terminated run (more than 10 bytes)
			k := rapid.IntRange(10, 20).Draw(t, "k")
			b := rapid.SliceOfN(rapid.Byte(), k, k).Draw(t, "run")
			for i := range b {
				b[i] |= 0x80
			}
			return append(b, rapid.Byte().Draw(t, "last")&0x7f)
		case 8: // script type / small size
			return []byte{byte(rapid.IntRange(0, 12).Draw(t, "type"))}
		default:
			return fm.PutVLQ(uint64(rapid.IntRange(0, 300).Draw(t, "len")) + fm.NumSpecialScripts)
		}
	})
}

func genPayload() *rapid.Generator[[]byte] {
	return rapid.Custom(func(t *rapid.T) []byte {
		l := rapid.SampledFrom([]int{0, 0, 1, 19, 20, 21, 31, 32, 33, 34, -1}).Draw(t, "plen")
		if l == -1 {
			l = rapid.IntRange(0, 80).Draw(t, "l")
		}
		if rapid.IntRange(0, 3).Draw(t, "valid-x") == 0 && l >= 32 {
			x := nextOnCurve(new(big.Int).SetBytes(gen32().Draw(t, "x"))).X
			return append(x.FillBytes(make([]byte, 32)), make([]byte, l-32)...)
		}
		return rapid.SliceOfN(rapid.Byte(), l, l).Draw(t, "payload")
	})
}

type hostileCase struct {
	b     []byte
	class string
}

// genHostile: arbitrary bytes, field-structured byte strings
// (<quantity><quantity>[<quantity>]<quantity><payload>, repeated), and valid
// encodings with field-aware mutations.
func genHostile() *rapid.Generator[hostileCase] {
	return rapid.Custom(func(t *rapid.T) hostileCase {
		switch rapid.IntRange(0, 5).Draw(t, "hkind") {
		case 0:
			return hostileCase{rapid.SliceOfN(rapid.Byte(), 0, 80).Draw(t, "bytes"), "arbitrary"}
		case 1, 2: // structured pieces
			var b []byte
			items := rapid.IntRange(1, 4).Draw(t, "items")
			for i := 0; i < items; i++ {
				nq := rapid.IntRange(1, 4).Draw(t, "quantities")
				for q := 0; q < nq; q++ {
					b = append(b, genQuantity().Draw(t, "q")...)
				}
				b = append(b, genPayload().Draw(t, "p")...)
			}
			return hostileCase{b, "structured"}
		default: // valid records, mutated
			var b []byte
			items := rapid.IntRange(1, 3).Draw(t, "items")
			asStxo := rapid.Bool().Draw(t, "stxo")
			var fields []int // offsets of quantity fields
			for i := 0; i < items; i++ {
				o := fm.Out{Amount: genLosslessAmount().Draw(t, "amount"), Height: genHeight().Draw(t, "height"), Coinbase: rapid.Bool().Draw(t, "cb")}
				if rapid.Bool().Draw(t, "special") {
					o.PkScript = genSpecialValid(t)
				} else {
					o.PkScript = rapid.SliceOfN(rapid.Byte(), 0, 40).Draw(t, "script")
				}
				var e []byte
				if asStxo {
					e, _ = fm.EncodeStxo(o)
				} else {
					e, _ = fm.EncodeUtxo(o)
				}
				// field offsets: header, (reserved), amount, script size
				off := 0
				nf := 3
				if asStxo && o.Height != 0 {
					nf = 4
				}
				for f := 0; f < nf; f++ {
					fields = append(fields, len(b)+off)
					_, n, _ := fm.ReadVLQBig(e[off:])
					off += n
				}
				b = append(b, e...)
			}
			muts := rapid.IntRange(0, 2).Draw(t, "mutations")
			for m := 0; m < muts && len(b) > 0; m++ {
				switch rapid.IntRange(0, 5).Draw(t, "mut") {
				case 0: // truncate
					b = b[:rapid.IntRange(0, len(b)-1).Draw(t, "cut")]
				case 1: // flip a byte
					b[rapid.IntRange(0, len(b)-1).Draw(t, "pos")] ^= byte(rapid.IntRange(1, 255).Draw(t, "xor"))
				case 2: // set a byte to a continuation / maximal value
					b[rapid.IntRange(0, len(b)-1).Draw(t, "pos")] = rapid.SampledFrom([]byte{0x80, 0xff, 0x7f, 0x00, 0x04, 0x05}).Draw(t, "val")
				case 3, 4: // replace a quantity field by a hostile quantity
					f := fields[rapid.IntRange(0, len(fields)-1).Draw(t, "field")]
					if f < len(b) {
						_, n, _ := fm.ReadVLQBig(b[f:])
						q := genQuantity().Draw(t, "q")
						nb := append(append(append([]byte{}, b[:f]...), q...), b[f+n:]...)
						b = nb
					}
				default: // append garbage
					b = append(b, rapid.SliceOfN(rapid.Byte(), 1, 12).Draw(t, "garbage")...)
				}
			}
			if muts == 0 {
				return hostileCase{b, "valid-unmutated"}
			}
			return hostileCase{b, "valid-mutated"}
		}
	})
}

func describeQuantities(rec *ev.Rec, b []byte) (pastHeader bool) {
	v, n, term := fm.ReadVLQBig(b)
	if !term {
		rec.Count("first-quantity-unterminated", 1)
	} else if v.Cmp(two64) >= 0 {
		rec.Count("first-quantity-above-64-bit", 1)
	}
	if anyOversized(b) {
		rec.Count("has-quantity>=2^63", 1)
	}
	return term && n < len(b)
}

var recHostile = ev.New("C15", "hostile-bytes",
	"byte strings: arbitrary (0-80 bytes); field-structured strings built from quantities (canonical small/boundary, 0xff x 9 0x7f and other oversized constants, values around 2^62/2^63/2^64, "+
		"unterminated runs, >10-byte runs, script type bytes) and payloads (20/32/33 bytes, valid x coordinates); valid utxo/journal encodings with 0-2 field-aware mutations "+
		"(truncate, flip, force 0x80/0xff, replace a quantity field by a hostile one, append); each string is offered to deserializeVLQ, decodeCompressedScriptSize, decompressScript "+
		"(only within its documented precondition), decodeCompressedTxOut, deserializeUtxoEntry and deserializeSpendJournalEntry (tx shape 0-5 x 0-5); oracle: value or error and never a panic, "+
		"bytes-read within the input, result independent of the data behind the bytes reported as read, and whenever the strict model decoder accepts the string btcd must return the same value; "+
		"non-trivial = the first quantity is terminated and followed by more data (decoder progresses past the header code); distinct by (bytes, shape)",
	"arbitrary", "structured", "valid-mutated", "valid-unmutated", "model-accepts", "btcd-accepts", "has-quantity>=2^63", "first-quantity-unterminated", "first-quantity-above-64-bit", "in-known-class")

func genShape() *rapid.Generator[[]int] {
	return rapid.SliceOfN(rapid.IntRange(0, 5), 0, 5)
}

func offerAll(rec *ev.Rec, b []byte, shape []int) error {
	for _, f := range []func() error{
		func() error { return offerVLQ(rec, b) },
		func() error { return offerScript(rec, b) },
		func() error { return offerTxOut(rec, b) },
		func() error { return offerUtxo(rec, b) },
		func() error { return offerJournal(rec, b, shape) },
	} {
		if err := f(); err != nil {
			return err
		}
	}
	return nil
}

func TestHostileBytes(t *testing.T) {
	rapid.Check(t, func(t *rapid.T) {
		hc := genHostile().Draw(t, "input")
		shape := genShape().Draw(t, "shape")
		past := describeQuantities(recHostile, hc.b)
		recHostile.Case(past, hc.class, ev.Hash(hc.b, []byte(fmt.Sprint(shape))), func() any {
			return fmt.Sprintf("%s: %s shape %v", hc.class, shortHex(hc.b), shape)
		})
		if err := offerAll(recHostile, hc.b, shape); err != nil {
			t.Fatal(err)
		}
		// every suffix start is a decoder entry point too (journal items, txouts inside entries)
		if len(hc.b) > 1 {
			i := rapid.IntRange(1, len(hc.b)-1).Draw(t, "suffix")
			if err := offerAll(recHostile, hc.b[i:], shape); err != nil {
				t.Fatal(err)
			}
		}
	})
}

var recHostileFixed = ev.New("C15", "hostile-fixed-records",
	"best chain state records and block index rows: arbitrary bytes of 0-130 bytes, and valid records truncated / extended / with the work-sum length field replaced "+
		"(0, len+-1, 2^31, 2^32-1, values that overflow 32-bit offset arithmetic); oracle: never a panic, error exactly when the documented layout does not fit, otherwise the documented values; "+
		"non-trivial = at least the fixed part is present; distinct by bytes",
	"arbitrary", "best-mutated", "row-mutated", "model-accepts")

func TestHostileFixed(t *testing.T) {
	rapid.Check(t, func(t *rapid.T) {
		var b []byte
		cl := "arbitrary"
		switch rapid.IntRange(0, 2).Draw(t, "kind") {
		case 0:
			b = rapid.SliceOfN(rapid.Byte(), 0, 130).Draw(t, "bytes")
		case 1:
			cl = "best-mutated"
			var s fm.BestState
			copy(s.Hash[:], gen32().Draw(t, "hash"))
			s.Height = uint32(genU64().Draw(t, "height"))
			s.TotalTxns = genU64().Draw(t, "txns")
			s.WorkSum = genWork().Draw(t, "work")
			b = fm.EncodeBestState(s)
			wl := uint32(len(b) - 48)
			switch rapid.IntRange(0, 3).Draw(t, "mut") {
			case 0:
				b = b[:rapid.IntRange(0, len(b)).Draw(t, "cut")]
			case 1:
				binary.LittleEndian.PutUint32(b[44:], rapid.SampledFrom([]uint32{0, wl - 1, wl + 1, 1 << 31, 1<<32 - 1, 1<<32 - 48, 1<<32 - 47, 1<<32 - 49, wl + 1<<31}).Draw(t, "len"))
			case 2:
				b = append(b, rapid.SliceOfN(rapid.Byte(), 1, 40).Draw(t, "extra")...)
				binary.LittleEndian.PutUint32(b[44:], uint32(rapid.IntRange(0, len(b)-47).Draw(t, "len")))
			default:
				b[rapid.IntRange(0, len(b)-1).Draw(t, "pos")] ^= byte(rapid.IntRange(1, 255).Draw(t, "xor"))
			}
		default:
			cl = "row-mutated"
			b = rapid.SliceOfN(rapid.Byte(), 81, 81).Draw(t, "row")
			switch rapid.IntRange(0, 2).Draw(t, "mut") {
			case 0:
				b = b[:rapid.IntRange(0, 81).Draw(t, "cut")]
			case 1:
				b = append(b, rapid.SliceOfN(rapid.Byte(), 1, 10).Draw(t, "extra")...)
			}
		}
		recHostileFixed.Case(len(b) >= 48, cl, ev.Hash(b), func() any { return cl + ": " + shortHex(b) })
		if err := offerBestState(recHostileFixed, b); err != nil {
			t.Fatal(err)
		}
		if err := offerBlockRow(recHostileFixed, b); err != nil {
			t.Fatal(err)
		}
	})
}

// ---------------------------------------------------------------------------
// native fuzz targets (thorough tier). Seeds: the documented examples, the
// oversized-VLQ constants in every field position, truncations.

var recFuzz = ev.New("C15", "native-fuzz",
	"go test -fuzz on each decoder with the same oracles as hostile-bytes; corpus seeded with the documented examples and oversized-VLQ constants (not pinned by seed)",
)

func fuzzSeeds() [][]byte {
	var seeds [][]byte
	for _, e := range fm.UtxoExamples {
		seeds = append(seeds, e.Bytes())
	}
	seeds = append(seeds, fm.StxoExample1.Bytes())
	raw, _ := hex.DecodeString(fm.StxoExample2Hex)
	seeds = append(seeds, raw)
	for _, e := range fm.VLQExamples {
		seeds = append(seeds, e.Bytes)
	}
	for _, c := range oversizedConst {
		seeds = append(seeds, c)
		seeds = append(seeds, append(append([]byte{0x01, 0x00}, c...), 0x00))       // header, amount, oversized script size
		seeds = append(seeds, append(append([]byte{0x02, 0x00, 0x00}, c...), 0x00)) // header, reserved, amount, oversized script size
		seeds = append(seeds, append(append([]byte{}, c...), 0x00, 0x06))           // oversized header code
		seeds = append(seeds, append(append([]byte{0x01}, c...), 0x06))             // oversized amount
		seeds = append(seeds, append(append([]byte{0x00}, c...), 0x00))             // txout: amount, oversized script size
	}
	seeds = append(seeds, nil, []byte{0x00}, []byte{0x80}, []byte{0x01, 0x00, 0x85}, []byte{0x01, 0x00, 0x04}, []byte{0x01, 0x00, 0x05, 0x00})
	// kilobytes of continuation bytes (found by the fuzzer: the model reader must stay linear)
	seeds = append(seeds, append([]byte{0x71}, bytes.Repeat([]byte{0xe6}, 3000)...))
	seeds = append(seeds, append(append([]byte{0x02, 0x00, 0x00}, bytes.Repeat([]byte{0xff}, 1200)...), 0x7f, 0x00))
	return seeds
}

func shapeOf(code uint16) []int {
	var shape []int
	n := int(code % 6)
	code /= 6
	for i := 0; i < n; i++ {
		shape = append(shape, int(code%6))
		code /= 6
	}
	return shape
}

func FuzzUtxoEntry(f *testing.F) {
	for _, s := range fuzzSeeds() {
		f.Add(s)
	}
	f.Fuzz(func(t *testing.T, b []byte) {
		recFuzz.Case(true, "utxo", ev.Hash(b), nil)
		if err := offerUtxo(recFuzz, b); err != nil {
			t.Fatal(err)
		}
	})
}

func FuzzCompressedTxOut(f *testing.F) {
	for _, s := range fuzzSeeds() {
		f.Add(s)
	}
	f.Fuzz(func(t *testing.T, b []byte) {
		recFuzz.Case(true, "txout", ev.Hash(b), nil)
		for _, fn := range []func(*ev.Rec, []byte) error{offerVLQ, offerScript, offerTxOut} {
			if err := fn(recFuzz, b); err != nil {
				t.Fatal(err)
			}
		}
	})
}

func FuzzSpendJournal(f *testing.F) {
	for _, s := range fuzzSeeds() {
		f.Add(s, uint16(1+6*1))
		f.Add(s, uint16(2+6*(1+6*1)))
		f.Add(s, uint16(3+6*(0+6*(2+6*1))))
	}
	f.Fuzz(func(t *testing.T, b []byte, code uint16) {
		recFuzz.Case(true, "journal", ev.Hash(b), nil)
		if err := offerJournal(recFuzz, b, shapeOf(code)); err != nil {
			t.Fatal(err)
		}
	})
}

func FuzzBestState(f *testing.F) {
	f.Add(fm.EncodeBestState(fm.BestState{WorkSum: big.NewInt(0)}))
	f.Add(fm.EncodeBestState(fm.BestState{Height: 840000, TotalTxns: 1 << 30, WorkSum: new(big.Int).Lsh(big.NewInt(1), 95)}))
	huge := fm.EncodeBestState(fm.BestState{WorkSum: big.NewInt(0x0102)})
	binary.LittleEndian.PutUint32(huge[44:], 0xffffffff)
	f.Add(huge)
	huge2 := append([]byte{}, huge...)
	binary.LittleEndian.PutUint32(huge2[44:], 0xffffffd0)
	f.Add(huge2)
	f.Fuzz(func(t *testing.T, b []byte) {
		recFuzz.Case(true, "best", ev.Hash(b), nil)
		if err := offerBestState(recFuzz, b); err != nil {
			t.Fatal(err)
		}
	})
}

func FuzzBlockRow(f *testing.F) {
	f.Add(fm.EncodeBlockRow(fm.BlockRow{Version: 1, Time: 1231006505, Bits: 0x1d00ffff, Nonce: 2083236893, Status: 3}))
	f.Add(make([]byte, 80))
	f.Add(make([]byte, 82))
	f.Fuzz(func(t *testing.T, b []byte) {
		recFuzz.Case(true, "row", ev.Hash(b), nil)
		if err := offerBlockRow(recFuzz, b); err != nil {
			t.Fatal(err)
		}
	})
}
