package c15

import (
	"bytes"
	"encoding/binary"
	"encoding/hex"
	"fmt"
	"math/big"
	"os"
	"testing"
	"time"

	"github.com/btcsuite/btcd/blockchain"
	"github.com/btcsuite/btcd/chainhash/v2"
	"github.com/btcsuite/btcd/wire/v2"
	"pgregory.net/rapid"

	"verif/internal/ev"
	fm "verif/internal/model/chainfmt"
	"verif/internal/scratch"
)

func TestMain(m *testing.M) {
	// The model must reproduce every literal example of the format comments
	// before it is allowed to judge btcd.
	if err := fm.SelfCheck(); err != nil {
		fmt.Printf("VERIF-INFRA: model/chainfmt disagrees with a documented example: %v\n", err)
		os.Exit(1)
	}
	code := m.Run()
	scratch.Sweep()
	ev.Flush()
	os.Exit(code)
}

const canary = 0xA5

// putInto calls a btcd "put" function twice: into a buffer of exactly the
// promised size (must not panic: that is the documented contract) and into a
// larger buffer filled with a canary (must not write beyond what it reports).
func putInto(size int, put func(target []byte) int) ([]byte, error) {
	if size < 0 || size > 1<<24 {
		return nil, fmt.Errorf("size calculator returned %d", size)
	}
	exact := make([]byte, size)
	var n1 int
	if p := catch(func() { n1 = put(exact) }); p != "" {
		return nil, fmt.Errorf("put into a buffer of exactly the calculated size %d: %s", size, p)
	}
	if n1 != size {
		return nil, fmt.Errorf("put reports %d bytes, size calculator %d", n1, size)
	}
	wide := bytes.Repeat([]byte{canary}, size+8)
	var n2 int
	if p := catch(func() { n2 = put(wide) }); p != "" {
		return nil, fmt.Errorf("put into a larger buffer: %s", p)
	}
	if n2 != size || !bytes.Equal(wide[:size], exact) {
		return nil, fmt.Errorf("put is not deterministic: %x (%d) vs %x (%d)", exact, n1, wide[:n2], n2)
	}
	if !bytes.Equal(wide[size:], bytes.Repeat([]byte{canary}, 8)) {
		return nil, fmt.Errorf("put wrote beyond the %d bytes it reports: tail %x", size, wide[size:])
	}
	return exact, nil
}

// ---------------------------------------------------------------------------
// documented examples offered to btcd (a disagreement here is a violation of
// format stability; the model itself was calibrated on them in TestMain)

var recExamples = ev.New("C15", "documented-examples",
	"every literal example of the format comments (VLQ table, amount table, utxo examples 1-3, spend journal examples 1-2) "+
		"encoded and decoded by btcd; oracle = the documented bytes/values; all cases non-trivial and distinct by construction",
	"vlq", "amount", "utxo", "stxo")

func TestDocumentedExamples(t *testing.T) {
	for _, e := range append(append([]fm.VLQExample{}, fm.VLQExamples...), fm.DocumentedFieldExamples...) {
		recExamples.Case(true, "vlq", ev.Hash(e.Bytes), func() any { return fmt.Sprintf("VLQ %d <-> %x", e.Value, e.Bytes) })
		if err := checkVLQValue(e.Value, e.Bytes); err != nil {
			t.Fatalf("documented VLQ example %d -> %x: %v", e.Value, e.Bytes, err)
		}
	}
	for _, e := range fm.AmountExamples {
		var b [8]byte
		binary.LittleEndian.PutUint64(b[:], e.Amount)
		recExamples.Case(true, "amount", ev.Hash(b[:]), func() any { return fmt.Sprintf("amount %d <-> %d", e.Amount, e.Compressed) })
		if c := blockchain.VerifCompressTxOutAmount(e.Amount); c != e.Compressed {
			t.Fatalf("documented amount example: compress(%d) = %d, documented %d", e.Amount, c, e.Compressed)
		}
		if a := blockchain.VerifDecompressTxOutAmount(e.Compressed); a != e.Amount {
			t.Fatalf("documented amount example: decompress(%d) = %d, documented %d", e.Compressed, a, e.Amount)
		}
		if blockchain.VerifSerializeSizeVLQ(e.Amount) != e.AmountVLQ || blockchain.VerifSerializeSizeVLQ(e.Compressed) != e.CompVLQ {
			t.Fatalf("documented amount example %d: VLQ sizes differ from the documented (%d)/(%d)", e.Amount, e.AmountVLQ, e.CompVLQ)
		}
	}
	for _, e := range fm.AmountErrata {
		// documentation misprint (see model/chainfmt/examples.go): btcd must follow the formula
		if c := blockchain.VerifCompressTxOutAmount(e.Amount); c == e.PrintedCompressed {
			t.Fatalf("VERIF-INFRA: btcd agrees with the line recorded as a misprint (%d -> %d); re-read the comment", e.Amount, c)
		}
		recExamples.Set("doc_erratum", fmt.Sprintf("compress.go amount table prints %d -> %d; the formula of the same comment, Bitcoin Core and btcd give %d",
			e.Amount, e.PrintedCompressed, blockchain.VerifCompressTxOutAmount(e.Amount)))
	}
	for _, e := range fm.UtxoExamples {
		recExamples.Case(true, "utxo", ev.Hash(e.Bytes()), func() any { return e.Name + " " + e.Hex })
		o := fm.Out{Amount: e.Amount, PkScript: e.Script(), Height: e.Height, Coinbase: e.Coinbase}
		if err := checkUtxo(o, e.Bytes()); err != nil {
			t.Fatalf("%s: %v", e.Name, err)
		}
	}
	{
		e := fm.StxoExample1
		recExamples.Case(true, "stxo", ev.Hash(e.Bytes()), func() any { return e.Name + " " + e.Hex })
		o := []fm.Out{{Amount: e.Amount, PkScript: e.Script(), Height: e.Height, Coinbase: e.Coinbase}}
		if err := checkJournal(o, []int{1}, e.Bytes()); err != nil {
			t.Fatalf("%s: %v", e.Name, err)
		}
	}
	{
		raw, _ := hex.DecodeString(fm.StxoExample2Hex)
		recExamples.Case(true, "stxo", ev.Hash(raw), func() any { return "spend journal example 2 " + fm.StxoExample2Hex })
		var o []fm.Out
		for _, e := range fm.StxoExample2 {
			o = append(o, fm.Out{Amount: e.Amount, PkScript: e.Script(), Height: e.Height, Coinbase: e.Coinbase})
		}
		for _, shape := range [][]int{{2}, {1, 1}, {0, 1, 0, 1}, {0, 2, 0}} {
			if err := checkJournal(o, shape, raw); err != nil {
				t.Fatalf("spend journal example 2 with tx shape %v: %v", shape, err)
			}
		}
	}
}

// ---------------------------------------------------------------------------
// VLQ

var recVLQ = ev.New("C15", "vlq",
	"64-bit quantities from a boundary mixture (uniform, small, 2^k+-2, 128^k+-2, first/last value of every encoded length B_k+-2, random bit length), in pairs; "+
		"oracle = model VLQ encoder (range-partition form, no shared code): btcd bytes == model bytes, size calculator == length, decode == value with and without trailing data, "+
		"no write beyond the reported size, order: (length, bytes) order == numeric order for every pair; non-trivial = multi-byte encoding; distinct by value",
	"1-byte", "2-byte", "3-byte", "4-5-byte", "6-9-byte", "10-byte", "length-boundary")

func vlqClass(n uint64) string {
	switch k := fm.VLQSize(n); {
	case k == 1:
		return "1-byte"
	case k == 2:
		return "2-byte"
	case k == 3:
		return "3-byte"
	case k <= 5:
		return "4-5-byte"
	case k <= 9:
		return "6-9-byte"
	default:
		return "10-byte"
	}
}

// checkVLQValue compares btcd with the expected encoding of n.
func checkVLQValue(n uint64, want []byte) error {
	size := blockchain.VerifSerializeSizeVLQ(n)
	if size != len(want) {
		return fmt.Errorf("serializeSizeVLQ(%d) = %d, documented format needs %d bytes (%x)", n, size, len(want), want)
	}
	got, err := putInto(size, func(tg []byte) int { return blockchain.VerifPutVLQ(tg, n) })
	if err != nil {
		return fmt.Errorf("putVLQ(%d): %v", n, err)
	}
	if !bytes.Equal(got, want) {
		return fmt.Errorf("putVLQ(%d) = %x, documented format %x", n, got, want)
	}
	for _, tail := range [][]byte{nil, {0x00}, {0x80, 0x80}, {0xff}} {
		in := append(append([]byte{}, want...), tail...)
		v, k := blockchain.VerifDeserializeVLQ(in)
		if v != n || k != len(want) {
			return fmt.Errorf("deserializeVLQ(%x) = (%d, %d), expected (%d, %d)", in, v, k, n, len(want))
		}
	}
	return nil
}

func shortlexLess(a, b []byte) bool {
	if len(a) != len(b) {
		return len(a) < len(b)
	}
	return bytes.Compare(a, b) < 0
}

func TestVLQ(t *testing.T) {
	rapid.Check(t, func(t *rapid.T) {
		a := genU64().Draw(t, "a")
		b := genU64().Draw(t, "b")
		ea, eb := fm.PutVLQ(a), fm.PutVLQ(b)
		cl := vlqClass(a)
		var hb [16]byte
		binary.LittleEndian.PutUint64(hb[:], a)
		binary.LittleEndian.PutUint64(hb[8:], b)
		recVLQ.Case(len(ea) > 1, cl, ev.Hash(hb[:]), func() any { return fmt.Sprintf("%d -> %x ; %d -> %x", a, ea, b, eb) })
		if len(fm.PutVLQ(a+1)) != len(ea) || (a > 0 && len(fm.PutVLQ(a-1)) != len(ea)) {
			recVLQ.Count("length-boundary", 1)
		}
		if err := checkVLQValue(a, ea); err != nil {
			t.Fatal(err)
		}
		if err := checkVLQValue(b, eb); err != nil {
			t.Fatal(err)
		}
		// Order. The VLQ comment promises a bijection; the utxo key comment adds
		// that byte-wise comparison of keys yields index order. For a prefix-free
		// MSB-first code that can only mean (length, bytes) order; plain
		// lexicographic order is NOT claimed here because the documented examples
		// themselves contradict it across lengths (16511 -> ff7f sorts after
		// 16512 -> 808000); such pairs are counted, not failed (see report).
		ga := make([]byte, 10)
		gb := make([]byte, 10)
		ga = ga[:blockchain.VerifPutVLQ(ga, a)]
		gb = gb[:blockchain.VerifPutVLQ(gb, b)]
		if (a < b) != shortlexLess(ga, gb) || (a == b) != bytes.Equal(ga, gb) {
			t.Fatalf("VLQ order: %d -> %x, %d -> %x: (length, bytes) order differs from numeric order", a, ga, b, gb)
		}
		if a != b && (a < b) != (bytes.Compare(ga, gb) < 0) {
			recVLQ.Count("obs:plain-lexicographic-order-inverted(cross-length)", 1)
			if len(ga) == len(gb) || (a < 16512 && b < 16512) {
				t.Fatalf("VLQ order: %d -> %x, %d -> %x: byte-wise order differs from numeric order within one length / below 16512", a, ga, b, gb)
			}
		}
	})
}

var recVLQEx = ev.New("C15", "vlq-exhaustive",
	"every quantity below 2^18 (quick) / 2^24 (thorough, sharded) plus a window of +-300 around the first value of every encoded length; "+
		"same oracle as vlq, successive values must be strictly increasing in (length, bytes) order; every value distinct by construction",
	"enumerated")

func TestVLQExhaustive(t *testing.T) {
	limit := uint64(ev.Scale(1<<18, 1<<24))
	sh, nsh := ev.Shard()
	lo := limit * uint64(sh) / uint64(nsh)
	hi := limit * uint64(sh+1) / uint64(nsh)
	var n int64
	run := func(from, to uint64) {
		var prev []byte
		for v := from; ; v++ {
			want := fm.PutVLQ(v)
			if err := checkVLQFast(v, want); err != nil {
				t.Fatal(err)
			}
			if prev != nil && !shortlexLess(prev, want) {
				t.Fatalf("VLQ(%d) = %x is not above VLQ(%d) = %x", v, want, v-1, prev)
			}
			prev = want
			n++
			if v == to {
				break
			}
		}
	}
	if lo > 0 {
		lo-- // overlap by one so that the order link between shards is checked
	}
	run(lo, hi-1)
	if sh == 0 {
		for k := 2; k <= 10; k++ {
			b := vlqBaseU64(k)
			from := uint64(0)
			if b > 300 {
				from = b - 300
			}
			run(from, b+300)
		}
		run(1<<64-600, 1<<64-1)
	}
	recVLQEx.Bulk(n, n)
	recVLQEx.Count("enumerated", n)
	if limit == 1<<24 {
		recVLQEx.Exhaustive()
	}
	recVLQEx.Set("range", fmt.Sprintf("[0, %d) in %d shard(s) + boundary windows", limit, nsh))
}

func checkVLQFast(n uint64, want []byte) error {
	var buf [12]byte
	if s := blockchain.VerifSerializeSizeVLQ(n); s != len(want) {
		return fmt.Errorf("serializeSizeVLQ(%d) = %d, documented format needs %d", n, s, len(want))
	}
	k := blockchain.VerifPutVLQ(buf[:len(want)], n)
	if k != len(want) || !bytes.Equal(buf[:k], want) {
		return fmt.Errorf("putVLQ(%d) = %x, documented format %x", n, buf[:k], want)
	}
	buf[k] = 0xff
	v, r := blockchain.VerifDeserializeVLQ(buf[:k+1])
	if v != n || r != k {
		return fmt.Errorf("deserializeVLQ(%x) = (%d, %d), expected (%d, %d)", buf[:k+1], v, r, n, k)
	}
	return nil
}

// ---------------------------------------------------------------------------
// outpoint key

var recKey = ev.New("C15", "outpoint-key",
	"32-byte hashes x output indexes from the quantity mixture truncated to 32 bits; oracle = model <hash><VLQ index>; "+
		"also: the key of index 0 is the byte-wise smallest key of its hash (what the by-hash seek relies on); non-trivial = multi-byte index",
	"index<128", "index>=128", "index>=16512")

func TestOutpointKey(t *testing.T) {
	rapid.Check(t, func(t *rapid.T) {
		var h [32]byte
		copy(h[:], gen32().Draw(t, "hash"))
		idx := uint32(genU64().Draw(t, "index"))
		cl := "index<128"
		if idx >= 16512 {
			cl = "index>=16512"
		} else if idx >= 128 {
			cl = "index>=128"
		}
		want := fm.OutpointKey(h, idx)
		recKey.Case(idx >= 128, cl, ev.Hash(want), func() any { return fmt.Sprintf("%x:%d -> %x", h, idx, want) })
		got := blockchain.VerifOutpointKey(wire.OutPoint{Hash: chainhash.Hash(h), Index: idx})
		if !bytes.Equal(got, want) {
			t.Fatalf("outpointKey(%x:%d) = %x, documented format %x", h, idx, got, want)
		}
		zero := blockchain.VerifOutpointKey(wire.OutPoint{Hash: chainhash.Hash(h), Index: 0})
		if idx != 0 && bytes.Compare(zero, got) >= 0 {
			t.Fatalf("key of index 0 (%x) is not below key of index %d (%x)", zero, idx, got)
		}
	})
}

// ---------------------------------------------------------------------------
// amounts

var recAmount = ev.New("C15", "amount",
	"64-bit amounts: uniform, d*10^e for all d in 1..9 and e in 0..19, k-digit mantissas times 10^e, 10^k+-2, 21e14+-1, int64/uint64 limits, repeated-digit patterns, "+
		"the band around 2^64/9 where the documented formula leaves 64 bits; and compressed values from the same mixture for the inverse direction; "+
		"oracle = the documented formula evaluated in math/big: compress == formula, decompress(compress(x)) == x, decompress == inverse formula, compress(decompress(c)) == c, "+
		"each asserted only where the formula's result fits in 64 bits; non-trivial = exponent >= 1 or amount >= 10^7; distinct by (amount, compressed) pair",
	"zero", "e=0", "e=1..8", "e=9", "e>9", "formula-overflows-64bit", "inverse-overflows-64bit", "money-range", "above-int64")

func amountClass(a uint64) string {
	if a == 0 {
		return "zero"
	}
	if _, ok := fm.CompressAmount(a); !ok {
		return "formula-overflows-64bit"
	}
	e := 0
	for x := a; x%10 == 0; x /= 10 {
		e++
	}
	switch {
	case e == 0:
		return "e=0"
	case e <= 8:
		return "e=1..8"
	case e == 9:
		return "e=9"
	}
	return "e>9"
}

func checkAmount(a uint64) error {
	want, ok := fm.CompressAmount(a)
	var got uint64
	if p := catch(func() { got = blockchain.VerifCompressTxOutAmount(a) }); p != "" {
		return fmt.Errorf("compressTxOutAmount(%d): %s", a, p)
	}
	if !ok {
		// the format has no encoding for this amount (formula needs > 64 bits):
		// nothing is claimed beyond "no panic"
		return nil
	}
	if got != want {
		return fmt.Errorf("compressTxOutAmount(%d) = %d, documented formula gives %d", a, got, want)
	}
	if back := blockchain.VerifDecompressTxOutAmount(got); back != a {
		return fmt.Errorf("decompressTxOutAmount(compressTxOutAmount(%d) = %d) = %d", a, got, back)
	}
	return nil
}

func checkCompressed(c uint64) error {
	want, ok := fm.DecompressAmount(c)
	var got uint64
	if p := catch(func() { got = blockchain.VerifDecompressTxOutAmount(c) }); p != "" {
		return fmt.Errorf("decompressTxOutAmount(%d): %s", c, p)
	}
	if !ok {
		return nil
	}
	if got != want {
		return fmt.Errorf("decompressTxOutAmount(%d) = %d, documented formula gives %d", c, got, want)
	}
	if back := blockchain.VerifCompressTxOutAmount(got); back != c {
		return fmt.Errorf("compressTxOutAmount(decompressTxOutAmount(%d) = %d) = %d", c, got, back)
	}
	return nil
}

func TestAmount(t *testing.T) {
	rapid.Check(t, func(t *rapid.T) {
		a := genAmount().Draw(t, "amount")
		c := genAmount().Draw(t, "compressed")
		if rapid.Bool().Draw(t, "c-from-compress") {
			// compressed values reachable from structured amounts
			if cc, ok := fm.CompressAmount(c); ok {
				c = cc + uint64(rapid.IntRange(-1, 1).Draw(t, "cd"))
			}
		}
		cl := amountClass(a)
		var hb [16]byte
		binary.LittleEndian.PutUint64(hb[:], a)
		binary.LittleEndian.PutUint64(hb[8:], c)
		recAmount.Case(cl != "e=0" && cl != "zero" || a >= 10000000, cl, ev.Hash(hb[:]), func() any {
			cc, ok := fm.CompressAmount(a)
			return fmt.Sprintf("amount %d -> %d (fits=%v) ; compressed %d -> %v", a, cc, ok, c, fm.DecompressAmountBig(c))
		})
		if a <= 2100000000000000 {
			recAmount.Count("money-range", 1)
		}
		if a > 1<<63-1 {
			recAmount.Count("above-int64", 1)
		}
		if _, ok := fm.DecompressAmount(c); !ok {
			recAmount.Count("inverse-overflows-64bit", 1)
		}
		if err := checkAmount(a); err != nil {
			t.Fatal(err)
		}
		if err := checkCompressed(c); err != nil {
			t.Fatal(err)
		}
	})
}

var recAmountEx = ev.New("C15", "amount-exhaustive",
	"every amount and every compressed value below 3*10^5 (quick) / 10^7 (thorough, sharded), plus every d*10^e that fits in 64 bits and its +-1 neighbours; same oracle as amount; distinct by construction",
	"enumerated")

func TestAmountExhaustive(t *testing.T) {
	limit := uint64(ev.Scale(300000, 10000000))
	sh, nsh := ev.Shard()
	lo := limit * uint64(sh) / uint64(nsh)
	hi := limit * uint64(sh+1) / uint64(nsh)
	var n int64
	for v := lo; v < hi; v++ {
		if err := checkAmount(v); err != nil {
			t.Fatal(err)
		}
		if err := checkCompressed(v); err != nil {
			t.Fatal(err)
		}
		n++
	}
	if sh == 0 {
		for e := 0; e <= 19; e++ {
			for d := uint64(1); d <= 9; d++ {
				if e == 19 && d > 1 {
					break
				}
				for _, dd := range []uint64{^uint64(0), 0, 1} {
					if err := checkAmount(d*pow10(e) + dd); err != nil {
						t.Fatal(err)
					}
					n++
				}
			}
		}
	}
	recAmountEx.Bulk(n, n)
	recAmountEx.Count("enumerated", n)
	if limit == 10000000 {
		recAmountEx.Exhaustive()
	}
	recAmountEx.Set("range", fmt.Sprintf("[0, %d) both directions in %d shard(s) + all d*10^e +-1", limit, nsh))
}

// ---------------------------------------------------------------------------
// scripts

var recScript = ev.New("C15", "script",
	"scripts: P2PKH, P2SH, pay-to-pubkey with valid compressed / uncompressed keys (both parities), the same frames with x off the curve, y not the root of x, "+
		"coordinates >= p, hybrid 06/07 keys, unsupported prefixes, near misses (frame byte changed, length +-1), empty, lengths around the special forms, "+
		"len+6 on VLQ size boundaries, up to 10 KiB (and 16.5 KB for the 2->3 byte boundary); three-way oracle: generator label / model compressor / btcd: "+
		"compressed bytes equal, size calculator == length, decodeCompressedScriptSize == length, decompress(compress(s)) == s exactly (also with trailing data), "+
		"invalid keys must use the general form; non-trivial = anything but general-short; distinct by script",
	"p2pkh", "p2sh", "pk-comp-valid", "pk-comp-offcurve", "pk-uncomp-valid-even", "pk-uncomp-valid-odd", "pk-uncomp-offcurve-x", "pk-uncomp-bad-y",
	"pk-hybrid", "pk-wrong-prefix", "pk-coord>=p", "near-special", "empty", "general-vlq-boundary", "general-large", "general-special-length", "general-short")

func checkScript(s []byte, label int) error {
	kind := fm.ScriptKind(s)
	if kind != label {
		return fmt.Errorf("VERIF-INFRA: generator label %d != model kind %d for script %x", label, kind, s)
	}
	want := fm.CompressScript(s)
	var size int
	if p := catch(func() { size = blockchain.VerifCompressedScriptSize(s) }); p != "" {
		return fmt.Errorf("compressedScriptSize(%s): %s", shortHex(s), p)
	}
	if size != len(want) {
		return fmt.Errorf("compressedScriptSize(%s) = %d, documented format needs %d (model kind %d)", shortHex(s), size, len(want), kind)
	}
	got, err := putInto(size, func(tg []byte) int { return blockchain.VerifPutCompressedScript(tg, s) })
	if err != nil {
		return fmt.Errorf("putCompressedScript(%s): %v", shortHex(s), err)
	}
	if !bytes.Equal(got, want) {
		return fmt.Errorf("putCompressedScript(%s) = %s, documented format %s (model kind %d)", shortHex(s), shortHex(got), shortHex(want), kind)
	}
	for _, tail := range [][]byte{nil, {0x00, 0x01, 0x02}} {
		in := append(append([]byte{}, want...), tail...)
		var dsz int
		if p := catch(func() { dsz = blockchain.VerifDecodeCompressedScriptSize(in) }); p != "" {
			return fmt.Errorf("decodeCompressedScriptSize(%s): %s", shortHex(in), p)
		}
		if dsz != len(want) {
			return fmt.Errorf("decodeCompressedScriptSize(%s) = %d, encoded length %d", shortHex(in), dsz, len(want))
		}
	}
	var back []byte
	if p := catch(func() { back = blockchain.VerifDecompressScript(want) }); p != "" {
		return fmt.Errorf("decompressScript(%s): %s", shortHex(want), p)
	}
	if !bytes.Equal(back, s) {
		return fmt.Errorf("decompressScript(compress(%s) = %s) = %s: not the original script", shortHex(s), shortHex(want), shortHex(back))
	}
	mback, n, merr := fm.ReadCompressedScript(want)
	if merr != nil || n != len(want) || !bytes.Equal(mback, s) {
		return fmt.Errorf("VERIF-INFRA: model does not round-trip script %x: %x %d %v", s, mback, n, merr)
	}
	return nil
}

func TestScript(t *testing.T) {
	rapid.Check(t, func(t *rapid.T) {
		sc := genScript().Draw(t, "script")
		recScript.Case(sc.class != "general-short", sc.class, ev.Hash(sc.script), func() any {
			return fmt.Sprintf("%s: %s -> %s", sc.class, shortHex(sc.script), shortHex(fm.CompressScript(sc.script)))
		})
		if err := checkScript(sc.script, sc.label); err != nil {
			t.Fatal(err)
		}
	})
}

// ---------------------------------------------------------------------------
// compressed txout + utxo entry

var recUtxo = ev.New("C15", "utxo-entry",
	"entries = lossless amount (incl. negative int64 bit patterns that have an encoding) x script (all classes of sub-check script) x height 0..2^31-1 (boundary mixture, header-code VLQ boundaries) x coinbase flag; "+
		"oracle = model encoder: serializeUtxoEntry bytes == model bytes, compressedTxOutSize/putCompressedTxOut agree, deserialize(model bytes) == entry through the accessors, "+
		"re-serialization byte-stable, spent entries serialize to nothing, every truncation at a documented end-of-data checkpoint is an error; "+
		"non-trivial = special script form, multi-byte header code or amount with exponent; distinct by entry",
	"special-script", "general-script", "coinbase", "height=0", "height=max", "multi-byte-header", "negative-int64-amount", "truncations")

// checkUtxo: btcd must encode o to want and decode want to o.
func checkUtxo(o fm.Out, want []byte) error {
	entry := blockchain.NewUtxoEntry(&wire.TxOut{Value: o.Amount, PkScript: o.PkScript}, o.Height, o.Coinbase)
	var got []byte
	var err error
	if p := catch(func() { got, err = blockchain.VerifSerializeUtxoEntry(entry) }); p != "" {
		return fmt.Errorf("serializeUtxoEntry(%+v): %s", o, p)
	}
	if err != nil {
		return fmt.Errorf("serializeUtxoEntry(%+v): unexpected error %v", o, err)
	}
	if !bytes.Equal(got, want) {
		return fmt.Errorf("serializeUtxoEntry(amount=%d height=%d coinbase=%v script=%s) = %s, documented format %s",
			o.Amount, o.Height, o.Coinbase, shortHex(o.PkScript), shortHex(got), shortHex(want))
	}
	for _, tail := range [][]byte{nil, {0xde, 0xad}} {
		in := append(append([]byte{}, want...), tail...)
		var d *blockchain.UtxoEntry
		if p := catch(func() { d, err = blockchain.VerifDeserializeUtxoEntry(in) }); p != "" {
			return fmt.Errorf("deserializeUtxoEntry(%s): %s", shortHex(in), p)
		}
		if err != nil || d == nil {
			return fmt.Errorf("deserializeUtxoEntry(%s): unexpected error %v", shortHex(in), err)
		}
		if d.Amount() != o.Amount || !bytes.Equal(d.PkScript(), o.PkScript) || d.BlockHeight() != o.Height || d.IsCoinBase() != o.Coinbase || d.IsSpent() {
			return fmt.Errorf("deserializeUtxoEntry(%s) = amount=%d height=%d coinbase=%v spent=%v script=%s, encoded was amount=%d height=%d coinbase=%v script=%s",
				shortHex(in), d.Amount(), d.BlockHeight(), d.IsCoinBase(), d.IsSpent(), shortHex(d.PkScript()), o.Amount, o.Height, o.Coinbase, shortHex(o.PkScript))
		}
		again, err := blockchain.VerifSerializeUtxoEntry(d)
		if err != nil || !bytes.Equal(again, want) {
			return fmt.Errorf("serialize(deserialize(%s)) = %s (%v): not byte-stable", shortHex(want), shortHex(again), err)
		}
	}
	return nil
}

// checkTxOut: compressed txout functions against the model.
func checkTxOut(amount uint64, script []byte) error {
	want, err := fm.PutTxOut(amount, script)
	if err != nil {
		return nil
	}
	size := blockchain.VerifCompressedTxOutSize(amount, script)
	if size != len(want) {
		return fmt.Errorf("compressedTxOutSize(%d, %s) = %d, documented format needs %d", amount, shortHex(script), size, len(want))
	}
	got, err := putInto(size, func(tg []byte) int { return blockchain.VerifPutCompressedTxOut(tg, amount, script) })
	if err != nil {
		return fmt.Errorf("putCompressedTxOut(%d, %s): %v", amount, shortHex(script), err)
	}
	if !bytes.Equal(got, want) {
		return fmt.Errorf("putCompressedTxOut(%d, %s) = %s, documented format %s", amount, shortHex(script), shortHex(got), shortHex(want))
	}
	for _, tail := range [][]byte{nil, {0x77}} {
		in := append(append([]byte{}, want...), tail...)
		var a uint64
		var s []byte
		var n int
		if p := catch(func() { a, s, n, err = blockchain.VerifDecodeCompressedTxOut(in) }); p != "" {
			return fmt.Errorf("decodeCompressedTxOut(%s): %s", shortHex(in), p)
		}
		if err != nil || a != amount || !bytes.Equal(s, script) || n != len(want) {
			return fmt.Errorf("decodeCompressedTxOut(%s) = (%d, %s, %d, %v), encoded was (%d, %s) in %d bytes",
				shortHex(in), a, shortHex(s), n, err, amount, shortHex(script), len(want))
		}
	}
	return nil
}

// utxoCheckpoints returns the prefix lengths at which a truncated entry must
// be refused: every proper prefix except those that end strictly inside the
// script-size VLQ (the comments document end-of-data checks after the header
// code, after the compressed amount and for the script data; a quantity cut in
// the middle is not specified). hdr, amt, ssz are the field lengths.
func truncationPoints(t *rapid.T, total int, unspecifiedFrom, unspecifiedTo int) []int {
	var cuts []int
	add := func(c int) {
		if c >= 0 && c < total && !(c > unspecifiedFrom && c < unspecifiedTo) {
			cuts = append(cuts, c)
		}
	}
	if total <= 48 {
		for c := 0; c < total; c++ {
			add(c)
		}
		return cuts
	}
	for c := 0; c < 16; c++ {
		add(c)
	}
	add(unspecifiedFrom)
	add(unspecifiedTo)
	add(total - 1)
	add(total - 2)
	for i := 0; i < 4; i++ {
		add(rapid.IntRange(0, total-1).Draw(t, "cut"))
	}
	return cuts
}

// fieldLayout returns (offset of the script-size VLQ, its length) inside a
// compressed txout that starts at off in enc.
func scriptSizeField(enc []byte, off int) (int, int) {
	_, n1, _ := fm.ReadVLQBig(enc[off:])
	_, n2, _ := fm.ReadVLQBig(enc[off+n1:])
	return off + n1, n2
}

func TestUtxoEntry(t *testing.T) {
	rapid.Check(t, func(t *rapid.T) {
		o, scl := genOut(t)
		want, err := fm.EncodeUtxo(o)
		if err != nil {
			t.Fatalf("VERIF-INFRA: model cannot encode generated entry %+v: %v", o, err)
		}
		special := fm.ScriptKind(o.PkScript) >= 0
		hc := fm.VLQSize(uint64(o.Height) << 1)
		cl := "general-script"
		if special {
			cl = "special-script"
		}
		recUtxo.Case(special || hc > 1 || (o.Amount != 0 && o.Amount%10 == 0), cl, ev.Hash(outBytes(o)), func() any {
			return fmt.Sprintf("amount=%d height=%d coinbase=%v script(%s)=%s -> %s", o.Amount, o.Height, o.Coinbase, scl, shortHex(o.PkScript), shortHex(want))
		})
		if o.Coinbase {
			recUtxo.Count("coinbase", 1)
		}
		if o.Height == 0 {
			recUtxo.Count("height=0", 1)
		}
		if o.Height == 0x7fffffff {
			recUtxo.Count("height=max", 1)
		}
		if hc > 1 {
			recUtxo.Count("multi-byte-header", 1)
		}
		if o.Amount < 0 {
			recUtxo.Count("negative-int64-amount", 1)
		}
		if err := checkUtxo(o, want); err != nil {
			t.Fatal(err)
		}
		if err := checkTxOut(uint64(o.Amount), o.PkScript); err != nil {
			t.Fatal(err)
		}
		// spent entries have no serialization
		sp := blockchain.VerifNewSpentUtxoEntry(&wire.TxOut{Value: o.Amount, PkScript: o.PkScript}, o.Height, o.Coinbase)
		if b, err := blockchain.VerifSerializeUtxoEntry(sp); b != nil || err != nil || !sp.IsSpent() {
			t.Fatalf("serializeUtxoEntry(spent entry) = %x, %v; documented: spent outputs have no serialization", b, err)
		}
		// truncations
		_, hn, _ := fm.ReadVLQBig(want)
		so, sn := scriptSizeField(want, hn)
		for _, c := range truncationPoints(t, len(want), so, so+sn) {
			recUtxo.Count("truncations", 1)
			in := append([]byte{}, want[:c]...)
			var d *blockchain.UtxoEntry
			var err error
			if p := catch(func() { d, err = blockchain.VerifDeserializeUtxoEntry(in) }); p != "" {
				t.Fatalf("deserializeUtxoEntry(%s) [entry %s cut at %d]: %s", shortHex(in), shortHex(want), c, p)
			}
			if err == nil {
				t.Fatalf("deserializeUtxoEntry(%s) = %+v without error, but it is the entry %s cut at byte %d of %d (documented end-of-data check)",
					shortHex(in), d, shortHex(want), c, len(want))
			}
		}
	})
}

// ---------------------------------------------------------------------------
// spend journal

var recJournal = ev.New("C15", "spend-journal",
	"blocks of 0-5 transactions x 0-5 inputs; one spent output per input = lossless amount x script x height (0 = legacy form without reserved byte) x coinbase; "+
		"oracle = model encoder (items in reverse spending order, reserved byte iff height != 0): serializeSpendJournalEntry == model bytes, spentTxOutSerializeSize == item length, "+
		"deserialize(bytes, txs) == the list, re-serialization byte-stable, the same bytes with a different tx shape of equal input count decode identically, "+
		"empty serialization with inputs is an error, truncations at documented checkpoints are errors; non-trivial = at least 2 items or a legacy/special item; distinct by list",
	"no-inputs", "1-item", "2-5-items", "6+-items", "legacy-height-0", "legacy-wide-reserved-field", "tx-without-inputs", "truncations")

func txsOfShape(shape []int) []*wire.MsgTx {
	var txs []*wire.MsgTx
	for ti, n := range shape {
		tx := wire.NewMsgTx(1)
		for i := 0; i < n; i++ {
			var h chainhash.Hash
			h[0], h[1] = byte(ti), byte(i)
			tx.AddTxIn(wire.NewTxIn(wire.NewOutPoint(&h, uint32(i)), nil, nil))
		}
		txs = append(txs, tx)
	}
	return txs
}

func toStxos(os []fm.Out) []blockchain.SpentTxOut {
	out := make([]blockchain.SpentTxOut, len(os))
	for i, o := range os {
		out[i] = blockchain.SpentTxOut{Amount: o.Amount, PkScript: o.PkScript, Height: o.Height, IsCoinBase: o.Coinbase}
	}
	return out
}

func sameStxos(got []blockchain.SpentTxOut, want []fm.Out) error {
	if len(got) != len(want) {
		return fmt.Errorf("%d items, expected %d", len(got), len(want))
	}
	for i := range got {
		g, w := got[i], want[i]
		if g.Amount != w.Amount || !bytes.Equal(g.PkScript, w.PkScript) || g.Height != w.Height || g.IsCoinBase != w.Coinbase {
			return fmt.Errorf("item %d = amount=%d height=%d coinbase=%v script=%s, expected amount=%d height=%d coinbase=%v script=%s",
				i, g.Amount, g.Height, g.IsCoinBase, shortHex(g.PkScript), w.Amount, w.Height, w.Coinbase, shortHex(w.PkScript))
		}
	}
	return nil
}

// checkJournal: btcd must encode os to want and decode want (with the shape) to os.
func checkJournal(os []fm.Out, shape []int, want []byte) error {
	stxos := toStxos(os)
	var got []byte
	if p := catch(func() { got = blockchain.VerifSerializeSpendJournalEntry(stxos) }); p != "" {
		return fmt.Errorf("serializeSpendJournalEntry: %s", p)
	}
	if !bytes.Equal(got, want) {
		return fmt.Errorf("serializeSpendJournalEntry(%d items) = %s, documented format %s", len(os), shortHex(got), shortHex(want))
	}
	total := 0
	for i := range stxos {
		item, _ := fm.EncodeStxo(os[i])
		if s := blockchain.VerifSpentTxOutSerializeSize(&stxos[i]); s != len(item) {
			return fmt.Errorf("spentTxOutSerializeSize(item %d: height=%d script=%s) = %d, encoded length %d", i, os[i].Height, shortHex(os[i].PkScript), s, len(item))
		}
		total += len(item)
	}
	if total != len(got) {
		return fmt.Errorf("sum of spentTxOutSerializeSize = %d, entry length %d", total, len(got))
	}
	var back []blockchain.SpentTxOut
	var err error
	if p := catch(func() { back, err = blockchain.VerifDeserializeSpendJournalEntry(want, txsOfShape(shape)) }); p != "" {
		return fmt.Errorf("deserializeSpendJournalEntry(%s, shape %v): %s", shortHex(want), shape, p)
	}
	if err != nil {
		return fmt.Errorf("deserializeSpendJournalEntry(%s, shape %v): unexpected error %v", shortHex(want), shape, err)
	}
	if err := sameStxos(back, os); err != nil {
		return fmt.Errorf("deserializeSpendJournalEntry(%s, shape %v): %v", shortHex(want), shape, err)
	}
	if again := blockchain.VerifSerializeSpendJournalEntry(back); !bytes.Equal(again, want) {
		return fmt.Errorf("serialize(deserialize(%s)) = %s: not byte-stable", shortHex(want), shortHex(again))
	}
	return nil
}

func TestSpendJournal(t *testing.T) {
	rapid.Check(t, func(t *rapid.T) {
		shape := rapid.SliceOfN(rapid.IntRange(0, 5), 0, 5).Draw(t, "shape")
		count := 0
		emptyTx := false
		for _, n := range shape {
			count += n
			emptyTx = emptyTx || n == 0
		}
		os := make([]fm.Out, count)
		legacy, special := false, false
		var canon []byte
		for i := range os {
			if count > 8 {
				// keep big lists cheap: short scripts
				os[i] = fm.Out{Amount: genLosslessAmount().Draw(t, "amount"), PkScript: rapid.SliceOfN(rapid.Byte(), 0, 30).Draw(t, "script"),
					Height: genHeight().Draw(t, "height"), Coinbase: rapid.Bool().Draw(t, "coinbase")}
			} else {
				os[i], _ = genOut(t)
			}
			legacy = legacy || os[i].Height == 0
			special = special || fm.ScriptKind(os[i].PkScript) >= 0
			canon = append(canon, outBytes(os[i])...)
			canon = append(canon, '/')
		}
		want, err := fm.EncodeJournal(os)
		if err != nil {
			t.Fatalf("VERIF-INFRA: model cannot encode generated journal: %v", err)
		}
		cl := "no-inputs"
		switch {
		case count == 1:
			cl = "1-item"
		case count >= 2 && count <= 5:
			cl = "2-5-items"
		case count >= 6:
			cl = "6+-items"
		}
		recJournal.Case(count >= 2 || legacy || special, cl, ev.Hash(canon, []byte(fmt.Sprint(shape))), func() any {
			return fmt.Sprintf("shape %v, %d items -> %s", shape, count, shortHex(want))
		})
		if legacy {
			recJournal.Count("legacy-height-0", 1)
		}
		if emptyTx {
			recJournal.Count("tx-without-inputs", 1)
		}
		if count == 0 && want != nil {
			t.Fatalf("VERIF-INFRA: model encodes an empty journal as %x", want)
		}
		if err := checkJournal(os, shape, want); err != nil {
			t.Fatal(err)
		}
		if count == 0 {
			return
		}
		// entries written by releases that kept the spending-side transaction version in the
		// (now reserved) field after the header code of every item with a non-zero height: the
		// field is a variable-length quantity of any width and must be skipped, not assumed 1 byte
		{
			var legacyBytes []byte
			wide := false
			for i := count - 1; i >= 0; i-- {
				item, _ := fm.EncodeStxo(os[i])
				if os[i].Height == 0 {
					legacyBytes = append(legacyBytes, item...)
					continue
				}
				_, hn, _ := fm.ReadVLQBig(item)
				v := rapid.SampledFrom([]uint64{0, 1, 2, 127, 128, 129, 16511, 16512, 2113663, 2113664, 0x7fffffff, 0xffffffff}).Draw(t, "legacyTxVersion")
				wide = wide || v >= 128
				legacyBytes = append(legacyBytes, item[:hn]...)
				legacyBytes = append(legacyBytes, fm.PutVLQ(v)...)
				legacyBytes = append(legacyBytes, item[hn+1:]...)
			}
			if wide {
				recJournal.Count("legacy-wide-reserved-field", 1)
			}
			var back []blockchain.SpentTxOut
			var derr error
			if p := catch(func() { back, derr = blockchain.VerifDeserializeSpendJournalEntry(legacyBytes, txsOfShape(shape)) }); p != "" {
				t.Fatalf("deserializeSpendJournalEntry(entry with legacy transaction-version fields %s, shape %v): %s", shortHex(legacyBytes), shape, p)
			}
			if derr != nil {
				t.Fatalf("entry whose reserved fields carry legacy transaction versions is not readable: %v\n%s", derr, shortHex(legacyBytes))
			}
			if err := sameStxos(back, os); err != nil {
				t.Fatalf("entry whose reserved fields carry legacy transaction versions decodes to different values: %v\n%s", err, shortHex(legacyBytes))
			}
		}
		// the decoder only needs the number of inputs, not their distribution
		if err := checkJournal(os, []int{0, count}, want); err != nil {
			t.Fatalf("same entry, all inputs in one transaction: %v", err)
		}
		// an empty serialization for a block that spends something is an error
		if back, err := blockchain.VerifDeserializeSpendJournalEntry(nil, txsOfShape(shape)); err == nil {
			t.Fatalf("deserializeSpendJournalEntry(nil, shape %v) = %v without error although %d outputs are spent", shape, back, count)
		}
		// truncations: locate the script-size quantity of the item that contains the cut
		type span struct{ from, to, ssFrom, ssTo int }
		var spans []span
		off := 0
		for i := count - 1; i >= 0; i-- {
			item, _ := fm.EncodeStxo(os[i])
			_, hn, _ := fm.ReadVLQBig(item)
			if os[i].Height != 0 {
				hn++
			}
			so, sn := scriptSizeField(item, hn)
			spans = append(spans, span{off, off + len(item), off + so, off + so + sn})
			off += len(item)
		}
		txs := txsOfShape(shape)
		var cuts []int
		if len(want) <= 64 {
			for c := 0; c < len(want); c++ {
				cuts = append(cuts, c)
			}
		} else {
			for _, s := range spans {
				cuts = append(cuts, s.from, s.from+1, s.ssFrom, s.ssTo, s.to-1)
			}
			for i := 0; i < 4; i++ {
				cuts = append(cuts, rapid.IntRange(0, len(want)-1).Draw(t, "cut"))
			}
		}
		for _, c := range cuts {
			if c < 0 || c >= len(want) {
				continue
			}
			unspecified := false
			for _, s := range spans {
				if c > s.ssFrom && c < s.ssTo {
					unspecified = true
				}
			}
			in := append([]byte{}, want[:c]...)
			var back []blockchain.SpentTxOut
			var err error
			if p := catch(func() { back, err = blockchain.VerifDeserializeSpendJournalEntry(in, txs) }); p != "" {
				t.Fatalf("deserializeSpendJournalEntry(%s, shape %v) [entry %s cut at %d]: %s", shortHex(in), shape, shortHex(want), c, p)
			}
			if unspecified {
				continue
			}
			recJournal.Count("truncations", 1)
			if err == nil {
				t.Fatalf("deserializeSpendJournalEntry(%s, shape %v) = %d items without error, but it is the entry %s cut at byte %d of %d (documented end-of-data check)",
					shortHex(in), shape, len(back), shortHex(want), c, len(want))
			}
		}
	})
}

// ---------------------------------------------------------------------------
// best chain state

var recBest = ev.New("C15", "best-state",
	"hash x height (32-bit mixture) x total txns (64-bit mixture) x work sum of 0-40 bytes (zero, single byte, leading 0x80/0xff, 32-byte, 33..40-byte); "+
		"oracle = model <hash><height u32le><total u64le><len u32le><big-endian work sum>: bytes equal, decode == value, trailing bytes ignored, "+
		"every proper prefix is an error, a length field larger than the data is an error; non-trivial = work sum of at least 2 bytes; distinct by record",
	"work=0", "work-1-byte", "work-2-31-bytes", "work-32-bytes", "work-33-40-bytes", "truncations", "length-too-big")

func genWork() *rapid.Generator[*big.Int] {
	return rapid.Custom(func(t *rapid.T) *big.Int {
		n := rapid.SampledFrom([]int{0, 0, 1, 1, 2, 3, 8, 16, 31, 32, 32, 33, 39, 40, -1}).Draw(t, "worklen")
		if n == -1 {
			n = rapid.IntRange(0, 40).Draw(t, "n")
		}
		if n == 0 {
			return new(big.Int)
		}
		b := rapid.SliceOfN(rapid.Byte(), n, n).Draw(t, "work")
		switch rapid.IntRange(0, 3).Draw(t, "top") {
		case 0:
			b[0] = 0x80
		case 1:
			b[0] = 0xff
		case 2:
			b[0] = 0x01
		}
		if b[0] == 0 {
			b[0] = 1 // keep the byte length as drawn
		}
		return new(big.Int).SetBytes(b)
	})
}

func TestBestState(t *testing.T) {
	rapid.Check(t, func(t *rapid.T) {
		var s fm.BestState
		copy(s.Hash[:], gen32().Draw(t, "hash"))
		s.Height = uint32(genU64().Draw(t, "height"))
		s.TotalTxns = genU64().Draw(t, "txns")
		s.WorkSum = genWork().Draw(t, "work")
		want := fm.EncodeBestState(s)
		wl := len(s.WorkSum.Bytes())
		cl := "work=0"
		switch {
		case wl == 1:
			cl = "work-1-byte"
		case wl >= 2 && wl <= 31:
			cl = "work-2-31-bytes"
		case wl == 32:
			cl = "work-32-bytes"
		case wl >= 33:
			cl = "work-33-40-bytes"
		}
		recBest.Case(wl >= 2, cl, ev.Hash(want), func() any {
			return fmt.Sprintf("height=%d txns=%d work=%x -> %s", s.Height, s.TotalTxns, s.WorkSum, shortHex(want))
		})
		vs := blockchain.VerifBestChainState{Hash: chainhash.Hash(s.Hash), Height: s.Height, TotalTxns: s.TotalTxns, WorkSum: s.WorkSum}
		var got []byte
		if p := catch(func() { got = blockchain.VerifSerializeBestChainState(vs) }); p != "" {
			t.Fatalf("serializeBestChainState(%+v): %s", vs, p)
		}
		if !bytes.Equal(got, want) {
			t.Fatalf("serializeBestChainState(height=%d txns=%d work=%x) = %x, documented format %x", s.Height, s.TotalTxns, s.WorkSum, got, want)
		}
		for _, tail := range [][]byte{nil, {0x01, 0x02, 0x03}} {
			in := append(append([]byte{}, want...), tail...)
			var d blockchain.VerifBestChainState
			var err error
			if p := catch(func() { d, err = blockchain.VerifDeserializeBestChainState(in) }); p != "" {
				t.Fatalf("deserializeBestChainState(%x): %s", in, p)
			}
			if err != nil || d.Hash != chainhash.Hash(s.Hash) || d.Height != s.Height || d.TotalTxns != s.TotalTxns || d.WorkSum == nil || d.WorkSum.Cmp(s.WorkSum) != 0 {
				t.Fatalf("deserializeBestChainState(%x) = %+v, %v; encoded was height=%d txns=%d work=%x", in, d, err, s.Height, s.TotalTxns, s.WorkSum)
			}
			if again := blockchain.VerifSerializeBestChainState(d); !bytes.Equal(again, want) {
				t.Fatalf("serialize(deserialize(%x)) = %x: not byte-stable", want, again)
			}
		}
		for c := 0; c < len(want); c++ {
			recBest.Count("truncations", 1)
			in := append([]byte{}, want[:c]...)
			var err error
			if p := catch(func() { _, err = blockchain.VerifDeserializeBestChainState(in) }); p != "" {
				t.Fatalf("deserializeBestChainState(%x) [record %x cut at %d]: %s", in, want, c, p)
			}
			if err == nil {
				t.Fatalf("deserializeBestChainState(%x) succeeds although it is the record %x cut at byte %d of %d", in, want, c, len(want))
			}
		}
		// a length field that promises more than there is
		bad := append([]byte{}, want...)
		claim := rapid.SampledFrom([]uint32{uint32(wl) + 1, uint32(wl) + 2, 0x7fffffff, 0x80000000, 0xffffffff, 0xffffffd0, 0xffffffcf}).Draw(t, "claim")
		binary.LittleEndian.PutUint32(bad[44:], claim)
		recBest.Count("length-too-big", 1)
		var err error
		if p := catch(func() { _, err = blockchain.VerifDeserializeBestChainState(bad) }); p != "" {
			t.Fatalf("deserializeBestChainState(%x) [work sum length field %d, %d bytes present]: %s", bad, claim, wl, p)
		}
		if err == nil {
			t.Fatalf("deserializeBestChainState(%x) succeeds although the work sum length field says %d and only %d bytes follow", bad, claim, wl)
		}
	})
}

// ---------------------------------------------------------------------------
// block index row

var recRow = ev.New("C15", "block-row",
	"block headers (version incl. negative, hashes, 32-bit time/bits/nonce from the boundary mixture) x every status byte 0..255; "+
		"oracle = model <80-byte header><status>: wire serialization + status byte == model bytes (what dbStoreBlockNode writes), deserializeBlockRow(model bytes) == fields, "+
		"trailing bytes ignored, every proper prefix is an error; every case non-trivial; distinct by row",
	"status=0", "status-valid-bits", "status-invalid-bits", "status-high-bits", "truncations")

func TestBlockRow(t *testing.T) {
	seen := map[byte]bool{}
	rapid.Check(t, func(t *rapid.T) {
		var r fm.BlockRow
		r.Version = int32(uint32(genU64().Draw(t, "version")))
		copy(r.PrevBlock[:], gen32().Draw(t, "prev"))
		copy(r.MerkleRoot[:], gen32().Draw(t, "merkle"))
		r.Time = uint32(genU64().Draw(t, "time"))
		r.Bits = uint32(genU64().Draw(t, "bits"))
		r.Nonce = uint32(genU64().Draw(t, "nonce"))
		r.Status = rapid.Byte().Draw(t, "status")
		want := fm.EncodeBlockRow(r)
		cl := "status=0"
		switch {
		case r.Status&0xe0 != 0:
			cl = "status-high-bits"
		case r.Status&0x0c != 0:
			cl = "status-invalid-bits"
		case r.Status != 0:
			cl = "status-valid-bits"
		}
		recRow.Case(true, cl, ev.Hash(want), func() any { return fmt.Sprintf("%+v -> %x", r, want) })
		seen[r.Status] = true
		hdr := wire.BlockHeader{Version: r.Version, PrevBlock: chainhash.Hash(r.PrevBlock), MerkleRoot: chainhash.Hash(r.MerkleRoot),
			Timestamp: time.Unix(int64(r.Time), 0), Bits: r.Bits, Nonce: r.Nonce}
		var w bytes.Buffer
		if err := hdr.Serialize(&w); err != nil {
			t.Fatalf("header serialize: %v", err)
		}
		w.WriteByte(r.Status)
		if !bytes.Equal(w.Bytes(), want) {
			t.Fatalf("block row written by btcd = %x, documented format %x", w.Bytes(), want)
		}
		for _, tail := range [][]byte{nil, {0xaa, 0xbb}} {
			in := append(append([]byte{}, want...), tail...)
			var h *wire.BlockHeader
			var st byte
			var err error
			if p := catch(func() { h, st, err = blockchain.VerifDeserializeBlockRow(in) }); p != "" {
				t.Fatalf("deserializeBlockRow(%x): %s", in, p)
			}
			if err != nil || h == nil || st != r.Status || h.Version != r.Version || h.PrevBlock != chainhash.Hash(r.PrevBlock) ||
				h.MerkleRoot != chainhash.Hash(r.MerkleRoot) || uint32(h.Timestamp.Unix()) != r.Time || h.Bits != r.Bits || h.Nonce != r.Nonce {
				t.Fatalf("deserializeBlockRow(%x) = %+v, status %#x, %v; encoded was %+v", in, h, st, err, r)
			}
		}
		for _, c := range []int{0, 1, 3, 4, 35, 36, 67, 68, 71, 72, 75, 76, 79, 80, rapid.IntRange(0, 80).Draw(t, "cut")} {
			recRow.Count("truncations", 1)
			in := append([]byte{}, want[:c]...)
			var err error
			if p := catch(func() { _, _, err = blockchain.VerifDeserializeBlockRow(in) }); p != "" {
				t.Fatalf("deserializeBlockRow(%x) [row cut at %d]: %s", in, c, p)
			}
			if err == nil {
				t.Fatalf("deserializeBlockRow(%x) succeeds although it is a row cut at byte %d of 81", in, c)
			}
		}
	})
	recRow.Set("distinct_status_bytes_seen", len(seen))
}

// TestBlockRowAllStatus enumerates every status byte on a fixed header.
func TestBlockRowAllStatus(t *testing.T) {
	for st := 0; st < 256; st++ {
		r := fm.BlockRow{Version: 0x20000000, Time: 1333238400 + uint32(st), Bits: 0x1d00ffff, Nonce: uint32(st) * 2654435761, Status: byte(st)}
		r.PrevBlock[0], r.MerkleRoot[31] = byte(st), byte(255-st)
		want := fm.EncodeBlockRow(r)
		recRow.Case(true, "", ev.Hash(want), nil)
		h, got, err := blockchain.VerifDeserializeBlockRow(want)
		if err != nil || got != byte(st) || h.Nonce != r.Nonce || uint32(h.Timestamp.Unix()) != r.Time {
			t.Fatalf("deserializeBlockRow(%x) = %+v, status %#x, %v; encoded status %#x", want, h, got, err, st)
		}
	}
	recRow.Set("all_256_status_bytes_enumerated", true)
}
