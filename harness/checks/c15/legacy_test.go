package c15

import (
	"bytes"
	"encoding/hex"
	"fmt"
	"sort"
	"testing"

	"github.com/btcsuite/btcd/blockchain"
	"pgregory.net/rapid"

	"verif/internal/ev"
	fm "verif/internal/model/chainfmt"
)

// ---------------------------------------------------------------------------
// the legacy (version 0) utxo record, which the database upgrade reads: one
// record holds all unspent outputs of a transaction

var recLegacy = ev.New("C15", "legacy-utxo-record",
	"records in the version-0 format documented in blockchain/upgrade.go: 1-12 unspent output indexes out of 0..170 (drawn as clusters: outputs 0/1 of the header code, neighbouring bits of one bitmap byte, bit 7 / bit 0 across a byte border, far-away bytes), "+
		"each with a lossless amount and a script of every class, height and coinbase flag, record version, 0-2 superfluous zero bytes at the end of the bitmap; the three documented examples; "+
		"oracle = model encoder written from the format comment: deserializeUtxoEntryV0(model bytes) gives exactly the encoded set of (index, amount, script, height, coinbase); every strict prefix, and arbitrary bytes behind generated version/height/header-code fields, give an error or a value, never a panic; "+
		"non-trivial = at least two outputs share a bitmap byte or the bitmap has more than one byte; distinct by record",
	"two-bits-in-one-byte", "multi-byte-bitmap", "header-code-outputs-only", "padded-bitmap", "documented-example", "hostile-bytes")

type legacyExample struct {
	hex      string
	height   int32
	coinbase bool
	amounts  map[uint32]int64
}

var legacyExamples = []legacyExample{
	{"010103320496b538e853519c726a2c91e61ec11600ae1390813a627c66fb8be7947be63c52", 1, true, map[uint32]int64{0: 5000000000}},
	{"0185f90b0a011200e2ccd6ec7c6e2e581349c77e067385fa8236bf8a800900b8025be1b3efc63b0ad48e7f9f10e87544528d58", 113931, false, map[uint32]int64{0: 20000000, 2: 15000000}},
	{"0193d06c100000108ba5b9e763011dd46a006572d820e448e12d2bbb38640bc718e6", 338156, false, map[uint32]int64{22: 366875659}},
}

func checkLegacy(rec []byte, height int32, coinbase bool, outs map[uint32]fm.Out) error {
	var got map[uint32]*blockchain.UtxoEntry
	var err error
	in := append([]byte{}, rec...)
	if p := catch(func() { got, err = blockchain.VerifDeserializeUtxoEntryV0(in) }); p != "" {
		return fmt.Errorf("deserializeUtxoEntryV0(%s): %s", shortHex(rec), p)
	}
	if err != nil {
		return fmt.Errorf("deserializeUtxoEntryV0(%s): unexpected error %v", shortHex(rec), err)
	}
	if !bytes.Equal(in, rec) {
		return fmt.Errorf("deserializeUtxoEntryV0 modified its input %s", shortHex(rec))
	}
	var gi, wi []int
	for i := range got {
		gi = append(gi, int(i))
	}
	for i := range outs {
		wi = append(wi, int(i))
	}
	sort.Ints(gi)
	sort.Ints(wi)
	if fmt.Sprint(gi) != fmt.Sprint(wi) {
		return fmt.Errorf("deserializeUtxoEntryV0(%s): unspent output indexes %v, the record encodes %v", shortHex(rec), gi, wi)
	}
	for i, w := range outs {
		d := got[i]
		if d.Amount() != w.Amount || (w.PkScript != nil && !bytes.Equal(d.PkScript(), w.PkScript)) || d.BlockHeight() != height || d.IsCoinBase() != coinbase || d.IsSpent() {
			return fmt.Errorf("deserializeUtxoEntryV0(%s): output %d = amount=%d height=%d coinbase=%v spent=%v script=%s, encoded was amount=%d height=%d coinbase=%v script=%s",
				shortHex(rec), i, d.Amount(), d.BlockHeight(), d.IsCoinBase(), d.IsSpent(), shortHex(d.PkScript()), w.Amount, height, coinbase, shortHex(w.PkScript))
		}
	}
	return nil
}

func TestLegacyUtxoRecord(t *testing.T) {
	for _, e := range legacyExamples {
		raw, _ := hex.DecodeString(e.hex)
		recLegacy.Case(true, "documented-example", ev.Hash(raw), func() any { return e.hex })
		outs := map[uint32]fm.Out{}
		for i, a := range e.amounts {
			outs[i] = fm.Out{Amount: a} // script compared through the model encoder below
		}
		if err := checkLegacy(raw, e.height, e.coinbase, outs); err != nil {
			t.Fatalf("documented example: %v", err)
		}
	}
	rapid.Check(t, func(t *rapid.T) {
		idx := map[uint32]bool{}
		n := rapid.IntRange(1, 12).Draw(t, "outputs")
		for len(idx) < n {
			switch rapid.IntRange(0, 5).Draw(t, "cluster") {
			case 0:
				idx[uint32(rapid.IntRange(0, 1).Draw(t, "headerOut"))] = true
			case 1: // neighbours inside one bitmap byte
				base := uint32(2 + 8*rapid.IntRange(0, 20).Draw(t, "byte"))
				bit := uint32(rapid.IntRange(0, 6).Draw(t, "bit"))
				idx[base+bit] = true
				idx[base+bit+1] = true
			case 2: // across a byte border
				base := uint32(2 + 8*rapid.IntRange(0, 19).Draw(t, "byte"))
				idx[base+7] = true
				idx[base+8] = true
			case 3: // several bits of one byte
				base := uint32(2 + 8*rapid.IntRange(0, 20).Draw(t, "byte"))
				mask := rapid.IntRange(1, 255).Draw(t, "mask")
				for b := uint32(0); b < 8; b++ {
					if mask&(1<<b) != 0 {
						idx[base+b] = true
					}
				}
			default:
				idx[uint32(rapid.IntRange(0, 170).Draw(t, "index"))] = true
			}
		}
		outs := map[uint32]fm.Out{}
		var sorted []int
		for i := range idx {
			sorted = append(sorted, int(i))
		}
		sort.Ints(sorted)
		height := genHeight().Draw(t, "height")
		coinbase := rapid.Bool().Draw(t, "coinbase")
		perByte := map[int]int{}
		maxByte := -1
		for _, i := range sorted {
			sc := genScript().Draw(t, "script")
			outs[uint32(i)] = fm.Out{Amount: genLosslessAmount().Draw(t, "amount"), PkScript: sc.script, Height: height, Coinbase: coinbase}
			if i >= 2 {
				perByte[(i-2)/8]++
				if (i-2)/8 > maxByte {
					maxByte = (i - 2) / 8
				}
			}
		}
		pad := 0
		if rapid.IntRange(0, 4).Draw(t, "padBitmap") == 0 {
			pad = rapid.IntRange(1, 2).Draw(t, "pad")
		}
		if maxByte < 0 && !idx[0] && !idx[1] {
			t.Fatalf("VERIF-INFRA: empty output set")
		}
		version := rapid.SampledFrom([]uint64{1, 0, 2, 127, 128, 16511}).Draw(t, "version")
		rec, err := fm.EncodeUtxoV0(version, height, coinbase, outs, pad)
		if err != nil {
			t.Fatalf("VERIF-INFRA: model encoder: %v", err)
		}
		shared := false
		for _, c := range perByte {
			if c >= 2 {
				shared = true
			}
		}
		cl := "header-code-outputs-only"
		switch {
		case shared:
			cl = "two-bits-in-one-byte"
		case maxByte >= 1:
			cl = "multi-byte-bitmap"
		case maxByte == 0:
			cl = "multi-byte-bitmap"
		}
		if pad > 0 {
			recLegacy.Count("padded-bitmap", 1)
		}
		recLegacy.Case(shared || maxByte >= 1, cl, ev.Hash(rec), func() any {
			return fmt.Sprintf("outputs %v height %d coinbase %v version %d pad %d record %s", sorted, height, coinbase, version, pad, shortHex(rec))
		})
		if err := checkLegacy(rec, height, coinbase, outs); err != nil {
			t.Fatalf("%v (outputs %v)", err, sorted)
		}
		// strict prefixes: error or value, never a panic
		for _, cut := range []int{0, 1, 2, 3, len(rec) / 2, len(rec) - 1} {
			if cut < 0 || cut >= len(rec) {
				continue
			}
			if p := catch(func() { _, _ = blockchain.VerifDeserializeUtxoEntryV0(rec[:cut:cut]) }); p != "" {
				t.Fatalf("deserializeUtxoEntryV0 on the first %d bytes of %s: %s", cut, shortHex(rec), p)
			}
		}
	})
}

func TestLegacyUtxoRecordHostile(t *testing.T) {
	rapid.Check(t, func(t *rapid.T) {
		var b []byte
		if rapid.Bool().Draw(t, "structured") {
			b = append(b, fm.PutVLQ(rapid.Uint64Range(0, 300).Draw(t, "version"))...)
			b = append(b, fm.PutVLQ(genU64().Draw(t, "height"))...)
			b = append(b, fm.PutVLQ(genU64().Draw(t, "code"))...)
		}
		b = append(b, rapid.SliceOfN(rapid.Byte(), 0, 80).Draw(t, "tail")...)
		recLegacy.Case(true, "hostile-bytes", ev.Hash(b), func() any { return shortHex(b) })
		if p := catch(func() { _, _ = blockchain.VerifDeserializeUtxoEntryV0(b) }); p != "" {
			t.Fatalf("deserializeUtxoEntryV0(%x): %s", b, p)
		}
	})
}
