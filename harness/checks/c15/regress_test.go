package c15

import (
	"encoding/hex"
	"testing"

	"verif/internal/ev"
)

// Library-free replays of inputs that have failed (seconds-long tier that runs
// in every quick run). Each goes through the same offer function as the
// generated cases, so a listed finding prints KNOWN-FINDING (here the input is
// offered even when the finding is listed: that is the point of a regression
// input), an unlisted one fails, and a repaired tree passes silently.

var recRegress = ev.New("C15", "regressions",
	"literal inputs of confirmed findings (F7: oversized script-size quantity in every decoder entry point) replayed through the hostile-bytes oracles",
	"F7")

type regressInput struct {
	name  string
	hex   string
	shape []int
}

var regressF7 = []regressInput{
	// DESIGN.md section 6, F7: header 01, amount 00, script size ff x 9 7f, one more byte
	{"F7 deserializeUtxoEntry", "0100ffffffffffffffffff7f00", []int{1}},
	// first case found by TestHostileBytes (seed 1): amount 8317, script size 2^64-5 -> int(-1)
	{"decodeCompressedTxOut, size 2^64-5", "831780fefefefefefefefe7b0403", []int{1}},
	// script size exactly 2^63+6-10 .. the smallest value whose int conversion is negative
	{"smallest negative size", "0100" + "fffefefefefefefefe7c" + "00", []int{1}},
	// journal: item with reserved byte
	{"journal item", "0200" + "00" + "ffffffffffffffffff7f" + "00", []int{1}},
	// second journal item carries the quantity
	{"journal second item", "02000006" + "0200" + "00" + "ffffffffffffffffff7f" + "00", []int{1, 1}},
}

func TestRegressions(t *testing.T) {
	for _, r := range regressF7 {
		b, err := hex.DecodeString(r.hex)
		if err != nil {
			t.Fatalf("VERIF-INFRA: bad regression input %s", r.name)
		}
		recRegress.Case(true, "F7", ev.Hash(b), func() any { return r.name + " " + r.hex })
		// offer WITHOUT the by-construction exclusion: call, catch, attribute
		excludeKnown = false
		err = offerAll(recRegress, b, r.shape)
		excludeKnown = true
		if err != nil {
			t.Fatalf("%s: %v", r.name, err)
		}
	}
}
