package c08

// (d) native fuzz targets (thorough tier; not pinned by the seed). The oracle
// inside is the same as in the rapid sub-checks: no panic, bounded TotalAlloc,
// decode->encode identity, model encoding of the decoded value == consumed
// bytes, sizes and identifiers, btcutil agreement. The corpus is seeded with
// valid encodings of every message type / transaction / block shape produced
// by the value generators, and with hostile constants (claims of limit,
// limit+1, 2^32-1, 2^64-1 in every count field, non-canonical CompactSize).

import (
	"encoding/binary"
	"testing"

	"github.com/btcsuite/btcd/wire/v2"
	"pgregory.net/rapid"

	"verif/internal/ev"
	"verif/internal/model/wirefmt"
)

var hostileVarInts = [][]byte{
	{0xfc}, {0xfd, 0xfd, 0x00}, {0xfd, 0xff, 0xff}, {0xfe, 0x00, 0x00, 0x01, 0x00}, {0xfe, 0xff, 0xff, 0xff, 0xff},
	{0xff, 0, 0, 0, 0, 1, 0, 0, 0}, {0xff, 0xff, 0xff, 0xff, 0xff, 0xff, 0xff, 0xff, 0xff}, {0xff, 0xff, 0xff, 0xff, 0xff, 0xff, 0xff, 0xff, 0x7f},
	{0xfd, 0x01, 0x00}, {0xfe, 0x01, 0x00, 0x00, 0x00}, {0xff, 1, 0, 0, 0, 0, 0, 0, 0}, // non-canonical
}

// hostileVariants returns e with every marked count replaced by the hostile
// constants and by the decoder limit +-1.
func hostileVariants(e *wirefmt.Enc, maxOut int) [][]byte {
	var out [][]byte
	for _, m := range e.Marks {
		for _, hv := range hostileVarInts {
			out = append(out, splice(e.B, m.Off, m.Len, hv))
		}
		lim := markLimit[m.Kind]
		for _, c := range []uint64{lim, lim + 1} {
			if predictedAlloc(m.Kind, c) > 2<<20 {
				continue // honoured with a 10-150 MB allocation: left to the fuzzer, not replayed by every worker
			}
			out = append(out, splice(e.B, m.Off, m.Len, wirefmt.AppendVarInt(nil, c)))
		}
		if len(out) > maxOut {
			break
		}
	}
	return out
}

var recFuzzMsg = ev.New("C08", "fuzz-readmessage",
	"native fuzzing of ReadMessageWithEncodingN (raw stream, or fuzz bytes framed as the payload of a chosen command) x protocol version x encoding; "+
		"oracle as in [hostile-messages]; non-trivial = at least a full header; distinct by input", "framed", "raw")

func FuzzReadMessage(f *testing.F) {
	for i, kind := range msgKinds[:len(msgKinds)-1] {
		for s := 0; s < 3; s++ {
			enc := wire.MessageEncoding(1 + s%2)
			v := rapid.Custom(func(t *rapid.T) *vcase {
				rapid.Bool().Draw(t, "pad") // payload-less messages draw nothing else
				return genMessage(t, kind, wire.ProtocolVersion, enc, true)
			}).Example(s + 1)
			e, _ := wirefmt.Payload(v.msg, wire.ProtocolVersion, enc == wire.WitnessEncoding, v.v2)
			sel := uint32(len(pvers)-3) | uint32(s%2)<<8 | 1<<9 | uint32(i)<<10
			f.Add(e.B, sel)
			f.Add(wirefmt.Message(uint32(wire.MainNet), kind, e.B), sel&^(1<<9))
			if s == 0 {
				for _, hv := range hostileVariants(e, 60) {
					f.Add(hv, sel)
				}
			}
		}
	}
	hdr := wirefmt.Message(uint32(wire.MainNet), "inv", nil)
	binary.LittleEndian.PutUint32(hdr[16:], 0xffffffff)
	f.Add(hdr, uint32(0))
	f.Fuzz(func(t *testing.T, data []byte, sel uint32) {
		pver := pvers[int(sel&0xff)%len(pvers)]
		enc := wire.MessageEncoding(1 + (sel>>8)&1)
		stream, class := data, "raw"
		var kind string
		if sel>>9&1 == 1 {
			kind = msgKinds[int(sel>>10)%(len(msgKinds)-1)]
			stream, class = wirefmt.Message(uint32(wire.MainNet), kind, data), "framed"
		}
		fuzzTick()
		recFuzzMsg.Case(len(stream) >= 24, class, ev.Hash(u32b(sel), data), nil)
		probeMessage(t, recFuzzMsg, stream, pver, wire.MainNet, enc, true)
	})
}

var recFuzzTx = ev.New("C08", "fuzz-tx",
	"native fuzzing of MsgTx.Deserialize / DeserializeNoWitness / btcutil.NewTxFromBytes; oracle as in [hostile-tx-block]; "+
		"non-trivial = longer than the minimal transaction (10 bytes); distinct by input", "witness", "legacy")

func FuzzTxDecode(f *testing.F) {
	for s := 0; s < 40; s++ {
		wit := s%2 == 0
		tx := rapid.Custom(func(t *rapid.T) *wire.MsgTx { return genTx(t, "tx", txOpts{minIn: 1}) }).Example(s + 1)
		e := &wirefmt.Enc{}
		e.Tx(tx, wit)
		f.Add(e.B, wit)
		if s < 6 {
			for _, hv := range hostileVariants(e, 200) {
				f.Add(hv, wit)
			}
		}
	}
	f.Fuzz(func(t *testing.T, data []byte, witness bool) {
		cl := "legacy"
		if witness {
			cl = "witness"
		}
		fuzzTick()
		recFuzzTx.Case(len(data) > 10, cl, ev.Hash([]byte{b2i(witness)}, data), nil)
		probeTx(t, recFuzzTx, data, witness, true)
	})
}

var recFuzzBlock = ev.New("C08", "fuzz-block",
	"native fuzzing of MsgBlock.Deserialize / DeserializeNoWitness / DeserializeTxLoc / btcutil.NewBlockFromBytes; oracle as in [hostile-tx-block]; "+
		"non-trivial = longer than a header plus transaction count (81 bytes); distinct by input", "witness", "legacy")

func FuzzBlockDecode(f *testing.F) {
	for s := 0; s < 24; s++ {
		wit := s%2 == 0
		blk := rapid.Custom(func(t *rapid.T) *wire.MsgBlock { return genBlock(t, "blk", txOpts{minIn: 1}) }).Example(s + 1)
		e := &wirefmt.Enc{}
		e.Block(blk, wit)
		f.Add(e.B, wit)
		if s < 4 {
			for _, hv := range hostileVariants(e, 200) {
				f.Add(hv, wit)
			}
		}
	}
	f.Fuzz(func(t *testing.T, data []byte, witness bool) {
		cl := "legacy"
		if witness {
			cl = "witness"
		}
		fuzzTick()
		recFuzzBlock.Case(len(data) > 81, cl, ev.Hash([]byte{b2i(witness)}, data), nil)
		probeBlock(t, recFuzzBlock, data, witness, true)
	})
}
