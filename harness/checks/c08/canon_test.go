package c08

// canon renders a message as labelled text containing exactly the information
// the protocol transmits at (pver, enc): the semantic-equality relation of the
// round-trip oracle. nil and empty slices are equal, IPs are compared in
// 16-byte form, timestamps at second precision, fields that a protocol
// version does not carry (addr timestamps before 31402, version.relay before
// 70001, ping nonce up to 60000, witnesses under BaseEncoding) are left out.

import (
	"encoding/hex"
	"fmt"
	"net"
	"reflect"
	"strings"

	"github.com/btcsuite/btcd/chainhash/v2"
	"github.com/btcsuite/btcd/wire/v2"

	"verif/internal/model/wirefmt"
)

type cb struct{ strings.Builder }

func (c *cb) f(format string, a ...any) { fmt.Fprintf(&c.Builder, format, a...) }
func (c *cb) hx(label string, b []byte) {
	c.WriteString(label)
	c.WriteByte('=')
	c.WriteString(hex.EncodeToString(b))
	c.WriteByte(' ')
}

func ip16(ip net.IP) []byte {
	var out [16]byte
	switch len(ip) {
	case 4:
		out[10], out[11] = 0xff, 0xff
		copy(out[12:], ip)
	case 16:
		copy(out[:], ip)
	case 0:
	default:
		return append([]byte("badlen:"), ip...)
	}
	return out[:]
}

func (c *cb) netaddr(na *wire.NetAddress, withTime bool) {
	c.WriteString("{")
	if withTime {
		c.f("t=%d ", uint32(na.Timestamp.Unix()))
	}
	c.f("svc=%d port=%d ", uint64(na.Services), na.Port)
	c.hx("ip", ip16(na.IP))
	c.WriteString("}")
}

// addrV2Fields reads the opaque address of a NetAddressV2 by reflection
// (array "addr" and its "netID"); no btcd code is executed.
func addrV2Fields(na *wire.NetAddressV2) (byte, []byte, bool) {
	if na == nil || na.Addr == nil {
		return 0, nil, false
	}
	rv := reflect.ValueOf(na.Addr)
	if rv.Kind() != reflect.Ptr || rv.IsNil() || rv.Elem().Kind() != reflect.Struct {
		return 0, nil, false
	}
	st := rv.Elem()
	av, iv := st.FieldByName("addr"), st.FieldByName("netID")
	if !av.IsValid() || !iv.IsValid() || av.Kind() != reflect.Array {
		return 0, nil, false
	}
	b := make([]byte, av.Len())
	for i := range b {
		b[i] = byte(av.Index(i).Uint())
	}
	return byte(iv.Uint()), b, true
}

// addrV2Of converts a decoded NetAddressV2 to the plain BIP155 entry.
func addrV2Of(na *wire.NetAddressV2) (wirefmt.AddrV2, bool) {
	id, b, ok := addrV2Fields(na)
	if !ok {
		return wirefmt.AddrV2{}, false
	}
	return wirefmt.AddrV2{Time: uint32(na.Timestamp.Unix()), Services: uint64(na.Services), NetID: id, Addr: b, Port: na.Port}, true
}

func (c *cb) header(h *wire.BlockHeader) {
	c.f("{v=%d t=%d bits=%d nonce=%d ", h.Version, uint32(h.Timestamp.Unix()), h.Bits, h.Nonce)
	c.hx("prev", h.PrevBlock[:])
	c.hx("root", h.MerkleRoot[:])
	c.WriteString("}")
}

func (c *cb) tx(tx *wire.MsgTx, witness bool) {
	c.f("tx{v=%d lock=%d in=[", tx.Version, tx.LockTime)
	for _, in := range tx.TxIn {
		c.f("{idx=%d seq=%d ", in.PreviousOutPoint.Index, in.Sequence)
		c.hx("prev", in.PreviousOutPoint.Hash[:])
		c.hx("sig", in.SignatureScript)
		if witness {
			c.WriteString("wit=[")
			for _, it := range in.Witness {
				c.hx("", it)
			}
			c.WriteString("]")
		}
		c.WriteString("}")
	}
	c.WriteString("] out=[")
	for _, out := range tx.TxOut {
		c.f("{val=%d ", out.Value)
		c.hx("pk", out.PkScript)
		c.WriteString("}")
	}
	c.WriteString("]}")
}

func (c *cb) hashes(label string, hs []*chainhash.Hash) {
	c.WriteString(label + "=[")
	for _, h := range hs {
		c.WriteString(hex.EncodeToString(h[:]))
		c.WriteByte(' ')
	}
	c.WriteString("] ")
}

func (c *cb) inv(list []*wire.InvVect) {
	c.WriteString("inv=[")
	for _, iv := range list {
		c.f("%d:", uint32(iv.Type))
		c.WriteString(hex.EncodeToString(iv.Hash[:]))
		c.WriteByte(' ')
	}
	c.WriteString("]")
}

func canon(msg wire.Message, pver uint32, enc wire.MessageEncoding) string {
	c := &cb{}
	wit := enc == wire.WitnessEncoding
	switch m := msg.(type) {
	case *wire.MsgVersion:
		c.f("version{pv=%d svc=%d t=%d nonce=%d last=%d ", m.ProtocolVersion, uint64(m.Services), m.Timestamp.Unix(), m.Nonce, m.LastBlock)
		c.hx("ua", []byte(m.UserAgent))
		c.WriteString("you=")
		c.netaddr(&m.AddrYou, false)
		c.WriteString(" me=")
		c.netaddr(&m.AddrMe, false)
		if pver >= wirefmt.PverBIP37 {
			c.f(" relay=%v", !m.DisableRelayTx)
		}
		c.WriteString("}")
	case *wire.MsgVerAck:
		c.WriteString("verack{}")
	case *wire.MsgGetAddr:
		c.WriteString("getaddr{}")
	case *wire.MsgMemPool:
		c.WriteString("mempool{}")
	case *wire.MsgFilterClear:
		c.WriteString("filterclear{}")
	case *wire.MsgSendHeaders:
		c.WriteString("sendheaders{}")
	case *wire.MsgSendAddrV2:
		c.WriteString("sendaddrv2{}")
	case *wire.MsgWTxIdRelay:
		c.WriteString("wtxidrelay{}")
	case *wire.MsgAddr:
		c.WriteString("addr[")
		for _, na := range m.AddrList {
			c.netaddr(na, pver >= wirefmt.PverAddrTime)
		}
		c.WriteString("]")
	case *wire.MsgAddrV2:
		c.WriteString("addrv2[")
		for _, na := range m.AddrList {
			a, ok := addrV2Of(na)
			c.f("{ok=%v t=%d svc=%d net=%d port=%d ", ok, a.Time, a.Services, a.NetID, a.Port)
			c.hx("addr", a.Addr)
			c.WriteString("}")
		}
		c.WriteString("]")
	case *wire.MsgInv:
		c.WriteString("inv:")
		c.inv(m.InvList)
	case *wire.MsgGetData:
		c.WriteString("getdata:")
		c.inv(m.InvList)
	case *wire.MsgNotFound:
		c.WriteString("notfound:")
		c.inv(m.InvList)
	case *wire.MsgGetBlocks:
		c.f("getblocks{pv=%d ", m.ProtocolVersion)
		c.hashes("loc", m.BlockLocatorHashes)
		c.hx("stop", m.HashStop[:])
		c.WriteString("}")
	case *wire.MsgGetHeaders:
		c.f("getheaders{pv=%d ", m.ProtocolVersion)
		c.hashes("loc", m.BlockLocatorHashes)
		c.hx("stop", m.HashStop[:])
		c.WriteString("}")
	case *wire.MsgHeaders:
		c.WriteString("headers[")
		for _, h := range m.Headers {
			c.header(h)
		}
		c.WriteString("]")
	case *wire.MsgBlock:
		c.WriteString("block{")
		c.header(&m.Header)
		c.WriteString(" txs=[")
		for _, tx := range m.Transactions {
			c.tx(tx, wit)
		}
		c.WriteString("]}")
	case *wire.MsgTx:
		c.tx(m, wit)
	case *wire.MsgPing:
		if pver > wirefmt.PverBIP31 {
			c.f("ping{%d}", m.Nonce)
		} else {
			c.WriteString("ping{}")
		}
	case *wire.MsgPong:
		c.f("pong{%d}", m.Nonce)
	case *wire.MsgFeeFilter:
		c.f("feefilter{%d}", m.MinFee)
	case *wire.MsgFilterAdd:
		c.WriteString("filteradd{")
		c.hx("data", m.Data)
		c.WriteString("}")
	case *wire.MsgFilterLoad:
		c.f("filterload{hf=%d tweak=%d flags=%d ", m.HashFuncs, m.Tweak, uint8(m.Flags))
		c.hx("filter", m.Filter)
		c.WriteString("}")
	case *wire.MsgMerkleBlock:
		c.WriteString("merkleblock{")
		c.header(&m.Header)
		c.f(" n=%d ", m.Transactions)
		c.hashes("hashes", m.Hashes)
		c.hx("flags", m.Flags)
		c.WriteString("}")
	case *wire.MsgReject:
		c.f("reject{code=%d ", uint8(m.Code))
		c.hx("cmd", []byte(m.Cmd))
		c.hx("reason", []byte(m.Reason))
		if m.Cmd == "tx" || m.Cmd == "block" {
			c.hx("hash", m.Hash[:])
		}
		c.WriteString("}")
	case *wire.MsgGetCFilters:
		c.f("getcfilters{ft=%d start=%d ", uint8(m.FilterType), m.StartHeight)
		c.hx("stop", m.StopHash[:])
		c.WriteString("}")
	case *wire.MsgGetCFHeaders:
		c.f("getcfheaders{ft=%d start=%d ", uint8(m.FilterType), m.StartHeight)
		c.hx("stop", m.StopHash[:])
		c.WriteString("}")
	case *wire.MsgGetCFCheckpt:
		c.f("getcfcheckpt{ft=%d ", uint8(m.FilterType))
		c.hx("stop", m.StopHash[:])
		c.WriteString("}")
	case *wire.MsgCFilter:
		c.f("cfilter{ft=%d ", uint8(m.FilterType))
		c.hx("block", m.BlockHash[:])
		c.hx("data", m.Data)
		c.WriteString("}")
	case *wire.MsgCFHeaders:
		c.f("cfheaders{ft=%d ", uint8(m.FilterType))
		c.hx("stop", m.StopHash[:])
		c.hx("prev", m.PrevFilterHeader[:])
		c.hashes("hashes", m.FilterHashes)
		c.WriteString("}")
	case *wire.MsgCFCheckpt:
		c.f("cfcheckpt{ft=%d ", uint8(m.FilterType))
		c.hx("stop", m.StopHash[:])
		c.hashes("headers", m.FilterHeaders)
		c.WriteString("}")
	default:
		c.f("UNKNOWN %T", msg)
	}
	return c.String()
}

// firstDiff shortens two long canonical strings around their first difference.
func firstDiff(a, b string) string {
	i := 0
	for i < len(a) && i < len(b) && a[i] == b[i] {
		i++
	}
	lo := max(0, i-60)
	cut := func(s string) string {
		hi := min(len(s), i+100)
		if lo > len(s) {
			return ""
		}
		return s[lo:hi]
	}
	return fmt.Sprintf("first difference at %d:\n   want ...%s...\n   got  ...%s...", i, cut(a), cut(b))
}

func hexShort(b []byte) string {
	if len(b) <= 400 {
		return hex.EncodeToString(b)
	}
	return fmt.Sprintf("%s...(%d bytes)...%s", hex.EncodeToString(b[:200]), len(b), hex.EncodeToString(b[len(b)-100:]))
}

func diffBytes(a, b []byte) string {
	i := 0
	for i < len(a) && i < len(b) && a[i] == b[i] {
		i++
	}
	lo := max(0, i-16)
	cut := func(s []byte) string {
		if lo > len(s) {
			return ""
		}
		return hex.EncodeToString(s[lo:min(len(s), i+32)])
	}
	return fmt.Sprintf("lengths %d vs %d, first difference at offset %d: ...%s... vs ...%s...", len(a), len(b), i, cut(a), cut(b))
}
