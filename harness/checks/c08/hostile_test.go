package c08

// Property C08, sub-checks (b) and (c): hostile bytes are harmless, and every
// byte string that decodes re-encodes to the bytes that were consumed.

import (
	"bytes"
	"encoding/binary"
	"errors"
	"fmt"
	"io"
	"runtime/debug"
	"testing"

	"github.com/btcsuite/btcd/btcutil/v2"
	"github.com/btcsuite/btcd/chainhash/v2"
	"github.com/btcsuite/btcd/wire/v2"
	"pgregory.net/rapid"

	"verif/internal/ev"
	"verif/internal/model/wirefmt"
)

// ---------------------------------------------------------------------------
// metered, panic-safe execution of one decode

type outcome struct {
	err      error
	panicked any
	alloc    uint64
}

func metered(what string, data []byte, f func() error) (o outcome) {
	noteCase(what, data)
	a0 := totalAlloc()
	func() {
		defer func() {
			if p := recover(); p != nil {
				o.panicked = p
			}
		}()
		o.err = f()
	}()
	o.alloc = totalAlloc() - a0
	return o
}

// execute runs f panic-safe, metered or not.
func execute(meter bool, what string, data []byte, f func() error) (o outcome) {
	if meter {
		return metered(what, data, f)
	}
	defer func() {
		if p := recover(); p != nil {
			o.panicked = p
		}
	}()
	o.err = f()
	return o
}

func (o outcome) check(t TB, what string, data []byte) {
	if o.panicked != nil {
		t.Fatalf("%s panicked: %v\ninput (%d bytes): %s", what, o.panicked, len(data), hexShort(data))
	}
	if o.alloc > allocK*wire.MaxMessagePayload {
		t.Fatalf("%s allocated %d bytes for a %d byte input - more than %d x MaxMessagePayload (%d)\ninput: %s",
			what, o.alloc, len(data), allocK, allocK*wire.MaxMessagePayload, hexShort(data))
	}
}

// Honoured big claims. On this class of (virtualised, loaded) machine zeroing a
// recycled 100 MB span can take seconds, while a span from never used address
// space is neither zeroed nor touched. The hostile sub-checks therefore run
// their first cases with the garbage collector switched off and spend a small
// per-process budget of claims that the unchanged decoders honour with a
// multi-megabyte allocation during that phase (nothing is freed, so nothing is
// recycled); afterwards the collector is switched on again and such claims
// are replaced by limit+1. TotalAlloc metering is independent of all this.
var (
	bigClaimBudget = 24
	gcOffCases     = 0
	gcIsOff        = false
)

const gcOffMaxCases = 4000

func bigClaimPhase() {
	if gcOffCases == 0 && bigClaimBudget > 0 {
		debug.SetGCPercent(-1)
		gcIsOff = true
	}
	gcOffCases++
	if gcIsOff && (bigClaimBudget <= 0 || gcOffCases > gcOffMaxCases) {
		debug.SetGCPercent(100)
		gcIsOff = false
		bigClaimBudget = 0
	}
}

// elemCost is the approximate number of bytes the decoders allocate per
// claimed element (cost prediction only - never part of an oracle).
var elemCost = map[string]uint64{
	"tx.incount": 104, "tx.outcount": 40, "tx.witcount": 24, "block.txcount": 8, "merkleblock.hashcount": 40, "inv.count": 44,
	"headers.count": 96, "addr.count": 64, "addrv2.count": 64, "locator.count": 40, "cfheaders.count": 8, "cfcheckpt.count": 40,
	"reject.cmd": 1, "reject.reason": 1, "filterload.filter": 1, "filteradd.data": 1, "cfilter.data": 1, "merkleblock.flags": 1,
	"version.useragent": 1, "addrv2.addrlen": 1,
}

func predictedAlloc(kind string, claim uint64) uint64 {
	if claim > markLimit[kind] {
		return 0 // refused before anything is allocated
	}
	return claim * elemCost[kind]
}

var maxAllocSeen uint64
var maxAllocWhat string

func noteAlloc(rec *ev.Rec, o outcome, what string, data []byte) {
	if o.alloc > maxAllocSeen {
		maxAllocSeen = o.alloc
		maxAllocWhat = fmt.Sprintf("%s, %d byte input %.80s", what, len(data), hexShort(data))
		rec.Set("max_single_decode_alloc_bytes", int64(maxAllocSeen))
		rec.Set("max_single_decode_alloc_case", maxAllocWhat)
	}
}

// ---------------------------------------------------------------------------
// documented decoder tolerances (known findings), named independently of btcd

// toleranceOf names the documented leniency, if any, that a payload which
// decoded falls under. It looks only at the bytes (model parsers).
func toleranceOf(cmd string, pver uint32, payload []byte) string {
	switch cmd {
	case wire.CmdVersion:
		s := wirefmt.ParseVersionShape(payload)
		if !s.OK {
			return ""
		}
		switch s.EndsAt {
		case "addr_recv", "addr_from", "nonce", "user_agent":
			return "version-optional-fields-omitted"
		case "start_height":
			if pver >= wirefmt.PverBIP37 {
				return "version-optional-fields-omitted"
			}
		case "relay":
			if pver < wirefmt.PverBIP37 {
				return "version-relay-byte-before-bip37"
			}
			if s.RelayByte > 1 {
				return "version-relay-byte-not-0-or-1"
			}
		}
	case wire.CmdAddrV2:
		entries, ok := wirefmt.ParseAddrV2(payload)
		if !ok {
			return ""
		}
		for _, a := range entries {
			if wirefmt.AddrV2Relayable(a) {
				continue
			}
			switch {
			case a.NetID == wirefmt.NetI2P || a.NetID == wirefmt.NetCJDNS:
				return "addrv2-i2p-cjdns-entry-dropped"
			case a.NetID == wirefmt.NetIPv6:
				return "addrv2-ipv6-embedded-v4-or-onioncat-entry-dropped"
			case a.NetID < wirefmt.NetIPv4 || a.NetID > wirefmt.NetCJDNS:
				return "addrv2-unknown-netid-entry-dropped"
			}
		}
	}
	return ""
}

// knownObs is the (deliberately constant) observation printed with a
// KNOWN-FINDING line, so that the driver prints one line per signature; the
// concrete inputs are in the evidence samples of [lenient-decodes].
const knownObs = "payload decodes without error through ReadMessageWithEncodingN but WriteMessageWithEncodingN of the decoded message produces different bytes"

var toleranceSigs = []string{"version-optional-fields-omitted", "version-relay-byte-before-bip37", "version-relay-byte-not-0-or-1",
	"addrv2-i2p-cjdns-entry-dropped", "addrv2-ipv6-embedded-v4-or-onioncat-entry-dropped", "addrv2-unknown-netid-entry-dropped"}

// ---------------------------------------------------------------------------
// probes

// decodedV2 lists the BIP155 entries of a decoded MsgAddrV2.
func decodedV2(msg wire.Message) []wirefmt.AddrV2 {
	m, ok := msg.(*wire.MsgAddrV2)
	if !ok {
		return nil
	}
	var out []wirefmt.AddrV2
	for _, na := range m.AddrList {
		a, _ := addrV2Of(na)
		out = append(out, a)
	}
	return out
}

// probeMessage offers a byte stream to ReadMessageWithEncodingN and applies
// the hostile-input and identity oracles. It returns the decode error.
func probeMessage(t TB, rec *ev.Rec, stream []byte, pver uint32, net wire.BitcoinNet, enc wire.MessageEncoding, meter bool) error {
	var n int
	var msg wire.Message
	var payload []byte
	what := fmt.Sprintf("ReadMessageWithEncodingN(pver=%d, net=%#x, enc=%d)", pver, uint32(net), enc)
	run := func() error {
		var err error
		n, msg, payload, err = wire.ReadMessageWithEncodingN(bytes.NewReader(stream), pver, net, enc)
		return err
	}
	var o outcome
	if meter {
		o = metered(what, stream, run)
		noteAlloc(rec, o, what, stream)
	} else {
		func() {
			defer func() {
				if p := recover(); p != nil {
					o.panicked = p
				}
			}()
			o.err = run()
		}()
	}
	o.check(t, what, stream)
	if n < 0 || n > len(stream) {
		t.Fatalf("%s reports %d bytes read from a %d byte stream", what, n, len(stream))
	}
	if o.err != nil {
		if msg != nil {
			t.Fatalf("%s returned both an error (%v) and a message %T", what, o.err, msg)
		}
		return o.err
	}
	// (c) identity
	if n < wirefmt.HeaderLen || !bytes.Equal(payload, stream[wirefmt.HeaderLen:n]) {
		t.Fatalf("%s: returned payload is not the %d consumed payload bytes\ninput: %s", what, n-wirefmt.HeaderLen, hexShort(stream))
	}
	cmd := msg.Command()
	var w bytes.Buffer
	_, werr := wire.WriteMessageWithEncodingN(&w, msg, pver, net, enc)
	e, defined := wirefmt.Payload(msg, pver, enc == wire.WitnessEncoding, decodedV2(msg))
	same := werr == nil && bytes.Equal(w.Bytes(), stream[:n])
	modelSame := defined && bytes.Equal(e.B, payload)
	if same && modelSame {
		return nil
	}
	if sig := toleranceOf(cmd, pver, payload); sig != "" {
		obs := fmt.Sprintf("%s payload %s decodes without error but re-encodes (err=%v) to %s", cmd, hexShort(payload), werr, hexShort(w.Bytes()[min(w.Len(), wirefmt.HeaderLen):]))
		if rec.Known(sig, knownObs) {
			rec.Excluded()
			return nil
		}
		t.Fatalf("decode->encode identity violated [%s]: %s", sig, obs)
	}
	if !same {
		t.Fatalf("decode->encode identity violated: %s accepted a %q message that re-encodes differently (write err=%v): %s\ninput: %s\ndecoded: %.600s",
			what, cmd, werr, diffBytes(stream[:n], w.Bytes()), hexShort(stream), canon(msg, pver, enc))
	}
	t.Fatalf("%s accepted a %q payload that is not the protocol encoding of the decoded value (model defined=%v): %s\ninput: %s\ndecoded: %.600s",
		what, cmd, defined, diffBytes(payload, e.B), hexShort(stream), canon(msg, pver, enc))
	return nil
}

// probeDirect offers a payload to the BtcDecode method of the command's
// message type (no framing). Used for the few claims that the decoders honour
// with a large allocation.
func probeDirect(t TB, rec *ev.Rec, kind string, payload []byte, pver uint32, enc wire.MessageEncoding) error {
	msg := newEmpty(kind)
	rb := bytes.NewBuffer(append([]byte(nil), payload...))
	what := fmt.Sprintf("%T.BtcDecode(pver=%d, enc=%d)", msg, pver, enc)
	o := metered(what, payload, func() error { return msg.BtcDecode(rb, pver, enc) })
	noteAlloc(rec, o, what, payload)
	o.check(t, what, payload)
	if o.err != nil {
		return o.err
	}
	used := payload[:len(payload)-rb.Len()]
	var w bytes.Buffer
	if err := msg.BtcEncode(&w, pver, enc); err != nil || !bytes.Equal(w.Bytes(), used) {
		if sig := toleranceOf(kind, pver, used); sig != "" && rec.Known(sig, knownObs) {
			rec.Excluded()
			return nil
		}
		t.Fatalf("decode->encode identity violated: %s accepted bytes that re-encode differently (err=%v): %s\ninput: %s", what, err, diffBytes(used, w.Bytes()), hexShort(payload))
	}
	return nil
}

// probeTx offers bytes to MsgTx.Deserialize / DeserializeNoWitness and
// btcutil.NewTxFromBytes.
func probeTx(t TB, rec *ev.Rec, data []byte, witness bool, meter bool) error {
	var tx wire.MsgTx
	r := bytes.NewReader(data)
	what := "MsgTx.DeserializeNoWitness"
	if witness {
		what = "MsgTx.Deserialize"
	}
	run := func() error {
		if witness {
			return tx.Deserialize(r)
		}
		return tx.DeserializeNoWitness(r)
	}
	o := outcome{}
	if meter {
		o = metered(what, data, run)
		noteAlloc(rec, o, what, data)
	} else {
		func() {
			defer func() { o.panicked = recover() }()
			o.err = run()
		}()
	}
	o.check(t, what, data)
	consumed := len(data) - r.Len()
	if witness && (o.alloc < 2<<20 || !meter) { // the same decoder again: not after a 10-150 MB decode
		var utx *btcutil.Tx
		uo := execute(meter, "btcutil.NewTxFromBytes", data, func() error {
			var err error
			utx, err = btcutil.NewTxFromBytes(data)
			return err
		})
		uo.check(t, "btcutil.NewTxFromBytes", data)
		wantOK := o.err == nil && consumed == len(data)
		if (uo.err == nil) != wantOK {
			t.Fatalf("btcutil.NewTxFromBytes err=%v but MsgTx.Deserialize err=%v consuming %d of %d bytes\ninput: %s", uo.err, o.err, consumed, len(data), hexShort(data))
		}
		if uo.err == nil && *utx.Hash() != tx.TxHash() {
			t.Fatalf("btcutil.Tx.Hash() %s != MsgTx.TxHash() %s", utx.Hash(), tx.TxHash())
		}
	}
	if o.err != nil {
		return o.err
	}
	used := data[:consumed]
	var w bytes.Buffer
	var werr error
	if witness {
		werr = tx.Serialize(&w)
	} else {
		werr = tx.SerializeNoWitness(&w)
	}
	if werr != nil || !bytes.Equal(w.Bytes(), used) {
		t.Fatalf("decode->encode identity violated: %s accepted bytes that re-serialize differently (err=%v): %s\ninput: %s", what, werr, diffBytes(used, w.Bytes()), hexShort(data))
	}
	if m := wirefmt.TxBytes(&tx, witness); !bytes.Equal(m, used) {
		t.Fatalf("%s accepted bytes that are not the protocol encoding of the decoded transaction: %s\ninput: %s", what, diffBytes(used, m), hexShort(data))
	}
	base := wirefmt.TxBytes(&tx, false)
	if witness && tx.SerializeSize() != consumed {
		t.Fatalf("SerializeSize() = %d after decoding %d bytes\ninput: %s", tx.SerializeSize(), consumed, hexShort(data))
	}
	if tx.SerializeSizeStripped() != len(base) {
		t.Fatalf("SerializeSizeStripped() = %d, stripped encoding has %d bytes\ninput: %s", tx.SerializeSizeStripped(), len(base), hexShort(data))
	}
	if tx.TxHash() != chainhash.Hash(wirefmt.DSHA256(base)) {
		t.Fatalf("TxHash() of a decoded transaction is not the double-SHA256 of its legacy layout\ninput: %s", hexShort(data))
	}
	if witness && tx.WitnessHash() != chainhash.Hash(wirefmt.DSHA256(used)) {
		t.Fatalf("WitnessHash() of a decoded transaction is not the double-SHA256 of the consumed bytes\ninput: %s", hexShort(data))
	}
	return nil
}

// probeBlock offers bytes to MsgBlock.Deserialize(/NoWitness),
// DeserializeTxLoc and btcutil.NewBlockFromBytes.
func probeBlock(t TB, rec *ev.Rec, data []byte, witness bool, meter bool) error {
	var blk wire.MsgBlock
	r := bytes.NewReader(data)
	what := "MsgBlock.DeserializeNoWitness"
	if witness {
		what = "MsgBlock.Deserialize"
	}
	run := func() error {
		if witness {
			return blk.Deserialize(r)
		}
		return blk.DeserializeNoWitness(r)
	}
	o := outcome{}
	if meter {
		o = metered(what, data, run)
		noteAlloc(rec, o, what, data)
	} else {
		func() {
			defer func() { o.panicked = recover() }()
			o.err = run()
		}()
	}
	o.check(t, what, data)
	consumed := len(data) - r.Len()
	if witness && (o.alloc < 2<<20 || !meter) {
		var ub *btcutil.Block
		uo := execute(meter, "btcutil.NewBlockFromBytes", data, func() error {
			var err error
			ub, err = btcutil.NewBlockFromBytes(data)
			return err
		})
		uo.check(t, "btcutil.NewBlockFromBytes", data)
		wantOK := o.err == nil && consumed == len(data)
		if (uo.err == nil) != wantOK {
			t.Fatalf("btcutil.NewBlockFromBytes err=%v but MsgBlock.Deserialize err=%v consuming %d of %d bytes\ninput: %s", uo.err, o.err, consumed, len(data), hexShort(data))
		}
		if uo.err == nil && *ub.Hash() != blk.BlockHash() {
			t.Fatalf("btcutil.Block.Hash() %s != MsgBlock.BlockHash() %s", ub.Hash(), blk.BlockHash())
		}
		var bl wire.MsgBlock
		var locs []wire.TxLoc
		lo := execute(meter, "MsgBlock.DeserializeTxLoc", data, func() error {
			var err error
			locs, err = bl.DeserializeTxLoc(bytes.NewBuffer(append([]byte(nil), data...)))
			return err
		})
		lo.check(t, "MsgBlock.DeserializeTxLoc", data)
		if (lo.err == nil) != (o.err == nil) {
			t.Fatalf("DeserializeTxLoc err=%v but Deserialize err=%v\ninput: %s", lo.err, o.err, hexShort(data))
		}
		if lo.err == nil {
			end := 80 + wirefmt.VarIntLen(uint64(len(locs)))
			for i, l := range locs {
				if l.TxStart != end || l.TxLen != blk.Transactions[i].SerializeSize() {
					t.Fatalf("DeserializeTxLoc[%d] = {%d,%d}, expected start %d length %d\ninput: %s", i, l.TxStart, l.TxLen, end, blk.Transactions[i].SerializeSize(), hexShort(data))
				}
				end += l.TxLen
			}
		}
	}
	if o.err != nil {
		return o.err
	}
	used := data[:consumed]
	var w bytes.Buffer
	var werr error
	if witness {
		werr = blk.Serialize(&w)
	} else {
		werr = blk.SerializeNoWitness(&w)
	}
	if werr != nil || !bytes.Equal(w.Bytes(), used) {
		t.Fatalf("decode->encode identity violated: %s accepted bytes that re-serialize differently (err=%v): %s\ninput: %s", what, werr, diffBytes(used, w.Bytes()), hexShort(data))
	}
	if m := wirefmt.BlockBytes(&blk, witness); !bytes.Equal(m, used) {
		t.Fatalf("%s accepted bytes that are not the protocol encoding of the decoded block: %s\ninput: %s", what, diffBytes(used, m), hexShort(data))
	}
	if witness && blk.SerializeSize() != consumed {
		t.Fatalf("MsgBlock.SerializeSize() = %d after decoding %d bytes", blk.SerializeSize(), consumed)
	}
	if blk.BlockHash() != chainhash.Hash(wirefmt.DSHA256(used[:80])) {
		t.Fatalf("BlockHash() of a decoded block is not the double-SHA256 of its first 80 bytes\ninput: %s", hexShort(data))
	}
	return nil
}

func probeHeader(t TB, rec *ev.Rec, data []byte) error {
	var h wire.BlockHeader
	r := bytes.NewReader(data)
	o := metered("BlockHeader.Deserialize", data, func() error { return h.Deserialize(r) })
	o.check(t, "BlockHeader.Deserialize", data)
	if (o.err == nil) != (len(data) >= 80) {
		t.Fatalf("BlockHeader.Deserialize of %d bytes: err=%v", len(data), o.err)
	}
	if o.err != nil {
		return o.err
	}
	var w bytes.Buffer
	if err := h.Serialize(&w); err != nil || !bytes.Equal(w.Bytes(), data[:80]) || h.BlockHash() != chainhash.Hash(wirefmt.DSHA256(data[:80])) {
		t.Fatalf("header decode->encode identity violated: %s", diffBytes(data[:80], w.Bytes()))
	}
	return nil
}

// ---------------------------------------------------------------------------
// hostile input construction

// claimValues are the counts/lengths a hostile peer puts where a CompactSize
// integer is expected: the decoder's own limits +-1 and the integer extremes.
var markLimit = map[string]uint64{
	"inv.count": 50000, "headers.count": 2000, "addr.count": 1000, "addrv2.count": 1000, "locator.count": 500,
	"tx.incount": 32*1024*1024/41 + 1, "tx.outcount": 32*1024*1024/9 + 1, "tx.witcount": 4000000, "tx.wititem": 4000000,
	"tx.in.script": 4000000, "tx.out.script": 4000000, "block.txcount": 400001, "merkleblock.hashcount": 400001,
	"merkleblock.flags": 50000, "filterload.filter": 36000, "filteradd.data": 520, "cfilter.data": 256 * 1024,
	"cfheaders.count": 2000, "cfcheckpt.count": 100000, "version.useragent": 256, "reject.cmd": 32 * 1024 * 1024,
	"reject.reason": 32 * 1024 * 1024, "addrv2.addrlen": 512, "headers.txcount": 0,
}

func genClaim(t *rapid.T, kind string) uint64 {
	lim := markLimit[kind]
	// claims at or just below a large decoder limit are honoured by the
	// unchanged decoders with a 10-150 MB allocation: keep them rare so the
	// quick tier stays fast (they are the "limit-1/limit" boundary cases)
	expensive := lim >= 100000
	k := rapid.IntRange(0, 23).Draw(t, "claimClass")
	if expensive && k <= 1 && rapid.IntRange(0, 3).Draw(t, "claimExpensive") != 0 {
		k = 6
	}
	switch {
	case k == 0 || (k <= 3 && !expensive):
		return lim
	case k == 1 || (k <= 5 && !expensive):
		return lim - 1
	case k <= 9:
		return lim + 1
	case k <= 12:
		return 0xffffffff
	case k <= 15:
		return ^uint64(0)
	}
	return rapid.SampledFrom([]uint64{lim * 2, 0xfc, 0xfd, 0xffff, 0x10000, 0x7fffffff, 0x80000000, 0xfffffffe, 0x100000000,
		1 << 62, 1<<63 - 1, 1 << 63, ^uint64(0) - 1, 1<<22 + 1, 4000001, 32*1024*1024 + 1, 50001, 2001, 1001}).Draw(t, "claim")
}

// splice replaces b[off:off+n] by repl.
func splice(b []byte, off, n int, repl []byte) []byte {
	out := make([]byte, 0, len(b)-n+len(repl))
	out = append(out, b[:off]...)
	out = append(out, repl...)
	return append(out, b[off+n:]...)
}

// mutate applies 1..3 point mutations.
func mutate(t *rapid.T, b []byte) []byte {
	out := append([]byte(nil), b...)
	for i := rapid.IntRange(1, 3).Draw(t, "nmut"); i > 0; i-- {
		if len(out) == 0 {
			out = append(out, rapid.Byte().Draw(t, "ins0"))
			continue
		}
		pos := rapid.IntRange(0, len(out)-1).Draw(t, "mpos")
		switch rapid.IntRange(0, 6).Draw(t, "mop") {
		case 0:
			out[pos] = rapid.SampledFrom([]byte{0x00, 0x01, 0xfc, 0xfd, 0xfe, 0xff, 0x7f, 0x80}).Draw(t, "mval")
		case 1:
			out[pos] ^= 1 << rapid.IntRange(0, 7).Draw(t, "mbit")
		case 2:
			out[pos] = rapid.Byte().Draw(t, "mbyte")
		case 3:
			out = splice(out, pos, 1, nil)
		case 4:
			out = splice(out, pos, 0, []byte{rapid.Byte().Draw(t, "mins")})
		case 5:
			n := rapid.IntRange(1, min(8, len(out)-pos)).Draw(t, "mdup")
			out = splice(out, pos, 0, out[pos:pos+n])
		case 6:
			out = out[:pos]
		}
	}
	return out
}

// hostilePayload derives one hostile byte string from a valid encoding.
type hostilePayload struct {
	class     string
	data      []byte
	mustErr   string // non-empty: why a decoder has to refuse it
	past      bool   // the input has content after its first count/length field
	expensive bool   // a claim the unchanged decoder honours with a multi-MB allocation
}

func deriveHostile(t *rapid.T, e *wirefmt.Enc, defined bool) hostilePayload {
	firstEnd := 0
	if len(e.Marks) > 0 {
		firstEnd = e.Marks[0].Off + e.Marks[0].Len
	}
	h := hostilePayload{}
	k := rapid.IntRange(0, 9).Draw(t, "hostileClass")
	switch {
	case k <= 2 && len(e.Marks) > 0:
		m := rapid.SampledFrom(e.Marks).Draw(t, "mark")
		claim := genClaim(t, m.Kind)
		if predictedAlloc(m.Kind, claim) > 2<<20 {
			if bigClaimBudget <= 0 {
				claim = markLimit[m.Kind] + 1
			} else {
				bigClaimBudget--
				h.expensive = true
			}
		}
		h.class = "claim"
		h.data = splice(e.B, m.Off, m.Len, wirefmt.AppendVarInt(nil, claim))
		rest := uint64(len(e.B) - m.Off - m.Len)
		if claim != m.Val && claim > rest {
			h.mustErr = fmt.Sprintf("%s claims %d with only %d bytes following", m.Kind, claim, rest)
		}
		h.past = true
	case k == 3 && len(e.Marks) > 0:
		m := rapid.SampledFrom(e.Marks).Draw(t, "mark")
		nc := rapid.SampledFrom(wirefmt.NonCanonicalVarInts(m.Val)).Draw(t, "noncanon")
		h.class = "noncanonical-varint"
		h.data = splice(e.B, m.Off, m.Len, nc)
		h.mustErr = fmt.Sprintf("%s = %d is encoded non-canonically as %x", m.Kind, m.Val, nc)
		h.past = true
	case k <= 6:
		h.class = "mutated"
		h.data = mutate(t, e.B)
		h.past = len(h.data) > firstEnd
	case k == 7:
		h.class = "valid"
		h.data = e.B
		h.past = len(e.B) > firstEnd
		if !defined {
			h.class = "over-limit"
			h.mustErr = "count or length above the protocol limit, or message not defined at this protocol version"
		}
	default:
		h.class = "arbitrary"
		n := rapid.SampledFrom([]int{0, 1, 3, 4, 5, 9, 10, 11, 37, 41, 46, 80, 81, 85, 120, 300}).Draw(t, "arbLen")
		h.data = rapid.SliceOfN(rapid.OneOf(rapid.Byte(), rapid.SampledFrom([]byte{0, 1, 0xfd, 0xfe, 0xff})), n, n).Draw(t, "arb")
		h.past = n > 9
	}
	return h
}

// ---------------------------------------------------------------------------
// (b)+(c) messages

var recHostileMsg = ev.New("C08", "hostile-messages",
	"byte strings offered to ReadMessageWithEncodingN as the payload of every command (correct header built by the model): "+
		"valid encodings, 1-3 point mutations (set/flip/insert/delete/duplicate/cut), every truncation offset, count/length fields replaced by "+
		"limit-1/limit/limit+1/2^32-1/2^64-1/... claims, non-canonical CompactSize re-encodings, over-limit encodings, arbitrary bytes; "+
		"oracle: no panic, TotalAlloc delta of the decode <= 8 x MaxMessagePayload, an error where the input cannot be valid "+
		"(claim larger than the remaining bytes, truncated, non-canonical, over the limit), and for every accepted input re-encoding == consumed bytes "+
		"== model encoding of the decoded value (documented tolerances are known findings, counted as excluded); "+
		"non-trivial = input continues after its first count/length field; distinct by (command,pver,enc,bytes)",
	"claim", "noncanonical-varint", "mutated", "valid", "arbitrary", "truncations", "accepted", "rejected")

func TestHostileMessages(t *testing.T) {
	rapid.Check(t, func(t *rapid.T) {
		bigClaimPhase()
		kind := rapid.SampledFrom(msgKinds[:len(msgKinds)-1]).Draw(t, "kind") // wtxidrelay cannot be read
		pver := genPver(t)
		enc := genEnc(t)
		net := rapid.SampledFrom(nets[:6]).Draw(t, "net")
		v := genMessage(t, kind, pver, enc, true)
		e, defined := wirefmt.Payload(v.msg, pver, enc == wire.WitnessEncoding, v.v2)
		if !defined && rapid.IntRange(0, 3).Draw(t, "fallbackPver") != 0 {
			pver = wire.ProtocolVersion
			e, defined = wirefmt.Payload(v.msg, pver, enc == wire.WitnessEncoding, v.v2)
		}
		if len(e.B) <= 700 && rapid.IntRange(0, 7).Draw(t, "truncAll") == 0 && defined {
			// every truncation offset of a valid payload
			recHostileMsg.Case(len(e.B) > 0, "truncations", ev.Hash([]byte("trunc"), []byte(kind), u32b(pver), u32b(uint32(enc)), e.B), func() any {
				return fmt.Sprintf("all %d truncations of %s pver=%d payload %s", len(e.B), kind, pver, hexShort(e.B))
			})
			recHostileMsg.Count("truncation-offsets", int64(len(e.B)))
			frame := wirefmt.Message(uint32(net), kind, e.B)
			a0 := totalAlloc()
			for cut := 0; cut < len(e.B); cut++ {
				// truncated stream: header still announces the full payload
				if err := probeMessage(t, recHostileMsg, frame[:wirefmt.HeaderLen+cut], pver, net, enc, false); err == nil {
					t.Fatalf("%s: a stream cut after %d of %d payload bytes was accepted", kind, cut, len(e.B))
				}
				// truncated payload with a consistent header
				p := e.B[:cut]
				err := probeMessage(t, recHostileMsg, wirefmt.Message(uint32(net), kind, p), pver, net, enc, false)
				if err == nil && toleranceOf(kind, pver, p) == "" {
					t.Fatalf("%s at pver %d: payload truncated to %d of %d bytes was accepted: %s", kind, pver, cut, len(e.B), hexShort(p))
				}
			}
			if d := totalAlloc() - a0; d > allocK*wire.MaxMessagePayload {
				t.Fatalf("%s: %d truncations allocated %d bytes in total", kind, len(e.B), d)
			}
			return
		}
		h := deriveHostile(t, e, defined)
		stream := wirefmt.Message(uint32(net), kind, h.data)
		recHostileMsg.Case(h.past, h.class, ev.Hash([]byte(kind), u32b(pver), u32b(uint32(enc)), h.data), func() any {
			return fmt.Sprintf("%s %s pver=%d enc=%d mustErr=%q payload=%s", h.class, kind, pver, enc, h.mustErr, hexShort(h.data))
		})
		var err error
		if h.expensive {
			recHostileMsg.Count("honoured-big-claim", 1)
			err = probeDirect(t, recHostileMsg, kind, h.data, pver, enc)
		} else {
			err = probeMessage(t, recHostileMsg, stream, pver, net, enc, true)
		}
		if err == nil {
			recHostileMsg.Count("accepted", 1)
			if h.mustErr != "" {
				t.Fatalf("%s at pver %d enc %d accepted a payload that cannot be valid (%s): %s", kind, pver, enc, h.mustErr, hexShort(h.data))
			}
		} else {
			recHostileMsg.Count("rejected", 1)
			if h.class == "valid" {
				t.Fatalf("%s at pver %d enc %d: valid payload rejected: %v\n%s", kind, pver, enc, err, hexShort(h.data))
			}
		}
	})
}

// ---------------------------------------------------------------------------
// (b)+(c) transactions, blocks, headers

var recHostileTx = ev.New("C08", "hostile-tx-block",
	"byte strings offered to MsgTx.Deserialize/DeserializeNoWitness, MsgBlock.Deserialize/DeserializeNoWitness/DeserializeTxLoc, BlockHeader.Deserialize, "+
		"btcutil.NewTxFromBytes/NewBlockFromBytes: valid encodings (+trailing bytes), mutations, every truncation offset, claims in every count/length field "+
		"(input/output/witness/script/tx counts at the decoder limits and 2^32-1, 2^64-1), non-canonical CompactSize, marker/flag variants, arbitrary bytes; "+
		"oracle: no panic, bounded TotalAlloc, error where required, btcutil agrees with wire, and for accepted input exact re-serialization, "+
		"model encoding == consumed bytes, sizes == consumed, hashes == double-SHA256 of the layouts; no tolerance is allowed here; "+
		"non-trivial = input continues after the first count field; distinct by (target,bytes)",
	"claim", "noncanonical-varint", "mutated", "valid", "arbitrary", "truncations", "flagged", "accepted", "rejected")

func TestHostileTxBlock(t *testing.T) {
	rapid.Check(t, func(t *rapid.T) {
		bigClaimPhase()
		target := rapid.SampledFrom([]string{"tx", "tx", "tx", "block", "block", "header"}).Draw(t, "target")
		witness := rapid.Bool().Draw(t, "witness")
		if target == "header" {
			n := rapid.SampledFrom([]int{0, 1, 79, 80, 81, 200}).Draw(t, "hdrLen")
			data := rapid.SliceOfN(rapid.Byte(), n, n).Draw(t, "hdrBytes")
			recHostileTx.Case(n >= 80, "arbitrary", ev.Hash([]byte("header"), data), func() any { return "header bytes " + hexShort(data) })
			probeHeader(t, recHostileTx, data)
			return
		}
		minIn := 0
		if witness {
			minIn = 1
		}
		e := &wirefmt.Enc{}
		if target == "tx" {
			e.Tx(genTx(t, "tx", txOpts{minIn: minIn}), witness)
		} else {
			e.Block(genBlock(t, "blk", txOpts{minIn: minIn}), witness)
		}
		probe := func(data []byte, meter bool) error {
			if target == "tx" {
				return probeTx(t, recHostileTx, data, witness, meter)
			}
			return probeBlock(t, recHostileTx, data, witness, meter)
		}
		if len(e.B) <= 900 && rapid.IntRange(0, 7).Draw(t, "truncAll") == 0 {
			recHostileTx.Case(true, "truncations", ev.Hash([]byte("trunc"+target), e.B), func() any {
				return fmt.Sprintf("all %d truncations of %s witness=%v %s", len(e.B), target, witness, hexShort(e.B))
			})
			recHostileTx.Count("truncation-offsets", int64(len(e.B)))
			a0 := totalAlloc()
			for cut := 0; cut < len(e.B); cut++ {
				if err := probe(e.B[:cut], false); err == nil {
					t.Fatalf("%s (witness=%v) truncated to %d of %d bytes was accepted: %s", target, witness, cut, len(e.B), hexShort(e.B[:cut]))
				}
			}
			if d := totalAlloc() - a0; d > allocK*wire.MaxMessagePayload {
				t.Fatalf("%s: %d truncations allocated %d bytes in total", target, len(e.B), d)
			}
			return
		}
		var h hostilePayload
		if rapid.IntRange(0, 11).Draw(t, "flagged") == 0 {
			// marker/flag variants on the version||marker||flag prefix
			off := 4
			if target == "block" {
				off = e.Marks[0].Off + e.Marks[0].Len + 4 // version of the first transaction
			}
			h.class, h.past = "flagged", true
			if off+2 <= len(e.B) {
				repl := rapid.SampledFrom([][]byte{{0, 0}, {0, 1}, {0, 2}, {0, 0xff}, {0, 1, 0}, {0, 1, 0, 0}, {0}}).Draw(t, "flagBytes")
				if rapid.Bool().Draw(t, "flagInsert") {
					h.data = splice(e.B, off, 0, repl)
				} else {
					h.data = splice(e.B, off, min(len(repl), len(e.B)-off), repl)
				}
			} else {
				h.data = e.B
			}
		} else {
			h = deriveHostile(t, e, true)
			if h.class == "valid" && rapid.Bool().Draw(t, "trail") {
				h.data = append(append([]byte(nil), h.data...), rapid.SliceOfN(rapid.Byte(), 1, 4).Draw(t, "trailing")...)
			}
		}
		recHostileTx.Case(h.past, h.class, ev.Hash([]byte(target), []byte{b2i(witness)}, h.data), func() any {
			return fmt.Sprintf("%s %s witness=%v mustErr=%q bytes=%s", h.class, target, witness, h.mustErr, hexShort(h.data))
		})
		if h.expensive {
			recHostileTx.Count("honoured-big-claim", 1)
		}
		err := probe(h.data, true)
		if err == nil {
			recHostileTx.Count("accepted", 1)
			if h.mustErr != "" {
				t.Fatalf("%s (witness=%v) accepted bytes that cannot be valid (%s): %s", target, witness, h.mustErr, hexShort(h.data))
			}
		} else {
			recHostileTx.Count("rejected", 1)
			if h.class == "valid" {
				t.Fatalf("%s (witness=%v): valid encoding rejected: %v\n%s", target, witness, err, hexShort(h.data))
			}
		}
	})
}

func b2i(b bool) byte {
	if b {
		return 1
	}
	return 0
}

// ---------------------------------------------------------------------------
// framing: magic, checksum, length, command

var recFraming = ev.New("C08", "message-framing",
	"a valid framed message with one header defect: other network magic, checksum bit flipped, payload bit flipped, announced length above "+
		"MaxProtocolMessageLength / above the command's own maximum / longer or shorter than the data, unknown or malformed command "+
		"(sendcmpct, cmpctblock, wtxidrelay, alert, wrong case, non-NUL after NUL, invalid UTF-8), truncated header; "+
		"oracle: an error, no message, no panic, bounded TotalAlloc (the announced length must not be allocated); every case is non-trivial; distinct by stream",
	"wrong-magic", "bad-checksum", "payload-bitflip", "length-over-protocol-max", "length-over-command-max", "length-longer-than-data",
	"length-shorter-than-data", "unknown-command", "malformed-command", "truncated-header")

func TestFraming(t *testing.T) {
	unknown := []string{"sendcmpct", "cmpctblock", "getblocktxn", "blocktxn", "wtxidrelay", "alert", "checkorder", "submitorder", "reply", "sendtxrcncl", "VERSION", "Tx", "ping ", " ping", "", "abcdefghijkl"}
	rapid.Check(t, func(t *rapid.T) {
		kind := rapid.SampledFrom(msgKinds[:len(msgKinds)-1]).Draw(t, "kind")
		enc := genEnc(t)
		pver := uint32(wire.ProtocolVersion)
		net := rapid.SampledFrom(nets[:6]).Draw(t, "net")
		v := genMessage(t, kind, pver, enc, true)
		e, defined := wirefmt.Payload(v.msg, pver, enc == wire.WitnessEncoding, v.v2)
		if !defined {
			v = genMessage(t, wire.CmdPing, pver, enc, true)
			kind = wire.CmdPing
			e, _ = wirefmt.Payload(v.msg, pver, false, nil)
		}
		good := wirefmt.Message(uint32(net), kind, e.B)
		if err := probeMessage(t, recFraming, good, pver, net, enc, false); err != nil {
			t.Fatalf("valid %s message rejected: %v\n%s", kind, err, hexShort(good))
		}
		bad := append([]byte(nil), good...)
		setLen := func(n uint32) { binary.LittleEndian.PutUint32(bad[16:], n) }
		setCmd := func(c []byte) {
			var cmd [12]byte
			copy(cmd[:], c)
			copy(bad[4:16], cmd[:])
		}
		class := rapid.SampledFrom(recFraming.Required).Draw(t, "defect")
		switch class {
		case "wrong-magic":
			other := rapid.OneOf(rapid.SampledFrom(nets), rapid.Map(rapid.Uint32(), func(u uint32) wire.BitcoinNet { return wire.BitcoinNet(u) })).Draw(t, "otherNet")
			if other == net {
				other ^= 1 << rapid.IntRange(0, 31).Draw(t, "magicBit")
			}
			binary.LittleEndian.PutUint32(bad[0:], uint32(other))
		case "bad-checksum":
			bad[20+rapid.IntRange(0, 3).Draw(t, "ckByte")] ^= 1 << rapid.IntRange(0, 7).Draw(t, "ckBit")
		case "payload-bitflip":
			if len(e.B) == 0 {
				bad[20] ^= 0x80
				class = "bad-checksum"
			} else {
				bad[24+rapid.IntRange(0, len(e.B)-1).Draw(t, "plByte")] ^= 1 << rapid.IntRange(0, 7).Draw(t, "plBit")
			}
		case "length-over-protocol-max":
			setLen(rapid.SampledFrom([]uint32{4000001, 4194304, 32 * 1024 * 1024, 32*1024*1024 + 1, 0x7fffffff, 0x80000000, 0xffffffff}).Draw(t, "hugeLen"))
		case "length-over-command-max":
			// ping carries exactly 8 bytes; announce (and supply) more
			p := append(append([]byte(nil), make([]byte, 8)...), rapid.SliceOfN(rapid.Byte(), 1, 64).Draw(t, "extra")...)
			bad = wirefmt.Message(uint32(net), wire.CmdPing, p)
		case "length-longer-than-data":
			setLen(uint32(len(e.B)) + uint32(rapid.IntRange(1, 1000).Draw(t, "more")))
		case "length-shorter-than-data":
			if len(e.B) == 0 {
				bad = append(bad, 0)
				setLen(1)
				bad[20] ^= 1
				class = "bad-checksum"
			} else {
				setLen(uint32(rapid.IntRange(0, len(e.B)-1).Draw(t, "less")))
			}
		case "unknown-command":
			c := rapid.OneOf(rapid.SampledFrom(unknown), rapid.StringMatching(`[a-z]{1,12}`)).Draw(t, "cmd")
			for _, k := range msgKinds[:len(msgKinds)-1] {
				if c == k {
					c = "x" + c[:min(len(c), 11)]
				}
			}
			setCmd([]byte(c))
		case "malformed-command":
			switch rapid.IntRange(0, 3).Draw(t, "malform") {
			case 0: // non-NUL after the NUL padding started
				c := append([]byte(kind), 0)
				if len(c) < 12 {
					c = append(c, 'x')
					setCmd(c)
				} else {
					setCmd([]byte{0, 't', 'x'})
				}
			case 1: // leading NUL
				setCmd(append([]byte{0}, kind...))
			case 2: // invalid UTF-8
				setCmd([]byte{0xff, 0xfe, 't', 'x'})
			case 3:
				setCmd(bytes.ToUpper([]byte(kind)))
			}
		case "truncated-header":
			bad = bad[:rapid.IntRange(0, 23).Draw(t, "hdrCut")]
		}
		recFraming.Case(true, class, ev.Hash([]byte(class), bad), func() any { return fmt.Sprintf("%s: %s", class, hexShort(bad)) })
		err := probeMessage(t, recFraming, bad, pver, net, enc, true)
		if err == nil {
			t.Fatalf("a %s message with defect %q was accepted\ngood: %s\nbad:  %s", kind, class, hexShort(good), hexShort(bad))
		}
		if class == "unknown-command" && !errors.Is(err, wire.ErrUnknownMessage) {
			t.Fatalf("unknown command: error is %v, callers rely on ErrUnknownMessage", err)
		}
	})
}

// ---------------------------------------------------------------------------
// CompactSize integers and length-prefixed strings

var recVarInt = ev.New("C08", "varint",
	"64-bit values on every CompactSize boundary; oracle: WriteVarInt == model, VarIntSerializeSize == length, ReadVarInt inverts and consumes exactly the encoding, "+
		"every over-long (non-canonical) encoding and every truncation is refused; ReadVarString/ReadVarBytes refuse lengths above their maximum without allocating; "+
		"non-trivial = value needs more than one byte or sits next to a boundary; distinct by value",
	"1-byte", "3-byte", "5-byte", "9-byte")

var bigStringBudget = 6

func TestVarInt(t *testing.T) {
	rapid.Check(t, func(t *rapid.T) {
		v := rapid.OneOf(
			rapid.SampledFrom([]uint64{0, 1, 0xfb, 0xfc, 0xfd, 0xfe, 0xff, 0x100, 0xfffe, 0xffff, 0x10000, 0x10001, 0xfffffffe, 0xffffffff, 0x100000000, 0x100000001, 1<<63 - 1, 1 << 63, ^uint64(0) - 1, ^uint64(0)}),
			rapid.Uint64(), rapid.Uint64Range(0, 0x20000), rapid.Uint64Range(0xffff0000, 0x1000f0000)).Draw(t, "v")
		want := wirefmt.AppendVarInt(nil, v)
		cl := map[int]string{1: "1-byte", 3: "3-byte", 5: "5-byte", 9: "9-byte"}[len(want)]
		recVarInt.Case(len(want) > 1 || v >= 0xfb, cl, ev.Hash(want), func() any { return fmt.Sprintf("%d -> %x", v, want) })
		pver := genPver(t)
		var w bytes.Buffer
		if err := wire.WriteVarInt(&w, pver, v); err != nil || !bytes.Equal(w.Bytes(), want) {
			t.Fatalf("WriteVarInt(%d) = %x (err %v), CompactSize encoding is %x", v, w.Bytes(), err, want)
		}
		if wire.VarIntSerializeSize(v) != len(want) {
			t.Fatalf("VarIntSerializeSize(%d) = %d want %d", v, wire.VarIntSerializeSize(v), len(want))
		}
		r := bytes.NewReader(append(append([]byte(nil), want...), 0xaa))
		got, err := wire.ReadVarInt(r, pver)
		if err != nil || got != v || r.Len() != 1 {
			t.Fatalf("ReadVarInt(%x) = %d, err %v, unread %d", want, got, err, r.Len()-1)
		}
		for _, nc := range wirefmt.NonCanonicalVarInts(v) {
			if got, err := wire.ReadVarInt(bytes.NewReader(nc), pver); err == nil {
				t.Fatalf("ReadVarInt accepted the non-canonical encoding %x of %d (returned %d)", nc, v, got)
			}
		}
		for cut := 0; cut < len(want); cut++ {
			if _, err := wire.ReadVarInt(bytes.NewReader(want[:cut]), pver); err == nil {
				t.Fatalf("ReadVarInt accepted the truncated encoding %x", want[:cut])
			}
		}
		// length-prefixed strings: a claimed length v with little data
		if v > 1<<20 && v <= wire.MaxMessagePayload {
			// an honoured 1..32 MiB claim costs up to seconds of zeroing on this machine: a few per process
			if bigStringBudget <= 0 {
				return
			}
			bigStringBudget--
		}
		data := append(append([]byte(nil), want...), rapid.SliceOfN(rapid.Byte(), 0, 20).Draw(t, "strData")...)
		maxAllowed := rapid.SampledFrom([]uint32{0, 1, 520, 36000, 4000000, wire.MaxMessagePayload}).Draw(t, "maxAllowed")
		var gotB []byte
		o := metered("ReadVarBytes", data, func() error {
			var err error
			gotB, err = wire.ReadVarBytes(bytes.NewReader(data), pver, maxAllowed, "test")
			return err
		})
		o.check(t, "ReadVarBytes", data)
		avail := uint64(len(data) - len(want))
		if (o.err == nil) != (v <= uint64(maxAllowed) && v <= avail) {
			t.Fatalf("ReadVarBytes(len=%d, max=%d, available=%d): err=%v", v, maxAllowed, avail, o.err)
		}
		if o.err == nil && !bytes.Equal(gotB, data[len(want):len(want)+int(v)]) {
			t.Fatalf("ReadVarBytes returned %x", gotB)
		}
		if v > uint64(maxAllowed) && o.alloc > 1<<20 {
			t.Fatalf("ReadVarBytes allocated %d bytes for a refused length %d (max %d)", o.alloc, v, maxAllowed)
		}
		var gotS string
		o = metered("ReadVarString", data, func() error {
			var err error
			gotS, err = wire.ReadVarString(bytes.NewReader(data), pver)
			return err
		})
		o.check(t, "ReadVarString", data)
		if (o.err == nil) != (v <= avail) {
			t.Fatalf("ReadVarString(len=%d, available=%d): err=%v", v, avail, o.err)
		}
		if o.err == nil {
			var ws bytes.Buffer
			if err := wire.WriteVarString(&ws, pver, gotS); err != nil || !bytes.Equal(ws.Bytes(), data[:len(want)+int(v)]) {
				t.Fatalf("WriteVarString(ReadVarString(%x)) = %x", data, ws.Bytes())
			}
		}
		if v > wire.MaxMessagePayload && o.alloc > 1<<20 {
			t.Fatalf("ReadVarString allocated %d bytes for a refused length %d", o.alloc, v)
		}
	})
}

var _ = io.EOF
