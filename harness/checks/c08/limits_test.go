package c08

// Guaranteed coverage of the protocol's count/length limits: every list
// message at limit (must round-trip through the message layer) and at limit+1
// with ALL the data present (the encoder must refuse the value, the decoder
// must refuse the model-built bytes). The random value test reaches these
// classes only now and then; this sub-check visits every row in every case.

import (
	"bytes"
	"fmt"
	"testing"
	"time"

	"github.com/btcsuite/btcd/chainhash/v2"
	"github.com/btcsuite/btcd/wire/v2"
	"pgregory.net/rapid"

	"verif/internal/ev"
	"verif/internal/model/wirefmt"
)

var recLimits = ev.New("C08", "limits",
	"for each protocol limit (inv/getdata/notfound 50 000, headers 2 000, addr 1 000 at pver 209/31402/latest, addrv2 1 000, filterload 36 000 bytes and 50 hash functions, "+
		"filteradd 520, user agent 256, cfheaders 2 000, tx/block payload 4 000 000) a value exactly at the limit and one above it with all data present, contents expanded from a drawn seed; "+
		"plus btcd's own limits (locator 500, cfilter 256 KiB, cfcheckpt 100 000, merkleblock flags 50 000) at the limit; "+
		"oracle: at the limit the full value round trip of [message-values] holds, above it BtcEncode/WriteMessage refuse the value and ReadMessage refuses the model-built message; "+
		"every case is non-trivial; distinct by (row,seed)",
	"at-limit", "above-limit", "scripts-over-slab")

type limitRow struct {
	name  string
	kind  string
	pver  uint32
	limit int
	proto bool // a protocol limit: limit+1 must be refused
	build func(n int, x *xs) *vcase
}

func bulkHashes(n int, x *xs) []*chainhash.Hash {
	out := make([]*chainhash.Hash, n)
	for i := range out {
		out[i] = new(chainhash.Hash)
		x.fill(out[i][:])
	}
	return out
}

func bulkInv(n int, x *xs) []*wire.InvVect {
	out := make([]*wire.InvVect, n)
	for i := range out {
		out[i] = &wire.InvVect{Type: wire.InvType(x.next() % 5)}
		x.fill(out[i].Hash[:])
	}
	return out
}

func bulkBytes(n int, x *xs) []byte {
	b := make([]byte, n)
	x.fill(b)
	return b
}

func limitRows() []limitRow {
	latest := uint32(wire.ProtocolVersion)
	rows := []limitRow{
		{"inv", wire.CmdInv, latest, wirefmt.MaxInv, true, func(n int, x *xs) *vcase { return &vcase{kind: wire.CmdInv, msg: &wire.MsgInv{InvList: bulkInv(n, x)}} }},
		{"getdata", wire.CmdGetData, latest, wirefmt.MaxInv, true, func(n int, x *xs) *vcase {
			return &vcase{kind: wire.CmdGetData, msg: &wire.MsgGetData{InvList: bulkInv(n, x)}}
		}},
		{"notfound", wire.CmdNotFound, 60002, wirefmt.MaxInv, true, func(n int, x *xs) *vcase {
			return &vcase{kind: wire.CmdNotFound, msg: &wire.MsgNotFound{InvList: bulkInv(n, x)}}
		}},
		{"headers", wire.CmdHeaders, latest, wirefmt.MaxHeaders, true, func(n int, x *xs) *vcase {
			m := &wire.MsgHeaders{}
			for i := 0; i < n; i++ {
				m.Headers = append(m.Headers, bulkHeader(x))
			}
			return &vcase{kind: wire.CmdHeaders, msg: m}
		}},
		{"filterload-bytes", wire.CmdFilterLoad, latest, wirefmt.MaxFilterBytes, true, func(n int, x *xs) *vcase {
			return &vcase{kind: wire.CmdFilterLoad, msg: &wire.MsgFilterLoad{Filter: bulkBytes(n, x), HashFuncs: uint32(x.next() % 51), Tweak: uint32(x.next())}}
		}},
		{"filterload-hashfuncs", wire.CmdFilterLoad, 70001, wirefmt.MaxFilterHashFunc, true, func(n int, x *xs) *vcase {
			return &vcase{kind: wire.CmdFilterLoad, msg: &wire.MsgFilterLoad{Filter: bulkBytes(int(x.next()%100), x), HashFuncs: uint32(n), Flags: wire.BloomUpdateType(x.next())}}
		}},
		{"filteradd", wire.CmdFilterAdd, latest, wirefmt.MaxFilterAdd, true, func(n int, x *xs) *vcase {
			return &vcase{kind: wire.CmdFilterAdd, msg: &wire.MsgFilterAdd{Data: bulkBytes(n, x)}}
		}},
		{"version-useragent", wire.CmdVersion, latest, wirefmt.MaxUserAgent, true, func(n int, x *xs) *vcase {
			return &vcase{kind: wire.CmdVersion, msg: &wire.MsgVersion{ProtocolVersion: int32(x.next()), Timestamp: time.Unix(int64(x.next()>>2), 0), Nonce: x.next(), UserAgent: string(bulkBytes(n, x))}}
		}},
		{"cfheaders", wire.CmdCFHeaders, latest, wirefmt.MaxCFHeaders, true, func(n int, x *xs) *vcase {
			return &vcase{kind: wire.CmdCFHeaders, msg: &wire.MsgCFHeaders{FilterHashes: bulkHashes(n, x)}}
		}},
		{"addrv2", wire.CmdAddrV2, latest, wirefmt.MaxAddr, true, func(n int, x *xs) *vcase {
			v := &vcase{kind: wire.CmdAddrV2}
			m := &wire.MsgAddrV2{}
			for i := 0; i < n; i++ {
				na, want := genAddrV2(nil, "", x)
				m.AddrList = append(m.AddrList, na)
				v.v2 = append(v.v2, want)
			}
			v.msg = m
			return v
		}},
		// btcd's own limits: only "at the limit" is asserted
		{"getblocks-locator", wire.CmdGetBlocks, latest, wire.MaxBlockLocatorsPerMsg, false, func(n int, x *xs) *vcase {
			return &vcase{kind: wire.CmdGetBlocks, msg: &wire.MsgGetBlocks{ProtocolVersion: uint32(x.next()), BlockLocatorHashes: bulkHashes(n, x)}}
		}},
		{"getheaders-locator", wire.CmdGetHeaders, latest, wire.MaxBlockLocatorsPerMsg, false, func(n int, x *xs) *vcase {
			return &vcase{kind: wire.CmdGetHeaders, msg: &wire.MsgGetHeaders{ProtocolVersion: uint32(x.next()), BlockLocatorHashes: bulkHashes(n, x)}}
		}},
		{"cfilter", wire.CmdCFilter, latest, wire.MaxCFilterDataSize, false, func(n int, x *xs) *vcase {
			return &vcase{kind: wire.CmdCFilter, msg: &wire.MsgCFilter{Data: bulkBytes(n, x)}}
		}},
		{"cfcheckpt", wire.CmdCFCheckpt, latest, 100000, false, func(n int, x *xs) *vcase {
			return &vcase{kind: wire.CmdCFCheckpt, msg: &wire.MsgCFCheckpt{FilterHeaders: bulkHashes(n, x)}}
		}},
		{"merkleblock-flags", wire.CmdMerkleBlock, latest, 50000, false, func(n int, x *xs) *vcase {
			return &vcase{kind: wire.CmdMerkleBlock, msg: &wire.MsgMerkleBlock{Header: *bulkHeader(x), Hashes: bulkHashes(3, x), Flags: bulkBytes(n, x)}}
		}},
	}
	for _, pv := range []uint32{wirefmt.PverMultiAddr, wirefmt.PverAddrTime - 1, wirefmt.PverAddrTime, latest} {
		rows = append(rows, limitRow{fmt.Sprintf("addr@%d", pv), wire.CmdAddr, pv, wirefmt.MaxAddr, true, func(n int, x *xs) *vcase {
			m := &wire.MsgAddr{}
			for i := 0; i < n; i++ {
				m.AddrList = append(m.AddrList, bulkNetAddress(x))
			}
			return &vcase{kind: wire.CmdAddr, msg: m}
		}})
	}
	return rows
}

func TestLimits(t *testing.T) {
	rows := limitRows()
	rapid.Check(t, func(t *rapid.T) {
		seed := rapid.Uint64().Draw(t, "seed")
		net := rapid.SampledFrom(nets[:6]).Draw(t, "net")
		for _, row := range rows {
			x := xs(seed)
			// at the limit
			v := row.build(row.limit, &x)
			recLimits.Case(true, "at-limit", ev.Hash([]byte(row.name), u32b(uint32(seed)), u32b(uint32(seed>>32))), func() any {
				return fmt.Sprintf("%s: %d entries at pver %d", row.name, row.limit, row.pver)
			})
			checkValue(t, v, row.pver, wire.BaseEncoding, net, nil)
			if !row.proto {
				continue
			}
			// one above, all data present
			v = row.build(row.limit+1, &x)
			recLimits.Case(true, "above-limit", ev.Hash([]byte(row.name+"+1"), u32b(uint32(seed)), u32b(uint32(seed>>32))), nil)
			e, defined := wirefmt.Payload(v.msg, row.pver, false, v.v2)
			if defined {
				t.Fatalf("VERIF-INFRA: model regards %s with %d entries as defined", row.name, row.limit+1)
			}
			checkValue(t, v, row.pver, wire.BaseEncoding, net, nil) // encoder side: must refuse
			stream := wirefmt.Message(uint32(net), row.kind, e.B)
			if err := probeMessage(t, recLimits, stream, row.pver, net, wire.BaseEncoding, true); err == nil {
				t.Fatalf("%s: a well-formed message with %d entries/bytes (protocol limit %d) was accepted by ReadMessageWithEncodingN", row.name, row.limit+1, row.limit)
			}
		}
		// btcd decodes all scripts of a transaction into one 4 MiB slab: a
		// well-formed transaction whose scripts total more than that is
		// outside the value domain (it exceeds every block size limit), but
		// as input it must be handled without a panic - and if it is
		// accepted, exactly.
		{
			x := xs(seed)
			first := 4000000 - int(x.next()%1000)
			second := (1<<22 - first) + 1 + int(x.next()%200000)
			tx := &wire.MsgTx{Version: 1, TxIn: []*wire.TxIn{{SignatureScript: bulkBytes(first, &x)}}, TxOut: []*wire.TxOut{{PkScript: bulkBytes(second, &x)}}}
			raw := wirefmt.TxBytes(tx, false)
			recLimits.Case(true, "scripts-over-slab", ev.Hash([]byte("slab"), u32b(uint32(seed))), func() any {
				return fmt.Sprintf("transaction with scripts of %d + %d bytes (> 4 MiB in total), %d bytes", first, second, len(raw))
			})
			probeTx(t, recLimits, raw, false, true)
			probeTx(t, recLimits, raw, true, true)
		}
		// message size: a transaction whose payload is exactly 4 000 000 bytes
		// is the largest acceptable message; one byte more must be refused by
		// the writer and (announced in a header) by the reader
		x := xs(seed)
		for _, total := range []int{4000000, 4000001} {
			tx := &wire.MsgTx{Version: 2, TxIn: []*wire.TxIn{{Sequence: uint32(x.next())}}, TxOut: []*wire.TxOut{{Value: int64(x.next() >> 1)}}}
			base := len(wirefmt.TxBytes(tx, false))            // with an empty script (1 length byte)
			tx.TxOut[0].PkScript = bulkBytes(total-base-4, &x) // length prefix grows from 1 to 5 bytes
			payload := wirefmt.TxBytes(tx, false)
			if len(payload) != total {
				t.Fatalf("VERIF-INFRA: built a %d byte transaction, wanted %d", len(payload), total)
			}
			v := &vcase{kind: wire.CmdTx, msg: tx}
			if total == 4000000 {
				recLimits.Case(true, "at-limit", ev.Hash([]byte("txsize"), u32b(uint32(seed))), nil)
				checkValue(t, v, wire.ProtocolVersion, wire.BaseEncoding, net, nil)
				continue
			}
			recLimits.Case(true, "above-limit", ev.Hash([]byte("txsize+1"), u32b(uint32(seed))), nil)
			var w bytes.Buffer
			if _, err := wire.WriteMessageWithEncodingN(&w, tx, wire.ProtocolVersion, net, wire.BaseEncoding); err == nil {
				t.Fatalf("WriteMessageWithEncodingN wrote a %d byte tx payload (MAX_PROTOCOL_MESSAGE_LENGTH is 4 000 000)", total)
			}
			if err := probeMessage(t, recLimits, wirefmt.Message(uint32(net), wire.CmdTx, payload), wire.ProtocolVersion, net, wire.BaseEncoding, true); err == nil {
				t.Fatalf("ReadMessageWithEncodingN accepted a %d byte tx payload", total)
			}
		}
	})
}
