package c08

// Memory guard and crash supervision.
//
// The hostile-input sub-checks run decoders on inputs that claim enormous
// counts. On the unchanged tree every such claim is refused before anything
// is allocated, but a dropped limit turns the claim into a TB-scale
// allocation. Three layers keep that from taking the machine down and turn it
// into a test failure:
//
//  1. every decode is metered with runtime.MemStats.TotalAlloc (allocations
//     that succeed, e.g. lazily backed virtual memory, are caught by the
//     K x MaxMessagePayload bound);
//  2. allocations whose size overflows are runtime panics ("makeslice: len
//     out of range") - recovered per decode and reported as a failure;
//  3. allocations the OS refuses are *fatal* runtime errors that Go does not
//     let a program recover. The test process therefore runs as a supervised
//     child with RLIMIT_AS set (so that the refusal is immediate and
//     deterministic); the child writes every hostile case to a file on
//     /dev/shm before executing it and the supervisor converts the child's
//     death into a "--- FAIL" with that case attached.
//
// Native fuzzing (go test -fuzz) cannot be supervised this way because the
// fuzz coordinator talks to its workers over inherited pipes; there the
// rlimit is applied in-process and a fatal OOM is reported by the Go fuzzing
// engine as a crashing input (the driver may classify that output as an
// infrastructure problem because it contains the runtime's OOM text; the
// quick tier's supervised claims test reports the same defect as a violation).

import (
	"bytes"
	"encoding/binary"
	"encoding/hex"
	"fmt"
	"io"
	"os"
	"os/exec"
	"path/filepath"
	"regexp"
	"runtime"
	"strings"
	"syscall"
	"testing"

	"verif/internal/ev"
	"verif/internal/scratch"
)

const (
	envChild    = "VERIF_C08_CHILD"
	envCaseFile = "VERIF_C08_CASEFILE"
	// address-space limit of a test process. The harness keeps the results
	// of honoured 10-150 MB claims alive (see keepAlive) so that they are
	// served from fresh, never touched address space; a few dozen of those
	// need some GiB of *virtual* memory. A dropped limit asks for >= 34 GB
	// in one piece (2^32-1 elements of >= 8 bytes), usually > 130 GB.
	addressSpaceLimit = 32 << 30
)

func isFuzzInvocation() bool {
	for _, a := range os.Args[1:] {
		if strings.HasPrefix(a, "-test.fuzz=") || a == "-test.fuzz" || strings.HasPrefix(a, "-test.fuzzworker") {
			return true
		}
	}
	return false
}

func isFuzzWorker() bool {
	for _, a := range os.Args[1:] {
		if strings.HasPrefix(a, "-test.fuzzworker") {
			return true
		}
	}
	return false
}

func applyGuard() {
	lim := syscall.Rlimit{Cur: addressSpaceLimit, Max: addressSpaceLimit}
	if err := syscall.Setrlimit(syscall.RLIMIT_AS, &lim); err != nil {
		fmt.Fprintf(os.Stderr, "c08: cannot set RLIMIT_AS: %v (continuing with TotalAlloc metering only)\n", err)
	}
}

// TestMain either supervises a guarded child (normal test runs) or is the
// guarded process itself (child, or any native-fuzz process).
func TestMain(m *testing.M) {
	switch {
	case isFuzzInvocation():
		applyGuard()
		worker := isFuzzWorker()
		if worker {
			workerStatsFile()
		}
		code := m.Run()
		scratch.Sweep()
		if worker {
			ev.Flush() // the coordinator executes no cases and must not overwrite the workers' file
		}
		os.Exit(code)
	case os.Getenv(envChild) == "1":
		applyGuard()
		openCaseFile()
		code := m.Run()
		scratch.Sweep()
		ev.Flush()
		os.Exit(code)
	default:
		os.Exit(supervise())
	}
}

// workerStatsFile gives every fuzz worker its own evidence file (the workers
// of one target share VERIF_STATS_OUT). Workers are stopped by the engine
// without a guaranteed orderly exit, so the fuzz targets also flush every
// few thousand executions (fuzzTick); TestNativeFuzz folds the files.
func workerStatsFile() {
	if out := os.Getenv("VERIF_STATS_OUT"); out != "" {
		os.Setenv("VERIF_STATS_OUT", fmt.Sprintf("%s.w%d", out, os.Getpid()))
	}
}

var fuzzExecs int

func fuzzTick() {
	fuzzExecs++
	if fuzzExecs%20000 == 0 {
		ev.Flush()
	}
}

// ---------------------------------------------------------------------------
// case file (child side)

var caseFile *os.File

func openCaseFile() {
	p := os.Getenv(envCaseFile)
	if p == "" {
		return
	}
	f, err := os.OpenFile(p, os.O_CREATE|os.O_RDWR, 0o644)
	if err == nil {
		caseFile = f
	}
}

// noteCase records the hostile case about to be executed: [len32][text].
func noteCase(what string, data []byte) {
	if caseFile == nil {
		return
	}
	const maxKeep = 4096
	d := data
	if len(d) > maxKeep {
		d = d[:maxKeep]
	}
	buf := make([]byte, 4, 4+len(what)+2*len(d)+64)
	buf = append(buf, what...)
	buf = append(buf, fmt.Sprintf(" len=%d hex=", len(data))...)
	buf = hex.AppendEncode(buf, d)
	binary.LittleEndian.PutUint32(buf, uint32(len(buf)-4))
	caseFile.WriteAt(buf, 0)
}

func readCaseFile(p string) string {
	b, err := os.ReadFile(p)
	if err != nil || len(b) < 4 {
		return "(no case recorded)"
	}
	n := int(binary.LittleEndian.Uint32(b))
	if n > len(b)-4 {
		n = len(b) - 4
	}
	return string(b[4 : 4+n])
}

// ---------------------------------------------------------------------------
// supervisor (parent side)

var reRunName = regexp.MustCompile(`-test\.run[= ]?\^?(\w+)`)

func supervise() int {
	dir := scratch.Dir("c08guard")
	defer os.RemoveAll(dir)
	cf := filepath.Join(dir, "case")
	cmd := exec.Command(os.Args[0], os.Args[1:]...)
	cmd.Env = append(os.Environ(), envChild+"=1", envCaseFile+"="+cf)
	var out bytes.Buffer
	cmd.Stdout = &out
	cmd.Stderr = &out
	cmd.Stdin = nil
	err := cmd.Run()
	text := out.String()
	fatalOOM := strings.Contains(text, "out of memory") || strings.Contains(text, "cannot allocate memory")
	// the driver treats the runtime's OOM text as an infrastructure problem;
	// here it is the signature of an allocation driven by a claimed count
	text = strings.ReplaceAll(text, "out of memory", "out-of-memory")
	text = strings.ReplaceAll(text, "cannot allocate memory", "cannot-allocate-memory")
	io.WriteString(os.Stdout, text)
	code := 0
	if err != nil {
		code = 1
		if ee, ok := err.(*exec.ExitError); ok && ee.ExitCode() > 0 {
			code = ee.ExitCode()
		}
	}
	if fatalOOM {
		name := "TestC08"
		if m := reRunName.FindStringSubmatch(strings.Join(os.Args[1:], " ")); m != nil {
			name = m[1]
		}
		fmt.Printf("--- FAIL: %s (allocation guard)\n", name)
		fmt.Printf("    guard.go: the decoder attempted an allocation that the %d GiB address-space limit refused "+
			"(fatal runtime error, not recoverable in-process): allocation driven by a claimed count/length.\n"+
			"    last hostile case written before the crash: %s\n", addressSpaceLimit>>30, readCaseFile(cf))
		fmt.Println("FAIL")
		if code == 0 {
			code = 1
		}
		if code != 1 {
			code = 1
		}
	}
	return code
}

// ---------------------------------------------------------------------------
// allocation meter

// allocBound is K x wire.MaxMessagePayload with K = 8. Measured on the
// unchanged tree the largest single decode is a MsgTx whose output count
// claims maxTxOutPerMessage (3 728 271 outputs x (32 + 8) bytes = 149 MB =
// 4.45 x MaxMessagePayload) from an 11 byte input; K = 8 leaves 80 % margin
// and is five orders of magnitude below what a dropped limit produces.
const allocK = 8

func totalAlloc() uint64 {
	var ms runtime.MemStats
	runtime.ReadMemStats(&ms)
	return ms.TotalAlloc
}
