package c08

// The decoders' documented tolerances: inputs that decode without error but do
// not re-encode to the same bytes. Each tolerance is a deviation from the
// statement of C08 as written ("any byte string that decodes re-encodes to the
// same bytes"); each is constructed here explicitly from the model, confirmed
// against the real decoder, and reported through the known-findings list under
// a signature specific to (message type, tolerance). The random sub-checks
// classify inputs with the same model parsers (toleranceOf) and skip only the
// identity assertion for inputs of a listed class.

import (
	"bytes"
	"fmt"
	"testing"

	"github.com/btcsuite/btcd/wire/v2"
	"pgregory.net/rapid"

	"verif/internal/ev"
	"verif/internal/model/wirefmt"
)

var recLenient = ev.New("C08", "lenient-decodes",
	"inputs built by the model for each documented decoder tolerance: version payloads ending after addr_recv / addr_from / nonce / user_agent / start_height, "+
		"version relay byte 2..255, version relay byte sent below protocol version 70001, addrv2 entries with network id I2P/CJDNS, unknown ids (0, 7..255), "+
		"IPv4-mapped or OnionCat addresses inside the IPV6 id; oracle: if the input decodes, re-encoding must reproduce it - otherwise the signature must be a listed known finding; "+
		"every case is non-trivial; distinct by (pver,payload)",
	toleranceSigs...)

// genLenient builds a payload of the requested tolerance class.
func genLenient(t *rapid.T, sig string) (cmd string, pver uint32, payload []byte) {
	switch sig {
	case "version-optional-fields-omitted", "version-relay-byte-before-bip37", "version-relay-byte-not-0-or-1":
		cmd = wire.CmdVersion
		v := genMessage(t, wire.CmdVersion, wire.ProtocolVersion, wire.BaseEncoding, true)
		for len(v.msg.(*wire.MsgVersion).UserAgent) > wirefmt.MaxUserAgent {
			v.msg.(*wire.MsgVersion).UserAgent = v.msg.(*wire.MsgVersion).UserAgent[:wirefmt.MaxUserAgent]
		}
		full, _ := wirefmt.Payload(v.msg, wire.ProtocolVersion, false, nil) // ... start_height relay
		ua := len(v.msg.(*wire.MsgVersion).UserAgent)
		ends := map[string]int{"addr_recv": 46, "addr_from": 72, "nonce": 80}
		ends["user_agent"] = 80 + wirefmt.VarIntLen(uint64(ua)) + ua
		ends["start_height"] = ends["user_agent"] + 4
		switch sig {
		case "version-optional-fields-omitted":
			pver = rapid.SampledFrom([]uint32{106, 209, 31402, 60002, 70001, 70002, 70016}).Draw(t, "pver")
			opts := []string{"addr_recv", "addr_from", "nonce", "user_agent"}
			if pver >= wirefmt.PverBIP37 {
				opts = append(opts, "start_height")
			}
			payload = full.B[:ends[rapid.SampledFrom(opts).Draw(t, "endsAt")]]
		case "version-relay-byte-before-bip37":
			pver = rapid.SampledFrom([]uint32{106, 209, 31402, 60002, 70000}).Draw(t, "pver")
			payload = full.B
		case "version-relay-byte-not-0-or-1":
			pver = rapid.SampledFrom([]uint32{70001, 70002, 70016}).Draw(t, "pver")
			payload = append([]byte(nil), full.B...)
			payload[len(payload)-1] = byte(rapid.IntRange(2, 255).Draw(t, "relayByte"))
		}
	default:
		cmd, pver = wire.CmdAddrV2, wire.ProtocolVersion
		n := rapid.IntRange(1, 4).Draw(t, "entries")
		special := rapid.IntRange(0, n-1).Draw(t, "special")
		var list []wirefmt.AddrV2
		for i := 0; i < n; i++ {
			_, a := genAddrV2(t, "a", nil)
			if i == special {
				switch sig {
				case "addrv2-i2p-cjdns-entry-dropped":
					a.NetID = byte(rapid.SampledFrom([]int{wirefmt.NetI2P, wirefmt.NetCJDNS}).Draw(t, "net"))
					a.Addr = genBytesN(t, "addr", wirefmt.AddrV2Len[a.NetID])
				case "addrv2-unknown-netid-entry-dropped":
					a.NetID = byte(rapid.OneOf(rapid.Just(0), rapid.IntRange(7, 255)).Draw(t, "net"))
					a.Addr = genBytesN(t, "addr", rapid.SampledFrom([]int{0, 1, 4, 16, 32, 33, 511, 512}).Draw(t, "len"))
				case "addrv2-ipv6-embedded-v4-or-onioncat-entry-dropped":
					a.NetID = wirefmt.NetIPv6
					a.Addr = bulkAddr(rapid.SampledFrom([]int{-1, -2}).Draw(t, "embedded"), newXS(t, "seed"))
				}
			}
			list = append(list, a)
		}
		e, _ := wirefmt.Payload(&wire.MsgAddrV2{}, pver, false, list)
		payload = e.B
	}
	return
}

func TestLenientDecodes(t *testing.T) {
	rapid.Check(t, func(t *rapid.T) {
		sig := rapid.SampledFrom(toleranceSigs).Draw(t, "tolerance")
		cmd, pver, payload := genLenient(t, sig)
		recLenient.Case(true, sig, ev.Hash(u32b(pver), payload), func() any { return fmt.Sprintf("%s: %s pver=%d payload=%s", sig, cmd, pver, hexShort(payload)) })
		if got := toleranceOf(cmd, pver, payload); got != sig {
			t.Fatalf("VERIF-INFRA: classifier names %q for an input built as %q: %s", got, sig, hexShort(payload))
		}
		stream := wirefmt.Message(uint32(wire.MainNet), cmd, payload)
		n, msg, _, err := wire.ReadMessageWithEncodingN(bytes.NewReader(stream), pver, wire.MainNet, wire.BaseEncoding)
		if err != nil {
			recLenient.Count("now-rejected:"+sig, 1)
			return // the decoder is strict here: nothing to report
		}
		var w bytes.Buffer
		_, werr := wire.WriteMessageWithEncodingN(&w, msg, pver, wire.MainNet, wire.BaseEncoding)
		if werr == nil && bytes.Equal(w.Bytes(), stream[:n]) {
			recLenient.Count("identity-holds:"+sig, 1)
			return
		}
		obs := fmt.Sprintf("%s at pver %d: payload %s decodes without error but re-encodes (err=%v) to %s", cmd, pver, hexShort(payload), werr, hexShort(w.Bytes()[min(w.Len(), 24):]))
		if recLenient.Known(sig, knownObs) {
			recLenient.Excluded()
			return
		}
		t.Fatalf("decode->encode identity violated [%s]: %s", sig, obs)
	})
}
