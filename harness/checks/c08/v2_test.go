package c08

import (
	"bytes"
	"fmt"
	"testing"

	"github.com/btcsuite/btcd/wire/v2"
	"pgregory.net/rapid"

	"verif/internal/ev"
	"verif/internal/model/wirefmt"
)

// ---------------------------------------------------------------------------
// BIP324 (v2 transport) message contents: 1-byte short message type id, or
// 0x00 followed by the 12-byte NUL padded ASCII command, followed by the
// payload. The table below is copied from the "v2 Bitcoin P2P message
// structure" section of BIP324 (ids of messages btcd does not implement are
// listed as well: they must be refused as unknown, not mis-dispatched).

var bip324ShortIDs = map[byte]string{
	1: "addr", 2: "block", 3: "blocktxn", 4: "cmpctblock", 5: "feefilter", 6: "filteradd", 7: "filterclear",
	8: "filterload", 9: "getblocks", 10: "getblocktxn", 11: "getdata", 12: "getheaders", 13: "headers", 14: "inv",
	15: "mempool", 16: "merkleblock", 17: "notfound", 18: "ping", 19: "pong", 20: "sendcmpct", 21: "tx",
	22: "getcfilters", 23: "cfilter", 24: "getcfheaders", 25: "cfheaders", 26: "getcfcheckpt", 27: "cfcheckpt", 28: "addrv2",
}

func bip324IDOf(cmd string) (byte, bool) {
	for id, c := range bip324ShortIDs {
		if c == cmd {
			return id, true
		}
	}
	return 0, false
}

// v2Contents is the model encoder of the contents of one v2 packet.
func v2Contents(cmd string, payload []byte, forceLong bool) []byte {
	if id, ok := bip324IDOf(cmd); ok && !forceLong {
		return append([]byte{id}, payload...)
	}
	var c [12]byte
	copy(c[:], cmd)
	out := append([]byte{0}, c[:]...)
	return append(out, payload...)
}

var recV2 = ev.New("C08", "v2-contents",
	"a generated value of every message type (as in message-values) at the current protocol version x Base/Witness encoding, written with WriteV2MessageN; "+
		"oracle: the bytes equal the BIP324 contents layout (short id from the BIP's table, else 0x00 + 12-byte padded command, then the protocol payload of the independent layout model); "+
		"ReadV2MessageN of the short form AND of the long form (0x00 + command, legal for every command) gives back the same value and payload; "+
		"then hostile contents: every truncation of both forms, long-form prefixes of length 0..14, unknown/unassigned ids, mutated command bytes, random bytes - "+
		"each must return (message or error) without panicking and within the allocation bound; a truncation inside the 13-byte long-form header must be an error; "+
		"non-trivial = non-empty payload or hostile class other than plain truncation; distinct by (command, enc, contents)",
	"short-id", "long-form", "trunc-in-long-header", "trunc-in-payload", "unknown-id", "mutated-command", "random")

func readV2(what string, data []byte, pver uint32, enc wire.MessageEncoding) (wire.Message, []byte, outcome) {
	var msg wire.Message
	var pl []byte
	o := execute(true, what, data, func() error {
		var err error
		msg, pl, err = wire.ReadV2MessageN(data, pver, enc)
		return err
	})
	return msg, pl, o
}

func TestV2Contents(t *testing.T) {
	rapid.Check(t, func(t *rapid.T) {
		kind := rapid.SampledFrom(msgKinds).Draw(t, "kind")
		enc := genEnc(t)
		pver := uint32(wire.ProtocolVersion)
		v := genMessage(t, kind, pver, enc, true)
		e, defined := wirefmt.Payload(v.msg, pver, enc == wire.WitnessEncoding, v.v2)
		if !defined {
			kind = wire.CmdPing
			v = genMessage(t, kind, pver, enc, true)
			e, _ = wirefmt.Payload(v.msg, pver, false, nil)
		}
		payload := e.B
		_, hasID := bip324IDOf(kind)
		short := v2Contents(kind, payload, false)
		long := v2Contents(kind, payload, true)
		class := "long-form"
		if hasID {
			class = "short-id"
		}
		recV2.Case(len(payload) > 0, class, ev.Hash([]byte(kind), u32b(uint32(enc)), short), func() any {
			return fmt.Sprintf("%s enc=%d contents=%s", kind, enc, hexShort(short))
		})
		want := canon(v.msg, pver, enc)

		// write
		var w bytes.Buffer
		n, err := wire.WriteV2MessageN(&w, v.msg, pver, enc)
		if err != nil {
			t.Fatalf("%s: WriteV2MessageN failed on a value inside the protocol's domain: %v", kind, err)
		}
		if n != len(short) || !bytes.Equal(w.Bytes(), short) {
			t.Fatalf("%s enc %d: WriteV2MessageN (n=%d) differs from the BIP324 contents layout: %s", kind, enc, n, diffBytes(short, w.Bytes()))
		}

		// read both forms
		forms := [][]byte{short}
		if hasID {
			forms = append(forms, long)
			recV2.Count("long-form", 1)
		}
		for fi, data := range forms {
			what := fmt.Sprintf("ReadV2MessageN(%s form %d)", kind, fi)
			msg, pl, o := readV2(what, data, pver, enc)
			o.check(t, what, data)
			if kind == wire.CmdWTxIdRelay {
				// documented: wtxidrelay is not in makeEmptyMessage
				if o.err == nil && canon(msg, pver, enc) != want {
					t.Fatalf("wtxidrelay read back as %T", msg)
				}
				continue
			}
			if o.err != nil {
				t.Fatalf("%s: valid contents rejected: %v\n%s", what, o.err, hexShort(data))
			}
			if msg.Command() != kind {
				t.Fatalf("%s read back as command %q", what, msg.Command())
			}
			if !bytes.Equal(pl, payload) {
				t.Fatalf("%s returned a different payload: %s", what, diffBytes(payload, pl))
			}
			if got := canon(msg, pver, enc); got != want {
				t.Fatalf("%s: value read back differs: %s", what, firstDiff(want, got))
			}
		}

		// hostile contents
		probe := func(cls string, data []byte, mustErr bool) {
			recV2.Case(cls != "trunc-in-payload", cls, ev.Hash([]byte(cls), data), func() any {
				return fmt.Sprintf("%s: %s", cls, hexShort(data))
			})
			what := "ReadV2MessageN[" + cls + "]"
			_, _, o := readV2(what, data, pver, enc)
			o.check(t, what, data)
			if mustErr && o.err == nil {
				t.Fatalf("%s accepted contents that cannot hold a message\n%s", what, hexShort(data))
			}
		}
		// every truncation inside the long-form header (lengths 0..12 cannot hold 0x00 + command)
		for l := 0; l <= 12 && l < len(long); l++ {
			probe("trunc-in-long-header", long[:l], true)
		}
		// a few more long-form prefixes filled with generated bytes
		pre := rapid.SliceOfN(rapid.Byte(), 0, 14).Draw(t, "longPrefix")
		probe("trunc-in-long-header", append([]byte{0}, pre...), len(pre) < 12)
		// truncations of the payload (both forms)
		if len(payload) > 0 {
			cuts := []int{0, len(payload) - 1}
			if len(payload) > 2 {
				cuts = append(cuts, rapid.IntRange(1, len(payload)-1).Draw(t, "cut"))
			}
			for _, c := range cuts {
				probe("trunc-in-payload", short[:len(short)-len(payload)+c], false)
				probe("trunc-in-payload", long[:13+c], false)
			}
		}
		// unknown / unassigned short ids must be refused
		id := rapid.OneOf(rapid.SampledFrom([]byte{3, 4, 10, 20, 29, 30, 127, 128, 255}), rapid.ByteRange(29, 255)).Draw(t, "unknownID")
		probe("unknown-id", append([]byte{id}, payload...), true)
		// mutated command in the long form
		mut := append([]byte(nil), long...)
		mut[1+rapid.IntRange(0, 11).Draw(t, "cmdByte")] ^= 1 << rapid.IntRange(0, 7).Draw(t, "cmdBit")
		probe("mutated-command", mut, false)
		// random contents
		rnd := rapid.SliceOfN(rapid.Byte(), 0, 64).Draw(t, "random")
		probe("random", rnd, len(rnd) == 0)
	})
}
