package c08

// Value generators for every wire message type, transactions, blocks and
// headers. All randomness is drawn from rapid; bulk content (long scripts,
// thousands of list entries) is expanded deterministically from a drawn 64-bit
// seed so that big cases stay cheap and shrinkable.

import (
	"net"
	"time"

	"github.com/btcsuite/btcd/chainhash/v2"
	"github.com/btcsuite/btcd/wire/v2"
	"pgregory.net/rapid"

	"verif/internal/model/wirefmt"
)

// protocol versions on both sides of every layout / message-set change
var pvers = []uint32{0, 105, 106, 208, 209, 311, 31401, 31402, 31800, 59999, 60000, 60001, 60002,
	70000, 70001, 70002, 70010, 70011, 70012, 70013, 70014, 70015, 70016, 70017, 1 << 31}

var nets = []wire.BitcoinNet{wire.MainNet, wire.TestNet, wire.TestNet3, wire.TestNet4, wire.SigNet, wire.SimNet, 0, 0xffffffff}

func genPver(t *rapid.T) uint32 {
	if rapid.IntRange(0, 2).Draw(t, "pverLatest") == 0 {
		return wire.ProtocolVersion
	}
	return rapid.SampledFrom(pvers).Draw(t, "pver")
}

func genEnc(t *rapid.T) wire.MessageEncoding {
	return rapid.SampledFrom([]wire.MessageEncoding{wire.BaseEncoding, wire.WitnessEncoding}).Draw(t, "enc")
}

// xs is xorshift64* seeded from a rapid draw.
type xs uint64

func (x *xs) next() uint64 {
	v := uint64(*x)
	if v == 0 {
		v = 0x9e3779b97f4a7c15
	}
	v ^= v >> 12
	v ^= v << 25
	v ^= v >> 27
	*x = xs(v)
	return v * 0x2545f4914f6cdd1d
}

func (x *xs) fill(b []byte) {
	for i := 0; i < len(b); i += 8 {
		v := x.next()
		for j := 0; j < 8 && i+j < len(b); j++ {
			b[i+j] = byte(v >> (8 * j))
		}
	}
}

func newXS(t *rapid.T, label string) *xs {
	x := xs(rapid.Uint64().Draw(t, label))
	return &x
}

// genBytesN returns n bytes: drawn individually when short, expanded from a
// seed when long; sometimes nil instead of empty.
func genBytesN(t *rapid.T, label string, n int) []byte {
	if n == 0 {
		if rapid.Bool().Draw(t, label+"Nil") {
			return nil
		}
		return []byte{}
	}
	if n <= 24 {
		return rapid.SliceOfN(rapid.Byte(), n, n).Draw(t, label)
	}
	b := make([]byte, n)
	switch rapid.IntRange(0, 5).Draw(t, label+"Fill") {
	case 0:
		// all zero
	case 1:
		for i := range b {
			b[i] = 0xff
		}
	default:
		newXS(t, label+"Seed").fill(b)
	}
	return b
}

// count describes a drawn count and which boundary it sits on.
type count struct {
	n     int
	label string // zero one few varint limit-1 limit limit+1 mid
}

// genCount draws a count in [0, limit(+1)]: 0, 1, few, the CompactSize
// boundaries 252..254 and 65535/65536, limit-1, limit and (if over) limit+1.
// bigWeight controls how rare the expensive classes are (1 in bigWeight).
func genCount(t *rapid.T, label string, limit int, over bool, bigWeight int) count {
	k := rapid.IntRange(0, 11).Draw(t, label+"Class")
	big := rapid.IntRange(0, bigWeight-1).Draw(t, label+"Big") == 0
	cheap := limit <= 600
	switch {
	case k == 0:
		return count{0, "zero"}
	case k == 1:
		return count{min(1, limit), "one"}
	case k <= 5:
		return count{rapid.IntRange(min(2, limit), min(8, limit)).Draw(t, label+"Few"), "few"}
	case k == 6 && limit >= 254:
		return count{rapid.IntRange(252, 254).Draw(t, label+"VI"), "varint"}
	case k == 7 && (big || cheap):
		return count{limit - 1, "limit-1"}
	case k == 8 && (big || cheap):
		return count{limit, "limit"}
	case k == 9 && over && (big || cheap):
		return count{limit + 1, "limit+1"}
	case k == 10 && big && limit > 65536:
		return count{rapid.IntRange(65535, 65537).Draw(t, label+"VI4"), "varint"}
	}
	return count{rapid.IntRange(0, min(40, limit)).Draw(t, label+"Mid"), "mid"}
}

// genLen draws a byte-string length with the same boundary mixture.
func genLen(t *rapid.T, label string, limit int, over bool, bigWeight int) count {
	return genCount(t, label, limit, over, bigWeight)
}

func genHash(t *rapid.T, label string) chainhash.Hash {
	var h chainhash.Hash
	switch rapid.IntRange(0, 5).Draw(t, label+"Kind") {
	case 0:
	case 1:
		for i := range h {
			h[i] = 0xff
		}
	default:
		copy(h[:], rapid.SliceOfN(rapid.Byte(), 32, 32).Draw(t, label))
	}
	return h
}

func genU32(t *rapid.T, label string) uint32 {
	return rapid.OneOf(rapid.SampledFrom([]uint32{0, 1, 0xfc, 0xfd, 0xffff, 0x10000, 0x7fffffff, 0x80000000, 0xfffffffe, 0xffffffff}),
		rapid.Uint32()).Draw(t, label)
}

func genU64(t *rapid.T, label string) uint64 {
	return rapid.OneOf(rapid.SampledFrom([]uint64{0, 1, 0xfc, 0xfd, 0xffff, 0x10000, 0xffffffff, 0x100000000, 1 << 63, ^uint64(0)}),
		rapid.Uint64()).Draw(t, label)
}

// genTime32 draws a time whose unix seconds fit the 32-bit wire field,
// sometimes with a sub-second part (which the wire format drops).
func genTime32(t *rapid.T, label string) time.Time {
	s := int64(genU32(t, label))
	ns := int64(0)
	if rapid.IntRange(0, 3).Draw(t, label+"Sub") == 0 {
		ns = int64(rapid.IntRange(1, 999999999).Draw(t, label+"Ns"))
	}
	return time.Unix(s, ns)
}

func genTime64(t *rapid.T, label string) time.Time {
	s := rapid.OneOf(rapid.SampledFrom([]int64{0, 1, -1, 1231006505, 1 << 31, 1<<32 - 1, 1 << 32, -1 << 31, 1<<62 - 1, -(1 << 62)}),
		rapid.Int64Range(-(1<<62), 1<<62-1)).Draw(t, label)
	ns := int64(0)
	if rapid.IntRange(0, 3).Draw(t, label+"Sub") == 0 {
		ns = int64(rapid.IntRange(1, 999999999).Draw(t, label+"Ns"))
	}
	return time.Unix(s, ns)
}

func genIP(t *rapid.T, label string) net.IP {
	switch rapid.IntRange(0, 6).Draw(t, label+"Kind") {
	case 0:
		return nil
	case 1, 2:
		return net.IP(rapid.SliceOfN(rapid.Byte(), 4, 4).Draw(t, label+"V4"))
	case 3:
		ip := make(net.IP, 16)
		ip[10], ip[11] = 0xff, 0xff
		copy(ip[12:], rapid.SliceOfN(rapid.Byte(), 4, 4).Draw(t, label+"V4m"))
		return ip
	case 4:
		return net.IP(make([]byte, 16))
	}
	return net.IP(rapid.SliceOfN(rapid.Byte(), 16, 16).Draw(t, label+"V6"))
}

func genNetAddress(t *rapid.T, label string) *wire.NetAddress {
	return &wire.NetAddress{
		Timestamp: genTime32(t, label+"Time"),
		Services:  wire.ServiceFlag(genU64(t, label+"Svc")),
		IP:        genIP(t, label+"IP"),
		Port:      uint16(genU32(t, label+"Port")),
	}
}

func bulkNetAddress(x *xs) *wire.NetAddress {
	na := &wire.NetAddress{Timestamp: time.Unix(int64(uint32(x.next())), 0), Services: wire.ServiceFlag(x.next()), Port: uint16(x.next())}
	switch x.next() % 3 {
	case 0:
		na.IP = make(net.IP, 4)
	case 1:
		na.IP = make(net.IP, 16)
	}
	x.fill(na.IP)
	return na
}

// genAddrV2 draws raw address bytes for every shape NetAddressV2FromBytes
// understands and returns both btcd's value and the BIP155 entry it denotes.
func genAddrV2(t *rapid.T, label string, x *xs) (*wire.NetAddressV2, wirefmt.AddrV2) {
	var raw []byte
	var ts time.Time
	var svc uint64
	var port uint16
	kinds := []int{4, 16, 10, 32, -1, -2}
	if x != nil {
		k := kinds[x.next()%6]
		raw = bulkAddr(k, x)
		ts, svc, port = time.Unix(int64(uint32(x.next())), 0), x.next()>>(x.next()%64), uint16(x.next())
	} else {
		k := rapid.SampledFrom(kinds).Draw(t, label+"Kind")
		if k > 0 {
			raw = rapid.SliceOfN(rapid.Byte(), k, k).Draw(t, label+"Raw")
		} else {
			raw = bulkAddr(k, newXS(t, label+"Seed"))
		}
		ts, svc, port = genTime32(t, label+"Time"), genU64(t, label+"Svc"), uint16(genU32(t, label+"Port"))
	}
	want, ok := wirefmt.AddrV2FromBytes(ts, svc, raw, port)
	if !ok {
		panic("VERIF-INFRA: addrv2 generator produced an unsupported length")
	}
	return wire.NetAddressV2FromBytes(ts, wire.ServiceFlag(svc), raw, port), want
}

func bulkAddr(k int, x *xs) []byte {
	switch k {
	case -1: // IPv4-mapped IPv6
		b := make([]byte, 16)
		x.fill(b[12:])
		b[10], b[11] = 0xff, 0xff
		return b
	case -2: // OnionCat
		b := make([]byte, 16)
		x.fill(b)
		copy(b, []byte{0xfd, 0x87, 0xd8, 0x7e, 0xeb, 0x43})
		return b
	}
	b := make([]byte, k)
	x.fill(b)
	return b
}

// ---------------------------------------------------------------------------
// transactions / blocks

// scriptLen draws a script or witness item length: mostly short, with the
// CompactSize boundaries and rarely a 64 KiB-scale one.
func scriptLen(t *rapid.T, label string, allowBig bool) int {
	switch k := rapid.IntRange(0, 39).Draw(t, label+"Class"); {
	case k < 6:
		return 0
	case k < 28:
		return rapid.IntRange(1, 110).Draw(t, label)
	case k < 34:
		return rapid.IntRange(250, 256).Draw(t, label+"VI")
	case k < 38:
		return rapid.IntRange(111, 2000).Draw(t, label+"Mid")
	case k == 38 && allowBig:
		return rapid.IntRange(65534, 65538).Draw(t, label+"VI4")
	}
	return rapid.IntRange(0, 40).Draw(t, label+"S")
}

type txOpts struct {
	minIn    int  // 1 when the value must survive a BIP144 round trip
	allowBig bool // 64 KiB scripts / 253+ inputs
}

func genTx(t *rapid.T, label string, o txOpts) *wire.MsgTx {
	tx := &wire.MsgTx{
		Version:  int32(rapid.OneOf(rapid.SampledFrom([]uint32{1, 2, 0, 3, 0x7fffffff, 0x80000000, 0xffffffff}), rapid.Uint32()).Draw(t, label+"Ver")),
		LockTime: genU32(t, label+"Lock"),
	}
	bigBudget := 1
	nin := rapid.SampledFrom([]int{0, 1, 1, 1, 2, 2, 3, 5, 9}).Draw(t, label+"NIn")
	nout := rapid.SampledFrom([]int{0, 1, 1, 2, 2, 3, 5, 9}).Draw(t, label+"NOut")
	bulk := 0
	if o.allowBig {
		switch rapid.IntRange(0, 59).Draw(t, label+"Bulk") {
		case 0:
			nin, bulk = rapid.IntRange(252, 254).Draw(t, label+"NInVI"), 1
		case 1:
			nout, bulk = rapid.IntRange(252, 254).Draw(t, label+"NOutVI"), 2
		}
	}
	if nin < o.minIn {
		nin = o.minIn
	}
	witMode := rapid.IntRange(0, 3).Draw(t, label+"WitMode") // 0 none, 1 some inputs, 2/3 all inputs
	if nin > 0 || rapid.Bool().Draw(t, label+"InNil") {
		tx.TxIn = make([]*wire.TxIn, 0, nin)
	}
	var x *xs
	if bulk != 0 {
		x = newXS(t, label+"BulkSeed")
	}
	for i := 0; i < nin; i++ {
		in := &wire.TxIn{}
		if bulk == 1 {
			x.fill(in.PreviousOutPoint.Hash[:])
			in.PreviousOutPoint.Index = uint32(x.next())
			in.Sequence = uint32(x.next())
			in.SignatureScript = make([]byte, x.next()%4)
			x.fill(in.SignatureScript)
			if witMode >= 2 && x.next()%2 == 0 {
				in.Witness = wire.TxWitness{make([]byte, x.next()%3)}
			}
			tx.TxIn = append(tx.TxIn, in)
			continue
		}
		in.PreviousOutPoint.Hash = genHash(t, label+"PrevHash")
		in.PreviousOutPoint.Index = genU32(t, label+"PrevIdx")
		in.Sequence = genU32(t, label+"Seq")
		big := o.allowBig && bigBudget > 0
		n := scriptLen(t, label+"SigLen", big)
		if n > 60000 {
			bigBudget--
		}
		in.SignatureScript = genBytesN(t, label+"Sig", n)
		hasWit := witMode >= 2 || (witMode == 1 && rapid.Bool().Draw(t, label+"HasWit"))
		if hasWit {
			items := rapid.SampledFrom([]int{1, 1, 2, 2, 3, 4, 7}).Draw(t, label+"NWit")
			if o.allowBig && rapid.IntRange(0, 79).Draw(t, label+"WitVI") == 0 {
				items = rapid.IntRange(252, 254).Draw(t, label+"NWitVI")
			}
			for j := 0; j < items; j++ {
				var n int
				if items > 20 {
					n = j % 3
				} else {
					n = scriptLen(t, label+"WitLen", o.allowBig && bigBudget > 0)
					if n > 60000 {
						bigBudget--
					}
				}
				item := genBytesN(t, label+"WitItem", n)
				if item == nil {
					item = []byte{}
				}
				in.Witness = append(in.Witness, item)
			}
		} else if rapid.IntRange(0, 3).Draw(t, label+"WitEmpty") == 0 {
			in.Witness = wire.TxWitness{} // empty, non-nil stack == no witness
		}
		tx.TxIn = append(tx.TxIn, in)
	}
	if nout > 0 || rapid.Bool().Draw(t, label+"OutNil") {
		tx.TxOut = make([]*wire.TxOut, 0, nout)
	}
	for i := 0; i < nout; i++ {
		out := &wire.TxOut{}
		if bulk == 2 {
			out.Value = int64(x.next())
			out.PkScript = make([]byte, x.next()%4)
			x.fill(out.PkScript)
			tx.TxOut = append(tx.TxOut, out)
			continue
		}
		out.Value = int64(genU64(t, label+"Value"))
		n := scriptLen(t, label+"PkLen", o.allowBig && bigBudget > 0)
		if n > 60000 {
			bigBudget--
		}
		out.PkScript = genBytesN(t, label+"Pk", n)
		tx.TxOut = append(tx.TxOut, out)
	}
	return tx
}

func genHeader(t *rapid.T, label string) *wire.BlockHeader {
	return &wire.BlockHeader{
		Version:    int32(genU32(t, label+"Ver")),
		PrevBlock:  genHash(t, label+"Prev"),
		MerkleRoot: genHash(t, label+"Merkle"),
		Timestamp:  genTime32(t, label+"Time"),
		Bits:       genU32(t, label+"Bits"),
		Nonce:      genU32(t, label+"Nonce"),
	}
}

func bulkHeader(x *xs) *wire.BlockHeader {
	h := &wire.BlockHeader{Version: int32(x.next()), Timestamp: time.Unix(int64(uint32(x.next())), 0), Bits: uint32(x.next()), Nonce: uint32(x.next())}
	x.fill(h.PrevBlock[:])
	x.fill(h.MerkleRoot[:])
	return h
}

func genBlock(t *rapid.T, label string, o txOpts) *wire.MsgBlock {
	b := &wire.MsgBlock{Header: *genHeader(t, label+"Hdr")}
	n := rapid.SampledFrom([]int{0, 1, 1, 2, 3, 5}).Draw(t, label+"NTx")
	tiny := false
	if o.allowBig && rapid.IntRange(0, 49).Draw(t, label+"ManyTx") == 0 {
		n, tiny = rapid.IntRange(252, 254).Draw(t, label+"NTxVI"), true
	}
	if n > 0 || rapid.Bool().Draw(t, label+"TxNil") {
		b.Transactions = make([]*wire.MsgTx, 0, n)
	}
	var x *xs
	if tiny {
		x = newXS(t, label+"TinySeed")
	}
	for i := 0; i < n; i++ {
		if tiny {
			tx := &wire.MsgTx{Version: int32(x.next()), LockTime: uint32(x.next())}
			in := &wire.TxIn{Sequence: uint32(x.next())}
			x.fill(in.PreviousOutPoint.Hash[:])
			if x.next()%3 == 0 {
				in.Witness = wire.TxWitness{[]byte{byte(x.next())}}
			}
			tx.TxIn = []*wire.TxIn{in}
			tx.TxOut = []*wire.TxOut{{Value: int64(x.next() % 21e14), PkScript: []byte{0x51}}}
			b.Transactions = append(b.Transactions, tx)
			continue
		}
		b.Transactions = append(b.Transactions, genTx(t, label+"Tx", txOpts{minIn: o.minIn, allowBig: false}))
	}
	return b
}

// ---------------------------------------------------------------------------
// messages

// vcase is one generated message value.
type vcase struct {
	kind     string
	msg      wire.Message
	v2       []wirefmt.AddrV2 // BIP155 entries denoted by a MsgAddrV2
	boundary string           // label of the most interesting count/length
	nonEmpty bool             // some variable-length field is non-empty
}

func (v *vcase) note(c count) {
	rank := map[string]int{"": 0, "mid": 1, "few": 1, "one": 2, "zero": 3, "varint": 4, "limit-1": 5, "limit": 6, "limit+1": 7}
	if rank[c.label] > rank[v.boundary] {
		v.boundary = c.label
	}
	if c.n > 0 {
		v.nonEmpty = true
	}
}

func genInvList(t *rapid.T, v *vcase) []*wire.InvVect {
	c := genCount(t, "inv", wirefmt.MaxInv, true, 60)
	v.note(c)
	var list []*wire.InvVect
	if c.n > 0 || rapid.Bool().Draw(t, "invNil") {
		list = make([]*wire.InvVect, 0, c.n)
	}
	types := []wire.InvType{wire.InvTypeError, wire.InvTypeTx, wire.InvTypeBlock, wire.InvTypeFilteredBlock,
		wire.InvTypeWitnessBlock, wire.InvTypeWitnessTx, wire.InvTypeFilteredWitnessBlock, 4, 5, 0xffffffff}
	if c.n > 40 {
		x := newXS(t, "invSeed")
		for i := 0; i < c.n; i++ {
			iv := &wire.InvVect{Type: types[x.next()%uint64(len(types))]}
			x.fill(iv.Hash[:])
			list = append(list, iv)
		}
		return list
	}
	for i := 0; i < c.n; i++ {
		ty := rapid.OneOf(rapid.SampledFrom(types), rapid.Map(rapid.Uint32(), func(u uint32) wire.InvType { return wire.InvType(u) })).Draw(t, "invType")
		list = append(list, &wire.InvVect{Type: ty, Hash: genHash(t, "invHash")})
	}
	return list
}

func genHashList(t *rapid.T, label string, v *vcase, limit int, over bool, bigWeight int) []*chainhash.Hash {
	c := genCount(t, label, limit, over, bigWeight)
	v.note(c)
	var list []*chainhash.Hash
	if c.n > 0 || rapid.Bool().Draw(t, label+"Nil") {
		list = make([]*chainhash.Hash, 0, c.n)
	}
	if c.n > 40 {
		x := newXS(t, label+"Seed")
		for i := 0; i < c.n; i++ {
			h := new(chainhash.Hash)
			x.fill(h[:])
			list = append(list, h)
		}
		return list
	}
	for i := 0; i < c.n; i++ {
		h := genHash(t, label+"Hash")
		list = append(list, &h)
	}
	return list
}

func genString(t *rapid.T, label string, v *vcase, limit int, over bool, bigWeight int) string {
	c := genLen(t, label+"Len", limit, over, bigWeight)
	v.note(c)
	if c.n <= 24 && rapid.Bool().Draw(t, label+"Ascii") {
		return string(rapid.SliceOfN(rapid.SampledFrom([]byte("/Satoshi:0.1(btcwire)tx block\x00\xc3\xa9")), c.n, c.n).Draw(t, label))
	}
	return string(genBytesN(t, label, c.n))
}

// msgKinds lists every command btcd's makeEmptyMessage knows, plus wtxidrelay
// (encodes, but is read back as an unknown command).
var msgKinds = []string{
	wire.CmdVersion, wire.CmdVerAck, wire.CmdGetAddr, wire.CmdAddr, wire.CmdAddrV2, wire.CmdGetBlocks, wire.CmdInv,
	wire.CmdGetData, wire.CmdNotFound, wire.CmdBlock, wire.CmdTx, wire.CmdGetHeaders, wire.CmdHeaders, wire.CmdPing,
	wire.CmdPong, wire.CmdMemPool, wire.CmdFilterAdd, wire.CmdFilterClear, wire.CmdFilterLoad, wire.CmdMerkleBlock,
	wire.CmdReject, wire.CmdSendHeaders, wire.CmdFeeFilter, wire.CmdGetCFilters, wire.CmdGetCFHeaders,
	wire.CmdGetCFCheckpt, wire.CmdCFilter, wire.CmdCFHeaders, wire.CmdCFCheckpt, wire.CmdSendAddrV2, wire.CmdWTxIdRelay,
}

// newEmpty mirrors the documented command -> message type mapping.
func newEmpty(kind string) wire.Message {
	switch kind {
	case wire.CmdVersion:
		return &wire.MsgVersion{}
	case wire.CmdVerAck:
		return &wire.MsgVerAck{}
	case wire.CmdGetAddr:
		return &wire.MsgGetAddr{}
	case wire.CmdAddr:
		return &wire.MsgAddr{}
	case wire.CmdAddrV2:
		return &wire.MsgAddrV2{}
	case wire.CmdGetBlocks:
		return &wire.MsgGetBlocks{}
	case wire.CmdInv:
		return &wire.MsgInv{}
	case wire.CmdGetData:
		return &wire.MsgGetData{}
	case wire.CmdNotFound:
		return &wire.MsgNotFound{}
	case wire.CmdBlock:
		return &wire.MsgBlock{}
	case wire.CmdTx:
		return &wire.MsgTx{}
	case wire.CmdGetHeaders:
		return &wire.MsgGetHeaders{}
	case wire.CmdHeaders:
		return &wire.MsgHeaders{}
	case wire.CmdPing:
		return &wire.MsgPing{}
	case wire.CmdPong:
		return &wire.MsgPong{}
	case wire.CmdMemPool:
		return &wire.MsgMemPool{}
	case wire.CmdFilterAdd:
		return &wire.MsgFilterAdd{}
	case wire.CmdFilterClear:
		return &wire.MsgFilterClear{}
	case wire.CmdFilterLoad:
		return &wire.MsgFilterLoad{}
	case wire.CmdMerkleBlock:
		return &wire.MsgMerkleBlock{}
	case wire.CmdReject:
		return &wire.MsgReject{}
	case wire.CmdSendHeaders:
		return &wire.MsgSendHeaders{}
	case wire.CmdFeeFilter:
		return &wire.MsgFeeFilter{}
	case wire.CmdGetCFilters:
		return &wire.MsgGetCFilters{}
	case wire.CmdGetCFHeaders:
		return &wire.MsgGetCFHeaders{}
	case wire.CmdGetCFCheckpt:
		return &wire.MsgGetCFCheckpt{}
	case wire.CmdCFilter:
		return &wire.MsgCFilter{}
	case wire.CmdCFHeaders:
		return &wire.MsgCFHeaders{}
	case wire.CmdCFCheckpt:
		return &wire.MsgCFCheckpt{}
	case wire.CmdSendAddrV2:
		return &wire.MsgSendAddrV2{}
	case wire.CmdWTxIdRelay:
		return &wire.MsgWTxIdRelay{}
	}
	panic("VERIF-INFRA: unknown kind " + kind)
}

// genMessage draws a value of the given kind that lies in the protocol's
// domain at pver/enc - except for the labelled "limit+1" cases, which the
// encoder must refuse.
func genMessage(t *rapid.T, kind string, pver uint32, enc wire.MessageEncoding, small bool) *vcase {
	v := &vcase{kind: kind}
	bw := func(w int) int {
		if small {
			return 1 << 30 // never draw the expensive classes
		}
		return w
	}
	minIn := 0
	if enc == wire.WitnessEncoding {
		minIn = 1
	}
	switch kind {
	case wire.CmdVersion:
		m := &wire.MsgVersion{
			ProtocolVersion: int32(genU32(t, "verProto")),
			Services:        wire.ServiceFlag(genU64(t, "verSvc")),
			Timestamp:       genTime64(t, "verTime"),
			AddrYou:         *genNetAddress(t, "verYou"),
			AddrMe:          *genNetAddress(t, "verMe"),
			Nonce:           genU64(t, "verNonce"),
			LastBlock:       int32(genU32(t, "verLast")),
			DisableRelayTx:  rapid.Bool().Draw(t, "verNoRelay"),
		}
		m.UserAgent = genString(t, "verUA", v, wirefmt.MaxUserAgent, true, 1)
		v.msg = m
	case wire.CmdVerAck:
		v.msg = &wire.MsgVerAck{}
	case wire.CmdGetAddr:
		v.msg = &wire.MsgGetAddr{}
	case wire.CmdMemPool:
		v.msg = &wire.MsgMemPool{}
	case wire.CmdFilterClear:
		v.msg = &wire.MsgFilterClear{}
	case wire.CmdSendHeaders:
		v.msg = &wire.MsgSendHeaders{}
	case wire.CmdSendAddrV2:
		v.msg = &wire.MsgSendAddrV2{}
	case wire.CmdWTxIdRelay:
		v.msg = &wire.MsgWTxIdRelay{}
	case wire.CmdAddr:
		m := &wire.MsgAddr{}
		limit, over := wirefmt.MaxAddr, true
		if pver < wirefmt.PverMultiAddr {
			limit, over = 1, false // excluded: more than one entry before version 209
		}
		c := genCount(t, "addr", limit, over, bw(25))
		v.note(c)
		if c.n > 0 || rapid.Bool().Draw(t, "addrNil") {
			m.AddrList = make([]*wire.NetAddress, 0, c.n)
		}
		if c.n > 20 {
			x := newXS(t, "addrSeed")
			for i := 0; i < c.n; i++ {
				m.AddrList = append(m.AddrList, bulkNetAddress(x))
			}
		} else {
			for i := 0; i < c.n; i++ {
				m.AddrList = append(m.AddrList, genNetAddress(t, "addr"))
			}
		}
		v.msg = m
	case wire.CmdAddrV2:
		m := &wire.MsgAddrV2{}
		c := genCount(t, "addrv2", wirefmt.MaxAddr, true, bw(25))
		v.note(c)
		if c.n > 0 || rapid.Bool().Draw(t, "addrv2Nil") {
			m.AddrList = make([]*wire.NetAddressV2, 0, c.n)
		}
		var x *xs
		if c.n > 20 {
			x = newXS(t, "addrv2Seed")
		}
		for i := 0; i < c.n; i++ {
			na, want := genAddrV2(t, "addrv2", x)
			m.AddrList = append(m.AddrList, na)
			v.v2 = append(v.v2, want)
		}
		v.msg = m
	case wire.CmdInv:
		v.msg = &wire.MsgInv{InvList: genInvList(t, v)}
	case wire.CmdGetData:
		v.msg = &wire.MsgGetData{InvList: genInvList(t, v)}
	case wire.CmdNotFound:
		v.msg = &wire.MsgNotFound{InvList: genInvList(t, v)}
	case wire.CmdGetBlocks:
		// btcd accepts up to 500 locator hashes (Bitcoin Core: 101); the
		// generator stays inside btcd's documented limit
		v.msg = &wire.MsgGetBlocks{ProtocolVersion: genU32(t, "gbVer"),
			BlockLocatorHashes: genHashList(t, "gbLoc", v, wire.MaxBlockLocatorsPerMsg, false, 1), HashStop: genHash(t, "gbStop")}
	case wire.CmdGetHeaders:
		v.msg = &wire.MsgGetHeaders{ProtocolVersion: genU32(t, "ghVer"),
			BlockLocatorHashes: genHashList(t, "ghLoc", v, wire.MaxBlockLocatorsPerMsg, false, 1), HashStop: genHash(t, "ghStop")}
	case wire.CmdHeaders:
		m := &wire.MsgHeaders{}
		c := genCount(t, "headers", wirefmt.MaxHeaders, true, bw(20))
		v.note(c)
		if c.n > 0 || rapid.Bool().Draw(t, "headersNil") {
			m.Headers = make([]*wire.BlockHeader, 0, c.n)
		}
		if c.n > 20 {
			x := newXS(t, "headersSeed")
			for i := 0; i < c.n; i++ {
				m.Headers = append(m.Headers, bulkHeader(x))
			}
		} else {
			for i := 0; i < c.n; i++ {
				m.Headers = append(m.Headers, genHeader(t, "hdr"))
			}
		}
		v.msg = m
	case wire.CmdBlock:
		b := genBlock(t, "blk", txOpts{minIn: minIn, allowBig: !small})
		v.nonEmpty = len(b.Transactions) > 0
		v.msg = b
	case wire.CmdTx:
		tx := genTx(t, "tx", txOpts{minIn: minIn, allowBig: !small})
		v.nonEmpty = len(tx.TxIn)+len(tx.TxOut) > 0
		v.msg = tx
	case wire.CmdPing:
		v.msg = &wire.MsgPing{Nonce: genU64(t, "pingNonce")}
	case wire.CmdPong:
		v.msg = &wire.MsgPong{Nonce: genU64(t, "pongNonce")}
	case wire.CmdFeeFilter:
		v.msg = &wire.MsgFeeFilter{MinFee: int64(genU64(t, "minFee"))}
	case wire.CmdFilterAdd:
		c := genLen(t, "faddLen", wirefmt.MaxFilterAdd, true, 1)
		v.note(c)
		v.msg = &wire.MsgFilterAdd{Data: genBytesN(t, "fadd", c.n)}
	case wire.CmdFilterLoad:
		c := genLen(t, "floadLen", wirefmt.MaxFilterBytes, true, bw(4))
		v.note(c)
		hf := rapid.OneOf(rapid.Uint32Range(0, wirefmt.MaxFilterHashFunc), rapid.SampledFrom([]uint32{0, 1, 49, 50, 50, 51})).Draw(t, "floadHF")
		if hf > wirefmt.MaxFilterHashFunc {
			v.note(count{int(hf), "limit+1"})
		} else if hf == wirefmt.MaxFilterHashFunc {
			v.note(count{int(hf), "limit"})
		}
		v.msg = &wire.MsgFilterLoad{Filter: genBytesN(t, "fload", c.n), HashFuncs: hf, Tweak: genU32(t, "floadTweak"),
			Flags: wire.BloomUpdateType(rapid.Byte().Draw(t, "floadFlags"))}
	case wire.CmdMerkleBlock:
		m := &wire.MsgMerkleBlock{Header: *genHeader(t, "mbHdr"), Transactions: genU32(t, "mbTx")}
		// the hash list is bounded only by the message size; btcd's own
		// bound (maxTxPerBlock = 400001 hashes = 12.8 MB) cannot be
		// reached inside a 4 MB message and is not generated
		m.Hashes = genHashList(t, "mbHash", v, 3000, false, bw(30))
		c := genLen(t, "mbFlagsLen", 50000, false, bw(20)) // btcd: maxFlagsPerMerkleBlock = 400001/8
		v.note(c)
		m.Flags = genBytesN(t, "mbFlags", c.n)
		v.msg = m
	case wire.CmdReject:
		m := &wire.MsgReject{Code: wire.RejectCode(rapid.Byte().Draw(t, "rejCode")), Hash: genHash(t, "rejHash")}
		switch rapid.IntRange(0, 5).Draw(t, "rejCmdKind") {
		case 0:
			m.Cmd = wire.CmdTx
		case 1:
			m.Cmd = wire.CmdBlock
		case 2:
			m.Cmd = rapid.SampledFrom(msgKinds).Draw(t, "rejCmdKnown")
		default:
			m.Cmd = genString(t, "rejCmd", v, 70000, false, bw(40))
		}
		m.Reason = genString(t, "rejReason", v, 70000, false, bw(40))
		v.nonEmpty = len(m.Cmd)+len(m.Reason) > 0
		v.msg = m
	case wire.CmdGetCFilters:
		v.msg = &wire.MsgGetCFilters{FilterType: wire.FilterType(rapid.Byte().Draw(t, "ft")), StartHeight: genU32(t, "start"), StopHash: genHash(t, "stop")}
	case wire.CmdGetCFHeaders:
		v.msg = &wire.MsgGetCFHeaders{FilterType: wire.FilterType(rapid.Byte().Draw(t, "ft")), StartHeight: genU32(t, "start"), StopHash: genHash(t, "stop")}
	case wire.CmdGetCFCheckpt:
		v.msg = &wire.MsgGetCFCheckpt{FilterType: wire.FilterType(rapid.Byte().Draw(t, "ft")), StopHash: genHash(t, "stop")}
	case wire.CmdCFilter:
		c := genLen(t, "cfLen", wire.MaxCFilterDataSize, false, bw(30)) // limit is btcd's (BIP157 names none)
		v.note(c)
		v.msg = &wire.MsgCFilter{FilterType: wire.FilterType(rapid.Byte().Draw(t, "ft")), BlockHash: genHash(t, "cfBlock"), Data: genBytesN(t, "cfData", c.n)}
	case wire.CmdCFHeaders:
		v.msg = &wire.MsgCFHeaders{FilterType: wire.FilterType(rapid.Byte().Draw(t, "ft")), StopHash: genHash(t, "stop"),
			PrevFilterHeader: genHash(t, "prev"), FilterHashes: genHashList(t, "cfh", v, wirefmt.MaxCFHeaders, true, bw(20))}
	case wire.CmdCFCheckpt:
		v.msg = &wire.MsgCFCheckpt{FilterType: wire.FilterType(rapid.Byte().Draw(t, "ft")), StopHash: genHash(t, "stop"),
			FilterHeaders: genHashList(t, "cfc", v, 100000, false, bw(150))} // btcd: maxCFHeadersLen
	default:
		panic("VERIF-INFRA: no generator for " + kind)
	}
	return v
}
