package c08

// Property C08, sub-check (a): value round trips against the independent
// byte-layout model, sizes, identifiers, message framing.

import (
	"bytes"
	"encoding/binary"
	"encoding/hex"
	"fmt"
	"os"
	"path/filepath"
	"strings"
	"testing"
	"time"

	"github.com/btcsuite/btcd/btcutil/v2"
	"github.com/btcsuite/btcd/chainhash/v2"
	"github.com/btcsuite/btcd/wire/v2"
	"pgregory.net/rapid"

	"verif/internal/ev"
	"verif/internal/model/wirefmt"
)

// TB is what the oracles need from *rapid.T / *testing.T.
type TB interface {
	Fatalf(format string, args ...any)
}

func u32b(v uint32) []byte { return binary.LittleEndian.AppendUint32(nil, v) }

// ---------------------------------------------------------------------------
// model self-check (a failure here is a harness problem, not a violation)

func mustHex(s string) []byte {
	b, err := hex.DecodeString(strings.ReplaceAll(s, " ", ""))
	if err != nil {
		panic(err)
	}
	return b
}

func revHex(h chainhash.Hash) string {
	var r [32]byte
	for i := range h {
		r[31-i] = h[i]
	}
	return hex.EncodeToString(r[:])
}

func TestModelSelfCheck(t *testing.T) {
	infra := func(format string, a ...any) { t.Fatalf("VERIF-INFRA: wirefmt model self-check: "+format, a...) }
	// CompactSize examples from the protocol documentation
	for _, c := range []struct {
		v uint64
		h string
	}{{0, "00"}, {252, "fc"}, {253, "fdfd00"}, {515, "fd0302"}, {65535, "fdffff"}, {65536, "fe00000100"},
		{4294967295, "feffffffff"}, {4294967296, "ff0000000001000000"}, {^uint64(0), "ffffffffffffffffff"}} {
		if got := hex.EncodeToString(wirefmt.AppendVarInt(nil, c.v)); got != c.h {
			infra("varint(%d) = %s want %s", c.v, got, c.h)
		}
		v, n, ok := wirefmt.ReadVarInt(mustHex(c.h))
		if !ok || v != c.v || n != len(c.h)/2 {
			infra("ReadVarInt(%s) = %d,%d,%v", c.h, v, n, ok)
		}
		for _, nc := range wirefmt.NonCanonicalVarInts(c.v) {
			if _, _, ok := wirefmt.ReadVarInt(nc); ok {
				infra("non-canonical %x accepted by the model parser", nc)
			}
		}
	}
	// the verack message of the protocol documentation (main network)
	if got := hex.EncodeToString(wirefmt.Message(0xd9b4bef9, "verack", nil)); got != "f9beb4d976657261636b000000000000000000005df6e0e2" {
		infra("verack frame = %s", got)
	}
	// genesis block: header hash, coinbase txid = merkle root
	gen := &wire.BlockHeader{Version: 1, Timestamp: time.Unix(1231006505, 0), Bits: 0x1d00ffff, Nonce: 2083236893}
	copy(gen.MerkleRoot[:], mustHex("3ba3edfd7a7b12b27ac72c3e67768f617fc81bc3888a51323a9fb8aa4b1e5e4a"))
	if got := revHex(wirefmt.BlockID(gen)); got != "000000000019d6689c085ae165831e934ff763ae46a2a6c172b3f1b60a8ce26f" {
		infra("genesis block id = %s", got)
	}
	cb := &wire.MsgTx{Version: 1, TxIn: []*wire.TxIn{{PreviousOutPoint: wire.OutPoint{Index: 0xffffffff}, Sequence: 0xffffffff,
		SignatureScript: mustHex("04ffff001d0104455468652054696d65732030332f4a616e2f32303039204368616e63656c6c6f72206f6e206272696e6b206f66207365636f6e64206261696c6f757420666f722062616e6b73")}},
		TxOut: []*wire.TxOut{{Value: 5000000000, PkScript: mustHex("4104678afdb0fe5548271967f1a67130b7105cd6a828e03909a67962e0ea1f61deb649f6bc3f4cef38c4f35504e51ec112de5c384df7ba0b8d578a4c702b6bf11d5fac")}}}
	if wirefmt.TxID(cb) != gen.MerkleRoot {
		infra("genesis coinbase txid = %s", revHex(wirefmt.TxID(cb)))
	}
	// a real segwit block (copied from the repository's test data at build
	// time): model parser + encoder reproduce the file, the header hash is
	// the file name, the merkle root of model txids is the header's root and
	// the merkle root of model wtxids matches the coinbase commitment
	// (BIP141) - this calibrates TxID/WTxID/BIP144 without btcd's decoder.
	dir := os.Getenv("VERIF_PKGDIR")
	if dir == "" {
		dir = "."
	}
	files, _ := filepath.Glob(filepath.Join(dir, "testdata", "block-*.blk"))
	if len(files) == 0 {
		infra("calibration block missing under %s/testdata", dir)
	}
	for _, f := range files {
		raw, err := os.ReadFile(f)
		if err != nil {
			infra("%v", err)
		}
		blk, ok := wirefmt.ParseBlock(raw, true)
		if !ok {
			infra("model parser rejects %s", f)
		}
		if !bytes.Equal(wirefmt.BlockBytes(blk, true), raw) {
			infra("model re-encoding of %s differs", f)
		}
		name := strings.TrimSuffix(strings.TrimPrefix(filepath.Base(f), "block-"), ".blk")
		if revHex(wirefmt.BlockID(&blk.Header)) != name {
			infra("block id %s != file name %s", revHex(wirefmt.BlockID(&blk.Header)), name)
		}
		var ids, wids []chainhash.Hash
		nwit := 0
		for i, tx := range blk.Transactions {
			ids = append(ids, wirefmt.TxID(tx))
			if i == 0 {
				wids = append(wids, chainhash.Hash{})
			} else {
				wids = append(wids, wirefmt.WTxID(tx))
			}
			if wirefmt.HasWitness(tx) {
				nwit++
			}
		}
		if wirefmt.MerkleRoot(ids) != blk.Header.MerkleRoot {
			infra("merkle root of model txids differs from the header of %s", f)
		}
		wroot := wirefmt.MerkleRoot(wids)
		cbtx := blk.Transactions[0]
		if len(cbtx.TxIn) != 1 || len(cbtx.TxIn[0].Witness) != 1 || len(cbtx.TxIn[0].Witness[0]) != 32 {
			infra("coinbase of %s has no witness reserved value", f)
		}
		commit := wirefmt.DSHA256(append(append([]byte{}, wroot[:]...), cbtx.TxIn[0].Witness[0]...))
		found := false
		for _, out := range cbtx.TxOut {
			if len(out.PkScript) >= 38 && bytes.Equal(out.PkScript[:6], []byte{0x6a, 0x24, 0xaa, 0x21, 0xa9, 0xed}) && bytes.Equal(out.PkScript[6:38], commit[:]) {
				found = true
			}
		}
		if !found || nwit == 0 {
			infra("witness commitment computed from model wtxids not found in the coinbase of %s (witness txs: %d)", f, nwit)
		}
	}
	// version shape parser on the model's own output
	v := &wire.MsgVersion{UserAgent: "/x/"}
	e, _ := wirefmt.Payload(v, 70016, false, nil)
	if s := wirefmt.ParseVersionShape(e.B); s.EndsAt != "relay" || s.RelayByte != 1 {
		infra("version shape %+v", s)
	}
	if s := wirefmt.ParseVersionShape(e.B[:46]); s.EndsAt != "addr_recv" {
		infra("version shape %+v", s)
	}
}

// ---------------------------------------------------------------------------
// (a) message values

var recValues = ev.New("C08", "message-values",
	"a value of every message type (31 commands) with counts/lengths from {0,1,few,CompactSize boundaries,limit-1,limit,limit+1}, "+
		"x protocol version on both sides of every layout change x Base/Witness encoding x network magic; "+
		"oracle: BtcEncode bytes == independent layout model, decode gives a semantically equal value, re-encode identical, "+
		"WriteMessageWithEncodingN == model frame, ReadMessageWithEncodingN round trip, values the protocol does not define (version gate, limit+1) are refused; "+
		"non-trivial = some variable-length field non-empty or a count on a boundary; distinct by (command,pver,enc,payload)",
	append(append([]string{}, msgKinds...), "b:zero", "b:one", "b:varint", "b:limit-1", "b:limit", "b:limit+1", "undefined-at-pver")...)

func encodeBoth(t TB, v *vcase, pver uint32, enc wire.MessageEncoding) ([]byte, bool) {
	wit := enc == wire.WitnessEncoding
	e, defined := wirefmt.Payload(v.msg, pver, wit, v.v2)
	var buf bytes.Buffer
	err := v.msg.BtcEncode(&buf, pver, enc)
	if !defined {
		if err == nil {
			t.Fatalf("%s at pver %d: BtcEncode accepted a value the protocol does not define there (version gate or count/length above the limit); produced %d bytes\nvalue: %.600s",
				v.kind, pver, buf.Len(), canon(v.msg, pver, enc))
		}
		return e.B, false
	}
	if err != nil {
		t.Fatalf("%s at pver %d enc %d: BtcEncode failed on a value inside the protocol's domain: %v\nvalue: %.600s", v.kind, pver, enc, err, canon(v.msg, pver, enc))
	}
	if !bytes.Equal(buf.Bytes(), e.B) {
		t.Fatalf("%s at pver %d enc %d: encoded bytes differ from the protocol layout: %s\nvalue: %.600s", v.kind, pver, enc, diffBytes(e.B, buf.Bytes()), canon(v.msg, pver, enc))
	}
	return e.B, true
}

func checkValue(t TB, v *vcase, pver uint32, enc wire.MessageEncoding, net wire.BitcoinNet, junk []byte) {
	want := canon(v.msg, pver, enc)
	payload, defined := encodeBoth(t, v, pver, enc)
	if !defined {
		var w bytes.Buffer
		if _, err := wire.WriteMessageWithEncodingN(&w, v.msg, pver, net, enc); err == nil {
			t.Fatalf("%s at pver %d: WriteMessageWithEncodingN accepted an undefined value", v.kind, pver)
		}
		return
	}
	// decode
	fresh := newEmpty(v.kind)
	rb := bytes.NewBuffer(append([]byte(nil), payload...))
	if err := fresh.BtcDecode(rb, pver, enc); err != nil {
		t.Fatalf("%s at pver %d enc %d: BtcDecode of its own valid encoding failed: %v\npayload %s", v.kind, pver, enc, err, hexShort(payload))
	}
	if rb.Len() != 0 {
		t.Fatalf("%s at pver %d: BtcDecode left %d of %d bytes unread", v.kind, pver, rb.Len(), len(payload))
	}
	if got := canon(fresh, pver, enc); got != want {
		t.Fatalf("%s at pver %d enc %d: decoded value differs from the encoded one: %s", v.kind, pver, enc, firstDiff(want, got))
	}
	var buf2 bytes.Buffer
	if err := fresh.BtcEncode(&buf2, pver, enc); err != nil || !bytes.Equal(buf2.Bytes(), payload) {
		t.Fatalf("%s at pver %d: re-encoding the decoded value: err=%v %s", v.kind, pver, err, diffBytes(payload, buf2.Bytes()))
	}
	// a receiver that is used again (a message object kept across reads) holds the value of the LAST decode
	if err := fresh.BtcDecode(bytes.NewBuffer(append([]byte(nil), payload...)), pver, enc); err != nil {
		t.Fatalf("%s at pver %d enc %d: second BtcDecode into the same receiver failed: %v", v.kind, pver, enc, err)
	}
	if got := canon(fresh, pver, enc); got != want {
		t.Fatalf("%s at pver %d enc %d: a second BtcDecode into the same receiver gives a value that differs from the encoded one: %s", v.kind, pver, enc, firstDiff(want, got))
	}
	// framing
	frame := wirefmt.Message(uint32(net), v.kind, payload)
	var w bytes.Buffer
	n, err := wire.WriteMessageWithEncodingN(&w, v.msg, pver, net, enc)
	if err != nil {
		t.Fatalf("%s at pver %d: WriteMessageWithEncodingN failed for a %d byte payload: %v", v.kind, pver, len(payload), err)
	}
	if n != len(frame) || !bytes.Equal(w.Bytes(), frame) {
		t.Fatalf("%s at pver %d net %#x: written message (n=%d) differs from header||payload of the protocol: %s", v.kind, pver, uint32(net), n, diffBytes(frame, w.Bytes()))
	}
	stream := append(append([]byte(nil), frame...), junk...)
	rn, rmsg, rpayload, err := wire.ReadMessageWithEncodingN(bytes.NewReader(stream), pver, net, enc)
	if v.kind == wire.CmdWTxIdRelay {
		// documented: wtxidrelay is not in makeEmptyMessage; it can be
		// written but is read back as an unknown command
		if err == nil && canon(rmsg, pver, enc) != want {
			t.Fatalf("wtxidrelay read back as %T", rmsg)
		}
		return
	}
	if err != nil {
		t.Fatalf("%s at pver %d enc %d: ReadMessageWithEncodingN rejected the message it wrote: %v", v.kind, pver, enc, err)
	}
	if rn != len(frame) {
		t.Fatalf("%s: ReadMessageWithEncodingN reports %d bytes read, message is %d bytes (stream had %d trailing bytes)", v.kind, rn, len(frame), len(junk))
	}
	if !bytes.Equal(rpayload, payload) {
		t.Fatalf("%s: ReadMessageWithEncodingN returned a different payload: %s", v.kind, diffBytes(payload, rpayload))
	}
	if rmsg.Command() != v.kind {
		t.Fatalf("%s read back as command %q", v.kind, rmsg.Command())
	}
	if got := canon(rmsg, pver, enc); got != want {
		t.Fatalf("%s at pver %d: value read back through the message layer differs: %s", v.kind, pver, firstDiff(want, got))
	}
}

func TestMessageValues(t *testing.T) {
	rapid.Check(t, func(t *rapid.T) {
		kind := rapid.SampledFrom(msgKinds).Draw(t, "kind")
		pver := genPver(t)
		enc := genEnc(t)
		net := rapid.SampledFrom(nets).Draw(t, "net")
		v := genMessage(t, kind, pver, enc, false)
		junk := rapid.SliceOfN(rapid.Byte(), 0, 3).Draw(t, "trailing")
		e, defined := wirefmt.Payload(v.msg, pver, enc == wire.WitnessEncoding, v.v2)
		nt := v.nonEmpty || v.boundary == "zero" || v.boundary == "limit" || v.boundary == "limit-1" || v.boundary == "limit+1" || v.boundary == "varint"
		recValues.Case(nt, kind, ev.Hash([]byte(kind), u32b(pver), u32b(uint32(enc)), e.B), func() any {
			return fmt.Sprintf("%s pver=%d enc=%d boundary=%s payload=%s", kind, pver, enc, v.boundary, hexShort(e.B))
		})
		if v.boundary != "" {
			recValues.Count("b:"+v.boundary, 1)
		}
		if !defined {
			recValues.Count("undefined-at-pver", 1)
		}
		checkValue(t, v, pver, enc, net, junk)
	})
}

// ---------------------------------------------------------------------------
// (a) transactions, blocks, headers: sizes and identifiers

var recTx = ev.New("C08", "tx-block-values",
	"transactions (0..254 inputs/outputs, script and witness item lengths on CompactSize boundaries up to 64 KiB, empty/absent/mixed witnesses), "+
		"blocks (0..254 transactions) and headers; oracle: Serialize/SerializeNoWitness == model BIP144/legacy layout, SerializeSize/SerializeSizeStripped == "+
		"produced lengths (also per TxIn/TxOut/TxWitness), TxHash/WitnessHash/BlockHash == double-SHA256 over the model bytes and unchanged by a round trip, "+
		"btcutil.NewTxFromBytes/NewBlockFromBytes agree, DeserializeTxLoc offsets locate the model bytes; zero-input transactions are only round-tripped in the legacy layout; "+
		"non-trivial = at least one input or output or transaction; distinct by serialized bytes",
	"tx", "tx-witness", "tx-mixed-witness", "tx-zero-inputs", "block", "block-empty", "header")

func checkTxValue(t TB, tx *wire.MsgTx) {
	wbytes := wirefmt.TxBytes(tx, true)
	bbytes := wirefmt.TxBytes(tx, false)
	var w, b bytes.Buffer
	if err := tx.Serialize(&w); err != nil {
		t.Fatalf("Serialize: %v", err)
	}
	if err := tx.SerializeNoWitness(&b); err != nil {
		t.Fatalf("SerializeNoWitness: %v", err)
	}
	desc := func() string { return fmt.Sprintf("%.900s", canon(tx, 0, wire.WitnessEncoding)) }
	if !bytes.Equal(w.Bytes(), wbytes) {
		t.Fatalf("Serialize differs from the BIP144 layout: %s\ntx: %s", diffBytes(wbytes, w.Bytes()), desc())
	}
	if !bytes.Equal(b.Bytes(), bbytes) {
		t.Fatalf("SerializeNoWitness differs from the legacy layout: %s\ntx: %s", diffBytes(bbytes, b.Bytes()), desc())
	}
	if got := tx.SerializeSize(); got != len(wbytes) {
		t.Fatalf("SerializeSize() = %d, serialization has %d bytes\ntx: %s", got, len(wbytes), desc())
	}
	if got := tx.SerializeSizeStripped(); got != len(bbytes) {
		t.Fatalf("SerializeSizeStripped() = %d, stripped serialization has %d bytes\ntx: %s", got, len(bbytes), desc())
	}
	for i, in := range tx.TxIn {
		if want := 32 + 4 + wirefmt.VarIntLen(uint64(len(in.SignatureScript))) + len(in.SignatureScript) + 4; in.SerializeSize() != want {
			t.Fatalf("TxIn[%d].SerializeSize() = %d want %d", i, in.SerializeSize(), want)
		}
		want := wirefmt.VarIntLen(uint64(len(in.Witness)))
		for _, it := range in.Witness {
			want += wirefmt.VarIntLen(uint64(len(it))) + len(it)
		}
		if in.Witness.SerializeSize() != want {
			t.Fatalf("TxIn[%d].Witness.SerializeSize() = %d want %d", i, in.Witness.SerializeSize(), want)
		}
	}
	for i, out := range tx.TxOut {
		if want := 8 + wirefmt.VarIntLen(uint64(len(out.PkScript))) + len(out.PkScript); out.SerializeSize() != want {
			t.Fatalf("TxOut[%d].SerializeSize() = %d want %d", i, out.SerializeSize(), want)
		}
	}
	// the standalone output codec (WriteTxOut / ReadTxOut, used by psbt and the taproot sighash
	// code): every output is written, read back and KEPT while further outputs and the whole
	// transaction are decoded; a decoded value must stay what it was decoded to
	{
		idxs := make([]int, 0, 10)
		for i := range tx.TxOut {
			if i < 8 || i >= len(tx.TxOut)-2 {
				idxs = append(idxs, i)
			}
		}
		kept := make([]*wire.TxOut, len(idxs))
		for k, i := range idxs {
			out := tx.TxOut[i]
			want := binary.LittleEndian.AppendUint64(nil, uint64(out.Value))
			want = wirefmt.AppendVarInt(want, uint64(len(out.PkScript)))
			want = append(want, out.PkScript...)
			var ob bytes.Buffer
			if err := wire.WriteTxOut(&ob, 0, tx.Version, out); err != nil || !bytes.Equal(ob.Bytes(), want) {
				t.Fatalf("WriteTxOut(TxOut[%d]): err=%v %s", i, err, diffBytes(want, ob.Bytes()))
			}
			back := &wire.TxOut{}
			if err := wire.ReadTxOut(bytes.NewReader(want), 0, tx.Version, back); err != nil {
				t.Fatalf("ReadTxOut of the encoding of TxOut[%d] failed: %v", i, err)
			}
			kept[k] = back
		}
		if len(tx.TxIn) > 0 { // (a transaction without inputs has no witness-layout decoding, see the plan)
			var again wire.MsgTx
			if err := again.Deserialize(bytes.NewReader(wbytes)); err != nil {
				t.Fatalf("Deserialize of its own serialization failed: %v\ntx: %s", err, desc())
			}
		}
		for k, i := range idxs {
			if kept[k].Value != tx.TxOut[i].Value || !bytes.Equal(kept[k].PkScript, tx.TxOut[i].PkScript) {
				t.Fatalf("the output decoded by ReadTxOut from the encoding of TxOut[%d] is no longer equal to it after %d later decodes: value %d script %s, encoded value %d script %s",
					i, len(idxs)-k, kept[k].Value, hexShort(kept[k].PkScript), tx.TxOut[i].Value, hexShort(tx.TxOut[i].PkScript))
			}
		}
	}
	if tx.HasWitness() != wirefmt.HasWitness(tx) {
		t.Fatalf("HasWitness() = %v", tx.HasWitness())
	}
	txid, wtxid := chainhash.Hash(wirefmt.DSHA256(bbytes)), chainhash.Hash(wirefmt.DSHA256(wbytes))
	if got := tx.TxHash(); got != txid {
		t.Fatalf("TxHash() = %s, double-SHA256 of the legacy layout = %s\ntx: %s", got, txid, desc())
	}
	if got := tx.WitnessHash(); got != wtxid {
		t.Fatalf("WitnessHash() = %s, double-SHA256 of the BIP144 layout = %s\ntx: %s", got, wtxid, desc())
	}
	if tx.TxID() != revHex(txid) {
		t.Fatalf("TxID() = %s want %s", tx.TxID(), revHex(txid))
	}
	// legacy round trip
	var d wire.MsgTx
	if err := d.DeserializeNoWitness(bytes.NewReader(bbytes)); err != nil {
		t.Fatalf("DeserializeNoWitness of a valid legacy encoding: %v\n%s", err, hexShort(bbytes))
	}
	if want, got := canon(tx, 0, wire.BaseEncoding), canon(&d, 0, wire.BaseEncoding); want != got || wirefmt.HasWitness(&d) {
		t.Fatalf("legacy round trip changed the transaction (witness after decode: %v): %s", wirefmt.HasWitness(&d), firstDiff(want, got))
	}
	if d.TxHash() != txid {
		t.Fatalf("TxHash changed by a legacy round trip: %s -> %s", txid, d.TxHash())
	}
	if len(tx.TxIn) == 0 {
		return // BIP144 cannot represent a transaction without inputs (0x00 is the marker)
	}
	var dw wire.MsgTx
	r := bytes.NewReader(wbytes)
	if err := dw.Deserialize(r); err != nil || r.Len() != 0 {
		t.Fatalf("Deserialize of a valid BIP144 encoding: err=%v unread=%d\n%s", err, r.Len(), hexShort(wbytes))
	}
	if want, got := canon(tx, 0, wire.WitnessEncoding), canon(&dw, 0, wire.WitnessEncoding); want != got {
		t.Fatalf("BIP144 round trip changed the transaction: %s", firstDiff(want, got))
	}
	if dw.TxHash() != txid || dw.WitnessHash() != wtxid {
		t.Fatalf("identifiers changed by a round trip: txid %s -> %s, wtxid %s -> %s", txid, dw.TxHash(), wtxid, dw.WitnessHash())
	}
	if dw.SerializeSize() != len(wbytes) || dw.SerializeSizeStripped() != len(bbytes) {
		t.Fatalf("sizes of the decoded transaction: %d/%d want %d/%d", dw.SerializeSize(), dw.SerializeSizeStripped(), len(wbytes), len(bbytes))
	}
	utx, err := btcutil.NewTxFromBytes(wbytes)
	if err != nil {
		t.Fatalf("btcutil.NewTxFromBytes: %v", err)
	}
	if *utx.Hash() != txid || *utx.WitnessHash() != wtxid || utx.HasWitness() != wirefmt.HasWitness(tx) {
		t.Fatalf("btcutil.Tx identifiers: hash %s wtxid %s haswitness %v; want %s %s %v", utx.Hash(), utx.WitnessHash(), utx.HasWitness(), txid, wtxid, wirefmt.HasWitness(tx))
	}
	if want, got := canon(tx, 0, wire.WitnessEncoding), canon(utx.MsgTx(), 0, wire.WitnessEncoding); want != got {
		t.Fatalf("btcutil.NewTxFromBytes value: %s", firstDiff(want, got))
	}
	if _, err := btcutil.NewTxFromBytes(append(append([]byte(nil), wbytes...), 0)); err == nil {
		t.Fatalf("btcutil.NewTxFromBytes accepted a trailing byte")
	}
}

func checkHeaderValue(t TB, h *wire.BlockHeader) {
	want := wirefmt.HeaderBytes(h)
	var b1, b2 bytes.Buffer
	if err := h.Serialize(&b1); err != nil || !bytes.Equal(b1.Bytes(), want) {
		t.Fatalf("BlockHeader.Serialize: err=%v %s", err, diffBytes(want, b1.Bytes()))
	}
	if err := h.BtcEncode(&b2, wire.ProtocolVersion, wire.BaseEncoding); err != nil || !bytes.Equal(b2.Bytes(), want) {
		t.Fatalf("BlockHeader.BtcEncode: err=%v %s", err, diffBytes(want, b2.Bytes()))
	}
	id := chainhash.Hash(wirefmt.DSHA256(want))
	if h.BlockHash() != id {
		t.Fatalf("BlockHash() = %s, double-SHA256 of the 80 byte header = %s", h.BlockHash(), id)
	}
	var d wire.BlockHeader
	r := bytes.NewReader(want)
	if err := d.Deserialize(r); err != nil || r.Len() != 0 {
		t.Fatalf("BlockHeader.Deserialize: %v (unread %d)", err, r.Len())
	}
	c1, c2 := &cb{}, &cb{}
	c1.header(h)
	c2.header(&d)
	if c1.String() != c2.String() || d.BlockHash() != id {
		t.Fatalf("header round trip: %s -> %s (hash %s -> %s)", c1.String(), c2.String(), id, d.BlockHash())
	}
}

func checkBlockValue(t TB, blk *wire.MsgBlock) {
	wbytes := wirefmt.BlockBytes(blk, true)
	bbytes := wirefmt.BlockBytes(blk, false)
	var w, b bytes.Buffer
	if err := blk.Serialize(&w); err != nil || !bytes.Equal(w.Bytes(), wbytes) {
		t.Fatalf("MsgBlock.Serialize: err=%v %s", err, diffBytes(wbytes, w.Bytes()))
	}
	if err := blk.SerializeNoWitness(&b); err != nil || !bytes.Equal(b.Bytes(), bbytes) {
		t.Fatalf("MsgBlock.SerializeNoWitness: err=%v %s", err, diffBytes(bbytes, b.Bytes()))
	}
	if blk.SerializeSize() != len(wbytes) || blk.SerializeSizeStripped() != len(bbytes) {
		t.Fatalf("MsgBlock sizes %d/%d, serializations have %d/%d bytes (%d txs)", blk.SerializeSize(), blk.SerializeSizeStripped(), len(wbytes), len(bbytes), len(blk.Transactions))
	}
	id := chainhash.Hash(wirefmt.DSHA256(wbytes[:80]))
	if blk.BlockHash() != id {
		t.Fatalf("MsgBlock.BlockHash() = %s want %s", blk.BlockHash(), id)
	}
	hashes, _ := blk.TxHashes()
	for i, tx := range blk.Transactions {
		if hashes[i] != wirefmt.TxID(tx) {
			t.Fatalf("TxHashes()[%d] = %s want %s", i, hashes[i], wirefmt.TxID(tx))
		}
	}
	var d wire.MsgBlock
	if err := d.DeserializeNoWitness(bytes.NewReader(bbytes)); err != nil {
		t.Fatalf("MsgBlock.DeserializeNoWitness: %v", err)
	}
	if want, got := canon(blk, 0, wire.BaseEncoding), canon(&d, 0, wire.BaseEncoding); want != got {
		t.Fatalf("legacy block round trip: %s", firstDiff(want, got))
	}
	for _, tx := range blk.Transactions {
		if len(tx.TxIn) == 0 {
			return
		}
	}
	var dw wire.MsgBlock
	r := bytes.NewReader(wbytes)
	if err := dw.Deserialize(r); err != nil || r.Len() != 0 {
		t.Fatalf("MsgBlock.Deserialize: err=%v unread=%d", err, r.Len())
	}
	want := canon(blk, 0, wire.WitnessEncoding)
	if got := canon(&dw, 0, wire.WitnessEncoding); want != got {
		t.Fatalf("block round trip: %s", firstDiff(want, got))
	}
	if dw.BlockHash() != id || dw.SerializeSize() != len(wbytes) || dw.SerializeSizeStripped() != len(bbytes) {
		t.Fatalf("decoded block: hash %s size %d/%d want %s %d/%d", dw.BlockHash(), dw.SerializeSize(), dw.SerializeSizeStripped(), id, len(wbytes), len(bbytes))
	}
	var dl wire.MsgBlock
	locs, err := dl.DeserializeTxLoc(bytes.NewBuffer(append([]byte(nil), wbytes...)))
	if err != nil || len(locs) != len(blk.Transactions) {
		t.Fatalf("DeserializeTxLoc: err=%v %d locations for %d txs", err, len(locs), len(blk.Transactions))
	}
	for i, l := range locs {
		txb := wirefmt.TxBytes(blk.Transactions[i], true)
		if l.TxStart < 0 || l.TxStart+l.TxLen > len(wbytes) || !bytes.Equal(wbytes[l.TxStart:l.TxStart+l.TxLen], txb) {
			t.Fatalf("DeserializeTxLoc[%d] = {%d,%d} does not locate the transaction (%d bytes)", i, l.TxStart, l.TxLen, len(txb))
		}
	}
	ub, err := btcutil.NewBlockFromBytes(wbytes)
	if err != nil {
		t.Fatalf("btcutil.NewBlockFromBytes: %v", err)
	}
	if *ub.Hash() != id {
		t.Fatalf("btcutil.Block.Hash() = %s want %s", ub.Hash(), id)
	}
	if got := canon(ub.MsgBlock(), 0, wire.WitnessEncoding); got != want {
		t.Fatalf("btcutil.NewBlockFromBytes value: %s", firstDiff(want, got))
	}
	if ser, err := ub.Bytes(); err != nil || !bytes.Equal(ser, wbytes) {
		t.Fatalf("btcutil.Block.Bytes(): err=%v %s", err, diffBytes(wbytes, ser))
	}
	if ser, err := ub.BytesNoWitness(); err != nil || !bytes.Equal(ser, bbytes) {
		t.Fatalf("btcutil.Block.BytesNoWitness(): err=%v %s", err, diffBytes(bbytes, ser))
	}
	for i, utx := range ub.Transactions() {
		if *utx.Hash() != wirefmt.TxID(blk.Transactions[i]) || *utx.WitnessHash() != wirefmt.WTxID(blk.Transactions[i]) {
			t.Fatalf("btcutil.Block.Transactions()[%d] identifiers %s/%s", i, utx.Hash(), utx.WitnessHash())
		}
	}
	if _, err := btcutil.NewBlockFromBytes(append(append([]byte(nil), wbytes...), 0)); err == nil {
		t.Fatalf("btcutil.NewBlockFromBytes accepted a trailing byte")
	}
}

func txClass(tx *wire.MsgTx) string {
	if len(tx.TxIn) == 0 {
		return "tx-zero-inputs"
	}
	with := 0
	for _, in := range tx.TxIn {
		if len(in.Witness) > 0 {
			with++
		}
	}
	switch {
	case with == 0:
		return "tx"
	case with == len(tx.TxIn):
		return "tx-witness"
	}
	return "tx-mixed-witness"
}

func TestTxBlockValues(t *testing.T) {
	rapid.Check(t, func(t *rapid.T) {
		switch rapid.IntRange(0, 9).Draw(t, "what") {
		case 0:
			h := genHeader(t, "hdr")
			recTx.Case(true, "header", ev.Hash(wirefmt.HeaderBytes(h)), func() any { return "header " + hex.EncodeToString(wirefmt.HeaderBytes(h)) })
			checkHeaderValue(t, h)
		case 1, 2, 3:
			blk := genBlock(t, "blk", txOpts{minIn: rapid.IntRange(0, 1).Draw(t, "minIn"), allowBig: true})
			cl := "block"
			if len(blk.Transactions) == 0 {
				cl = "block-empty"
			}
			raw := wirefmt.BlockBytes(blk, true)
			recTx.Case(len(blk.Transactions) > 0, cl, ev.Hash(raw), func() any { return fmt.Sprintf("block with %d txs: %s", len(blk.Transactions), hexShort(raw)) })
			checkHeaderValue(t, &blk.Header)
			checkBlockValue(t, blk)
		default:
			tx := genTx(t, "tx", txOpts{allowBig: true})
			raw := wirefmt.TxBytes(tx, true)
			recTx.Case(len(tx.TxIn)+len(tx.TxOut) > 0, txClass(tx), ev.Hash(raw), func() any {
				return fmt.Sprintf("tx %d in / %d out: %s", len(tx.TxIn), len(tx.TxOut), hexShort(raw))
			})
			checkTxValue(t, tx)
		}
	})
}
