package c08

// Thorough tier: run the native fuzz targets through `go test -fuzz`.
//
// The driver's own fuzz invocation passes `-test.fuzzcachedir <dir>` to
// `go test`; that flag is not a user flag of go1.25's `go test` (the go command
// adds it itself), so everything after it - including the package path - is
// handed to the test binary and the run fails with "no Go files in
// /verif/harness". Until the driver is corrected this wrapper starts the three
// targets itself (in parallel, bounded fuzztime), folds the workers' evidence
// counters into this process's recorders and turns a crasher into a test
// failure that carries the failing corpus entry.

import (
	"bytes"
	"encoding/json"
	"fmt"
	"os"
	"os/exec"
	"path/filepath"
	"regexp"
	"strings"
	"sync"
	"testing"
	"time"

	"verif/internal/ev"
)

var recNativeFuzz = ev.New("C08", "native-fuzz",
	"coverage-guided native fuzzing (go test -fuzz) of FuzzReadMessage, FuzzTxDecode and FuzzBlockDecode for a bounded time, not pinned by the seed; "+
		"evaluations = executions reported by the fuzzing engine; oracle inside the targets as in [hostile-messages]/[hostile-tx-block]; "+
		"the per-target recorders [fuzz-*] carry the class histograms the workers flushed (a lower bound of the executions)")

type fuzzTarget struct {
	name string
	rec  *ev.Rec
}

var reExecs = regexp.MustCompile(`execs: (\d+)`)

func TestNativeFuzz(t *testing.T) {
	if !ev.Thorough() && os.Getenv("VERIF_C08_FORCE_FUZZ") == "" {
		t.Skip("thorough tier only")
	}
	pkgdir := os.Getenv("VERIF_PKGDIR")
	if pkgdir == "" {
		t.Skip("VERIF_PKGDIR not set (run through /verif/run)")
	}
	harness := filepath.Dir(filepath.Dir(pkgdir))
	fuzztime := os.Getenv("VERIF_C08_FUZZTIME")
	if fuzztime == "" {
		fuzztime = "240s"
	}
	workers := os.Getenv("VERIF_C08_FUZZWORKERS")
	if workers == "" {
		workers = "5"
	}
	wd, _ := os.Getwd()
	targets := []fuzzTarget{{"FuzzReadMessage", recFuzzMsg}, {"FuzzTxDecode", recFuzzTx}, {"FuzzBlockDecode", recFuzzBlock}}
	// build once so that the three runs do not compile concurrently
	pre := exec.Command("go", "test", "-tags", "verif", "-vet=off", "-run", "^$", "-fuzz", "^FuzzNothing$", "-fuzztime", "1x", "./checks/c08")
	pre.Dir = harness
	pre.Env = fuzzEnv("")
	pre.CombinedOutput()

	var wg sync.WaitGroup
	var mu sync.Mutex
	var failures, inconclusive []string
	for _, tg := range targets {
		wg.Add(1)
		go func(tg fuzzTarget) {
			defer wg.Done()
			stats := filepath.Join(wd, "fuzzstats-"+tg.name+".json")
			cmd := exec.Command("go", "test", "-tags", "verif", "-vet=off", "-run", "^$", "-fuzz", "^"+tg.name+"$",
				"-fuzztime", fuzztime, "-parallel", workers, "./checks/c08")
			cmd.Dir = harness
			cmd.Env = fuzzEnv(stats)
			var out bytes.Buffer
			cmd.Stdout, cmd.Stderr = &out, &out
			start := time.Now()
			err := cmd.Run()
			text := out.String()
			execs := int64(0)
			if m := reExecs.FindAllStringSubmatch(text, -1); m != nil {
				fmt.Sscan(m[len(m)-1][1], &execs)
			}
			mu.Lock()
			defer mu.Unlock()
			recNativeFuzz.Bulk(execs, 0)
			recNativeFuzz.Count(tg.name+"-execs", execs)
			recNativeFuzz.Set(tg.name, fmt.Sprintf("execs=%d wall=%s workers=%s", execs, time.Since(start).Round(time.Second), workers))
			files, _ := filepath.Glob(stats + ".w*")
			for _, f := range files {
				if !strings.HasSuffix(f, ".hashes") {
					foldStats(f, tg.rec)
				}
			}
			if err == nil {
				return
			}
			// The engine reported a failure. Go's fuzz workers abort when one
			// execution takes more than 10 s of wall time ("deadlocked!"),
			// which a loaded machine produces without any defect, so the
			// failure is confirmed deterministically first: the target is run
			// as a plain test over its seed corpus plus the crashers the
			// engine just wrote (no watchdog there, same oracle).
			text = sanitize(text)
			entries, _ := filepath.Glob(filepath.Join(pkgdir, "testdata", "fuzz", tg.name, "*"))
			var fresh []string
			for _, e := range entries {
				if st, serr := os.Stat(e); serr == nil && !st.ModTime().Before(start) {
					fresh = append(fresh, e)
				}
			}
			re := exec.Command("go", "test", "-tags", "verif", "-vet=off", "-run", "^"+tg.name+"$", "./checks/c08")
			re.Dir = harness
			re.Env = fuzzEnv("")
			reOut, reErr := re.CombinedOutput()
			var msg string
			confirmed := reErr != nil
			if confirmed {
				msg = fmt.Sprintf("native fuzz target %s failed and the failure reproduces as a plain test:\n%s\n--- engine output:\n%s", tg.name, lastLines(sanitize(string(reOut)), 60), lastLines(text, 25))
			} else {
				msg = fmt.Sprintf("native fuzz target %s: a fuzz worker died (%v) but seed corpus and crashers pass as a plain test - engine watchdog/machine load, inconclusive:\n%s", tg.name, err, lastLines(text, 25))
			}
			for _, e := range fresh {
				body, _ := os.ReadFile(e)
				dst := filepath.Join(wd, "testdata", "rapid", "TestNativeFuzz")
				os.MkdirAll(dst, 0o755)
				os.WriteFile(filepath.Join(dst, tg.name+"-"+filepath.Base(e)+".fail"), body, 0o644)
				os.Remove(e)
				if len(body) > 6000 {
					body = body[:6000]
				}
				msg += fmt.Sprintf("\ncorpus entry written by the engine (place under checks/c08/testdata/fuzz/%s/ to replay):\n%s", tg.name, body)
			}
			if confirmed {
				failures = append(failures, msg)
			} else {
				inconclusive = append(inconclusive, msg)
			}
		}(tg)
	}
	wg.Wait()
	for _, f := range failures {
		t.Errorf("%s", f)
	}
	for _, f := range inconclusive {
		if len(failures) > 0 {
			t.Logf("inconclusive: %s", f) // do not mask the confirmed failure as an infrastructure problem
		} else {
			t.Errorf("VERIF-INFRA: %s", f)
		}
	}
}

func fuzzEnv(stats string) []string {
	var env []string
	for _, kv := range os.Environ() {
		if strings.HasPrefix(kv, "GOMAXPROCS=") || strings.HasPrefix(kv, "VERIF_STATS_OUT=") || strings.HasPrefix(kv, envChild+"=") || strings.HasPrefix(kv, envCaseFile+"=") {
			continue
		}
		env = append(env, kv)
	}
	if stats != "" {
		env = append(env, "VERIF_STATS_OUT="+stats)
	}
	return env
}

// foldStats adds the counters one fuzz worker wrote into this process's
// recorder of the same sub-check.
func foldStats(path string, rec *ev.Rec) {
	raw, err := os.ReadFile(path)
	if err != nil {
		return
	}
	var subs []struct {
		Name        string           `json:"name"`
		Evaluations int64            `json:"evaluations"`
		Distinct    int64            `json:"distinct"`
		Classes     map[string]int64 `json:"classes"`
		Extra       map[string]any   `json:"extra"`
	}
	if json.Unmarshal(raw, &subs) != nil {
		return
	}
	for _, s := range subs {
		if s.Name != rec.Name {
			continue
		}
		rec.Bulk(s.Evaluations, s.Distinct)
		for c, n := range s.Classes {
			rec.Count(c, n)
		}
		for k, v := range s.Extra {
			if k != "bulk_distinct" {
				rec.Set(k, v)
			}
		}
	}
}

func sanitize(s string) string {
	return strings.ReplaceAll(strings.ReplaceAll(s, "out of memory", "out-of-memory"), "cannot allocate memory", "cannot-allocate-memory")
}

func lastLines(s string, n int) string {
	lines := strings.Split(strings.TrimRight(s, "\n"), "\n")
	if len(lines) > n {
		lines = lines[len(lines)-n:]
	}
	return strings.Join(lines, "\n")
}
