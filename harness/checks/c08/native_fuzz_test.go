package c08

// Thorough tier: run the native fuzz targets through `go test -fuzz`.
//
// The driver's own fuzz invocation passes `-test.fuzzcachedir <dir>` to
// `go test`; that flag is not a user flag of go1.25's `go test` (the go command
// adds it itself), so everything after it - including the package path - is
// handed to the test binary and the run fails with "no Go files in
// /verif/harness". Until the driver is corrected this wrapper starts the three
// targets itself (one after the other, bounded fuzztime), folds the workers'
// evidence counters into this process's recorders and turns a crasher that
// reproduces as a plain test into a test failure carrying the corpus entry.

import (
	"bytes"
	"encoding/json"
	"fmt"
	"os"
	"os/exec"
	"path/filepath"
	"regexp"
	"strings"
	"testing"
	"time"

	"verif/internal/ev"
)

var recNativeFuzz = ev.New("C08", "native-fuzz",
	"coverage-guided native fuzzing (go test -fuzz) of FuzzReadMessage, FuzzTxDecode and FuzzBlockDecode for a bounded time, not pinned by the seed; "+
		"evaluations = executions reported by the fuzzing engine; oracle inside the targets as in [hostile-messages]/[hostile-tx-block]; "+
		"the per-target recorders [fuzz-*] carry the class histograms the workers flushed (a lower bound of the executions)")

type fuzzTarget struct {
	name string
	rec  *ev.Rec
}

var reExecs = regexp.MustCompile(`execs: (\d+)`)

func TestNativeFuzz(t *testing.T) {
	if !ev.Thorough() && os.Getenv("VERIF_C08_FORCE_FUZZ") == "" {
		t.Skip("thorough tier only")
	}
	pkgdir := os.Getenv("VERIF_PKGDIR")
	if pkgdir == "" {
		t.Skip("VERIF_PKGDIR not set (run through /verif/run)")
	}
	fz := fuzzRun{pkgdir: pkgdir, harness: filepath.Dir(filepath.Dir(pkgdir)), fuzztime: "150s", workers: "6"}
	if v := os.Getenv("VERIF_C08_FUZZTIME"); v != "" {
		fz.fuzztime = v
	}
	if v := os.Getenv("VERIF_C08_FUZZWORKERS"); v != "" {
		fz.workers = v
	}
	fz.wd, _ = os.Getwd()
	targets := []fuzzTarget{{"FuzzReadMessage", recFuzzMsg}, {"FuzzTxDecode", recFuzzTx}, {"FuzzBlockDecode", recFuzzBlock}}
	var failures, inconclusive []string
	// The targets run one after the other (their workers compete with the
	// rapid shards of the same run for the cores), each at most twice: Go's
	// fuzz workers abort when a single execution takes more than 10 s of wall
	// time, which an overloaded machine produces without any defect.
	for _, tg := range targets {
		for attempt := 1; attempt <= 2; attempt++ {
			confirmed, msg := fz.run(tg, attempt)
			if msg == "" {
				break
			}
			if confirmed {
				failures = append(failures, msg)
				break
			}
			if attempt == 2 {
				inconclusive = append(inconclusive, msg)
			} else {
				recNativeFuzz.Count(tg.name+"-retries", 1)
			}
		}
	}
	for _, f := range failures {
		t.Errorf("%s", f)
	}
	for _, f := range inconclusive {
		if len(failures) > 0 {
			t.Logf("inconclusive: %s", f) // do not mask the confirmed failure as an infrastructure problem
		} else {
			t.Errorf("VERIF-INFRA: %s", f)
		}
	}
}

type fuzzRun struct {
	pkgdir, harness, wd, fuzztime, workers string
}

// run fuzzes one target once. It returns ("", false) on success, a message
// and whether the failure was confirmed deterministically otherwise.
func (fz fuzzRun) run(tg fuzzTarget, attempt int) (confirmed bool, msg string) {
	stats := filepath.Join(fz.wd, fmt.Sprintf("fuzzstats-%s-%d.json", tg.name, attempt))
	cmd := exec.Command("go", "test", "-tags", "verif", "-vet=off", "-run", "^$", "-fuzz", "^"+tg.name+"$",
		"-fuzztime", fz.fuzztime, "-parallel", fz.workers, "./checks/c08")
	cmd.Dir = fz.harness
	cmd.Env = fuzzEnv(stats)
	var out bytes.Buffer
	cmd.Stdout, cmd.Stderr = &out, &out
	start := time.Now()
	err := cmd.Run()
	text := sanitize(out.String())
	execs := int64(0)
	if m := reExecs.FindAllStringSubmatch(text, -1); m != nil {
		fmt.Sscan(m[len(m)-1][1], &execs)
	}
	recNativeFuzz.Bulk(execs, 0)
	recNativeFuzz.Count(tg.name+"-execs", execs)
	recNativeFuzz.Set(fmt.Sprintf("%s-attempt%d", tg.name, attempt), fmt.Sprintf("execs=%d wall=%s workers=%s err=%v", execs, time.Since(start).Round(time.Second), fz.workers, err))
	files, _ := filepath.Glob(stats + ".w*")
	for _, f := range files {
		if !strings.HasSuffix(f, ".hashes") {
			foldStats(f, tg.rec)
		}
	}
	if err == nil {
		return false, ""
	}
	// The engine reported a failure. It is confirmed deterministically
	// first: the target is run as a plain test over its seed corpus plus the
	// crashers the engine just wrote (no watchdog there, same oracle).
	entries, _ := filepath.Glob(filepath.Join(fz.pkgdir, "testdata", "fuzz", tg.name, "*"))
	var fresh []string
	for _, e := range entries {
		if st, serr := os.Stat(e); serr == nil && !st.ModTime().Before(start) {
			fresh = append(fresh, e)
		}
	}
	re := exec.Command("go", "test", "-tags", "verif", "-vet=off", "-run", "^"+tg.name+"$", "./checks/c08")
	re.Dir = fz.harness
	re.Env = fuzzEnv("")
	reOut, reErr := re.CombinedOutput()
	confirmed = reErr != nil
	if confirmed {
		msg = fmt.Sprintf("native fuzz target %s failed and the failure reproduces as a plain test:\n%s\n--- engine output:\n%s", tg.name, lastLines(sanitize(string(reOut)), 60), lastLines(text, 25))
	} else {
		msg = fmt.Sprintf("native fuzz target %s (attempt %d): a fuzz worker died (%v) but seed corpus and crashers pass as a plain test - engine watchdog/machine load, inconclusive:\n%s", tg.name, attempt, err, lastLines(text, 12))
	}
	for _, e := range fresh {
		body, _ := os.ReadFile(e)
		dst := filepath.Join(fz.wd, "testdata", "rapid", "TestNativeFuzz")
		os.MkdirAll(dst, 0o755)
		os.WriteFile(filepath.Join(dst, tg.name+"-"+filepath.Base(e)+".fail"), body, 0o644)
		os.Remove(e)
		if len(body) > 6000 {
			body = body[:6000]
		}
		msg += fmt.Sprintf("\ncorpus entry written by the engine (place under checks/c08/testdata/fuzz/%s/ to replay):\n%s", tg.name, body)
	}
	return confirmed, msg
}

func fuzzEnv(stats string) []string {
	var env []string
	for _, kv := range os.Environ() {
		if strings.HasPrefix(kv, "GOMAXPROCS=") || strings.HasPrefix(kv, "VERIF_STATS_OUT=") || strings.HasPrefix(kv, envChild+"=") || strings.HasPrefix(kv, envCaseFile+"=") {
			continue
		}
		env = append(env, kv)
	}
	if stats != "" {
		env = append(env, "VERIF_STATS_OUT="+stats)
	}
	return env
}

// foldStats adds the counters one fuzz worker wrote into this process's
// recorder of the same sub-check.
func foldStats(path string, rec *ev.Rec) {
	raw, err := os.ReadFile(path)
	if err != nil {
		return
	}
	var subs []struct {
		Name        string           `json:"name"`
		Evaluations int64            `json:"evaluations"`
		Distinct    int64            `json:"distinct"`
		Classes     map[string]int64 `json:"classes"`
		Extra       map[string]any   `json:"extra"`
	}
	if json.Unmarshal(raw, &subs) != nil {
		return
	}
	for _, s := range subs {
		if s.Name != rec.Name {
			continue
		}
		rec.Bulk(s.Evaluations, s.Distinct)
		for c, n := range s.Classes {
			rec.Count(c, n)
		}
		for k, v := range s.Extra {
			if k != "bulk_distinct" {
				rec.Set(k, v)
			}
		}
	}
}

func sanitize(s string) string {
	return strings.ReplaceAll(strings.ReplaceAll(s, "out of memory", "out-of-memory"), "cannot allocate memory", "cannot-allocate-memory")
}

func lastLines(s string, n int) string {
	lines := strings.Split(strings.TrimRight(s, "\n"), "\n")
	if len(lines) > n {
		lines = lines[len(lines)-n:]
	}
	return strings.Join(lines, "\n")
}
