package c06

import (
	"bytes"
	"encoding/hex"
	"fmt"
	"os"
	"strings"
	"testing"

	"github.com/btcsuite/btcd/chainhash/v2"
	"github.com/btcsuite/btcd/txscript/v2"
	"github.com/btcsuite/btcd/wire/v2"
	"pgregory.net/rapid"

	"verif/internal/ev"
	ms "verif/internal/model/script"
	"verif/internal/scratch"
)

func TestMain(m *testing.M) {
	code := m.Run()
	scratch.Sweep()
	ev.Flush()
	os.Exit(code)
}

// ---------------------------------------------------------------------------
// flags

// flagPairs is the one-to-one correspondence between the model's flags and
// txscript.ScriptFlags.
var flagPairs = []struct {
	m ms.Flags
	b txscript.ScriptFlags
	n string
}{
	{ms.P2SH, txscript.ScriptBip16, "ScriptBip16"},
	{ms.NullDummy, txscript.ScriptStrictMultiSig, "ScriptStrictMultiSig"},
	{ms.DiscourageUpgradableNops, txscript.ScriptDiscourageUpgradableNops, "ScriptDiscourageUpgradableNops"},
	{ms.CheckLockTimeVerify, txscript.ScriptVerifyCheckLockTimeVerify, "ScriptVerifyCheckLockTimeVerify"},
	{ms.CheckSequenceVerify, txscript.ScriptVerifyCheckSequenceVerify, "ScriptVerifyCheckSequenceVerify"},
	{ms.CleanStack, txscript.ScriptVerifyCleanStack, "ScriptVerifyCleanStack"},
	{ms.DERSig, txscript.ScriptVerifyDERSignatures, "ScriptVerifyDERSignatures"},
	{ms.LowS, txscript.ScriptVerifyLowS, "ScriptVerifyLowS"},
	{ms.MinimalData, txscript.ScriptVerifyMinimalData, "ScriptVerifyMinimalData"},
	{ms.NullFail, txscript.ScriptVerifyNullFail, "ScriptVerifyNullFail"},
	{ms.SigPushOnly, txscript.ScriptVerifySigPushOnly, "ScriptVerifySigPushOnly"},
	{ms.StrictEnc, txscript.ScriptVerifyStrictEncoding, "ScriptVerifyStrictEncoding"},
	{ms.Witness, txscript.ScriptVerifyWitness, "ScriptVerifyWitness"},
	{ms.DiscourageUpgradableWitnessProgram, txscript.ScriptVerifyDiscourageUpgradeableWitnessProgram, "ScriptVerifyDiscourageUpgradeableWitnessProgram"},
	{ms.MinimalIf, txscript.ScriptVerifyMinimalIf, "ScriptVerifyMinimalIf"},
	{ms.WitnessPubKeyType, txscript.ScriptVerifyWitnessPubKeyType, "ScriptVerifyWitnessPubKeyType"},
	{ms.Taproot, txscript.ScriptVerifyTaproot, "ScriptVerifyTaproot"},
	{ms.DiscourageUpgradableTaprootVersion, txscript.ScriptVerifyDiscourageUpgradeableTaprootVersion, "ScriptVerifyDiscourageUpgradeableTaprootVersion"},
	{ms.DiscourageOpSuccess, txscript.ScriptVerifyDiscourageOpSuccess, "ScriptVerifyDiscourageOpSuccess"},
	{ms.DiscourageUpgradablePubkeyType, txscript.ScriptVerifyDiscourageUpgradeablePubkeyType, "ScriptVerifyDiscourageUpgradeablePubkeyType"},
	{ms.ConstScriptCode, txscript.ScriptVerifyConstScriptCode, "ScriptVerifyConstScriptCode"},
}

func toModelFlags(f txscript.ScriptFlags) (ms.Flags, bool) {
	var out ms.Flags
	rest := f
	for _, p := range flagPairs {
		if f&p.b != 0 {
			out |= p.m
			rest &^= p.b
		}
	}
	return out, rest == 0
}

func toBtcdFlags(f ms.Flags) txscript.ScriptFlags {
	var out txscript.ScriptFlags
	for _, p := range flagPairs {
		if f&p.m != 0 {
			out |= p.b
		}
	}
	return out
}

type flagSet struct {
	name  string
	btcd  txscript.ScriptFlags
	model ms.Flags
}

// flagSets: every set blockchain.checkConnectBlock can build as BIP16,
// BIP66, BIP65, CSV, segwit and taproot activate in their historical order,
// plus txscript.StandardVerifyFlags (used by the mempool and by mining).
var flagSets = func() []flagSet {
	h := []struct {
		n string
		f txscript.ScriptFlags
	}{
		{"genesis", 0},
		{"bip16", txscript.ScriptBip16},
		{"bip66", txscript.ScriptBip16 | txscript.ScriptVerifyDERSignatures},
		{"bip65", txscript.ScriptBip16 | txscript.ScriptVerifyDERSignatures | txscript.ScriptVerifyCheckLockTimeVerify},
		{"csv", txscript.ScriptBip16 | txscript.ScriptVerifyDERSignatures | txscript.ScriptVerifyCheckLockTimeVerify |
			txscript.ScriptVerifyCheckSequenceVerify},
		{"segwit", txscript.ScriptBip16 | txscript.ScriptVerifyDERSignatures | txscript.ScriptVerifyCheckLockTimeVerify |
			txscript.ScriptVerifyCheckSequenceVerify | txscript.ScriptVerifyWitness | txscript.ScriptStrictMultiSig},
		{"taproot", txscript.ScriptBip16 | txscript.ScriptVerifyDERSignatures | txscript.ScriptVerifyCheckLockTimeVerify |
			txscript.ScriptVerifyCheckSequenceVerify | txscript.ScriptVerifyWitness | txscript.ScriptStrictMultiSig |
			txscript.ScriptVerifyTaproot},
		{"standard", txscript.StandardVerifyFlags},
	}
	var out []flagSet
	for _, e := range h {
		m, ok := toModelFlags(e.f)
		if !ok {
			panic("VERIF-INFRA: txscript flag without a model counterpart in set " + e.n)
		}
		out = append(out, flagSet{e.n, e.f, m})
	}
	return out
}()

// genFlagSet is biased towards the two sets in use on today's network
// (taproot-era consensus and relay policy) while visiting all others.
func genFlagSet() *rapid.Generator[flagSet] {
	return rapid.Custom(func(t *rapid.T) flagSet {
		// rapid favours the first entries of a SampledFrom list
		i := rapid.SampledFrom([]int{6, 7, 5, 6, 7, 4, 3, 2, 1, 0, 5, 6, 7}).Draw(t, "flagset")
		return flagSets[i]
	})
}

// genFlagSetWitnessHeavy is used by the generators whose cases are mostly
// witness spends (trivially valid before segwit activates).
func genFlagSetWitnessHeavy() *rapid.Generator[flagSet] {
	return rapid.Custom(func(t *rapid.T) flagSet {
		i := rapid.SampledFrom([]int{6, 7, 6, 7, 5, 6, 7, 5, 4, 3, 2, 1, 0, 6, 7}).Draw(t, "flagset")
		return flagSets[i]
	})
}

// TestFlagMirror asserts the model's flag set mirrors txscript.ScriptFlags
// one-to-one, and that the history sets equal the model's own list.
func TestFlagMirror(t *testing.T) {
	seenB := map[txscript.ScriptFlags]bool{}
	for i, p := range flagPairs {
		if uint32(p.m) != uint32(p.b) || uint32(p.b) != 1<<uint(i) {
			t.Fatalf("VERIF-INFRA: flag %s: model bit %#x, btcd bit %#x, position %d", p.n, uint32(p.m), uint32(p.b), i)
		}
		seenB[p.b] = true
	}
	// a flag added to btcd after the last known one would be bit 21
	if _, ok := toModelFlags(txscript.StandardVerifyFlags); !ok {
		t.Fatalf("VERIF-INFRA: StandardVerifyFlags has a bit the model does not know")
	}
	hs := ms.HistoryFlagSets()
	for i, f := range hs {
		if flagSets[i].model != f {
			t.Fatalf("VERIF-INFRA: history flag set %d differs: %s vs %s", i, flagSets[i].model, f)
		}
	}
}

// TestCalibration runs the MODEL over the Bitcoin Core vectors copied to
// /verif/corpus/c06; a disagreement is a harness defect.
func TestCalibration(t *testing.T) {
	max := 0
	if !ev.Thorough() {
		max = 700 // evenly spaced subset of the 2760 taproot vectors in quick
	}
	st, err := ms.Calibrate(ms.CorpusDir(), max)
	recCalib.Bulk(int64(st.ScriptTests+st.TxValid+st.TxInvalid+st.SigHash+st.TaprootSuccess+st.TaprootFailure),
		int64(st.ScriptTests+st.TxValid+st.TxInvalid+st.SigHash+st.TaprootSuccess+st.TaprootFailure))
	recCalib.Count("script_tests", int64(st.ScriptTests))
	recCalib.Count("tx_valid", int64(st.TxValid))
	recCalib.Count("tx_invalid", int64(st.TxInvalid))
	recCalib.Count("sighash", int64(st.SigHash))
	recCalib.Count("taproot_success", int64(st.TaprootSuccess))
	recCalib.Count("taproot_failure", int64(st.TaprootFailure))
	recCalib.Set("skipped", st.Skipped)
	if err != nil {
		t.Fatalf("VERIF-INFRA: model calibration failed: %v", err)
	}
	if st.ScriptTests < 1000 || st.TxValid < 100 || st.TxInvalid < 80 || st.SigHash < 400 || st.TaprootSuccess < 500 {
		t.Fatalf("VERIF-INFRA: calibration corpus incomplete: %s", st)
	}
	t.Log(st)
}

var recCalib = ev.New("C06", "model-calibration",
	"the MODEL (not btcd) is run over the Bitcoin Core vectors copied from /repo/txscript/data into /verif/corpus/c06: "+
		"script_tests.json (verdict and error class), tx_valid/tx_invalid.json (with Core's flag-removal / flag-addition perturbations), "+
		"sighash.json (legacy digest), taproot-ref (success under the stated flags and every soft-fork-history subset, failure under the stated flags); "+
		"any disagreement is VERIF-INFRA",
	"script_tests", "tx_valid", "tx_invalid", "sighash", "taproot_success", "taproot_failure")

// ---------------------------------------------------------------------------
// a generated spend

// spend is one generated case: transaction, input index and the outputs
// spent by every input.
type spend struct {
	tx       *ms.Tx
	idx      int
	prevouts []ms.TxOut
	gen      string // generator / template label
	note     string // mutations applied
}

func (s *spend) hash(fl ms.Flags) uint64 {
	var po []byte
	for _, p := range s.prevouts {
		po = append(po, byte(p.Value), byte(p.Value>>8), byte(p.Value>>16), byte(p.Value>>24))
		po = append(po, p.PkScript...)
		po = append(po, 0xfe)
	}
	return ev.Hash(s.tx.Serialize(true), []byte{byte(s.idx)}, po,
		[]byte{byte(fl), byte(fl >> 8), byte(fl >> 16), byte(fl >> 24)})
}

func hexList(w [][]byte) string {
	var p []string
	for _, it := range w {
		p = append(p, hex.EncodeToString(it))
	}
	return "[" + strings.Join(p, " ") + "]"
}

// describe prints everything needed to reproduce the case by hand.
func (s *spend) describe(fs flagSet) string {
	var b strings.Builder
	fmt.Fprintf(&b, "gen=%s note=%q flags=%s(%s)\n", s.gen, s.note, fs.name, fs.model)
	fmt.Fprintf(&b, "  input index %d of %d, tx (witness serialization) %x\n", s.idx, len(s.tx.In), s.tx.Serialize(true))
	for i, p := range s.prevouts {
		fmt.Fprintf(&b, "  prevout[%d] amount=%d pkScript=%x\n", i, p.Value, p.PkScript)
	}
	fmt.Fprintf(&b, "  scriptSig=%x\n  witness=%s\n", s.tx.In[s.idx].ScriptSig, hexList(s.tx.In[s.idx].Witness))
	return b.String()
}

func toWire(tx *ms.Tx) *wire.MsgTx {
	m := wire.NewMsgTx(int32(tx.Version))
	for i := range tx.In {
		in := &tx.In[i]
		var h chainhash.Hash
		copy(h[:], in.PrevHash[:])
		ti := wire.NewTxIn(wire.NewOutPoint(&h, in.PrevIndex), append([]byte{}, in.ScriptSig...), nil)
		ti.Sequence = in.Sequence
		if len(in.Witness) > 0 {
			w := make(wire.TxWitness, len(in.Witness))
			for j, it := range in.Witness {
				w[j] = append([]byte{}, it...)
			}
			ti.Witness = w
		}
		m.AddTxIn(ti)
	}
	for i := range tx.Out {
		m.AddTxOut(wire.NewTxOut(tx.Out[i].Value, append([]byte{}, tx.Out[i].PkScript...)))
	}
	m.LockTime = tx.LockTime
	return m
}

func fetcherFor(mtx *wire.MsgTx, prevouts []ms.TxOut) *txscript.MultiPrevOutFetcher {
	f := txscript.NewMultiPrevOutFetcher(nil)
	for i, in := range mtx.TxIn {
		f.AddPrevOut(in.PreviousOutPoint, wire.NewTxOut(prevouts[i].Value, append([]byte{}, prevouts[i].PkScript...)))
	}
	return f
}

// btcdVerdict runs txscript exactly the way blockchain's script validator
// does: NewEngine + Execute with the prevout fetcher, and the sighash
// midstate only when the witness flag is on and the tx carries a witness.
// A panic is turned into an error string starting with "PANIC".
func btcdVerdict(s *spend, fs flagSet, sigCache *txscript.SigCache, cb func(*txscript.StepInfo) error) (verdict error, stage string) {
	mtx := toWire(s.tx)
	fetcher := fetcherFor(mtx, s.prevouts)
	var hc *txscript.TxSigHashes
	defer func() {
		if r := recover(); r != nil {
			verdict = fmt.Errorf("PANIC: %v", r)
			stage = "panic"
		}
	}()
	if fs.btcd&txscript.ScriptVerifyWitness != 0 && mtx.HasWitness() {
		hc = txscript.NewTxSigHashes(mtx, fetcher)
	}
	po := s.prevouts[s.idx]
	var vm *txscript.Engine
	var err error
	if cb != nil {
		vm, err = txscript.NewDebugEngine(po.PkScript, mtx, s.idx, fs.btcd, sigCache, hc, po.Value, fetcher, cb)
	} else {
		vm, err = txscript.NewEngine(po.PkScript, mtx, s.idx, fs.btcd, sigCache, hc, po.Value, fetcher)
	}
	if err != nil {
		return err, "constructor"
	}
	// verification reads the transaction; it must not change it (the same object is verified
	// again by later consumers: mempool acceptance, then template generation, then the block)
	var before, after bytes.Buffer
	_ = mtx.Serialize(&before)
	execErr := vm.Execute()
	_ = mtx.Serialize(&after)
	if !bytes.Equal(before.Bytes(), after.Bytes()) {
		return fmt.Errorf("MUTATED: script verification changed the transaction it verified (%d -> %d bytes)", before.Len(), after.Len()), "mutated"
	}
	if execErr != nil {
		return execErr, "execute"
	}
	return nil, ""
}

// verdictClass is the histogram label: valid, or invalid by stage.
func verdictClass(r ms.Result) string {
	if r.Valid() {
		return "valid"
	}
	return "invalid@" + string(r.Stage)
}

// stepMonitor asserts the bounds on btcd's own execution trace: after every
// executed opcode the combined stack depth is <= 1000 and no element is
// larger than 520 bytes.
type stepMonitor struct {
	prevScript, prevOp int
	started            bool
	steps              int
	violation          string
}

func (m *stepMonitor) cb(si *txscript.StepInfo) error {
	sameScript := m.started && si.ScriptIndex == m.prevScript
	m.started = true
	m.prevScript, m.prevOp = si.ScriptIndex, si.OpcodeIndex
	m.steps++
	if m.violation != "" {
		return nil
	}
	// The state right after a script transition is the freshly loaded
	// witness stack, which BIP141 does not bound in depth before the
	// first opcode ran; every later state must be within bounds.
	if sameScript && len(si.Stack)+len(si.AltStack) > ms.MaxStackSize {
		m.violation = fmt.Sprintf("combined stack depth %d+%d > 1000 after opcode %d of script %d",
			len(si.Stack), len(si.AltStack), si.OpcodeIndex, si.ScriptIndex)
	}
	for _, st := range [][][]byte{si.Stack, si.AltStack} {
		for _, e := range st {
			if len(e) > ms.MaxScriptElementSize {
				m.violation = fmt.Sprintf("stack element of %d bytes > 520 after opcode %d of script %d",
					len(e), si.OpcodeIndex, si.ScriptIndex)
			}
		}
	}
	return nil
}

// compare is the differential oracle shared by all generators.
func compare(t *rapid.T, rec *ev.Rec, s *spend, fs flagSet) ms.Result {
	r := ms.Verify(s.tx, s.idx, s.prevouts, fs.model)
	class := verdictClass(r)
	nontrivial := r.LastLayerOps >= 1 || strings.HasPrefix(s.gen, "g3")
	rec.Case(nontrivial, class, s.hash(fs.model), func() any {
		return map[string]any{"case": s.describe(fs), "model": r.String(), "layers": r.Layers}
	})
	rec.Count("gen:"+genFamily(s.gen), 1)
	rec.Count("flags:"+fs.name, 1)
	if !r.Valid() {
		rec.Count("err:"+string(r.Err), 1)
	}
	for _, l := range r.Layers {
		rec.Count("layer:"+l, 1)
	}
	if r.Valid() {
		switch n := r.LastLayerOps; {
		case n <= 5:
			rec.Count("valid-depth:1-5", 1)
		case n <= 20:
			rec.Count("valid-depth:6-20", 1)
		case n <= 60:
			rec.Count("valid-depth:21-60", 1)
		default:
			rec.Count("valid-depth:>60", 1)
		}
	}

	sigCache := txscript.NewSigCache(64)
	err, stage := btcdVerdict(s, fs, sigCache, nil)
	if err != nil && strings.HasPrefix(err.Error(), "PANIC") {
		t.Fatalf("btcd panicked: %v\nmodel: %s\n%s", err, r, s.describe(fs))
	}
	if err != nil && strings.HasPrefix(err.Error(), "MUTATED") {
		t.Fatalf("%v\nmodel: %s\n%s", err, r, s.describe(fs))
	}
	if (err == nil) != r.Valid() {
		if sig := knownSignature(s, fs, r, err); sig != "" &&
			rec.Known(sig, fmt.Sprintf("btcd accepts=%v, Core semantics (model) accept=%v", err == nil, r.Valid())) {
			rec.Excluded()
			return r
		}
		t.Fatalf("verdicts differ: btcd err=%v (at %s), model %s layers=%v\n%s", err, stage, r, r.Layers, s.describe(fs))
	}
	if err == nil {
		// successful execution: same verdict again with the signature cache
		// warm, and the bounds observed on btcd's own trace.
		mon := &stepMonitor{}
		err2, _ := btcdVerdict(s, fs, sigCache, mon.cb)
		if err2 != nil {
			t.Fatalf("second execution (warm sigcache, debug engine) fails: %v\nmodel: %s\n%s", err2, r, s.describe(fs))
		}
		rec.Count("monitored-steps", int64(mon.steps))
		if mon.violation != "" && !r.Unconstrained {
			t.Fatalf("bound exceeded during a successful execution: %s\n%s", mon.violation, s.describe(fs))
		}
	}
	return r
}

func genFamily(g string) string {
	if i := strings.IndexByte(g, ':'); i >= 0 {
		return g[:i]
	}
	return g
}

// knownQuirks: confirmed deviations of btcd from Bitcoin Core, each with the
// model switch that emulates exactly that deviation and the signature under
// which it is listed in /verif/known_findings.jsonl. A disagreement counts as
// that known finding only if emulating the deviation restores agreement.
var knownQuirks = []struct {
	q   ms.Quirks
	sig string
}{
	{ms.QuirkEmptySigKeepsOp0, "const-scriptcode-empty-sig-op0"},
	{ms.QuirkStrictBER, "pre-bip66-lax-der-parser"},
	{ms.QuirkMultisigSkipsPubkeyCheck, "multisig-empty-sig-skips-pubkey-encoding"},
	{ms.QuirkTapscriptEmptySigSkipsPubkeyType, "tapscript-empty-sig-unknown-pubkey-not-discouraged"},
	{ms.QuirkParseFailurePushesFalse, "checksig-unparseable-sig-or-key-skips-nullfail"},
}

// activeQuirks are the deviations that are listed as known: the model
// emulates them on the second pass so the search continues behind them.
func knownSignature(s *spend, fs flagSet, r ms.Result, err error) string {
	var all ms.Quirks
	first := ""
	for _, k := range knownQuirks {
		if !ev.IsKnown("C06", k.sig) {
			continue
		}
		r2 := ms.VerifyQuirks(s.tx, s.idx, s.prevouts, fs.model, k.q)
		if (err == nil) == r2.Valid() {
			return k.sig
		}
		all |= k.q
		if first == "" {
			first = k.sig
		}
	}
	// several listed deviations at once (e.g. two CHECKSIGs in one script)
	if all != 0 && (err == nil) == ms.VerifyQuirks(s.tx, s.idx, s.prevouts, fs.model, all).Valid() {
		for _, k := range knownQuirks {
			if ev.IsKnown("C06", k.sig) && (err == nil) != ms.VerifyQuirks(s.tx, s.idx, s.prevouts, fs.model, all&^k.q).Valid() {
				return k.sig // removing this one breaks the agreement: it is involved
			}
		}
		return first
	}
	return ""
}

var _ = bytes.Equal
