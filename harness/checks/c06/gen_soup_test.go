package c06

import (
	"testing"

	"pgregory.net/rapid"

	"verif/internal/ev"
	ms "verif/internal/model/script"
)

// G1: opcode soup over the whole alphabet.

var recSoup = ev.New("C06", "soup",
	"G1: scripts drawn atom by atom over the whole opcode alphabet (all 256 byte values, well-formed pushes in every opcode form and at the "+
		"75/76/255/256/520/521 length boundaries, truncated pushes, IF/NOTIF/ELSE/ENDIF balanced or not, disabled and reserved opcodes also in dead branches), "+
		"placed as bare scriptSig+scriptPubKey, P2SH redeem script, P2WSH / P2SH-P2WSH witness script or tapscript leaf, in a 1-4 input tx; "+
		"flag sets = soft-fork history + StandardVerifyFlags; oracle = independent interpreter (valid <=> NewEngine+Execute==nil), panics are violations, "+
		"step monitor on successful runs; non-trivial = model dispatched >=1 opcode in the last script layer; distinct by hash(tx, prevouts, flags)",
	"valid", "invalid@scriptSig", "invalid@scriptPubKey", "invalid@redeem", "invalid@witscript", "invalid@witprog")

var (
	stackOps = []byte{ms.OP_DUP, ms.OP_DROP, ms.OP_SWAP, ms.OP_OVER, ms.OP_ROT, ms.OP_TUCK, ms.OP_NIP, ms.OP_PICK, ms.OP_ROLL,
		ms.OP_2DUP, ms.OP_3DUP, ms.OP_2OVER, ms.OP_2ROT, ms.OP_2SWAP, ms.OP_2DROP, ms.OP_IFDUP, ms.OP_DEPTH, ms.OP_SIZE,
		ms.OP_TOALTSTACK, ms.OP_FROMALTSTACK}
	arithOps = []byte{ms.OP_1ADD, ms.OP_1SUB, ms.OP_NEGATE, ms.OP_ABS, ms.OP_NOT, ms.OP_0NOTEQUAL, ms.OP_ADD, ms.OP_SUB,
		ms.OP_BOOLAND, ms.OP_BOOLOR, ms.OP_NUMEQUAL, ms.OP_NUMEQUALVERIFY, ms.OP_NUMNOTEQUAL, ms.OP_LESSTHAN, ms.OP_GREATERTHAN,
		ms.OP_LESSTHANOREQUAL, ms.OP_GREATERTHANOREQUAL, ms.OP_MIN, ms.OP_MAX, ms.OP_WITHIN}
	badOps = []byte{ms.OP_CAT, ms.OP_SUBSTR, ms.OP_LEFT, ms.OP_RIGHT, ms.OP_INVERT, ms.OP_AND, ms.OP_OR, ms.OP_XOR, ms.OP_2MUL,
		ms.OP_2DIV, ms.OP_MUL, ms.OP_DIV, ms.OP_MOD, ms.OP_LSHIFT, ms.OP_RSHIFT, ms.OP_RESERVED, ms.OP_VER, ms.OP_VERIF,
		ms.OP_VERNOTIF, ms.OP_RESERVED1, ms.OP_RESERVED2, 0xba, 0xbb, 0xfe, 0xff}
	hashOps = []byte{ms.OP_RIPEMD160, ms.OP_SHA1, ms.OP_SHA256, ms.OP_HASH160, ms.OP_HASH256}
	miscOps = []byte{ms.OP_VERIFY, ms.OP_EQUAL, ms.OP_EQUALVERIFY, ms.OP_RETURN, ms.OP_NOP, ms.OP_NOP1, ms.OP_CHECKLOCKTIMEVERIFY,
		ms.OP_CHECKSEQUENCEVERIFY, ms.OP_NOP4, ms.OP_NOP10, ms.OP_CODESEPARATOR, ms.OP_CHECKSIG, ms.OP_CHECKSIGVERIFY,
		ms.OP_CHECKMULTISIG, ms.OP_CHECKMULTISIGVERIFY, ms.OP_CHECKSIGADD}
	pushLens = []int{0, 1, 1, 2, 3, 4, 5, 8, 20, 32, 33, 64, 65, 75, 76, 255, 256, 519, 520, 521}
)

func genSmallInt() *rapid.Generator[byte] {
	return rapid.SampledFrom([]byte{ms.OP_0, ms.OP_1, ms.OP_1, 0x52, 0x53, 0x54, 0x55, 0x58, 0x5f, ms.OP_16, ms.OP_1NEGATE})
}

// soupAtoms appends n atoms to b. depth bounds the nesting of structured
// conditionals.
func soupAtoms(t *rapid.T, b *ms.Builder, n, depth int, pushy bool) {
	for i := 0; i < n; i++ {
		w := rapid.IntRange(0, 99).Draw(t, "atom")
		if pushy && w >= 40 && w < 90 {
			w = w % 40
		}
		switch {
		case w < 30:
			b.Op(genSmallInt().Draw(t, "small"))
		case w < 40:
			l := rapid.SampledFrom(pushLens).Draw(t, "pushLen")
			data := fill(l, rapid.Byte().Draw(t, "pushByte"))
			if l > 0 && l <= 4 {
				data = rapid.SliceOfN(rapid.Byte(), l, l).Draw(t, "pushData")
			}
			b.Raw(pushWith(data, rapid.SampledFrom([]int{0, 0, 0, 1, 2, 3, 4}).Draw(t, "pushForm")))
		case w < 42:
			// malformed push: the opcode announces more than is there
			switch rapid.IntRange(0, 3).Draw(t, "trunc") {
			case 0:
				b.Op(byte(rapid.IntRange(1, 75).Draw(t, "direct")))
			case 1:
				b.Op(ms.OP_PUSHDATA1)
			case 2:
				b.Op(ms.OP_PUSHDATA2, 0xff)
			default:
				b.Op(ms.OP_PUSHDATA4, 0xff, 0xff, 0xff, 0x7f, 1, 2, 3)
			}
		case w < 50:
			b.Op(rapid.Byte().Draw(t, "anyByte"))
		case w < 66:
			b.Op(rapid.SampledFrom(stackOps).Draw(t, "stackOp"))
		case w < 74:
			b.Op(rapid.SampledFrom(arithOps).Draw(t, "arithOp"))
		case w < 79:
			b.Op(rapid.SampledFrom([]byte{ms.OP_IF, ms.OP_NOTIF, ms.OP_ELSE, ms.OP_ENDIF, ms.OP_ENDIF}).Draw(t, "condOp"))
		case w < 85:
			if depth > 0 {
				// structured conditional with soup in both arms
				b.Op(genSmallInt().Draw(t, "sel"))
				b.Op(rapid.SampledFrom([]byte{ms.OP_IF, ms.OP_NOTIF}).Draw(t, "if"))
				soupAtoms(t, b, rapid.IntRange(0, 4).Draw(t, "thenLen"), depth-1, pushy)
				if rapid.Bool().Draw(t, "else") {
					b.Op(ms.OP_ELSE)
					soupAtoms(t, b, rapid.IntRange(0, 4).Draw(t, "elseLen"), depth-1, pushy)
				}
				b.Op(ms.OP_ENDIF)
			} else {
				b.Op(ms.OP_NOP)
			}
		case w < 88:
			b.Op(rapid.SampledFrom(badOps).Draw(t, "badOp"))
		case w < 92:
			b.Op(rapid.SampledFrom(hashOps).Draw(t, "hashOp"))
		default:
			b.Op(rapid.SampledFrom(miscOps).Draw(t, "miscOp"))
		}
	}
}

func genSoupScript(t *rapid.T, label string, pushy bool) []byte {
	b := &ms.Builder{}
	n := rapid.SampledFrom([]int{0, 1, 2, 3, 4, 6, 8, 12, 20, 40}).Draw(t, label+"Len")
	soupAtoms(t, b, n, 2, pushy)
	if rapid.IntRange(0, 2).Draw(t, label+"Tail") == 0 {
		b.Op(ms.OP_1)
	}
	return b.B
}

// genSoupSpend places soup scripts in one of the script layers.
func genSoupSpend(t *rapid.T) *spend {
	sk := genSkeleton(t, 1)
	idx := rapid.IntRange(0, len(sk.tx.In)-1).Draw(t, "idx")
	layer := rapid.SampledFrom([]string{"bare", "p2sh", "tapscript", "p2wsh", "p2sh", "p2sh-p2wsh", "tapscript", "bare", "p2sh"}).Draw(t, "layer")
	s := &spend{tx: sk.tx, idx: idx, prevouts: sk.prevouts, gen: "g1-soup:" + layer}
	in := &sk.tx.In[idx]
	switch layer {
	case "bare":
		in.ScriptSig = genSoupScript(t, "sig", true)
		sk.prevouts[idx].PkScript = genSoupScript(t, "pk", false)
		if rapid.IntRange(0, 3).Draw(t, "strayWitness") == 3 {
			in.Witness = [][]byte{{1}}
		}
	case "p2sh":
		redeem := genSoupScript(t, "redeem", false)
		sig := genSoupScript(t, "sig", true)
		in.ScriptSig = append(sig, pushWith(redeem, rapid.SampledFrom([]int{0, 0, 0, 1, 2}).Draw(t, "redeemForm"))...)
		sk.prevouts[idx].PkScript = ms.P2SHScript(redeem)
	case "p2wsh", "p2sh-p2wsh":
		ws := genSoupScript(t, "ws", false)
		nItems := rapid.IntRange(0, 4).Draw(t, "nItems")
		for i := 0; i < nItems; i++ {
			in.Witness = append(in.Witness, rapid.SliceOfN(rapid.Byte(), 0, 3).Draw(t, "witItem"))
		}
		in.Witness = append(in.Witness, ws)
		prog := ms.P2WSHScript(ws)
		if layer == "p2wsh" {
			sk.prevouts[idx].PkScript = prog
		} else {
			sk.prevouts[idx].PkScript = ms.P2SHScript(prog)
			in.ScriptSig = ms.PushData(prog)
		}
	case "tapscript":
		leaf := genSoupScript(t, "leaf", false)
		tree := ms.BuildTapTree(key(rapid.IntRange(0, 3).Draw(t, "internal")), []ms.TapLeaf{{Version: 0xc0, Script: leaf}}, nil)
		nItems := rapid.IntRange(0, 4).Draw(t, "nItems")
		for i := 0; i < nItems; i++ {
			in.Witness = append(in.Witness, rapid.SliceOfN(rapid.Byte(), 0, 3).Draw(t, "witItem"))
		}
		in.Witness = append(in.Witness, leaf, tree.ControlBlock(0))
		sk.prevouts[idx].PkScript = tree.PkScript()
	}
	sk.finalizeOutpoints()
	if len(in.Witness) > 0 && layer != "bare" && rapid.IntRange(0, 4).Draw(t, "witprogTarget") == 4 {
		// one edit at the witness-program level
		switch rapid.IntRange(0, 2).Draw(t, "witprogEdit") {
		case 0:
			pk := append([]byte{}, sk.prevouts[idx].PkScript...)
			pk[len(pk)-1] ^= 1
			sk.prevouts[idx].PkScript = pk
		case 1:
			w := cloneItems(in.Witness)
			w[len(w)-1] = append(w[len(w)-1], 0x61)
			in.Witness = w
		default:
			in.ScriptSig = append([]byte{ms.OP_0}, in.ScriptSig...)
		}
		s.gen += "+witprog-edit"
	}
	return s
}

func propSoup(t *rapid.T) {
	s := genSoupSpend(t)
	fs := genFlagSet().Draw(t, "flags")
	compare(t, recSoup, s, fs)
}

func TestSoup(t *testing.T) { rapid.Check(t, propSoup) }

// FuzzSoup is the native fuzz target of the thorough tier: the fuzzer's bytes
// drive the same generator through rapid.MakeFuzz.
func FuzzSoup(f *testing.F) {
	f.Add([]byte{0})
	f.Add([]byte("C06 soup seed: IF ELSE ENDIF CHECKSIG 0x4c 0xff"))
	f.Add(fill(512, 0xff))
	f.Add(fill(512, 0x55))
	f.Fuzz(rapid.MakeFuzz(propSoup))
}
