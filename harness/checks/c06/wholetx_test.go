package c06

import (
	"fmt"
	"strings"
	"testing"

	"github.com/btcsuite/btcd/blockchain"
	"github.com/btcsuite/btcd/btcutil/v2"
	"github.com/btcsuite/btcd/txscript/v2"
	"github.com/btcsuite/btcd/wire/v2"
	"pgregory.net/rapid"

	"verif/internal/ev"
	ms "verif/internal/model/script"
)

var recWhole = ev.New("C06", "whole-transaction",
	"transactions with 1-4 inputs, every input an independent G3 plan (low mutation rate so that all-valid transactions are frequent); "+
		"the previous outputs live in one funding transaction added to a blockchain.UtxoViewpoint through AddTxOuts; "+
		"oracle: blockchain.ValidateTransactionScripts(tx, view, flags, sigCache, hashCache) == nil <=> the model accepts every input (conjunction); "+
		"non-trivial = at least two inputs; distinct by hash(tx, prevouts, flags)",
	"all-valid", "one-invalid", "several-invalid")

func propWholeTx(t *rapid.T) {
	sk := genSkeleton(t, 1)
	plans := make([]*plan, len(sk.tx.In))
	for i := range sk.tx.In {
		plans[i] = genPlan(t, sk, i, false, []int{0, 0, 0, 0, 15, 30})
		sk.prevouts[i] = plans[i].prevout
	}
	sk.finalizeOutpoints()
	var labels []string
	for i, p := range plans {
		p.sign(t, sk.tx, i, sk.prevouts)
		labels = append(labels, fmt.Sprintf("%d:%s{%s}", i, p.label, strings.Join(p.notes, "; ")))
	}
	fs := genFlagSetWitnessHeavy().Draw(t, "flags")

	// model: conjunction over inputs (plain, and with every known btcd deviation emulated)
	invalid := 0
	var results []string
	for i := range sk.tx.In {
		r := ms.Verify(sk.tx, i, sk.prevouts, fs.model)
		if !r.Valid() {
			invalid++
		}
		results = append(results, r.String())
	}
	class := "all-valid"
	if invalid == 1 {
		class = "one-invalid"
	} else if invalid > 1 {
		class = "several-invalid"
	}
	whole := &spend{tx: sk.tx, idx: 0, prevouts: sk.prevouts, gen: "whole-tx", note: strings.Join(labels, " | ")}
	recWhole.Case(len(sk.tx.In) >= 2, class, whole.hash(fs.model), func() any {
		return map[string]any{"case": whole.describe(fs), "model": results}
	})
	recWhole.Count("flags:"+fs.name, 1)
	recWhole.Count(fmt.Sprintf("inputs:%d", len(sk.tx.In)), 1)

	// btcd: funding transaction into a view
	fund := toWire(fundingTx(sk.prevouts))
	mtx := toWire(sk.tx)
	fid := fund.TxHash()
	for i, in := range mtx.TxIn {
		if in.PreviousOutPoint.Hash != fid || in.PreviousOutPoint.Index != uint32(i) {
			t.Fatalf("VERIF-INFRA: model txid of the funding transaction differs from wire's: %v vs %v", in.PreviousOutPoint, fid)
		}
	}
	view := blockchain.NewUtxoViewpoint()
	view.AddTxOuts(btcutil.NewTx(fund), 1)
	for _, in := range mtx.TxIn {
		if view.LookupEntry(in.PreviousOutPoint) == nil {
			// provably unspendable output scripts are never stored in a view:
			// such a spend cannot reach script validation at all
			recWhole.Count("skipped-unspendable-prevout", 1)
			return
		}
	}
	err := func() (err error) {
		defer func() {
			if r := recover(); r != nil {
				err = fmt.Errorf("PANIC: %v", r)
			}
		}()
		return blockchain.ValidateTransactionScripts(btcutil.NewTx(mtx), view, fs.btcd,
			txscript.NewSigCache(100), txscript.NewHashCache(10))
	}()
	if err != nil && strings.HasPrefix(err.Error(), "PANIC") {
		t.Fatalf("btcd panicked: %v\n%s", err, whole.describe(fs))
	}
	if (err == nil) != (invalid == 0) {
		// is the disagreement explained by listed known findings alone?
		var q ms.Quirks
		var sigs []string
		for _, k := range knownQuirks {
			if ev.IsKnown("C06", k.sig) {
				q |= k.q
				sigs = append(sigs, k.sig)
			}
		}
		inv2 := 0
		for i := range sk.tx.In {
			if !ms.VerifyQuirks(sk.tx, i, sk.prevouts, fs.model, q).Valid() {
				inv2++
			}
		}
		if q != 0 && (err == nil) == (inv2 == 0) {
			// attribute to the single quirk that explains it, if one does
			for _, k := range knownQuirks {
				if !ev.IsKnown("C06", k.sig) {
					continue
				}
				n := 0
				for i := range sk.tx.In {
					if !ms.VerifyQuirks(sk.tx, i, sk.prevouts, fs.model, k.q).Valid() {
						n++
					}
				}
				if (err == nil) == (n == 0) {
					recWhole.Known(k.sig, fmt.Sprintf("btcd accepts=%v, Core semantics (model) accept=%v", err == nil, invalid == 0))
					break
				}
			}
			recWhole.Excluded()
			return
		}
		t.Fatalf("ValidateTransactionScripts err=%v but the model's per-input verdicts are %v\n%s", err, results, whole.describe(fs))
	}
}

func TestWholeTx(t *testing.T) { rapid.Check(t, propWholeTx) }

var _ = wire.TxVersion
