package c06

import (
	"math/big"

	"pgregory.net/rapid"

	ms "verif/internal/model/script"
	"verif/internal/model/secp"
)

// ECDSA signature construction with the mutation catalogue of DESIGN C06 G3.

var (
	definedHashTypes   = []byte{1, 1, 1, 2, 3, 0x81, 0x82, 0x83}
	// undefined hash types: besides the obvious ones, bytes whose low five bits
	// select NONE/SINGLE while bits 0x20/0x40 are set (BIP143 and the legacy
	// digest mask with 0x1f; a mask of ~0x80 would treat them as ALL)
	undefinedHashTypes = []byte{0, 4, 5, 0x1f, 0x20, 0x41, 0x80, 0x84, 0xe1, 0xff, 0x22, 0x23, 0x42, 0x43, 0x62, 0x63, 0xa2, 0xa3, 0xc2, 0xc3, 0xe2, 0xe3}
	tapHashTypes       = []byte{0, 0, 1, 2, 3, 0x81, 0x82, 0x83}
	tapBadHashTypes    = []byte{4, 0x10, 0x80, 0x84, 0x7f, 0xff}
)

const (
	encStrict = iota
	encPadR
	encPadS
	encLongSeqLen
	encWrongSeqLen
	encTrailing
	encLongRLen
	encNegativeR
	encGarbage
	encOverflowS
	encOverflowR
	encZeroS
	encHugeR
	nEnc
)

type sigOpts struct {
	hashType     byte
	postHashType int // -1: keep
	highS        bool
	enc          int
	flip         int // -1 none, else index (mod len) of the byte whose low bit is flipped
	empty        bool
	wrongKey     bool
	note         string
}

func cleanSig(ht byte) sigOpts { return sigOpts{hashType: ht, postHashType: -1, flip: -1} }

// genSigOpts draws the options for one ECDSA signature: mostly clean with a
// defined hash type; pMut in percent selects one mutation.
func genSigOpts(t *rapid.T, pMut int) sigOpts {
	o := cleanSig(rapid.SampledFrom(definedHashTypes).Draw(t, "hashType"))
	if rapid.IntRange(0, 99).Draw(t, "sigMut?") >= pMut {
		return o
	}
	switch rapid.IntRange(0, 8).Draw(t, "sigMut") {
	case 0:
		o.flip = rapid.IntRange(0, 80).Draw(t, "flipAt")
		o.note = "sig-byte-flip"
	case 1:
		o.hashType = rapid.SampledFrom(undefinedHashTypes).Draw(t, "undefHashType")
		o.note = "signed-with-undefined-hashtype"
	case 2:
		o.postHashType = int(rapid.SampledFrom(append(append([]byte{}, definedHashTypes...), undefinedHashTypes...)).Draw(t, "postHashType"))
		o.note = "hashtype-byte-changed-after-signing"
	case 3:
		o.highS = true
		o.note = "high-S"
	case 4:
		o.enc = rapid.IntRange(1, nEnc-1).Draw(t, "enc")
		o.note = "non-DER-encoding-" + encName(o.enc)
	case 5:
		o.empty = true
		o.note = "empty-sig"
	case 6:
		o.wrongKey = true
		o.note = "wrong-key"
	case 7:
		o.highS = true
		o.enc = rapid.SampledFrom([]int{encPadR, encPadS, encNegativeR}).Draw(t, "enc2")
		o.note = "high-S+" + encName(o.enc)
	default:
		o.hashType = rapid.SampledFrom(definedHashTypes).Draw(t, "ht2")
		o.enc = rapid.SampledFrom([]int{encPadR, encPadS, encLongSeqLen, encWrongSeqLen, encTrailing, encNegativeR}).Draw(t, "enc3")
		o.note = "lax-only-encoding-" + encName(o.enc)
	}
	return o
}

func encName(e int) string {
	return []string{"strict", "padR", "padS", "longSeqLen", "wrongSeqLen", "trailing", "longRLen", "negativeR", "garbage",
		"overflowS", "overflowR", "zeroS", "hugeR"}[e]
}

func derInt(v *big.Int, pad bool, negative bool) []byte {
	b := v.Bytes()
	if len(b) == 0 {
		b = []byte{0}
	}
	if b[0]&0x80 != 0 && !negative {
		b = append([]byte{0}, b...)
	}
	if pad {
		b = append([]byte{0}, b...)
	}
	return b
}

// encodeSig serializes (r, s) in the chosen (possibly invalid) encoding,
// without the hash type byte.
func encodeSig(r, s *big.Int, enc int) []byte {
	rb, sb := derInt(r, false, false), derInt(s, false, false)
	switch enc {
	case encPadR:
		rb = derInt(r, true, false)
	case encPadS:
		sb = derInt(s, true, false)
	case encNegativeR:
		rb = derInt(r, false, true)
	case encOverflowS:
		sb = derInt(new(big.Int).Add(s, secp.N), false, false)
	case encOverflowR:
		rb = derInt(new(big.Int).Add(r, secp.N), false, false)
	case encZeroS:
		sb = []byte{0}
	case encHugeR:
		// 40-byte R: valid BIP66 structure, cannot fit the group order
		rb = append([]byte{1}, make([]byte, 39)...)
	case encGarbage:
		return []byte{0x30, 0x05, 0x02, 0x01, 0x01, 0x02}
	}
	rPart := append([]byte{0x02, byte(len(rb))}, rb...)
	if enc == encLongRLen {
		rPart = append([]byte{0x02, 0x81, byte(len(rb))}, rb...)
	}
	body := append(rPart, append([]byte{0x02, byte(len(sb))}, sb...)...)
	switch enc {
	case encLongSeqLen:
		return append([]byte{0x30, 0x81, byte(len(body))}, body...)
	case encWrongSeqLen:
		return append([]byte{0x30, byte(len(body) + 1)}, body...)
	case encTrailing:
		return append(append([]byte{0x30, byte(len(body))}, body...), 0x00, 0x01)
	}
	return append([]byte{0x30, byte(len(body))}, body...)
}

// makeECDSASig signs digest(hashType) with k under the options.
func makeECDSASig(k *ms.Key, digest func(hashType byte) []byte, o sigOpts) []byte {
	if o.empty {
		return []byte{}
	}
	signer := k
	if o.wrongKey {
		signer = key(23)
	}
	r, s := signer.SignECDSAHash(digest(o.hashType), nil)
	if o.highS {
		s = new(big.Int).Sub(secp.N, s)
	}
	sig := encodeSig(r, s, o.enc)
	ht := o.hashType
	if o.postHashType >= 0 {
		ht = byte(o.postHashType)
	}
	sig = append(sig, ht)
	if o.flip >= 0 {
		sig[o.flip%len(sig)] ^= 1
	}
	return sig
}
