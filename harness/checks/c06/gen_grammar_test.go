package c06

import (
	"bytes"
	"fmt"
	"strings"
	"testing"

	"pgregory.net/rapid"

	"verif/internal/ev"
	ms "verif/internal/model/script"
)

// G2: stack-aware grammar. The generator keeps an abstract stack (concrete
// values where it knows them, placeholders for signatures that can only be
// made once the script is complete) and emits opcodes whose preconditions
// hold, so that execution runs deep. It steers only; the verdict always comes
// from the model interpreter.

var recGrammar = ev.New("C06", "stack-aware-grammar",
	"G2: scripts emitted opcode by opcode against an abstract stack so that preconditions hold: numbers at the 4/5-byte and minimal-encoding "+
		"boundaries, arithmetic/comparison, stack shuffles, PICK/ROLL at boundary indices, altstack, hashing, EQUAL(VERIFY), nested IF/NOTIF/ELSE with dead "+
		"branches holding reserved/disabled/unbalanced material, CHECKSIG/CHECKSIGVERIFY/CHECKSIGADD/CHECKMULTISIG on real keys with signatures made by the "+
		"model signer after the script is complete (per-signature code separator position), CLTV/CSV operands derived from the tx context, code separators; "+
		"occasional deliberate precondition violations; placed bare / P2SH / P2WSH / P2SH-P2WSH / tapscript leaf; flags = history + standard; "+
		"oracle = independent interpreter; non-trivial = model dispatched >= 1 opcode in the last layer; distinct by hash(tx, prevouts, flags)",
	"valid", "invalid@scriptPubKey", "invalid@redeem", "invalid@witscript")

const (
	svBase = iota
	svV0
	svTap
)

type aItem struct {
	known bool
	val   []byte
	hole  int // index into holes, -1 if none
	id    int
}

type sigHole struct {
	k         *ms.Key
	pubFmt    int
	mode      int // 0 valid, 1 wrong key, 2 byte flip
	hashType  byte
	codeStart int
	sepPos    uint32
	used      bool
}

type gram struct {
	t      *rapid.T
	sv     int
	flags  ms.Flags
	tx     *ms.Tx
	idx    int
	b      ms.Builder
	stack  []aItem
	alt    []aItem
	init   []aItem
	holes  []*sigHole
	ops    int
	pos    int // opcode position of the next opcode
	cStart int
	sepPos uint32
	dead   bool
	nextID int
	notes  []string
}

func (g *gram) note(s string) { g.notes = append(g.notes, s) }

func (g *gram) minimalData() bool { return g.flags&ms.MinimalData != 0 }

func (g *gram) op(o byte) {
	g.b.Op(o)
	g.pos++
	if o > ms.OP_16 {
		g.ops++
	}
}

func (g *gram) kn(v []byte) aItem {
	g.nextID++
	return aItem{known: true, val: v, hole: -1, id: g.nextID}
}

func (g *gram) opaque() aItem { g.nextID++; return aItem{hole: -1, id: g.nextID} }

func (g *gram) push(it aItem) { g.stack = append(g.stack, it) }

func (g *gram) pop() aItem {
	it := g.stack[len(g.stack)-1]
	g.stack = g.stack[:len(g.stack)-1]
	return it
}

func (g *gram) top(i int) *aItem { return &g.stack[len(g.stack)-1-i] } // 0 = top

// pushData emits a push of data (minimal form unless form > 0) and tracks it.
func (g *gram) pushData(data []byte, form int) {
	g.b.Raw(pushWith(data, form))
	g.pos++
	g.push(g.kn(append([]byte{}, data...)))
	if len(data) > ms.MaxScriptElementSize {
		g.dead = true
	}
	if form != 0 && g.minimalData() && !bytes.Equal(pushWith(data, form), pushWith(data, 0)) {
		g.dead = true
	}
}

func (g *gram) pushNum(n int64) { g.pushData(ms.EncodeNum(n), 0) }

var boundaryNums = []int64{0, 1, -1, 2, 16, 17, 127, 128, -127, -128, 255, 256, 32767, 32768, -32768, 8388607, 8388608,
	2147483647, -2147483647, 2147483646, 2147483648, -2147483648, 4294967295, 549755813887}

func (g *gram) num(it *aItem) (int64, bool) {
	if !it.known {
		return 0, false
	}
	n, err := ms.DecodeNum(it.val, g.minimalData(), 4)
	return n, err == nil
}

func truthy(it *aItem) (bool, bool) {
	if it.known {
		return ms.CastToBool(it.val), true
	}
	return true, true // signatures and hashes: non-zero
}

// step emits one construct; returns false if no precondition matched.
func (g *gram) step(depth int) {
	t := g.t
	d := len(g.stack)
	for try := 0; try < 6; try++ {
		switch rapid.IntRange(0, 27).Draw(t, "step") {
		case 0, 1:
			n := rapid.SampledFrom(boundaryNums).Draw(t, "num")
			if rapid.IntRange(0, 9).Draw(t, "smallNum") < 5 {
				n = int64(rapid.IntRange(-2, 20).Draw(t, "small"))
			}
			if rapid.IntRange(0, 39).Draw(t, "nonMinimalNum") == 0 {
				// non-minimal encodings: trailing zero byte, negative zero
				enc := append(ms.EncodeNum(n), 0x00)
				if n == 0 {
					enc = rapid.SampledFrom([][]byte{{0x00}, {0x80}, {0x00, 0x00}, {0x00, 0x80}}).Draw(t, "zeroEnc")
				} else if n < 0 {
					enc = ms.EncodeNum(n)
					enc[len(enc)-1] &= 0x7f
					enc = append(enc, 0x80)
				}
				g.pushData(enc, 1)
				g.note("non-minimal-number")
			} else {
				g.pushNum(n)
			}
			return
		case 2:
			l := rapid.SampledFrom([]int{1, 2, 3, 4, 5, 20, 32, 33, 75, 76, 255, 256, 519, 520, 520, 1, 2, 3, 4, 5, 20, 32, 33, 75, 76, 255, 256, 519, 520, 520, 521}).Draw(t, "dataLen")
			form := 0
			if rapid.IntRange(0, 14).Draw(t, "form?") == 0 {
				form = rapid.IntRange(1, 4).Draw(t, "form")
			}
			g.pushData(fill(l, byte(rapid.IntRange(1, 255).Draw(t, "fillByte"))), form)
			return
		case 3, 4:
			if d < 1 {
				continue
			}
			n, ok := g.num(g.top(0))
			if !ok && rapid.IntRange(0, 19).Draw(t, "forceUnary") != 0 {
				continue
			}
			o := rapid.SampledFrom([]byte{ms.OP_1ADD, ms.OP_1SUB, ms.OP_NEGATE, ms.OP_ABS, ms.OP_NOT, ms.OP_0NOTEQUAL}).Draw(t, "unary")
			g.op(o)
			g.pop()
			if !ok {
				g.dead = true
				g.push(g.opaque())
				return
			}
			switch o {
			case ms.OP_1ADD:
				n++
			case ms.OP_1SUB:
				n--
			case ms.OP_NEGATE:
				n = -n
			case ms.OP_ABS:
				if n < 0 {
					n = -n
				}
			case ms.OP_NOT:
				if n == 0 {
					n = 1
				} else {
					n = 0
				}
			case ms.OP_0NOTEQUAL:
				if n != 0 {
					n = 1
				}
			}
			g.push(g.kn(ms.EncodeNum(n)))
			return
		case 5, 6:
			if d < 2 {
				continue
			}
			b, okb := g.num(g.top(0))
			a, oka := g.num(g.top(1))
			if !(oka && okb) && rapid.IntRange(0, 19).Draw(t, "forceBinary") != 0 {
				continue
			}
			o := rapid.SampledFrom([]byte{ms.OP_ADD, ms.OP_SUB, ms.OP_BOOLAND, ms.OP_BOOLOR, ms.OP_NUMEQUAL, ms.OP_NUMNOTEQUAL,
				ms.OP_LESSTHAN, ms.OP_GREATERTHAN, ms.OP_LESSTHANOREQUAL, ms.OP_GREATERTHANOREQUAL, ms.OP_MIN, ms.OP_MAX, ms.OP_NUMEQUALVERIFY}).Draw(t, "binary")
			if o == ms.OP_NUMEQUALVERIFY && a != b && rapid.IntRange(0, 9).Draw(t, "forceNumEqualVerify") != 0 {
				o = ms.OP_NUMEQUAL
			}
			g.op(o)
			g.pop()
			g.pop()
			if !(oka && okb) {
				g.dead = true
				g.push(g.opaque())
				return
			}
			b2i := func(x bool) int64 {
				if x {
					return 1
				}
				return 0
			}
			var r int64
			switch o {
			case ms.OP_ADD:
				r = a + b
			case ms.OP_SUB:
				r = a - b
			case ms.OP_BOOLAND:
				r = b2i(a != 0 && b != 0)
			case ms.OP_BOOLOR:
				r = b2i(a != 0 || b != 0)
			case ms.OP_NUMEQUAL, ms.OP_NUMEQUALVERIFY:
				r = b2i(a == b)
			case ms.OP_NUMNOTEQUAL:
				r = b2i(a != b)
			case ms.OP_LESSTHAN:
				r = b2i(a < b)
			case ms.OP_GREATERTHAN:
				r = b2i(a > b)
			case ms.OP_LESSTHANOREQUAL:
				r = b2i(a <= b)
			case ms.OP_GREATERTHANOREQUAL:
				r = b2i(a >= b)
			case ms.OP_MIN:
				r = a
				if b < a {
					r = b
				}
			case ms.OP_MAX:
				r = a
				if b > a {
					r = b
				}
			}
			if o == ms.OP_NUMEQUALVERIFY {
				if r == 0 {
					g.dead = true
				}
				return
			}
			g.push(g.kn(ms.EncodeNum(r)))
			return
		case 7:
			if d < 3 {
				continue
			}
			c, okc := g.num(g.top(0))
			b, okb := g.num(g.top(1))
			a, oka := g.num(g.top(2))
			if !(oka && okb && okc) {
				continue
			}
			g.op(ms.OP_WITHIN)
			g.pop()
			g.pop()
			g.pop()
			if b <= a && a < c {
				g.push(g.kn([]byte{1}))
			} else {
				g.push(g.kn([]byte{}))
			}
			return
		case 8, 9, 10:
			if g.shuffle() {
				return
			}
		case 11:
			// PICK / ROLL with boundary indices
			if d < 1 {
				continue
			}
			var n int
			switch rapid.IntRange(0, 19).Draw(t, "pickIdx") {
			case 0, 1, 2:
				n = 0
			case 3, 4, 5, 6, 7, 8:
				n = d - 1
			case 9:
				n = d // one past the bottom: fails
			case 10:
				n = -1
			default:
				n = rapid.IntRange(0, d-1).Draw(t, "pickAny")
			}
			o := rapid.SampledFrom([]byte{ms.OP_PICK, ms.OP_ROLL}).Draw(t, "pickOp")
			g.pushNum(int64(n))
			g.op(o)
			g.pop()
			if n < 0 || n >= len(g.stack) {
				g.dead = true
				return
			}
			i := len(g.stack) - 1 - n
			it := g.stack[i]
			if o == ms.OP_ROLL {
				g.stack = append(g.stack[:i:i], g.stack[i+1:]...)
			}
			g.push(it)
			return
		case 12:
			if d >= 1 && rapid.Bool().Draw(t, "toAlt") {
				g.op(ms.OP_TOALTSTACK)
				g.alt = append(g.alt, g.pop())
				return
			}
			if len(g.alt) >= 1 || rapid.IntRange(0, 29).Draw(t, "forceFromAlt") == 0 {
				g.op(ms.OP_FROMALTSTACK)
				if len(g.alt) == 0 {
					g.dead = true
					return
				}
				g.push(g.alt[len(g.alt)-1])
				g.alt = g.alt[:len(g.alt)-1]
				return
			}
		case 13:
			if d < 1 {
				continue
			}
			o := rapid.SampledFrom(hashOps).Draw(t, "hash")
			g.op(o)
			it := g.pop()
			if it.known {
				g.push(g.kn(hashWith(o, it.val)))
			} else {
				g.push(g.opaque())
			}
			return
		case 14:
			// EQUAL / EQUALVERIFY on a prepared pair
			if d < 1 || !g.top(0).known {
				continue
			}
			v := append([]byte{}, g.top(0).val...)
			same := rapid.IntRange(0, 3).Draw(t, "equalSame") != 0
			if rapid.Bool().Draw(t, "viaDup") {
				g.op(ms.OP_DUP)
				g.push(*g.top(0))
			} else {
				if !same {
					v = append(v, 1)
				}
				if len(v) > 520 {
					continue
				}
				g.pushData(v, 0)
			}
			eq := bytes.Equal(g.top(0).val, g.top(1).val)
			o := rapid.SampledFrom([]byte{ms.OP_EQUAL, ms.OP_EQUAL, ms.OP_EQUALVERIFY}).Draw(t, "equalOp")
			g.op(o)
			g.pop()
			g.pop()
			if o == ms.OP_EQUALVERIFY {
				if !eq {
					g.dead = true
				}
				return
			}
			if eq {
				g.push(g.kn([]byte{1}))
			} else {
				g.push(g.kn([]byte{}))
			}
			return
		case 15:
			if d < 1 || !g.top(0).known {
				continue
			}
			g.op(ms.OP_SIZE)
			g.push(g.kn(ms.EncodeNum(int64(len(g.top(0).val)))))
			return
		case 16:
			g.op(ms.OP_DEPTH)
			g.push(g.kn(ms.EncodeNum(int64(d))))
			return
		case 17, 18:
			if depth > 0 {
				g.conditional(depth)
				return
			}
		case 19:
			if d < 1 {
				continue
			}
			tr, _ := truthy(g.top(0))
			if !tr && rapid.IntRange(0, 14).Draw(t, "forceVerify") != 0 {
				continue
			}
			g.op(ms.OP_VERIFY)
			g.pop()
			if !tr {
				g.dead = true
			}
			return
		case 20, 21:
			if g.checksig() {
				return
			}
		case 22:
			if g.sv != svTap && g.checkmultisig() {
				return
			}
		case 23:
			g.locktime()
			return
		case 24:
			g.op(ms.OP_CODESEPARATOR)
			g.cStart = len(g.b.B)
			g.sepPos = uint32(g.pos - 1)
			if g.sv == svBase && g.flags&ms.ConstScriptCode != 0 {
				g.dead = true
			}
			return
		case 25:
			o := rapid.SampledFrom([]byte{ms.OP_NOP, ms.OP_NOP, ms.OP_NOP1, ms.OP_NOP4, ms.OP_NOP10}).Draw(t, "nop")
			g.op(o)
			if o != ms.OP_NOP && g.flags&ms.DiscourageUpgradableNops != 0 {
				g.dead = true
			}
			return
		case 26:
			if d < 1 {
				continue
			}
			g.op(ms.OP_IFDUP)
			if tr, _ := truthy(g.top(0)); tr {
				g.push(*g.top(0))
			}
			return
		default:
			// rare deliberate failures
			if rapid.IntRange(0, 9).Draw(t, "rareFail") != 0 {
				continue
			}
			o := rapid.SampledFrom([]byte{ms.OP_RETURN, ms.OP_RESERVED, ms.OP_VER, ms.OP_RESERVED1, ms.OP_2MUL, ms.OP_CAT, 0xbb, 0xff, ms.OP_VERIF}).Draw(t, "failOp")
			g.op(o)
			g.dead = true
			g.note(fmt.Sprintf("executed-%#x", o))
			return
		}
	}
	g.pushNum(int64(rapid.IntRange(0, 3).Draw(t, "fallback")))
}

// shuffle emits a pure stack manipulation opcode if the depth allows.
func (g *gram) shuffle() bool {
	t := g.t
	type sop struct {
		op   byte
		need int
	}
	ops := []sop{{ms.OP_DUP, 1}, {ms.OP_DROP, 1}, {ms.OP_SWAP, 2}, {ms.OP_OVER, 2}, {ms.OP_ROT, 3}, {ms.OP_TUCK, 2}, {ms.OP_NIP, 2},
		{ms.OP_2DUP, 2}, {ms.OP_3DUP, 3}, {ms.OP_2OVER, 4}, {ms.OP_2ROT, 6}, {ms.OP_2SWAP, 4}, {ms.OP_2DROP, 2}}
	o := rapid.SampledFrom(ops).Draw(t, "shuffle")
	d := len(g.stack)
	if d < o.need {
		if rapid.IntRange(0, 39).Draw(t, "forceShuffle") != 0 {
			return false
		}
		g.op(o.op)
		g.dead = true
		return true
	}
	g.op(o.op)
	s := g.stack
	switch o.op {
	case ms.OP_DUP:
		g.push(s[d-1])
	case ms.OP_DROP:
		g.pop()
	case ms.OP_SWAP:
		s[d-1], s[d-2] = s[d-2], s[d-1]
	case ms.OP_OVER:
		g.push(s[d-2])
	case ms.OP_ROT:
		s[d-3], s[d-2], s[d-1] = s[d-2], s[d-1], s[d-3]
	case ms.OP_TUCK:
		a, b := s[d-2], s[d-1]
		g.stack = append(s[:d-2:d-2], b, a, b)
	case ms.OP_NIP:
		s[d-2] = s[d-1]
		g.pop()
	case ms.OP_2DUP:
		g.push(s[d-2])
		g.push(s[d-1])
	case ms.OP_3DUP:
		g.push(s[d-3])
		g.push(s[d-2])
		g.push(s[d-1])
	case ms.OP_2OVER:
		g.push(s[d-4])
		g.push(s[d-3])
	case ms.OP_2ROT:
		a, b := s[d-6], s[d-5]
		g.stack = append(append(s[:d-6:d-6], s[d-4:]...), a, b)
	case ms.OP_2SWAP:
		s[d-4], s[d-2] = s[d-2], s[d-4]
		s[d-3], s[d-1] = s[d-1], s[d-3]
	case ms.OP_2DROP:
		g.pop()
		g.pop()
	}
	return true
}

var selectors = [][]byte{{}, {1}, {1}, {}, {}, {1}, {2}, {0}, {1, 0}, {0x80}, {0x81}, {0, 0}}

// conditional emits <selector> IF|NOTIF block [ELSE block] ENDIF.
func (g *gram) conditional(depth int) {
	t := g.t
	sel := rapid.SampledFrom(selectors).Draw(t, "selector")
	g.pushData(sel, 0)
	minimal := len(sel) == 0 || (len(sel) == 1 && sel[0] == 1)
	if !minimal {
		if g.sv == svTap || (g.sv == svV0 && g.flags&ms.MinimalIf != 0) {
			g.dead = true
		}
		g.note("non-minimal-if-argument")
	}
	o := rapid.SampledFrom([]byte{ms.OP_IF, ms.OP_IF, ms.OP_NOTIF}).Draw(t, "ifOp")
	g.op(o)
	it := g.pop()
	taken := ms.CastToBool(it.val)
	if o == ms.OP_NOTIF {
		taken = !taken
	}
	n1 := rapid.IntRange(0, 5).Draw(t, "thenLen")
	g.block(n1, taken, depth-1)
	if rapid.IntRange(0, 2).Draw(t, "else") != 0 {
		g.op(ms.OP_ELSE)
		n2 := rapid.IntRange(0, 5).Draw(t, "elseLen")
		g.block(n2, !taken, depth-1)
		if rapid.IntRange(0, 9).Draw(t, "else2") == 0 {
			// a second ELSE toggles back
			g.op(ms.OP_ELSE)
			g.block(rapid.IntRange(0, 2).Draw(t, "else2Len"), taken, depth-1)
		}
	}
	if rapid.IntRange(0, 59).Draw(t, "dropEndif") == 0 {
		g.dead = true
		g.note("missing-endif")
		return
	}
	g.op(ms.OP_ENDIF)
}

var deadOps = []byte{ms.OP_RETURN, ms.OP_VERIFY, ms.OP_RESERVED, ms.OP_VER, ms.OP_RESERVED1, ms.OP_RESERVED2, ms.OP_DROP, ms.OP_2DROP,
	ms.OP_ADD, ms.OP_CHECKSIG, ms.OP_CHECKMULTISIG, ms.OP_FROMALTSTACK, ms.OP_CODESEPARATOR, ms.OP_EQUALVERIFY, ms.OP_PICK, ms.OP_1,
	ms.OP_0, ms.OP_16, ms.OP_1NEGATE, ms.OP_NOP1, ms.OP_CHECKLOCKTIMEVERIFY, ms.OP_CHECKSEQUENCEVERIFY, 0xba, 0xbb, 0xfe, 0xff, ms.OP_HASH160}

// block emits n constructs; when exec is false nothing touches the abstract
// stack and anything that only fails when executed may appear.
func (g *gram) block(n int, exec bool, depth int) {
	t := g.t
	for i := 0; i < n; i++ {
		if exec {
			if g.dead && rapid.Bool().Draw(t, "stopDead") {
				return
			}
			g.step(depth)
			continue
		}
		switch w := rapid.IntRange(0, 99).Draw(t, "deadAtom"); {
		case w < 70:
			o := rapid.SampledFrom(deadOps).Draw(t, "deadOp")
			if g.sv == svTap && ms.IsOpSuccess(o) {
				o = ms.OP_NOP
			}
			g.op(o)
			if o == ms.OP_CODESEPARATOR && g.sv == svBase && g.flags&ms.ConstScriptCode != 0 {
				g.dead = true
			}
		case w < 80:
			l := rapid.SampledFrom([]int{1, 5, 75, 76, 520, 520, 521}).Draw(t, "deadPushLen")
			g.b.Raw(pushWith(fill(l, 7), rapid.IntRange(0, 4).Draw(t, "deadPushForm")))
			g.pos++
			if l > 520 {
				g.dead = true
			}
		case w < 90:
			if depth > 0 {
				g.op(rapid.SampledFrom([]byte{ms.OP_IF, ms.OP_NOTIF}).Draw(t, "deadIf"))
				g.block(rapid.IntRange(0, 2).Draw(t, "deadIfLen"), false, depth-1)
				if rapid.Bool().Draw(t, "deadElse") {
					g.op(ms.OP_ELSE)
					g.block(rapid.IntRange(0, 2).Draw(t, "deadElseLen"), false, depth-1)
				}
				g.op(ms.OP_ENDIF)
			}
		case w < 96:
			// fails even though it is not executed
			o := rapid.SampledFrom([]byte{ms.OP_VERIF, ms.OP_VERNOTIF, ms.OP_CAT, ms.OP_SUBSTR, ms.OP_LEFT, ms.OP_RIGHT, ms.OP_INVERT, ms.OP_AND,
				ms.OP_OR, ms.OP_XOR, ms.OP_2MUL, ms.OP_2DIV, ms.OP_MUL, ms.OP_DIV, ms.OP_MOD, ms.OP_LSHIFT, ms.OP_RSHIFT}).Draw(t, "deadFatal")
			if g.sv == svTap && ms.IsOpSuccess(o) {
				// an OP_SUCCESSx in tapscript would make the whole leaf succeed
				o = ms.OP_VERIF
			}
			g.op(o)
			g.dead = true
			g.note(fmt.Sprintf("dead-branch-%#x", o))
		default:
			g.op(ms.OP_NOP)
		}
	}
}

func (g *gram) pubBytes(h *sigHole) []byte {
	if g.sv == svTap {
		return h.k.XOnly()
	}
	return encodePub(h.k, h.pubFmt)
}

// findHole returns the stack depth (0 = top) of an unused signature
// placeholder, or -1.
func (g *gram) findHole() int {
	for i := 0; i < len(g.stack); i++ {
		it := g.top(i)
		if it.hole >= 0 && !g.holes[it.hole].used {
			return i
		}
	}
	return -1
}

func (g *gram) bringToTop(depth int) {
	if depth == 0 {
		return
	}
	if depth == 1 {
		g.op(ms.OP_SWAP)
		s := g.stack
		s[len(s)-1], s[len(s)-2] = s[len(s)-2], s[len(s)-1]
		return
	}
	g.pushNum(int64(depth))
	g.op(ms.OP_ROLL)
	g.pop()
	i := len(g.stack) - 1 - depth
	it := g.stack[i]
	g.stack = append(g.stack[:i:i], g.stack[i+1:]...)
	g.push(it)
}

func (g *gram) sigOutcome(h *sigHole) bool {
	ok := h.mode == 0
	if h.used && (h.codeStart != g.cStart || h.sepPos != g.sepPos) {
		ok = false
	}
	if !h.used {
		h.used, h.codeStart, h.sepPos = true, g.cStart, g.sepPos
	}
	return ok
}

func (g *gram) checksig() bool {
	t := g.t
	var sigItem aItem
	if hd := g.findHole(); hd >= 0 && rapid.IntRange(0, 5).Draw(t, "useHole") != 0 {
		g.bringToTop(hd)
		sigItem = *g.top(0)
	} else {
		// an empty signature pushed by the script itself
		g.pushData([]byte{}, 0)
		sigItem = *g.top(0)
	}
	var h *sigHole
	valid := false
	if sigItem.hole >= 0 {
		h = g.holes[sigItem.hole]
		valid = g.sigOutcome(h)
	}
	var pub []byte
	if h != nil {
		pub = g.pubBytes(h)
	} else if g.sv == svTap {
		pub = key(0).XOnly()
	} else {
		pub = key(0).Compressed()
	}
	nonEmptyFail := h != nil && !valid
	if g.sv == svTap && rapid.IntRange(0, 9).Draw(t, "unknownPubkeyType") == 9 {
		// BIP342: a key that is neither 0 nor 32 bytes long makes any
		// non-empty signature pass (unless discouraged by policy)
		pub = rapid.SampledFrom([][]byte{{2}, fill(33, 2), fill(31, 3), fill(64, 4)}).Draw(t, "unknownPub")
		g.note("unknown-pubkey-type")
		valid = h != nil
		nonEmptyFail = false
		if g.flags&ms.DiscourageUpgradablePubkeyType != 0 {
			g.dead = true
		}
	}
	if g.sv == svTap && rapid.IntRange(0, 2).Draw(t, "useAdd") == 0 {
		n := int64(rapid.IntRange(-1, 3).Draw(t, "addend"))
		g.pushNum(n)
		g.pushData(pub, 0)
		g.op(ms.OP_CHECKSIGADD)
		g.pop()
		g.pop()
		g.pop()
		if valid {
			n++
		}
		g.push(g.kn(ms.EncodeNum(n)))
	} else {
		g.pushData(pub, 0)
		o := rapid.SampledFrom([]byte{ms.OP_CHECKSIG, ms.OP_CHECKSIG, ms.OP_CHECKSIGVERIFY}).Draw(t, "csOp")
		if o == ms.OP_CHECKSIGVERIFY && !valid && rapid.IntRange(0, 9).Draw(t, "verifyBad") != 0 {
			o = ms.OP_CHECKSIG
		}
		g.op(o)
		g.pop()
		g.pop()
		if o == ms.OP_CHECKSIGVERIFY {
			if !valid {
				g.dead = true
			}
		} else if valid {
			g.push(g.kn([]byte{1}))
		} else {
			g.push(g.kn([]byte{}))
		}
	}
	if nonEmptyFail && (g.sv == svTap || g.flags&ms.NullFail != 0) {
		g.dead = true
	}
	return true
}

func (g *gram) checkmultisig() bool {
	t := g.t
	// gather up to 3 unused holes (in stack order, deepest first)
	var avail []int // hole indices
	for i := len(g.stack) - 1; i >= 0; i-- {
		it := g.top(i)
		if it.hole >= 0 && !g.holes[it.hole].used {
			avail = append(avail, it.hole)
		}
	}
	if len(avail) > 3 {
		avail = avail[:3]
	}
	m := rapid.IntRange(0, len(avail)).Draw(t, "m")
	n := m + rapid.IntRange(0, 2).Draw(t, "extraKeys")
	switch rapid.IntRange(0, 14).Draw(t, "bigN") {
	case 0:
		n = 20
	case 1:
		n = 21
	}
	if n < m {
		n = m
	}
	if n == 0 && rapid.Bool().Draw(t, "avoidZeroKeys") {
		n = 1
	}
	if g.ops+n+8 > 195 && n <= 20 {
		return false
	}
	dummy := []byte{}
	if rapid.IntRange(0, 11).Draw(t, "badDummy") == 0 {
		dummy = []byte{1}
		g.note("non-empty-dummy")
		if g.flags&ms.NullDummy != 0 {
			g.dead = true
		}
	}
	g.pushData(dummy, 0)
	allValid := true
	var used []*sigHole
	for i := 0; i < m; i++ {
		// locate the placeholder for avail[i]
		depth := -1
		for dpt := 0; dpt < len(g.stack); dpt++ {
			if g.top(dpt).hole == avail[i] {
				depth = dpt
				break
			}
		}
		if depth < 0 {
			return true
		}
		g.bringToTop(depth)
		h := g.holes[avail[i]]
		if !g.sigOutcome(h) {
			allValid = false
		}
		used = append(used, h)
	}
	g.pushNum(int64(m))
	// keys: the signers' keys in order, fillers interleaved after them
	ki := 0
	for i := 0; i < n; i++ {
		if ki < len(used) && (n-i == len(used)-ki || rapid.Bool().Draw(t, "signerNext")) {
			g.pushData(g.pubBytes(used[ki]), 0)
			ki++
		} else {
			g.pushData(key(16+(i%6)).Compressed(), 0)
		}
	}
	g.pushNum(int64(n))
	o := rapid.SampledFrom([]byte{ms.OP_CHECKMULTISIG, ms.OP_CHECKMULTISIG, ms.OP_CHECKMULTISIGVERIFY}).Draw(t, "cmsOp")
	g.op(o)
	if n > 20 {
		g.dead = true
		return true
	}
	g.ops += n
	for i := 0; i < n+m+3; i++ {
		g.pop()
	}
	if !allValid && m > 0 && g.flags&ms.NullFail != 0 {
		g.dead = true
	}
	if o == ms.OP_CHECKMULTISIGVERIFY {
		if !allValid {
			g.dead = true
		}
		return true
	}
	if allValid {
		g.push(g.kn([]byte{1}))
	} else {
		g.push(g.kn([]byte{}))
	}
	return true
}

func (g *gram) locktime() {
	t := g.t
	if rapid.Bool().Draw(t, "cltv") {
		n := genCLTVOperand(t, g.tx)
		g.pushNum(n)
		g.op(ms.OP_CHECKLOCKTIMEVERIFY)
		if g.flags&ms.CheckLockTimeVerify != 0 {
			txl := int64(g.tx.LockTime)
			okType := (txl < ms.LockTimeThreshold) == (n < ms.LockTimeThreshold)
			if n < 0 || n > 0x7fffffffff || !okType || n > txl || g.tx.In[g.idx].Sequence == 0xffffffff {
				g.dead = true
			}
		} else if g.flags&ms.DiscourageUpgradableNops != 0 {
			// unreachable with the flag sets in use (standard has CLTV)
		}
	} else {
		n := genCSVOperand(t, g.tx.In[g.idx].Sequence)
		g.pushNum(n)
		g.op(ms.OP_CHECKSEQUENCEVERIFY)
		if g.flags&ms.CheckSequenceVerify != 0 && (n < 0 || n&(1<<31) == 0) {
			seq := int64(g.tx.In[g.idx].Sequence)
			const mask = ms.SequenceTypeFlag | ms.SequenceMask
			if n < 0 || n > 0x7fffffffff || g.tx.Version < 2 || seq&(1<<31) != 0 ||
				(seq&mask < ms.SequenceTypeFlag) != (n&mask < ms.SequenceTypeFlag) || n&mask > seq&mask {
				g.dead = true
			}
		}
	}
	if rapid.IntRange(0, 3).Draw(t, "dropOperand") != 0 {
		g.op(ms.OP_DROP)
		g.pop()
	}
}

// finish leaves exactly one true element (most of the time).
func (g *gram) finish() {
	t := g.t
	if rapid.IntRange(0, 11).Draw(t, "sloppyEnd") == 0 {
		g.note("no-cleanup")
		return
	}
	for len(g.stack) > 1 && g.ops < 199 {
		if len(g.stack) > 2 {
			g.op(ms.OP_2DROP)
			g.pop()
			g.pop()
		} else {
			g.op(ms.OP_NIP)
			s := g.stack
			s[len(s)-2] = s[len(s)-1]
			g.pop()
		}
	}
	if len(g.stack) == 0 {
		g.pushNum(1)
		return
	}
	if tr, _ := truthy(g.top(0)); !tr && g.ops < 200 {
		g.op(ms.OP_NOT) // a false top that is numeric becomes 1
		it := g.pop()
		if n, ok := g.num(&it); ok && n == 0 {
			g.push(g.kn([]byte{1}))
		} else {
			g.push(g.kn([]byte{}))
		}
	}
}

// genGrammarSpend builds the script and wraps it in a spend.
func genGrammarSpend(t *rapid.T, fs flagSet) *spend {
	sk := genSkeleton(t, 1)
	idx := rapid.IntRange(0, len(sk.tx.In)-1).Draw(t, "idx")
	layer := rapid.SampledFrom([]string{"p2sh", "tapscript", "bare", "p2wsh", "p2sh", "p2sh-p2wsh", "tapscript", "bare"}).Draw(t, "layer")
	g := &gram{t: t, flags: fs.model, tx: sk.tx, idx: idx, sepPos: 0xffffffff}
	switch layer {
	case "p2wsh", "p2sh-p2wsh":
		g.sv = svV0
	case "tapscript":
		g.sv = svTap
	}
	// initial stack: data items and signature placeholders
	nInit := rapid.IntRange(0, 5).Draw(t, "nInit")
	for i := 0; i < nInit; i++ {
		if rapid.IntRange(0, 2).Draw(t, "initHole") == 0 {
			h := &sigHole{k: key(genKeyIdx().Draw(t, "holeKey")), hashType: rapid.SampledFrom(definedHashTypes).Draw(t, "holeHashType")}
			if g.sv == svTap {
				h.hashType = rapid.SampledFrom(tapHashTypes).Draw(t, "holeTapHashType")
			}
			if g.sv == svBase {
				h.pubFmt = genPubFormat().Draw(t, "holePubFmt")
			}
			if rapid.IntRange(0, 9).Draw(t, "holeBad") == 0 {
				h.mode = rapid.IntRange(1, 2).Draw(t, "holeMode")
			}
			g.holes = append(g.holes, h)
			g.nextID++
			it := aItem{hole: len(g.holes) - 1, id: g.nextID}
			g.init = append(g.init, it)
		} else {
			var v []byte
			if rapid.Bool().Draw(t, "initNum") {
				v = ms.EncodeNum(rapid.SampledFrom(boundaryNums).Draw(t, "initNumVal"))
			} else {
				v = fill(rapid.SampledFrom([]int{0, 1, 2, 32, 33, 520}).Draw(t, "initLen"), 0x11)
			}
			g.init = append(g.init, g.kn(v))
		}
	}
	g.stack = append([]aItem{}, g.init...)
	nSteps := rapid.SampledFrom([]int{2, 5, 10, 15, 25, 40, 60}).Draw(t, "nSteps")
	for i := 0; i < nSteps; i++ {
		if g.dead && rapid.IntRange(0, 2).Draw(t, "stopAfterDead") != 0 {
			break
		}
		if (g.sv != svTap && g.ops > 185) || len(g.b.B) > 9000 || len(g.stack)+len(g.alt) > 900 {
			break
		}
		g.step(3)
	}
	g.finish()
	script := g.b.B

	// placement
	s := &spend{tx: sk.tx, idx: idx, prevouts: sk.prevouts, gen: "g2-grammar:" + layer}
	var tree *ms.TapTree
	var prog []byte
	switch layer {
	case "bare":
		sk.prevouts[idx].PkScript = script
	case "p2sh":
		sk.prevouts[idx].PkScript = ms.P2SHScript(script)
	case "p2wsh":
		sk.prevouts[idx].PkScript = ms.P2WSHScript(script)
	case "p2sh-p2wsh":
		prog = ms.P2WSHScript(script)
		sk.prevouts[idx].PkScript = ms.P2SHScript(prog)
	case "tapscript":
		leaves := []ms.TapLeaf{{Version: 0xc0, Script: script}}
		if rapid.Bool().Draw(t, "secondLeaf") {
			leaves = append(leaves, ms.TapLeaf{Version: 0xc0, Script: []byte{ms.OP_1}})
		}
		tree = ms.BuildTapTree(key(8), leaves, nil)
		sk.prevouts[idx].PkScript = tree.PkScript()
	}
	sk.finalizeOutpoints()

	// signatures for the placeholders
	items := make([][]byte, len(g.init))
	for i, it := range g.init {
		if it.hole < 0 {
			items[i] = it.val
			continue
		}
		h := g.holes[it.hole]
		switch g.sv {
		case svTap:
			o := cleanTapSig()
			o.hashType = h.hashType
			o.wrongKey = h.mode == 1
			if h.mode == 2 {
				o.flip = 7
			}
			ctx := &ms.TapCtx{TapLeafHash: ms.TapLeafHash(0xc0, script), CodeSepPos: h.sepPos}
			if !h.used {
				ctx.CodeSepPos = 0xffffffff
			}
			items[i] = makeTapSig(h.k, sk.tx, idx, sk.prevouts, true, ctx, o)
		default:
			o := cleanSig(h.hashType)
			o.wrongKey = h.mode == 1
			if h.mode == 2 {
				o.flip = 40
			}
			code := script[h.codeStart:]
			items[i] = makeECDSASig(h.k, func(ht byte) []byte {
				if g.sv == svV0 {
					return ms.WitnessV0SigHash(sk.tx, idx, code, uint32(ht), sk.prevouts[idx].Value)
				}
				return ms.LegacySigHash(sk.tx, idx, code, uint32(ht))
			}, o)
		}
	}
	in := &sk.tx.In[idx]
	switch layer {
	case "bare":
		in.ScriptSig = pushAll(items)
	case "p2sh":
		in.ScriptSig = append(pushAll(items), pushWith(script, 0)...)
	case "p2wsh":
		in.Witness = append(cloneItems(items), script)
	case "p2sh-p2wsh":
		in.Witness = append(cloneItems(items), script)
		in.ScriptSig = ms.PushData(prog)
	case "tapscript":
		in.Witness = append(cloneItems(items), script, tree.ControlBlock(0))
	}
	// stage targeting: the final checks (legacy placements) and the witness
	// program checks (witness placements)
	switch layer {
	case "bare", "p2sh":
		if !g.dead && rapid.IntRange(0, 1).Draw(t, "finalTarget") == 1 {
			if fs.model&ms.Witness != 0 && (fs.model&ms.CleanStack == 0 || rapid.Bool().Draw(t, "finalKind")) {
				in.Witness = [][]byte{{1}}
				g.note("witness-on-non-witness-spend")
			} else {
				in.ScriptSig = append([]byte{ms.OP_1}, in.ScriptSig...)
				g.note("extra-item-at-stack-bottom")
			}
		}
	default:
		if rapid.IntRange(0, 4).Draw(t, "witprogTarget") == 4 {
			switch rapid.IntRange(0, 2).Draw(t, "witprogEdit") {
			case 0:
				pk := append([]byte{}, sk.prevouts[idx].PkScript...)
				pk[len(pk)-1] ^= 1
				sk.prevouts[idx].PkScript = pk
				g.note("program-byte-flipped-in-the-output")
			case 1:
				w := cloneItems(in.Witness)
				w[len(w)-1] = append(w[len(w)-1], 0x61)
				in.Witness = w
				g.note("last-witness-item-extended")
			default:
				in.ScriptSig = append([]byte{ms.OP_0}, in.ScriptSig...)
				g.note("scriptSig-edited-on-witness-spend")
			}
		}
	}
	s.note = strings.Join(g.notes, "; ")
	if g.dead {
		s.note += " [generator expects failure]"
	}
	return s
}

func propGrammar(t *rapid.T) {
	fs := genFlagSet().Draw(t, "flags")
	s := genGrammarSpend(t, fs)
	compare(t, recGrammar, s, fs)
}

func TestGrammar(t *testing.T) { rapid.Check(t, propGrammar) }
