package c06

import (
	"fmt"
	"testing"

	"pgregory.net/rapid"

	"verif/internal/ev"
	ms "verif/internal/model/script"
)

// Templates that sit exactly at / one past each bound. Every template knows
// its verdict by construction (label); label != model is a harness defect
// (VERIF-INFRA), model != btcd is a violation: a three-way check.

var recBounds = ev.New("C06", "limit-templates",
	"scripts built to sit at limit-1 / limit / limit+1 of every bound: 200/201/202 counted opcodes (plain, inside a dead branch, via CHECKMULTISIG key count, "+
		"OP_RESERVED not counted), 519/520/521-byte elements (script push, scriptSig push, witness item), 999/1000/1001 combined stack (main+alt, scriptSig+scriptPubKey, tapscript), "+
		"9999/10000/10001-byte scripts (scriptPubKey, scriptSig, witness script, tapscript), 19/20/21 multisig keys, tapscript sigops budget -1/0/+1, "+
		"4/5-byte arithmetic operands and 5/6-byte CLTV/CSV operands; legacy, P2SH, P2WSH and tapscript placements; three-way oracle: by-construction label = model = btcd; "+
		"every case is non-trivial; distinct by hash(tx, prevouts, flags)",
	"valid", "invalid@scriptPubKey", "invalid@witscript", "invalid@scriptSig")

type boundCase struct {
	name   string
	script []byte   // the script under test
	items  [][]byte // initial stack
	layers []string // admissible placements
	// valid says whether the script itself (run on items) ends with exactly
	// one true element without breaking a bound, per signature version.
	valid func(layer string) bool
	// leftover is the number of stack items at the end when it is not 1
	// (legacy placements tolerate extra items unless CLEANSTACK is set).
	leftover int
	sigKey   *ms.Key // when set, items[sigAt] is replaced by a signature for this key
	sigAt    int
	tapSig   bool // the signature is a BIP342 one
	lockTime *uint32
	sequence *uint32
}

func repeat(op byte, n int) []byte { return fill(n, op) }

// dropBlocks returns a sequence of "<push> DROP" blocks of exactly n bytes
// (n >= 2) using minimal push forms, and the number of DROPs used.
func dropBlocks(n int) ([]byte, int) {
	var out []byte
	drops := 0
	block := func(size int) {
		// size = total bytes of "<push L> DROP"
		var l int
		switch {
		case size >= 260:
			l = size - 4
		case size >= 79:
			l = size - 3
		default:
			l = size - 2
		}
		if l == 0 {
			out = append(out, ms.OP_0, ms.OP_DROP)
		} else {
			data := fill(l, 0x42)
			if l == 1 {
				data = []byte{0x42}
			}
			out = append(out, ms.PushData(data)...)
			out = append(out, ms.OP_DROP)
		}
		drops++
	}
	single := func(size int) bool {
		return (size >= 2 && size <= 77) || (size >= 79 && size <= 258) || (size >= 260 && size <= 524)
	}
	for n > 0 {
		switch {
		case n >= 524+2 && single(524) && (n-524 >= 2):
			block(524)
			n -= 524
		case single(n):
			block(n)
			n = 0
		default:
			block(40)
			n -= 40
		}
	}
	return out, drops
}

func genBoundCase(t *rapid.T) *boundCase {
	kind := rapid.SampledFrom([]string{"opcount", "opcount-dead", "opcount-multisig", "opcount-reserved", "elem-script", "elem-item",
		"stack", "stack-alt", "stack-tapscript", "size", "size-tapscript", "multisig-keys", "num-operand", "locktime-operand", "tap-budget", "tap-budget"}).Draw(t, "bound")
	delta := rapid.SampledFrom([]int{-1, 0, 0, 1}).Draw(t, "delta")
	all := []string{"bare", "p2sh", "p2wsh", "p2sh-p2wsh", "tapscript"}
	c := &boundCase{name: fmt.Sprintf("%s%+d", kind, delta)}
	b := &ms.Builder{}
	switch kind {
	case "opcount":
		n := 201 + delta
		c.script = b.Op(ms.OP_1).Raw(repeat(ms.OP_NOP, n)).B
		c.layers = all
		c.valid = func(l string) bool { return l == "tapscript" || n <= 201 }
	case "opcount-dead":
		n := 201 + delta
		a := rapid.IntRange(0, n-2).Draw(t, "deadOps")
		c.script = b.Op(ms.OP_0, ms.OP_IF).Raw(repeat(ms.OP_NOP, a)).Op(ms.OP_ENDIF).Raw(repeat(ms.OP_NOP, n-2-a)).Op(ms.OP_1).B
		c.layers = all
		c.valid = func(l string) bool { return l == "tapscript" || n <= 201 }
	case "opcount-multisig":
		// 0-of-k multisig: CHECKMULTISIG counts as 1 + k
		k := rapid.SampledFrom([]int{0, 1, 3, 20}).Draw(t, "keys")
		n := 201 + delta
		nops := n - 1 - k
		b.Raw(repeat(ms.OP_NOP, nops)).Op(ms.OP_0, ms.OP_0)
		for i := 0; i < k; i++ {
			b.Push(key(i).Compressed())
		}
		c.script = b.Num(int64(k)).Op(ms.OP_CHECKMULTISIG).B
		c.layers = []string{"bare", "p2wsh", "p2sh-p2wsh"}
		if len(c.script) <= 520 {
			c.layers = append(c.layers, "p2sh")
		}
		c.valid = func(l string) bool { return n <= 201 }
	case "opcount-reserved":
		// OP_RESERVED (0x50) in a dead branch does not count
		n := 201 + delta
		c.script = b.Op(ms.OP_0, ms.OP_IF).Raw(repeat(ms.OP_RESERVED, 30)).Op(ms.OP_ENDIF).Raw(repeat(ms.OP_NOP, n-2)).Op(ms.OP_1).B
		c.layers = []string{"bare", "p2sh", "p2wsh", "p2sh-p2wsh"}
		c.valid = func(l string) bool { return n <= 201 }
	case "elem-script":
		l := 520 + delta
		c.script = b.Raw(ms.PushData(fill(l, 0x33))).Op(ms.OP_DROP, ms.OP_1).B
		c.layers = []string{"bare", "p2wsh", "p2sh-p2wsh", "tapscript"}
		c.valid = func(string) bool { return l <= 520 }
	case "elem-item":
		l := 520 + delta
		c.items = [][]byte{fill(l, 0x34)}
		c.script = b.Op(ms.OP_DROP, ms.OP_1).B
		c.layers = all
		c.valid = func(string) bool { return l <= 520 }
	case "stack":
		// scriptSig/witness items + pushes in the script
		n := 1000 + delta
		a := rapid.SampledFrom([]int{0, 1, 3}).Draw(t, "initialItems")
		for i := 0; i < a; i++ {
			c.items = append(c.items, []byte{1})
		}
		c.script = repeat(ms.OP_1, n-a)
		c.layers = []string{"bare"}
		c.leftover = n
		c.valid = func(string) bool { return n <= 1000 }
	case "stack-alt":
		n := 1000 + delta
		a := rapid.IntRange(1, 150).Draw(t, "altItems")
		for i := 0; i < a; i++ {
			b.Op(ms.OP_1, ms.OP_TOALTSTACK)
		}
		c.script = b.Raw(repeat(ms.OP_1, n-a)).B
		c.layers = []string{"bare"}
		c.leftover = n - a
		c.valid = func(string) bool { return n <= 1000 }
	case "stack-tapscript":
		n := 1000 + delta
		a := rapid.IntRange(0, 200).Draw(t, "altItems")
		for i := 0; i < a; i++ {
			b.Op(ms.OP_1, ms.OP_TOALTSTACK)
		}
		b.Raw(repeat(ms.OP_1, n-a))
		// clean up: leave one element
		for i := 0; i < (n-a-1)/2; i++ {
			b.Op(ms.OP_2DROP)
		}
		if (n-a-1)%2 == 1 {
			b.Op(ms.OP_DROP)
		}
		c.script = b.B
		c.layers = []string{"tapscript"}
		c.valid = func(string) bool { return n <= 1000 }
	case "size", "size-tapscript":
		n := 10000 + delta
		body, _ := dropBlocks(n - 1)
		c.script = append(body, ms.OP_1)
		if len(c.script) != n {
			t.Fatalf("VERIF-INFRA: size template produced %d bytes, wanted %d", len(c.script), n)
		}
		if kind == "size" {
			c.layers = []string{"bare", "p2wsh", "p2sh-p2wsh", "scriptSig"}
			c.valid = func(string) bool { return n <= 10000 }
		} else {
			c.layers = []string{"tapscript"}
			c.valid = func(string) bool { return true }
		}
	case "multisig-keys":
		k := 20 + delta
		c.sigKey = key(0)
		c.items = [][]byte{{}, nil}
		c.sigAt = 1
		b.Op(ms.OP_1)
		for i := 0; i < k; i++ {
			b.Push(key(i % nKeys).Compressed())
		}
		c.script = b.Num(int64(k)).Op(ms.OP_CHECKMULTISIG).B
		c.layers = []string{"bare", "p2wsh", "p2sh-p2wsh"}
		c.valid = func(string) bool { return k <= 20 }
	case "tap-budget":
		// k signature checks of one duplicated 64-byte signature; the
		// budget is 50 + serialized witness size and every check of a
		// non-empty signature costs 50; a dropped data push pads the script
		// so that the weight left after the last check is exactly `left`
		checks := rapid.IntRange(2, 14).Draw(t, "checks")
		left := rapid.SampledFrom([]int{-50, -2, -1, 0, 0, 1, 49}).Draw(t, "left")
		k := key(rapid.IntRange(0, 5).Draw(t, "key"))
		mk := func(pad int) []byte {
			bb := &ms.Builder{}
			if pad >= 0 {
				bb.Raw(ms.PushData(fill(pad, 0xaa))).Op(ms.OP_DROP)
			}
			bb.Push(k.XOnly())
			for i := 0; i < checks-1; i++ {
				bb.Op(ms.OP_2DUP, ms.OP_CHECKSIGVERIFY)
			}
			return bb.Op(ms.OP_CHECKSIG).B
		}
		weight := func(scr []byte) int {
			return 50 + int(ms.SerializedWitnessSize([][]byte{fill(64, 0), scr, fill(33, 0)})) - 50*checks
		}
		c.script = nil
		for pad := -1; pad <= 520; pad++ {
			if pad == 0 {
				continue // "OP_0 DROP" would need the OP_0 form; skip
			}
			if scr := mk(pad); weight(scr) == left {
				c.script = scr
				break
			}
		}
		if c.script == nil {
			// not reachable by padding (too many checks for the size): use
			// the unpadded script and whatever weight it has
			c.script = mk(-1)
			left = weight(c.script)
		}
		c.name = fmt.Sprintf("tap-budget/checks=%d/left=%d", checks, left)
		c.sigKey, c.tapSig = k, true
		c.items = [][]byte{nil}
		c.layers = []string{"tapscript"}
		c.valid = func(string) bool { return left >= 0 }
	case "num-operand":
		// 4-byte operands are numbers, 5-byte ones are not (but 1ADD may
		// produce a 5-byte result)
		v := rapid.SampledFrom([]int64{2147483647, -2147483647, 2147483648, -2147483648, 4294967295}).Draw(t, "operand")
		o := rapid.SampledFrom([]byte{ms.OP_1ADD, ms.OP_NEGATE, ms.OP_ABS, ms.OP_0NOTEQUAL}).Draw(t, "numOp")
		twice := rapid.Bool().Draw(t, "twice")
		b.Num(v).Op(o)
		if twice {
			b.Op(o)
		}
		c.script = b.Op(ms.OP_DROP, ms.OP_1).B
		c.layers = all
		c.valid = func(string) bool {
			if v > 2147483647 || v < -2147483647 {
				return false
			}
			if twice && o == ms.OP_1ADD && v == 2147483647 {
				return false // the first result, 2^31, needs 5 bytes
			}
			return true
		}
	case "locktime-operand":
		// CLTV accepts 5-byte operands; the lock time is 0xffffffff
		lt, seq := uint32(0xffffffff), uint32(0)
		c.lockTime, c.sequence = &lt, &seq
		v := rapid.SampledFrom([]int64{0xffffffff, 0x100000000, 0x7fffffffff, 0x8000000000, 500000000}).Draw(t, "operand")
		c.script = b.Num(v).Op(ms.OP_CHECKLOCKTIMEVERIFY, ms.OP_DROP, ms.OP_1).B
		c.layers = all
		c.valid = func(string) bool { return v <= 0xffffffff }
	}
	return c
}

func propBounds(t *rapid.T) {
	c := genBoundCase(t)
	// flag sets where the layers are meaningful
	fs := flagSets[rapid.SampledFrom([]int{4, 5, 6, 6, 7, 7}).Draw(t, "flagset")]
	layer := rapid.SampledFrom(c.layers).Draw(t, "layer")
	sk := genSkeleton(t, 1)
	idx := rapid.IntRange(0, len(sk.tx.In)-1).Draw(t, "idx")
	if c.lockTime != nil {
		sk.tx.LockTime = *c.lockTime
		sk.tx.In[idx].Sequence = *c.sequence
	}
	s := &spend{tx: sk.tx, idx: idx, prevouts: sk.prevouts, gen: "g2-bound:" + c.name + "/" + layer}
	var tree *ms.TapTree
	var prog []byte
	switch layer {
	case "bare":
		sk.prevouts[idx].PkScript = c.script
	case "scriptSig":
		sk.prevouts[idx].PkScript = []byte{ms.OP_1}
	case "p2sh":
		sk.prevouts[idx].PkScript = ms.P2SHScript(c.script)
	case "p2wsh":
		sk.prevouts[idx].PkScript = ms.P2WSHScript(c.script)
	case "p2sh-p2wsh":
		prog = ms.P2WSHScript(c.script)
		sk.prevouts[idx].PkScript = ms.P2SHScript(prog)
	case "tapscript":
		tree = ms.BuildTapTree(key(9), []ms.TapLeaf{{Version: 0xc0, Script: c.script}}, nil)
		sk.prevouts[idx].PkScript = tree.PkScript()
	}
	sk.finalizeOutpoints()
	items := cloneItems(c.items)
	if c.sigKey != nil && c.tapSig {
		ctx := &ms.TapCtx{TapLeafHash: ms.TapLeafHash(0xc0, c.script), CodeSepPos: 0xffffffff}
		items[c.sigAt] = makeTapSig(c.sigKey, sk.tx, idx, sk.prevouts, true, ctx, cleanTapSig())
	} else if c.sigKey != nil {
		o := cleanSig(1)
		items[c.sigAt] = makeECDSASig(c.sigKey, func(ht byte) []byte {
			if layer == "p2wsh" || layer == "p2sh-p2wsh" {
				return ms.WitnessV0SigHash(sk.tx, idx, c.script, uint32(ht), sk.prevouts[idx].Value)
			}
			return ms.LegacySigHash(sk.tx, idx, c.script, uint32(ht))
		}, o)
	}
	in := &sk.tx.In[idx]
	switch layer {
	case "bare":
		in.ScriptSig = pushAll(items)
	case "scriptSig":
		in.ScriptSig = c.script
	case "p2sh":
		in.ScriptSig = append(pushAll(items), ms.PushData(c.script)...)
	case "p2wsh":
		in.Witness = append(items, c.script)
	case "p2sh-p2wsh":
		in.Witness = append(items, c.script)
		in.ScriptSig = ms.PushData(prog)
	case "tapscript":
		in.Witness = append(items, c.script, tree.ControlBlock(0))
	}

	// by-construction label
	label := c.valid(layer)
	witness := fs.model&ms.Witness != 0
	switch layer {
	case "bare", "scriptSig":
		if label && fs.model&ms.CleanStack != 0 && c.leftover > 1 {
			label = false
		}
		if layer == "scriptSig" && label {
			// the size template run as scriptSig leaves its own single
			// element plus the scriptPubKey's OP_1
			if fs.model&ms.CleanStack != 0 {
				label = false
			}
		}
	case "p2sh":
		// a 521-byte initial item cannot be pushed by the scriptSig either
	case "p2wsh", "p2sh-p2wsh":
		if !witness {
			label = true // anyone-can-spend before segwit
			if layer == "p2sh-p2wsh" && fs.model&ms.CleanStack != 0 {
				label = false
			}
		}
	case "tapscript":
		if fs.model&ms.Taproot == 0 {
			label = true
		}
	}
	r := compare(t, recBounds, s, fs)
	if r.Valid() != label {
		t.Fatalf("VERIF-INFRA: limit template %s/%s under %s: by-construction label valid=%v but the model says %s\n%s",
			c.name, layer, fs.name, label, r, s.describe(fs))
	}
}

func TestBounds(t *testing.T) { rapid.Check(t, propBounds) }
