package c06

import (
	"fmt"
	"sync"

	"pgregory.net/rapid"

	ms "verif/internal/model/script"
	"verif/internal/model/secp"
)

// ---------------------------------------------------------------------------
// key ring (model keys; deterministic)

var (
	keyMu   sync.Mutex
	keyRing = map[int]*ms.Key{}
)

const nKeys = 24

func key(i int) *ms.Key {
	keyMu.Lock()
	defer keyMu.Unlock()
	k, ok := keyRing[i]
	if !ok {
		k = ms.NewKey([]byte(fmt.Sprintf("ring-%d", i)))
		keyRing[i] = k
	}
	return k
}

func genKeyIdx() *rapid.Generator[int] { return rapid.IntRange(0, 7) }

// pubkey encodings
const (
	pkCompressed = iota
	pkUncompressed
	pkHybrid
	pkOffCurve // 33 bytes, 02 prefix, x not on the curve
)

func encodePub(k *ms.Key, format int) []byte {
	switch format {
	case pkUncompressed:
		return k.Uncompressed()
	case pkHybrid:
		return k.Hybrid()
	case pkOffCurve:
		b := k.Compressed()
		b[0] = 2
		for i := 0; i < 64; i++ {
			b[32] = byte(i)
			if _, _, ok := secp.ParsePubKey(b); !ok {
				return b
			}
		}
		return b
	}
	return k.Compressed()
}

func genPubFormat() *rapid.Generator[int] {
	return rapid.SampledFrom([]int{pkCompressed, pkCompressed, pkCompressed, pkCompressed, pkUncompressed, pkHybrid, pkOffCurve, pkCompressed})
}

// ---------------------------------------------------------------------------
// transaction context

var (
	lockTimes = []uint32{0, 1, 2, 100, 499999999, 500000000, 500000001, 1700000000, 0xffffffff, 0x7fffffff, 0x80000000}
	sequences = []uint32{0xffffffff, 0xfffffffe, 0, 1, 2, 0xffff, 0x10000, 1 << 22, 1<<22 | 1, 1<<22 | 0xffff, 1 << 31, 1<<31 | 1, 1<<31 | 1<<22 | 5, 0x7fffffff, 0x00400005, 5}
	versions  = []uint32{1, 2, 2, 2, 1, 0, 3, 0xffffffff, 0x80000000}
	amounts   = []int64{0, 1, 546, 100000, 2100000000000000, 0x7fffffffffffffff, 5000000000}
)

func genLockTime() *rapid.Generator[uint32] {
	return rapid.OneOf(rapid.SampledFrom(lockTimes), rapid.Uint32Range(0, 1000), rapid.Uint32())
}

func genSequence() *rapid.Generator[uint32] {
	return rapid.OneOf(rapid.SampledFrom(sequences), rapid.SampledFrom(sequences), rapid.Uint32())
}

func genAmount() *rapid.Generator[int64] {
	return rapid.OneOf(rapid.SampledFrom(amounts), rapid.Int64Range(0, 2100000000000000))
}

// dummyPkScripts are the previous-output scripts of the inputs that are not
// under test (they only feed taproot signature hashes).
func genDummyPkScript() *rapid.Generator[[]byte] {
	return rapid.Custom(func(t *rapid.T) []byte {
		switch rapid.IntRange(0, 4).Draw(t, "dummy") {
		case 0:
			return ms.P2PKHScript(key(20).Compressed())
		case 1:
			return ms.P2WPKHScript(key(21).Compressed())
		case 2:
			return append([]byte{ms.OP_1, 32}, key(22).XOnly()...)
		case 3:
			return []byte{ms.OP_1}
		}
		return rapid.SliceOfN(rapid.Byte(), 0, 40).Draw(t, "dummyScript")
	})
}

// skeleton is a transaction whose inputs are not signed yet.
type skeleton struct {
	tx       *ms.Tx
	prevouts []ms.TxOut
}

// genSkeleton draws version, lock time, 1-4 inputs (sequences, dummy
// prevouts) and 0-4 outputs. The previous outpoints are fixed later by
// finalizeOutpoints once every prevout script is known.
func genSkeleton(t *rapid.T, minIn int) *skeleton {
	nIn := rapid.SampledFrom([]int{1, 1, 2, 2, 3, 4}).Draw(t, "nIn")
	if nIn < minIn {
		nIn = minIn
	}
	nOut := rapid.IntRange(0, 4).Draw(t, "nOut")
	sk := &skeleton{tx: &ms.Tx{
		Version:  rapid.SampledFrom(versions).Draw(t, "version"),
		LockTime: genLockTime().Draw(t, "locktime"),
	}}
	for i := 0; i < nIn; i++ {
		sk.tx.In = append(sk.tx.In, ms.TxIn{Sequence: genSequence().Draw(t, "sequence"), PrevIndex: uint32(i), ScriptSig: []byte{}})
		sk.prevouts = append(sk.prevouts, ms.TxOut{Value: genAmount().Draw(t, "amount"), PkScript: genDummyPkScript().Draw(t, "dummyPk")})
	}
	for i := 0; i < nOut; i++ {
		sk.tx.Out = append(sk.tx.Out, ms.TxOut{
			Value:    rapid.Int64Range(0, 1000000).Draw(t, "outValue"),
			PkScript: rapid.SliceOfN(rapid.Byte(), 0, 30).Draw(t, "outScript"),
		})
	}
	return sk
}

// fundingTx is the transaction whose outputs are the prevouts; every input
// of the spending transaction refers to it so that a blockchain.UtxoViewpoint
// can be populated through exported API.
func fundingTx(prevouts []ms.TxOut) *ms.Tx {
	f := &ms.Tx{Version: 1,
		In: []ms.TxIn{{PrevIndex: 0xffffffff, ScriptSig: []byte{0x51, 0x51}, Sequence: 0xffffffff}}}
	for _, p := range prevouts {
		f.Out = append(f.Out, ms.TxOut{Value: p.Value, PkScript: p.PkScript})
	}
	return f
}

// finalizeOutpoints must be called once all prevout scripts are final and
// before anything is signed.
func (sk *skeleton) finalizeOutpoints() {
	id := fundingTx(sk.prevouts).TxID()
	for i := range sk.tx.In {
		sk.tx.In[i].PrevHash = id
		sk.tx.In[i].PrevIndex = uint32(i)
	}
}

// ---------------------------------------------------------------------------
// small helpers

// pushWith encodes a data push with a chosen opcode form: 0 = minimal
// (Builder.Push), 1 = direct/PUSHDATA by length without the small-number
// opcodes, 2 = PUSHDATA1, 3 = PUSHDATA2, 4 = PUSHDATA4.
func pushWith(data []byte, form int) []byte {
	switch form {
	case 1:
		return ms.PushData(data)
	case 2:
		if len(data) <= 0xff {
			return append([]byte{ms.OP_PUSHDATA1, byte(len(data))}, data...)
		}
	case 3:
		if len(data) <= 0xffff {
			return append([]byte{ms.OP_PUSHDATA2, byte(len(data)), byte(len(data) >> 8)}, data...)
		}
	case 4:
		return append([]byte{ms.OP_PUSHDATA4, byte(len(data)), byte(len(data) >> 8), byte(len(data) >> 16), byte(len(data) >> 24)}, data...)
	}
	b := &ms.Builder{}
	return b.Push(data).B
}

func pushAll(items [][]byte) []byte {
	b := &ms.Builder{}
	for _, it := range items {
		b.Push(it)
	}
	return b.B
}

func fill(n int, v byte) []byte {
	b := make([]byte, n)
	for i := range b {
		b[i] = v
	}
	return b
}

func cloneItems(w [][]byte) [][]byte {
	out := make([][]byte, len(w))
	for i := range w {
		out[i] = append([]byte{}, w[i]...)
	}
	return out
}
