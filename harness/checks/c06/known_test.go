package c06

import (
	"encoding/hex"
	"fmt"
	"testing"

	"verif/internal/ev"
	ms "verif/internal/model/script"
)

// The exact inputs of the confirmed btcd deviations, replayed in every run:
// the model's verdict is asserted (it is what Bitcoin Core does), btcd's
// verdict is reported as the known finding while it persists.

var recKnown = ev.New("C06", "known-finding-inputs",
	"fixed regression inputs for each listed known finding (exact script/witness/flags/tx); the model verdict is asserted, btcd's deviation is reported as KNOWN-FINDING while it persists",
	"replayed")

func mustHex(s string) []byte {
	b, err := hex.DecodeString(s)
	if err != nil {
		panic(err)
	}
	return b
}

type fixedCase struct {
	sig        string // known-finding signature
	flags      string // name of the flag set
	txHex      string
	idx        int
	amount     int64
	pkScript   string
	modelValid bool
}

var fixedCases = []fixedCase{
	{
		// scriptPubKey: 0 <pk> CHECKSIG NOT, empty scriptSig
		sig: "const-scriptcode-empty-sig-op0", flags: "standard",
		txHex:    "0100000001d4e0905445692e026577000913338761bf7fa933c3f567b2bcd18456355504f70000000000ffffffff0000000000",
		pkScript: "00210316f3a08ffe85c2991515d279b13d79db94cd1543be08217f5ff1d0048b885b1dac91", modelValid: false,
	},
	{
		// P2PK, correct signature whose DER sequence length byte says 0x44 while the body is 0x45 bytes
		sig: "pre-bip66-lax-der-parser", flags: "genesis",
		txHex:    "0100000001b023c88f69c6d35766d50d991ee2949970cdae639f821cd24e0116a1886bd5580000000049483044022100ba270bac22583074aeef5ba25bbe662c1dff74f49ffab88db563038e1337ec3502205aab668a8a0676c36af3dae2b82bc7c6ca67b6c29fc283ce3a6ca6ccb900395701ffffffff0000000000",
		pkScript: "210316f3a08ffe85c2991515d279b13d79db94cd1543be08217f5ff1d0048b885b1dac", modelValid: true,
	},
	{
		// P2WSH: 1 <uncompressed pk> 1 CHECKMULTISIG NOT, witness ["", "", script]
		sig: "multisig-empty-sig-skips-pubkey-encoding", flags: "standard",
		txHex:    "010000000001013a308a97e2dc7add58dfb1504cfafbb05275b2b5bc2c782d4df4b99b8ee247800000000000ffffffff000300004651410416f3a08ffe85c2991515d279b13d79db94cd1543be08217f5ff1d0048b885b1d5f4fb1458c55dc8cb9adc544258e427572c89ed89967e05ba5c2c582c8b8e26551ae9100000000",
		pkScript: "00202ed83921a419e8668e578bd0820a0c3f49874e9651ef547d98708048ec414739", modelValid: false,
	},
	{
		// P2TR script path, leaf "1 CHECKSIGADD", witness ["", 01, leaf, control]: empty signature, 1-byte public key
		sig: "tapscript-empty-sig-unknown-pubkey-not-discouraged", flags: "standard",
		txHex:    "010000000001010b6df494dc3dcc2ac0e1b1415f0e786b9352b6c5e018a087f26eb48eb1a1d41d0000000000ffffffff00040001010251ba21c116f3a08ffe85c2991515d279b13d79db94cd1543be08217f5ff1d0048b885b1d00000000",
		pkScript: "5120c50a5efd18e8115554795ece3b9435f801299839c4494dd82fd064ed08dd9ed8", modelValid: false,
	},
	{
		// P2SH <pk> CHECKSIG SWAP <pk> CHECKSIG BOOLOR; one signature is correct, the other is the same
		// signature with r+n in place of r (strict DER, low S, cannot verify)
		sig: "checksig-unparseable-sig-or-key-skips-nullfail", flags: "standard",
		txHex:    "01000000012c691bf5b7b7483394787fc12cc353ca442a191ded6bd2e2f3d1f1e34244cb9c00000000da48304502210142f6336c6589631061121756aee481cdc5b0d67761e044462d5675c9b6dbae9502202c0a6981951035ddb905983fa5af0fb2ae86976d2862cb8f5d5054da2c9bff3f01473044022042f6336c6589631061121756aee481cf0b01f990b297a40a6d84173ce6a56d5402202c0a6981951035ddb905983fa5af0fb2ae86976d2862cb8f5d5054da2c9bff3f0148210316f3a08ffe85c2991515d279b13d79db94cd1543be08217f5ff1d0048b885b1dac7c210316f3a08ffe85c2991515d279b13d79db94cd1543be08217f5ff1d0048b885b1dac9bffffffff0000000000",
		pkScript: "a91457018645297f854882d4c8a809d2c670093008ef87", modelValid: false,
	},
}

func TestKnownFindingInputs(t *testing.T) {
	for _, fc := range fixedCases {
		tx, err := ms.ParseTx(mustHex(fc.txHex))
		if err != nil {
			t.Fatalf("VERIF-INFRA: %s: %v", fc.sig, err)
		}
		var fs flagSet
		for _, f := range flagSets {
			if f.name == fc.flags {
				fs = f
			}
		}
		s := &spend{tx: tx, idx: fc.idx, prevouts: []ms.TxOut{{Value: fc.amount, PkScript: mustHex(fc.pkScript)}}, gen: "fixed:" + fc.sig}
		r := ms.Verify(s.tx, s.idx, s.prevouts, fs.model)
		recKnown.Case(true, "replayed", s.hash(fs.model), func() any { return s.describe(fs) })
		if r.Valid() != fc.modelValid {
			t.Fatalf("VERIF-INFRA: %s: the model's verdict on the recorded input changed: %s", fc.sig, r)
		}
		verdict, _ := btcdVerdict(s, fs, nil, nil)
		if (verdict == nil) == r.Valid() {
			t.Logf("btcd now agrees with the model on the recorded input of %q (the finding looks repaired)", fc.sig)
			continue
		}
		if !recKnown.Known(fc.sig, fmt.Sprintf("btcd accepts=%v, Core semantics (model) accept=%v", verdict == nil, r.Valid())) {
			t.Fatalf("verdicts differ on the recorded input of %q and the finding is not listed: btcd err=%v, model %s\n%s",
				fc.sig, verdict, r, s.describe(fs))
		}
	}
}
