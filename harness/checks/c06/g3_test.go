package c06

import (
	"testing"

	"pgregory.net/rapid"

	"verif/internal/ev"
)

var recSpend = ev.New("C06", "standard-spends-mutated",
	"G3: P2PK, P2PKH, bare/P2SH/P2WSH/P2SH-P2WSH multisig (1..20 keys), P2WPKH, nested segwit, CHECKSIG-NOT / CHECKMULTISIG-NOT / either-or (NULLFAIL), "+
		"IF/ELSE selectors (MINIMALIF), code separators, CLTV/CSV operands around the tx context, hash locks, signature embedded in the script (FindAndDelete / CONST_SCRIPTCODE), "+
		"P2TR key path and script path (1-8 leaves, CHECKSIG/CHECKSIGVERIFY/CHECKSIGADD, code separators, annex, unknown pubkey types, OP_SUCCESSx shapes, "+
		"CHECKMULTISIG, sigops-budget and initial-stack boundaries, unknown leaf versions), unknown witness versions / lengths, pay-to-anchor; signed with the MODEL signer, "+
		"then 0..n mutations (sig byte flips, hash types, high-S, lax-only DER, hybrid/uncompressed keys, push forms, dummy, extra items, control block edits, "+
		"scriptSig on native witness spends, stray witness); flag sets = soft-fork history + StandardVerifyFlags; oracle = independent interpreter; "+
		"every case is non-trivial (signed spend); distinct by hash(tx, prevouts, flags)",
	"valid", "invalid@scriptSig", "invalid@scriptPubKey", "invalid@redeem", "invalid@witscript", "invalid@witprog", "invalid@final")

func propSpend(t *rapid.T) {
	fs := genFlagSetWitnessHeavy().Draw(t, "flags")
	s := genG3Spend(t, fs)
	compare(t, recSpend, s, fs)
}

func TestStandardSpends(t *testing.T) { rapid.Check(t, propSpend) }
